package exp

import (
	"context"
	"errors"
	"fmt"
	"io"
	"testing"

	"github.com/tychoish/fun"
	"github.com/tychoish/fun/dt"
	"github.com/tychoish/fun/itertool"
)

func drain[T any](it *fun.Iterator[T]) (out []T, errs []string) {
	ctx := context.Background()
	eofs := 0
	for i := 0; i < 1000 && eofs < 2; i++ {
		v, err := it.ReadOne(ctx)
		if err != nil {
			errs = append(errs, err.Error())
			if errors.Is(err, io.EOF) {
				eofs++
			}
			continue
		}
		out = append(out, v)
	}
	if cerr := it.Close(); cerr != nil {
		errs = append(errs, "close:"+cerr.Error())
	}
	return
}

func TestIterCompositions(t *testing.T) {
	sl := func(xs ...int) *fun.Iterator[int] { return fun.SliceIterator(xs) }
	even := func(i int) bool { return i%2 == 0 }
	boom := errors.New("boom")
	failAt := func(k int) fun.Transform[int, int] {
		return func(_ context.Context, i int) (int, error) {
			if i == k {
				return 0, boom
			}
			return i * 10, nil
		}
	}
	skipAt := func(k int) fun.Transform[int, int] {
		return func(_ context.Context, i int) (int, error) {
			if i == k {
				return 0, fun.ErrIteratorSkip
			}
			return i * 10, nil
		}
	}

	show := func(name string, it *fun.Iterator[int]) {
		out, errs := drain(it)
		t.Logf("%-40s %v %v", name, out, errs)
	}
	show("join empty left", sl().Join(sl(1, 2)))
	show("join empty right", sl(1, 2).Join(sl()))
	show("join three", sl(1).Join(sl(), sl(2, 3)))
	show("filter(join)", sl(1, 2).Join(sl(3, 4)).Filter(even))
	show("transform fail first", sl(1, 2, 3).Transform(failAt(1)))
	show("transform fail last", sl(1, 2, 3).Transform(failAt(3)))
	show("transform skip last", sl(1, 2, 3).Transform(skipAt(3)))
	show("transform skip first", sl(1, 2, 3).Transform(skipAt(1)))
	show("join(transform fail mid, more)", sl(1, 2, 3).Transform(failAt(2)).Join(sl(7, 8)))
	show("chain", itertool.Chain(sl(1, 2), sl(), sl(3)))
	show("chain with failing", itertool.Chain(sl(1, 2).Transform(failAt(2)), sl(3)))
	show("uniq", itertool.Uniq(sl(1, 1, 2, 1, 3, 2)))
	show("dropzero", itertool.DropZeroValues(sl(0, 1, 0, 2, 0)))
	show("buffer", sl(1, 2, 3).Buffer(2))
	show("buffer(transform fail mid)", sl(1, 2, 3).Transform(failAt(2)).Buffer(2))
	show("split1", sl(1, 2, 3).Split(1)[0])
	show("mergeslices", itertool.MergeSlices([]int{1, 2}, []int{}, []int{3}))
	show("mergesliceiter", itertool.MergeSliceIterators(fun.SliceIterator([][]int{{1, 2}, {}, {3}})))

	// JSON
	it := sl(1, 2, 3)
	bs, err := it.MarshalJSON()
	t.Log("marshal", string(bs), err)
	it2 := sl(9)
	t.Log("unmarshal err", it2.UnmarshalJSON([]byte("[4,5]")))
	show("unmarshal joined", it2)
	it3 := sl()
	t.Log("unmarshal err", it3.UnmarshalJSON([]byte(`[4,"x",6]`)))
	show("unmarshal bad elem", it3)

	// indexed
	idx := itertool.Indexed(sl(7, 8, 9))
	ps, _ := idx.Slice(context.Background())
	t.Log("indexed", fmt.Sprint(ps))

	// reduce / count
	r, rerr := sl(1, 2, 3, 4).Reduce(func(a, b int) (int, error) { return a + b, nil })(context.Background())
	t.Log("reduce", r, rerr)
	t.Log("count", sl(1, 2, 3).Count(context.Background()))

	// list conversions
	l := &dt.List[int]{}
	l.Append(1, 2, 3)
	show("list iter", l.Iterator())
	show("list reverse", l.Reverse())
}
