package exp

import (
	"syscall"
	"time"
)

func cpuTime() time.Duration {
	var ru syscall.Rusage
	_ = syscall.Getrusage(syscall.RUSAGE_SELF, &ru)
	return time.Duration(ru.Utime.Nano() + ru.Stime.Nano())
}
