package exp

import (
	"context"
	"errors"
	"fmt"
	"sync/atomic"
	"testing"
	"time"

	"github.com/tychoish/fun"
	"github.com/tychoish/fun/dt"
	"github.com/tychoish/fun/dt/cmp"
	"github.com/tychoish/fun/dt/hdrhist"
	"github.com/tychoish/fun/itertool"
	"github.com/tychoish/fun/pubsub"
	"github.com/tychoish/fun/srv"
)

func TestOperationLaunchWaits(t *testing.T) {
	ctx := context.Background()
	var done atomic.Bool
	op := fun.Operation(func(context.Context) { time.Sleep(200 * time.Millisecond); done.Store(true) })
	wait := op.Launch(ctx)
	wait(ctx)
	if !done.Load() {
		t.Errorf("Launch waiter returned before background op completed")
	}
}

func TestAbortStopsOthers(t *testing.T) {
	ctx := context.Background()
	n := 1000
	var started atomic.Int64
	var after atomic.Int64
	var failed atomic.Bool
	err := itertool.ParallelForEach(ctx, fun.HF.Counter(n), func(ctx context.Context, i int) error {
		started.Add(1)
		if failed.Load() {
			after.Add(1)
		}
		if i == 10 {
			failed.Store(true)
			return errors.New("boom")
		}
		time.Sleep(time.Millisecond)
		return nil
	}, fun.WorkerGroupConfNumWorkers(4))
	t.Log("err", err, "started", started.Load(), "started-after-failure", after.Load())
	if after.Load() > 8 {
		t.Errorf("abort mode consumed %d items after the first failure", after.Load())
	}
}

func TestExcludedErrors(t *testing.T) {
	ctx := context.Background()
	sentinel := errors.New("excluded")
	err := itertool.ParallelForEach(ctx, fun.HF.Counter(10), func(ctx context.Context, i int) error {
		if i == 3 {
			return sentinel
		}
		return nil
	}, fun.WorkerGroupConfContinueOnError(), fun.WorkerGroupConfAddExcludeErrors(sentinel))
	t.Log("err", err)
	if errors.Is(err, sentinel) {
		t.Errorf("excluded error was reported")
	}
}

func walkF(l *dt.List[int]) (out []int) {
	n := 0
	for e := l.Front(); e.Ok() && n < 100; e = e.Next() {
		out = append(out, e.Value())
		n++
	}
	return
}
func walkB(l *dt.List[int]) (out []int) {
	n := 0
	for e := l.Back(); e.Ok() && n < 100; e = e.Previous() {
		out = append(out, e.Value())
		n++
	}
	return
}

func TestListAppendAttached(t *testing.T) {
	a := &dt.List[int]{}
	a.Append(1, 2, 3)
	b := &dt.List[int]{}
	b.Append(10, 20)
	e := a.Front().Next() // 2
	r := b.Front().Append(e)
	t.Log("returned same?", r == b.Front(), "a fwd", walkF(a), "a bwd", walkB(a), a.Len(), "b fwd", walkF(b), "b bwd", walkB(b), b.Len())
	if a.Len() != 3 || b.Len() != 2 {
		t.Errorf("append of attached element was not rejected")
	}
}

func TestListSwap(t *testing.T) {
	a := &dt.List[int]{}
	a.Append(1, 2, 3, 4)
	e1 := a.Front()        // 1
	e3 := a.Front().Next().Next() // 3
	ok := e1.Swap(e3)
	t.Log(ok, "fwd", walkF(a), "bwd", walkB(a), a.Len())
	a2 := &dt.List[int]{}
	a2.Append(1, 2, 3, 4)
	ok = a2.Front().Swap(a2.Front().Next())
	t.Log("adjacent", ok, "fwd", walkF(a2), "bwd", walkB(a2), a2.Len())
	a3 := &dt.List[int]{}
	a3.Append(1, 2, 3, 4)
	ok = a3.Front().Next().Swap(a3.Front())
	t.Log("adjacent-rev", ok, "fwd", walkF(a3), "bwd", walkB(a3), a3.Len())
	if fmt.Sprint(walkF(a)) != "[3 2 1 4]" {
		t.Errorf("swap broken fwd=%v", walkF(a))
	}
}

func TestIsSorted(t *testing.T) {
	a := &dt.List[int]{}
	a.Append(1, 3, 2)
	t.Log("[1 3 2] sorted?", a.IsSorted(cmp.LessThanNative[int]))
	b := &dt.List[int]{}
	b.Append(-2, -1, 5)
	t.Log("[-2 -1 5] sorted?", b.IsSorted(cmp.LessThanNative[int]))
	if a.IsSorted(cmp.LessThanNative[int]) || !b.IsSorted(cmp.LessThanNative[int]) {
		t.Errorf("IsSorted wrong")
	}
}

func TestSortMergeUsable(t *testing.T) {
	a := &dt.List[int]{}
	a.Append(3, 1, 2)
	a.SortMerge(cmp.LessThanNative[int])
	t.Log("sorted", walkF(a), walkB(a), a.Len())
	e := a.PopFront()
	t.Log("pop ok?", e.Ok(), e.Value(), "len", a.Len(), walkF(a), "front in list?", a.Front().In(a))
	if !e.Ok() {
		t.Errorf("list unusable after SortMerge")
	}
}

func TestStackItemRemove(t *testing.T) {
	s := &dt.Stack[int]{}
	s.Append(1, 2, 3)
	mid := s.Head().Next() // 2
	ok := mid.Remove()
	out := []int{}
	for it := s.Head(); it.Ok(); it = it.Next() {
		out = append(out, it.Value())
	}
	t.Log("removed?", ok, "walk", out, "len", s.Len())
	if len(out) != s.Len() {
		t.Errorf("stack walk %v disagrees with Len %d", out, s.Len())
	}
}

func TestHDRMax(t *testing.T) {
	h := hdrhist.New(1, 2048, 3)
	err := h.RecordValue(2048)
	t.Log("record max:", err)
	if err != nil {
		t.Errorf("recording max failed: %v", err)
	}
	h2 := hdrhist.New(1, 2047, 3)
	t.Log("record 2047:", h2.RecordValue(2047))
}

func TestGroupKeepsRunning(t *testing.T) {
	var sawCancel atomic.Bool
	list := dt.List[*srv.Service]{}
	list.PushBack(&srv.Service{Run: func(ctx context.Context) error {
		select {
		case <-ctx.Done():
			sawCancel.Store(true)
			return nil
		case <-time.After(300 * time.Millisecond):
			return nil
		}
	}})
	s := srv.Group(list.PopIterator())
	ctx, cancel := context.WithCancel(context.Background())
	defer cancel()
	if err := s.Start(ctx); err != nil {
		t.Fatal(err)
	}
	_ = s.Wait()
	if sawCancel.Load() {
		t.Errorf("group member was cancelled though group ctx is live and Close was not called")
	}
}

func TestCleanupRunsAccepted(t *testing.T) {
	lost := 0
	for i := 0; i < 200; i++ {
		pipe := pubsub.NewUnlimitedQueue[fun.Worker]()
		s := srv.Cleanup(pipe, 0)
		ctx, cancel := context.WithCancel(context.Background())
		if err := s.Start(ctx); err != nil {
			t.Fatal(err)
		}
		var ran atomic.Int64
		accepted := 0
		for j := 0; j < 50; j++ {
			if pipe.Add(func(context.Context) error { ran.Add(1); return nil }) == nil {
				accepted++
			}
		}
		cancel()
		_ = s.Wait()
		if int(ran.Load()) != accepted {
			lost++
		}
	}
	t.Log("rounds with lost cleanup jobs:", lost, "of 200")
	if lost > 0 {
		t.Errorf("cleanup lost accepted jobs in %d rounds", lost)
	}
}

func TestServiceRunningAfterWait(t *testing.T) {
	bad := 0
	for i := 0; i < 20000; i++ {
		s := &srv.Service{Run: func(context.Context) error { return nil }}
		_ = s.Start(context.Background())
		_ = s.Wait()
		if s.Running() {
			bad++
		}
	}
	t.Log("Running() true after Wait:", bad)
	if bad > 0 {
		t.Errorf("Running() true after Wait in %d of 20000", bad)
	}
}
