package exp

import (
	"context"
	"errors"
	"fmt"
	"testing"
	"time"

	"github.com/tychoish/fun/pubsub"
)

func within(d time.Duration, f func()) bool {
	done := make(chan struct{})
	go func() { defer close(done); f() }()
	select {
	case <-done:
		return true
	case <-time.After(d):
		return false
	}
}

func TestDequeWaitFrontNonEmpty(t *testing.T) {
	dq := pubsub.NewUnlimitedDeque[int]()
	_ = dq.PushBack(1)
	ctx, cancel := context.WithTimeout(context.Background(), 500*time.Millisecond)
	defer cancel()
	v, err := dq.WaitFront(ctx)
	t.Logf("WaitFront on non-empty: v=%v err=%v", v, err)
	if err != nil {
		t.Errorf("BLOCKED: %v", err)
	}
}

func TestDequeWaitBackEmptyThenPush(t *testing.T) {
	dq := pubsub.NewUnlimitedDeque[int]()
	ctx, cancel := context.WithTimeout(context.Background(), 500*time.Millisecond)
	defer cancel()
	go func() { time.Sleep(50 * time.Millisecond); _ = dq.PushBack(7) }()
	v, err := dq.WaitBack(ctx)
	t.Logf("WaitBack empty then PushBack: v=%v err=%v", v, err)
	if err != nil {
		t.Errorf("MISSED WAKEUP: %v", err)
	}
}

func TestDequeWaitFrontEmptyThenPush(t *testing.T) {
	dq := pubsub.NewUnlimitedDeque[int]()
	ctx, cancel := context.WithTimeout(context.Background(), 500*time.Millisecond)
	defer cancel()
	go func() { time.Sleep(50 * time.Millisecond); _ = dq.PushBack(7) }()
	v, err := dq.WaitFront(ctx)
	t.Logf("WaitFront empty then PushBack: v=%v err=%v", v, err)
	if err != nil {
		t.Errorf("MISSED WAKEUP: %v", err)
	}
}

func TestDequeCloseWakes(t *testing.T) {
	dq := pubsub.NewUnlimitedDeque[int]()
	ctx, cancel := context.WithTimeout(context.Background(), 500*time.Millisecond)
	defer cancel()
	go func() { time.Sleep(50 * time.Millisecond); _ = dq.Close() }()
	start := time.Now()
	_, err := dq.WaitFront(ctx)
	t.Logf("WaitFront then Close: err=%v after %v", err, time.Since(start))
	if time.Since(start) > 300*time.Millisecond {
		t.Errorf("Close did not wake waiter promptly")
	}
}

func TestDequeWaitPushCloseWakes(t *testing.T) {
	dq, _ := pubsub.NewDeque[int](pubsub.DequeOptions{Capacity: 1})
	_ = dq.PushBack(1)
	ctx, cancel := context.WithTimeout(context.Background(), 500*time.Millisecond)
	defer cancel()
	go func() { time.Sleep(50 * time.Millisecond); _ = dq.Close() }()
	start := time.Now()
	err := dq.WaitPushBack(ctx, 2)
	t.Logf("WaitPushBack then Close: err=%v after %v", err, time.Since(start))
	if time.Since(start) > 300*time.Millisecond {
		t.Errorf("Close did not wake waiter promptly")
	}
}

func TestQueueTwoWaitersTwoAdds(t *testing.T) {
	q := pubsub.NewUnlimitedQueue[int]()
	ctx, cancel := context.WithTimeout(context.Background(), time.Second)
	defer cancel()
	res := make(chan string, 2)
	for i := 0; i < 2; i++ {
		go func(i int) {
			v, err := q.Wait(ctx)
			res <- fmt.Sprint("waiter", i, " v=", v, " err=", err)
		}(i)
	}
	time.Sleep(100 * time.Millisecond) // both parked
	// two adds back-to-back
	_ = q.Add(1)
	_ = q.Add(2)
	a := <-res
	b := <-res
	t.Log(a)
	t.Log(b)
	t.Log("len after", q.Len())
	if q.Len() != 0 {
		t.Errorf("LOST WAKEUP: an item remained while a waiter timed out")
	}
}

func TestQueueIteratorRemoveWhileWaiting(t *testing.T) {
	q := pubsub.NewUnlimitedQueue[int]()
	_ = q.Add(1)
	ctx, cancel := context.WithTimeout(context.Background(), time.Second)
	defer cancel()
	prod := q.Producer()
	v, err := prod(ctx)
	t.Log("first", v, err)
	done := make(chan string, 1)
	go func() {
		defer func() {
			if r := recover(); r != nil {
				done <- fmt.Sprint("PANIC: ", r)
			}
		}()
		v, err := prod(ctx)
		done <- fmt.Sprint("second v=", v, " err=", err)
	}()
	time.Sleep(100 * time.Millisecond)
	q.Remove()
	out := <-done
	t.Log(out)
	if len(out) > 5 && out[:5] == "PANIC" {
		t.Errorf("%s", out)
	}
}

func TestQueueIteratorSkipsAfterEmpty(t *testing.T) {
	// iterator yielded 1; then 1 removed (queue empty, back reset); add 2, 3
	q := pubsub.NewUnlimitedQueue[int]()
	_ = q.Add(1)
	ctx, cancel := context.WithTimeout(context.Background(), 300*time.Millisecond)
	defer cancel()
	prod := q.Producer()
	v, err := prod(ctx)
	t.Log("first", v, err)
	q.Remove()
	_ = q.Add(2)
	_ = q.Add(3)
	v, err = prod(ctx)
	t.Log("second", v, err)
	if err != nil {
		t.Errorf("iterator blocked/failed with unseen items present: %v", err)
	}
}

func TestBrokerDequeStall(t *testing.T) {
	ctx, cancel := context.WithCancel(context.Background())
	defer cancel()
	dq := pubsub.NewUnlimitedDeque[int]()
	b := pubsub.NewDequeBroker[int](ctx, dq, pubsub.BrokerOptions{})
	sub := b.Subscribe(ctx)
	for i := 0; i < 5; i++ {
		b.Publish(ctx, i)
	}
	got := []int{}
	to := time.After(time.Second)
LOOP:
	for len(got) < 5 {
		select {
		case v := <-sub:
			got = append(got, v)
		case <-to:
			break LOOP
		}
	}
	t.Log("got", got)
	if len(got) != 5 {
		t.Errorf("STALL: only %d of 5 delivered", len(got))
	}
}

func TestBrokerWaitStopDeadlock(t *testing.T) {
	ctx, cancel := context.WithCancel(context.Background())
	defer cancel()
	b := pubsub.NewBroker[int](ctx, pubsub.BrokerOptions{})
	go b.Wait(context.Background())
	time.Sleep(50 * time.Millisecond)
	if !within(500*time.Millisecond, b.Stop) {
		t.Errorf("Stop blocked behind Wait")
	}
}

var _ = errors.New
