package exp

import (
	"context"
	"runtime"
	"strings"
	"sync"
	"testing"
	"time"

	"github.com/tychoish/fun"
	"github.com/tychoish/fun/pubsub"
)

func funGoroutines() []string {
	buf := make([]byte, 1<<20)
	n := runtime.Stack(buf, true)
	out := []string{}
	for _, g := range strings.Split(string(buf[:n]), "\n\n") {
		if strings.Contains(g, "github.com/tychoish/fun") && !strings.Contains(g, "funGoroutines") {
			out = append(out, g)
		}
	}
	return out
}

func TestSplitAbandonFirst(t *testing.T) {
	ctx, cancel := context.WithCancel(context.Background())
	defer cancel()
	src := fun.SliceIterator([]int{1, 2, 3, 4, 5, 6, 7, 8})
	outs := src.Split(2)
	// advance output 0 first (its ctx drives the reader), then abandon it
	v, err := outs[0].ReadOne(ctx)
	t.Log("first", v, err)
	// read one from the other, then close it
	v, err = outs[1].ReadOne(ctx)
	t.Log("second", v, err)
	_ = outs[1].Close()
	time.Sleep(200 * time.Millisecond)
	gs := funGoroutines()
	t.Log("fun goroutines alive:", len(gs))
	for _, g := range gs {
		t.Log(strings.Split(g, "\n")[0], "...", firstFunFrame(g))
	}
	if len(gs) > 0 {
		t.Errorf("leaked %d goroutines", len(gs))
	}
}

func firstFunFrame(g string) string {
	for _, l := range strings.Split(g, "\n") {
		if strings.Contains(l, "tychoish/fun") {
			return l
		}
	}
	return ""
}

func TestSplitCloseAll(t *testing.T) {
	ctx := context.Background()
	src := fun.SliceIterator([]int{1, 2, 3, 4, 5, 6, 7, 8})
	outs := src.Split(2)
	_, _ = outs[0].ReadOne(ctx)
	_, _ = outs[1].ReadOne(ctx)
	_ = outs[1].Close()
	_ = outs[0].Close()
	time.Sleep(200 * time.Millisecond)
	gs := funGoroutines()
	if len(gs) > 0 {
		t.Errorf("leaked %d goroutines: %s", len(gs), firstFunFrame(gs[0]))
	}
}

func TestBrokerUnsubscribeRace(t *testing.T) {
	lost := 0
	rounds := 300
	for r := 0; r < rounds; r++ {
		ctx, cancel := context.WithCancel(context.Background())
		b := pubsub.NewBroker[int](ctx, pubsub.BrokerOptions{})
		sub := b.Subscribe(ctx)
		got := make(chan int, 10)
		var wg sync.WaitGroup
		wg.Add(1)
		go func() {
			defer wg.Done()
			for {
				select {
				case v := <-sub:
					got <- v
				case <-ctx.Done():
					return
				}
			}
		}()
		b.Publish(ctx, 42) // returns once the event loop has it
		b.Unsubscribe(ctx, sub)
		select {
		case <-got:
		case <-time.After(50 * time.Millisecond):
			lost++
		}
		cancel()
		wg.Wait()
	}
	t.Logf("message published before Unsubscribe was lost in %d of %d rounds", lost, rounds)
	if lost > 0 {
		t.Errorf("lost %d", lost)
	}
}

func TestMapLeakOnClose(t *testing.T) {
	ctx := context.Background()
	src := fun.SliceIterator([]int{1, 2, 3, 4, 5, 6, 7, 8, 9, 10, 11, 12})
	out := fun.Map(src, func(ctx context.Context, i int) (int, error) { return i, nil }, fun.WorkerGroupConfNumWorkers(3))
	_, _ = out.ReadOne(ctx)
	_ = out.Close()
	time.Sleep(300 * time.Millisecond)
	gs := funGoroutines()
	if len(gs) > 0 {
		for _, g := range gs {
			t.Log(firstFunFrame(g))
		}
		t.Errorf("leaked %d goroutines", len(gs))
	}
}
