package exp

import (
	"context"
	"math"
	"runtime"
	"sync"
	"testing"
	"time"

	"github.com/tychoish/fun/dt"
	"github.com/tychoish/fun/dt/hdrhist"
	"github.com/tychoish/fun/erc"
	"github.com/tychoish/fun/pubsub"
	"errors"
)

// D8: Queue.Distributor().Len() vs Add
func TestRaceQueueDistributorLen(t *testing.T) {
	q := pubsub.NewUnlimitedQueue[int]()
	d := q.Distributor()
	var wg sync.WaitGroup
	wg.Add(2)
	go func() { defer wg.Done(); for i := 0; i < 2000; i++ { _ = q.Add(i) } }()
	go func() { defer wg.Done(); for i := 0; i < 2000; i++ { _ = d.Len() } }()
	wg.Wait()
}

// D23: synchronized ordered set: iterate while adding
func TestRaceSetProducerOrdered(t *testing.T) {
	s := &dt.Set[int]{}
	s.Synchronize()
	s.Order()
	for i := 0; i < 100; i++ { s.Add(i) }
	ctx := context.Background()
	var wg sync.WaitGroup
	wg.Add(2)
	go func() { defer wg.Done(); for i := 100; i < 3000; i++ { s.Add(i); s.Delete(i - 50) } }()
	go func() {
		defer wg.Done()
		for k := 0; k < 20; k++ {
			p := s.Producer()
			for {
				if _, err := p(ctx); err != nil { break }
			}
		}
	}()
	wg.Wait()
}

// D26: Collector iterator / resolved error used while adding
func TestRaceCollectorIterator(t *testing.T) {
	ec := &erc.Collector{}
	ec.Add(errors.New("a"))
	ec.Add(errors.New("b"))
	ctx := context.Background()
	var wg sync.WaitGroup
	wg.Add(2)
	go func() { defer wg.Done(); for i := 0; i < 2000; i++ { ec.Add(errors.New("x")) } }()
	go func() {
		defer wg.Done()
		for k := 0; k < 200; k++ {
			it := ec.Iterator()
			for it.Next(ctx) { _ = it.Value() }
			if err := ec.Resolve(); err != nil { _ = err.Error() }
		}
	}()
	wg.Wait()
}

// D29: Set.Equal on itself, synchronized
func TestSetEqualSelfDeadlock(t *testing.T) {
	s := &dt.Set[int]{}
	s.Synchronize()
	s.Add(1)
	done := make(chan bool, 1)
	go func() { done <- s.Equal(s) }()
	select {
	case r := <-done:
		t.Log("Equal(self) =", r)
	case <-time.After(500 * time.Millisecond):
		t.Errorf("Set.Equal(self) on a synchronized set deadlocks")
	}
}

// D18: overflow in New
func TestHDRNewHuge(t *testing.T) {
	done := make(chan struct{})
	go func() { defer close(done); _ = hdrhist.New(1, math.MaxInt64, 1) }()
	select {
	case <-done:
		t.Log("New(1, MaxInt64, 1) returned")
	case <-time.After(2 * time.Second):
		t.Errorf("New(1, MaxInt64, 1) does not terminate")
	}
}

func TestHDRUnitMagnitudeFloat(t *testing.T) {
	// min = 2^49-1 : floor(log2) should be 48
	for _, k := range []uint{20, 40, 47, 48, 49, 50, 52, 53, 60} {
		min := int64(1)<<k - 1
		got := int(math.Floor(math.Log2(float64(min))))
		t.Logf("k=%d min=2^k-1 floor(log2(float64(min)))=%d expected %d", k, got, k-1)
	}
}

// D28: two blocked consumers on an empty deque spin
func TestDequeTwoWaitersSpin(t *testing.T) {
	dq := pubsub.NewUnlimitedDeque[int]()
	ctx, cancel := context.WithTimeout(context.Background(), 600*time.Millisecond)
	defer cancel()
	var wg sync.WaitGroup
	for i := 0; i < 2; i++ {
		wg.Add(1)
		go func() { defer wg.Done(); _, _ = dq.WaitFront(ctx) }()
	}
	time.Sleep(100 * time.Millisecond)
	var before, after runtime.MemStats
	_ = before; _ = after
	start := time.Now()
	c0 := cpuTime()
	time.Sleep(300 * time.Millisecond)
	c1 := cpuTime()
	t.Logf("cpu used while two waiters are 'blocked' for %v: %v", time.Since(start), c1-c0)
	wg.Wait()
}
