/-! spike: circular doubly linked list with sentinel, pointer-level, insert-after preserves representation -/

structure Node where
  next : Nat
  prev : Nat
  deriving Repr

abbrev Heap := Nat → Node

def Heap.setNext (h : Heap) (a v : Nat) : Heap := fun x => if x = a then { h x with next := v } else h x
def Heap.setPrev (h : Heap) (a v : Nat) : Heap := fun x => if x = a then { h x with prev := v } else h x

/-- the code of uncheckedAppend, statement by statement:
    new.prev = e; new.next = e.next; new.prev.next = new; new.next.prev = new -/
def insertAfter (h : Heap) (e new : Nat) : Heap :=
  let h1 := h.setPrev new e
  let h2 := h1.setNext new (h1 e).next
  let h3 := h2.setNext (h2 new).prev new
  let h4 := h3.setPrev (h3 new).next new
  h4

def Link (h : Heap) (a b : Nat) : Prop := (h a).next = b ∧ (h b).prev = a

/-- chain a xs b : a -> xs[0] -> ... -> xs[last] -> b all linked -/
def Chain (h : Heap) : Nat → List Nat → Nat → Prop
  | a, [], b => Link h a b
  | a, x :: xs, b => Link h a x ∧ Chain h x xs b

/-- list representation: root r, elements xs -/
def Rep (h : Heap) (r : Nat) (xs : List Nat) : Prop :=
  Chain h r xs r ∧ (r :: xs).Nodup

theorem chain_frame (h h' : Heap) (a : Nat) (xs : List Nat) (b : Nat)
    (hsame : ∀ x, x ∈ a :: xs → (h' x).next = (h x).next)
    (hsame' : ∀ x, x ∈ xs ++ [b] → (h' x).prev = (h x).prev)
    (hc : Chain h a xs b) : Chain h' a xs b := by
  induction xs generalizing a with
  | nil =>
    simp [Chain, Link] at *
    obtain ⟨h1, h2⟩ := hc
    exact ⟨by rw [hsame]; exact h1, by rw [hsame']; exact h2⟩
  | cons x xs ih =>
    simp only [Chain, Link] at *
    obtain ⟨⟨h1, h2⟩, h3⟩ := hc
    refine ⟨⟨?_, ?_⟩, ?_⟩
    · rw [hsame a (by simp)]; exact h1
    · rw [hsame' x (by simp)]; exact h2
    · apply ih
      · intro y hy; apply hsame; simp at hy ⊢; right; exact hy
      · intro y hy; apply hsame'; simp at hy ⊢; right; exact hy
      · exact h3

theorem chain_append (h : Heap) (a : Nat) (xs : List Nat) (m : Nat) (ys : List Nat) (b : Nat) :
    Chain h a (xs ++ m :: ys) b ↔ Chain h a xs m ∧ Chain h m ys b := by
  induction xs generalizing a with
  | nil => simp [Chain]
  | cons x xs ih => simp [Chain, ih, and_assoc]

@[simp] theorem setNext_next (h : Heap) (a v x : Nat) :
    ((h.setNext a v) x).next = if x = a then v else (h x).next := by
  unfold Heap.setNext; split <;> simp
@[simp] theorem setNext_prev (h : Heap) (a v x : Nat) : ((h.setNext a v) x).prev = (h x).prev := by
  unfold Heap.setNext; split <;> simp
@[simp] theorem setPrev_prev (h : Heap) (a v x : Nat) :
    ((h.setPrev a v) x).prev = if x = a then v else (h x).prev := by
  unfold Heap.setPrev; split <;> simp
@[simp] theorem setPrev_next (h : Heap) (a v x : Nat) : ((h.setPrev a v) x).next = (h x).next := by
  unfold Heap.setPrev; split <;> simp

/-- closed form of the four assignments, as seen by a reader of field `next` / `prev` -/
theorem ia_next (h : Heap) (e new x : Nat) (hne : new ≠ e) :
    ((insertAfter h e new) x).next =
      if x = e then new else if x = new then (h e).next else (h x).next := by
  simp only [insertAfter, setNext_next, setNext_prev, setPrev_prev, setPrev_next]
  by_cases h1 : x = e
  · subst h1; simp [hne, Ne.symm hne]
  · by_cases h2 : x = new
    · subst h2; simp [hne]
    · simp [h1, h2, hne, Ne.symm hne]

theorem ia_prev (h : Heap) (e new x : Nat) (hne : new ≠ e) (hs : (h e).next ≠ new) :
    ((insertAfter h e new) x).prev =
      if x = (h e).next then new else if x = new then e else (h x).prev := by
  simp only [insertAfter, setNext_next, setNext_prev, setPrev_prev, setPrev_next]
  by_cases h1 : x = (h e).next
  · subst h1; simp [hne, Ne.symm hne, hs]
  · by_cases h2 : x = new
    · subst h2; simp [hne, h1]
    · simp [h1, h2, hne, Ne.symm hne]

section fields
variable (h : Heap) (e new : Nat) (hne : new ≠ e)
include hne

theorem ia_new_next (hs : (h e).next ≠ new) : ((insertAfter h e new) new).next = (h e).next := by
  rw [ia_next h e new new hne]; simp [hne]

theorem ia_new_prev' (hs : (h e).next ≠ new) : ((insertAfter h e new) new).prev = e := by
  rw [ia_prev h e new new hne hs]; simp [Ne.symm hs]

theorem ia_e_next (hs : (h e).next ≠ new) : ((insertAfter h e new) e).next = new := by
  rw [ia_next h e new e hne]; simp

theorem ia_s_prev (hs : (h e).next ≠ new) : ((insertAfter h e new) (h e).next).prev = new := by
  rw [ia_prev h e new _ hne hs]; simp

theorem ia_other_next (x : Nat) (hx1 : x ≠ new) (hx2 : x ≠ e) (hs : (h e).next ≠ new) :
    ((insertAfter h e new) x).next = (h x).next := by
  rw [ia_next h e new x hne]; simp [hx1, hx2]

theorem ia_other_prev (x : Nat) (hx1 : x ≠ new) (hx2 : x ≠ (h e).next) (hs : (h e).next ≠ new) :
    ((insertAfter h e new) x).prev = (h x).prev := by
  rw [ia_prev h e new x hne hs]; simp [hx1, hx2]

end fields

/-- Lemma A: inserting a fresh node right after the start `a` of a chain. -/
theorem chain_insert_head (h : Heap) (a b new : Nat) (post : List Nat)
    (hc : Chain h a post b)
    (hnd : (a :: post).Nodup) (hb : b ∉ post)
    (hfresh : new ∉ a :: post) (hnb : new ≠ b) :
    Chain (insertAfter h a new) a (new :: post) b := by
  have hna : new ≠ a := by intro h0; apply hfresh; simp [h0]
  cases post with
  | nil =>
    simp only [Chain, Link] at *
    obtain ⟨h1, h2⟩ := hc
    have hs : (h a).next ≠ new := by rw [h1]; exact fun h0 => hnb h0.symm
    refine ⟨⟨ia_e_next h a new hna hs, ia_new_prev' h a new hna hs⟩, ?_, ?_⟩
    · rw [ia_new_next h a new hna hs, h1]
    · have := ia_s_prev h a new hna hs; rw [h1] at this; exact this
  | cons y ys =>
    simp only [Chain, Link] at *
    obtain ⟨⟨h1, h2⟩, h3⟩ := hc
    have hny : new ≠ y := by intro h0; apply hfresh; simp [h0]
    have hs : (h a).next ≠ new := by rw [h1]; exact fun h0 => hny h0.symm
    refine ⟨⟨ia_e_next h a new hna hs, ia_new_prev' h a new hna hs⟩, ⟨?_, ?_⟩, ?_⟩
    · rw [ia_new_next h a new hna hs, h1]
    · have := ia_s_prev h a new hna hs; rw [h1] at this; exact this
    · apply chain_frame h _ y ys b _ _ h3
      · intro x hx
        apply ia_other_next h a new hna x _ _ hs
        · intro h0; apply hfresh; subst h0; simp at hx ⊢; right; rcases hx with hx | hx
          · left; exact hx
          · right; exact hx
        · intro h0; subst h0; simp at hnd hx
          rcases hx with hx | hx
          · exact hnd.1.1 hx
          · exact hnd.1.2 hx
      · intro x hx
        apply ia_other_prev h a new hna x _ _ hs
        · intro h0; subst h0; simp at hx hfresh
          rcases hx with hx | hx
          · exact hfresh.2.2 hx
          · exact hnb hx
        · rw [h1]; intro h0; subst h0; simp at hx hnd hb
          rcases hx with hx | hx
          · exact hnd.2.1 hx
          · exact hb.1 hx.symm

/-- PushFront: insert right after the root -/
theorem insertAfter_rep_root (h : Heap) (r : Nat) (post : List Nat) (new : Nat)
    (hrep : Rep h r post) (hfresh : new ∉ r :: post) :
    Rep (insertAfter h r new) r (new :: post) := by
  obtain ⟨hc, hnd⟩ := hrep
  have hnr : new ≠ r := by intro h0; apply hfresh; simp [h0]
  simp at hnd hfresh
  refine ⟨chain_insert_head h r r new post hc (by simp [hnd]) hnd.1 (by simp [hfresh]) hnr, ?_⟩
  simp [List.nodup_cons, hnd, hfresh]
  exact ⟨fun h0 => hnr h0.symm, hnd.1⟩

/-- Element.Append / PushBack: insert after an element `e` of the list -/
theorem insertAfter_rep_mid (h : Heap) (r : Nat) (front post : List Nat) (e new : Nat)
    (hrep : Rep h r (front ++ e :: post)) (hfresh : new ∉ r :: (front ++ e :: post)) :
    Rep (insertAfter h e new) r (front ++ e :: new :: post) := by
  obtain ⟨hc, hnd⟩ := hrep
  have hnr : new ≠ r := by intro h0; apply hfresh; simp [h0]
  have hne : new ≠ e := by intro h0; apply hfresh; simp [h0]
  have hc' := (chain_append h r front e post r).mp hc
  simp only [List.nodup_cons, List.nodup_append, List.mem_append, List.mem_cons, not_or] at hnd hfresh
  obtain ⟨⟨hr1, hr2, hr3⟩, hf, ⟨he1, hpost⟩, hdisj⟩ := hnd
  have hA := chain_insert_head h e r new post hc'.2
    (by simp [List.nodup_cons]; exact ⟨he1, hpost⟩) hr3
    (by simp; exact ⟨hne, hfresh.2.2.2⟩) hnr
  have hs : (h e).next ≠ new := by
    cases post with
    | nil => simp [Chain, Link] at hc'; rw [hc'.2.1]; exact fun h0 => hnr h0.symm
    | cons y ys =>
      simp [Chain, Link] at hc'; rw [hc'.2.1.1]
      intro h0; apply hfresh.2.2.2; simp [h0]
  constructor
  · rw [chain_append]
    refine ⟨?_, hA⟩
    apply chain_frame h _ r front e _ _ hc'.1
    · intro x hx
      apply ia_other_next h e new hne x _ _ hs
      · intro h0; subst h0; simp at hx
        rcases hx with hx | hx
        · exact hnr hx
        · exact hfresh.2.1 hx
      · intro h0; subst h0; simp at hx
        rcases hx with hx | hx
        · exact hr2 hx.symm
        · exact hdisj x hx x (by simp) rfl
    · intro x hx
      apply ia_other_prev h e new hne x _ _ hs
      · intro h0; subst h0; simp at hx
        rcases hx with hx | hx
        · exact hfresh.2.1 hx
        · exact hne hx
      · -- x is in front ++ [e]; (h e).next is the head of post ++ [r]
        sorry
  · sorry
