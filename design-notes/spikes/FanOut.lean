/-! spike: FanOut(n) without output stage and without failures (ProcessParallel on a Split):
    conservation, terminal multiset equality, deadlock freedom, decreasing measure. Workers are anonymous. -/
namespace FanOut

structure St where
  src    : List Nat        -- not yet read from the source iterator
  rd     : Option Nat      -- the reader goroutine holds an item and is blocked sending it into the pipe
  closed : Bool            -- reader returned, PostHook closed the pipe
  idle   : Nat             -- workers blocked receiving from the pipe
  busy   : List Nat        -- items inside the user function, one per busy worker
  exited : Nat             -- workers that saw the closed pipe and returned (wg.Done)
  seen   : List Nat        -- items for which the user function has returned
  deriving Repr

inductive Act
  | read | closePipe | handoff | finish (x : Nat) | exit
  deriving Repr

def step (s : St) : Act → Option St
  | .read => match s.src, s.rd, s.closed with
    | x :: xs, none, false => some { s with src := xs, rd := some x }
    | _, _, _ => none
  | .closePipe => match s.src, s.rd, s.closed with
    | [], none, false => some { s with closed := true }
    | _, _, _ => none
  | .handoff => match s.rd, s.idle with
    | some x, k + 1 => some { s with rd := none, idle := k, busy := x :: s.busy }
    | _, _ => none
  | .finish x => if x ∈ s.busy then some { s with busy := s.busy.erase x, idle := s.idle + 1, seen := x :: s.seen } else none
  | .exit => match s.closed, s.idle with
    | true, k + 1 => some { s with idle := k, exited := s.exited + 1 }
    | _, _ => none

def init (input : List Nat) (n : Nat) : St :=
  { src := input, rd := none, closed := false, idle := n, busy := [], exited := 0, seen := [] }

def inflight (s : St) : List Nat := s.src ++ s.rd.toList ++ s.busy ++ s.seen

def Inv (input : List Nat) (n : Nat) (s : St) : Prop :=
  (inflight s).Perm input ∧
  (s.closed = true → s.src = [] ∧ s.rd = none) ∧
  (s.closed = false → s.exited = 0) ∧
  s.idle + s.busy.length + s.exited = n

theorem inv_init (input : List Nat) (n : Nat) : Inv input n (init input n) := by
  simp [Inv, init, inflight]

theorem step_inv (input : List Nat) (n : Nat) (s s' : St) (a : Act)
    (h : Inv input n s) (hs : step s a = some s') : Inv input n s' := by
  obtain ⟨hp, hc, he, hn⟩ := h
  cases a with
  | read =>
    simp only [step] at hs
    split at hs
    · rename_i x xs hsrc hrd hcl
      cases hs
      refine ⟨?_, ?_, ?_, ?_⟩
      · simp [inflight, hsrc, hrd] at hp ⊢
        exact List.Perm.trans (by
          have : (xs ++ x :: (s.busy ++ s.seen)).Perm (x :: (xs ++ (s.busy ++ s.seen))) := List.perm_middle
          exact this) hp
      · intro h0; simp at h0; simp [h0] at hcl
      · simpa using he
      · simpa using hn
    · cases hs
  | closePipe =>
    simp only [step] at hs
    split at hs
    · rename_i hsrc hrd hcl
      cases hs
      refine ⟨by simpa [inflight] using hp, ?_, ?_, by simpa using hn⟩
      · intro _; exact ⟨hsrc, hrd⟩
      · intro h0; simp at h0
    · cases hs
  | handoff =>
    simp only [step] at hs
    split at hs
    · rename_i x k hrd hidle
      cases hs
      refine ⟨?_, ?_, by simpa using he, ?_⟩
      · simp [inflight, hrd] at hp ⊢; exact hp
      · intro h0; have := hc h0; simp [hrd] at this
      · simp [hidle] at hn ⊢; omega
    · cases hs
  | finish x =>
    simp only [step] at hs
    split at hs
    · rename_i hx
      cases hs
      refine ⟨?_, by simpa using hc, by simpa using he, ?_⟩
      · simp only [inflight] at hp ⊢
        have h1 : (s.busy.erase x ++ x :: s.seen).Perm (s.busy ++ s.seen) := by
          have h2 : (x :: s.busy.erase x).Perm s.busy := (List.perm_cons_erase hx).symm
          exact (List.perm_middle).trans (List.Perm.append_right s.seen h2)
        have h3 : (s.src ++ s.rd.toList ++ s.busy.erase x ++ x :: s.seen).Perm
                  (s.src ++ s.rd.toList ++ s.busy ++ s.seen) := by
          rw [List.append_assoc, List.append_assoc (s.src ++ s.rd.toList)]
          exact List.Perm.append_left _ h1
        exact h3.trans hp
      · simp; have := List.length_erase_of_mem hx
        have hpos : 0 < s.busy.length := List.length_pos_of_mem hx
        omega
    · cases hs
  | exit =>
    simp only [step] at hs
    split at hs
    · rename_i k hcl hidle
      cases hs
      refine ⟨by simpa [inflight] using hp, by simpa using hc, ?_, ?_⟩
      · intro h0; simp at h0; simp [h0] at hcl
      · simp [hidle] at hn ⊢; omega
    · cases hs

def Terminal (s : St) (n : Nat) : Prop := s.closed = true ∧ s.exited = n

/-- C01 for this construct: when everything has stopped, what the workers saw is a permutation of the input -/
theorem terminal_multiset_eq (input : List Nat) (n : Nat) (s : St)
    (h : Inv input n s) (ht : Terminal s n) : s.seen.Perm input := by
  obtain ⟨hp, hc, _, hn⟩ := h
  obtain ⟨t1, t2⟩ := ht
  obtain ⟨h1, h2⟩ := hc t1
  have hb : s.busy = [] := by
    have : s.busy.length = 0 := by omega
    exact List.length_eq_zero_iff.mp this
  simpa [inflight, h1, h2, hb] using hp

/-- C04 (no deadlock): with at least one worker, a non-terminal reachable state always has an enabled action -/
theorem no_deadlock (input : List Nat) (n : Nat) (hn0 : 0 < n) (s : St)
    (h : Inv input n s) (hnt : ¬ Terminal s n) : ∃ a, (step s a).isSome = true := by
  obtain ⟨_, hc, he, hn⟩ := h
  cases hcl : s.closed with
  | false =>
    have hex := he hcl
    cases hrd : s.rd with
    | none =>
      cases hsrc : s.src with
      | nil => exact ⟨.closePipe, by simp [step, hsrc, hrd, hcl]⟩
      | cons x xs => exact ⟨.read, by simp [step, hsrc, hrd, hcl]⟩
    | some x =>
      cases hid : s.idle with
      | succ k => exact ⟨.handoff, by simp [step, hrd, hid]⟩
      | zero =>
        cases hb : s.busy with
        | nil => simp [hid, hb, hex] at hn; omega
        | cons y ys => exact ⟨.finish y, by simp [step, hb]⟩
  | true =>
    cases hid : s.idle with
    | succ k => exact ⟨.exit, by simp [step, hcl, hid]⟩
    | zero =>
      cases hb : s.busy with
      | nil => exact absurd ⟨hcl, by simp [hid, hb] at hn; omega⟩ hnt
      | cons y ys => exact ⟨.finish y, by simp [step, hb]⟩

/-- every action strictly decreases this measure, so every schedule is finite -/
def μ (s : St) : Nat :=
  4 * s.src.length + 3 * s.rd.toList.length + 2 * s.busy.length + (s.idle + s.busy.length) + (if s.closed then 0 else 1)

theorem measure_decreases (s s' : St) (a : Act) (hs : step s a = some s') : μ s' < μ s := by
  cases a with
  | read =>
    simp only [step] at hs; split at hs
    · rename_i x xs hsrc hrd hcl; cases hs; simp [μ, hsrc, hrd, hcl]; omega
    · cases hs
  | closePipe =>
    simp only [step] at hs; split at hs
    · rename_i hsrc hrd hcl; cases hs; simp [μ, hsrc, hrd, hcl]
    · cases hs
  | handoff =>
    simp only [step] at hs; split at hs
    · rename_i x k hrd hidle; cases hs; simp [μ, hrd, hidle]; omega
    · cases hs
  | finish x =>
    simp only [step] at hs; split at hs
    · rename_i hx; cases hs
      have := List.length_erase_of_mem hx
      have hpos : 0 < s.busy.length := List.length_pos_of_mem hx
      simp [μ]; omega
    · cases hs
  | exit =>
    simp only [step] at hs; split at hs
    · rename_i k hcl hidle; cases hs; simp [μ, hcl, hidle]
    · cases hs

end FanOut

#print axioms FanOut.terminal_multiset_eq
#print axioms FanOut.no_deadlock
#print axioms FanOut.measure_decreases
#print axioms FanOut.step_inv
