/-! spike: Queue.Wait / Add / Remove / Close / cancel with a condition variable, unbounded waiters.
    All actions are atomic (every action, including the helper's Broadcast, holds q.mu). -/

namespace QueueWait

inductive Outcome
  | item (v : Nat)
  | closedErr
  | ctxErr
  deriving Repr, DecidableEq

structure St where
  items     : List Nat := []
  closed    : Bool := false
  parked    : List Nat := []   -- waiters parked on nempty, FIFO
  woken     : List Nat := []   -- woken, lock not yet re-acquired
  cancelled : List Nat := []
  helpers   : List Nat := []   -- helper goroutines whose ctx is done and that still have to Broadcast
  done      : List (Nat × Outcome) := []
  deriving Repr

inductive Act
  | add (v : Nat)
  | remove
  | close
  | waitStart (t : Nat)
  | resume (t : Nat)
  | cancel (t : Nat)
  | fire (t : Nat)
  deriving Repr

/-- body of the loop in unsafeWaitWhileEmpty + popFront, run with the lock held -/
def waitBody (s : St) (t : Nat) : St :=
  match s.items with
  | x :: xs => { s with items := xs, done := (t, .item x) :: s.done, helpers := t :: s.helpers }
  | [] =>
    if s.closed then { s with done := (t, .closedErr) :: s.done, helpers := t :: s.helpers }
    else if t ∈ s.cancelled then { s with done := (t, .ctxErr) :: s.done, helpers := t :: s.helpers }
    else { s with parked := s.parked ++ [t] }

def step (s : St) : Act → Option St
  | .add v =>
    if s.closed then some s
    else
      let s1 := { s with items := s.items ++ [v] }
      if s.items = [] then
        match s.parked with
        | t :: ps => some { s1 with parked := ps, woken := s.woken ++ [t] }
        | [] => some s1
      else some s1
  | .remove => some { s with items := s.items.tail }
  | .close => some { s with closed := true, parked := [], woken := s.woken ++ s.parked }
  | .waitStart t => some (waitBody s t)
  | .resume t => if t ∈ s.woken then some (waitBody { s with woken := s.woken.erase t } t) else none
  | .cancel t => some { s with cancelled := t :: s.cancelled, helpers := t :: s.helpers }
  | .fire t => if t ∈ s.helpers then
      some { s with helpers := s.helpers.erase t, parked := [], woken := s.woken ++ s.parked } else none

def Inv (s : St) : Prop :=
  (s.closed = true → s.parked = []) ∧
  (s.items ≠ [] → s.parked = [] ∨ s.woken ≠ [] ∨ s.helpers ≠ []) ∧
  (∀ t ∈ s.parked, t ∈ s.cancelled → t ∈ s.helpers)

theorem inv_init : Inv {} := by simp [Inv]

theorem waitBody_inv (s : St) (t : Nat)
    (h1 : s.closed = true → s.parked = [])
    (h3 : ∀ t ∈ s.parked, t ∈ s.cancelled → t ∈ s.helpers) : Inv (waitBody s t) := by
  unfold waitBody
  split
  · -- item available
    refine ⟨by simpa using h1, ?_, ?_⟩
    · intro _; right; right; simp
    · intro u hu hc; simp; right; exact h3 u hu hc
  · split
    · refine ⟨by simpa using h1, ?_, ?_⟩
      · intro _; right; right; simp
      · intro u hu hc; simp; right; exact h3 u hu hc
    · split
      · refine ⟨by simpa using h1, ?_, ?_⟩
        · intro _; right; right; simp
        · intro u hu hc; simp; right; exact h3 u hu hc
      · rename_i hitems hcl hcan
        refine ⟨?_, ?_, ?_⟩
        · intro hc; simp at hc; simp [hc] at hcl
        · intro hne; simp at hne; exact absurd hitems hne
        · intro u hu hc
          simp at hu
          rcases hu with hu | hu
          · exact h3 u hu hc
          · subst hu; exact absurd hc hcan

theorem step_inv (s s' : St) (a : Act) (h : Inv s) (hs : step s a = some s') : Inv s' := by
  cases a with
  | add v =>
    obtain ⟨h1, h2, h3⟩ := h
    by_cases hcl : s.closed = true
    · simp [step, hcl] at hs; cases hs; exact ⟨h1, h2, h3⟩
    · by_cases hemp : s.items = []
      · cases hp : s.parked with
        | nil =>
          simp [step, hcl, hemp, hp] at hs; cases hs
          refine ⟨by simpa using h1, ?_, ?_⟩
          · intro _; left; simpa using hp
          · intro u hu hc; simp at hu
        | cons t ps =>
          simp [step, hcl, hemp, hp] at hs; cases hs
          refine ⟨?_, ?_, ?_⟩
          · intro hc; simp at hc
          · intro _; right; left; simp
          · intro u hu hc; simp at hu hc
            exact h3 u (by rw [hp]; simp [hu]) hc
      · simp [step, hcl, hemp] at hs; cases hs
        refine ⟨by simpa using h1, ?_, by simpa using h3⟩
        intro _; simpa using h2 hemp
  | remove =>
    simp only [step] at hs; cases hs
    obtain ⟨h1, h2, h3⟩ := h
    refine ⟨by simpa using h1, ?_, by simpa using h3⟩
    intro hne
    simp at hne
    have : s.items ≠ [] := by intro h0; rw [h0] at hne; simp at hne
    simpa using h2 this
  | close =>
    simp only [step] at hs; cases hs
    refine ⟨by simp, by simp, by simp⟩
  | waitStart t =>
    simp only [step] at hs; cases hs; exact waitBody_inv s t h.1 h.2.2
  | resume t =>
    simp only [step] at hs
    split at hs
    · cases hs
      obtain ⟨h1, h2, h3⟩ := h
      apply waitBody_inv
      · simpa using h1
      · simpa using h3
    · cases hs
  | cancel t =>
    simp only [step] at hs; cases hs
    obtain ⟨h1, h2, h3⟩ := h
    refine ⟨by simpa using h1, ?_, ?_⟩
    · intro _; right; right; simp
    · intro u hu hc; simp at hu hc ⊢
      rcases hc with hc | hc
      · left; exact hc
      · right; exact h3 u hu hc
  | fire t =>
    simp only [step] at hs
    split at hs
    · cases hs; refine ⟨by simp, by simp, by simp⟩
    · cases hs

/-- every state reachable from the initial one satisfies the invariant -/
theorem reachable_inv (acts : List Act) (s : St) (h : Inv s) :
    ∀ s', acts.foldlM step s = some s' → Inv s' := by
  induction acts generalizing s with
  | nil => intro s' hs; simp at hs; cases hs; exact h
  | cons a as ih =>
    intro s' hs
    simp [List.foldlM] at hs
    cases hstep : step s a with
    | none => simp [hstep] at hs
    | some s1 => simp [hstep] at hs; exact ih s1 (step_inv s s1 a h hstep) s' hs

/-- quiescent: nobody is on the way to re-check and no helper broadcast is outstanding -/
def Quiescent (s : St) : Prop := s.woken = [] ∧ s.helpers = []

/-- C07 (Queue.Wait part): at quiescence no waiter is parked whose condition is satisfied -/
theorem no_lost_wakeup (s : St) (h : Inv s) (q : Quiescent s) (t : Nat) (ht : t ∈ s.parked) :
    s.items = [] ∧ s.closed = false ∧ t ∉ s.cancelled := by
  obtain ⟨h1, h2, h3⟩ := h
  obtain ⟨q1, q2⟩ := q
  refine ⟨?_, ?_, ?_⟩
  · by_cases hi : s.items = []
    · exact hi
    · rcases h2 hi with hp | hw | hh
      · rw [hp] at ht; simp at ht
      · exact absurd q1 hw
      · exact absurd q2 hh
  · cases hc : s.closed with
    | false => rfl
    | true => rw [h1 hc] at ht; simp at ht
  · intro hc; have := h3 t ht hc; rw [q2] at this; simp at this

/-- a Wait issued while an item is present returns it without parking -/
theorem wait_nonempty_returns (s : St) (t x : Nat) (xs : List Nat) (h : s.items = x :: xs) :
    (waitBody s t).parked = s.parked ∧ (t, Outcome.item x) ∈ (waitBody s t).done := by
  simp [waitBody, h]

example : Inv { items := [7], parked := [3], woken := [2] } := by simp [Inv]

end QueueWait

#print axioms QueueWait.no_lost_wakeup
#print axioms QueueWait.reachable_inv
#eval ([QueueWait.Act.waitStart 1, .waitStart 2, .add 10, .add 20, .resume 1, .fire 1, .resume 2].foldlM QueueWait.step {}).map (·.done)
