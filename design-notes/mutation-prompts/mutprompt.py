import sys
p=sys.argv[1]
prop=open('/tmp/prop-%s.txt'%p).read()
print(f"""You are an independent tester probing how robust somebody else's verification of a Go library is. You know nothing about that verification and must not look at it: do NOT read, list or search anything under /verif, /root/.vp or /root/.claude, and do not modify /repo. Work only inside the git worktree /tmp/mut-{p} (a checkout of the zero-dependency Go generics library github.com/tychoish/fun; read its code and docs freely).

Environment: no network. In every shell call first run: export GOFLAGS=-mod=mod GOPROXY=off GOSUMDB=off GOTOOLCHAIN=local . Go is installed. The full test suite is `go test -vet=off -count=1 -timeout 25m ./...` from the worktree root (about 3 minutes; srv TestCmd/*/ForceSigKILL is flaky even on the pristine tree — ignore that single test).

The property under test (it is supposed to hold for the library as checked out):

{prop}

Your job: produce THREE different source changes ("mutants") to the library (non-test .go files only), each of which
  (a) still compiles and still passes the library's entire existing, unedited test suite (you must run it, at least the packages that could be affected plus one full run per mutant),
  (b) makes the library violate the property above (a real behavioural violation of what the property states, not of some stricter reading),
  (c) needs something specific to manifest — a particular interleaving, a fault or cancellation at a particular point, a multi-step sequence of operations, an unusual input or boundary value, or two cooperating edits that each look harmless alone — i.e. not something ordinary use would expose immediately, and written the way a plausible refactoring/optimisation/bug-fix-gone-wrong would look (no comments announcing the bug, no dead giveaways),
  (d) comes with a demonstration: a small Go test file (or program) that FAILS with the mutant applied and PASSES on the pristine checkout. Make the demonstration deterministic (no reliance on lucky timing; if an interleaving is needed, force it with channels/hooks available in the public API, or loop enough that failure is certain).
Make the three mutants differ in kind (different function / different mechanism / different facet of the property).

For each mutant i in 1..3 create the directory /tmp/mut-{p}/out/m<i>/ containing: patch.diff (output of `git diff` for the library change only, applicable with `git apply` at the repository root of the pristine checkout), the demonstration file(s) (say where in the tree they must be placed to run, e.g. dt/zz_demo_test.go, and the exact `go test -run ...` command), and notes.md (which facet of the property it breaks, what it needs in order to manifest, what you ran and the results: suite pass with mutant, demo fails with mutant, demo passes without). Before finishing, restore the worktree to pristine (`git checkout -- . && git clean -fd -e out`) so only out/ remains. Verify each claim yourself by actually running the commands; do not report a mutant you have not verified. If you cannot find three, deliver as many as you verified and say so. Final message: a short list of the mutants (one paragraph each).""")
