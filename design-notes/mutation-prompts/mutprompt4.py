import sys, json, glob, os
p=sys.argv[1]
base=open('/tmp/mutprompt-%s.txt'%p).read() if os.path.exists('/tmp/mutprompt-%s.txt'%p) else None
if base is None:
    import subprocess
    base=subprocess.run(['python3','/tmp/mutprompt.py',p],capture_output=True,text=True).stdout + open('/tmp/mutprompt-C05.txt').read().split('Additional notes:')[1].join(['\n\nAdditional notes:',''])
base=base.replace('/tmp/mut-%s'%p, '/tmp/mut4-%s'%p)
tried=[]
for d in sorted(glob.glob('/verif/seeded/%s-*/meta.json'%p)):
    m=json.load(open(d))
    tried.append('- '+(m.get('needs_to_manifest') or '')[:260].replace('\n',' '))
extra="\n\nThis is a FOURTH round. Earlier testers already produced the following changes for this property (short notes, possibly truncated); produce three that are DIFFERENT in mechanism and location from all of these, and prefer facets of the property text that none of them touches:\n"+"\n".join(tried)+"\n"
print(base+extra)
