#!/usr/bin/env python3
"""Run the registered checks against the seeded breaking changes kept under seeded/<id>/.

  python3 tools_seeded.py [--tier quick|thorough] [--only <id-substring>] [--repo <tree>]

For every seeded/<id>/ (patch.diff + meta.json {"property": "Cxx", "also": [...]}) the patch is applied
to a tree of tychoish/fun, `./check <property>` (and the checks listed under "also") is run against
that tree, and the patch is reverted straight afterwards. By default the tree is a scratch git
worktree of /repo's HEAD (so /repo itself is never dirtied while other work is going on); with
--repo /repo the patch is applied to /repo itself (git apply / git checkout -- .).
Writes seeded/RESULTS.md (which check caught which change, with the VIOLATION line)."""
import argparse, glob, json, os, subprocess, sys, time

VERIF = os.path.dirname(os.path.abspath(__file__))


def sh(cmd, **kw):
    p = subprocess.run(cmd, stdout=subprocess.PIPE, stderr=subprocess.STDOUT, text=True, **kw)
    return p.returncode, p.stdout


def main():
    ap = argparse.ArgumentParser()
    ap.add_argument("--tier", default="quick")
    ap.add_argument("--only", default="")
    ap.add_argument("--repo", default="")
    a = ap.parse_args()
    scratch = None
    tree = a.repo
    if not tree:
        scratch = "/tmp/seedrun-%d" % os.getpid()
        rc, out = sh(["git", "-C", "/repo", "worktree", "add", "--detach", scratch, "HEAD"])
        if rc != 0:
            print(out); return 2
        tree = scratch
    rows = []
    try:
        for d in sorted(glob.glob(os.path.join(VERIF, "seeded", "*", ""))):
            sid = os.path.basename(os.path.dirname(d))
            if a.only and a.only not in sid:
                continue
            meta = json.load(open(os.path.join(d, "meta.json")))
            props = [meta["property"]] + meta.get("also", [])
            rc, out = sh(["git", "-C", tree, "apply", os.path.join(d, "patch.diff")])
            if rc != 0:
                rows.append((sid, props[0], "patch does not apply: " + out.strip()[:120], "-"))
                continue
            try:
                for p in props:
                    t0 = time.time()
                    env = dict(os.environ, VERIF_REPO=tree)
                    tier = meta.get("also_tier", a.tier) if p != meta["property"] else a.tier
                    rc, out = sh([os.path.join(VERIF, "check"), p, "--tier", tier], cwd=VERIF, env=env)
                    viol = [l for l in out.splitlines() if l.startswith("VIOLATION")]
                    verdict = "caught" if rc == 1 and viol else ("MISSED" if rc == 0 else f"error rc={rc}")
                    rows.append((sid, p, verdict, (viol[0] if viol else out.strip().splitlines()[-1] if out.strip() else "")[:260]))
                    print(f"{sid:28s} {p} {verdict} ({time.time()-t0:.0f}s) {rows[-1][3][:160]}", flush=True)
            finally:
                sh(["git", "-C", tree, "checkout", "--", "."])
                sh(["git", "-C", tree, "clean", "-fdq"])
    finally:
        if scratch:
            sh(["git", "-C", "/repo", "worktree", "remove", "--force", scratch])
        # the checks regenerate lean/FunGen from the tree they ran against: bring it back to /repo's
        sh(["go", "run", ".", "-repo", "/repo", "-out", os.path.join(VERIF, "lean", "FunGen")],
           cwd=os.path.join(VERIF, "tools", "go2lean"),
           env=dict(os.environ, GOFLAGS="-mod=mod", GOPROXY="off", GOSUMDB="off", GOTOOLCHAIN="local"))
        lf = os.path.join(VERIF, ".work", "bin", "lockfacts")
        if os.path.exists(lf):
            sh([lf, "-repo", "/repo", "-classes", os.path.join(VERIF, "tools", "lockfacts", "classes.json"),
                "-lean", os.path.join(VERIF, "lean", "FunGen", "LockFacts.lean"), "-json", "/dev/null",
                "-known", os.path.join(VERIF, "known-findings.jsonl")], cwd=os.path.join(VERIF, "tools", "lockfacts"))
    # keep the rows of earlier (partial) runs for changes not re-run now
    res = os.path.join(VERIF, "seeded", "RESULTS.md")
    done = {(r[0], r[1]) for r in rows}
    if os.path.exists(res):
        for line in open(res):
            c = [x.strip() for x in line.strip().strip("|").split(" | ")]
            if len(c) == 4 and c[0] not in ("seeded change", "---") and (c[0], c[1]) not in done:
                rows.append(tuple(c))
    rows.sort()
    with open(res, "w") as fh:
        fh.write(f"# Seeded breaking changes vs. checks (tier {a.tier})\n\n| seeded change | check | verdict | first VIOLATION line |\n|---|---|---|---|\n")
        for r in rows:
            fh.write("| " + " | ".join(x.replace("|", "\\|") for x in r) + " |\n")
    missed = [r for r in rows if r[2] != "caught"]
    print(f"{len(rows)} runs, {len(missed)} not caught")
    return 0


sys.exit(main())
