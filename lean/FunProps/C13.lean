import FunProofs.Lockset
import FunGen.LockFacts

/-!
# C13 — the concurrency-safe types are free of data races

Full statement (property C13): using pubsub.Queue, Deque, Broker and their Distributors and
iterators, fun.WaitGroup, erc.Collector, adt.Map/Atomic/Synchronized/Once/Pool, a synchronised
dt.Set and the Lock/WithLock/Once/Limit wrappers from any number of goroutines through their
public API never produces a data race — for all client programs and all interleavings.

How it is stated here. `FunGen.LockFacts.lockFacts` is regenerated from the Go sources by
`tools/lockfacts` on every run: per type, every access site with the locks held there, the call
graph with its lock-set certificate, every way client code can enter. An *execution* is any
trace (any number of threads, any interleaving) that respects mutex exclusion and the `sync.Once`
rule (`WF`) and that is an execution of the code the table describes (`Conforms`: this is what is
trusted about the extractor — see `FunModel/Lockset.lean`). A *race* is a pair of conflicting
accesses not ordered by happens-before.

* `lockset_race_free`  — generic: a disciplined table has no racy execution.
* `all_sites_guarded`  — the regenerated table is disciplined (kernel evaluation of `Disciplined`).
* `fun_race_free`      — hence no execution of any client program of these types has a data race.

`fun_race_free` is the full statement only while `FunGen.LockFacts.exempted` is empty. An entry
point or site exempted as a recorded open finding (known-findings.jsonl) is left out of the table,
i.e. the theorem is then about the client programs that do not use it. `no_exemptions` pins the
list: the day a finding is exempted it stops to hold, and `fun_race_free` has to be renamed
`fun_race_free_partial` with the exempted keys spelled out here.
-/

namespace FunModel.C13
open FunModel.Lockset FunGen.LockFacts

/-- Generic lock-set theorem: if every entry provides what its node assumes, every in-place call
provides what the callee assumes and every site is guarded according to the class of its location
(`Disciplined F`), then no well-formed execution of code described by `F` — any number of threads,
any sequence of calls, any interleaving — contains a data race. -/
theorem lockset_race_free (F : Facts) (hD : Disciplined F = true) (tr : Trace) (wf : WF tr)
    (hc : Conforms F tr) : ¬ Race tr :=
  facts_race_free F hD tr wf hc

/-- The same on the level of traces, without any table: a trace whose every access is made with
tokens that satisfy the guard of the location's class has no race. -/
theorem trace_race_free (cls : Nat → Class) (tr : Trace) (wf : WF tr) (hd : TraceDisciplined cls tr)
    (hconf : ConfinedOK cls tr) (hpre : PreLatch cls tr) (hcons : LatchConsistent cls) : ¬ Race tr :=
  lockset_race_free_core cls tr wf hd hconf hpre hcons

/-- The table regenerated from the current source is disciplined: every site of every
concurrency-safe type is guarded, every helper that needs a lock is only reached with it, every
closure / method value that client code can get hold of needs nothing it is not given. -/
theorem all_sites_guarded : lockFacts.all Disciplined = true := by decide

/-- No execution of any client program that uses one of the concurrency-safe types through the
entry points of the table has a data race. -/
theorem fun_race_free (F : Facts) (hF : F ∈ lockFacts) (tr : Trace) (wf : WF tr) (hc : Conforms F tr) :
    ¬ Race tr :=
  lockset_race_free F (List.all_eq_true.mp all_sites_guarded F hF) tr wf hc

/-- nothing is exempted: `fun_race_free` speaks about every entry point the extractor found -/
theorem no_exemptions : exempted = [] := rfl

/-! ## Non-vacuity -/

/-- a two-location type: `x` guarded by mutex 0, `y` read without it -/
def toy (guarded : Bool) : Facts where
  name := "toy"
  muNames := ["mu"]
  onceNames := []
  locNames := ["x"]
  classes := [.mutex 0]
  nodes := [
    { name := "Set", ctx := "method", assumes := [], entries := [{ key := "Set", held := [] }],
      sites := [{ key := "Set:x", loc := 0, kind := .wr, held := [.mu 0] }], calls := [] },
    { name := "Get", ctx := "method", assumes := [], entries := [{ key := "Get", held := [] }],
      sites := [{ key := "Get:x", loc := 0, kind := .rd, held := if guarded then [.mu 0] else [] }], calls := [] }]

example : Disciplined (toy true) = true := by decide
example : Disciplined (toy false) = false := by decide

/-- thread 1 calls Set, thread 2 calls Get, both under the mutex, interleaved -/
def goodTrace : Trace :=
  [⟨1, .enter 0 0⟩, ⟨2, .enter 1 0⟩, ⟨1, .acq 0⟩, ⟨1, .acc 0 0 0 0 0 .wr⟩, ⟨1, .rel 0⟩,
   ⟨2, .acq 0⟩, ⟨2, .acc 1 1 0 0 0 .rd⟩, ⟨2, .rel 0⟩]

/-- the unguarded Get of `toy false` running next to Set -/
def badTrace : Trace :=
  [⟨1, .enter 0 0⟩, ⟨2, .enter 1 0⟩, ⟨1, .acq 0⟩, ⟨1, .acc 0 0 0 0 0 .wr⟩, ⟨2, .acc 1 1 0 0 0 .rd⟩, ⟨1, .rel 0⟩]

/-- the steps of `goodTrace`, one by one -/
theorem at_good {i : Nat} {t : Tid} {a : Act} (h : At goodTrace i t a) :
    (i = 0 ∧ t = 1 ∧ a = .enter 0 0) ∨ (i = 1 ∧ t = 2 ∧ a = .enter 1 0) ∨ (i = 2 ∧ t = 1 ∧ a = .acq 0) ∨
    (i = 3 ∧ t = 1 ∧ a = .acc 0 0 0 0 0 .wr) ∨ (i = 4 ∧ t = 1 ∧ a = .rel 0) ∨ (i = 5 ∧ t = 2 ∧ a = .acq 0) ∨
    (i = 6 ∧ t = 2 ∧ a = .acc 1 1 0 0 0 .rd) ∨ (i = 7 ∧ t = 2 ∧ a = .rel 0) := by
  match i, h with
  | 0, h | 1, h | 2, h | 3, h | 4, h | 5, h | 6, h | 7, h =>
    simp [At, goodTrace] at h; obtain ⟨rfl, rfl⟩ := h; simp
  | i + 8, h => simp [At, goodTrace] at h

theorem toy_class (l : Nat) : (toy true).classOf l = .mutex 0 ∨ (toy true).classOf l = .unknown := by
  match l with
  | 0 => left; rfl
  | l + 1 => right; simp [Facts.classOf, toy]

/-- the hypotheses of `lockset_race_free` are satisfiable by a concrete two-thread execution:
`goodTrace` is well-formed and conforms to the (disciplined) table `toy true` -/
example : Disciplined (toy true) = true ∧ WF goodTrace ∧ Conforms (toy true) goodTrace := by
  refine ⟨by decide, ?_, ?_⟩
  · constructor
    · intro i t m h t' hh
      obtain ⟨j, hji, hacq, hno⟩ := hh
      rcases at_good h with ⟨rfl, _, h'⟩ | ⟨rfl, _, h'⟩ | ⟨rfl, _, h'⟩ | ⟨rfl, _, h'⟩ | ⟨rfl, _, h'⟩ | ⟨rfl, _, h'⟩ |
          ⟨rfl, _, h'⟩ | ⟨rfl, _, h'⟩ <;> try (cases h')
      · -- step 2: nobody acquired before
        rcases at_good hacq with ⟨rfl, _, h'⟩ | ⟨rfl, _, h'⟩ | ⟨rfl, _, h'⟩ | ⟨rfl, _, h'⟩ | ⟨rfl, _, h'⟩ | ⟨rfl, _, h'⟩ |
          ⟨rfl, _, h'⟩ | ⟨rfl, _, h'⟩ <;> first | omega | cases h'
      · -- step 5: thread 1 acquired at 2 and released at 4
        rcases at_good hacq with ⟨rfl, _, h'⟩ | ⟨rfl, _, h'⟩ | ⟨rfl, rfl, h'⟩ | ⟨rfl, _, h'⟩ | ⟨rfl, _, h'⟩ | ⟨rfl, _, h'⟩ |
          ⟨rfl, _, h'⟩ | ⟨rfl, _, h'⟩ <;> first | omega | cases h' | skip
        exact hno 4 (by omega) (by omega) rfl
    · intro i j t t' o h
      rcases at_good h with ⟨_, _, h'⟩ | ⟨_, _, h'⟩ | ⟨_, _, h'⟩ | ⟨_, _, h'⟩ | ⟨_, _, h'⟩ | ⟨_, _, h'⟩ | ⟨_, _, h'⟩ |
        ⟨_, _, h'⟩ <;> cases h'
    · intro i t o h
      rcases at_good h with ⟨_, _, h'⟩ | ⟨_, _, h'⟩ | ⟨_, _, h'⟩ | ⟨_, _, h'⟩ | ⟨_, _, h'⟩ | ⟨_, _, h'⟩ | ⟨_, _, h'⟩ |
        ⟨_, _, h'⟩ <;> cases h'
    · intro i t o h
      rcases at_good h with ⟨_, _, h'⟩ | ⟨_, _, h'⟩ | ⟨_, _, h'⟩ | ⟨_, _, h'⟩ | ⟨_, _, h'⟩ | ⟨_, _, h'⟩ | ⟨_, _, h'⟩ |
        ⟨_, _, h'⟩ <;> cases h'
    · intro i t a h
      rcases at_good h with ⟨_, _, h'⟩ | ⟨_, _, h'⟩ | ⟨_, _, h'⟩ | ⟨_, _, h'⟩ | ⟨_, _, h'⟩ | ⟨_, _, h'⟩ | ⟨_, _, h'⟩ |
        ⟨_, _, h'⟩ <;> cases h'
    · intro i t c h
      rcases at_good h with ⟨_, _, h'⟩ | ⟨_, _, h'⟩ | ⟨_, _, h'⟩ | ⟨_, _, h'⟩ | ⟨_, _, h'⟩ | ⟨_, _, h'⟩ | ⟨_, _, h'⟩ |
        ⟨_, _, h'⟩ <;> cases h'
  · constructor
    · intro e t n k h
      rcases at_good h with ⟨rfl, rfl, h'⟩ | ⟨rfl, rfl, h'⟩ | ⟨_, _, h'⟩ | ⟨_, _, h'⟩ | ⟨_, _, h'⟩ | ⟨_, _, h'⟩ | ⟨_, _, h'⟩ |
        ⟨_, _, h'⟩ <;> cases h'
      · exact ⟨_, _, rfl, rfl, by intro tok h; cases h⟩
      · exact ⟨_, _, rfl, rfl, by intro tok h; cases h⟩
    · intro i t n e c h
      rcases at_good h with ⟨_, _, h'⟩ | ⟨_, _, h'⟩ | ⟨_, _, h'⟩ | ⟨_, _, h'⟩ | ⟨_, _, h'⟩ | ⟨_, _, h'⟩ | ⟨_, _, h'⟩ |
        ⟨_, _, h'⟩ <;> cases h'
    · intro i t n e s l c k h
      rcases at_good h with ⟨_, _, h'⟩ | ⟨_, _, h'⟩ | ⟨_, _, h'⟩ | ⟨rfl, rfl, h'⟩ | ⟨_, _, h'⟩ | ⟨_, _, h'⟩ | ⟨rfl, rfl, h'⟩ |
        ⟨_, _, h'⟩ <;> cases h'
      · refine ⟨_, _, rfl, rfl, rfl, rfl, rfl, Or.inl ⟨0, rfl⟩, by omega, ?_, ?_⟩
        · intro tok htok
          simp at htok; subst htok
          refine ⟨2, by omega, rfl, ?_⟩
          intro k hk1 hk2; omega
        · intro _ tok htok; simp at htok
      · refine ⟨_, _, rfl, rfl, rfl, rfl, rfl, Or.inl ⟨0, rfl⟩, by omega, ?_, ?_⟩
        · intro tok htok
          simp at htok; subst htok
          refine ⟨5, by omega, rfl, ?_⟩
          intro k hk1 hk2; omega
        · intro _ tok htok; simp at htok
    · intro i j t₁ t₂ n₁ f₁ s₁ n₂ f₂ s₂ l c k₁ k₂ _ _ hc
      rcases toy_class l with h | h <;> rw [h] at hc <;> cases hc
    · intro i t n f s l c m a _ hc
      rcases toy_class l with h | h <;> rw [h] at hc <;> cases hc

/-- kernel-checked witness that `Race` is satisfiable: in `badTrace` the write (step 3) and the
read (step 4) conflict and nothing orders them -/
example : Race badTrace := by
  refine ⟨3, 4, 1, 2, 0, 0, 0, 1, 1, 0, 0, 0, .wr, .rd, by decide, rfl, rfl, rfl, ?_⟩
  intro h
  -- every happens-before edge of badTrace ending at step 4 would have to start at a step of
  -- thread 2 (only step 1) or be a synchronisation edge into step 4 (there is none)
  have key : ∀ i j, HB badTrace i j → j = 4 → i = 1 := by
    intro i j hb
    induction hb with
    | @po i j t a b hij hi hj =>
      intro hj4; subst hj4
      have : t = 2 := by
        have := hj; simp [At, badTrace] at this; exact this.1.symm
      subst this
      match i, hij, hi with
      | 0, _, hi => simp [At, badTrace] at hi
      | 1, _, _ => rfl
      | 2, _, hi => simp [At, badTrace] at hi
      | 3, _, hi => simp [At, badTrace] at hi
    | relAcq _ _ hj => intro hj4; subst hj4; simp [At, badTrace] at hj
    | once _ _ hj => intro hj4; subst hj4; simp [At, badTrace] at hj
    | latch _ _ hj => intro hj4; subst hj4; simp [At, badTrace] at hj
    | @spawn i j t c a hij hi hj =>
      intro hj4; subst hj4
      match i, hij, hi with
      | 0, _, hi => simp [At, badTrace] at hi
      | 1, _, hi => simp [At, badTrace] at hi
      | 2, _, hi => simp [At, badTrace] at hi
      | 3, _, hi => simp [At, badTrace] at hi
    | @trans i j k h1 h2 ih1 ih2 =>
      intro hk4
      have hj1 := ih2 hk4
      subst hj1
      have := HB.lt h1
      -- i < 1, so i = 0; an edge 0 → 1 needs the same thread or a synchronisation step at 0
      have hi0 : i = 0 := by omega
      subst hi0
      exfalso
      clear ih1 ih2 h2
      have : ∀ i j, HB badTrace i j → i = 0 → j = 1 → False := by
        intro i j hb
        induction hb with
        | @po i j t a b _ hi hj =>
          intro hi0 hj1; subst hi0; subst hj1
          simp [At, badTrace] at hi hj
          have h1 := hi.1
          have h2 := hj.1
          subst h1
          cases h2
        | relAcq _ hi _ => intro hi0 _; subst hi0; simp [At, badTrace] at hi
        | once _ hi _ => intro hi0 _; subst hi0; simp [At, badTrace] at hi
        | latch _ hi _ => intro hi0 _; subst hi0; simp [At, badTrace] at hi
        | spawn _ hi _ => intro hi0 _; subst hi0; simp [At, badTrace] at hi
        | @trans i j k h1 h2 _ _ =>
          intro hi0 hk1; subst hi0; subst hk1
          have := HB.lt h1; have := HB.lt h2; omega
      exact this 0 1 h1 rfl rfl
  have := key 3 4 h rfl
  omega

end FunModel.C13
