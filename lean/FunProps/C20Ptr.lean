import FunProofs.QueuePtr
import FunProofs.DequePtr

/-! C20 — pointer-level obligations for the non-destructive iterators. The iterator models follow
    `St.linkOf` (Queue) and `St.nbr` (Deque) from a cursor that may stand on an element that has been
    removed in the meantime. These theorems say that in every reachable state those functions are the
    `link` / `next` / `prev` fields of a heap produced by the *generated* link updates of
    queue.go / deque.go (lean/FunGen/QueuePtr.lean, DequePtr.lean), for every element ever allocated —
    in particular that a removed element keeps the links it had (`pop` does not reset them, `popFront`
    does not touch `e.link`). -/
namespace FunModel.C20Ptr
open FunModel.Conc

/-- Queue: in every reachable state there is a heap, produced from `makeQueue`'s by the generated
    `doAdd`/`popFront`, whose `link` field is the model's `linkOf` for *every* address (sentinel, linked and
    removed entries), whose `back` is the model's, and whose items are the model's `valOf` -/
theorem queue_iterator_follows_heap {q0 : FunModel.Queue.St} (h0 : FunModel.Queue.InitQ q0)
    {programs : List (List FunModel.Queue.Op)} {log : List (FunModel.ConcSubj.Ev FunModel.Queue.St FunModel.Queue.Op)}
    {s : Sys FunModel.Queue.St FunModel.Queue.Op}
    (h : FunModel.ConcSubj.Reach' FunModel.Queue.subject (initSys q0 programs) log s) :
    ∃ hp, FunProofs.QueuePtr.PReach hp ∧ (∀ c, hp.link c = s.subj.linkOf c) ∧ hp.back = some s.subj.back ∧
      hp.front = some 0 ∧ (∀ c, c ≠ 0 → c < hp.nn → hp.item c = s.subj.valOf c) := by
  obtain ⟨hp, h1, h2⟩ := FunProofs.QueuePtr.run_rep h0 h
  exact ⟨hp, h1, h2.links, h2.back, h2.front, h2.vals⟩

/-- Deque: in every reachable state there is a heap, produced from `makeDeque`'s by the generated
    `addAfter`/`pop`, whose `next` / `prev` fields are the model's `nbr .front` / `nbr .back` for every
    element ever allocated (root, linked, removed), and whose items are the model's `valOf` -/
theorem deque_iterator_follows_heap (dq : Nat) {x0 : FunModel.Deque.St} (hq : x0.q = []) (hid : x0.nextId = 1)
    (programs : List (List FunModel.Deque.Op)) {s : Sys FunModel.Deque.St FunModel.Deque.Op}
    (hr : Reach FunModel.Deque.subject (initSys x0 programs) s) :
    ∃ hp, FunProofs.DequePtr.PReach dq hp ∧
      (∀ c, c < hp.nn → (hp.node c).next = some (s.subj.nbr .front c) ∧ (hp.node c).prev = some (s.subj.nbr .back c)) ∧
      (∀ c, c ≠ 0 → c < hp.nn → (hp.node c).item = s.subj.valOf c) := by
  have h0 : FunProofs.DequePtr.Rep dq (initSys x0 programs).subj := ⟨_, .init, FunProofs.DequePtr.R.init dq hq hid⟩
  obtain ⟨hp, h1, h2⟩ := FunProofs.DequePtr.reach_rep dq (initSys_wf x0 programs) h0 hr
  exact ⟨hp, h1, fun c hc => ⟨h2.next_eq hc, h2.prev_eq hc⟩, h2.vals⟩

/-! non-vacuity: the hypotheses hold for the initial systems -/
example : FunModel.Queue.InitQ FunModel.Queue.mkUnlimited := Or.inl rfl
example : ({ tracker := .hard 2 0 } : FunModel.Deque.St).q = [] ∧ ({ tracker := .hard 2 0 } : FunModel.Deque.St).nextId = 1 :=
  ⟨rfl, rfl⟩

end FunModel.C20Ptr
