import FunProofs.SortPtr
import FunProps.C17

/-! C17, pointer level — `dt/cmp.go` on the heap of elements and list headers (`FunModel/Dll.lean`)
    refines the sequence-level algorithms of `FunModel/SortSeq.lean`, for every well-formed heap
    (`WF h g`, the invariant of C16: any number of lists of any length) and every allocated list:

    * `split`, `merge`, `mergeSort` (every fuel), `SortMerge`, `SortQuick`, `Heap.Push` do not panic,
      keep `WF` (so the list "remains fully usable", `list_usable`), leave every other list alone and
      turn the ghost sequence / the value sequence of the list into exactly what the sequence-level
      function returns on the previous one; `IsSorted` and `Heap.Pop` return what the sequence-level
      functions return;
    * the fuel the pointer-level wrappers pass to their loops is enough for lists of any length
      (it is part of the definitions `Heap.split/merge/sortMerge/sortQuick/isSorted/heapPush`; the
      statements below are about these wrappers, no fuel hypothesis appears);
    * with the theorems of `FunProps/C17.lean` this gives the property on the heap: after
      `SortMerge`/`SortQuick` the list holds a sorted, stable permutation of its previous values
      (and of its previous elements), `IsSorted` = "no adjacent inversion", and a heap pops every
      pushed value once, in non-decreasing order, FIFO among equals — for any interleaving of
      pushes and pops the pointer-level heap behaves like the sorted sequence.

    Property theorems only; the loop invariants and helper lemmas are in `FunProofs/SortPtr.lean`
    (pointer level) and `FunProofs/SortPtrSeq.lean` (sequence functions commute with `map`). -/

namespace FunModel.C17Ptr
open FunModel FunModel.Dll FunModel.SortSeq FunProofs.SortPtr

variable {h : Heap} {g : Nat → List Nat} {l : Nat}

/-! ### 0. "remains fully usable" -/

/-- In every well-formed heap an allocated list is usable: `Len` = number of elements, every element
    is ok and `In(list)`, no element occurs twice, the forward walk visits exactly the elements and
    ends at the sentinel, and the backward walk is its reverse. (All C16 theorems about further
    operations have `WF` as their only hypothesis.) -/
theorem list_usable (hw : WF h g) (hl : l < h.nl) :
    (h.hdr l).length = (g l).length ∧ (g l).Nodup ∧
      (∀ x, x ∈ g l → (h.node x).ok = true ∧ (h.node x).list = some l) ∧
      ∀ fuel, (g l).length < fuel →
        (h.lazySetup l).walkFwd l fuel = (g l, "end") ∧
        (h.lazySetup l).walkBwd l fuel = ((g l).reverse, "end") :=
  usable hw hl

/-! ### 1. refinement: `split`, `merge`, `mergeSort` -/

/-- `split(list)`: no panic; the fresh list `h.nl` receives the front part, `list` keeps the back
    part — exactly `SortSeq.split` — on the elements and on the values; nothing else changes. -/
theorem split_refines (hw : WF h g) (hl : l < h.nl) :
    ∃ h' g', h.split l = some (h', h.nl) ∧ WF h' g' ∧ Frame h h' ∧ h.nl < h'.nl ∧
      g' h.nl = (split (g l)).1 ∧ g' l = (split (g l)).2 ∧
      vals h' g' h.nl = (split (vals h g l)).1 ∧ vals h' g' l = (split (vals h g l)).2 ∧
      ∀ l', l' ≠ l → l' ≠ h.nl → g' l' = g l' :=
  split_vals hw hl

/-- `merge(lt, a, b)` for distinct allocated lists: no panic; the fresh list `h.nl` receives
    `SortSeq.merge` of the two sequences (elements compared through their items), `a` and `b` end
    empty, nothing else changes. -/
theorem merge_refines (hw : WF h g) {a b : Nat} (ha : a < h.nl) (hb : b < h.nl) (hab : a ≠ b)
    (lt : Int → Int → Bool) :
    ∃ h' g', h.merge lt a b = some (h', h.nl) ∧ WF h' g' ∧ Frame h h' ∧ h.nl < h'.nl ∧
      g' h.nl = merge (ltOn lt (item h)) (g a) (g b) ∧ g' a = [] ∧ g' b = [] ∧
      vals h' g' h.nl = merge lt (vals h g a) (vals h g b) ∧
      ∀ l', l' ≠ a → l' ≠ b → l' ≠ h.nl → g' l' = g l' :=
  merge_vals hw ha hb hab lt

/-- `mergeSort(head, lt)` with any recursion fuel: no panic; the returned list (`head` itself or a
    list allocated during the call) holds `SortSeq.mergeSort` with the same fuel; if another list is
    returned `head` ends empty; every other list is as before (the temporaries end empty). -/
theorem mergeSort_refines (hw : WF h g) (hl : l < h.nl) (lt : Int → Int → Bool) (fuel : Nat) :
    ∃ h' g' res, h.mergeSort lt l fuel = some (h', res) ∧ WF h' g' ∧ Frame h h' ∧
      res < h'.nl ∧ (res = l ∨ h.nl ≤ res) ∧
      g' res = mergeSort (ltOn lt (item h)) (g l) fuel ∧
      vals h' g' res = mergeSort lt (vals h g l) fuel ∧ (res ≠ l → g' l = []) ∧
      ∀ l', l' ≠ l → l' ≠ res → g' l' = g l' :=
  mergeSort_vals hw hl lt fuel

/-- The recursion fuel is adequate: with any two fuels not below the length of the list (the wrapper
    `sortMerge` passes length + 1) `mergeSort` returns the same element sequence and the same values,
    and they are sorted — the "out of fuel" exit of the model (which returns the list as it is) is
    not what produces the result. The Go function has no fuel; `C17.sortMerge_unfold` is its
    recursion equation. -/
theorem mergeSort_fuel_adequate {lt : Int → Int → Bool} (hs : StrictWeak lt) (hw : WF h g) (hl : l < h.nl)
    (f1 f2 : Nat) (h1 : (g l).length ≤ f1) (h2 : (g l).length ≤ f2) :
    ∃ h1' g1' r1 h2' g2' r2, h.mergeSort lt l f1 = some (h1', r1) ∧ h.mergeSort lt l f2 = some (h2', r2) ∧
      WF h1' g1' ∧ WF h2' g2' ∧ g1' r1 = g2' r2 ∧ vals h1' g1' r1 = vals h2' g2' r2 ∧
      Sorted lt (vals h1' g1' r1) := by
  obtain ⟨h1', g1', r1, e1, hw1, _, _, _, hg1, hv1, _⟩ := mergeSort_refines hw hl lt f1
  obtain ⟨h2', g2', r2, e2, hw2, _, _, _, hg2, hv2, _⟩ := mergeSort_refines hw hl lt f2
  have hlen : (vals h g l).length = (g l).length := by simp [vals]
  refine ⟨h1', g1', r1, h2', g2', r2, e1, e2, hw1, hw2, ?_, ?_, ?_⟩
  · rw [hg1, hg2]; exact mergeSort_fuel _ f1 f2 _ h1 h2
  · rw [hv1, hv2]; exact mergeSort_fuel _ f1 f2 _ (by omega) (by omega)
  · rw [hv1]; exact mergeSort_sorted hs _ _ (by omega)

/-! ### 2. refinement: `SortMerge`, `SortQuick`, `IsSorted` -/

/-- `l.SortMerge(lt)`: no panic, `WF` kept, the sorted elements are back in `l` itself: its element
    sequence / value sequence is `SortSeq.sortMerge` of the previous one; all other lists
    (including the temporaries of the recursion) are as before. -/
theorem sortMerge_refines (hw : WF h g) (hl : l < h.nl) (lt : Int → Int → Bool) :
    ∃ h' g', h.sortMerge lt l = some h' ∧ WF h' g' ∧ Frame h h' ∧
      g' l = sortMerge (ltOn lt (item h)) (g l) ∧
      vals h' g' l = sortMerge lt (vals h g l) ∧
      ∀ l', l' ≠ l → g' l' = g l' ∧ vals h' g' l' = vals h g l' :=
  sortMerge_vals hw hl lt

/-- `l.SortQuick(lt)` (pop all, `sort.SliceStable` = stable insertion sort, re-append). -/
theorem sortQuick_refines (hw : WF h g) (hl : l < h.nl) (lt : Int → Int → Bool) :
    ∃ h' g', h.sortQuick lt l = some h' ∧ WF h' g' ∧ Frame h h' ∧
      g' l = sortQuick (ltOn lt (item h)) (g l) ∧
      vals h' g' l = sortQuick lt (vals h g l) ∧
      ∀ l', l' ≠ l → g' l' = g l' ∧ vals h' g' l' = vals h g l' :=
  sortQuick_vals hw hl lt

/-- `l.IsSorted(lt)` (the walk from the second element comparing with `Previous()`): no panic and
    the Boolean is `SortSeq.isSorted` of the value sequence. -/
theorem isSorted_refines (hw : WF h g) (l : Nat) (lt : Int → Int → Bool) :
    h.isSorted lt l = some (isSorted lt (vals h g l)) :=
  isSorted_vals hw l lt

/-! ### 3. refinement: `Heap.Push`, `Heap.Pop`, whole runs -/

/-- `Heap.Push(t)` on the backing list `l` (scan from the back, `Append` after the first element `t`
    is not less than, `PushFront` if there is none): no panic, `WF` kept, one fresh element `n`
    carrying `t` is inserted somewhere into the element sequence, the value sequence becomes
    `SortSeq.heapInsert lt t` of the previous one; other lists untouched. -/
theorem heapPush_refines (hw : WF h g) (hl : l < h.nl) (lt : Int → Int → Bool) (t : Int) :
    ∃ h' g' n f1 f2, h.heapPush lt l t = some h' ∧ WF h' g' ∧ Frame h h' ∧ h.nn ≤ n ∧
      (h'.node n).item = t ∧ g l = f1 ++ f2 ∧ g' l = f1 ++ n :: f2 ∧ (∀ l', l' ≠ l → g' l' = g l') ∧
      vals h' g' l = heapInsert lt t (vals h g l) :=
  heapPush_spec hw hl lt t

/-- `Heap.Pop()` on a non-empty heap returns the first value with `ok = true` and leaves the rest -/
theorem heapPop_refines_nonempty (hw : WF h g) {v : Int} {vs : List Int} (hv : vals h g l = v :: vs) :
    ∃ h' g' e, h.popFront l = some (h', e) ∧ (h'.node e).item = v ∧ (h'.node e).ok = true ∧
      WF h' g' ∧ Frame h h' ∧ vals h' g' l = vs ∧ ∀ l', l' ≠ l → g' l' = g l' := by
  cases hg : g l with
  | nil => simp [vals, hg] at hv
  | cons x xs =>
    obtain ⟨h', e1, hw', hf', hok, hit, hv'⟩ := heapPop_cons hw hg
    rw [hv] at hv'
    injection hv' with h1 h2
    exact ⟨h', _, x, e1, by rw [hit, h1], hok, hw', hf', h2.symm, fun l' hl' => upd_other _ _ hl'⟩

/-- `Heap.Pop()` on an empty heap returns the zero value and `ok = false`; nothing changes -/
theorem heapPop_refines_empty (hw : WF h g) (hl : l < h.nl) (hv : vals h g l = []) :
    ∃ h' e, h.popFront l = some (h', e) ∧ (h'.node e).item = 0 ∧ (h'.node e).ok = false ∧
      WF h' g ∧ Frame h h' := by
  have hg : g l = [] := by simpa [vals] using hv
  obtain ⟨h', z, e1, _, hw', hf', _, _, hz⟩ := hw.pop_empty hl hg
  exact ⟨h', z, e1, by rw [hz], by rw [hz], hw', hf'⟩

/-- Any interleaving of pushes and pops: the pointer-level heap never panics, stays well-formed,
    and its pops return exactly what the sequence-level heap (`seqRun`: `heapInsert` / take the head)
    returns; the final value sequences agree too. -/
theorem heapRun_refines (hw : WF h g) (hl : l < h.nl) (lt : Int → Int → Bool) (ops : List HOp) :
    ∃ h' g', heapRun lt l ops h = some (h', (seqRun lt ops (vals h g l)).2) ∧ WF h' g' ∧ Frame h h' ∧
      vals h' g' l = (seqRun lt ops (vals h g l)).1 ∧ ∀ l', l' ≠ l → g' l' = g l' :=
  FunProofs.SortPtr.heapRun_refines lt ops hw hl

/-! ### 4. the property on the heap: `SortMerge`, `SortQuick` -/

/-- After `SortMerge` the list holds the same elements (as a permutation of addresses, items
    unchanged), its values are a permutation of the previous values in which no value is `lt` any
    earlier one (in particular not its predecessor), equal values keep their relative order, the
    heap is well-formed (hence `list_usable` applies) and the other lists are untouched. -/
theorem sortMerge_ptr_correct {lt : Int → Int → Bool} (hs : StrictWeak lt) (hw : WF h g) (hl : l < h.nl) :
    ∃ h' g', h.sortMerge lt l = some h' ∧ WF h' g' ∧ (g' l).Perm (g l) ∧
      (∀ x, x ∈ g l → (h'.node x).item = (h.node x).item) ∧
      (vals h' g' l).Perm (vals h g l) ∧ Sorted lt (vals h' g' l) ∧ AdjSorted lt (vals h' g' l) ∧
      (∀ k, (vals h' g' l).filter (equiv lt k) = (vals h g l).filter (equiv lt k)) ∧
      ∀ l', l' ≠ l → g' l' = g l' ∧ vals h' g' l' = vals h g l' := by
  obtain ⟨h', g', e1, hw', hf', hg', hv', ho⟩ := sortMerge_refines hw hl lt
  refine ⟨h', g', e1, hw', by rw [hg']; exact C17.sortMerge_perm _ _,
    fun x hx => (hf'.data x ((hw.lwf l).elem x hx).1).2, ?_, ?_, ?_, ?_, ho⟩ <;> rw [hv']
  · exact C17.sortMerge_perm lt _
  · exact C17.sortMerge_sorted hs _
  · exact C17.sortMerge_adjSorted hs _
  · exact C17.sortMerge_stable hs _

/-- The same for `SortQuick`; stability is the part the property asks of `SortQuick` only. -/
theorem sortQuick_ptr_correct {lt : Int → Int → Bool} (hs : StrictWeak lt) (hw : WF h g) (hl : l < h.nl) :
    ∃ h' g', h.sortQuick lt l = some h' ∧ WF h' g' ∧ (g' l).Perm (g l) ∧
      (∀ x, x ∈ g l → (h'.node x).item = (h.node x).item) ∧
      (vals h' g' l).Perm (vals h g l) ∧ Sorted lt (vals h' g' l) ∧ AdjSorted lt (vals h' g' l) ∧
      (∀ k, (vals h' g' l).filter (equiv lt k) = (vals h g l).filter (equiv lt k)) ∧
      ∀ l', l' ≠ l → g' l' = g l' ∧ vals h' g' l' = vals h g l' := by
  obtain ⟨h', g', e1, hw', hf', hg', hv', ho⟩ := sortQuick_refines hw hl lt
  refine ⟨h', g', e1, hw', by rw [hg']; exact C17.sortQuick_perm _ _,
    fun x hx => (hf'.data x ((hw.lwf l).elem x hx).1).2, ?_, ?_, ?_, ?_, ho⟩ <;> rw [hv']
  · exact C17.sortQuick_perm lt _
  · exact C17.sortQuick_sorted hs _
  · exact C17.sortQuick_adjSorted hs _
  · exact C17.sortQuick_stable hs _

/-- On the heap, too, the two sorts produce the same value sequence. -/
theorem sortMerge_ptr_eq_sortQuick_ptr {lt : Int → Int → Bool} (hs : StrictWeak lt) (hw : WF h g)
    (hl : l < h.nl) :
    ∃ h1 g1 h2 g2, h.sortMerge lt l = some h1 ∧ WF h1 g1 ∧ h.sortQuick lt l = some h2 ∧ WF h2 g2 ∧
      vals h1 g1 l = vals h2 g2 l ∧ g1 l = g2 l := by
  obtain ⟨h1, g1, e1, hw1, _, hg1, hv1, _⟩ := sortMerge_refines hw hl lt
  obtain ⟨h2, g2, e2, hw2, _, hg2, hv2, _⟩ := sortQuick_refines hw hl lt
  refine ⟨h1, g1, h2, g2, e1, hw1, e2, hw2, ?_, ?_⟩
  · rw [hv1, hv2]; exact C17.sortMerge_eq_sortQuick hs _
  · rw [hg1, hg2]; exact C17.sortMerge_eq_sortQuick (hs.comap (item h)) _

/-! ### 5. the property on the heap: `IsSorted` -/

/-- `IsSorted` on the heap never panics and answers true exactly when no value is `lt` its
    predecessor in the list. -/
theorem isSorted_ptr_iff (hw : WF h g) (l : Nat) (lt : Int → Int → Bool) :
    ∃ b, h.isSorted lt l = some b ∧ (b = true ↔ AdjSorted lt (vals h g l)) :=
  ⟨_, isSorted_refines hw l lt, C17.isSorted_iff lt _⟩

/-- … in particular it answers true for lists shorter than two. -/
theorem isSorted_ptr_short (hw : WF h g) (lt : Int → Int → Bool) (hlen : (h.hdr l).length < 2) :
    h.isSorted lt l = some true := by
  rw [isSorted_refines hw l lt, C17.isSorted_short]
  have := (hw.lwf l).len
  simp only [vals, List.length_map]
  omega

/-- For a strict weak ordering "no adjacent inversion" is "no inversion at all". -/
theorem isSorted_ptr_iff_sorted {lt : Int → Int → Bool} (hs : StrictWeak lt) (hw : WF h g) (l : Nat) :
    h.isSorted lt l = some true ↔ Sorted lt (vals h g l) := by
  rw [isSorted_refines hw l lt, Option.some.injEq]
  exact C17.isSorted_iff_sorted hs _

/-- `IsSorted` answers true after either sort (on the heap the sort left behind). -/
theorem isSorted_after_sort {lt : Int → Int → Bool} (hs : StrictWeak lt) (hw : WF h g) (hl : l < h.nl) :
    (∃ h', h.sortMerge lt l = some h' ∧ h'.isSorted lt l = some true) ∧
    (∃ h', h.sortQuick lt l = some h' ∧ h'.isSorted lt l = some true) := by
  obtain ⟨h1, g1, e1, hw1, _, _, _, hs1, _⟩ := sortMerge_ptr_correct hs hw hl
  obtain ⟨h2, g2, e2, hw2, _, _, _, hs2, _⟩ := sortQuick_ptr_correct hs hw hl
  exact ⟨⟨h1, e1, (isSorted_ptr_iff_sorted hs hw1 l).2 hs1⟩, ⟨h2, e2, (isSorted_ptr_iff_sorted hs hw2 l).2 hs2⟩⟩

/-! ### 6. the property on the heap: `Heap` -/

/-- `Push` keeps the backing list sorted and adds exactly the pushed value (after its equals). -/
theorem heapPush_ptr_correct {lt : Int → Int → Bool} (hs : StrictWeak lt) (hw : WF h g) (hl : l < h.nl)
    (t : Int) (hsorted : Sorted lt (vals h g l)) :
    ∃ h' g', h.heapPush lt l t = some h' ∧ WF h' g' ∧ (vals h' g' l).Perm (t :: vals h g l) ∧
      Sorted lt (vals h' g' l) ∧
      (∀ k, (vals h' g' l).filter (equiv lt k) = (vals h g l ++ [t]).filter (equiv lt k)) ∧
      ∀ l', l' ≠ l → g' l' = g l' := by
  obtain ⟨h', g', n, f1, f2, e1, hw', _, _, _, _, _, ho, hv⟩ := heapPush_refines hw hl lt t
  refine ⟨h', g', e1, hw', ?_, ?_, ?_, ho⟩ <;> rw [hv]
  · exact C17.heapInsert_perm lt t _
  · exact C17.heapInsert_sorted hs t _ hsorted
  · exact C17.heapInsert_stable hs t _

/-- `Pop` on a sorted backing list returns a minimum: no remaining value is `lt` the popped one,
    and the rest is still sorted. -/
theorem heapPop_ptr_min {lt : Int → Int → Bool} (hw : WF h g) {v : Int} {vs : List Int}
    (hv : vals h g l = v :: vs) (hsorted : Sorted lt (vals h g l)) :
    ∃ h' g' e, h.popFront l = some (h', e) ∧ (h'.node e).item = v ∧ (h'.node e).ok = true ∧
      WF h' g' ∧ vals h' g' l = vs ∧ (∀ z, z ∈ vs → lt z v = false) ∧ Sorted lt (vals h' g' l) := by
  obtain ⟨h', g', e, e1, hi, hok, hw', _, hv', _⟩ := heapPop_refines_nonempty hw hv
  rw [hv] at hsorted
  have := sorted_cons.1 hsorted
  exact ⟨h', g', e, e1, hi, hok, hw', hv', this.1, by rw [hv']; exact this.2⟩

/-- A heap on an empty backing list: push `ts` (in this order), then pop `ts.length + 1` times.
    No panic; the pops return, with `ok = true`, the values `heapOf lt ts` — a permutation of `ts`
    (every pushed value exactly once) in which no value is `lt` an earlier one, equal values in
    push order; it is THE stable sort of `ts` — and the last pop returns `(0, false)`; the heap is
    well-formed and empty afterwards. -/
theorem heap_ptr_pops_sorted {lt : Int → Int → Bool} (hs : StrictWeak lt) (hw : WF h g) (hl : l < h.nl)
    (hempty : g l = []) (ts : List Int) :
    ∃ h' g', heapRun lt l (ts.map HOp.push ++ (List.replicate ts.length HOp.pop ++ [HOp.pop])) h =
        some (h', (heapOf lt ts).map (fun v => (v, true)) ++ [(0, false)]) ∧
      WF h' g' ∧ vals h' g' l = [] ∧
      (heapOf lt ts).Perm ts ∧ Sorted lt (heapOf lt ts) ∧ AdjSorted lt (heapOf lt ts) ∧
      (∀ k, (heapOf lt ts).filter (equiv lt k) = ts.filter (equiv lt k)) ∧
      heapOf lt ts = sortQuick lt ts := by
  obtain ⟨h', g', e1, hw', _, hv', _⟩ := heapRun_refines hw hl lt
    (ts.map HOp.push ++ (List.replicate ts.length HOp.pop ++ [HOp.pop]))
  have hv : vals h g l = [] := by simp [vals, hempty]
  rw [hv, seqRun_push_pop] at e1 hv'
  refine ⟨h', g', e1, hw', hv', C17.heapOf_perm lt ts, C17.heapOf_sorted hs ts, ?_, C17.heapOf_stable hs ts,
    C17.heapOf_eq_sortQuick hs ts⟩
  rw [C17.heapOf_eq_sortQuick hs ts]
  exact C17.sortQuick_adjSorted hs ts

/-! ### 7. non-vacuity -/

/-- the hypotheses are satisfiable for every value sequence: a well-formed heap whose list 0 holds
    exactly these values exists (so e.g. `sortMerge_ptr_correct` speaks about all inputs) -/
example (vs : List Int) : ∃ h g, WF h g ∧ 0 < h.nl ∧ vals h g 0 = vs := exists_list vs

example : ∃ h g, WF h g ∧ 0 < h.nl ∧ vals h g 0 = [3, -1, 2, -1, 0] ∧
    ∃ h' g', h.sortMerge (fun a b => a < b) 0 = some h' ∧ WF h' g' ∧ vals h' g' 0 = [-1, -1, 0, 2, 3] := by
  obtain ⟨h, g, hw, hl, hv⟩ := exists_list [3, -1, 2, -1, 0]
  obtain ⟨h', g', e1, hw', _, _, hv', _⟩ := sortMerge_refines hw hl (fun a b => a < b)
  refine ⟨h, g, hw, hl, hv, h', g', e1, hw', ?_⟩
  rw [hv', hv]
  simp [sortMerge, mergeSort, split, merge]

/-- kernel-checked runs of the pointer-level code on the concrete list 3,-1,2,-1,0 (`demo5`):
    forward walk, backward walk and `Len` after the call -/
example : (demo5.bind fun h => (h.sortMerge (fun a b => a < b) 0).map fun h => observe h 0) =
    some ([-1, -1, 0, 2, 3], [3, 2, 0, -1, -1], 5) := by decide
example : (demo5.bind fun h => (h.sortQuick (fun a b => a > b) 0).map fun h => observe h 0) =
    some ([3, 2, 0, -1, -1], [-1, -1, 0, 2, 3], 5) := by decide
/-- stability is visible with the key-projected comparison: 3 and 2 and 0 have key 100, -1 has 99 -/
example : (demo5.bind fun h =>
      (h.sortMerge (fun a b => (a + 1000) / 10 < (b + 1000) / 10) 0).map fun h => observe h 0) =
    some ([-1, -1, 3, 2, 0], [0, 2, 3, -1, -1], 5) := by decide
example : (demo5.bind fun h => h.isSorted (fun a b => a < b) 0) = some false := by decide
example : (demo5.bind fun h => (h.sortMerge (fun a b => a < b) 0).bind fun h => h.isSorted (fun a b => a < b) 0) =
    some true := by decide
/-- a heap run on a fresh list: pushes 2, -3, 2, 7, pop, push 0, pops until empty and once more -/
example : ((heapRun (fun a b => a < b) 0
      [.push 2, .push (-3), .push 2, .push 7, .pop, .push 0, .pop, .pop, .pop, .pop, .pop]
      ({} : Heap).allocList.1).map fun p => p.2) =
    some [(-3, true), (0, true), (2, true), (2, true), (7, true), (0, false)] := by decide
example : seqRun (fun a b => a < b)
      [.push 2, .push (-3), .push 2, .push 7, .pop, .push 0, .pop, .pop, .pop, .pop, .pop] [] =
    ([], [(-3, true), (0, true), (2, true), (2, true), (7, true), (0, false)]) := by decide

end FunModel.C17Ptr
