import FunProofs.GenTieSegsQueue

/-! C05 (and C07, which is about the same `Conc.Subject`) — T-gen obligations for the *control structure* of
    `pubsub.Queue`. tools/go2lean (segs.go) re-reads pubsub/queue.go on every run of `./check` and rewrites
    lean/FunGen/SegsQueue.lean: for `Add`, `BlockingAdd`, `Remove`, `Wait` (with `unsafeWaitWhileEmpty` executed
    in place), `Len` and `Close` the critical section from `q.mu.Lock()` to the first return or `cond.Wait()`
    (`…_start`), and for `BlockingAdd` and `Wait` the section from the wake-up to the next return or
    `cond.Wait()` (`…_resume`): which tests are made in which order (`closed`, `tracker.cap() > tracker.len()`,
    `tracker.len() == 0`, the context), what is returned, on which condition variable the call parks, which
    condition variables are signalled/broadcast, when the context-watcher goroutine is started. `q.doAdd`,
    `q.popFront` and the tracker getters are mapped to the model's own functions (whose effects are tied by
    FunProps/C05Gen.lean and C05Ptr.lean).

    These theorems say that the hand-written `FunModel.Queue.subject` has, for every state, thread, argument
    and cancellation flag, exactly the generated `start`/`resume` on these six operations. `Subject.start` is
    the segment of a call whose context is live, hence `cancelled := false` there. Not regenerated: `recv`
    (shown below to be the composition of the generated `Remove` and `Wait`) and `next` (the iterator). -/
namespace FunModel.C05Segs
open FunModel.Conc FunModel.Queue FunProofs.GenTieSegsQueue

theorem gen_Add (s : St) (t : Nat) (v : Int) (cancelled : Bool) :
    FunGen.SegsQueue.Add_start s v cancelled = start s t (.add v) := Add_tie s t v cancelled

theorem gen_Len (s : St) (t : Nat) (cancelled : Bool) :
    FunGen.SegsQueue.Len_start s cancelled = start s t .len := Len_tie s t cancelled

/-- `Close`: sets the flag, broadcasts `nupdates` then `nempty` -/
theorem gen_Close (s : St) (t : Nat) (cancelled : Bool) :
    FunGen.SegsQueue.Close_start s cancelled = start s t .close := Close_tie s t cancelled

/-- `Remove`: "none" iff `tracker.len() == 0`, else `popFront` -/
theorem gen_Remove (s : St) (t : Nat) (cancelled : Bool) :
    FunGen.SegsQueue.Remove_start s cancelled = start s t .remove := Remove_tie s t cancelled

/-- `BlockingAdd`, entry: closed → error; room → `doAdd`; else helper on `nupdates`, then the loop once -/
theorem gen_BlockingAdd_start (s : St) (t : Nat) (v : Int) :
    FunGen.SegsQueue.BlockingAdd_start s v false = start s t (.badd v) := BlockingAdd_start_tie s t v

/-- `BlockingAdd`, woken: while there is no room — closed → error, context done → its error, else park on
    `nupdates` again —, else `doAdd` -/
theorem gen_BlockingAdd_resume (s : St) (t : Nat) (v : Int) (cancelled : Bool) :
    FunGen.SegsQueue.BlockingAdd_resume s v cancelled = resume s t (.badd v) cancelled :=
  BlockingAdd_resume_tie s t v cancelled

/-- `Wait`, entry: helper on `nempty`; while empty — closed → error, else park on `nempty` —, else `popFront` -/
theorem gen_Wait_start (s : St) (t : Nat) :
    FunGen.SegsQueue.Wait_start s false = start s t .wait := Wait_start_tie s t

theorem gen_Wait_resume (s : St) (t : Nat) (cancelled : Bool) :
    FunGen.SegsQueue.Wait_resume s cancelled = resume s t .wait cancelled := Wait_resume_tie s t cancelled

/-- the subject's `start` is the generated dispatch on every regenerated operation -/
theorem gen_subject_start (s : St) (t : Nat) (op : Op) (h : regenerated op = true) :
    FunGen.SegsQueue.start s t op false = some (subject.start s t op) := start_tie s t op h

/-- the subject's `resume` is the generated one on the two regenerated blocking operations -/
theorem gen_subject_resume (s : St) (t : Nat) (op : Op) (cancelled : Bool) (h : blocking op = true) :
    FunGen.SegsQueue.resume s t op cancelled = some (subject.resume s t op cancelled) :=
  resume_tie s t op cancelled h

/-- the other regenerated operations contain no `cond.Wait()`: no generated `resume`, and their single
    segment always ends in a return (the model's `"bad-resume"` branch is unreachable for them) -/
theorem gen_nonblocking (s : St) (t : Nat) (op : Op) (cancelled : Bool) (h : blocking op = false) :
    FunGen.SegsQueue.resume s t op cancelled = none ∧
    ∀ c' o, FunGen.SegsQueue.start s t op c' = some o → ∃ r, o.fin = .ret r :=
  nonblocking s t op cancelled h

/-- `BlockingAdd` entered with a context that is already done: as with a live one, except that where it
    would have parked it returns the context's error (the helper goroutine has been started by then) -/
theorem gen_BlockingAdd_dead_ctx (s : St) (v : Int) :
    FunGen.SegsQueue.BlockingAdd_start s v true =
      if s.closed then { st := s, sigs := [], fin := .ret "closed" }
      else if s.tracker.hasRoom then FunGen.SegsQueue.Add_start s v true
      else { st := s, sigs := [.spawn 1], fin := .ret "ctx" } := BlockingAdd_start_dead s v

/-- `recv` (Distributor.Receive), not regenerated, is in the model `Remove` when the queue is not empty
    and `Wait` when it is -/
theorem recv_is_remove_else_wait (s : St) (t : Nat) (cancelled : Bool) :
    (start s t .recv = if s.tracker.len = 0 then start s t .wait else start s t .remove) ∧
    resume s t .recv cancelled = resume s t .wait cancelled :=
  ⟨recv_start s t, recv_resume s t cancelled⟩

/-- non-vacuity: on a full bounded queue the generated `BlockingAdd` spawns its helper and parks on
    `nupdates`; on an empty one the generated `Wait` parks on `nempty`; the hypotheses of the dispatch
    theorems are satisfiable -/
example : (FunGen.SegsQueue.BlockingAdd_start { tracker := .soft 1 1 1 0 } 7 false).fin = .park 1 ∧
    (FunGen.SegsQueue.BlockingAdd_start { tracker := .soft 1 1 1 0 } 7 false).sigs = [.spawn 1] ∧
    (FunGen.SegsQueue.Wait_start { tracker := .noLimit 0 } false).fin = .park 0 ∧
    regenerated (.badd 7) = true ∧ blocking (.badd 7) = true ∧ blocking .close = false := by
  refine ⟨?_, ?_, ?_, rfl, rfl, rfl⟩ <;> simp [FunGen.SegsQueue.BlockingAdd_start, FunGen.SegsQueue.Wait_start,
    FunGen.SegsQueue.capGt, Tracker.cap, Tracker.len]

end FunModel.C05Segs
