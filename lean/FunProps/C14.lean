import FunModel.WaitGroup

/-! C14 — placeholder until FunProofs/WaitGroup.lean lands -/
namespace FunModel.C14
open FunModel.Conc FunModel.WaitGroup

/-- an Add that would make the counter negative panics and changes nothing -/
theorem negative_add_panics_unchanged (s : St) (t : Nat) (n : Int) (h : s.counter + n < 0) :
    (start s t (.add n)).st = s ∧ (start s t (.add n)).fin = .ret "panic" ∧ (start s t (.add n)).sigs = [] := by
  simp [start, h]

end FunModel.C14
