import FunModel.WaitGroup
import FunProofs.WaitGroup

/-! C14 — `fun.WaitGroup`: property theorems over the small-step model (`FunModel.Conc` +
    `FunModel.WaitGroup`), for every number of threads, every list of programs and every schedule:
    all states `Reach`able from `init programs` — the system `runCase` builds — by enabled actions
    (`start`, `resume`, `cancel`, `fire`). The executions of the harness are such states
    (`Conc.runCase_final_reach`).

    Reuse across rounds needs no separate theorem: the invariants are over arbitrary action
    sequences, so a counter that went 0 → n → 0 → m … is covered by the same statements. -/
namespace FunModel.C14
open FunModel.Conc FunModel.WaitGroup

/-- an Add that would make the counter negative panics and changes nothing -/
theorem negative_add_panics_unchanged (s : St) (t : Nat) (n : Int) (h : s.counter + n < 0) :
    (start s t (.add n)).st = s ∧ (start s t (.add n)).fin = .ret "panic" ∧ (start s t (.add n)).sigs = [] := by
  simp [start, h]

/-- `Wait` returns only if the counter is 0 or its context is done: whenever a `start t` / `resume t`
    step of a thread whose current operation is `Wait` completes the operation (`pc` advances), then
    at that step the counter was 0, or the step was a resumption and the thread's context had been
    cancelled (a freshly started `Wait` has a live context). The step does not change the counter. -/
theorem wait_returns_only_if (programs : List (List Op)) {s s' : Sys St Op} {a : Act} {obs : String} {t : Nat}
    {th th' : Th Op} (hr : Reach subject (init programs) s) (hen : a ∈ enabled s true)
    (hs : step subject s a = some (s', obs)) (ha : a = .start t ∨ a = .resume t)
    (hth : s.ths[t]? = some th) (hop : th.ops[th.pc]? = some .wait)
    (hth' : s'.ths[t]? = some th') (hret : th'.pc = th.pc + 1) :
    (s.subj.counter = 0 ∨ (a = .resume t ∧ th.cancelled = true)) ∧ s'.subj = s.subj :=
  WaitGroup.wait_returns_only_if hr hen hs ha hth hop hth' hret

/-- the counter is the sum of the deltas of the completed, non-panicking `Add`s (`deltaSum` is
    computed from the log of executed segments: the operation of the program and its observed
    result `ret:ok` — not from the counter), and it is never negative -/
theorem counter_is_sum (programs : List (List Op)) {evs : List (Ev Op)} {s : Sys St Op}
    (h : ReachT subject (init programs) evs s) : s.subj.counter = deltaSum evs ∧ 0 ≤ s.subj.counter :=
  ⟨counter_sum h, (reach_inv h.reach).nonneg⟩

/-- every reachable state has such a log -/
theorem counter_is_sum_reach (programs : List (List Op)) {s : Sys St Op} (hr : Reach subject (init programs) s) :
    ∃ evs, ReachT subject (init programs) evs s ∧ s.subj.counter = deltaSum evs ∧ 0 ≤ s.subj.counter := by
  obtain ⟨evs, h⟩ := hr.reachT (initSys_wf _ _)
  exact ⟨evs, h, counter_is_sum programs h⟩

/-- no stuck waiter: in every reachable quiescent state (no woken goroutine still has to re-check,
    no helper broadcast is outstanding) a parked thread is inside `Wait`, the counter is not 0 and
    its context is not cancelled -/
theorem no_stuck_wg (programs : List (List Op)) {s : Sys St Op} (hr : Reach subject (init programs) s)
    (q : Quiescent s) {t : Nat} {th : Th Op} {c : Nat} (hth : s.ths[t]? = some th) (hp : th.st = .parked c) :
    th.ops[th.pc]? = some .wait ∧ s.subj.counter ≠ 0 ∧ th.cancelled = false :=
  ⟨(parked_facts hr hth hp).1, no_stuck hr q hth hp⟩

/-- the invariant behind it, in every reachable state (quiescent or not): nobody is parked while the
    counter is 0; a parked waiter has an unfired helper; a parked waiter whose context was cancelled
    has its own helper pending at its gate (so `fire` is enabled) -/
theorem parked_invariant (programs : List (List Op)) {s : Sys St Op} (hr : Reach subject (init programs) s)
    {t : Nat} {th : Th Op} {c : Nat} (hth : s.ths[t]? = some th) (hp : th.st = .parked c) :
    c = 0 ∧ s.subj.counter ≠ 0 ∧ Live 0 th.helpers ∧ (th.cancelled = true → Pending 0 th.helpers) :=
  (parked_facts hr hth hp).2

/-- `Launch` is covered: a `Wait` segment that starts or resumes while the counter is ≥ 1 with a live
    context does not return in that segment (it parks on `wg.cond`, its `pc` stays, the counter is
    unchanged). By `counter_is_sum` the premise `counter ≠ 0` is "the completed `Add`s exceed the
    completed `Done`s" — in particular it holds from the return of `Launch`'s `Add(1)` until its
    matching `Done`, see `launch_covered_log`. -/
theorem launch_covered (programs : List (List Op)) {s s' : Sys St Op} {a : Act} {obs : String} {t : Nat}
    {th th' : Th Op} (hr : Reach subject (init programs) s) (hen : a ∈ enabled s true)
    (hs : step subject s a = some (s', obs)) (ha : a = .start t ∨ a = .resume t)
    (hth : s.ths[t]? = some th) (hop : th.ops[th.pc]? = some .wait)
    (hcnt : s.subj.counter ≠ 0) (hlive : a = .resume t → th.cancelled = false)
    (hth' : s'.ths[t]? = some th') : th'.st = .parked 0 ∧ th'.pc = th.pc ∧ s'.subj = s.subj :=
  wait_parks hr hen hs ha hth hop hcnt hlive hth'

/-- the same in terms of the log: as long as the deltas of the completed `Add`/`Done` calls sum to
    at least 1, no live-context `Wait` returns -/
theorem launch_covered_log (programs : List (List Op)) {evs : List (Ev Op)} {s s' : Sys St Op} {a : Act}
    {obs : String} {t : Nat} {th th' : Th Op} (h : ReachT subject (init programs) evs s)
    (hsum : 1 ≤ deltaSum evs) (hen : a ∈ enabled s true)
    (hs : step subject s a = some (s', obs)) (ha : a = .start t ∨ a = .resume t)
    (hth : s.ths[t]? = some th) (hop : th.ops[th.pc]? = some .wait)
    (hlive : a = .resume t → th.cancelled = false)
    (hth' : s'.ths[t]? = some th') : th'.st = .parked 0 ∧ th'.pc = th.pc :=
  have hc : s.subj.counter ≠ 0 := by rw [counter_sum h]; omega
  ⟨(wait_parks h.reach hen hs ha hth hop hc hlive hth').1, (wait_parks h.reach hen hs ha hth hop hc hlive hth').2.1⟩

/-- `Launch`-shaped programs (`Balanced`: in every program every prefix has a non-negative delta sum,
    i.e. each `Done` is preceded in its own thread by the `Add` it matches — `Launch` is
    `Add(1) … Done`): the counter is exactly the sum over the threads of the deltas they completed,
    and no `Add`/`Done` ever panics -/
theorem balanced_counter (programs : List (List Op)) (hb : Balanced programs) {s : Sys St Op}
    (hr : Reach subject (init programs) s) :
    s.subj.counter = (s.ths.map doneOf).sum ∧
    ∀ (t : Nat) (th : Th Op) (n : Int), s.ths[t]? = some th → th.ops[th.pc]? = some (.add n) → ¬ (s.subj.counter + n < 0) :=
  ⟨(reach_binv hb hr).sum, fun _ _ _ hth hop => balanced_no_panic hb hr hth hop⟩

/-- … hence between an `Add(1)` and its matching `Done` no live-context `Wait` returns: while some
    thread `p` is strictly inside a launch (its completed deltas sum to ≥ 1: its `Add` has returned,
    its `Done` has not), every `Wait` segment with a live context parks -/
theorem launch_covered_balanced (programs : List (List Op)) (hb : Balanced programs) {s s' : Sys St Op} {a : Act}
    {obs : String} {t p : Nat} {th th' thp : Th Op} (hr : Reach subject (init programs) s)
    (hp : s.ths[p]? = some thp) (hin : 1 ≤ prefixSum thp.ops thp.pc)
    (hen : a ∈ enabled s true) (hs : step subject s a = some (s', obs)) (ha : a = .start t ∨ a = .resume t)
    (hth : s.ths[t]? = some th) (hop : th.ops[th.pc]? = some .wait)
    (hlive : a = .resume t → th.cancelled = false) (hth' : s'.ths[t]? = some th') :
    1 ≤ s.subj.counter ∧ th'.st = .parked 0 ∧ th'.pc = th.pc := by
  have hc : 1 ≤ s.subj.counter := Int.le_trans hin (counter_ge_inflight hb hr hp)
  have := wait_parks hr hen hs ha hth hop (by omega) hlive hth'
  exact ⟨hc, this.1, this.2.1⟩

/-! ### non-vacuity -/

/-- a launcher and a waiter: balanced -/
example : Balanced [[.add 1, .add (-1)], [.wait]] := by
  intro p hp n
  simp at hp
  rcases hp with rfl | rfl
  · rcases n with _ | _ | n <;> simp [prefixSum, opDelta]
  · rcases n with _ | n <;> simp [prefixSum, opDelta]


/-- thread 0 did `Add(1)`, thread 1 called `Wait` and is parked: reachable, quiescent, a thread is
    parked (so `no_stuck_wg`, `parked_invariant` speak about something) and the counter is 1 -/
example : ∃ s, Reach subject (init [[.add 1, .add (-1)], [.wait]]) s ∧ Quiescent s ∧
    (∃ th, s.ths[1]? = some th ∧ th.st = .parked 0 ∧ th.ops[th.pc]? = some .wait) ∧ s.subj.counter = 1 := by
  refine ⟨_, reach_of_runActs [.start 0, .start 1] rfl .init, ?_, ⟨_, rfl, rfl, rfl⟩, rfl⟩
  decide

/-- … then the `Done` wakes it, and the resumed `Wait` returns with counter 0
    (`wait_returns_only_if`'s hypotheses are satisfiable) -/
example : ∃ s, Reach subject (init [[.add 1, .add (-1)], [.wait]]) s ∧
    .resume 1 ∈ enabled s true ∧ (∃ th, s.ths[1]? = some th ∧ th.ops[th.pc]? = some .wait) ∧ s.subj.counter = 0 := by
  refine ⟨_, reach_of_runActs [.start 0, .start 1, .start 0] rfl .init, by decide, ⟨_, rfl, rfl⟩, rfl⟩

/-- a cancelled parked waiter: its helper is at the gate, `fire 1` is enabled, the state is not quiescent -/
example : ∃ s, Reach subject (init [[.add 1], [.wait]]) s ∧ .fire 1 ∈ enabled s true ∧
    (∃ th, s.ths[1]? = some th ∧ th.st = .parked 0 ∧ th.cancelled = true) := by
  refine ⟨_, reach_of_runActs [.start 0, .start 1, .cancel 1] rfl .init, by decide, ⟨_, rfl, rfl, rfl⟩⟩

end FunModel.C14
