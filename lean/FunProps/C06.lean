import FunProofs.DequeSys

/-! C06 — `pubsub.Deque` is a linearizable bounded double-ended queue.

    Model: `FunModel/Deque.lean` (one `startR`/`resumeR` per atomic segment of deque.go, all three
    limit trackers). `abs s : List Int` is the content front first, `absS s` adds the closed flag
    and the capacity rule; `Spec.run` is the sequential deque. `Inv` (tracker length = number of
    linked elements, tracker within its bounds) holds in every reachable state (`cap_respected`).
    Proofs: `FunProofs/Deque.lean`, `FunProofs/DequeSys.lean`. -/
namespace FunModel.C06
open FunModel.Conc FunModel.Deque

/-- a full two-item deque used to show that hypotheses are satisfiable -/
def exFull : St := { tracker := .hard 2 2, q := [(1, 10), (2, 20)], vals := [(2, 20), (1, 10)], nextId := 3 }
theorem exFull_inv : Inv exFull := ⟨rfl, by simp [exFull, Tracker.WF]⟩

/-- **deque_refines**: every atomic segment of PushFront/PushBack, ForcePushFront/ForcePushBack,
    PopFront/PopBack, WaitFront/WaitBack, WaitPushFront/WaitPushBack, Len, Close acts on the
    abstraction exactly as the sequential bounded deque: a segment that returns `r` is the whole
    sequential operation (same result, same new contents: push at the requested end, pop of the
    item at the requested end); a segment that parks corresponds to a sequential operation that
    blocks, and changes nothing. The representation invariant is preserved. -/
theorem deque_refines (s : St) (h : Inv s) (op : Op) (hop : op.isIter = false) :
    SegSpec s op false (startR s op) ∧ Inv (startR s op).st ∧
    ∀ cancelled, op.blocking = true → SegSpec s op cancelled (resumeR s op cancelled) ∧ Inv (resumeR s op cancelled).st :=
  ⟨startR_spec s h op hop, startR_inv s h op,
   fun c hb => ⟨resumeR_spec s op c hop hb, resumeR_inv s h op c⟩⟩

example : SegSpec exFull (.pop .back) false (startR exFull (.pop .back)) ∧ (startR exFull (.pop .back)).fin = .ret (.val 20) :=
  ⟨(deque_refines exFull exFull_inv (.pop .back) rfl).1, rfl⟩

/-- **cap_respected**: in every reachable state of every system (any programs, any schedule,
    cancellations included) over any of the three trackers, what `Len` reports is the number of
    items and never exceeds the capacity (`Capacity`, resp. the hard limit of the queue options). -/
theorem cap_respected (init : St) (hinit : Inv init) (programs : List (List Op)) (s : Sys St Op)
    (hr : Reach subject (initSys init programs) s) :
    (startR s.subj .len).fin = .ret (.num (abs s.subj).length) ∧
    ∀ n, s.subj.tracker.limit = some n → (abs s.subj).length ≤ n := by
  have hinv := reach_inv (initSys_wf init programs) hinit hr
  obtain ⟨h1, h2⟩ := inv_len_le s.subj hinv
  exact ⟨by simp [startR, h1], h2⟩

example : ∃ s, Reach subject (initSys exFull [[.push .front 1], [.pop .back]]) s ∧ (abs s.subj).length = 1 :=
  ⟨_, reach_of_runActs [.start 0, .start 1] rfl .init, rfl⟩

/-- **push_full_noop**: a plain push on an open deque that holds `capacity` (hard limit) items fails
    with `ErrQueueFull` and has no effect; more generally any push that does not return `ok`
    leaves the state untouched. -/
theorem push_full_noop (s : St) (h : Inv s) (d : End) (v : Int) :
    (s.closed = false → s.tracker.limit = some (abs s).length →
      (startR s (.push d v)).fin = .ret .full ∧ (startR s (.push d v)).st = s) ∧
    (∀ r, (startR s (.push d v)).fin = .ret r → r ≠ .ok → (startR s (.push d v)).st = s) := by
  constructor
  · intro hc hl
    rw [abs_length] at hl
    simp [startR, push_full s h hc hl d v]
  · intro r hr hne
    simp only [startR] at hr ⊢
    have := addEnd_fail_eq s d v
    rcases hae : addEnd s d v with ⟨s', r', sg⟩
    rw [hae] at hr this
    simp only [FinR.ret.injEq] at hr
    subst hr
    exact this hne

example : (startR exFull (.push .front 5)).fin = .ret .full :=
  ((push_full_noop exFull exFull_inv .front 5).1 rfl rfl).1

/-- **force_push_evicts_opposite_end_once**: on an open deque that is full (`cap() == len()`) a
    Force push returns `ok`, the new contents are the old ones minus exactly one item — the one at
    the opposite end — plus the new item at the requested end (so the length is unchanged); on a
    deque that is not full it is a plain push. -/
theorem force_push_evicts_opposite_end_once (s : St) (h : Inv s) (hc : s.closed = false) (d : End) (v : Int) :
    (s.tracker.atCap = true →
      (startR s (.fpush d v)).fin = .ret .ok ∧
      abs (startR s (.fpush d v)).st = (match d with | .front => v :: (abs s).dropLast | .back => (abs s).tail ++ [v]) ∧
      (abs (startR s (.fpush d v)).st).length = (abs s).length ∧ abs s ≠ []) ∧
    (s.tracker.atCap = false →
      (startR s (.fpush d v)).fin = (startR s (.push d v)).fin ∧ (startR s (.fpush d v)).st = (startR s (.push d v)).st) := by
  constructor
  · intro hcap
    have := forcePush_full s h hc hcap d v
    simp only [startR]
    rcases hf : forcePush s d v with ⟨s', r, sg⟩
    rw [hf] at this
    simp only at this ⊢
    exact ⟨by rw [this.1], this.2⟩
  · intro hcap
    simp [startR, forcePush_notfull s hcap d v]

example : abs (startR exFull (.fpush .front 5)).st = [5, 10] :=
  ((force_push_evicts_opposite_end_once exFull exFull_inv rfl .front 5).1 rfl).2.1

/-- **closed_semantics**: on a closed deque every push (plain, Force, Wait) fails with
    `ErrQueueClosed`, every pop reports not-ok (`PopFront/PopBack` → `false`, `WaitFront/WaitBack`
    → `ErrQueueClosed`) — also when items are still in it —, nothing changes, and no operation
    ever re-opens it. Holds for the first segment of an operation and for a blocked operation that
    resumes after the Close. -/
theorem closed_semantics (s : St) (hc : s.closed = true) (d : End) (v : Int) (k : Bool) :
    ((startR s (.push d v)).fin = .ret .closed ∧ (startR s (.push d v)).st = s) ∧
    ((startR s (.fpush d v)).fin = .ret .closed ∧ (startR s (.fpush d v)).st = s) ∧
    ((startR s (.wpush d v)).fin = .ret .closed ∧ (startR s (.wpush d v)).st = s) ∧
    ((resumeR s (.wpush d v) k).fin = .ret .closed ∧ (resumeR s (.wpush d v) k).st = s) ∧
    ((startR s (.pop d)).fin = .ret .none ∧ (startR s (.pop d)).st = s) ∧
    ((startR s (.wait d)).fin = .ret .closed ∧ (startR s (.wait d)).st = s) ∧
    ((resumeR s (.wait d) k).fin = .ret .closed ∧ (resumeR s (.wait d) k).st = s) ∧
    (∀ op, (startR s op).st.closed = true ∧ (resumeR s op k).st.closed = true) :=
  ⟨(closed_start s hc (.push d v)).2, (closed_start s hc (.fpush d v)).2, (closed_start s hc (.wpush d v)).2,
   (closed_resume s hc (.wpush d v) k).2, (closed_start s hc (.pop d)).2, (closed_start s hc (.wait d)).2,
   (closed_resume s hc (.wait d) k).2, fun op => ⟨(closed_start s hc op).1, (closed_resume s hc op k).1⟩⟩

example : (startR { exFull with closed := true } (.pop .front)).fin = .ret .none :=
  (closed_semantics { exFull with closed := true } rfl .front 0 false).2.2.2.2.1.1

/-- **ctx_error_no_effect**: the first segment of an operation never returns a context error (the
    context is live); a resumed operation that returns the context error was cancelled and left the
    deque exactly as it was. -/
theorem ctx_error_no_effect (s : St) (op : Op) :
    (startR s op).fin ≠ .ret .ctx ∧
    ∀ k, (resumeR s op k).fin = .ret .ctx → (resumeR s op k).st = s ∧ k = true :=
  ⟨ctx_start s op, fun k h => ctx_resume s op k h⟩

example : (resumeR { exFull with q := [], tracker := .hard 2 0 } (.wait .front) true).fin = .ret .ctx := rfl

/-- **linearizable**: for every system over a deque that satisfies the invariant, every schedule
    (`ReachL` = reachability with the log of executed segments, cancellations and helper firings
    interleaved): replaying the operations on the sequential deque *in the order of their
    returning segments* — each with the result it really returned — is accepted by the sequential
    specification and ends in exactly the abstract state of the system. The linearization point
    of an operation is its returning segment, which lies between its invocation (the `start`
    action) and its response. -/
theorem linearizable (init : St) (hinit : Inv init) (programs : List (List Op)) (evs : List LEv) (s : Sys St Op)
    (h : ReachL (initSys init programs) evs s) :
    (absS init).replay evs = some (absS s.subj) :=
  replay_reachL (initSys_wf init programs) hinit (initSys_waitingIn _ init programs) h

/-- **linearization_point_in_interval** (real-time order): in the log of any schedule each thread's
    segments come in blocks — a segment is the *first* segment of an operation (its invocation)
    exactly when the thread has no operation in progress (`pendingAfter`: its last logged segment
    parked), every other segment of the thread belongs to that operation, and the block ends with
    the segment that returns (the response). So the returning segment, which `linearizable` uses
    as the linearization point, lies inside the operation's invocation–response interval, and the
    linearization order (log order of returning segments) respects real-time order: an operation
    that returned before another was invoked is linearized before it. -/
theorem linearization_point_in_interval (init : St) (programs : List (List Op)) (evs : List LEv) (s : Sys St Op)
    (h : ReachL (initSys init programs) evs s) :
    Bracketed evs ∧ ∀ t th, s.ths[t]? = some th → (pendingAfter evs t = true ↔ Blocked th) :=
  bracketed_reachL h

/-- every reachable state has such a log -/
theorem linearizable_reach (init : St) (hinit : Inv init) (programs : List (List Op)) (s : Sys St Op)
    (hr : Reach subject (initSys init programs) s) :
    ∃ evs, ReachL (initSys init programs) evs s ∧ (absS init).replay evs = some (absS s.subj) := by
  obtain ⟨evs, h⟩ := reach_reachL hr (initSys_wf init programs)
  exact ⟨evs, h, linearizable init hinit programs evs s h⟩

/-- **validate_accepted_set**: `DequeOptions.Validate` accepts exactly: no queue options and either
    (`Unlimited` with `Capacity == 0`) or not `Unlimited` (a `Capacity <= 0` becomes 1); or valid
    queue options with `Capacity <= 0` and not `Unlimited`. -/
theorem validate_accepted_set (o : Opts) :
    (o.validate).isSome = true ↔
      (o.qopts = none ∧ ((o.unlimited = true ∧ o.capacity = 0) ∨ o.unlimited = false)) ∨
      (∃ qo, o.qopts = some qo ∧ (qo.validate).isSome = true ∧ o.capacity ≤ 0 ∧ o.unlimited = false) :=
  validate_accepts o

/-- **new_deque_ok**: `NewDeque` never leaves the tracker nil; the deque it returns is empty, open
    and satisfies the invariant — so all theorems above apply to every deque the constructor
    can produce. -/
theorem new_deque_ok (o : Opts) : newDeque o ≠ some none ∧
    ∀ st, newDeque o = some (some st) → Inv st ∧ abs st = [] ∧ st.closed = false := by
  obtain ⟨h1, h2⟩ := newDeque_ok o
  refine ⟨h1, fun st hst => ?_⟩
  obtain ⟨hi, hq, hc, _⟩ := h2 st hst
  exact ⟨hi, by simp [abs, hq], hc⟩

example : ∃ st, newDeque { capacity := -3 } = some (some st) ∧ st.tracker.limit = some 1 := ⟨_, rfl, rfl⟩

end FunModel.C06
