import FunModel.Deque

/-! C06 — placeholder until FunProofs/Deque.lean lands -/
namespace FunModel.C06
open FunModel.Conc FunModel.Deque

theorem close_keeps_items (s : St) (t : Nat) : (start s t .close).st.q = s.q := by
  simp [start]

end FunModel.C06
