import FunProofs.Stream

/-! C02 — sequential iterator pipelines are order preserving and agree with the pure list functions.

    Any composition of the order-preserving operations (`Filter`, `Transform`/`Map`, `Join`, `Chain`,
    the goroutine-backed identity stages, `Uniq`, `DropZeroValues`, `Indexed`, `MergeSlices`, the JSON
    round trip) yields exactly the sequence obtained by applying the corresponding pure list
    functions to the inputs, truncated at the first element for which a user function returns a
    non-skip error; `ErrIteratorSkip` removes exactly that element; once `ReadOne` has returned an
    error the iterator yields nothing further.

    KNOWN DEVIATION (modelled faithfully, see `join_continues_after_failure`): `Join`/`Chain` keep
    reading the NEXT operand after an operand failed with a user error, because the operand iterator
    turns the error into EOF. The agreement theorem is therefore stated under `NoInnerFailure`.

    Property theorems only. The functional specification (`spec`, `applyFn`/`applyFnE`, `valsSkip`,
    `stopEv`, `dedupeFirst`, `enumerate`, `concatStop`, `NoInnerFailure`, `injErrs`, `reduceErr`,
    `okFin`, `tailOf`) and the helper lemmas are in `FunProofs/Stream.lean`. -/

namespace FunModel.C02
open FunModel.Stream

/-! ### 1. sticky errors and the shape of an iterator's call stream -/

/-- once ReadOne has returned an error the iterator yields nothing further: the call stream of an
    iterator never has anything after a non-value -/
theorem readOne_sticky (s : S) :
    ∀ pre post e, (readOne s).1 = pre ++ e :: post → (∀ a, e ≠ .val a) → post = [] :=
  Stream.readOne_sticky s

/-- the call stream of an iterator over ANY raw stream: its values with the skips dropped, then at
    most one terminating event (`eof`, `abort`, `ctx`; an `err` is reported as `eof`) -/
theorem iter_shape (s : S) : iter s = (valsSkip s).map .val ++ tailOf (stopEv s) :=
  iter_eq s

/-- `Iterator()` over the `ReadOne` of an iterator changes nothing -/
theorem iter_idem (s : S) : iter (iter s) = iter s := Stream.iter_idem s

/-- every pipeline's stream is its values followed by at most one non-value event -/
theorem denote_shape (op : Op) :
    denote op = (vals (denote op)).map .val ∨
      ∃ t, (t = .eof ∨ t = .abort ∨ t = .ctx) ∧ denote op = (vals (denote op)).map .val ++ [t] := by
  have h := denote_eq op
  rcases tailOf_cases (stopEv (denote op)) with h' | h' | h' | h' <;> rw [h'] at h
  · exact Or.inl (by simpa using h)
  · exact Or.inr ⟨.eof, by simp, h⟩
  · exact Or.inr ⟨.abort, by simp, h⟩
  · exact Or.inr ⟨.ctx, by simp, h⟩

/-- `readOne_sticky` for pipelines -/
theorem denote_sticky (op : Op) (pre post : S) (e : Ev) (h : denote op = pre ++ e :: post)
    (he : ∀ a, e ≠ .val a) : post = [] := by
  rw [← denote_iter op] at h
  exact Stream.readOne_sticky (denote op) pre post e h he

/-! ### 2. one lemma per combinator -/

/-- an iterator yields the values of the raw stream with skips retried, up to the first other
    non-value result -/
theorem vals_iter (s : S) : vals (iter s) = valsSkip s := Stream.vals_iter s

theorem vals_filterS (p : Int → Bool) (s : S) : vals (filterS p s) = (vals s).filter p :=
  Stream.vals_filterS p s

/-- `Transform`: the user function applied in order (call counter `n`), skips of the source retried -/
theorem vals_transformS (f : Fn) (n : Nat) (s : S) :
    vals (transformS f n s) = (applyFn f n (valsSkip s)).1 :=
  Stream.vals_transformS f n s

/-- `Join`: the values of the first operand, then — only if it ended by exhaustion / `io.EOF` — those
    of the second -/
theorem vals_joinS (a b : S) :
    vals (joinS a b) = valsSkip a ++ (if okFin (stopEv a) then valsSkip b else []) :=
  Stream.vals_joinS a b

theorem vals_pipeS (s : S) : vals (pipeS s) = vals s := Stream.vals_pipeS s

theorem vals_chainS (ss : List S) : vals (chainS ss) = ss.flatMap vals := Stream.vals_chainS ss

theorem vals_uniqS (s : S) : vals (uniqS s) = dedupeFirst (vals s) := Stream.vals_uniqS s

theorem vals_dropZeroS (s : S) : vals (dropZeroS s) = (vals s).filter (fun x => x != 0) :=
  Stream.vals_dropZeroS s

theorem vals_indexedS (n : Nat) (s : S) :
    vals (indexedS n s) = ((vals s).zipIdx n).map (fun p => (p.2 : Int) * 1000 + p.1) :=
  Stream.vals_indexedS n s

theorem vals_mergeSlicesS (sls : List (List Int)) : vals (mergeSlicesS sls) = sls.flatten :=
  Stream.vals_mergeSlicesS sls

/-- `dedupeFirst` really is "keep the first occurrence": same elements, no duplicates -/
theorem dedupeFirst_spec (xs : List Int) :
    (dedupeFirst xs).Nodup ∧ ∀ y, y ∈ dedupeFirst xs ↔ y ∈ xs :=
  ⟨dedupeFirst_nodup xs, mem_dedupeFirst xs⟩

/-- `applyFn` is `applyFnE` with the stopping event forgotten -/
theorem applyFn_eq (f : Fn) (n : Nat) (xs : List Int) :
    applyFn f n xs = ((applyFnE f n xs).1, (applyFnE f n xs).2.isSome) := rfl

/-- a user function without injected results is `map` and never fails -/
theorem applyFn_pure (f : Fn) (h : f.inj = []) (n : Nat) (xs : List Int) :
    applyFn f n xs = (xs.map (fun x => x * f.mul + f.add), false) :=
  applyFn_of_inj_nil f h n xs

/-! ### 3. pipelines agree with the functional specification -/

/-- the agreement theorem (partial: see `join_continues_after_failure`) -/
theorem pipeline_eq_spec_partial (op : Op) (h : NoInnerFailure op = true) :
    vals (denote op) = (spec op).1 :=
  (rel_denote op h).1

/-- ... and unless the specification reports a failure the stream ends by exhaustion or `io.EOF` -/
theorem pipeline_tail_partial (op : Op) (h : NoInnerFailure op = true) (hf : (spec op).2 = false) :
    denote op = (spec op).1.map .val ∨ denote op = (spec op).1.map .val ++ [.eof] := by
  have hr := rel_denote op h
  have hd := denote_eq op
  rw [hr.1] at hd
  have hk := hr.2.2 hf
  cases hs : stopEv (denote op) with
  | none => rw [hs] at hd; exact Or.inl (by simpa [tailOf] using hd)
  | some t =>
    rw [hs] at hd hk
    cases t with
    | eof => exact Or.inr hd
    | val a => exact absurd hs (stopEv_ne_val _ a)
    | skip => exact absurd hs (stopEv_ne_skip _)
    | _ => simp at hk

/-- the deviation: after the first operand of `Join` failed with a user error the next operand is
    still read, whereas the specification stops -/
theorem join_continues_after_failure :
    vals (denote (.join (.map {mul := 10, inj := [(1, .err 7)]} (.slice [1, 2, 3])) [.slice [7, 8]]))
        = [10, 7, 8] ∧
      spec (.join (.map {mul := 10, inj := [(1, .err 7)]} (.slice [1, 2, 3])) [.slice [7, 8]])
        = ([10], true) := by
  decide

/-- the same for `itertool.Chain` -/
theorem chain_continues_after_failure :
    vals (denote (.chain [.map {mul := 10, inj := [(1, .err 7)]} (.slice [1, 2, 3]), .slice [7, 8]]))
        = [10, 7, 8] ∧
      spec (.chain [.map {mul := 10, inj := [(1, .err 7)]} (.slice [1, 2, 3]), .slice [7, 8]])
        = ([10], true) := by
  decide

/-- unconditionally (no `NoInnerFailure`): the specified values are a PREFIX of what the pipeline
    yields — the deviation only ever adds values after a failed `Join`/`Chain` operand, it never
    drops, reorders or alters the values the specification promises -/
theorem spec_prefix_of_pipeline (op : Op) : (spec op).1 <+: vals (denote op) := by
  have h := pre_denote op
  rw [h.1]; exact h.2.1

/-- unconditionally: if no user function / generator failed anywhere, the pipeline yields exactly
    the specified values and ends by exhaustion or `io.EOF` -/
theorem pipeline_eq_spec_of_not_failed (op : Op) (hf : (spec op).2 = false) :
    vals (denote op) = (spec op).1 ∧
      (denote op = (spec op).1.map .val ∨ denote op = (spec op).1.map .val ++ [.eof]) := by
  have h := pre_denote op
  have hv : vals (denote op) = (spec op).1 := by rw [h.1]; exact (h.2.2 hf).1
  refine ⟨hv, ?_⟩
  have hd := denote_eq op
  rw [hv] at hd
  have hk := (h.2.2 hf).2
  cases hs : stopEv (denote op) with
  | none => rw [hs] at hd; exact Or.inl (by simpa [tailOf] using hd)
  | some t =>
    rw [hs] at hd hk
    cases t with
    | eof => exact Or.inr hd
    | val a => exact absurd hs (stopEv_ne_val _ a)
    | skip => exact absurd hs (stopEv_ne_skip _)
    | _ => simp at hk

/-- `ErrIteratorSkip` removes exactly the element it was returned for -/
theorem skip_removes_exactly_one (f : Fn) (k : Nat) (xs : List Int) (hf : f.inj = [(k, .skip)]) :
    vals (denote (.map f (.slice xs))) = (xs.eraseIdx k).map (fun x => x * f.mul + f.add) := by
  rw [pipeline_eq_spec_partial _ rfl]
  simp only [spec]
  rw [applyFn_single_skip f k hf 0 xs (Nat.zero_le k)]
  rfl

/-- ... so exactly one element is missing when the skipped call happens -/
theorem skip_removes_exactly_one_length (f : Fn) (k : Nat) (xs : List Int) (hf : f.inj = [(k, .skip)])
    (hk : k < xs.length) : (vals (denote (.map f (.slice xs)))).length + 1 = xs.length := by
  rw [skip_removes_exactly_one f k xs hf, List.length_map, List.length_eraseIdx]
  simp [hk]; omega

/-- any other non-value result of the user function truncates the sequence at that element, and
    the specification reports the failure iff the call happened -/
theorem error_truncates (f : Fn) (k : Nat) (e : Ev) (xs : List Int) (hf : f.inj = [(k, e)])
    (h1 : ∀ b, e ≠ .val b) (h2 : e ≠ .skip) :
    vals (denote (.map f (.slice xs))) = (xs.take k).map (fun x => x * f.mul + f.add) ∧
      (spec (.map f (.slice xs))).2 = decide (k < xs.length) := by
  rw [pipeline_eq_spec_partial _ rfl]
  simp only [spec]
  rw [applyFn_single_stop f k e hf h1 h2 0 xs (Nat.zero_le k)]
  simp

/-! ### 4. consumers -/

theorem count_eq_spec (op : Op) (h : NoInnerFailure op = true) :
    countS (denote op) = (spec op).1.length := by
  unfold countS; rw [pipeline_eq_spec_partial op h]

theorem json_eq_spec (op : Op) (h : NoInnerFailure op = true) :
    jsonS (denote op) = "[" ++ ",".intercalate ((spec op).1.map toString) ++ "]" := by
  unfold jsonS; rw [pipeline_eq_spec_partial op h]

/-- `Reduce` with the summing reducer `f` over any stream: the sum of the values `f` produces for the
    values read before the iterator's first error, up to the first non-skip/non-value result of `f`;
    the error returned is that result if it is `ctx` (as 0) or `err e` (as `e`); `eof`/`abort` of
    the reducer, and every error of the iterator, end the fold without an error -/
theorem reduceGo_spec (f : Fn) (n : Nat) (acc : Int) (s : S) :
    reduceGo f n acc s =
      (acc + ((applyFnE f n (vals s)).1).sum, reduceErr (applyFnE f n (vals s)).2) :=
  reduceGo_eq f n acc s

theorem reduce_eq_spec (f : Fn) (op : Op) (h : NoInnerFailure op = true) :
    reduceGo f 0 0 (denote op) =
      (((applyFn f 0 (spec op).1).1).sum, reduceErr (applyFnE f 0 (spec op).1).2) := by
  rw [reduceGo_eq, pipeline_eq_spec_partial op h]
  simp [applyFn]

/-- `Reduce` returns an error only if the reducer failed -/
theorem reduce_error_only_if_failed (f : Fn) (op : Op) (h : NoInnerFailure op = true) (e : Nat)
    (he : (reduceGo f 0 0 (denote op)).2 = some e) : (applyFn f 0 (spec op).1).2 = true := by
  rw [reduce_eq_spec f op h] at he
  simp only [applyFn]
  cases hs : (applyFnE f 0 (spec op).1).2 with
  | none => rw [hs] at he; simp [reduceErr] at he
  | some t => rfl

/-! ### 5. `Close()` reports only injected errors -/

theorem closeErrs_sound (op : Op) (e : Nat) (h : e ∈ closeErrs op) : e ∈ injErrs op :=
  closeErrs_sub op e h

/-! ### 6. non-vacuity -/

/-- a depth-3 pipeline with duplicates, zeros, a skip, LIFO and enumeration -/
def ex1 : Op :=
  .uniq (.dropZero (.join
    (.map {mul := 2, inj := [(1, .skip)]} (.slice [1, 0, 2, 2]))
    [.filter 2 0 (.slice [0, 4, 4, 6, 3]), .indexed (.stack [5, 0])]))

example : NoInnerFailure ex1 = true := by decide
example : denote ex1 = [.val 2, .val 4, .val 6, .val 1005, .eof] := by decide
example : spec ex1 = ([2, 4, 6, 1005], false) := by decide
example : closeErrs ex1 = [] := by decide

/-- the last operand of a `Join` may fail: the values are truncated there -/
def ex2 : Op :=
  .pipe true (.join (.slice [1, 2]) [.gen [.val 3, .skip, .val 4],
    .map {add := 1, inj := [(1, .err 3)]} (.slice [5, 6, 7])])

example : NoInnerFailure ex2 = true := by decide
example : denote ex2 = [.val 1, .val 2, .val 3, .val 4, .val 6, .eof] := by decide
example : spec ex2 = ([1, 2, 3, 4, 6], true) := by decide
example : closeErrs (.map {add := 1, inj := [(1, .err 3)]} (.slice [5, 6, 7])) = [3] := by decide
example : injErrs ex2 = [3] := by decide

/-- the hypothesis of the agreement theorem fails for the deviation witness -/
example : NoInnerFailure
    (.join (.map {mul := 10, inj := [(1, .err 7)]} (.slice [1, 2, 3])) [.slice [7, 8]]) = false := by
  decide

/-- `abort`/`ctx` end a `Join` (the next operand is NOT read) but not a `Chain` -/
example : denote (.join (.gen [.val 1, .abort]) [.slice [7]]) = [.val 1, .abort] := by decide
example : denote (.chain [.gen [.val 1, .abort], .slice [7]]) = [.val 1, .val 7, .eof] := by decide

example : reduceGo {inj := [(2, .err 9)]} 0 0 (denote ex1) = (6, some 9) := by decide
example : countS (denote ex1) = 4 := by decide

end FunModel.C02
