import FunModel.Stream

/-! C02 — placeholder until FunProofs/Stream.lean lands -/
namespace FunModel.C02
open FunModel.Stream

/-- once ReadOne has returned an error the iterator yields nothing further: the call stream of an
    iterator never has a value after a non-value -/
theorem readOne_sticky (s : S) : ∀ pre post e, (readOne s).1 = pre ++ e :: post → (∀ a, e ≠ .val a) → post = [] := by
  induction s with
  | nil => intro pre post e h; simp [readOne] at h
  | cons x r ih =>
    intro pre post e h he
    cases x with
    | val a =>
      simp only [readOne] at h
      cases pre with
      | nil => simp at h; exact absurd h.1.symm (he a)
      | cons p pre' =>
        simp only [List.cons_append, List.cons.injEq] at h
        exact ih pre' post e h.2 he
    | skip => simp only [readOne] at h; exact ih pre post e h he
    | eof => simp only [readOne] at h; cases pre with
      | nil => simp at h; exact h.2
      | cons p pre' => simp at h
    | abort => simp only [readOne] at h; cases pre with
      | nil => simp at h; exact h.2
      | cons p pre' => simp at h
    | ctx => simp only [readOne] at h; cases pre with
      | nil => simp at h; exact h.2
      | cons p pre' => simp at h
    | err n => simp only [readOne] at h; cases pre with
      | nil => simp at h; exact h.2
      | cons p pre' => simp at h

end FunModel.C02
