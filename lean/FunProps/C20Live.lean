import FunModel.Queue
import FunProofs.QueueLive

/-! C20 (liveness part, Queue) — the non-destructive iterator of `pubsub.Queue` (`Queue.Producer`,
    operation `next k` of the model; `St.succ s k` = the entry linked after iterator `k`'s cursor
    once the cursor has been re-based the way the loop does it (`St.adj`: a cursor whose entry was
    removed while it was the newest restarts from the sentinel)). Same quantification as C07:
    every admissible initial queue, every programs list, every schedule.

    No well-formedness assumption on the programs is needed: an iterator id may be shared by
    several threads (in Go: one `Producer` closure called from several goroutines; its cursor is
    only touched under `q.mu`) — a `next k` segment that finds no successor stores the cursor
    re-based, which leaves `succ k` unchanged (`St.adj_idem`), and one that finds a successor only
    runs when nobody is parked in `next k` (by the invariant itself). -/
namespace FunModel.C20Live
open FunModel.Conc FunModel.Queue

/-- `iter_no_stuck`: in every reachable quiescent state no thread is parked in `next k` while the
    cursor of iterator `k` has an unseen successor, or the queue is closed, or the thread's context
    is cancelled -/
theorem iter_no_stuck {init : St} (hinit : QInit init) (programs : List (List Op)) {s : Sys St Op}
    (hr : Reach subject (initSys init programs) s) (q : Quiescent s) {t : Nat} {th : Th Op} {c k : Nat}
    (hth : s.ths[t]? = some th) (hp : th.st = .parked c) (hop : th.ops[th.pc]? = some (.next k)) :
    s.subj.succ k = none ∧ s.subj.closed = false ∧ th.cancelled = false := by
  obtain ⟨hcl, _, _, op, hop', _, _, hsucc⟩ := parked_facts hinit hr hth hp
  rw [hop] at hop'; cases hop'
  exact ⟨hsucc k rfl, hcl, (no_stuck hinit hr q hth hp).1⟩

/-- the first two conjuncts hold in every reachable state, quiescent or not: every action that links
    a new entry, moves `back`, or closes the queue broadcasts `nupdates` -/
theorem iter_parked_invariant {init : St} (hinit : QInit init) (programs : List (List Op)) {s : Sys St Op}
    (hr : Reach subject (initSys init programs) s) {t : Nat} {th : Th Op} {c k : Nat}
    (hth : s.ths[t]? = some th) (hp : th.st = .parked c) (hop : th.ops[th.pc]? = some (.next k)) :
    c = 1 ∧ s.subj.succ k = none ∧ s.subj.closed = false ∧ (th.cancelled = true → Pending 1 th.helpers) := by
  obtain ⟨hcl, _, hpend, op, hop', hc, _, hsucc⟩ := parked_facts hinit hr hth hp
  rw [hop] at hop'; cases hop'
  cases condOf_next hc
  exact ⟨rfl, hsucc k rfl, hcl, hpend⟩

/-- once closed, always closed -/
theorem closed_persists {init : St} (hinit : QInit init) (programs : List (List Op)) {s s2 : Sys St Op}
    (hr : Reach subject (initSys init programs) s) (hr2 : Reach subject s s2) (hc : s.subj.closed = true) :
    s2.subj.closed = true :=
  Queue.closed_persists (reach_inv hinit hr).wf hr2 hc

/-- `iter_eof_after_close`: after `close` (in any state reachable from a closed one), a `next k` whose
    cursor has no unseen successor returns "eof" in that very segment — at its start or when it is
    resumed — and never parks -/
theorem iter_eof_after_close {init : St} (hinit : QInit init) (programs : List (List Op)) {s0 s s' : Sys St Op}
    {a : Act} {obs : String} {t k : Nat} {th th' : Th Op}
    (hr0 : Reach subject (initSys init programs) s0) (hclosed : s0.subj.closed = true) (hr : Reach subject s0 s)
    (hen : a ∈ enabled s true) (hs : step subject s a = some (s', obs)) (ha : a = .start t ∨ a = .resume t)
    (hth : s.ths[t]? = some th) (hop : th.ops[th.pc]? = some (.next k)) (hsucc : s.subj.succ k = none)
    (hth' : s'.ths[t]? = some th') :
    (∃ th0 o, IsSeg subject s t a th0 (.next k) o ∧ o.fin = .ret "eof") ∧
      th'.pc = th.pc + 1 ∧ (∀ c, th'.st ≠ .parked c) :=
  eof_after_close hinit (hr0.trans hr) hen hs ha hth hop
    (Queue.closed_persists (reach_inv hinit hr0).wf hr hclosed) hsucc hth'

/-- and a `next k` with an unseen successor returns it at once (an instance of C07's
    `wait_when_ready_returns`) -/
theorem iter_successor_returns {init : St} (hinit : QInit init) (programs : List (List Op)) {s s' : Sys St Op}
    {a : Act} {obs : String} {t k : Nat} {th th' : Th Op} (hr : Reach subject (initSys init programs) s)
    (hen : a ∈ enabled s true) (hs : step subject s a = some (s', obs)) (ha : a = .start t ∨ a = .resume t)
    (hth : s.ths[t]? = some th) (hop : th.ops[th.pc]? = some (.next k)) (hth' : s'.ths[t]? = some th')
    (hsucc : (s.subj.succ k).isSome = true) : th'.pc = th.pc + 1 ∧ ∀ c, th'.st ≠ .parked c :=
  (ready_iff_returns hinit hr hen hs ha hth hop hth').1 (Or.inl hsucc)

/-! ### non-vacuity -/

/-- an iterator parked at the end of a one-item queue: reachable, quiescent, parked in `next 0` -/
example : ∃ s, Reach subject (initSys mkUnlimited [[.add 5], [.next 0, .next 0]]) s ∧ Quiescent s ∧
    (∃ th, s.ths[1]? = some th ∧ th.st = .parked 1 ∧ th.ops[th.pc]? = some (.next 0)) ∧ s.subj.succ 0 = none := by
  refine ⟨_, reach_of_runActs [.start 0, .start 1, .start 1] rfl .init, by decide, ⟨_, rfl, rfl, rfl⟩, rfl⟩

/-- … an add wakes it and it has a successor to return -/
example : ∃ s, Reach subject (initSys mkUnlimited [[.add 5, .add 6], [.next 0, .next 0]]) s ∧
    .resume 1 ∈ enabled s true ∧ (s.subj.succ 0).isSome = true := by
  refine ⟨_, reach_of_runActs [.start 0, .start 1, .start 1, .start 0] rfl .init, by decide, rfl⟩

/-- a closed queue whose iterator has seen everything: the hypotheses of `iter_eof_after_close` hold -/
example : ∃ s, Reach subject (initSys mkUnlimited [[.add 5, .close], [.next 0, .next 0]]) s ∧
    s.subj.closed = true ∧ s.subj.succ 0 = none ∧ .start 1 ∈ enabled s true := by
  refine ⟨_, reach_of_runActs [.start 0, .start 1, .start 0] rfl .init, rfl, rfl, by decide⟩

end FunModel.C20Live
