import FunProofs.Err
import FunProofs.ErrLeaf

/-! C12 — error aggregation is lossless and errors.Is/As/Unwind-consistent.
    Property theorems only; helper lemmas are in `FunProofs/Err.lean`.
    `ErrList.partsAll` is the independent specification of "the supplied constituents, in supply
    order" (containers opened, nil entries dropped); everything below relates what `ers` builds
    (`flatten`/`join`, mirrors of `Stack.Push`/`Add`/`Resolve`) to it. -/

namespace FunModel.C12
open FunModel

/-- The stack built by `Add(errs...)` holds exactly the supplied constituents, each once,
    most recent first. -/
theorem flatten_is_reversed_parts (es : ErrList) : flatten es = es.partsAll.reverse :=
  flatten_eq es

/-- `Len` counts the constituents. -/
theorem len_is_count (es : ErrList) : lenAfter es = es.partsAll.length := by
  simp [lenAfter, flatten_eq]

/-- The result is nil exactly when there is no constituent … -/
theorem join_nil_iff_no_parts (es : ErrList) : join es = none ↔ es.partsAll = [] := by
  unfold join; rw [flatten_eq]
  cases h : es.partsAll.reverse with
  | nil => simpa [resolve] using h
  | cons x xs =>
    have : es.partsAll ≠ [] := by intro h'; simp [h'] at h
    cases xs <;> simp [resolve, this]

/-- … and for well-formed inputs (no container that is empty all the way down) that is exactly
    when no non-nil error was supplied. -/
theorem join_nil_iff (es : ErrList) (hs : ∀ e ∈ es.toList, e.solid = true) :
    join es = none ↔ es.toList = [] := by
  rw [join_nil_iff_no_parts]; exact ErrList.toList_nil_of_parts es hs

/-- The excluded point is real (known finding `ers.Stack.Push:empty-aggregate-dropped`): a non-nil
    aggregate that lists no constituent is dropped, so without `solid` the statement above is false
    of the model — and, by the correspondence run on exactly these terms, of the code. -/
theorem join_nil_iff_fails_without_solid :
    ¬ (∀ es : ErrList, join es = none ↔ es.toList = []) := by
  intro h
  have := (h (.cons (.multi 7 .nil) .nil)).mp (by decide)
  simp [ErrList.toList] at this

/-- Join of a single plain error returns that very error. -/
theorem join_single_identity (e : Err) (h : e.plain = true) : join (.cons e .nil) = some e := by
  simp [join, flatten_eq, ErrList.partsAll, Err.parts_of_plain e h, resolve]

/-- nil inputs are ignored -/
theorem join_skip (es : ErrList) : join (.skip es) = join es := by
  simp [join, flatten, ErrList.pushAll]

/-- errors.Is on the result finds exactly what it finds in some constituent:
    nothing lost, nothing invented. -/
theorem is_join_iff_parts (es : ErrList) (t : Nat) :
    isOpt (join es) t = es.partsAll.any (fun c => c.is t) := by
  unfold join; rw [resolve_is, flatten_eq]; simp

/-- …and, relative to the errors as supplied: everything found in a supplied error is found in the
    result, except the identity of a discarded multi-error wrapper; and everything found in the
    result was in a supplied error, provided no supplied container hides its children from
    errors.Is (`Unwind()`-only types do). -/
theorem is_join_of_supplied (es : ErrList) (t : Nat) (h : es.isAny t = true)
    (ht : t ∉ es.shellIdsAll) : isOpt (join es) t = true := by
  rw [is_join_iff_parts]
  cases ErrList.parts_of_isAny t es h with
  | inl h => exact absurd h ht
  | inr h => exact h

theorem supplied_of_is_join (es : ErrList) (t : Nat) (hv : es.visibleAll = true)
    (h : isOpt (join es) t = true) : es.isAny t = true := by
  rw [is_join_iff_parts] at h
  exact ErrList.isAny_of_parts t es hv h

/-- errors.As on the result: the first constituent (most recent first) of the requested type. -/
theorem as_join_parts (es : ErrList) (ty : Nat) :
    (asOpt (join es) ty)
      = es.partsAll.reverse.findSome? (fun c => c.as ty) := by
  unfold join; rw [resolve_as, flatten_eq]

theorem as_join_isSome_iff (es : ErrList) (ty : Nat) :
    (asOpt (join es) ty).isSome
      = es.partsAll.any (fun c => (c.as ty).isSome) := by
  rw [as_join_parts]
  generalize es.partsAll = xs
  rw [Bool.eq_iff_iff]
  simp only [Option.isSome_iff_exists, List.any_eq_true]
  constructor
  · rintro ⟨a, ha⟩
    obtain ⟨c, hc, hca⟩ := List.exists_of_findSome?_eq_some ha
    exact ⟨c, by simpa using hc, a, hca⟩
  · rintro ⟨c, hc, a, hca⟩
    cases hf : xs.reverse.findSome? (fun c => c.as ty) with
    | some b => exact ⟨b, rfl⟩
    | none =>
      rw [List.findSome?_eq_none_iff] at hf
      have := hf c (by simpa using hc)
      simp [hca] at this

/-- errors.As with a leaf-typed target (`*ers.Error`, the comparable constants): on the result of a
    Join it finds the first constituent (most recent first) that holds such a constant behind single or
    multi wrapping — and it succeeds exactly when some constituent does. -/
theorem asLeaf_join_parts (p : Nat → Bool) (es : ErrList) :
    asLeafOpt p (join es) = es.partsAll.reverse.findSome? (fun c => c.asLeaf p) := by
  unfold join; rw [resolve_asLeaf, flatten_eq]

theorem asLeaf_join_isSome_iff (p : Nat → Bool) (es : ErrList) :
    (asLeafOpt p (join es)).isSome = es.partsAll.any (fun c => (c.asLeaf p).isSome) := by
  rw [asLeaf_join_parts]
  generalize es.partsAll = xs
  rw [Bool.eq_iff_iff]
  simp only [Option.isSome_iff_exists, List.any_eq_true]
  constructor
  · rintro ⟨a, ha⟩
    obtain ⟨c, hc, hca⟩ := List.exists_of_findSome?_eq_some ha
    exact ⟨c, by simpa using hc, a, hca⟩
  · rintro ⟨c, hc, a, hca⟩
    cases hf : xs.reverse.findSome? (fun c => c.asLeaf p) with
    | some b => exact ⟨b, rfl⟩
    | none =>
      rw [List.findSome?_eq_none_iff] at hf
      have := hf c (by simpa using hc)
      simp [hca] at this

/-- Unwind of a result with at least two constituents lists each constituent exactly once,
    most recent first (it is literally the reversed list of supplied constituents). -/
theorem unwind_join (es : ErrList) (h : 2 ≤ es.partsAll.length) :
    unwindOpt (join es) = es.partsAll.reverse := by
  unfold join; rw [flatten_eq]
  have : 2 ≤ es.partsAll.reverse.length := by simpa using h
  generalize es.partsAll.reverse = xs at *
  match xs, this with
  | x :: y :: r, _ => simp [resolve, unwindOpt, Err.unwind]

/-- hence a permutation of the constituents -/
theorem unwind_join_perm (es : ErrList) (h : 2 ≤ es.partsAll.length) :
    (unwindOpt (join es)).Perm es.partsAll := by
  rw [unwind_join es h]; exact List.reverse_perm _

/-- with exactly one constituent Unwind is the Unwind of that error (it was returned as is) -/
theorem unwind_join_single (es : ErrList) (x : Err) (h : es.partsAll = [x]) :
    unwindOpt (join es) = x.unwind := by
  simp [join, flatten_eq, h, resolve, unwindOpt]

/-- directly supplied plain errors: most recent first -/
theorem flatten_plain_order (xs : List Err) (h : ∀ c ∈ xs, c.plain = true) :
    flatten (ErrList.ofErrs xs) = xs.reverse := by
  rw [flatten_eq, ErrList.partsAll_ofErrs_plain xs h]

/-- what was resolved can be joined again without changing the constituents
    (Stack-in-Stack is flattened) -/
theorem join_join_parts (es : ErrList) (r : Err) (h : join es = some r) :
    r.parts.reverse = es.partsAll := by
  unfold join at h; rw [flatten_eq] at h
  have hp := ErrList.partsAll_plain es
  generalize es.partsAll = ps at *
  match hxs : ps.reverse, h with
  | [x], h =>
    simp [resolve] at h; subst h
    have : ps = [x] := by simpa using congrArg List.reverse hxs
    subst this
    simp [Err.parts_of_plain x (hp x (by simp))]
  | x :: y :: rest, h =>
    simp [resolve] at h; subst h
    have hpl : ∀ c ∈ x :: y :: rest, c.plain = true := by
      intro c hc; apply hp; rw [← List.mem_reverse, hxs]; exact hc
    simp only [Err.parts]
    rw [ErrList.partsAll_ofErrs_plain _ hpl, ← hxs]; simp

/-! ### Wrap and ParsePanic -/

theorem wrap_nil (a : Nat) : wrapAnnot none a = none := rfl

theorem wrap_ok_nil (e : Err) (a : Nat) (h : e.okStack = true) : wrapAnnot (some e) a = none := by
  simp [wrapAnnot, h]

theorem wrap_is (e : Err) (a t : Nat) (h : e.okStack = false) :
    isOpt (wrapAnnot (some e) a) t
      = (e.parts.any (fun c => c.is t) || a == t) := by
  simp only [wrapAnnot, h, Bool.false_eq_true, if_false]
  rw [is_join_iff_parts]
  simp [ErrList.partsAll, Err.parts, Err.is]

theorem parsePanic_nil : parsePanicErr none = none := rfl

/-- a recovered panic with an error payload reports both the payload and ErrRecoveredPanic -/
theorem parsePanic_is (e : Err) (t : Nat) :
    isOpt (parsePanicErr (some e)) t
      = (e.parts.any (fun c => c.is t) || idRecoveredPanic == t) := by
  simp only [parsePanicErr]
  rw [is_join_iff_parts]
  simp [ErrList.partsAll, Err.parts, Err.is]

theorem parsePanic_ne_nil (e : Err) : parsePanicErr (some e) ≠ none := by
  simp only [parsePanicErr, ne_eq, join_nil_iff_no_parts]
  simp [ErrList.partsAll, Err.parts]

/-! ### Collector: every `Add` is one atomic `Push` under the mutex, so a concurrent run is a
    sequence of pushes in lock-acquisition order. -/

/-- the collector's stack after the Adds took the lock in the order `adds` -/
def collect (adds : List (Option Err)) : List Err := flatten (ErrList.ofList adds)

theorem collect_eq (adds : List (Option Err)) :
    collect adds = (adds.flatMap optParts).reverse := by
  simp [collect, flatten_eq, ErrList.partsAll_ofList]

/-- whatever order the goroutines got the lock in, the collector holds the same multiset:
    exactly the constituents of the non-nil errors added -/
theorem collector_order_independent (a b : List (Option Err)) (h : a.Perm b) :
    (collect a).Perm (collect b) := by
  rw [collect_eq, collect_eq]
  exact (List.reverse_perm _).trans ((h.flatMap_right _).trans (List.reverse_perm _).symm)

theorem collector_len (adds : List (Option Err)) :
    (collect adds).length = ((adds.flatMap optParts)).length := by
  simp [collect_eq]

/-- Resolve is nil iff no (solid) non-nil error was added -/
theorem collector_resolve_nil_iff (adds : List (Option Err))
    (hs : ∀ e, some e ∈ adds → e.solid = true) :
    collectorResolve (collect adds) = none ↔ ∀ o ∈ adds, o = none := by
  simp only [collectorResolve, collect_eq]
  constructor
  · intro h o ho
    cases o with
    | none => rfl
    | some e =>
      exfalso
      have hne := Err.parts_ne_nil e (hs e ho)
      simp only [List.isEmpty_iff, List.reverse_eq_nil_iff, ite_eq_left_iff, reduceCtorEq, imp_false,
        Decidable.not_not, List.flatMap_eq_nil_iff] at h
      exact hne (h (some e) ho)
  · intro h
    have : (adds.flatMap optParts) = [] := by
      rw [List.flatMap_eq_nil_iff]; intro o ho; rw [h o ho]; rfl
    simp [this]

/-- errors.Is on what the collector resolves -/
theorem collector_is (adds : List (Option Err)) (t : Nat) :
    isOpt (collectorResolve (collect adds)) t
      = (collect adds).any (fun c => c.is t) := by
  simp only [collectorResolve]
  split
  · simp_all [isOpt]
  · simp [isOpt, Err.is]

/-! ### non-vacuity: a 3-level tree with nils in the middle -/
def sampleTree : ErrList :=
  .cons (.leaf 1) (.skip (.cons (.multi 10 (.cons (.wrap 11 (.leaf 2)) (.skip (.cons
    (.stack (.cons (.typed 7 3) (.cons (.leaf 4) .nil))) .nil)))) (.cons (.unwinder 12 (.cons (.leaf 5) .nil)) .nil)))

example : (sampleTree.partsAll.map Err.label) = ["L1", "W11", "T7.3", "L4", "L5"] := by decide
example : (unwindOpt (join sampleTree)).map Err.label = ["L5", "L4", "T7.3", "W11", "L1"] := by decide
example : 2 ≤ sampleTree.partsAll.length := by decide
example : ∀ e ∈ sampleTree.toList, e.solid = true := by decide
example : isOpt (join sampleTree) 2 = true := by decide
example : isOpt (join sampleTree) 99 = false := by decide
example : asOpt (join sampleTree) 7 = some 3 := by decide

end FunModel.C12
