import FunModel.ErrPolicy
import FunGen.ErrPolicy
import FunGen.C03Shapes
import FunModel.FaultPipeShapes
import FunProofs.C03Pipe
import FunProofs.C03Report

/-! # C03 — worker-group error contract: property theorems

    Part (i): the decision table of `WorkerGroupConf.CanContinueOnError`.  The theorems are about
    `FunGen.canContinueOnError`, the definition regenerated from opts.go on every run. -/

namespace FunProps.C03
open FunModel

/-- The generated definition (what opts.go says now) is the hand-written model the process model
    `FunModel.FaultPipe` is built on. -/
theorem generated_eq_model (o : Conf) (c : ErrClass) :
    FunGen.canContinueOnError o c = canContinue o c := by
  rcases o with ⟨cp, ce, ic⟩
  rcases c with ⟨n, p, s, e, x, a, ex⟩
  cases n <;> cases p <;> cases s <;> cases e <;> cases x <;> cases ex <;> cases cp <;> cases ic <;> rfl

/-- `classification_table`: for every configuration and every error class
    * the error is handed to the handler at most once, and exactly when it is reportable: panics
      always; otherwise never for nil / ErrIteratorSkip / io.EOF / an excluded error, for a context
      error only with IncludeContextExpirationErrors, and always for any other (plain) error —
      ErrCurrentOpAbort is a plain error here;
    * the worker may continue ⇔ nil or skip, ContinueOnPanic for a panic, ContinueOnError for a
      plain or excluded error; never after io.EOF or a context error. -/
theorem classification_table (o : Conf) (c : ErrClass) :
    let d := FunGen.canContinueOnError o c
    (c.isNil = true → d.reports = 0 ∧ d.cont = true) ∧
    (c.isNil = false → c.hadPanic = true → d.reports = 1 ∧ d.cont = o.continueOnPanic) ∧
    (c.isNil = false → c.hadPanic = false → c.isSkip = true → d.reports = 0 ∧ d.cont = true) ∧
    (c.isNil = false → c.hadPanic = false → c.isSkip = false → c.isEOF = true →
        d.reports = 0 ∧ d.cont = false) ∧
    (c.isNil = false → c.hadPanic = false → c.isSkip = false → c.isEOF = false → c.isCtx = true →
        d.reports = (if o.includeCtx && !c.isExcluded then 1 else 0) ∧ d.cont = false) ∧
    (c.isNil = false → c.hadPanic = false → c.isSkip = false → c.isEOF = false → c.isCtx = false →
        c.isExcluded = true → d.reports = 0 ∧ d.cont = o.continueOnError) ∧
    (c.isNil = false → c.hadPanic = false → c.isSkip = false → c.isEOF = false → c.isCtx = false →
        c.isExcluded = false → d.reports = 1 ∧ d.cont = o.continueOnError) ∧
    d.reports = (if c.reportable o then 1 else 0) ∧ d.cont = c.continues o := by
  rcases o with ⟨cp, ce, ic⟩
  rcases c with ⟨n, p, s, e, x, a, ex⟩
  cases n <;> cases p <;> cases s <;> cases e <;> cases x <;> cases ex <;> cases cp <;> cases ic <;>
    simp [FunGen.canContinueOnError, ErrClass.reportable, ErrClass.continues]

/-- the table is not vacuous: a wrapped, excluded plain error under ContinueOnError is dropped and the worker goes on;
    a panic carrying the same error is reported -/
example : FunGen.canContinueOnError ⟨false, true, false⟩
    (classify [7] (some (.wrap 9 (.leaf 7)))) = ⟨0, true⟩ := by decide
example : FunGen.canContinueOnError ⟨false, true, false⟩
    (classify [7] (parsePanicErr (some (.wrap 9 (.leaf 7))))) = ⟨1, false⟩ := by decide

/-! Part (ii): the worker group (`FunModel.FaultPipe`): any number of workers, any input, any
    outcome function, any configuration, every interleaving (`Reachable` = some action list leads
    from the initial state to the state).  `c.recovers = true` says that the user function runs
    under `WithRecover`, which holds for all five constructs. -/

open FunModel.FaultPipe

/-- A panic of the user function never leaves the worker group. -/
theorem no_panic_escapes (c : Cfg) (hr : c.recovers = true) (input : List Nat) (s : St)
    (h : Reachable c input s) : s.escaped = false :=
  (reachable_inv hr h).esc

/-- … and the hypothesis matters: without `WithRecover` the same model lets a panic escape
    (kernel-checked witness). -/
example :
    let c : Cfg := { conf := ⟨false, false, false⟩, n := 1, gen := false, groupCancel := true, recovers := false, excluded := [],
                     outcome := fun _ => .panic (.leaf 7) }
    (run c (init c [0]) [.read, .handoff 0, .start 0, .finish 0]).map (·.escaped) = some true := by
  decide

/-- In every configuration and every reachable state each input item has been started at most once
    (as often as it occurs in the input), whatever failed. -/
theorem at_most_once (c : Cfg) (hr : c.recovers = true) (input : List Nat) (s : St)
    (h : Reachable c input s) (a : Nat) : (starts s.log).count a ≤ input.count a :=
  (reachable_inv hr h).starts_count_le a

/-- If no finished call stops its worker, then when everything has returned every item was
    processed exactly once and exactly the reportable results are in the collector. -/
theorem no_stop_all_processed (c : Cfg) (hr : c.recovers = true) (input : List Nat) (s : St)
    (h : Reachable c input s) (ht : Terminal s) (hc : ∀ x ∈ fins s.log, c.cont x = true) :
    (starts s.log).Perm input ∧ s.coll.Perm (input.filter (fun x => (c.cls x).reportable c.conf)) := by
  have hi := reachable_inv hr h
  have hf := hi.terminal_complete ht hc
  refine ⟨(hi.terminal_starts_fins ht).trans hf, ?_⟩
  rw [hi.coll]
  have : c.reports = fun x => (c.cls x).reportable c.conf := funext (reports_eq_reportable c)
  rw [this]
  exact hf.filter _

/-- `continue_mode_exactly_once_all_reported`: with ContinueOnError and ContinueOnPanic, and a user
    function that never *returns* io.EOF or a context error (those end a worker under every
    configuration), every item is processed exactly once — the started items are a permutation of
    the input — and every reportable failure, each exactly once, is in the collector. -/
theorem continue_mode_exactly_once_all_reported (c : Cfg) (hr : c.recovers = true) (input : List Nat) (s : St)
    (h : Reachable c input s) (ht : Terminal s)
    (hce : c.conf.continueOnError = true) (hcp : c.conf.continueOnPanic = true)
    (hres : ∀ x ∈ input, (c.cls x).hadPanic = true ∨ (c.cls x).isSkip = true ∨
              ((c.cls x).isEOF = false ∧ (c.cls x).isCtx = false)) :
    (starts s.log).Perm input ∧ s.coll.Perm (input.filter (fun x => (c.cls x).reportable c.conf)) := by
  apply no_stop_all_processed c hr input s h ht
  intro x hx
  have hxin := (reachable_inv hr h).mem_input_of_fin hx
  rw [cont_eq_continues]
  simp only [ErrClass.continues, hce, hcp]
  rcases hres x hxin with hp | hs | ⟨he, hcx⟩
  · simp [hp]
  · cases (c.cls x).hadPanic <;> simp [hs]
  · cases (c.cls x).hadPanic <;> simp [he, hcx]

/-- `abort_mode_nonnil_and_worker_stops`: in every reachable state
    (1) no worker has started an item after it finished one it may not continue from (so without
        ContinueOnError / ContinueOnPanic the failing worker handles no further item), and such a
        worker has returned;
    (2) once a reportable failure has been finished the result is non-nil. -/
theorem abort_mode_nonnil_and_worker_stops (c : Cfg) (hr : c.recovers = true) (input : List Nat) (s : St)
    (h : Reachable c input s)
    (hsolid : ∀ x e, (c.outcome x).result = some e → e.solid = true) :
    workerStops c s.log = true ∧
    (∀ w, stoppedIn c w s.log = true → s.ws[w]? = some .done) ∧
    (∀ x ∈ fins s.log, (c.cls x).reportable c.conf = true → resultOf c s.coll ≠ none) := by
  have hi := reachable_inv hr h
  refine ⟨hi.wstops, hi.stopped, ?_⟩
  intro x hx hrep hnil
  have hall : ∀ y ∈ s.coll, c.reports y = true := by
    intro y hy; rw [hi.coll] at hy; exact (List.mem_filter.mp hy).2
  have := (resultOf_none_iff c s.coll hsolid hall).mp hnil
  have hmem : x ∈ s.coll := by
    rw [hi.coll]; exact List.mem_filter.mpr ⟨hx, by rw [reports_eq_reportable]; exact hrep⟩
  rw [this] at hmem; cases hmem

/-! #### the abort bound
    FULL PROPERTY (C03): "without ContinueOnError / ContinueOnPanic … the number of items started
    after the first failure returned is bounded by the number of workers rather than the rest of
    the input being consumed", for all five constructs:

        ∀ c input s, c.recovers = true → Reachable c input s → afterStop c s.log ≤ c.n

    This holds for `Map` and `GenerateParallel` (`abort_bounded`, full strength, any n / input /
    outcomes / interleaving) and is FALSE for the ProcessParallel family (ProcessParallel,
    itertool.ParallelForEach / Process / Worker), which never cancels its group
    (`groupCancel = false`): kernel-checked witness `abort_unbounded_pp_family` below, open finding
    `ProcessParallel-family:abort-does-not-cancel-group` (the unedited TestParallelForEach/AbortOnPanic
    asserts that the item after the failure is processed).  What does hold for every construct is
    `abort_bounded_partial`. -/

/-- `abort_bounded` (constructs that cancel their group: Map, GenerateParallel): in every reachable
    state the number of items started after the first finished call that stops the group (its
    result handling includes the cancellation) is at most the number of workers — not the rest of
    the input. -/
theorem abort_bounded (c : Cfg) (hr : c.recovers = true) (hg : c.groupCancel = true) (input : List Nat) (s : St)
    (h : Reachable c input s) : afterStop c s.log ≤ c.n := by
  have hi := reachable_inv hr h
  rw [afterStop_eq_afterCount hg]
  cases hcan : s.cancelled with
  | false => rw [hi.after0 hcan]; omega
  | true => have := hi.bound hcan; omega

/-- `abort_bounded_partial` — what holds of the abort clause for EVERY construct, the ProcessParallel
    family included (missing there: the bound on `afterStop`): every item is started at most once,
    a worker that may not continue starts nothing more and has returned, and once a reportable
    failure has been finished the result is non-nil. -/
theorem abort_bounded_partial (c : Cfg) (hr : c.recovers = true) (input : List Nat) (s : St)
    (h : Reachable c input s)
    (hsolid : ∀ x e, (c.outcome x).result = some e → e.solid = true) :
    (∀ a, (starts s.log).count a ≤ input.count a) ∧
    workerStops c s.log = true ∧
    (∀ w, stoppedIn c w s.log = true → s.ws[w]? = some .done) ∧
    (∀ x ∈ fins s.log, (c.cls x).reportable c.conf = true → resultOf c s.coll ≠ none) := by
  obtain ⟨h1, h2, h3⟩ := abort_mode_nonnil_and_worker_stops c hr input s h hsolid
  exact ⟨fun a => at_most_once c hr input s h a, h1, h2, h3⟩

/-- the ProcessParallel family never cancels its group, whatever fails -/
theorem pp_family_never_cancels (c : Cfg) (hr : c.recovers = true) (hg : c.groupCancel = false)
    (input : List Nat) (s : St) (h : Reachable c input s) : s.cancelled = false := by
  have hi := reachable_inv hr h
  rw [hi.canc]
  have : ∀ l : List Ev, l.any (isCancelFin c) = false := by
    intro l; induction l with
    | nil => rfl
    | cons e l ih => cases e <;> simp [List.any_cons, isCancelFin, Cfg.cancels, hg, ih]
  exact this _

/-- kernel-checked witness that the full bound is false for the ProcessParallel family: 2 workers,
    6 items, abort mode, item 0 fails; the failing worker stops, the other one processes the
    remaining 5 items — 5 starts after the first failure returned, more than the 2 workers. -/
theorem abort_unbounded_pp_family :
    ∃ (c : Cfg) (input : List Nat) (s : St), c.recovers = true ∧ c.groupCancel = false ∧
      Reachable c input s ∧ Terminal s ∧ c.n < afterStop c s.log := by
  let c : Cfg := { conf := ⟨false, false, false⟩, n := 2, gen := false, groupCancel := false, recovers := true,
                   excluded := [], outcome := fun x => if x = 0 then .err (.leaf 100) else .ok }
  let acts : List Act :=
    [.read, .handoff 0, .start 0, .finish 0,
     .read, .handoff 1, .start 1, .finish 1, .read, .handoff 1, .start 1, .finish 1,
     .read, .handoff 1, .start 1, .finish 1, .read, .handoff 1, .start 1, .finish 1,
     .read, .handoff 1, .start 1, .finish 1, .rdExit, .exit 1]
  have hrun : (run c (init c [0, 1, 2, 3, 4, 5]) acts).isSome = true := by decide
  obtain ⟨s, hs⟩ := Option.isSome_iff_exists.mp hrun
  refine ⟨c, [0, 1, 2, 3, 4, 5], s, rfl, rfl, ⟨acts, hs⟩, ?_, ?_⟩
  · have : (run c (init c [0, 1, 2, 3, 4, 5]) acts).all (fun s => decide (Terminal s)) = true := by decide
    rw [hs] at this; simpa using this
  · have : (run c (init c [0, 1, 2, 3, 4, 5]) acts).all (fun s => decide (c.n < afterStop c s.log)) = true := by decide
    rw [hs] at this; simpa using this

/-- every finished call that may not continue, other than the generator's plain io.EOF, stops the
    group — and cancels it in a construct that cancels: `abort_bounded` counts from the first failure -/
theorem stopping_call_cancels (c : Cfg) (x : Nat) (hstop : c.cont x = false)
    (hgen : c.gen = false ∨ (c.cls x).isEOF = false ∨ (c.cls x).hadPanic = true) :
    c.stops x = true ∧ (c.groupCancel = true → c.cancels x = true) := by
  have hs : c.stops x = true := by
    simp only [Cfg.stops, hstop, Bool.not_false, Bool.true_and, Bool.not_eq_true', Bool.and_eq_false_iff,
      Bool.not_eq_false']
    rcases hgen with h | h | h
    · exact Or.inl (Or.inl h)
    · exact Or.inl (Or.inr h)
    · exact Or.inr h
  exact ⟨hs, fun hg => by simp [Cfg.cancels, hg, hs]⟩

/-- `nil_iff_no_reportable_failure`: in every reachable state the result is nil exactly when no
    finished call had a reportable result. -/
theorem nil_iff_no_reportable_failure (c : Cfg) (hr : c.recovers = true) (input : List Nat) (s : St)
    (h : Reachable c input s)
    (hsolid : ∀ x e, (c.outcome x).result = some e → e.solid = true) :
    resultOf c s.coll = none ↔ ∀ x ∈ fins s.log, (c.cls x).reportable c.conf = false := by
  have hi := reachable_inv hr h
  have hall : ∀ y ∈ s.coll, c.reports y = true := by
    intro y hy; rw [hi.coll] at hy; exact (List.mem_filter.mp hy).2
  rw [resultOf_none_iff c s.coll hsolid hall, hi.coll, List.filter_eq_nil_iff]
  constructor
  · intro hx x hxf
    have := hx x hxf
    rw [reports_eq_reportable] at this
    simpa using this
  · intro hx x hxf
    rw [reports_eq_reportable, hx x hxf]; simp

/-- `reported_is_original`: for every finished call with a reportable result, whatever `errors.Is`
    finds in that result (except the identity of a multi-error wrapper that `Stack.Push` opens up)
    it finds in the result of the construct; and a panic is found as ErrRecoveredPanic. -/
theorem reported_is_original (c : Cfg) (hr : c.recovers = true) (input : List Nat) (s : St)
    (h : Reachable c input s) (x : Nat) (hx : x ∈ fins s.log)
    (hrep : (c.cls x).reportable c.conf = true) :
    (∀ e, (c.outcome x).result = some e → ∀ t, e.is t = true → t ∉ e.shellIds →
        isOpt (resultOf c s.coll) t = true) ∧
    (∀ p, c.outcome x = .panic p → isOpt (resultOf c s.coll) idRecoveredPanic = true) := by
  have hi := reachable_inv hr h
  have hmem : x ∈ s.coll := by
    rw [hi.coll]; exact List.mem_filter.mpr ⟨hx, by rw [reports_eq_reportable]; exact hrep⟩
  exact ⟨fun e he t ht hs => resultOf_is_of_reported c s.coll x hmem e he t ht hs,
         fun p hp => resultOf_is_panic c s.coll x hmem p hp⟩

/-- never reported, nothing invented: what `errors.Is` finds in the result comes from a finished
    call whose result is reportable — so io.EOF, ErrIteratorSkip, excluded errors and (unless
    included) context errors are found only inside a reported panic or reported error that carries
    them. (Hypothesis: no result hides children behind an `Unwind()`-only type.) -/
theorem never_reported_nothing_invented (c : Cfg) (hr : c.recovers = true) (input : List Nat) (s : St)
    (h : Reachable c input s)
    (hvis : ∀ x e, (c.outcome x).result = some e → e.visible = true)
    (t : Nat) (ht : isOpt (resultOf c s.coll) t = true) :
    ∃ x ∈ fins s.log, (c.cls x).reportable c.conf = true ∧
      ∃ e, (c.outcome x).result = some e ∧ e.is t = true := by
  have hi := reachable_inv hr h
  obtain ⟨x, hx, e, he, het⟩ := reported_of_resultOf_is c s.coll t hvis ht
  rw [hi.coll] at hx
  obtain ⟨hxf, hxr⟩ := List.mem_filter.mp hx
  exact ⟨x, hxf, by rw [← reports_eq_reportable]; exact hxr, e, he, het⟩

/-- Drift guard (T-out): the Go functions the process model was written against are the ones in the
    tree now (hash of their comment-free canonical print, regenerated on every run). -/
theorem modelled_source_unchanged : FunGen.C03Shapes.shapes = expectedShapes := by decide

/-- The outcome predicate that the correspondence run evaluates on every observed run of the real
    constructs holds of every terminal state of the model (for the measured and the unmeasured form). -/
theorem terminal_allowed (c : Cfg) (hr : c.recovers = true) (input : List Nat) (s : St)
    (h : Reachable c input s) (ht : Terminal s) (measured : Bool) :
    allowed c input s.log measured = true :=
  (reachable_inv hr h).allowed ht measured

/-! ### non-vacuity: concrete runs (3 workers, 5 items, item 1 fails with a wrapped error in abort
    mode, item 3 panics) reach terminal states with the quantities the theorems talk about -/

def sampleCfg (ce cp : Bool) : Cfg :=
  { conf := ⟨cp, ce, false⟩, n := 3, gen := false, groupCancel := true, recovers := true, excluded := [],
    outcome := fun x => if x = 1 then .err (.wrap 301 (.leaf 101)) else if x = 3 then .panic (.leaf 103) else .ok }

/-- the well-formedness hypotheses of the theorems above (`hsolid`, `hvis`) hold of these outcomes -/
example : ∀ x e, ((sampleCfg false false).outcome x).result = some e → e.solid = true ∧ e.visible = true := by
  intro x e h
  simp only [sampleCfg] at h
  split at h
  · cases h; decide
  · split at h
    · cases h; decide
    · cases h

def sampleAbortRun : List Act :=
  [.read, .handoff 0, .read, .handoff 1, .read, .handoff 2, .start 0, .start 1, .read, .finish 1, .start 2,
   .finish 0, .handoff 0, .start 0, .finish 0, .finish 2, .rdExit, .exit 2]

/-- abort mode: worker 1 fails on item 1 and stops; two more items (2 and 3, which panics) are started
    afterwards (≤ 3 workers), item 4 is never read; the result finds the original error through its wrapper -/
example :
    (run (sampleCfg false false) (init (sampleCfg false false) [0, 1, 2, 3, 4]) sampleAbortRun).map
      (fun s => (decide (Terminal s), afterStop (sampleCfg false false) s.log, starts s.log, s.coll,
                 isOpt (resultOf (sampleCfg false false) s.coll) 101, s.src)) =
      some (true, 2, [3, 2, 1, 0], [3, 1], true, [4]) := by
  decide

def sampleContinueRun : List Act :=
  [.read, .handoff 0, .start 0, .finish 0, .read, .handoff 1, .start 1, .finish 1, .read, .handoff 1, .start 1,
   .finish 1, .read, .handoff 2, .start 2, .finish 2, .read, .handoff 0, .start 0, .finish 0, .rdExit,
   .exit 0, .exit 1, .exit 2]

/-- continue mode: all five items, both failures in the collector, ErrRecoveredPanic found -/
example :
    (run (sampleCfg true true) (init (sampleCfg true true) [0, 1, 2, 3, 4]) sampleContinueRun).map
      (fun s => (decide (Terminal s), starts s.log, s.coll,
                 isOpt (resultOf (sampleCfg true true) s.coll) idRecoveredPanic,
                 isOpt (resultOf (sampleCfg true true) s.coll) 101)) =
      some (true, [4, 3, 2, 1, 0], [3, 1], true, true) := by
  decide

/-- D32 (open finding) in the model: a panic whose payload is a `[]error` is reported without
    ErrRecoveredPanic, and an empty slice is swallowed — `reported_is_original` therefore speaks of
    `.panic` outcomes only (kernel-checked witness). -/
example :
    let c : Cfg := { conf := ⟨false, true, false⟩, n := 1, gen := false, groupCancel := true, recovers := true, excluded := [],
                     outcome := fun x => if x = 0 then .panicSlice (.cons (.leaf 100) .nil) else .panicSlice .nil }
    (run c (init c [0, 1]) [.read, .handoff 0, .start 0, .finish 0, .read, .handoff 0, .start 0, .finish 0]).map
      (fun s => (s.coll, isOpt (resultOf c s.coll) idRecoveredPanic, isOpt (resultOf c s.coll) 100)) =
      some ([0], false, true) := by
  decide

end FunProps.C03
