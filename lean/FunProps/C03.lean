import FunModel.ErrPolicy
import FunGen.ErrPolicy

/-! # C03 — worker-group error contract: property theorems

    Part (i): the decision table of `WorkerGroupConf.CanContinueOnError`.  The theorems are about
    `FunGen.canContinueOnError`, the definition regenerated from opts.go on every run. -/

namespace FunProps.C03
open FunModel

/-- The generated definition (what opts.go says now) is the hand-written model the process model
    `FunModel.FaultPipe` is built on. -/
theorem generated_eq_model (o : Conf) (c : ErrClass) :
    FunGen.canContinueOnError o c = canContinue o c := by
  rcases o with ⟨cp, ce, ic⟩
  rcases c with ⟨n, p, s, e, x, a, ex⟩
  cases n <;> cases p <;> cases s <;> cases e <;> cases x <;> cases ex <;> cases cp <;> cases ic <;> rfl

/-- `classification_table`: for every configuration and every error class
    * the error is handed to the handler at most once, and exactly when it is reportable: panics
      always; otherwise never for nil / ErrIteratorSkip / io.EOF / an excluded error, for a context
      error only with IncludeContextExpirationErrors, and always for any other (plain) error —
      ErrCurrentOpAbort is a plain error here;
    * the worker may continue ⇔ nil or skip, ContinueOnPanic for a panic, ContinueOnError for a
      plain or excluded error; never after io.EOF or a context error. -/
theorem classification_table (o : Conf) (c : ErrClass) :
    let d := FunGen.canContinueOnError o c
    (c.isNil = true → d.reports = 0 ∧ d.cont = true) ∧
    (c.isNil = false → c.hadPanic = true → d.reports = 1 ∧ d.cont = o.continueOnPanic) ∧
    (c.isNil = false → c.hadPanic = false → c.isSkip = true → d.reports = 0 ∧ d.cont = true) ∧
    (c.isNil = false → c.hadPanic = false → c.isSkip = false → c.isEOF = true →
        d.reports = 0 ∧ d.cont = false) ∧
    (c.isNil = false → c.hadPanic = false → c.isSkip = false → c.isEOF = false → c.isCtx = true →
        d.reports = (if o.includeCtx && !c.isExcluded then 1 else 0) ∧ d.cont = false) ∧
    (c.isNil = false → c.hadPanic = false → c.isSkip = false → c.isEOF = false → c.isCtx = false →
        c.isExcluded = true → d.reports = 0 ∧ d.cont = o.continueOnError) ∧
    (c.isNil = false → c.hadPanic = false → c.isSkip = false → c.isEOF = false → c.isCtx = false →
        c.isExcluded = false → d.reports = 1 ∧ d.cont = o.continueOnError) ∧
    d.reports = (if c.reportable o then 1 else 0) ∧ d.cont = c.continues o := by
  rcases o with ⟨cp, ce, ic⟩
  rcases c with ⟨n, p, s, e, x, a, ex⟩
  cases n <;> cases p <;> cases s <;> cases e <;> cases x <;> cases ex <;> cases cp <;> cases ic <;>
    simp [FunGen.canContinueOnError, ErrClass.reportable, ErrClass.continues]

/-- the table is not vacuous: a wrapped, excluded plain error under ContinueOnError is dropped and the worker goes on;
    a panic carrying the same error is reported -/
example : FunGen.canContinueOnError ⟨false, true, false⟩
    (classify [7] (some (.wrap 9 (.leaf 7)))) = ⟨0, true⟩ := by decide
example : FunGen.canContinueOnError ⟨false, true, false⟩
    (classify [7] (parsePanicErr (some (.wrap 9 (.leaf 7))))) = ⟨1, false⟩ := by decide

end FunProps.C03
