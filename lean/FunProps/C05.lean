import FunModel.Queue

/-! C05 — placeholder until FunProofs/Queue.lean lands -/
namespace FunModel.C05
open FunModel.Conc FunModel.Queue

/-- closing never loses queued items -/
theorem close_keeps_items (s : St) (t : Nat) : (start s t .close).st.q = s.q := by
  simp [start]

end FunModel.C05
