import FunProofs.QueueSeq

/-! # C05 — `pubsub.Queue` is a linearizable bounded FIFO

Model: `FunModel/Queue.lean` run by the machine of `FunModel/Conc.lean` (one action = one critical
section under `q.mu`; validated against the Go code action by action by the differential run).
Specification: `FunProofs/QueueSpec.lean` (`Spec.apply`, `Spec.replay`): a plain list of items, the closed
flag, and the limit tracker used as an opaque admission oracle (the burst credit is a `Float`; nothing here
computes with it — the theorems only case on the Boolean answers of `credit < 1`).

Quantification. `InitQ q0`: `q0` is `mkUnlimited` or `mkSoft hard soft burst` with `1 ≤ hard`, `soft ≤ hard`
(what `NewUnlimitedQueue` / `NewQueue` after `Validate` build), any `burst`. `Reach' subject (initSys q0
programs) log s`: `s` is reached from the initial system of *any* list of thread programs by *any* finite
list of enabled actions (start / resume-after-wake-up / cancel / helper-fire); `log` records, for every
segment that ran, thread, program counter, operation, whether it is the invocation, the context flag it
saw, the queue state before, and the `SegOut` (state after, signals, `ret r` or `park c`). No bounds.

Segments. `IsSeg s t op first c o` says `o` is the invocation segment (`first`, live context) or a re-check
segment after a wake-up (only for blocking operations) of `op` in queue state `s`; `run_segments` shows every
segment of every run is of this form and starts in a state satisfying the sequential invariant `SInv`
(tracker invariant ∧ `tracker.len = q.length`), so the per-segment theorems below apply to every segment of
every run.

## Why "linearization point = returning segment" gives real-time consistency

Every operation is a sequence of segments of one thread: its invocation segment (action `start t`), then
zero or more re-check segments (actions `resume t`), the last of which returns; all of them lie between
the operation's invocation and its response, the last one *is* its response (`lin_point_within_operation`:
the invocation segment of the same operation instance — same thread, same program counter — is in the log
at or before the returning segment; `invocation_is_first`: no segment of that instance precedes its
invocation). The theorems show that every non-returning (parking) segment leaves the abstract state
unchanged (`park_no_effect`) and that the returning segment performs exactly the whole sequential operation
(`seq_refines_fifo`). So each operation takes effect atomically at one instant inside its interval — its
returning segment. If operation A responds before operation B is invoked, then A's linearization point
(= A's response) precedes B's invocation, which is at or before B's linearization point: the order of
linearization points extends the real-time order. `linearizable` states that replaying the operations in
the order of their linearization points on the sequential specification reproduces every result and the
final abstract state; `lin_program_order` that each thread's operations appear in it in program order, each
exactly once. Operations that are parked and have not returned contribute nothing to the history, and the
final abstract state equals the specification state after the *returned* operations only — pending
operations have had no effect. -/
namespace FunModel.C05
open FunModel.Conc FunModel.ConcSubj FunModel.Queue

/-! ## tracker invariant, `Len ≤ hard limit` -/

/-- `tracker_inv` (step): `length ≤ hardLimit ∧ 1 ≤ softQuota ≤ hardLimit` is preserved by `add()` and
    `remove()`, which never change the hard limit -/
theorem tracker_inv_step (tr : Tracker) (h : tr.Ok) :
    tr.add.1.Ok ∧ tr.remove.Ok ∧ tr.add.1.hardLimit = tr.hardLimit ∧ tr.remove.hardLimit = tr.hardLimit :=
  ⟨Tracker.add_ok h, Tracker.remove_ok h, Tracker.hardLimit_add tr, Tracker.hardLimit_remove tr⟩

/-- `tracker_inv` (runs): in every reachable state the tracker invariant holds, the tracker's length is
    the number of linked entries, the hard limit is the configured one, and the queue never holds more
    items than the hard limit -/
theorem tracker_inv {q0 : St} (h0 : InitQ q0) (programs : List (List Op)) {log : List (Ev St Op)} {s : Sys St Op}
    (hr : Reach' subject (initSys q0 programs) log s) :
    s.subj.tracker.Ok ∧ s.subj.tracker.len = (abs s.subj).length ∧
    s.subj.tracker.hardLimit = q0.tracker.hardLimit ∧
    ∀ hl, q0.tracker.hardLimit = some hl → (abs s.subj).length ≤ hl := by
  have hI := LinInv.run h0 hr
  refine ⟨hI.sinv.ok, by rw [abs_length]; exact hI.sinv.len, hI.hard, ?_⟩
  intro hl hh
  rw [abs_length, ← hI.sinv.len]
  exact Tracker.len_le_hard hI.sinv.ok (hI.hard.trans hh)

/-- for `NewQueue(QueueOptions{HardLimit: hard, SoftQuota: soft, BurstCredit: burst})`: `Len() ≤ hard` always -/
theorem len_le_hard_limit (hard soft : Nat) (burst : Float) (h1 : 1 ≤ hard) (h2 : soft ≤ hard)
    (programs : List (List Op)) {log : List (Ev St Op)} {s : Sys St Op}
    (hr : Reach' subject (initSys (mkSoft hard soft burst) programs) log s) :
    s.subj.tracker.len ≤ hard ∧ (abs s.subj).length ≤ hard := by
  obtain ⟨_, e, _, h⟩ := tracker_inv (Or.inr ⟨hard, soft, burst, h1, h2, rfl⟩) programs hr
  exact ⟨by rw [e]; exact h hard rfl, h hard rfl⟩

/-- every segment of every run starts in a state satisfying the sequential invariant and is an invocation
    with a live context or a re-check of a blocking operation -/
theorem run_segments {q0 : St} (h0 : InitQ q0) (programs : List (List Op)) {log : List (Ev St Op)} {s : Sys St Op}
    (hr : Reach' subject (initSys q0 programs) log s) :
    SInv s.subj ∧ ∀ t pc op first c pre out, Ev.seg t pc op first c pre out ∈ log → SInv pre ∧ IsSeg pre t op first c out := by
  obtain ⟨h1, h2⟩ := Queue.run_segments h0 hr
  exact ⟨h1, fun t pc op first c pre out hm => h2 _ hm⟩

/-! ## the admission decision -/

/-- `add_decision`: `Add(v)` returns "closed" iff the queue is closed; on an open queue "full" iff the
    length is at the hard limit (then it is also ≥ the soft quota), "nocredit" iff the length is at or above
    the soft quota, below the hard limit, and the burst credit is `< 1`; otherwise "ok". On "ok" exactly `v`
    is appended at the back and nothing else changes in the abstract state; any other result leaves the
    whole state untouched. -/
theorem add_decision (s : St) (h : SInv s) (t : Nat) (v : Int) :
    ∃ r, (start s t (.add v)).fin = .ret r ∧
      (r = "closed" ↔ s.closed = true) ∧
      (r = "full" ↔ (s.closed = false ∧ s.tracker.atHardLimit = true)) ∧
      (s.tracker.atHardLimit = true → s.tracker.atOrOverQuota = true) ∧
      (r = "nocredit" ↔ (s.closed = false ∧ s.tracker.atOrOverQuota = true ∧ s.tracker.atHardLimit = false ∧
          s.tracker.creditBelowOne = true)) ∧
      (r = "ok" ↔ (s.closed = false ∧ (s.tracker.atOrOverQuota = false ∨
          (s.tracker.atHardLimit = false ∧ s.tracker.creditBelowOne = false)))) ∧
      (r = "ok" → abs (start s t (.add v)).st = abs s ++ [v] ∧ (start s t (.add v)).st.closed = s.closed) ∧
      (r ≠ "ok" → (start s t (.add v)).st = s) := by
  obtain ⟨d1, d2, d3⟩ := Tracker.add_decision s.tracker
  obtain ⟨r1, r2, r3⟩ := doAdd_result s v
  have hover := Tracker.atHard_over h.ok
  refine ⟨(doAdd s v).2.1, rfl, ?_, ?_, hover, ?_, ?_, ?_, ?_⟩
  · by_cases hc : s.closed = true
    · simp [r1, hc]
    · simp only [r1, hc, if_false, Bool.false_eq_true, iff_false]
      cases s.tracker.add.2 <;> decide
  · by_cases hc : s.closed = true
    · simp [r1, hc]
    · have hc' : s.closed = false := by simpa using hc
      simp only [r1, hc, if_false, Bool.false_eq_true, true_and]
      cases hres : s.tracker.add.2 with
      | full => simpa using (d1.1 hres).2
      | ok =>
        simp only [String.reduceEq, false_iff]
        intro hh; have := d1.2 ⟨hover hh, hh⟩; rw [hres] at this; cases this
      | noCredit =>
        simp only [String.reduceEq, false_iff]
        intro hh; have := d1.2 ⟨hover hh, hh⟩; rw [hres] at this; cases this
  · by_cases hc : s.closed = true
    · simp [r1, hc]
    · have hc' : s.closed = false := by simpa using hc
      simp only [r1, hc, if_false, Bool.false_eq_true, true_and]
      cases hres : s.tracker.add.2 with
      | noCredit => simpa using d2.1 hres
      | ok =>
        simp only [String.reduceEq, false_iff]
        intro hh; have := d2.2 hh; rw [hres] at this; cases this
      | full =>
        simp only [String.reduceEq, false_iff]
        intro hh; have := d2.2 hh; rw [hres] at this; cases this
  · by_cases hc : s.closed = true
    · simp [r1, hc]
    · have hc' : s.closed = false := by simpa using hc
      simp only [r1, hc, if_false, Bool.false_eq_true, true_and]
      cases hres : s.tracker.add.2 with
      | ok => simpa using d3.1 hres
      | noCredit =>
        simp only [String.reduceEq, false_iff]
        intro hh; have := d3.2 hh; rw [hres] at this; cases this
      | full =>
        simp only [String.reduceEq, false_iff]
        intro hh; have := d3.2 hh; rw [hres] at this; cases this
  · intro hok
    obtain ⟨e1, e2⟩ := r3 hok
    exact ⟨by simp [start, abs, e1], e2⟩
  · intro hne
    exact r2 hne

/-- `BlockingAdd` never reports "full"/"nocredit": it adds only below the soft quota, where the tracker
    accepts unconditionally -/
theorem badd_results (s : St) (h : SInv s) {t : Nat} {v : Int} {first c : Bool} {o : SegOut St} {r : String}
    (hs : IsSeg s t (.badd v) first c o) (hr : o.fin = .ret r) : r = "ok" ∨ r = "closed" ∨ r = "ctx" := by
  have hsim := (seg_sim h hs rfl).2
  rw [hr] at hsim
  simp only [Spec.apply] at hsim
  by_cases hcl : (specOf s).closed = true
  · simp only [hcl, if_true, Option.some.injEq, Prod.mk.injEq] at hsim; exact Or.inr (Or.inl hsim.2.symm)
  · simp only [hcl, if_false, Bool.false_eq_true] at hsim
    by_cases hroom : (specOf s).tracker.hasRoom = true
    · simp only [hroom, if_true, Option.some.injEq] at hsim
      have hd := (Tracker.add_decision (specOf s).tracker).2.2.2 (Or.inl (by
        cases htr : (specOf s).tracker with
        | noLimit l => rfl
        | soft sq hl l cr =>
          rw [htr] at hroom
          simpa [Tracker.hasRoom, Tracker.cap, Tracker.len, Tracker.atOrOverQuota] using hroom))
      left
      have : (Spec.push (specOf s) v).2 = r := by rw [hsim]
      rw [← this]
      simp only [Spec.push]
      cases hadd : (specOf s).tracker.add with
      | mk tr res => rw [hadd] at hd; simp only at hd; subst hd; rfl
    · simp only [hroom, if_false, Bool.false_eq_true] at hsim
      by_cases hcc : c = true
      · simp only [hcc, if_true, Option.some.injEq, Prod.mk.injEq] at hsim; exact Or.inr (Or.inr hsim.2.symm)
      · simp [hcc] at hsim

/-! ## every segment acts on `abs` as the FIFO specification -/

/-- `seq_refines_fifo`: with `abs s = s.q.map (·.2)` and `specOf s = ⟨abs s, s.closed, s.tracker⟩`: a
    *returning* segment of a queue operation is exactly the sequential operation `Spec.apply` (same result,
    same successor state); a *parking* segment changes nothing, and the sequential operation cannot complete
    in that state either. The invariant is kept. -/
theorem seq_refines_fifo (s : St) (h : SInv s) {t : Nat} {op : Op} {first c : Bool} {o : SegOut St}
    (hs : IsSeg s t op first c o) (hn : op.isNext = false) :
    SInv o.st ∧
    (∀ r, o.fin = .ret r → Spec.apply (specOf s) op c = some (specOf o.st, r)) ∧
    (∀ cnd, o.fin = .park cnd → Spec.apply (specOf s) op c = none ∧ specOf o.st = specOf s) := by
  obtain ⟨h1, h2⟩ := seg_sim h hs hn
  refine ⟨h1, ?_, ?_⟩
  · intro r hr; rw [hr] at h2; exact h2
  · intro cnd hp; rw [hp] at h2; exact h2

/-- a successful `Add`/`BlockingAdd` appends exactly its item at the back (the queue was open and stays
    open); an unsuccessful one changes nothing -/
theorem add_appends (s : St) (h : SInv s) {t : Nat} {op : Op} {v : Int} {first c : Bool} {o : SegOut St} {r : String}
    (hop : op = .add v ∨ op = .badd v) (hs : IsSeg s t op first c o) (hr : o.fin = .ret r) :
    (r = "ok" → abs o.st = abs s ++ [v] ∧ o.st.closed = false ∧ s.closed = false) ∧
    (r ≠ "ok" → specOf o.st = specOf s) := by
  have hn : op.isNext = false := by rcases hop with rfl | rfl <;> rfl
  exact Spec.add_reading hop ((seq_refines_fifo s h hs hn).2.1 r hr)

/-- `Remove`/`Wait`/`Receive` that find an item return the head and leave the tail (closed flag unchanged,
    tracker told about one removal); on an empty queue a returning segment changes nothing and reports
    "none" (Remove), "closed" (closed queue) or "ctx" (open queue, cancelled context) -/
theorem take_returns_head (s : St) (h : SInv s) {t : Nat} {op : Op} {first c : Bool} {o : SegOut St} {r : String}
    (hop : op = .remove ∨ op = .wait ∨ op = .recv) (hs : IsSeg s t op first c o) (hr : o.fin = .ret r) :
    (∀ v rest, abs s = v :: rest → r = toString v ∧ abs o.st = rest ∧ o.st.closed = s.closed ∧
        o.st.tracker = s.tracker.remove) ∧
    (abs s = [] → specOf o.st = specOf s ∧
      ((op = .remove ∧ r = "none") ∨ (op ≠ .remove ∧ s.closed = true ∧ r = "closed") ∨
       (op ≠ .remove ∧ s.closed = false ∧ c = true ∧ r = "ctx"))) := by
  have hn : op.isNext = false := by rcases hop with rfl | rfl | rfl <;> rfl
  exact Spec.take_reading hop ((seq_refines_fifo s h hs hn).2.1 r hr)

/-- a non-empty queue never makes `Remove`/`Wait`/`Receive` park or fail: they return the head at once -/
theorem take_nonempty_returns (s : St) (h : SInv s) {t : Nat} {op : Op} {first c : Bool} {o : SegOut St}
    (hop : op = .remove ∨ op = .wait ∨ op = .recv) (hs : IsSeg s t op first c o) {v : Int} {rest : List Int}
    (hne : abs s = v :: rest) : o.fin = .ret (toString v) := by
  have hn : op.isNext = false := by rcases hop with rfl | rfl | rfl <;> rfl
  obtain ⟨_, h2, h3⟩ := seq_refines_fifo s h hs hn
  cases hf : o.fin with
  | ret r => rw [((take_returns_head s h hop hs hf).1 v rest hne).1]
  | park cnd =>
    have := (h3 cnd hf).1
    have hi : (specOf s).items = v :: rest := hne
    rcases hop with rfl | rfl | rfl <;> simp [Spec.apply, hi] at this

/-- `Len` returns exactly the number of queued items and changes nothing -/
theorem len_exact (s : St) (h : SInv s) {t : Nat} {first c : Bool} {o : SegOut St} (hs : IsSeg s t .len first c o) :
    o.fin = .ret (toString (abs s).length) ∧ specOf o.st = specOf s := by
  obtain ⟨_, h2, h3⟩ := seq_refines_fifo s h hs rfl
  cases hf : o.fin with
  | ret r => obtain ⟨e1, e2⟩ := Spec.len_reading (h2 r hf); exact ⟨by rw [e2]; rfl, e1⟩
  | park cnd => have := (h3 cnd hf).1; simp [Spec.apply] at this

/-- `Close` changes no items (and not the tracker); it sets the closed flag -/
theorem close_keeps_items (s : St) (h : SInv s) {t : Nat} {first c : Bool} {o : SegOut St} (hs : IsSeg s t .close first c o) :
    o.fin = .ret "ok" ∧ abs o.st = abs s ∧ o.st.tracker = s.tracker ∧ o.st.closed = true := by
  obtain ⟨_, h2, h3⟩ := seq_refines_fifo s h hs rfl
  cases hf : o.fin with
  | ret r => obtain ⟨e1, e2, e3, e4⟩ := Spec.close_reading (h2 r hf); exact ⟨by rw [e4], e1, e2, e3⟩
  | park cnd => have := (h3 cnd hf).1; simp [Spec.apply] at this

/-- `ctx_error_no_effect`: a segment that returns a context error saw a cancelled context and left items,
    closed flag and tracker exactly as they were -/
theorem ctx_error_no_effect (s : St) (h : SInv s) {t : Nat} {op : Op} {first c : Bool} {o : SegOut St}
    (hs : IsSeg s t op first c o) (hn : op.isNext = false) (hr : o.fin = .ret "ctx") :
    specOf o.st = specOf s ∧ c = true ∧ first = false := by
  obtain ⟨e1, e2⟩ := Spec.ctx_reading ((seq_refines_fifo s h hs hn).2.1 _ hr)
  refine ⟨e1, e2, ?_⟩
  cases first with
  | false => rfl
  | true => have := hs.live rfl; rw [this] at e2; cases e2

/-- a segment that parks left items, closed flag and tracker exactly as they were: a pending operation has
    no effect -/
theorem park_no_effect (s : St) (h : SInv s) {t : Nat} {op : Op} {first c : Bool} {o : SegOut St}
    (hs : IsSeg s t op first c o) {cnd : Nat} (hp : o.fin = .park cnd) : specOf o.st = specOf s := by
  by_cases hn : op.isNext = true
  · obtain ⟨k, rfl⟩ : ∃ k, op = .next k := by cases op <;> simp [Op.isNext] at hn; exact ⟨_, rfl⟩
    exact next_specOf s t k c o hs.next_cases
  · exact ((seq_refines_fifo s h hs (by simpa using hn)).2.2 cnd hp).2

/-- iterator calls never change items, closed flag or tracker (they are not queue operations) -/
theorem next_no_effect (s : St) {t k : Nat} {first c : Bool} {o : SegOut St} (hs : IsSeg s t (.next k) first c o) :
    specOf o.st = specOf s :=
  next_specOf s t k c o hs.next_cases

/-! ## closed queues -/

/-- `closed_semantics` (adds): on a closed queue every `Add`/`BlockingAdd` segment returns "closed" and
    changes nothing -/
theorem closed_add_fails (s : St) (h : SInv s) (hc : s.closed = true) {t : Nat} {op : Op} {v : Int} {first c : Bool}
    {o : SegOut St} (hop : op = .add v ∨ op = .badd v) (hs : IsSeg s t op first c o) :
    o.fin = .ret "closed" ∧ specOf o.st = specOf s := by
  have hn : op.isNext = false := by rcases hop with rfl | rfl <;> rfl
  obtain ⟨_, h2, h3⟩ := seq_refines_fifo s h hs hn
  have hcl : (specOf s).closed = true := hc
  cases hf : o.fin with
  | ret r =>
    have := h2 r hf
    rcases hop with rfl | rfl <;>
      (simp only [Spec.apply, hcl, if_true, Option.some.injEq, Prod.mk.injEq] at this
       exact ⟨by rw [this.2], this.1.symm⟩)
  | park cnd =>
    have := (h3 cnd hf).1
    rcases hop with rfl | rfl <;> simp [Spec.apply, hcl] at this

/-- `closed_semantics` (drain): on a closed queue `Remove`/`Wait`/`Receive` still return the remaining items
    oldest first; on a closed empty queue `Wait`/`Receive` return "closed" without parking; the queue
    stays closed -/
theorem closed_drain (s : St) (h : SInv s) (hc : s.closed = true) {t : Nat} {op : Op} {first c : Bool}
    {o : SegOut St} (hop : op = .remove ∨ op = .wait ∨ op = .recv) (hs : IsSeg s t op first c o) :
    (∀ v rest, abs s = v :: rest → o.fin = .ret (toString v) ∧ abs o.st = rest ∧ o.st.closed = true) ∧
    (abs s = [] → op ≠ .remove → o.fin = .ret "closed" ∧ specOf o.st = specOf s) := by
  have hn : op.isNext = false := by rcases hop with rfl | rfl | rfl <;> rfl
  obtain ⟨_, h2, h3⟩ := seq_refines_fifo s h hs hn
  constructor
  · intro v rest hne
    have hf := take_nonempty_returns s h hop hs hne
    obtain ⟨_, e2, e3, _⟩ := (take_returns_head s h hop hs hf).1 v rest hne
    exact ⟨hf, e2, by rw [e3]; exact hc⟩
  · intro hem hnr
    cases hf : o.fin with
    | ret r =>
      obtain ⟨e1, e2⟩ := (take_returns_head s h hop hs hf).2 hem
      rcases e2 with ⟨e, _⟩ | ⟨_, _, e⟩ | ⟨_, e, _⟩
      · exact absurd e hnr
      · exact ⟨by rw [e], e1⟩
      · rw [hc] at e; cases e
    | park cnd =>
      have := (h3 cnd hf).1
      have hi : (specOf s).items = [] := hem
      have hcl : (specOf s).closed = true := hc
      rcases hop with rfl | rfl | rfl <;> simp [Spec.apply, hi, hcl] at this

/-- once closed, always closed: no segment of any operation reopens the queue -/
theorem closed_stable (s : St) (h : SInv s) (hc : s.closed = true) {t : Nat} {op : Op} {first c : Bool} {o : SegOut St}
    (hs : IsSeg s t op first c o) : o.st.closed = true := by
  by_cases hn : op.isNext = true
  · obtain ⟨k, rfl⟩ : ∃ k, op = .next k := by cases op <;> simp [Op.isNext] at hn; exact ⟨_, rfl⟩
    have := next_no_effect s hs
    simp only [specOf, SpecState.mk.injEq] at this
    rw [this.2.1]; exact hc
  · have hn' : op.isNext = false := by simpa using hn
    obtain ⟨_, h2, h3⟩ := seq_refines_fifo s h hs hn'
    cases hf : o.fin with
    | park cnd =>
      have := (h3 cnd hf).2
      simp only [specOf, SpecState.mk.injEq] at this
      rw [this.2.1]; exact hc
    | ret r =>
      have hcl : (specOf s).closed = true := hc
      have happ := h2 r hf
      have : (specOf o.st).closed = true := by
        cases op with
        | add v => exact (by simp only [Spec.apply, hcl, if_true, Option.some.injEq, Prod.mk.injEq] at happ; rw [← happ.1]; exact hcl)
        | badd v => exact (by simp only [Spec.apply, hcl, if_true, Option.some.injEq, Prod.mk.injEq] at happ; rw [← happ.1]; exact hcl)
        | len => rw [(Spec.len_reading happ).1]; exact hcl
        | close => exact (Spec.close_reading happ).2.2.1
        | next k => simp [Op.isNext] at hn'
        | remove =>
          cases hi : (specOf s).items with
          | nil => rw [((Spec.take_reading (Or.inl rfl) happ).2 hi).1]; exact hcl
          | cons v rest => rw [((Spec.take_reading (Or.inl rfl) happ).1 v rest hi).2.2.1]; exact hcl
        | wait =>
          cases hi : (specOf s).items with
          | nil => rw [((Spec.take_reading (Or.inr (Or.inl rfl)) happ).2 hi).1]; exact hcl
          | cons v rest => rw [((Spec.take_reading (Or.inr (Or.inl rfl)) happ).1 v rest hi).2.2.1]; exact hcl
        | recv =>
          cases hi : (specOf s).items with
          | nil => rw [((Spec.take_reading (Or.inr (Or.inr rfl)) happ).2 hi).1]; exact hcl
          | cons v rest => rw [((Spec.take_reading (Or.inr (Or.inr rfl)) happ).1 v rest hi).2.2.1]; exact hcl
      exact this

/-! ## linearizability -/

/-- `linearizable`: for every initial queue, all programs and every run: take the completed queue
    operations in the order of their *returning* segments (`history log`, each with the context flag its
    returning segment saw). Replaying exactly this sequence on the sequential specification succeeds
    (no operation would block), yields exactly the results the run returned (`results log`), and ends in
    exactly the abstract state of the run's final state. Parked operations that have not returned are not
    in the history: they have had no effect. -/
theorem linearizable {q0 : St} (h0 : InitQ q0) (programs : List (List Op)) {log : List (Ev St Op)} {s : Sys St Op}
    (hr : Reach' subject (initSys q0 programs) log s) :
    Spec.replay (specOf q0) (history log) = some (specOf s.subj, results log) :=
  (LinInv.run h0 hr).lin

/-- each thread's returned operations are exactly the first `pc` operations of its program, in program
    order, each once; every segment in the log ran the operation the program has at that program counter -/
theorem lin_program_order {q0 : St} (programs : List (List Op)) {log : List (Ev St Op)} {s : Sys St Op}
    (hr : Reach' subject (initSys q0 programs) log s) :
    s.ths.length = programs.length ∧
    (∀ t th, s.ths[t]? = some th → programs[t]? = some th.ops ∧
      retOps log t = th.ops.take th.pc ∧ retPcs log t = List.range th.pc) ∧
    (∀ t pc op first c pre out, Ev.seg t pc op first c pre out ∈ log → ∃ p, programs[t]? = some p ∧ p[pc]? = some op) := by
  have hI := hr.rinv
  exact ⟨hI.len, fun t th h => ⟨hI.ops t th h, hI.rops t th h, hI.rpcs t th h⟩, hI.segs⟩


/-- **the linearization point lies within the operation's interval.** Take any segment in the log of a run
    (in particular a returning one: a linearization point) of operation instance (thread `t`, program counter
    `pc`). (1) It is the invocation segment, or the invocation segment of the same instance precedes it in
    the log. (2) If it is the invocation segment, no segment of thread `t` at the same or a later program
    counter precedes it — an instance does nothing before its invocation. Hence for two operations A, B where
    A's returning segment precedes B's invocation in the log, A's linearization point precedes B's. -/
theorem lin_point_within_operation {q0 : St} (programs : List (List Op)) {s : Sys St Op} {l1 l2 : List (Ev St Op)}
    {t pc : Nat} {op : Op} {first c : Bool} {pre : St} {out : SegOut St}
    (hr : Reach' subject (initSys q0 programs) (l1 ++ Ev.seg t pc op first c pre out :: l2) s) :
    (first = true ∨ ∃ c' pre' out', Ev.seg t pc op true c' pre' out' ∈ l1) ∧
    (first = true → ∀ pc' op' f' c' pre' out', Ev.seg t pc' op' f' c' pre' out' ∈ l1 → pc' < pc) := by
  refine ⟨hr.invocation_before, ?_⟩
  intro hf; subst hf
  exact hr.invocation_first

/-- a context error is returned only after the operation's context was cancelled: a `cancel` action for the
    thread lies in the log between the invocation of that very operation and the segment returning "ctx"
    (and, by `ctx_error_no_effect`, the operation changed nothing) -/
theorem ctx_only_after_cancel {q0 : St} (h0 : InitQ q0) (programs : List (List Op)) {s : Sys St Op}
    {l1 l2 : List (Ev St Op)} {t pc : Nat} {op : Op} {first c : Bool} {pre : St} {out : SegOut St}
    (hr : Reach' subject (initSys q0 programs) (l1 ++ Ev.seg t pc op first c pre out :: l2) s)
    (hn : op.isNext = false) (hf : out.fin = .ret "ctx") :
    specOf out.st = specOf pre ∧ first = false ∧
    ∃ l1a l1b, l1 = l1a ++ [Ev.env (.cancel t)] ++ l1b ∧ ∀ ev ∈ l1b, ¬ ev.isStartOf t := by
  obtain ⟨hS, hseg⟩ := (run_segments h0 programs hr).2 t pc op first c pre out (by simp)
  obtain ⟨e1, e2, _⟩ := ctx_error_no_effect pre hS hseg hn hf
  subst e2
  exact ⟨e1, hr.cancel_before⟩

/-- every case the driver executes (`runCase`: the choice list, then the fixed drain policy) is one of the
    runs the theorems quantify over -/
theorem driver_runs_covered (q0 : St) (programs : List (List Op)) (choices : List Nat) :
    ∃ log, Reach' subject (initSys q0 programs) log (runCaseSys subject q0 programs choices) :=
  runCase_reach subject q0 programs choices

/-! ## non-vacuity: the hypotheses are satisfiable by non-trivial states and runs -/

/-- valid configurations exist (unlimited, and hard limit 3 / soft quota 1 / any burst) -/
example : InitQ mkUnlimited ∧ ∀ b, InitQ (mkSoft 3 1 b) :=
  ⟨Or.inl rfl, fun b => Or.inr ⟨3, 1, b, by decide, by decide, rfl⟩⟩

/-- a state at its hard limit satisfying `SInv` (for `add_decision`: the answer is "full", nothing changes) -/
example : ∃ s : St, SInv s ∧ s.closed = false ∧ s.tracker.atHardLimit = true ∧ abs s = [5, 6] :=
  ⟨{ tracker := .soft 1 2 2 0.5, q := [(1, 5), (2, 6)], nextId := 3 }, ⟨by simp [Tracker.Ok], rfl⟩, rfl, rfl, rfl⟩

/-- a state above its quota but below the hard limit (the answer depends on `credit < 1` only) -/
example : ∃ s : St, SInv s ∧ s.closed = false ∧ s.tracker.atHardLimit = false ∧ s.tracker.atOrOverQuota = true :=
  ⟨{ tracker := .soft 1 3 2 0.5, q := [(1, 5), (2, 6)], nextId := 3 }, ⟨by simp [Tracker.Ok], rfl⟩, rfl, rfl, rfl⟩

/-- `IsSeg` is satisfiable for invocations and for re-checks with a cancelled context -/
example (s : St) : IsSeg s 0 (.add 7) true false (start s 0 (.add 7)) ∧ IsSeg s 1 .wait false true (resume s 1 .wait true) :=
  ⟨⟨rfl, fun _ => rfl, fun h => (by cases h)⟩, ⟨rfl, fun h => (by cases h), fun _ => rfl⟩⟩

/-- a concrete run on the unlimited queue: thread 1's `Wait` parks on the empty queue, thread 0 adds 5
    (waking it) and 6, thread 1 re-checks and returns 5, thread 2's `Wait` gets 6, is invoked again and
    parks, is cancelled, its helper fires, it re-checks and returns "ctx". -/
example : ∃ log s, Reach' subject (initSys mkUnlimited [[.add 5, .add 6, .len], [.wait], [.wait, .wait]]) log s ∧
    history log = [(.add 5, false), (.add 6, false), (.wait, false), (.wait, false), (.wait, true), (.len, false)] ∧
    results log = ["ok", "ok", "5", "6", "ctx", "0"] ∧ abs s.subj = [] := by
  obtain ⟨log, s, hr, hc⟩ := runActs_witness (sub := subject)
    (s := initSys mkUnlimited [[.add 5, .add 6, .len], [.wait], [.wait, .wait]])
    (acts := [.start 1, .start 0, .start 0, .resume 1, .start 2, .start 2, .cancel 2, .fire 2, .resume 2, .start 0])
    (fun s log => decide (history log = [(.add 5, false), (.add 6, false), (.wait, false), (.wait, false), (.wait, true), (.len, false)]
      ∧ results log = ["ok", "ok", "5", "6", "ctx", "0"] ∧ abs s.subj = [])) (by decide)
  exact ⟨log, s, hr, of_decide_eq_true hc⟩

/-- a bounded queue (hard limit 1): the third add is refused and the run's history replays on the
    specification -/
example (b : Float) : ∃ log s, Reach' subject (initSys (mkSoft 1 1 b) [[.add 5, .add 6], [.remove, .remove]]) log s ∧
    results log = ["ok", "full", "5", "none"] ∧ abs s.subj = [] := by
  refine ⟨_, _, runActs_reach (acts := [.start 0, .start 0, .start 1, .start 1]) rfl, ?_, ?_⟩ <;> rfl

end FunModel.C05
