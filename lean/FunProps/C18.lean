import FunProofs.SetModel
import FunProps.C17

/-! C18 — `dt.Set`: a map from value to list element plus, for an ordered set, the list of elements.
    For every sequence of operations, every value and every size:
    the representation invariant `Inv` holds; the observable behaviour is that of the reference
    model `members` (the members in iteration order): `Check`/`Len`, `AddCheck` (append unless
    present, never moves a present value), `DeleteCheck` (erase), `Populate`/`Extend`/`UnmarshalJSON`
    (fold of add), iteration, `SortQuick`/`SortMerge` (sorted permutation; then iteration and
    deletion follow the sorted order), `Equal`, the JSON round trip.
    Property theorems only; `Inv`, `members`, `GoodOrder`, `Total`, `refAdd`, `Reachable` and the
    helper lemmas are in `FunProofs/SetModel.lean`. -/

namespace FunModel.C18
open FunModel FunModel.SetModel FunModel.SortSeq

/-! ### 0. the hypotheses are satisfiable -/

theorem total_int_lt : Total (fun a b : Int => a < b) := by
  intro a b h
  simp only [decide_eq_true_eq]
  omega

theorem total_int_gt : Total (fun a b : Int => a > b) := by
  intro a b h
  simp only [decide_eq_true_eq]
  omega

example : StrictWeak (fun a b : Int => a < b) ∧ Total (fun a b : Int => a < b) :=
  ⟨strictWeak_int_lt, total_int_lt⟩

example : StrictWeak (fun a b : Int => a > b) ∧ Total (fun a b : Int => a > b) :=
  ⟨strictWeak_int_gt, total_int_gt⟩

/-- a strict weak ordering that is NOT total on distinct values (compare by tens): the sort
    theorems that do not assume `Total` cover it -/
example : StrictWeak (fun a b : Int => (a + 1000) / 10 < (b + 1000) / 10) ∧
    ¬ Total (fun a b : Int => (a + 1000) / 10 < (b + 1000) / 10) :=
  ⟨strictWeak_int_key, fun h => by have := h 1 2 (by decide); revert this; decide⟩

/-- every set with distinct keys has a possible map order: ascending keys (the one the checks
    use) and insertion order -/
theorem ascKeys_goodOrder {s : SetSt} (hi : Inv s) : s.GoodOrder s.ascKeys :=
  SetSt.ascKeys_good hi.keys_nodup

theorem keys_goodOrder {s : SetSt} (hi : Inv s) : s.GoodOrder (s.hash.map (·.1)) :=
  SetSt.keys_good hi.keys_nodup

/-! ### 1. the invariant -/

theorem inv_empty : Inv ({} : SetSt) := SetSt.inv_empty

theorem inv_order_empty : Inv (SetSt.order {}) := SetSt.inv_order_empty

/-- `Order()` (which panics unless the set is empty or already ordered) -/
theorem inv_order {s : SetSt} (hi : Inv s) (he : s.hash = []) : Inv s.order := SetSt.inv_order hi he

theorem inv_addCheck {s : SetSt} (hi : Inv s) (k : Int) : Inv (s.addCheck k).1 :=
  SetSt.addCheck_inv hi k

theorem inv_deleteCheck {s : SetSt} (hi : Inv s) (k : Int) : Inv (s.deleteCheck k).1 :=
  SetSt.deleteCheck_inv hi k

theorem inv_addAll {s : SetSt} (hi : Inv s) (ks : List Int) : Inv (s.addAll ks) :=
  SetSt.addAll_inv hi ks

/-- the repaired `forceSetupOrdered` establishes the invariant whatever order the map is ranged in -/
theorem inv_forceSetupOrdered {s : SetSt} (hi : Inv s) {mo : List Int} (hg : s.GoodOrder mo) :
    Inv (s.forceSetupOrdered mo) := SetSt.forceSetupOrdered_inv hi.keys_nodup hg

/-- … and the set it produces iterates in that order -/
theorem forceSetupOrdered_members {s : SetSt} (hl : s.list = none) (mo : List Int) :
    (s.forceSetupOrdered mo).members = s.iter mo := by
  rw [SetSt.forceSetupOrdered_members, SetSt.iter_unordered_eq hl]

/-- no hypothesis on the comparison is needed for the invariant -/
theorem inv_sortQuick (lt : Int → Int → Bool) {s : SetSt} (hi : Inv s) {mo : List Int}
    (hg : s.GoodOrder mo) : Inv (SetSt.sortQuick lt s mo) :=
  (SetSt.sortWith_spec SetSt.sortQuick_perm' lt hi hg).1

theorem inv_sortMerge (lt : Int → Int → Bool) {s : SetSt} (hi : Inv s) {mo : List Int}
    (hg : s.GoodOrder mo) : Inv (SetSt.sortMerge lt s mo) :=
  (SetSt.sortWith_spec SetSt.sortMerge_perm' lt hi hg).1

/-- the map and the list of an ordered set point at each other: every list element is the one its
    item's map entry refers to -/
theorem list_entry_in_hash {s : SetSt} (hi : Inv s) {l : List (Nat × Int)} (hl : s.list = some l)
    {a : Nat} {k : Int} (h : (a, k) ∈ l) : (k, some a) ∈ s.hash := by
  have hk : k ∈ s.hash.map (·.1) := (hi.items_keys l hl k).mp (List.mem_map.mpr ⟨(a, k), h, rfl⟩)
  obtain ⟨e, he⟩ := SetSt.mem_keys_iff.mp hk
  obtain ⟨a', rfl, ha'⟩ := hi.entry_ordered l hl k e he
  have : (a', k) = (a, k) := eq_of_map_eq_of_nodup (·.2) (hi.items_nodup l hl) ha' h rfl
  cases this
  exact he

/-- the hypothesis on the map order is needed: a "map order" that misses a key makes the model of
    `forceSetupOrdered` lose it from the list -/
example : ¬ Inv (SetSt.sortQuick (fun a b => a < b) (({} : SetSt).addAll [1, 2]) [1]) := by
  intro hi
  have := SetSt.len_eq_members hi
  revert this
  decide

/-! ### 2. `Check`, `Len` -/

theorem members_nodup {s : SetSt} (hi : Inv s) : s.members.Nodup := SetSt.members_nodup hi

theorem check_iff {s : SetSt} (hi : Inv s) (k : Int) : s.check k = true ↔ k ∈ s.members :=
  SetSt.check_iff_members hi k

theorem len_eq {s : SetSt} (hi : Inv s) : s.len = s.members.length := SetSt.len_eq_members hi

/-! ### 3. `AddCheck` -/

/-- re-adding a present value changes nothing (in particular it does not move it); a new value
    goes to the end -/
theorem addCheck_spec {s : SetSt} (hi : Inv s) (k : Int) :
    (k ∈ s.members → s.addCheck k = (s, true)) ∧
    (k ∉ s.members → (s.addCheck k).2 = false ∧ (s.addCheck k).1.members = s.members ++ [k]) := by
  constructor
  · intro h
    exact SetSt.addCheck_present ((check_iff hi k).mpr h)
  · intro h
    have hc : s.check k = false := by
      cases hc : s.check k with
      | false => rfl
      | true => exact absurd ((check_iff hi k).mp hc) h
    exact SetSt.addCheck_absent_members hc

theorem addCheck_orderedness (s : SetSt) (k : Int) : (s.addCheck k).1.list.isSome = s.list.isSome :=
  SetSt.addCheck_list_isSome s k

/-! ### 4. `DeleteCheck` -/

theorem deleteCheck_spec {s : SetSt} (hi : Inv s) (k : Int) :
    (s.deleteCheck k).2 = decide (k ∈ s.members) ∧
    (s.deleteCheck k).1.members = s.members.erase k ∧
    (s.deleteCheck k).1.members = s.members.filter (· != k) ∧
    (k ∉ s.members → s.deleteCheck k = (s, false)) := by
  cases hc : s.check k with
  | true =>
    have hk : k ∈ s.members := (check_iff hi k).mp hc
    obtain ⟨h1, h2⟩ := SetSt.deleteCheck_present_members hi hc
    refine ⟨?_, ?_, h2, fun h => absurd hk h⟩
    · rw [h1]; exact (decide_eq_true hk).symm
    · rw [h2, (members_nodup hi).erase_eq_filter]
  | false =>
    have hk : k ∉ s.members := fun h => by
      have := (check_iff hi k).mpr h
      rw [hc] at this; cases this
    rw [SetSt.deleteCheck_absent hc]
    refine ⟨(decide_eq_false hk).symm, (List.erase_of_not_mem hk).symm, ?_, fun _ => rfl⟩
    rw [← (members_nodup hi).erase_eq_filter, List.erase_of_not_mem hk]

theorem deleteCheck_orderedness {s : SetSt} (hi : Inv s) (k : Int) :
    (s.deleteCheck k).1.list.isSome = s.list.isSome := SetSt.deleteCheck_list_isSome hi k

/-! ### 5. `Populate` / `Extend` / `UnmarshalJSON` -/

/-- a bulk add is the fold of the reference add; equivalently it appends the first occurrences of
    the values that were absent, in order -/
theorem addAll_spec {s : SetSt} (hi : Inv s) (ks : List Int) :
    (s.addAll ks).members = ks.foldl SetSt.refAdd s.members ∧
    (s.addAll ks).members = s.members ++ ks.eraseDups.filter (fun x => decide (x ∉ s.members)) ∧
    (s.addAll ks).members.Nodup ∧
    (∀ k, k ∈ (s.addAll ks).members ↔ k ∈ s.members ∨ k ∈ ks) ∧
    (s.addAll ks).list.isSome = s.list.isSome := by
  have h := SetSt.addAll_members hi ks
  refine ⟨h, ?_, ?_, ?_, SetSt.addAll_list_isSome s ks⟩
  · rw [h, SetSt.foldl_refAdd_eq]
  · exact members_nodup (inv_addAll hi ks)
  · intro k; rw [h]; exact SetSt.mem_foldl_refAdd

/-- the reference add, spelled out -/
theorem refAdd_eq (m : List Int) (k : Int) : SetSt.refAdd m k = if k ∈ m then m else m ++ [k] := rfl

/-- adding values that are new and distinct appends them all -/
theorem addAll_fresh {s : SetSt} (hi : Inv s) {ks : List Int} (h : (s.members ++ ks).Nodup) :
    (s.addAll ks).members = s.members ++ ks := by
  rw [SetSt.addAll_members hi, SetSt.foldl_refAdd_of_nodup h]

/-! ### 6. iteration -/

theorem iter_ordered {s : SetSt} (h : s.list.isSome) (mo : List Int) : s.iter mo = s.members := by
  obtain ⟨l, hl⟩ := Option.isSome_iff_exists.mp h
  exact SetSt.iter_ordered hl mo

theorem iter_unordered {s : SetSt} (hi : Inv s) (_h : s.list = none) {mo : List Int}
    (hg : s.GoodOrder mo) : (s.iter mo).Perm s.members ∧ (s.iter mo).Nodup := by
  have hp := SetSt.iter_perm_members hi hg
  exact ⟨hp, hp.nodup_iff.mpr (members_nodup hi)⟩

/-! ### 7. `SortQuick` / `SortMerge` -/

theorem sortQuick_spec {lt : Int → Int → Bool} (hsw : StrictWeak lt) {s : SetSt} (hi : Inv s)
    {mo : List Int} (hg : s.GoodOrder mo) :
    Inv (SetSt.sortQuick lt s mo) ∧ (SetSt.sortQuick lt s mo).list.isSome = true ∧
    (SetSt.sortQuick lt s mo).members.Perm s.members ∧
    Sorted lt (SetSt.sortQuick lt s mo).members ∧
    (∀ k, (SetSt.sortQuick lt s mo).check k = s.check k) ∧
    (SetSt.sortQuick lt s mo).len = s.len :=
  SetSt.sortWith_full SetSt.sortQuick_perm' (SetSt.sortQuick_sorted' hsw) hi hg

theorem sortMerge_spec {lt : Int → Int → Bool} (hsw : StrictWeak lt) {s : SetSt} (hi : Inv s)
    {mo : List Int} (hg : s.GoodOrder mo) :
    Inv (SetSt.sortMerge lt s mo) ∧ (SetSt.sortMerge lt s mo).list.isSome = true ∧
    (SetSt.sortMerge lt s mo).members.Perm s.members ∧
    Sorted lt (SetSt.sortMerge lt s mo).members ∧
    (∀ k, (SetSt.sortMerge lt s mo).check k = s.check k) ∧
    (SetSt.sortMerge lt s mo).len = s.len :=
  SetSt.sortWith_full SetSt.sortMerge_perm' (SetSt.sortMerge_sorted' hsw) hi hg

/-- what is sorted is what iteration yielded -/
theorem sortQuick_members (lt : Int → Int → Bool) {s : SetSt} (hi : Inv s) {mo : List Int}
    (hg : s.GoodOrder mo) :
    (SetSt.sortQuick lt s mo).members = SortSeq.sortQuick lt (s.iter mo) :=
  (SetSt.sortWith_spec SetSt.sortQuick_perm' lt hi hg).2.2.2

theorem sortMerge_members (lt : Int → Int → Bool) {s : SetSt} (hi : Inv s) {mo : List Int}
    (hg : s.GoodOrder mo) :
    (SetSt.sortMerge lt s mo).members = SortSeq.sortMerge lt (s.iter mo) :=
  (SetSt.sortWith_spec SetSt.sortMerge_perm' lt hi hg).2.2.2

/-- the two sorts agree (same map order) -/
theorem sortMerge_eq_sortQuick {lt : Int → Int → Bool} (hsw : StrictWeak lt) {s : SetSt} (hi : Inv s)
    {mo : List Int} (hg : s.GoodOrder mo) :
    (SetSt.sortMerge lt s mo).members = (SetSt.sortQuick lt s mo).members := by
  rw [sortMerge_members lt hi hg, sortQuick_members lt hi hg]
  exact C17.sortMerge_eq_sortQuick hsw _

/-- for a comparison that is total on distinct values the result is strictly ascending and does
    not depend on the order in which an unordered set's map was ranged over, nor on the sorter -/
theorem sort_strict_unique {lt : Int → Int → Bool} (hsw : StrictWeak lt) (ht : Total lt)
    {s : SetSt} (hi : Inv s) {mo mo' : List Int} (hg : s.GoodOrder mo) (hg' : s.GoodOrder mo') :
    (SetSt.sortQuick lt s mo).members.Pairwise (fun a b => lt a b = true) ∧
    (SetSt.sortQuick lt s mo').members = (SetSt.sortQuick lt s mo).members ∧
    (SetSt.sortMerge lt s mo').members = (SetSt.sortQuick lt s mo).members := by
  obtain ⟨a1, _, _, a4, _, _⟩ := sortQuick_spec hsw hi hg
  exact ⟨SetSt.sorted_strict ht a4 (members_nodup a1),
    SetSt.sortWith_unique SetSt.sortQuick_perm' SetSt.sortQuick_perm' hsw ht
      (SetSt.sortQuick_sorted' hsw) (SetSt.sortQuick_sorted' hsw) hi hg' hg,
    SetSt.sortWith_unique SetSt.sortMerge_perm' SetSt.sortQuick_perm' hsw ht
      (SetSt.sortMerge_sorted' hsw) (SetSt.sortQuick_sorted' hsw) hi hg' hg⟩

/-- sort, iterate, delete: iteration yields the sorted order, and a later `DeleteCheck` reports
    whether the value was a member and removes exactly that value from the iteration order -/
theorem order_after_sortQuick {lt : Int → Int → Bool} (hsw : StrictWeak lt) {s : SetSt} (hi : Inv s)
    {mo : List Int} (hg : s.GoodOrder mo) (mo' : List Int) (k : Int) :
    (SetSt.sortQuick lt s mo).iter mo' = (SetSt.sortQuick lt s mo).members ∧
    Sorted lt ((SetSt.sortQuick lt s mo).iter mo') ∧
    ((SetSt.sortQuick lt s mo).deleteCheck k).2 = s.check k ∧
    ((SetSt.sortQuick lt s mo).deleteCheck k).1.iter mo' = ((SetSt.sortQuick lt s mo).iter mo').erase k ∧
    Sorted lt (((SetSt.sortQuick lt s mo).deleteCheck k).1.iter mo') ∧
    (((SetSt.sortQuick lt s mo).deleteCheck k).1.iter mo').Perm (s.members.erase k) :=
  SetSt.sortWith_then_delete SetSt.sortQuick_perm' (SetSt.sortQuick_sorted' hsw) hi hg mo' k

theorem order_after_sortMerge {lt : Int → Int → Bool} (hsw : StrictWeak lt) {s : SetSt} (hi : Inv s)
    {mo : List Int} (hg : s.GoodOrder mo) (mo' : List Int) (k : Int) :
    (SetSt.sortMerge lt s mo).iter mo' = (SetSt.sortMerge lt s mo).members ∧
    Sorted lt ((SetSt.sortMerge lt s mo).iter mo') ∧
    ((SetSt.sortMerge lt s mo).deleteCheck k).2 = s.check k ∧
    ((SetSt.sortMerge lt s mo).deleteCheck k).1.iter mo' = ((SetSt.sortMerge lt s mo).iter mo').erase k ∧
    Sorted lt (((SetSt.sortMerge lt s mo).deleteCheck k).1.iter mo') ∧
    (((SetSt.sortMerge lt s mo).deleteCheck k).1.iter mo').Perm (s.members.erase k) :=
  SetSt.sortWith_then_delete SetSt.sortMerge_perm' (SetSt.sortMerge_sorted' hsw) hi hg mo' k

/-- sorting an already ordered set does not touch the map or the allocation counter -/
theorem sortQuick_ordered_hash (lt : Int → Int → Bool) {s : SetSt} (hi : Inv s) (h : s.list.isSome)
    (mo : List Int) :
    (SetSt.sortQuick lt s mo).hash = s.hash ∧
    (SetSt.sortQuick lt s mo).members = SortSeq.sortQuick lt s.members := by
  obtain ⟨l, hl⟩ := Option.isSome_iff_exists.mp h
  obtain ⟨_, h2, _, h4⟩ := SetSt.sortWith_ordered_spec SetSt.sortQuick_perm' lt hi hl mo
  exact ⟨h2, h4⟩

/-! ### 8. `Equal` -/

theorem equal_iff_ordered {s o : SetSt} (hs : Inv s) (ho : Inv o) (h1 : s.list.isSome)
    (h2 : o.list.isSome) : s.equal o = true ↔ s.members = o.members := by
  obtain ⟨a, ha⟩ := Option.isSome_iff_exists.mp h1
  obtain ⟨b, hb⟩ := Option.isSome_iff_exists.mp h2
  exact SetSt.equal_ordered hs ho ha hb

theorem equal_iff_unordered {s o : SetSt} (hs : Inv s) (ho : Inv o) (h1 : s.list = none)
    (h2 : o.list = none) : s.equal o = true ↔ ∀ k, k ∈ s.members ↔ k ∈ o.members :=
  SetSt.equal_unordered hs ho h1 h2

/-- an ordered and an unordered set are never `Equal` -/
theorem equal_mixed {s o : SetSt} (h : s.list.isSome ≠ o.list.isSome) : s.equal o = false :=
  SetSt.equal_of_isOrdered_ne h

/-- both cases in one statement -/
theorem equal_iff {s o : SetSt} (hs : Inv s) (ho : Inv o) (h : s.list.isSome = o.list.isSome) :
    s.equal o = true ↔
      if s.list.isSome then s.members = o.members else ∀ k, k ∈ s.members ↔ k ∈ o.members := by
  cases h1 : s.list.isSome with
  | true =>
    rw [if_pos rfl]
    exact equal_iff_ordered hs ho h1 (h ▸ h1)
  | false =>
    rw [if_neg (by decide)]
    have h2 : o.list.isSome = false := h ▸ h1
    exact equal_iff_unordered hs ho (by simpa using h1) (by simpa using h2)

/-! ### 9. JSON round trip -/

/-- marshalling yields `members`; unmarshalling that into a fresh ORDERED set reproduces the
    members in the same order -/
theorem json_roundtrip {s : SetSt} (hi : Inv s) :
    ((SetSt.order {}).addAll s.members).members = s.members ∧
    ((SetSt.order {}).addAll s.members).list.isSome = true ∧
    (s.list.isSome → (s.equal ((SetSt.order {}).addAll s.members) = true)) := by
  have hm : ((SetSt.order {}).addAll s.members).members = s.members := by
    have := addAll_fresh inv_order_empty (ks := s.members) (by
      show ([] ++ s.members).Nodup
      rw [List.nil_append]; exact members_nodup hi)
    rw [this]; rfl
  have ho : ((SetSt.order {}).addAll s.members).list.isSome = true := by
    rw [SetSt.addAll_list_isSome]; rfl
  exact ⟨hm, ho, fun h => (equal_iff_ordered hi (inv_addAll inv_order_empty _) h ho).mpr hm.symm⟩

/-- for an unordered set the marshalled order is the map order; unmarshalling into a fresh
    unordered set gives a set with the same members -/
theorem json_roundtrip_unordered {s : SetSt} (hi : Inv s) (h : s.list = none) {mo : List Int}
    (hg : s.GoodOrder mo) :
    (({} : SetSt).addAll (s.iter mo)).members.Perm s.members ∧
    (({} : SetSt).addAll (s.iter mo)).members = s.iter mo ∧
    s.equal (({} : SetSt).addAll (s.iter mo)) = true := by
  obtain ⟨hp, hn⟩ := iter_unordered hi h hg
  have hm : (({} : SetSt).addAll (s.iter mo)).members = s.iter mo := by
    have := addAll_fresh inv_empty (ks := s.iter mo) (by
      show ([] ++ s.iter mo).Nodup
      rw [List.nil_append]; exact hn)
    rw [this]; rfl
  have ho : (({} : SetSt).addAll (s.iter mo)).list = none := by
    have := SetSt.addAll_list_isSome {} (s.iter mo)
    simpa using this
  refine ⟨by rw [hm]; exact hp, hm, ?_⟩
  rw [equal_iff_unordered hi (inv_addAll inv_empty _) h ho]
  intro k
  rw [hm]; exact hp.mem_iff.symm

/-! ### 10. every reachable state -/

/-- `Reachable`: `{}` closed under `Order` (on a set without elements), `AddCheck`, `DeleteCheck`,
    bulk add, `SortQuick` and `SortMerge` with ANY comparison and any possible map order
    (in particular strict weak total comparisons and `ascKeys`) -/
theorem reachable_inv {s : SetSt} (h : SetSt.Reachable s) : Inv s ∧ s.members.Nodup :=
  ⟨h.inv, members_nodup h.inv⟩

/-- the map order the checks use is always available -/
theorem reachable_sortQuick_ascKeys {s : SetSt} (h : SetSt.Reachable s) (lt : Int → Int → Bool) :
    SetSt.Reachable (SetSt.sortQuick lt s s.ascKeys) :=
  .sortQuick lt _ (ascKeys_goodOrder h.inv) h

theorem reachable_sortMerge_ascKeys {s : SetSt} (h : SetSt.Reachable s) (lt : Int → Int → Bool) :
    SetSt.Reachable (SetSt.sortMerge lt s s.ascKeys) :=
  .sortMerge lt _ (ascKeys_goodOrder h.inv) h

theorem reachable_order_empty : SetSt.Reachable (SetSt.order {}) := .order .empty rfl

/-- `SetSt.demo`: add 3, add 1, add 3 again, sort ascending (map order `ascKeys`), delete 1 -/
example : SetSt.Reachable SetSt.demo :=
  .delete 1 (reachable_sortQuick_ascKeys (.add 3 (.add 1 (.add 3 .empty))) _)

example : SetSt.demo.members = [3] ∧ SetSt.demo.list.isSome = true ∧ SetSt.demo.check 3 = true ∧
    SetSt.demo.check 1 = false ∧ SetSt.demo.len = 1 ∧ SetSt.demo.iter [] = [3] := by decide

/-- the intermediate states: insertion order 3, 1; re-adding 3 reports "present" and does not move
    it; sorting gives 1, 3 -/
example :
    (((({} : SetSt).addCheck 3).1.addCheck 1).1.addCheck 3) = (((({} : SetSt).addCheck 3).1.addCheck 1).1, true) ∧
    ((({} : SetSt).addCheck 3).1.addCheck 1).1.members = [3, 1] ∧
    (SetSt.sortQuick (fun a b => a < b) ((({} : SetSt).addCheck 3).1.addCheck 1).1 [1, 3]).members = [1, 3] ∧
    (SetSt.sortQuick (fun a b => a > b) (((SetSt.order {}).addCheck 1).1.addCheck 3).1 []).members = [3, 1] := by
  decide

/-- `SortMerge` (not evaluable by `decide`: `merge` is defined by well-founded recursion) -/
example :
    (SetSt.sortMerge (fun a b => a > b) (((SetSt.order {}).addCheck 1).1.addCheck 3).1 [1, 3]).members = [3, 1] := by
  have hr : SetSt.Reachable (((SetSt.order {}).addCheck 1).1.addCheck 3).1 :=
    .add 3 (.add 1 reachable_order_empty)
  have hg : (((SetSt.order {}).addCheck 1).1.addCheck 3).1.GoodOrder [1, 3] :=
    ascKeys_goodOrder hr.inv
  rw [sortMerge_eq_sortQuick strictWeak_int_gt hr.inv hg]
  decide

end FunModel.C18
