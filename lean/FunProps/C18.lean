import FunModel.SetModel

/-! C18 — placeholder until FunProofs/SetModel.lean lands -/
namespace FunModel.C18
open FunModel.SetModel

theorem add_present_noop (s : SetSt) (k : Int) (h : s.check k = true) : s.addCheck k = (s, true) := by
  simp [SetSt.addCheck, h]

end FunModel.C18
