import FunProofs.PipeFeeder
import FunProofs.PipeFanIn
import FunProofs.PipeFanOut
import FunProofs.PipeSplit
import FunProps.C01

/-! # C04 — pipelines terminate: no stuck consumer, no leaked goroutine

Statement (properties.jsonl): every goroutine started on behalf of an iterator or worker group exits
once the consumer is done in any of the documented ways (input exhausted, Close on the output, the
context of the first advance cancelled) regardless of how many items were consumed before; a consumer
blocked in Next/ReadOne returns promptly after Close or cancellation; Close is idempotent and never
blocks; a finite input always leads to io.EOF (no deadlock).

Liveness is stated as safety (DESIGN §3), per process model of `FunModel/Pipe.lean`:
* `*_no_deadlock` — in every reachable state that is not terminal (all goroutines exited and the
  consumer's drain loop ended) some *internal* action (goroutine or consumer, not an environment
  close/cancel) is enabled: no schedule gets stuck, whatever was closed or cancelled and whenever;
* `*_no_deadlock_after_stop` — once the output was closed or its context cancelled (at any cut point:
  `close`/`cancel` are enabled in every state), as long as some goroutine is alive some *goroutine*
  action is enabled: the goroutines unwind without any help from the consumer (it may have stopped
  reading, or been abandoned after Close);
* `*_measure_decreases`, `*_schedules_finite` — a natural-number measure strictly decreases with every
  action, so every schedule is finite; with no_deadlock every maximal run ends in a terminal state:
  `*_maximal_run_terminal`, and in a failure-free run the consumer's last ReadOne is io.EOF
  (`*_allowed`: the outcome of every terminal state satisfies the decidable predicate the driver
  evaluates on the implementation's outcomes);
* `*_close_idempotent`, `*_close_never_blocks`, `*_blocked_consumer_released`.
"Promptly" is "in its next own action" — wall-clock time is not expressible.

The abandoned-Split-output case is FALSE (finding D25, open): `split_abandoned_first_output_leaks`
gives the kernel-checked schedule and proves the leak permanent. -/
namespace FunModel.C04
open FunModel.Pipe

/-! ## Feeder -/

theorem feeder_no_deadlock {c : Feeder.Cfg} {input : List Nat} {k1 k2 : Nat} {s : Feeder.St}
    (h : Feeder.Reachable c input k1 k2 s) (hnt : s.terminal = false) :
    ∃ a, a.isEnv = false ∧ (Feeder.step c s a).isSome = true :=
  Feeder.no_deadlock_internal (Feeder.reachable_inv h) hnt

theorem feeder_no_deadlock_after_stop {c : Feeder.Cfg} {input : List Nat} {k1 k2 : Nat} {s : Feeder.St}
    (h : Feeder.Reachable c input k1 k2 s) (hstop : s.closed = true ∨ s.ucancel = true) (hne : s.allExited = false) :
    ∃ a, a.isGoroutine = true ∧ (Feeder.step c s a).isSome = true :=
  Feeder.no_deadlock_stopped (Feeder.reachable_inv h) (by rcases hstop with h | h <;> simp [Feeder.St.wdone, h]) hne

theorem feeder_measure_decreases {c : Feeder.Cfg} {s s' : Feeder.St} {a : Feeder.Act}
    (hs : Feeder.step c s a = some s') : Feeder.measure s' < Feeder.measure s :=
  Feeder.measure_step hs

theorem feeder_schedules_finite {c : Feeder.Cfg} {s s' : Feeder.St} {as : List Feeder.Act}
    (hr : Feeder.run c s as = some s') : as.length ≤ Feeder.measure s := by
  have := Feeder.run_length_le as hr; omega

/-- a run that cannot be extended by an internal action has ended: all goroutines exited, drain loop over -/
theorem feeder_maximal_run_terminal {c : Feeder.Cfg} {input : List Nat} {k1 k2 : Nat} {s : Feeder.St}
    (h : Feeder.Reachable c input k1 k2 s) (hmax : ∀ a, a.isEnv = false → Feeder.step c s a = none) :
    s.terminal = true := by
  cases ht : s.terminal with
  | true => rfl
  | false =>
    obtain ⟨a, ha, hen⟩ := feeder_no_deadlock h ht
    simp [hmax a ha] at hen

/-- T-out link: the outcome of every terminal state of every schedule satisfies `allowed` -/
theorem feeder_allowed {c : Feeder.Cfg} {input : List Nat} {k1 k2 : Nat} {s : Feeder.St}
    (h : Feeder.Reachable c input k1 k2 s) (ht : s.terminal = true) :
    allowed true input (Feeder.outcome s) = true := by
  have hi := Feeder.reachable_inv h
  have hord := hi.order
  simp only [Feeder.St.terminal, Feeder.St.allExited, Bool.and_eq_true, Bool.or_eq_true, decide_eq_true_eq] at ht
  obtain ⟨⟨hfd, hw⟩, hdone⟩ := ht
  have hpre : s.got <+: input := ⟨s.pipe ++ s.fd.held ++ s.dropped ++ s.src, by simpa [List.append_assoc] using hord⟩
  have hle : countLe s.got input = true := by
    simp only [countLe, List.all_eq_true, decide_eq_true_eq]
    intro x _
    exact hpre.sublist.count_le x
  simp only [allowed, Feeder.outcome, Bool.and_eq_true, Bool.or_eq_true, Bool.not_eq_true', beq_iff_eq]
  refine ⟨⟨⟨?_, hle⟩, ?_⟩, Or.inr (List.isPrefixOf_iff_prefix.mpr hpre)⟩
  · rcases hfd with h | h <;> simp [h, hw]
  · cases he : s.envStopped with
    | true => simp
    | false =>
      right
      have hg := Feeder.terminal_got hi he hdone
      obtain ⟨_, c2, _, c4⟩ := hi.clean he
      have hwd := hi.done_wdone hdone
      have hcl : s.closed = true := by simpa [Feeder.St.wdone, c2] using hwd
      have hex := (c4 hcl).2.2
      refine ⟨by simp [hdone, hi.pclosed_iff.mpr hex], ?_⟩
      simp [countEq, hg]

theorem feeder_close_idempotent {c : Feeder.Cfg} {s s1 s2 : Feeder.St}
    (h1 : Feeder.step c s .close = some s1) (h2 : Feeder.step c s1 .close = some s2) :
    s2 = { s1 with closeBudget := s1.closeBudget - 1 } := by
  simp only [Feeder.step] at h1 h2
  split at h1 <;> cases h1
  split at h2 <;> cases h2
  rfl

/-- Close never blocks: it is enabled (and completes in one step) in every state -/
theorem feeder_close_never_blocks {c : Feeder.Cfg} {s : Feeder.St} (hb : 0 < s.closeBudget) :
    (Feeder.step c s .close).isSome = true := by
  simp [Feeder.step, hb]

/-- a consumer parked in ReadOne can return in its very next action once Close or cancellation happened -/
theorem feeder_blocked_consumer_released {c : Feeder.Cfg} {s s1 : Feeder.St} {a : Feeder.Act}
    (hp : s.cons = .parked) (ha : a = .close ∨ a = .cancel) (h1 : Feeder.step c s a = some s1) :
    ∃ s2, Feeder.step c s1 .cCtx = some s2 ∧ s2.cons = .done := by
  rcases ha with rfl | rfl <;> simp only [Feeder.step] at h1 <;> split at h1 <;> cases h1 <;>
    simp [Feeder.step, hp, Feeder.St.wdone]

/-! ## FanIn(n) -/

theorem fanin_no_deadlock {c : FanIn.Cfg} {privs : List (List Nat)} {shared : List Nat} {k1 k2 : Nat} {s : FanIn.St}
    (h : FanIn.Reachable c privs shared k1 k2 s) (hnt : s.terminal = false) :
    ∃ a, a.isEnv = false ∧ (FanIn.step c s a).isSome = true :=
  FanIn.no_deadlock_internal (FanIn.reachable_good h).inv hnt

theorem fanin_no_deadlock_after_stop {c : FanIn.Cfg} {s : FanIn.St}
    (hstop : s.closed = true ∨ s.ucancel = true) (hne : s.allExited = false) :
    ∃ a, a.isGoroutine = true ∧ (FanIn.step c s a).isSome = true :=
  FanIn.no_deadlock_stopped (by rcases hstop with h | h <;> simp [FanIn.St.wdone, h]) hne

theorem fanin_measure_decreases {c : FanIn.Cfg} {s s' : FanIn.St} {a : FanIn.Act}
    (hs : FanIn.step c s a = some s') : FanIn.measure s' < FanIn.measure s :=
  FanIn.measure_step hs

theorem fanin_schedules_finite {c : FanIn.Cfg} {s s' : FanIn.St} {as : List FanIn.Act}
    (hr : FanIn.run c s as = some s') : as.length ≤ FanIn.measure s := by
  have := FanIn.run_length_le as hr; omega

theorem fanin_maximal_run_terminal {c : FanIn.Cfg} {privs : List (List Nat)} {shared : List Nat} {k1 k2 : Nat}
    {s : FanIn.St} (h : FanIn.Reachable c privs shared k1 k2 s)
    (hmax : ∀ a, a.isEnv = false → FanIn.step c s a = none) : s.terminal = true := by
  cases ht : s.terminal with
  | true => rfl
  | false =>
    obtain ⟨a, ha, hen⟩ := fanin_no_deadlock h ht
    simp [hmax a ha] at hen


/-- T-out link for FanIn: the outcome of every terminal state of every schedule (failure-free or
    stopped at any point) satisfies `allowed`; the order clause applies to a single producer -/
theorem fanin_allowed {c : FanIn.Cfg} {privs : List (List Nat)} {shared : List Nat} {k1 k2 : Nat} {s : FanIn.St}
    (hn : 0 < privs.length) (h : FanIn.Reachable c privs shared k1 k2 s) (ht : s.terminal = true) :
    allowed (decide (privs.length = 1)) (privs.flatten ++ shared) (FanIn.outcome c s) = true := by
  have hg := FanIn.reachable_good h
  have hle : countLe s.got (privs.flatten ++ shared) = true := by
    simp only [countLe, List.all_eq_true, decide_eq_true_eq]
    intro x _
    exact C01.fanin_no_invention h x
  have hleak : (FanIn.outcome c s).leaked = 0 := FanIn.terminal_noleak ht
  have hle' : countLe (FanIn.outcome c s).delivered (privs.flatten ++ shared) = true := hle
  unfold allowed
  simp only [Bool.and_eq_true, Bool.or_eq_true, Bool.not_eq_true', beq_iff_eq]
  refine ⟨⟨⟨hleak, hle'⟩, ?_⟩, ?_⟩
  all_goals simp only [FanIn.outcome]
  · cases he : s.envStopped with
    | true => simp
    | false =>
     cases hv : c.invalid with
     | true => simp
     | false =>
      right
      have hp := C01.fanin_terminal_multiset_eq hn hv h he ht
      have hi := hg.inv
      simp only [FanIn.St.terminal, FanIn.St.allExited, Bool.and_eq_true, Bool.or_eq_true, decide_eq_true_eq, Bool.not_eq_true'] at ht
      obtain ⟨_, hdone⟩ := ht
      obtain ⟨_, c2, _, _, c5⟩ := hg.clean hv he
      have hwd := hi.done_wdone hdone
      have hcl : s.closed = true := by simpa [FanIn.St.wdone, c2] using hwd
      have hk := (c5 hcl).2.2
      refine ⟨by simp [hdone, hi.kst_pclosed hk], ?_⟩
      simp only [countEq, List.all_eq_true, beq_iff_eq]
      intro x _
      exact hp.count_eq x
  · cases hl : decide (privs.length = 1) with
    | false => simp
    | true =>
      right
      simp at hl
      match privs, hl with
      | [l], _ =>
        have := (C01.fanin_single_producer_order h).1
        simp only [List.flatten_cons, List.flatten_nil, List.append_nil]
        exact List.isPrefixOf_iff_prefix.mpr ⟨_, by simpa [List.append_assoc] using this⟩

theorem fanin_close_idempotent {c : FanIn.Cfg} {s s1 s2 : FanIn.St}
    (h1 : FanIn.step c s .close = some s1) (h2 : FanIn.step c s1 .close = some s2) :
    s2 = { s1 with closeBudget := s1.closeBudget - 1 } := by
  simp only [FanIn.step] at h1 h2
  split at h1 <;> cases h1
  split at h2 <;> cases h2
  rfl

theorem fanin_close_never_blocks {c : FanIn.Cfg} {s : FanIn.St} (hb : 0 < s.closeBudget) :
    (FanIn.step c s .close).isSome = true := by
  simp [FanIn.step, hb]

theorem fanin_blocked_consumer_released {c : FanIn.Cfg} {s s1 : FanIn.St} {a : FanIn.Act}
    (hp : s.cons = .parked) (ha : a = .close ∨ a = .cancel) (h1 : FanIn.step c s a = some s1) :
    ∃ s2, FanIn.step c s1 .cCtx = some s2 ∧ s2.cons = .done := by
  rcases ha with rfl | rfl <;> simp only [FanIn.step] at h1 <;> split at h1 <;> cases h1 <;>
    simp [FanIn.step, hp, FanIn.St.wdone]

/-! ## FanOut(n) -/

theorem fanout_no_deadlock {c : FanOut.Cfg} {input : List Nat} {k1 k2 : Nat} {s : FanOut.St}
    (hwf : c.wf) (h : FanOut.Reachable c input k1 k2 s) (hnt : s.terminal c = false) :
    ∃ a, a.isEnv = false ∧ (FanOut.step c s a).isSome = true :=
  FanOut.no_deadlock_internal (FanOut.reachable_good h).inv hwf hnt

theorem fanout_no_deadlock_after_stop {c : FanOut.Cfg} {input : List Nat} {k1 k2 : Nat} {s : FanOut.St}
    (hwf : c.wf) (h : FanOut.Reachable c input k1 k2 s) (hstop : s.closed = true ∨ s.ucancel = true)
    (hne : s.allExited c = false) : ∃ a, a.isGoroutine = true ∧ (FanOut.step c s a).isSome = true :=
  FanOut.no_deadlock_stopped (FanOut.reachable_good h).inv hwf
    (by rcases hstop with h | h <;> simp [FanOut.St.wdone, h]) hne

theorem fanout_measure_decreases {c : FanOut.Cfg} {s s' : FanOut.St} {a : FanOut.Act}
    (hs : FanOut.step c s a = some s') : FanOut.measure s' < FanOut.measure s :=
  FanOut.measure_step hs

theorem fanout_schedules_finite {c : FanOut.Cfg} {s s' : FanOut.St} {as : List FanOut.Act}
    (hr : FanOut.run c s as = some s') : as.length ≤ FanOut.measure s := by
  have := FanOut.run_length_le as hr; omega

theorem fanout_maximal_run_terminal {c : FanOut.Cfg} {input : List Nat} {k1 k2 : Nat} {s : FanOut.St}
    (hwf : c.wf) (h : FanOut.Reachable c input k1 k2 s)
    (hmax : ∀ a, a.isEnv = false → FanOut.step c s a = none) : s.terminal c = true := by
  cases ht : s.terminal c with
  | true => rfl
  | false =>
    obtain ⟨a, ha, hen⟩ := fanout_no_deadlock hwf h ht
    simp [hmax a ha] at hen


/-- T-out link for FanOut: the outcome of every terminal state of every schedule satisfies `allowed`;
    the order clause applies to a single worker -/
theorem fanout_allowed {c : FanOut.Cfg} {input : List Nat} {k1 k2 : Nat} {s : FanOut.St}
    (hwf : c.wf) (h : FanOut.Reachable c input k1 k2 s) (ht : s.terminal c = true) :
    allowed (decide (c.n = 1)) input (FanOut.outcome c s) = true := by
  have hg := FanOut.reachable_good h
  have hle : countLe (s.got ++ s.seen) input = true := by
    simp only [countLe, List.all_eq_true, decide_eq_true_eq]
    intro x _
    exact C01.fanout_no_invention h x
  have hleak : (FanOut.outcome c s).leaked = 0 := FanOut.terminal_noleak ht
  have hle' : countLe (FanOut.outcome c s).delivered input = true := hle
  unfold allowed
  simp only [Bool.and_eq_true, Bool.or_eq_true, Bool.not_eq_true', beq_iff_eq]
  refine ⟨⟨⟨hleak, hle'⟩, ?_⟩, ?_⟩
  all_goals simp only [FanOut.outcome]
  · cases he : s.envStopped with
    | true => simp
    | false =>
     cases hv : c.invalid with
     | true => simp
     | false =>
      right
      have hp := C01.fanout_terminal_multiset_eq hwf hv h he ht
      obtain ⟨hdone, heof⟩ := FanOut.terminal_eof hg hwf hv he ht
      refine ⟨by simp [hdone, heof], ?_⟩
      simp only [countEq, List.all_eq_true, beq_iff_eq]
      intro x _
      exact hp.count_eq x
  · cases hl : decide (c.n = 1) with
    | false => simp
    | true =>
      right
      simp at hl
      have := (C01.fanout_single_worker_order h hl).1
      exact List.isPrefixOf_iff_prefix.mpr ⟨_, by simpa [List.append_assoc] using this⟩

theorem fanout_close_idempotent {c : FanOut.Cfg} {s s1 s2 : FanOut.St}
    (h1 : FanOut.step c s .close = some s1) (h2 : FanOut.step c s1 .close = some s2) :
    s2 = { s1 with closeBudget := s1.closeBudget - 1 } := by
  simp only [FanOut.step] at h1 h2
  split at h1 <;> cases h1
  split at h2 <;> cases h2
  rfl

theorem fanout_close_never_blocks {c : FanOut.Cfg} {s : FanOut.St} (hb : 0 < s.closeBudget) :
    (FanOut.step c s .close).isSome = true := by
  simp [FanOut.step, hb]

theorem fanout_blocked_consumer_released {c : FanOut.Cfg} {s s1 : FanOut.St} {a : FanOut.Act}
    (hp : s.cons = .parked) (ha : a = .close ∨ a = .cancel) (h1 : FanOut.step c s a = some s1) :
    ∃ s2, FanOut.step c s1 .cCtx = some s2 ∧ s2.cons = .done := by
  rcases ha with rfl | rfl <;> simp only [FanOut.step] at h1 <;> split at h1 <;> cases h1 <;>
    simp [FanOut.step, hp, FanOut.St.wdone]

/-! ## Rejected option sets (`Cfg.invalid`)

A constructor given options the library rejects still hands out an iterator / worker. `init` of the
models describes what each really does (table in `FunModel/Pipe.lean`): Map and GenerateParallel
close their output channel at construction (and still start their goroutines on the first advance),
ProcessParallel cancels its own context before it starts the workers. Termination and absence of
leaks for these configurations are the *general* theorems above (`fanout_no_deadlock`,
`fanout_no_deadlock_after_stop`, `*_measure_decreases`, `*_maximal_run_terminal`, `*_allowed`, and the
FanIn ones): they hold for every `Cfg`, `invalid` included. What is specific to the path: -/

/-- FanOut with rejected options: nothing is ever delivered, in any reachable state of any schedule -/
theorem fanout_invalid_nothing_delivered {c : FanOut.Cfg} {input : List Nat} {k1 k2 : Nat} {s : FanOut.St}
    (hwf : c.wf) (hv : c.invalid = true) (h : FanOut.Reachable c input k1 k2 s) : s.got ++ s.seen = [] := by
  have hi := (FanOut.reachable_good h).inv
  cases ho : c.hasOut with
  | true => simp [(hi.invalid_out hv ho).2.1, hi.hasout ho]
  | false => simp [(hi.noout ho).2.1, (hi.invalid_noout hv ho).2.2.2.1]

/-- … and the consumer of the output reaches io.EOF at once: whenever it is parked in ReadOne its `cEof`
    action is enabled (the output is closed and empty), and that ends its drain loop -/
theorem fanout_invalid_eof_at_once {c : FanOut.Cfg} {input : List Nat} {k1 k2 : Nat} {s : FanOut.St}
    (hv : c.invalid = true) (ho : c.hasOut = true) (h : FanOut.Reachable c input k1 k2 s) (hp : s.cons = .parked) :
    ∃ s', FanOut.step c s .cEof = some s' ∧ s'.cons = .done := by
  obtain ⟨i1, _, i3⟩ := (FanOut.reachable_good h).inv.invalid_out hv ho
  simp [FanOut.step, hp, i1, i3]

/-- … without an output (ProcessParallel): no worker ever advances its split output, the reader goroutine
    is never started and no item reaches the user function -/
theorem fanout_invalid_no_worker_advances {c : FanOut.Cfg} {input : List Nat} {k1 k2 : Nat} {s : FanOut.St}
    (hv : c.invalid = true) (ho : c.hasOut = false) (h : FanOut.Reachable c input k1 k2 s) :
    s.rd = .notStarted ∧ s.idle = 0 ∧ s.hold = [] ∧ s.seen = [] ∧ s.src = input := by
  have hg := FanOut.reachable_good h
  obtain ⟨_, i2, i3, i4, i5⟩ := hg.inv.invalid_noout hv ho
  exact ⟨i5, i2, i3, i4, hg.inv.src_untouched i5⟩

/-- FanIn with rejected options: nothing is ever delivered -/
theorem fanin_invalid_nothing_delivered {c : FanIn.Cfg} {privs : List (List Nat)} {shared : List Nat} {k1 k2 : Nat}
    {s : FanIn.St} (hv : c.invalid = true) (h : FanIn.Reachable c privs shared k1 k2 s) : s.got = [] :=
  ((FanIn.reachable_good h).inv.invalid_closed hv).2.1

theorem fanin_invalid_eof_at_once {c : FanIn.Cfg} {privs : List (List Nat)} {shared : List Nat} {k1 k2 : Nat}
    {s : FanIn.St} (hv : c.invalid = true) (h : FanIn.Reachable c privs shared k1 k2 s) (hp : s.cons = .parked) :
    ∃ s', FanIn.step c s .cEof = some s' ∧ s'.cons = .done := by
  obtain ⟨i1, _, i3⟩ := (FanIn.reachable_good h).inv.invalid_closed hv
  simp [FanIn.step, hp, i1, i3]

/-! ## Split with per-output contexts: finding D25 -/

/-- EXPECTED-FALSE part of C04, as a kernel-checked counter-example: Split(2) over 1 2 3; output 0 is
    advanced first, both outputs take one item, output 1 is closed, output 0 is abandoned. The
    schedule reaches a state in which the reader goroutine is alive, none of its actions is enabled,
    and this stays so under *every* continuation that does not touch output 0 and does not cancel
    the caller's context: the goroutine is leaked. -/
theorem split_abandoned_first_output_leaks :
    Split.run (Split.init [1, 2, 3] 2) Split.leakSchedule = some Split.leakState ∧
    ∀ as s', (∀ a ∈ as, a.touches 0 = false ∧ a ≠ .cancel) → Split.run Split.leakState as = some s' →
      s'.rd = .running (some 3) ∧ s'.readerStuck = true := by
  refine ⟨Split.leak_reached, fun as s' hall hr => ?_⟩
  have hl := Split.leaked_run as Split.leaked_leakState hall hr
  exact ⟨hl.1, Split.leaked_stuck hl⟩

/-- the reader is released as soon as the output that was advanced first is closed (or the caller's
    context cancelled): its `rCtx` action is enabled -/
theorem split_reader_released_by_first_output {s : Split.St} {h : Option Nat} {i : Nat}
    (hrd : s.rd = .running h) (hctx : s.rdCtx = some i) (hdone : s.ctxDone i = true) :
    (Split.step s .rCtx).isSome = true := by
  simp [Split.step, hrd, Split.St.rdDone, hctx, hdone]

/-- `setup_once` with per-output contexts: one reader goroutine, started by the first advance under
    that output's context, whatever the schedule -/
theorem split_setup_once {input : List Nat} {n : Nat} {as : List Split.Act} {s : Split.St}
    (hr : Split.run (Split.init input n) as = some s) :
    (s.rd = .notStarted ∧ s.spawned = 0 ∧ s.rdCtx = none) ∨ (s.rd ≠ .notStarted ∧ s.spawned = 1 ∧ s.rdCtx ≠ none) :=
  Split.once_run as (Or.inl ⟨rfl, rfl, rfl⟩) hr

/-! ## Non-vacuity -/

/-- Buffer(1) over 1 2 3: Close after one item while the feeder is blocked sending; the run ends
    with every goroutine (feeder and the once.Do waiter) exited -/
example :
    let c : Feeder.Cfg := { cap := 1, onceGo := true, srcChecksCtx := true, eager := false }
    ∃ s, Feeder.run c (Feeder.init c [1, 2, 3] 2 0)
      [.cStart, .fRead, .fHandoff, .fRead, .fSend, .fRead, .cStart, .close, .close, .cCtx, .fCtx, .wExit] = some s ∧
      s.terminal = true ∧ s.got = [1] ∧ s.dropped = [3] ∧ s.pipe = [2] := by
  refine ⟨_, rfl, ?_, ?_, ?_, ?_⟩ <;> decide

/-- Map with 2 workers over 1 2 3, cancelled while one worker is blocked sending and the consumer
    is parked: a non-terminal stopped state (the hypotheses of `fanout_no_deadlock_after_stop`) -/
example :
    let c : FanOut.Cfg := { n := 2, hasOut := true, outCap := 0, hasCloser := true, closerCtx := true, onceGo := false, lazy := true, workerCancels := true }
    ∃ s, FanOut.run c (FanOut.init c [1, 2, 3] 0 1) [.cStart, .wAdvance, .wAdvance, .rRead, .rHandoff, .rRead, .cancel] = some s ∧
      s.ucancel = true ∧ s.allExited c = false ∧ s.cons = .parked ∧ c.wf := by
  refine ⟨_, rfl, ?_, ?_, ?_, ?_⟩ <;> decide

/-- Map with 2 workers over 1 2 with a rejected option set: the output is closed from the start; a worker
    still takes an item, meets the closed output (`wSendClosed`, which cancels the group) and everything
    unwinds; the consumer saw io.EOF at its first ReadOne and received nothing -/
example :
    let c : FanOut.Cfg := { n := 2, hasOut := true, outCap := 0, hasCloser := true, closerCtx := true, onceGo := false,
                            lazy := true, workerCancels := true, invalid := true }
    ∃ s, FanOut.run c (FanOut.init c [1, 2] 0 0)
      [.cStart, .wAdvance, .rRead, .rHandoff, .cEof, .wSendClosed 0, .wCtxFresh, .rCtx, .kCancel, .kClose] = some s ∧
      s.terminal c = true ∧ s.got = [] ∧ s.droppedW = [1] ∧ s.envStopped = false ∧ c.wf := by
  refine ⟨_, rfl, ?_, ?_, ?_, ?_, ?_⟩ <;> decide

end FunModel.C04
