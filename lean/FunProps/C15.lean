import FunModel.Wrap

/-! C15 — property theorems (under construction) -/
namespace FunModel.C15
open FunModel.Wrap

theorem join_nil : join [] = [] := rfl

end FunModel.C15
