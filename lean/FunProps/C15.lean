import FunProofs.Wrap
import FunProofs.WrapConc

/-! C15 — function wrappers keep their execution-count, exclusion and waiting contracts.

    Concurrent contracts are theorems about every reachable state of the small-step machines of
    `FunModel/WrapConc.lean` (any number of callers, any script of outcomes, any schedule);
    sequential contracts are theorems about the call-stream semantics of `FunModel/Wrap.lean`,
    generic in the wrapped function (`logged f` records what the wrapper asked of `f`). -/
namespace FunModel.C15
open FunModel.Wrap FunModel.WrapConc

/-! ## Once — under contention -/

/-- However many callers and whatever the schedule, a Once-wrapped function is begun at most once,
    and as soon as any caller has returned it has been executed exactly once and that execution has ended. -/
theorem once_exactly_one_exec (k : Kind) (callers : Nat) (script : List Step) (s : OnceS)
    (h : onceM.Reachable (onceInit k callers script) s) :
    s.execs ≤ 1 ∧ (s.rets ≠ [] → s.execs = 1 ∧ s.finished = 1) := by
  obtain ⟨_, _, h0 | h1 | ⟨v, e, h2⟩ | ⟨p, h3⟩ | h4⟩ := onceInv_reachable k callers script s h
  · exact ⟨by omega, fun hne => absurd h0.2.2.2.2.2.2.2.1 hne⟩
  · exact ⟨by omega, fun hne => absurd h1.2.2.2.2.2.2.1 hne⟩
  · exact ⟨by omega, fun hne => absurd h2.2.2.2.2.2.2.1 hne⟩
  · exact ⟨by omega, fun hne => absurd h3.2.2.2.2.2.2.1 hne⟩
  · exact ⟨by omega, fun _ => ⟨h4.2.2.2.1, h4.2.2.2.2.1⟩⟩

/-- No caller of a Once-wrapped function returns before the single execution has finished: every
    return record was made when exactly one execution had ended. -/
theorem once_no_return_before_done (k : Kind) (callers : Nat) (script : List Step) (s : OnceS)
    (h : onceM.Reachable (onceInit k callers script) s) : ∀ r ∈ s.rets, r.fin = 1 := by
  intro r hr
  obtain ⟨_, _, h0 | h1 | ⟨v, e, h2⟩ | ⟨p, h3⟩ | h4⟩ := onceInv_reachable k callers script s h
  · rw [h0.2.2.2.2.2.2.2.1] at hr; cases hr
  · rw [h1.2.2.2.2.2.2.1] at hr; cases hr
  · rw [h2.2.2.2.2.2.2.1] at hr; cases hr
  · rw [h3.2.2.2.2.2.2.1] at hr; cases hr
  · exact (h4.2.2.2.2.2.2 r hr).1

/-- All callers observe the result of the single execution (as far as the function type can carry
    it); if that execution panicked, the caller that ran it sees the panic and the others the zero
    value, which is what `sync.Once` does. -/
theorem once_same_result (k : Kind) (callers : Nat) (script : List Step) (s : OnceS)
    (h : onceM.Reachable (onceInit k callers script) s) :
    ∀ r ∈ s.rets, r.res = onceExpected k (firstOutcome k script) ∨
      ∃ p, firstOutcome k script = .panic p ∧ r.res = .panic p := by
  intro r hr
  obtain ⟨_, _, h0 | h1 | ⟨v, e, h2⟩ | ⟨p, h3⟩ | h4⟩ := onceInv_reachable k callers script s h
  · rw [h0.2.2.2.2.2.2.2.1] at hr; cases hr
  · rw [h1.2.2.2.2.2.2.1] at hr; cases hr
  · rw [h2.2.2.2.2.2.2.1] at hr; cases hr
  · rw [h3.2.2.2.2.2.2.1] at hr; cases hr
  · exact (h4.2.2.2.2.2.2 r hr).2

/-- Nobody is left behind: as long as some caller has not returned, some action is enabled. -/
theorem once_never_stuck (k : Kind) (callers : Nat) (script : List Step) (s : OnceS)
    (h : onceM.Reachable (onceInit k callers script) s) (hlt : s.rets.length < callers) :
    ∃ a, (onceStep s a).isSome = true := by
  obtain ⟨_, hc, h0 | h1 | ⟨v, e, h2⟩ | ⟨p, h3⟩ | h4⟩ := onceInv_reachable k callers script s h
  · obtain ⟨hst, hru, hfi, _, _, hbl, haf, hre, _⟩ := h0
    have : s.idle ≠ 0 := by simp [hru, hre, hbl, haf] at hc; simp [hre] at hlt; omega
    exact ⟨.enter, by simp [onceStep, this, hfi, hst]⟩
  · exact ⟨.fnEnd, by
      simp only [onceStep, h1.2.1]
      rcases popStep s.script with ⟨st, rest⟩
      cases s.k.proj st.res <;> simp⟩
  · exact ⟨.exit, by simp [onceStep, h2.2.1]⟩
  · exact ⟨.exit, by simp [onceStep, h3.2.1]⟩
  · obtain ⟨_, hru, hfi, _⟩ := h4
    simp only [hru, if_true] at hc
    by_cases ha : s.after > 0
    · exact ⟨.ret, by simp [onceStep, ha]⟩
    · by_cases hb : s.blocked > 0
      · exact ⟨.wake, by simp [onceStep, hb, hfi]⟩
      · have : s.idle ≠ 0 := by omega
        exact ⟨.enter, by simp [onceStep, this, hfi]⟩

/-- non-vacuity: 3 callers; one runs the function, one is blocked inside Do, then all return -/
example : (onceM.run (onceInit .worker 3 [{ res := .ret 0 [.user 1] }])
    [.enter, .enter, .fnEnd, .exit, .enter, .wake, .ret, .ret, .ret]).map (fun s => (s.rets.map (·.res), s.execs))
    = some ([.ret 0 [.user 1], .ret 0 [.user 1], .ret 0 [.user 1]], 1) := by decide

/-! ## Limit — `limitExec` under contention -/

/-- `limitExec(n)`: in every schedule never more than n executions complete, and when all callers
    have returned exactly `min n (calls − panicking executions)` have — `min n calls` when the
    function does not panic. The lock-free fast path is part of the machine. -/
theorem limit_exec_count (k : Kind) (n callers : Nat) (script : List Step) (hn : 0 < n) (s : LimS)
    (h : limM.Reachable (limInit k n callers script) s) :
    s.finished ≤ n ∧ s.execs ≤ s.finished + s.panics + 1 ∧
    (s.terminal → s.finished = min n (callers - s.panics) ∧ s.execs = s.finished + s.panics) := by
  obtain ⟨_, hnn, hle, _, hfc, _, _, hho, hex, hfo, hpa, hrc, hrl, hcnt, _⟩ := limInv_reachable k n callers script hn s h
  have hps : s.finished ≤ n := by
    revert hho hfc; unfold holderOK pendStore
    cases hh : s.holder with
    | none => simp; omega
    | some pc => cases pc <;> simp <;> omega
  refine ⟨hps, ?_, ?_⟩
  · revert hex; unfold insideFn
    cases hh : s.holder with
    | none => simp; omega
    | some pc => cases pc <;> simp <;> omega
  · intro ⟨hi, hw, hf, hh⟩
    simp only [hh, pendStore, pendOwn, insideFn, pendPanic, holds] at hfc hex hfo hpa hcnt
    refine ⟨?_, by omega⟩
    by_cases hc : s.retCached > 0
    · have := hrc hc; omega
    · omega

/-- `limitExec(n)`: a caller that executed the function returns its own execution's result; a caller
    that did not (fast path, or slow path with the counter already at n) returns only when n
    executions have completed, and returns the result of the latest (n-th) of them — never a stale
    or zero value. (A caller whose own execution panicked sees the panic.) -/
theorem limit_result_is_last (k : Kind) (n callers : Nat) (script : List Step) (hn : 0 < n) (s : LimS)
    (h : limM.Reachable (limInit k n callers script) s) :
    ∀ r ∈ s.rets, (∀ x, r.own = some x → r.res = x) ∧
      (r.own = none → (∃ p, r.res = .panic p) ∨ (r.fin = n ∧ s.hist.length = n ∧ s.hist.head? = some r.res)) := by
  obtain ⟨_, hnn, _, _, _, _, _, _, _, _, _, _, _, _, hrets⟩ := limInv_reachable k n callers script hn s h
  intro r hr
  have := hrets r hr
  simpa [retOK, hnn] using this

/-- non-vacuity: n = 2, 3 callers, results 1, 2: the third caller takes the fast path and gets 2 -/
example : (limM.run (limInit .future 2 3 [{ res := .ret 1 [] }, { res := .ret 2 [] }])
    [.fast, .lock, .load, .fnEnd, .assign, .store, .unlock, .fast, .lock, .load, .fnEnd, .assign, .store, .unlock,
     .fast, .readFast]).map (fun s => (s.rets.map (·.res), s.execs))
    = some ([.ret 2 [], .ret 2 [], .ret 1 []], 2) := by decide

/-! ## Operation.Limit — the CAS loop -/

/-- `Operation.Limit(n)`: the condition answers true at most n times in every schedule, and exactly
    `min n calls` times once every caller has returned. -/
theorem limit_true_count (n callers : Nat) (script : List Step) (s : OLS)
    (h : olM.Reachable (olInit n callers script) s) :
    s.execs ≤ n ∧ (s.terminal → s.execs = min n callers) := by
  obtain ⟨hn, hle, _, hec, hef, hfr, hsk, hcnt⟩ := olInv_reachable n callers script s h
  refine ⟨by omega, ?_⟩
  intro ⟨hi, hl, hf⟩
  simp only [hl, List.length_nil] at hcnt
  by_cases hs : s.retSkip > 0
  · have := hsk hs; omega
  · omega

example : (olM.run (olInit 1 2 []) [.load, .load, .cas 0, .cas 0, .load, .fnEnd]).map
    (fun s => (s.execs, s.retExec, s.retSkip)) = some (1, 1, 1) := by decide

/-! ## Lock / WithLock -/

/-- Two executions of a Lock-ed function never overlap: at most one caller is inside the function
    in every reachable state (and the high-water mark never exceeded one). -/
theorem no_two_executions_overlap (k : Kind) (callers : Nat) (script : List Step) (s : LkS)
    (h : lkM.Reachable (lkInit k callers script) s) : s.active ≤ 1 ∧ s.maxActive ≤ 1 := by
  obtain ⟨hl, hm, _, _⟩ := lkInv_reachable k callers script s h
  refine ⟨?_, hm⟩
  cases hlk : s.locked <;> simp [hlk] at hl <;> omega

example : (lkM.run (lkInit .worker 2 []) [.lock, .begin, .fnEnd, .unlock, .lock, .begin]).map
    (fun s => (s.active, s.execs, s.rets.length)) = some (1, 2, 1) := by decide

/-! ## Launch / Signal / Background / StartGroup -/

/-- A waiter obtained from Operation.Signal / Operation.Launch (as repaired) / Worker.Signal /
    Worker.Launch / Worker.Background / Producer.Background / Processor.Background does not return
    before the background execution has finished. -/
theorem waiter_not_before_done (worker : Bool) (waiters : Nat) (script : List Step) (s : BgS)
    (h : bgM.Reachable (bgInit worker false waiters script) s) : ∀ r ∈ s.rets, r.done = true :=
  bgInv_reachable worker waiters script s h

/-- A waiter on a StartGroup (wg.Wait / the Worker returned by Worker.StartGroup) does not return
    before all n background executions have finished. -/
theorem waiter_not_before_done_group (n waiters : Nat) (script : List Step) (s : SgS)
    (h : sgM.Reachable (sgInit n waiters script) s) : ∀ r ∈ s.rets, r.fin = n := by
  obtain ⟨_, _, h3⟩ := sgInv_reachable n waiters script s h
  have hn : s.n = n := by
    have : s.n = n ∧ True := by
      refine Machine.inv_reachable sgM (fun s => s.n = n ∧ True) _ ⟨rfl, trivial⟩ ?_ s h
      intro s a s' ⟨hP, _⟩ hs
      refine ⟨?_, trivial⟩
      have hs' : sgStep s a = some s' := hs
      cases a <;> simp only [sgStep] at hs' <;> (repeat' split at hs') <;>
        first | (cases hs'; exact hP) | (simp at hs')
    exact this.1
  intro r hr
  rw [← hn]; exact h3 r hr

/-- A waiter on `Producer.Launch` does not return before the execution whose value it carries has
    finished: the (i+1)-th waiter to be served returns only when at least i+1 background executions
    have ended (the one that ended the stream, for a waiter that gets io.EOF). -/
theorem waiter_not_before_done_producer (waiters : Nat) (script : List Step) (s : PlS)
    (h : plM.Reachable (plInit waiters script) s) : ∀ r ∈ s.rets, r.idx + 1 ≤ r.fin :=
  (plInv_reachable waiters script s h).2

example : (plM.run (plInit 2 [{ res := .ret 1 [] }, { res := .ret 0 [.user 1] }]) [.fnEnd, .recv, .fnEnd, .recvClosed]).map
    (fun s => s.rets.map (fun r => (r.res, r.idx, r.fin))) = some [(.ret 0 [.user 1, .eof], 1, 2), (.ret 1 [], 0, 1)] := by
  decide

example : (bgM.run (bgInit true false 2 [{ res := .ret 0 [.user 1] }]) [.begin, .fnEnd, .send, .close, .waitRet]).map
    (fun s => s.rets.map (·.res)) = some [.zero, .ret 0 [.user 1]] := by decide

/-- kernel-checked witness of defect D9: the waiter of the *unrepaired* `Operation.Launch`
    (`func(ctx) { WaitChannel(sig) }`, which drops the operation it builds) returns while the
    background operation is still running. -/
example : (bgM.run (bgInit false true 1 []) [.begin, .waitRet]).map (fun s => s.rets.map (·.done)) = some [false] := by
  decide

example : (sgM.run (sgInit 2 1 []) [.begin, .begin, .fnEnd, .done, .fnEnd, .done, .waitRet]).map
    (fun s => s.rets.map (·.fin)) = some [2] := by decide

/-! ## the outcome predicates evaluated by the driver on the implementation's observations (T-out)

    An observation lists, for each quiescent point of the real run, (callers returned, executions
    inside the function), then the results, the invocation count and the concurrency high-water
    mark. Each theorem says: the pair read off *any* reachable state of the model passes the
    per-point test of `allowed…`, and the final part read off any terminal state passes the final
    test. So an observation the predicate rejects cannot come from any schedule of the model. -/

theorem once_observation_allowed (k : Kind) (callers : Nat) (script : List Step) (s : OnceS)
    (h : onceM.Reachable (onceInit k callers script) s) :
    oncePhaseOK (s.rets.length, if s.runner = .inFn then 1 else 0) = true ∧
    (s.rets.length = callers → onceFinalOK k callers script (s.rets.map (·.res)) s.execs = true) := by
  have hex := once_exactly_one_exec k callers script s h
  have hsame := once_same_result k callers script s h
  constructor
  · obtain ⟨_, _, h0 | h1 | ⟨v, e, h2⟩ | ⟨p, h3⟩ | h4⟩ := onceInv_reachable k callers script s h
    · simp [oncePhaseOK, h0.2.1]
    · simp [oncePhaseOK, h1.2.1, h1.2.2.2.2.2.2.1]
    · simp [oncePhaseOK, h2.2.1]
    · simp [oncePhaseOK, h3.2.1]
    · simp [oncePhaseOK, h4.2.1]
  · intro hall
    simp only [onceFinalOK, List.length_map, hall, beq_self_eq_true, Bool.true_and, Bool.and_eq_true, decide_eq_true_eq,
      Bool.or_eq_true, beq_iff_eq, List.all_eq_true, List.mem_map, forall_exists_index, and_imp]
    refine ⟨⟨hex.1, ?_⟩, ?_⟩
    · by_cases hc : callers = 0
      · exact Or.inl hc
      · refine Or.inr (hex.2 ?_).1
        intro hnil; rw [hnil] at hall; simp at hall; omega
    · intro x r hr hx
      subst hx
      rcases hsame r hr with hs | ⟨p, hp, hs⟩
      · left; rw [hs]; unfold onceExpected firstOutcome; cases k.proj (popStep script).1.res <;> rfl
      · right; unfold firstOutcome at hp; rw [hp, hs]; simp [isPanicB]

theorem limit_observation_allowed (k : Kind) (n callers : Nat) (script : List Step) (hn : 0 < n) (s : LimS)
    (h : limM.Reachable (limInit k n callers script) s) :
    limPhaseOK (s.finished + s.panics) (s.rets.length, insideFn s.holder) = true ∧
    (s.terminal → limFinalOK n callers (s.rets.map (·.res)) s.execs = true) := by
  have hcount := limit_exec_count k n callers script hn s h
  obtain ⟨_, _, hp3⟩ := limInv2_reachable k n callers script s h
  obtain ⟨_, hnn, hle, _, hfc, _, _, hho, hex, hfo, hpa, hrc, hrl, hcnt, _⟩ := limInv_reachable k n callers script hn s h
  constructor
  · simp only [limPhaseOK, Bool.and_eq_true, decide_eq_true_eq, Bool.or_eq_true, beq_iff_eq]
    cases hh : s.holder with
    | none => simp [insideFn]
    | some pc =>
      cases pc with
      | inFn num =>
        simp only [insideFn, Nat.le_refl, true_and]
        right
        have hlt : s.counter < s.n := by
          have : num = s.counter ∧ s.counter < s.n := by simpa [holderOK, hh] using hho
          exact this.2
        simp only [hh, pendOwn, pendPanic] at hfo hpa
        have : s.retCached = 0 := by
          cases hc : s.retCached with
          | zero => rfl
          | succ m => have := hrc (by omega); omega
        omega
      | _ => simp [insideFn]
  · intro hterm
    obtain ⟨hfin, hexe⟩ := hcount.2.2 hterm
    obtain ⟨hi, hw, hf, hh⟩ := hterm
    simp only [hh, pendPanic, holds] at hpa hcnt
    have hnp : (List.filter isPanicB (List.map (fun r => r.res) s.rets)).length = s.retPanic := by
      rw [List.filter_map, List.length_map]; exact hp3
    simp only [limFinalOK, hnp, List.length_map, Bool.and_eq_true, beq_iff_eq, decide_eq_true_eq]
    refine ⟨⟨by omega, by omega⟩, by omega⟩

/-- `Operation.Limit`: never more than n executions inside; when all have returned, every caller is
    accounted for and the operation ran `min n calls` times -/
theorem oplimit_observation_allowed (n callers : Nat) (script : List Step) (s : OLS)
    (h : olM.Reachable (olInit n callers script) s) :
    s.inFn ≤ n ∧ (s.terminal → s.retExec + s.retPanic + s.retSkip = callers ∧ s.execs = min n callers) := by
  obtain ⟨hn, hle, _, hec, hef, _, _, hcnt⟩ := olInv_reachable n callers script s h
  refine ⟨by omega, fun ht => ⟨?_, (limit_true_count n callers script s h).2 ht⟩⟩
  obtain ⟨hi, hl, hf⟩ := ht
  simp only [hl, List.length_nil] at hcnt; omega

/-- `Lock`: when all callers have returned, each call was exactly one execution -/
theorem lock_observation_allowed (k : Kind) (callers : Nat) (script : List Step) (s : LkS)
    (h : lkM.Reachable (lkInit k callers script) s) :
    s.active ≤ 1 ∧ (s.rets.length = callers → s.execs = callers) := by
  obtain ⟨_, _, hc, he⟩ := lkInv_reachable k callers script s h
  exact ⟨(no_two_executions_overlap k callers script s h).1, fun hall => by omega⟩

/-- Signal / Launch / Background: while the background function has not returned, no waiter has -/
theorem background_observation_allowed (worker : Bool) (waiters : Nat) (script : List Step) (s : BgS)
    (h : bgM.Reachable (bgInit worker false waiters script) s) : s.fnFinished = false → s.rets = [] :=
  (bgInv2_reachable worker waiters script s h).2

/-- StartGroup: while any of the n executions is inside the function, no waiter has returned -/
theorem startgroup_observation_allowed (n waiters : Nat) (script : List Step) (s : SgS)
    (h : sgM.Reachable (sgInit n waiters script) s) : s.inFn ≤ n ∧ (s.inFn > 0 → s.rets = []) := by
  obtain ⟨⟨_, h2, h3⟩, hn⟩ := sgInv2_reachable n waiters script s h
  refine ⟨by omega, fun hin => ?_⟩
  cases hr : s.rets with
  | nil => rfl
  | cons x xs => have := h3 (by simp [hr]); omega

/-! ## Retry — sequential -/

/-- `Retry(n)` makes at most n attempts per call (Worker / Processor flavour). -/
theorem retry_attempts_le_n (n : Nat) (f : Mach) (l : List Res) (s : f.σ) (d : Bool) (a : Int) (w : World) :
    ((retry .worker n (logged f)).call (l, s) d a w).st.1.length ≤ l.length + n ∧
    ((retry .producer n (logged f)).call (l, s) d a w).st.1.length ≤ l.length + n := by
  obtain ⟨new, h1, h2, _⟩ := retryW_log f d a n [] l s w
  obtain ⟨new', h1', h2', _⟩ := retryP_log f d a n [] l s w
  constructor
  · have : ((retry .worker n (logged f)).call (l, s) d a w).st.1 = new ++ l := by simpa [retry] using h1
    rw [this]; simp; omega
  · have : ((retry .producer n (logged f)).call (l, s) d a w).st.1 = new' ++ l := by simpa [retry] using h1'
    rw [this]; simp; omega

/-- `Worker.Retry(n)` stops at the first success or terminating error (or panic): every attempt but
    the last one of a call failed with a non-terminating error (or ErrIteratorSkip), and if fewer than
    n attempts were made the last one was a success, a terminating error or a panic.
    `new` = the attempts of this call, latest first. -/
theorem retry_stops_at_first_success_or_terminating (n : Nat) (f : Mach) (l : List Res) (s : f.σ) (d : Bool) (a : Int)
    (w : World) :
    ∃ new, ((retry .worker n (logged f)).call (l, s) d a w).st.1 = new ++ l ∧
      (∀ r ∈ new.tail, stopsW r = false) ∧ (new.length < n → ∃ r, new.head? = some r ∧ stopsW r = true) := by
  obtain ⟨new, h1, _, h3, h4, _⟩ := retryW_log f d a n [] l s w
  exact ⟨new, by simpa [retry] using h1, h3, h4⟩

/-- the same for `Producer.Retry(n)` (terminating = io.EOF, ErrCurrentOpAbort, context errors) -/
theorem retry_stops_at_first_success_or_terminating_producer (n : Nat) (f : Mach) (l : List Res) (s : f.σ) (d : Bool)
    (a : Int) (w : World) :
    ∃ new, ((retry .producer n (logged f)).call (l, s) d a w).st.1 = new ++ l ∧
      (∀ r ∈ new.tail, stopsP r = false) ∧ (new.length < n → ∃ r, new.head? = some r ∧ stopsP r = true) := by
  obtain ⟨new, h1, _, h3, h4, _⟩ := retryP_log f d a n [] l s w
  exact ⟨new, by simpa [retry] using h1, h3, h4⟩

/-- `Retry(n)` reports failures only if no attempt succeeded: when a call returns a non-nil error,
    none of its attempts returned nil; for a Producer a successful attempt's value is what the call returns. -/
theorem retry_reports_only_if_no_success (n : Nat) (f : Mach) (l : List Res) (s : f.σ) (d : Bool) (a : Int) (w : World) :
    (∃ new, ((retry .worker n (logged f)).call (l, s) d a w).st.1 = new ++ l ∧
      ∀ v e, ((retry .worker n (logged f)).call (l, s) d a w).res = .ret v e → e ≠ [] → ∀ r ∈ new, r.succ = false) ∧
    (∃ new, ((retry .producer n (logged f)).call (l, s) d a w).st.1 = new ++ l ∧
      (∀ r ∈ new, r.succ = true → ((retry .producer n (logged f)).call (l, s) d a w).res = r) ∧
      ∀ v e, ((retry .producer n (logged f)).call (l, s) d a w).res = .ret v e → e ≠ [] → ∀ r ∈ new, r.succ = false) := by
  obtain ⟨new, h1, _, _, _, h5⟩ := retryW_log f d a n [] l s w
  obtain ⟨new', h1', _, _, _, h5'⟩ := retryP_log f d a n [] l s w
  refine ⟨⟨new, by simpa [retry] using h1, ?_⟩, ⟨new', by simpa [retry] using h1', ?_, ?_⟩⟩
  · intro v e hres he r hr
    cases hs : r.succ with
    | false => rfl
    | true =>
      have := h5 r hr hs
      have hres' : (retryW (logged f) d a n [] (l, s) w).res = .ret v e := by simpa [retry] using hres
      rw [this] at hres'
      cases hres'; exact absurd rfl he
  · intro r hr hs
    simpa [retry] using h5' r hr hs
  · intro v e hres he r hr
    cases hs : r.succ with
    | false => rfl
    | true =>
      have := h5' r hr hs
      have hres' : (retryP (logged f) d a n [] (l, s) w).res = .ret v e := by simpa [retry] using hres
      rw [this] at hres'
      subst hres'
      simp [Res.succ] at hs
      exact absurd hs he

/-- non-vacuity: a failure, a skip, then success: three attempts, nil result -/
example : ((run (retry .worker 5 (logged (base .worker 0)))
    [{ res := .ret 0 [.user 1] }, { res := .ret 0 [.skip] }, { res := .ret 0 [] }, { res := .ret 0 [.user 2] }] [.call 0]).1,
    (run (retry .worker 5 (logged (base .worker 0)))
    [{ res := .ret 0 [.user 1] }, { res := .ret 0 [.skip] }, { res := .ret 0 [] }, { res := .ret 0 [.user 2] }] [.call 0]).2.1.1.length)
    = ([.ret 0 []], 3) := by decide

/-! ## Once and Limit — the sequential call stream -/

/-- Sequentially: whatever the call sequence (live or cancelled contexts, cancellations in
    between), a Once-wrapped function has been executed exactly once after the first call. -/
theorem once_seq_exactly_one_exec (k : Kind) (f : Mach) (script : List Step) (ops : List CallOp) (h : 0 < ncalls ops) :
    (run (once k (logged f)) script ops).2.1.2.1.length = 1 := by
  obtain ⟨h0, h1⟩ := once_inv_run k f script ops
  have hlen : (run (once k (logged f)) script ops).1.length = ncalls ops := by
    unfold run; rw [runOps_length]; simp
  cases hf : (run (once k (logged f)) script ops).2.1.1.fired with
  | false =>
    have := (h0 hf).2
    have : (run (once k (logged f)) script ops).1 = [] := by simpa using this
    rw [this] at hlen; simp at hlen; omega
  | true =>
    obtain ⟨r, hl, _⟩ := h1 hf
    rw [hl]; rfl

/-- Sequentially: every call of a Once-wrapped function returns what the single execution returned
    (the part of it the function type carries). -/
theorem once_seq_same_result (k : Kind) (f : Mach) (script : List Step) (ops : List CallOp) (v : Int) (e : Err)
    (h : (run (once k (logged f)) script ops).2.1.2.1 = [.ret v e]) :
    ∀ r ∈ (run (once k (logged f)) script ops).1, r = k.cache (.ret v e) := by
  obtain ⟨h0, h1⟩ := once_inv_run k f script ops
  cases hf : (run (once k (logged f)) script ops).2.1.1.fired with
  | false => rw [(h0 hf).1] at h; cases h
  | true =>
    obtain ⟨r, hl, _, hr⟩ := h1 hf
    rw [hl] at h
    cases h
    intro x hx
    exact (hr v e rfl).2 x (by simpa using hx)

/-- Sequentially: `limitExec(n)` has completed exactly `min n (calls − panicking executions)`
    executions after any call sequence. -/
theorem limit_seq_exec_count (n : Nat) (f : Mach) (script : List Step) (ops : List CallOp) :
    let log := (run (limit n (logged f)) script ops).2.1.2.1
    (completed log).length = min n (ncalls ops - (log.length - (completed log).length)) := by
  obtain ⟨h1, h2, _, h4, h5⟩ := lim_inv_run n f script ops
  have hlen : (run (limit n (logged f)) script ops).1.length = ncalls ops := by
    unfold run; rw [runOps_length]; simp
  simp only [List.length_reverse, hlen] at h4 h5
  have hcl : (completed (run (limit n (logged f)) script ops).2.1.2.1).length ≤
      (run (limit n (logged f)) script ops).2.1.2.1.length := by
    unfold completed; exact List.length_filter_le _ _
  simp only
  by_cases hc : (run (limit n (logged f)) script ops).2.1.1.counter < n
  · have := h5 hc; omega
  · omega

/-- Sequentially: once n executions have completed, every further call returns the result of the
    latest (n-th) completed execution and executes nothing. -/
theorem limit_seq_result_is_last (n : Nat) (hn : 0 < n) (f : Mach) (script : List Step) (ops1 ops2 : List CallOp)
    (hsat : (run (limit n (logged f)) script ops1).2.1.1.counter = n) :
    let st1 := (run (limit n (logged f)) script ops1).2.1
    let w1 := (run (limit n (logged f)) script ops1).2.2
    (∀ r ∈ (runOps (limit n (logged f)) st1 w1 ops2 []).1, (completed st1.2.1).head? = some r) ∧
    (runOps (limit n (logged f)) st1 w1 ops2 []).2.1.2.1 = st1.2.1 := by
  obtain ⟨h1, _, h3, _, _⟩ := lim_inv_run n f script ops1
  obtain ⟨t1, _, t3⟩ := lim_saturated n f ops2 (run (limit n (logged f)) script ops1).2.1
    (run (limit n (logged f)) script ops1).2.2 [] hsat
  simp only
  refine ⟨?_, t3⟩
  intro r hr
  rw [t1] at hr
  simp at hr
  obtain ⟨_, hr⟩ := hr
  have hne : (completed (run (limit n (logged f)) script ops1).2.1.2.1) ≠ [] := by
    intro hnil; rw [hnil] at h1; simp at h1; omega
  cases hcm : completed (run (limit n (logged f)) script ops1).2.1.2.1 with
  | nil => exact absurd hcm hne
  | cons x xs => rw [hcm] at h3; simp at h3; simp [hr, h3]

/-! ## Join / PreHook / PostHook — order of the parts in the trace -/

/-- `PreHook`: the hook runs first, then the function. For Worker/Processor/Producer a panicking
    hook is recovered and the function still runs; for Operation/Handler/Future a panicking hook
    propagates and the function does not run. (`a`, `b` are the probes around function and hook.) -/
theorem hook_order_pre (k : Kind) (f h : Mach) (hf : f.Extends) (hh : h.Extends) (a b : Nat)
    (s : f.σ) (t : h.σ) (d : Bool) (arg : Int) (w : World) :
    ∃ evh rh, (if rh.isPanic && !k.recovers then
        ((preHook k (probe a f) (probe b h)).call (s, t) d arg w).w.trace = .ret b rh :: (evh ++ .call b :: w.trace) ∧
        ((preHook k (probe a f) (probe b h)).call (s, t) d arg w).res = rh
      else ∃ evf rf,
        ((preHook k (probe a f) (probe b h)).call (s, t) d arg w).w.trace =
          .ret a rf :: (evf ++ .call a :: .ret b rh :: (evh ++ .call b :: w.trace))) :=
  preHook_trace k f h hf hh a b s t d arg w

/-- `PostHook`: the function runs first, then the hook. For Worker/Processor/Producer a panicking
    function skips the hook; for Operation/Future the hook is deferred and always runs. -/
theorem hook_order_post (k : Kind) (f h : Mach) (hf : f.Extends) (hh : h.Extends) (a b : Nat)
    (s : f.σ) (t : h.σ) (d : Bool) (arg : Int) (w : World) :
    ∃ evf rf, (if rf.isPanic && k.recovers then
        ((postHook k (probe a f) (probe b h)).call (s, t) d arg w).w.trace = .ret a rf :: (evf ++ .call a :: w.trace) ∧
        ((postHook k (probe a f) (probe b h)).call (s, t) d arg w).res = rf
      else ∃ evh rh,
        ((postHook k (probe a f) (probe b h)).call (s, t) d arg w).w.trace =
          .ret b rh :: (evh ++ .call b :: .ret a rf :: (evf ++ .call a :: w.trace))) :=
  postHook_trace k f h hf hh a b s t d arg w

/-- `Worker.Join` / `Processor.Join`: the parts run in order; the next part runs only if the
    previous one returned nil *and the context is still live when it returned* — otherwise the
    chain stops there (with the error, or with nil when the context was cancelled between parts)
    and the next part's state is untouched. -/
theorem hook_order_join (f g : Mach) (hf : f.Extends) (hg : g.Extends) (a b : Nat)
    (s : f.σ) (t : g.σ) (d : Bool) (arg : Int) (w : World) :
    ∃ evf, let o := (mergeW (probe a f) (probe b g)).call (s, t) d arg w
      let r := (probe a f).call s d arg w
      let tf := Ev.ret a r.res :: (evf ++ .call a :: w.trace)
      match r.res with
      | .panic p => o.w.trace = tf ∧ o.res = .panic p ∧ o.st.2 = t
      | .ret _ e =>
        if e ≠ [] then o.w.trace = tf ∧ o.res = .ret 0 e ∧ o.st.2 = t
        else if done d r.w then o.w.trace = tf ∧ o.res = .zero ∧ o.st.2 = t
        else ∃ evg, o.w.trace = .ret b o.res :: (evg ++ .call b :: tf) :=
  mergeW_trace f g hf hg a b s t d arg w

/-- `Operation.Join`: the next operation runs after the previous one unless the context is done at
    that moment. -/
theorem hook_order_join_operation (f g : Mach) (hf : f.Extends) (hg : g.Extends) (a b : Nat)
    (s : f.σ) (t : g.σ) (d : Bool) (arg : Int) (w : World) :
    ∃ evf, let o := (mergeO (probe a f) (probe b g)).call (s, t) d arg w
      let r := (probe a f).call s d arg w
      let tf := Ev.ret a r.res :: (evf ++ .call a :: w.trace)
      match r.res with
      | .panic p => o.w.trace = tf ∧ o.res = .panic p ∧ o.st.2 = t
      | .ret _ _ =>
        if done d r.w then o.w.trace = tf ∧ o.res = .zero ∧ o.st.2 = t
        else ∃ evg rg, o.w.trace = .ret b rg :: (evg ++ .call b :: tf) :=
  mergeO_trace f g hf hg a b s t d arg w

/-- `Handler.Join` (and `Handler.PreHook(prev) = prev.Join(of)`): both handlers run, in order, unless
    the first panics. -/
theorem hook_order_join_handler (f g : Mach) (hf : f.Extends) (hg : g.Extends) (a b : Nat)
    (s : f.σ) (t : g.σ) (d : Bool) (arg : Int) (w : World) :
    ∃ evf, let o := (mergeH (probe a f) (probe b g)).call (s, t) d arg w
      let r := (probe a f).call s d arg w
      let tf := Ev.ret a r.res :: (evf ++ .call a :: w.trace)
      match r.res with
      | .panic p => o.w.trace = tf ∧ o.res = .panic p
      | .ret _ _ => ∃ evg rg, o.w.trace = .ret b rg :: (evg ++ .call b :: tf) :=
  mergeH_trace f g hf hg a b s t d arg w

/-- `Future.Join(merge, ops...)`: each step evaluates the accumulated future first, then the next one. -/
theorem hook_order_join_future (f g : Mach) (hf : f.Extends) (hg : g.Extends) (a b : Nat)
    (s : f.σ) (t : g.σ) (d : Bool) (arg : Int) (w : World) :
    ∃ evf, let o := (mergeF (probe a f) (probe b g)).call (s, t) d arg w
      let r := (probe a f).call s d arg w
      let tf := Ev.ret a r.res :: (evf ++ .call a :: w.trace)
      match r.res with
      | .panic p => o.w.trace = tf ∧ o.res = .panic p
      | .ret _ _ => ∃ evg rg, o.w.trace = .ret b rg :: (evg ++ .call b :: tf) :=
  mergeF_trace f g hf hg a b s t d arg w

/-- `Producer.Join(next)`: once the first producer is finished with (it returned io.EOF or failed: any
    stage but "run first") no later call touches it again — the second producer never runs before
    the first is done, and the first never after. -/
theorem hook_order_join_producer (f g : Mach) (j : PJoinSt) (s : f.σ) (t : g.σ) (d : Bool) (arg : Int) (w : World)
    (h : j.stage ≠ 0) : ((joinP f g).call (j, s, t) d arg w).st.2.1 = s :=
  joinP_first_untouched f g j s t d arg w h

/-- non-vacuity: first producer yields 1 then io.EOF, second 7 then io.EOF; afterwards io.EOF for ever,
    and neither producer is invoked again -/
example : ((run (joinP (base .producer 0) (base .producer 11))
    [{ res := .ret 1 [] }, { res := .ret 0 [.eof] }, { res := .ret 7 [] }, { res := .ret 0 [.eof] }, { res := .ret 9 [] }]
    [.call 0, .call 0, .call 0, .call 0]).1,
    (run (joinP (base .producer 0) (base .producer 11))
    [{ res := .ret 1 [] }, { res := .ret 0 [.eof] }, { res := .ret 7 [] }, { res := .ret 0 [.eof] }, { res := .ret 9 [] }]
    [.call 0, .call 0, .call 0, .call 0]).2.2.script.length)
    = ([.ret 1 [], .ret 7 [], .ret 0 [.eof], .ret 0 [.eof]], 1) := by decide

/-- non-vacuity (the hypotheses `Extends` hold for the scripted functions) and the abort: the first
    part cancels the context, the second does not run -/
example : (base .worker 0).Extends ∧ (base .operation 11).Extends := ⟨base_extends _ _, base_extends _ _⟩

example : ((run (mergeW (probe 0 (base .worker 0)) (probe 1 (base .worker 11)))
    [{ res := .ret 0 [], cancel := true }, { res := .ret 0 [.user 1] }] [.call 0]).1,
    invocations 11 (run (mergeW (probe 0 (base .worker 0)) (probe 1 (base .worker 11)))
    [{ res := .ret 0 [], cancel := true }, { res := .ret 0 [.user 1] }] [.call 0]).2.2.trace) = ([.zero], 0) := by decide

end FunModel.C15
