import FunProofs.DequePtr

/-! C06 (and the Deque half of C20) — pointer-level obligations. The link updates of `Deque.addAfter` and
    `Deque.pop` are regenerated from pubsub/deque.go on every run (lean/FunGen/DequePtr.lean, element
    heap of FunModel/Dll.lean). These theorems say that the list operations of the model the C06/C20
    theorems are about (FunModel/Deque.lean: `addEnd`, `popEnd` on `q`, `stale`, `vals`, `nextId`, and
    the neighbour function `nbr` the iterators follow) are the abstraction of that generated pointer
    code, for deques of any size:

    * `R h dq x` (FunProofs/DequePtr.lean): `dq.root` is the sentinel 0; `next` from the root visits
      exactly the identities of `x.q`, front to back, without repetition, and returns to the root, with
      `prev` its inverse (`Chain`, as for dt.List in C16); items equal the model's; every element points
      back at `dq`; every *removed* element still has the `next`/`prev` it had when it was unlinked, and
      these are the ones the model recorded in `stale`.
    * `abs h`: walk `next` from `root.next` to the root; `Inv h dq := ∃ x, R h dq x`.

    Guards that do not concern the links (`dq.closed`, the tracker's verdict, `it.isRoot()`) are Bool
    parameters of the generated functions; condition-variable signalling is not part of this level. -/
namespace FunModel.C06Gen
open FunModel.Dll FunModel.Deque FunModel.Conc FunProofs.DequePtr

/-- the guards the generator left abstract are the ones the model decides `addEnd` / `popEnd` by -/
theorem gen_guards :
    FunGen.DequePtr.addAfter_guards = ["dq.closed", "err := dq.tracker.add(); err != nil"] ∧
    FunGen.DequePtr.pop_guards = ["dq.closed || it.isRoot()"] := ⟨rfl, rfl⟩

/-- `makeDeque`'s heap (root linked to itself) represents every model state without elements -/
theorem init_represented (dq : Nat) {x : St} (hq : x.q = []) (hid : x.nextId = 1) : R (initHeap dq) dq x :=
  R.init dq hq hid

/-- generated `addAfter`, every branch, against the model's `addEnd`: called as `PushFront` does
    (`after = dq.root`) or as `PushBack` does (`after = dq.root.prev`, `aOf`), with the guards
    instantiated by the model's conditions, it runs without a nil dereference, reaches the `return` the
    model predicts (`k = 2`, the final `return nil`, exactly when the model answers ok), and the heap
    it leaves represents the model's new state: the four assignments splice the fresh element
    `h.nn = x.nextId` in at the front / at the back of the represented sequence; on a refusal the heap
    is untouched -/
theorem addAfter_refines {h : Heap} {dq : Nat} {x : St} (hr : R h dq x) (d : End) (v : Int) :
    ∃ h' k, FunGen.DequePtr.addAfter h x.closed (x.tracker.add.2 != .ok) dq v (aOf x d) = some (h', k, none) ∧
      R h' dq (addEnd x d v).1 ∧ (k = 2 ↔ (addEnd x d v).2.1 = .ok) := addEnd_refines hr d v

/-- generated `pop`, every branch, against the model's `popEnd`: called on `dq.root.next` / `dq.root.prev`
    (`x.nbr d 0`, see `neighbour_is_pointer`) with the guard `dq.closed || it.isRoot()` instantiated by the
    model's `closed || q.isEmpty`, it returns the item the model returns, the heap it leaves represents
    the model's new state — including the new `stale` entry — and the popped element keeps its own
    `next` and `prev` -/
theorem pop_refines {h : Heap} {dq : Nat} {x : St} (hr : R h dq x) (d : End) :
    ∃ h' k, FunGen.DequePtr.pop h (x.closed || x.q.isEmpty) dq (x.nbr d 0) = some (h', k, (popEnd x d).2.1) ∧
      R h' dq (popEnd x d).1 ∧
      (∀ e, x.closed = false → x.nbr d 0 = e → e ≠ 0 →
        (h'.node e).next = (h.node e).next ∧ (h'.node e).prev = (h.node e).prev) := popEnd_refines hr d

/-- the model's neighbour function is the heap's pointer, in both directions, for every element ever
    allocated — root, linked, or removed (this is what the iterators of C20 and `waitPop` follow);
    in particular `dq.root.next` / `dq.root.prev` are `x.nbr d 0` -/
theorem neighbour_is_pointer {h : Heap} {dq : Nat} {x : St} (hr : R h dq x) {c : Nat} (hc : c < h.nn) :
    (h.node c).next = some (x.nbr .front c) ∧ (h.node c).prev = some (x.nbr .back c) :=
  ⟨hr.next_eq hc, hr.prev_eq hc⟩

/-- the abstraction of a representing heap is the model's deque; the root's link in direction `d` is the
    root itself (`it.isRoot()` for the element `pop` is called on) iff the deque is empty -/
theorem abs_is_model {h : Heap} {dq : Nat} {x : St} (hr : R h dq x) (d : End) :
    abs h = x.q ∧ (x.nbr d 0 = 0 ↔ x.q = []) := ⟨hr.abs_eq, hr.nbr_zero_iff d⟩

/-- `abs (addAfter h root) = new :: abs h` and `abs (addAfter h root.prev) = abs h ++ [new]`: on heaps
    satisfying the representation invariant the generated splice (guards off) is push-front / push-back of
    the freshly allocated element and keeps the invariant -/
theorem abs_addAfter {h : Heap} {dq : Nat} (hi : Inv h dq) (d : End) (v : Int) {a : Nat}
    (ha : some a = match d with | .front => (h.hdr dq).root | .back => (h.node 0).prev) :
    ∃ h', FunGen.DequePtr.addAfter h false false dq v a = some (h', 2, none) ∧ Inv h' dq ∧
      abs h' = addQ d (h.nn, v) (abs h) := hi.push d v ha

/-- `abs (pop h root.next) = tail`, `abs (pop h root.prev) = dropLast`: if the abstraction is
    `e :: rest` (resp. `rest ++ [e]`) then `root.next` (resp. `root.prev`) is `e`, the generated unlink
    returns `e`'s item, leaves `rest`, keeps the invariant, and does not touch `e.next` / `e.prev` -/
theorem abs_pop {h : Heap} {dq : Nat} (hi : Inv h dq) (d : End) {e : Nat} {v : Int} {rest : List (Nat × Int)}
    (ha : abs h = addQ d (e, v) rest) :
    (match d with | .front => (h.node 0).next | .back => (h.node 0).prev) = some e ∧
    ∃ h', FunGen.DequePtr.pop h false dq e = some (h', 1, some v) ∧ Inv h' dq ∧ abs h' = rest ∧
      (h'.node e).next = (h.node e).next ∧ (h'.node e).prev = (h.node e).prev := hi.pop d ha

/-- the deque is empty exactly when the root points at itself, in either direction -/
theorem abs_empty_iff {h : Heap} {dq : Nat} (hi : Inv h dq) :
    (abs h = [] ↔ (h.node 0).next = some 0) ∧ (abs h = [] ↔ (h.node 0).prev = some 0) := hi.empty_iff

/-- every reachable state of the concurrent deque system (any programs, any schedule, any size; `ForcePush`
    = one generated `pop` then one generated `addAfter`) is represented by a heap obtained from
    `makeDeque`'s by calls of the generated functions -/
theorem reachable_represented (dq : Nat) {s0 s : Sys St FunModel.Deque.Op} (hwf0 : s0.WF) (h0 : Rep dq s0.subj)
    (hr : Reach subject s0 s) : Rep dq s.subj := reach_rep dq hwf0 h0 hr

/-! non-vacuity: push-front 5, push-back 7, pop-front on the model and on the heap -/
example : ∃ h x, R h 0 x ∧ x.q = [(2, 7)] ∧ x.stale = [(1, 2, 0)] ∧ x.closed = false := by
  have r0 : R (initHeap 0) 0 { tracker := .noLimit 0 } := init_represented 0 rfl rfl
  obtain ⟨h1, _, _, r1, _⟩ := addAfter_refines r0 .front 5
  obtain ⟨h2, _, _, r2, _⟩ := addAfter_refines r1 .back 7
  obtain ⟨h3, _, _, r3, _⟩ := pop_refines r2 .front
  refine ⟨h3, _, r3, ?_, ?_, ?_⟩ <;> simp [addEnd, popEnd, Tracker.add]

example : Rep 0 ({ tracker := .hard 3 0 } : St) := ⟨_, .init, init_represented 0 rfl rfl⟩

/-- kernel-checked witness on concrete heaps: push-front 5, push-back 7, pop-front; the popped element 1
    still has `next = 2`, `prev = root`, and the cycle is root ⇄ 2 -/
example :
    (do let (h1, _, _) ← FunGen.DequePtr.addAfter (initHeap 0) false false 0 5 0
        let a ← (h1.node 0).prev
        let (h2, _, _) ← FunGen.DequePtr.addAfter h1 false false 0 7 a
        let f ← (h2.node 0).next
        let (h3, _, it) ← FunGen.DequePtr.pop h2 false 0 f
        pure (it, (h3.node 0).next, (h3.node 0).prev, (h3.node 2).next, (h3.node 2).prev, (h3.node 1).next, (h3.node 1).prev)) =
      some (some 5, some 2, some 2, some 0, some 0, some 2, some 0) := by
  rfl

end FunModel.C06Gen
