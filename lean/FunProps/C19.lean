import FunProofs.Hdr

/-! C19 — the HDR histogram (`dt/hdrhist`): recording never fails for in-range values, counts are
    conserved, equivalence ranges are exact powers of two within the promised precision,
    quantiles are order statistics (up to the equivalence range), Min/Max bracket the data,
    Export/Import and Merge-into-empty are identities, and the iterator's internal invariant holds.
    Property theorems only; helper lemmas and the definitions `ValidArgs`, `recordAll`,
    `recordValues`, `countSum`, `Reachable` are in `FunProofs/Hdr.lean`. -/

namespace FunModel.C19
open FunModel FunModel.Hdr

/-! ### 1. `bitLen` -/

/-- The Go loop of `bitLen` computes floor(log2 x)+1 (0 for x = 0) on every non-negative int64. -/
theorem bitLenGo_eq (x : Nat) (h : x < 2 ^ 63) : bitLenGo x = bitLen x :=
  bitLenGo_eq_bitLen x h

/-! ### 2. recording in-range values succeeds -/

/-- `New`'s loop terminates (within the model's fuel) and yields the least bucket count that
    covers `max`. -/
theorem bucketCount_least (min max sig : Nat) (h : ValidArgs min max sig) :
    1 ≤ (mkShape min max sig).bucketCount ∧
      max < ((mkShape min max sig).subBucketCount <<< (mkShape min max sig).unitMag)
              * 2 ^ ((mkShape min max sig).bucketCount - 1) ∧
      ∀ n, 1 ≤ n →
        max < ((mkShape min max sig).subBucketCount <<< (mkShape min max sig).unitMag) * 2 ^ (n - 1) →
        (mkShape min max sig).bucketCount ≤ n :=
  mkShape_bucketCount_spec min max sig h.2.2.1

/-- Every value up to `max` has a counts index inside the array. -/
theorem record_in_range {min max sig v : Nat} (h : ValidArgs min max sig) (hv : v ≤ max) :
    (mkShape min max sig).countsIndexFor v < (mkShape min max sig).countsLen :=
  mkShape_index_lt h.2.2.1 hv

/-- … so `RecordValues` does not return the error. -/
theorem record_succeeds {min max sig v : Nat} (h : ValidArgs min max sig) (hv : v ≤ max)
    (hist : Hist) (hs : hist.shape = mkShape min max sig) (n : Nat) :
    (hist.record v n).isSome = true := by
  have := record_in_range (v := v) h hv
  rw [← hs] at this
  rw [record_eq_some this]; rfl

/-- ADDENDUM (model ≠ Go source). `hdr.go` in /repo tests `smallestUntrackableValue < maxValue`
    (strict), whereas `bucketsLoop` of the model tests `≤`. With the strict test (`mkShapeLt`) only
    values strictly below `max` are guaranteed recordable … -/
theorem record_in_range_strict_loop {min max sig v : Nat} (h : ValidArgs min max sig)
    (hv : v < max) :
    (mkShapeLt min max sig).countsIndexFor v < (mkShapeLt min max sig).countsLen :=
  mkShapeLt_index_lt h.2.2.1 hv

/-- … and `max` itself can be rejected: `New(1, 2048, 3).RecordValue(2048)` is out of range. -/
theorem record_max_fails_strict_loop :
    ValidArgs 1 2048 3 ∧
      ¬ (mkShapeLt 1 2048 3).countsIndexFor 2048 < (mkShapeLt 1 2048 3).countsLen := by
  unfold ValidArgs; decide

/-! ### 3. counts are conserved -/

/-- After any sequence of in-range `RecordValues(v, n)` on a fresh histogram: the total is the sum
    of the `n`, the counts array sums to the total and keeps its length (and the shape is kept). -/
theorem total_count {min max sig : Nat} (h : ValidArgs min max sig) (ps : List (Nat × Nat))
    (hps : ∀ p ∈ ps, p.1 ≤ max) :
    (recordAll (Hist.new min max sig) ps).total = (ps.map (·.2)).sum ∧
      (recordAll (Hist.new min max sig) ps).counts.sum
        = (recordAll (Hist.new min max sig) ps).total ∧
      (recordAll (Hist.new min max sig) ps).counts.length = (mkShape min max sig).countsLen ∧
      (recordAll (Hist.new min max sig) ps).shape = mkShape min max sig := by
  obtain ⟨i1, i2, i3, i4, _⟩ := recordAll_new (min := min) (sig := sig) h.2.2.1 ps hps
  exact ⟨i3, by rw [i4, i3], i2, i1⟩

/-! ### 4. equivalence ranges (any shape, any value) -/

theorem lowestEquiv_le (s : Shape) (v : Nat) : s.lowestEquiv v ≤ v := s.lowestEquiv_le v

theorem le_highestEquiv (s : Shape) (v : Nat) : v ≤ s.highestEquiv v := s.le_highestEquiv v

theorem highestEquiv_succ (s : Shape) (v : Nat) :
    s.highestEquiv v + 1 = s.lowestEquiv v + s.sizeOfRange v := s.highestEquiv_succ v

theorem sizeOfRange_pow (s : Shape) (v : Nat) :
    s.sizeOfRange v = 2 ^ (s.unitMag + s.bucketIdx v) := s.sizeOfRange_eq v

/-! ### 5. precision -/

/-- The width of an equivalence range is one unit (`2^floor(log2 min)`), or at most
    `v / 10^sigfigs`. -/
theorem width_bound {min max sig : Nat} (h : ValidArgs min max sig) (v : Nat) :
    (mkShape min max sig).sizeOfRange v ≤ Nat.max (2 ^ Nat.log2 min) (v / 10 ^ sig) :=
  (mkShape min max sig).sizeOfRange_le v (10 ^ sig) (halfMag_table h.2.2.2.2.1 h.2.2.2.2.2)
    (Nat.pow_pos (by decide))

/-! ### 6. the index is monotone -/

theorem index_mono (s : Shape) {v w : Nat} (h : v ≤ w) :
    s.countsIndexFor v ≤ s.countsIndexFor w := s.countsIndexFor_mono h

/-! ### 7. index ↔ value round trips -/

theorem index_valueAt (s : Shape) (i : Nat) : s.countsIndexFor (s.valueAt i) = i :=
  s.countsIndexFor_valueAt i

theorem countsIndex_posOfIndex (s : Shape) (i : Nat) :
    s.countsIndex (s.posOfIndex i).1 (s.posOfIndex i).2 = i := s.countsIndex_posOfIndex i

theorem index_lowest (s : Shape) (v : Nat) :
    s.countsIndexFor (s.lowestEquiv v) = s.countsIndexFor v :=
  s.same_cell_index (Nat.le_refl _) (s.lowest_le_highest v)

theorem index_highest (s : Shape) (v : Nat) :
    s.countsIndexFor (s.highestEquiv v) = s.countsIndexFor v :=
  s.same_cell_index (s.lowest_le_highest v) (Nat.le_refl _)

theorem highest_valueAt_index (s : Shape) (v : Nat) :
    s.highestEquiv (s.valueAt (s.countsIndexFor v)) = s.highestEquiv v := by
  rw [s.valueAt_countsIndexFor]
  exact s.same_cell_highest (Nat.le_refl _) (s.lowest_le_highest v)

/-! ### 8. quantiles are order statistics -/

/-- If `x` is the `r`-th smallest recorded value (1-based; fewer than `r` values are `< x`, at
    least `r` are `≤ x`), `ValueAtQuantile` with rank `r` returns the top of `x`'s equivalence
    range. -/
theorem quantile_is_order_statistic {min max sig : Nat} (h : ValidArgs min max sig) (vs : List Nat)
    (hvs : ∀ v ∈ vs, v ≤ max) (x r : Nat) (hx : x ∈ vs)
    (hlo : (vs.filter (· < x)).length < r) (hhi : r ≤ (vs.filter (· ≤ x)).length) :
    (recordValues (Hist.new min max sig) vs).valueAtRank r
      = (mkShape min max sig).highestEquiv x :=
  valueAtRank_recordValues h.2.2.1 vs hvs x r hx
    (by rw [List.countP_eq_length_filter]; exact hlo)
    (by rw [List.countP_eq_length_filter]; exact hhi)

/-- … hence it is within one equivalence-range width above `x` (see `width_bound`). -/
theorem quantile_within_precision {min max sig : Nat} (h : ValidArgs min max sig) (vs : List Nat)
    (hvs : ∀ v ∈ vs, v ≤ max) (x r : Nat) (hx : x ∈ vs)
    (hlo : (vs.filter (· < x)).length < r) (hhi : r ≤ (vs.filter (· ≤ x)).length) :
    x ≤ (recordValues (Hist.new min max sig) vs).valueAtRank r ∧
      (recordValues (Hist.new min max sig) vs).valueAtRank r
        < x + (mkShape min max sig).sizeOfRange x := by
  rw [quantile_is_order_statistic h vs hvs x r hx hlo hhi]
  have h1 := (mkShape min max sig).le_highestEquiv x
  have h2 := (mkShape min max sig).highestEquiv_succ x
  have h3 := (mkShape min max sig).lowestEquiv_le x
  omega

/-! ### 9. Min / Max bracket the data -/

/-- `Min()` is the bottom of the equivalence range of a smallest recorded value and `Max()` the
    top of the range of a largest one (no assumption on 0 being recorded or not). -/
theorem min_max_bracket {min max sig : Nat} (h : ValidArgs min max sig) (vs : List Nat)
    (hvs : ∀ v ∈ vs, v ≤ max) (m M : Nat) (hm : m ∈ vs) (hmle : ∀ v ∈ vs, m ≤ v)
    (hM : M ∈ vs) (hMge : ∀ v ∈ vs, v ≤ M) :
    (recordValues (Hist.new min max sig) vs).min = (mkShape min max sig).lowestEquiv m ∧
      (recordValues (Hist.new min max sig) vs).max = (mkShape min max sig).highestEquiv M :=
  ⟨min_recordValues h.2.2.1 vs hvs m hm hmle, max_recordValues h.2.2.1 vs hvs M hM hMge⟩

/-- In particular `Min() ≤ v ≤ Max()` for every recorded `v`. -/
theorem min_le_max_ge {min max sig : Nat} (h : ValidArgs min max sig) (vs : List Nat)
    (hvs : ∀ v ∈ vs, v ≤ max) (m M : Nat) (hm : m ∈ vs) (hmle : ∀ v ∈ vs, m ≤ v)
    (hM : M ∈ vs) (hMge : ∀ v ∈ vs, v ≤ M) (v : Nat) (hv : v ∈ vs) :
    (recordValues (Hist.new min max sig) vs).min ≤ v ∧
      v ≤ (recordValues (Hist.new min max sig) vs).max := by
  obtain ⟨h1, h2⟩ := min_max_bracket h vs hvs m M hm hmle hM hMge
  rw [h1, h2]
  exact ⟨Nat.le_trans ((mkShape min max sig).lowestEquiv_le m) (hmle v hv),
    Nat.le_trans (hMge v hv) ((mkShape min max sig).le_highestEquiv M)⟩

/-! ### 10. Export / Import -/

/-- `Import(h.Export())` equals `h` for every histogram with the shape `New` builds, the right
    array length, and `totalCount` = sum of the counts … -/
theorem export_import_equal_of_wf {min max sig : Nat} (h : Hist) (hw : h.WF min max sig) :
    h.reimport = h := reimport_eq hw

/-- … in particular for every histogram reachable from `New` by in-range `RecordValues`. -/
theorem export_import_equal {min max sig : Nat} (hv : ValidArgs min max sig) (h : Hist)
    (hr : Reachable min max sig h) : h.reimport = h := reimport_eq (hr.wf hv.2.2.1)

/-! ### 11. Merge into an empty histogram -/

theorem merge_into_empty_equal_of_wf {min max sig : Nat} (h : Hist) (hw : h.WF min max sig) :
    (Hist.new min max sig).merge h = (h, 0) := merge_new_eq hw

/-- Merging a reachable histogram into a fresh one of the same parameters reproduces it and drops
    nothing. -/
theorem merge_into_empty_equal {min max sig : Nat} (hv : ValidArgs min max sig) (h : Hist)
    (hr : Reachable min max sig h) : (Hist.new min max sig).merge h = (h, 0) :=
  merge_new_eq (hr.wf hv.2.2.1)

/-! ### 12. the iterator's "iteration out of bounds" invariant -/

theorem iterator_in_bounds {min max sig i : Nat} (h : ValidArgs min max sig)
    (hi : i < (mkShape min max sig).countsLen) :
    ((mkShape min max sig).posOfIndex i).1 < (mkShape min max sig).bucketCount ∧
      ((mkShape min max sig).posOfIndex i).2 < (mkShape min max sig).subBucketCount :=
  (mkShape min max sig).posOfIndex_in_bounds (mkShape_bucketCount_spec min max sig h.2.2.1).1 hi

/-! ### non-vacuity: the hypotheses are satisfiable on a concrete, non-trivial case -/

example : ValidArgs 1 2048 3 := by unfold ValidArgs; decide
example : ∀ v ∈ [1, 2048, 17, 17], v ≤ 2048 := by decide
example : ∀ p ∈ [(1, 2), (2048, 1), (17, 5)], p.1 ≤ 2048 := by decide
/-- 17 is the 2nd and the 3rd order statistic of [1, 2048, 17, 17]; 2048 the 4th -/
example : 17 ∈ [1, 2048, 17, 17] ∧ ([1, 2048, 17, 17].filter (· < 17)).length < 2 ∧
    3 ≤ ([1, 2048, 17, 17].filter (· ≤ 17)).length := by decide
example : 2048 ∈ [1, 2048, 17, 17] ∧ ([1, 2048, 17, 17].filter (· < 2048)).length < 4 ∧
    4 ≤ ([1, 2048, 17, 17].filter (· ≤ 2048)).length := by decide
example : (1 ∈ [1, 2048, 17, 17] ∧ ∀ v ∈ [1, 2048, 17, 17], 1 ≤ v) ∧
    (2048 ∈ [1, 2048, 17, 17] ∧ ∀ v ∈ [1, 2048, 17, 17], v ≤ 2048) := by decide
example : Reachable 1 2048 3 (recordValues (Hist.new 1 2048 3) [1, 2048, 17, 17]) :=
  ⟨_, by decide, rfl⟩

/-- the theorems instantiated: the 3rd of [1, 2048, 17, 17] is reported as 17, the 4th as 2049
    (2048 lies in bucket 1, whose ranges have width 2) -/
example : (recordValues (Hist.new 1 2048 3) [1, 2048, 17, 17]).valueAtRank 3
    = (mkShape 1 2048 3).highestEquiv 17 :=
  quantile_is_order_statistic (by unfold ValidArgs; decide) _ (by decide) 17 3 (by decide)
    (by decide) (by decide)
example : (mkShape 1 2048 3).highestEquiv 17 = 17 ∧ (mkShape 1 2048 3).highestEquiv 2048 = 2049 ∧
    (mkShape 1 2048 3).lowestEquiv 1 = 1 ∧ (mkShape 1 2048 3).countsIndexFor 2048 = 2048 ∧
    (mkShape 1 2048 3).countsLen = 3072 ∧ (mkShape 1 2048 3).bucketCount = 2 := by decide
example : 5 < (mkShape 1 100 1).countsLen := by decide
example : (Hist.new 1 100 1).WF 1 100 1 := ⟨rfl, by decide, by decide⟩
example : (recordValues (Hist.new 1 2048 3) [1, 2048, 17, 17]).reimport
    = recordValues (Hist.new 1 2048 3) [1, 2048, 17, 17] :=
  export_import_equal (by unfold ValidArgs; decide) _ ⟨_, by decide, rfl⟩

end FunModel.C19
