import FunProofs.DequeWake

/-! C07 (Deque half) — blocking Deque operations never miss a wake-up.

    Model: `FunModel/Deque.lean` on the generic machine `FunModel/Conc.lean`: the three condition
    variables `nfront`(0) / `nback`(1) / `updates`(2), the per-wait helper goroutines (`spawn`,
    gate, `fire` = Lock; Broadcast), explicit cancellation, and the quirk D28 (`cond.Signal()`
    before every `cond.Wait()`) exactly as `element.wait` / `waitPushAfter` have it.

    Because of D28 two goroutines parked on one condition wake each other for ever, so "no internal
    action is enabled" is too strong a notion of quiescence; `QuiescentPP` is: *whatever internal
    actions (resumptions, helper broadcasts) are taken from here on, every enabled one is a
    resumption that parks again without changing the deque*. Plain quiescence implies it
    (`quiescent_is_pp`). The one-step version ("every internal action enabled now re-parks") is NOT
    enough: a `Signal` wakes the longest-parked goroutine, which need not be the one that is ready.
    Proofs: `FunProofs/DequeLive.lean`, `FunProofs/DequeWake.lean`, generic part `FunProofs/Conc.lean`
    (+ `ConcDeque.lean`). Hypothesis `Owned`: each iterator is used by one goroutine. -/
namespace FunModel.C07Deque
open FunModel.Conc FunModel.Deque

/-- programs without iterator calls trivially satisfy `Owned` -/
theorem owned_of_no_iter (init : St) (programs : List (List Op))
    (h : ∀ p ∈ programs, ∀ d b k, Op.next d b k ∉ p) : Owned (initSys init programs) := by
  intro t u tht thu _ ht _ d b k hm
  exfalso
  simp only [initSys, List.getElem?_map] at ht
  cases hp : programs[t]? with
  | none => simp [hp] at ht
  | some p =>
    simp [hp] at ht; subst ht
    exact h p (List.mem_of_getElem? hp) d b k hm

/-- a deque fresh from `NewDeque` satisfies the identity invariant -/
theorem inv2_new (o : Opts) (st : St) (h : newDeque o = some (some st)) : Inv2 st := by
  obtain ⟨_, hq, _, hs, hc, hn, _⟩ := (newDeque_ok o).2 st h
  refine ⟨by omega, ?_, ?_, ?_, ?_⟩
  · intro i hi; simp [St.ids, hq] at hi
  · simp [St.ids, hq]
  · intro p hp; simp [hc] at hp
  · intro p hp; simp [hs] at hp

theorem quiescent_is_pp (s : Sys St Op) (q : Quiescent s) : QuiescentPP subject s := q.pp

/-- **no_stuck_deque**: in every reachable state that is quiescent up to ping-pong, an operation
    that is still blocked (parked on a condition, or woken and about to park again) has a false
    condition: no `WaitFront`/`WaitBack` is blocked while the deque is non-empty, closed, or its
    context cancelled; no `WaitPushFront`/`WaitPushBack` is blocked while there is room
    (`cap() > len()`), the deque is closed, or its context is cancelled. All numbers of consumers
    and producers, all trackers, all schedules, cancellations at any point. -/
theorem no_stuck_deque (init : St) (h2 : Inv2 init) (programs : List (List Op)) (hown : Owned (initSys init programs))
    (s : Sys St Op) (hr : Reach subject (initSys init programs) s) (hq : QuiescentPP subject s)
    (u : Nat) (th : Th Op) (op : Op) (hth : s.ths[u]? = some th)
    (hblocked : th.st = .woken ∨ ∃ c, th.st = .parked c) (hop : th.ops[th.pc]? = some op) :
    (∀ e, op = .wait e → abs s.subj = [] ∧ s.subj.closed = false ∧ th.cancelled = false) ∧
    (∀ e v, op = .wpush e v → s.subj.tracker.hasRoom = false ∧ s.subj.closed = false ∧ th.cancelled = false) := by
  have hp : parks s.subj op th.cancelled = true := by
    rcases hblocked with hw | ⟨c, hc⟩
    · exact woken_pp_parks init h2 programs hown hr hq hth hw hop
    · exact no_stuck_pp init h2 programs hown hr hq hth hc hop
  constructor
  · intro e he; subst he
    simp only [parks, Bool.and_eq_true, Bool.not_eq_true', List.isEmpty_iff] at hp
    exact ⟨by simp [abs, hp.1.1], hp.1.2, hp.2⟩
  · intro e v he; subst he
    simp only [parks, Bool.and_eq_true, Bool.not_eq_true'] at hp
    exact ⟨hp.1.1, hp.1.2, hp.2⟩

/-- the same at plain quiescence (no resumption and no helper broadcast enabled): then nobody is
    woken, every blocked operation is parked, and its condition is false -/
theorem no_stuck_deque_quiescent (init : St) (h2 : Inv2 init) (programs : List (List Op))
    (hown : Owned (initSys init programs)) (s : Sys St Op) (hr : Reach subject (initSys init programs) s)
    (hq : Quiescent s) (u : Nat) (th : Th Op) (c : Nat) (op : Op) (hth : s.ths[u]? = some th)
    (hst : th.st = .parked c) (hop : th.ops[th.pc]? = some op) :
    (∀ e, op = .wait e → abs s.subj = [] ∧ s.subj.closed = false ∧ th.cancelled = false) ∧
    (∀ e v, op = .wpush e v → s.subj.tracker.hasRoom = false ∧ s.subj.closed = false ∧ th.cancelled = false) :=
  no_stuck_deque init h2 programs hown s hr hq.pp u th op hth (Or.inr ⟨c, hst⟩) hop

/-- a one-item deque with a parked `WaitFront` is reachable and quiescent (hypotheses satisfiable) -/
def exInit : St := { tracker := .hard 1 0 }
theorem exInit_inv2 : Inv2 exInit := ⟨by decide, by simp [exInit, St.ids], by simp [exInit, St.ids], by simp [exInit], by simp [exInit]⟩

example : ∃ s, Reach subject (initSys exInit [[.wait .front], [.push .back 7]]) s ∧ Quiescent s ∧
    ∃ th, s.ths[0]? = some th ∧ th.st = .parked 0 ∧ abs s.subj = [] :=
  ⟨_, reach_of_runActs [.start 0] rfl .init, by decide, _, rfl, rfl, rfl⟩

/-- **wait_when_ready_returns**: an operation whose condition holds when it has the lock returns in
    that very segment — the first segment of the call (in particular `WaitFront` on a non-empty
    deque does not block, D1) or a resumption after a wake-up. `WaitFront/WaitBack` are ready when the
    deque is non-empty, closed, or (resumption) their context is cancelled; `WaitPush*` when there
    is room, the deque is closed, or the context is cancelled. On an open non-empty deque the wait
    returns the item at the requested end. -/
theorem wait_when_ready_returns (x : St) (e : End) (v : Int) (k : Bool) :
    ((abs x ≠ [] ∨ x.closed = true) → ∃ r, (startR x (.wait e)).fin = .ret r) ∧
    ((abs x ≠ [] ∨ x.closed = true ∨ k = true) → ∃ r, (resumeR x (.wait e) k).fin = .ret r) ∧
    ((x.tracker.hasRoom = true ∨ x.closed = true) → ∃ r, (startR x (.wpush e v)).fin = .ret r) ∧
    ((x.tracker.hasRoom = true ∨ x.closed = true ∨ k = true) → ∃ r, (resumeR x (.wpush e v) k).fin = .ret r) ∧
    (x.closed = false → ∀ a rest, abs x = a :: rest → (startR x (.wait .front)).fin = .ret (.val a)) := by
  have hne : abs x ≠ [] → x.q.isEmpty = false := by
    intro h; cases hq : x.q with
    | nil => simp [abs, hq] at h
    | cons p r => rfl
  refine ⟨?_, ?_, ?_, ?_, ?_⟩
  · intro h
    apply (ready_returns x (.wait e) false).1
    rcases h with h | h
    · simp [parks, hne h]
    · simp [parks, h]
  · intro h
    apply (ready_returns x (.wait e) k).2
    rcases h with h | h | h
    · simp [parks, hne h]
    · simp [parks, h]
    · simp [parks, h]
  · intro h
    apply (ready_returns x (.wpush e v) false).1
    rcases h with h | h <;> simp [parks, h]
  · intro h
    apply (ready_returns x (.wpush e v) k).2
    rcases h with h | h | h <;> simp [parks, h]
  · intro hc a rest ha
    cases hq : x.q with
    | nil => simp [abs, hq] at ha
    | cons p r =>
      obtain ⟨i, w⟩ := p
      simp only [abs, hq, List.map_cons, List.cons.injEq] at ha
      simp [startR, hc, hq, waitPopLoop, popEnd, ha.1]

example : (startR { exInit with q := [(1, 5)], tracker := .hard 1 1, nextId := 2 } (.wait .front)).fin = .ret (.val 5) :=
  (wait_when_ready_returns _ .front 0 false).2.2.2.2 rfl 5 [] rfl

/-- **signal_before_wait** (the quirk D28, as the code has it): a resumed operation that parks again
    has changed nothing and has signalled exactly the condition it parks on; the first segment of a
    blocking call that parks has started its helper and signalled its condition. -/
theorem signal_before_wait (x : St) (op : Op) (k : Bool) (c : Nat) :
    ((resumeR x op k).fin = .park c → resumeR x op k = { st := x, sigs := [.signal c], fin := .park c } ∧ k = false) ∧
    ((startR x op).fin = .park c → startR x op = { st := x, sigs := [.spawn c, .signal c], fin := .park c }) :=
  ⟨fun h => resumeR_park_shape h, fun h => (startR_park_shape h).1⟩

end FunModel.C07Deque
