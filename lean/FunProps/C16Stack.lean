import FunProofs.Sll

/-! C16 (stack part) — `dt.Stack` / `dt.Item`: every operation keeps all stacks well-formed and behaves
like the same operation on a plain LIFO sequence.

Ghost state: `g s` = item addresses of stack `s`, top first; `sent s` = address of the sentinel of `s`
(`none` while the head pointer is still nil). `WF h g sent` is the invariant (FunProofs/Sll.lean).
`upd f s v` is function update; `initSent h sent s` is `sent` with the sentinel of `s` set to the fresh
address `h.ni` when the head of `s` is nil, and `sent` otherwise. -/
namespace FunModel.C16Stack
open FunModel.Sll FunModel.Sll.Heap

variable {h : Heap} {g : Nat → List Nat} {sent : Nat → Option Nat}

/-! ## what the invariant says (observations) -/

/-- shape of an allocated stack: nil head and empty, or a `next`-chain through exactly `g s` ending in a sentinel -/
theorem wf_shape (hw : WF h g sent) {s : Nat} (hs : s < h.ns) :
    ((h.hdr s).head = none ∧ g s = [] ∧ (h.hdr s).length = 0 ∧ sent s = none) ∨
    (∃ a z, (h.hdr s).head = some a ∧ sent s = some z ∧ Seg h (some a) (g s) (some z) ∧
      z < h.ni ∧ (h.item z).ok = false ∧ (h.item z).next = none ∧ (h.item z).stack = some s) := by
  have hS := hw.stk s hs
  cases hz : sent s with
  | none =>
    obtain ⟨h1, h2⟩ := hS.empty hz
    exact Or.inl ⟨h1, h2, by rw [hS.len, h2]; rfl, rfl⟩
  | some z =>
    have hc := hS.chain z hz
    obtain ⟨a, ha⟩ := hc.start_some
    obtain ⟨b1, b2, b3, b4⟩ := hS.sentinel z hz
    exact Or.inr ⟨a, z, ha, rfl, ha ▸ hc, b1, b2, b3, b4⟩

/-- items of a stack are allocated, ok, point back to their stack, and occur once -/
theorem wf_items (hw : WF h g sent) (s : Nat) :
    (∀ x, x ∈ g s → x < h.ni ∧ (h.item x).ok = true ∧ (h.item x).stack = some s) ∧ (g s).Nodup := by
  refine ⟨fun x hx => hw.item_of_mem hx, ?_⟩
  by_cases hs : s < h.ns
  · exact (hw.stk s hs).nodup
  · rw [(hw.fresh s (Nat.le_of_not_lt hs)).1]; exact List.nodup_nil

/-- different stacks share neither items nor sentinels, and no item is a sentinel -/
theorem wf_disjoint (hw : WF h g sent) {s t : Nat} :
    (∀ x, x ∈ g s → x ∈ g t → s = t) ∧ (∀ z, sent s = some z → sent t = some z → s = t) ∧
    (∀ x, x ∈ g s → sent t ≠ some x) :=
  ⟨fun _ h1 h2 => hw.disjoint h1 h2, fun z => hw.sentInj s t z, fun _ hx => hw.not_sent_of_mem hx⟩

/-- every allocated item that is on no stack and is no sentinel is detached -/
theorem wf_detached (hw : WF h g sent) {a : Nat} (ha : a < h.ni) (h1 : ∀ s, a ∉ g s)
    (h2 : ∀ s, sent s ≠ some a) : (h.item a).stack = none := hw.detached a ha h1 h2

/-- the traversal `for i := s.Head(); i.Ok(); i = i.Next()` lists exactly `g s` -/
theorem walk_spec (hw : WF h g sent) {s fuel : Nat} (hs : s < h.ns) (hf : (g s).length < fuel) :
    h.walk fuel (h.hdr s).head = (g s, if (h.hdr s).head = none then "nil" else "end") := by
  have hS := hw.stk s hs
  cases hz : sent s with
  | none =>
    obtain ⟨h1, h2⟩ := hS.empty hz
    obtain ⟨f, rfl⟩ : ∃ f, fuel = f + 1 := ⟨fuel - 1, by omega⟩
    rw [h1, h2]; rfl
  | some z =>
    have hc := hS.chain z hz
    obtain ⟨a, ha⟩ := hc.start_some
    rw [walk_seg (hS.sentinel z hz).2.1 (g s) _ fuel hc (fun x hx => (hS.items x hx).2.1) hf, ha]
    rfl

/-- `Len()` is the length of the sequence -/
theorem length_spec (hw : WF h g sent) {s : Nat} (hs : s < h.ns) : (h.hdr s).length = ((g s).length : Int) :=
  (hw.stk s hs).len

/-- `it.In(s)` is membership, for every allocated item that is not a sentinel -/
theorem stack_iff_mem (hw : WF h g sent) {a s : Nat} (ha : a < h.ni) (hns : ∀ t, sent t ≠ some a) :
    (h.item a).stack = some s ↔ a ∈ g s := by
  constructor
  · intro hst
    rcases hw.of_stack_some ha hst with e | e
    · exact e
    · exact absurd e (hns s)
  · intro hx; exact (hw.item_of_mem hx).2.2

/-! ## one-step theorems -/

/-- `&Stack{}`: a fresh empty stack -/
theorem allocStack_spec (hw : WF h g sent) :
    WF h.allocStack.1 g sent ∧ h.allocStack.2 = h.ns ∧ g h.ns = [] ∧ sent h.ns = none :=
  ⟨hw.allocStack, rfl, (hw.fresh _ (Nat.le_refl _)).1, (hw.fresh _ (Nat.le_refl _)).2⟩

/-- `NewItem(v)` / `&Item{}`: a fresh detached item -/
theorem alloc_spec (hw : WF h g sent) (n : Item) (hn : n.stack = none) :
    WF (h.alloc n).1 g sent ∧ (h.alloc n).2 = h.ni ∧ (h.alloc n).1.item h.ni = n ∧
    (∀ s, h.ni ∉ g s) ∧ (∀ s, sent s ≠ some h.ni) :=
  ⟨hw.alloc n hn, rfl, by simp,
   fun _ hx => Nat.lt_irrefl _ (hw.item_of_mem hx).1,
   fun _ hz => Nat.lt_irrefl _ (hw.sentinel_of_sent hz).1⟩

/-- `lazyInit`: the sequence is unchanged; a sentinel is created iff the head was nil -/
theorem lazyInit_spec (hw : WF h g sent) {s : Nat} (hs : s < h.ns) :
    WF (h.lazyInit s) g (initSent h sent s) ∧ ∃ a, ((h.lazyInit s).hdr s).head = some a :=
  ⟨hw.lazyInit hs, lazyInit_head_some h s⟩

/-- `Head()`: the top item, or the sentinel when the stack is empty -/
theorem head_spec (hw : WF h g sent) {s : Nat} (hs : s < h.ns) :
    WF (h.head s).1 g (initSent h sent s) ∧
    ∃ z, initSent h sent s s = some z ∧ (h.head s).2 = some ((g s).headD z) := by
  have hw' := hw.lazyInit hs
  refine ⟨hw', ?_⟩
  cases hz : initSent h sent s s with
  | some z => exact ⟨z, rfl, hw'.head_eq hz⟩
  | none =>
    exfalso
    obtain ⟨a, ha⟩ := lazyInit_head_some h s
    have hs' : s < (h.lazyInit s).ns := by
      cases hh : (h.hdr s).head with
      | none => rw [lazyInit_of_head_none hh]; simpa using hs
      | some a => rw [lazyInit_of_head_some hh]; exact hs
    rw [(hw'.head_none_iff hs').2 hz] at ha; cases ha

/-- `Push(v)`: the fresh item `n` holding `v` is the new top. `n` is `h.ni`, or `h.ni + 1` when `lazyInit`
had to allocate the sentinel first. -/
theorem push_spec (hw : WF h g sent) {s : Nat} (hs : s < h.ns) (v : Int) :
    ∃ h' n, h.push s v = some h' ∧ n = (if (h.hdr s).head = none then h.ni + 1 else h.ni) ∧
      WF h' (upd g s (n :: g s)) (initSent h sent s) ∧
      (h'.item n).value = v ∧ (h'.item n).ok = true ∧ (h'.hdr s).length = (h.hdr s).length + 1 := by
  obtain ⟨hp, hw'⟩ := Sll.push_spec hw hs v
  refine ⟨_, (h.lazyInit s).ni, hp, ?_, hw', ?_, ?_, ?_⟩
  · cases hh : (h.hdr s).head with
    | none => rw [lazyInit_of_head_none hh]; simp
    | some a => rw [lazyInit_of_head_some hh]; simp
  · simp [Heap.linked]
  · simp [Heap.linked]
  · cases hh : (h.hdr s).head with
    | none =>
      have := length_spec hw hs
      rw [((hw.stk s hs).empty ((hw.head_none_iff hs).1 hh)).2] at this
      rw [lazyInit_of_head_none hh, this]; simp [Heap.linked]
    | some a => rw [lazyInit_of_head_some hh]; simp [Heap.linked]

/-- `Pop()` on a non-empty stack returns the top item and detaches it -/
theorem pop_nonempty_spec (hw : WF h g sent) {s x : Nat} {xs : List Nat} (hs : s < h.ns) (hg : g s = x :: xs) :
    ∃ h', h.pop s = some (h', x) ∧ WF h' (upd g s xs) sent ∧ (h'.item x).stack = none ∧
      (∀ t, x ∉ upd g s xs t) ∧ (h'.item x).value = (h.item x).value ∧ (h'.item x).ok = true := by
  obtain ⟨hp, hw'⟩ := Sll.pop_nonempty hw hs hg
  have hst : ((h.popped s x).item x).stack = none := by simp [Heap.popped]
  have hx : x ∈ g s := by rw [hg]; exact List.mem_cons_self ..
  refine ⟨_, hp, hw', hst, hw'.not_mem_of_stack_none hst, by simp [Heap.popped], ?_⟩
  simpa [Heap.popped] using (hw.item_of_mem hx).2.1

/-- `Pop()` on an empty stack behaves like `Head()`: it returns the sentinel (running `lazyInit` if the head was
nil) and changes nothing else -/
theorem pop_empty_spec (hw : WF h g sent) {s : Nat} (hs : s < h.ns) (hg : g s = []) :
    ∃ z, h.pop s = some (h.lazyInit s, z) ∧ WF (h.lazyInit s) g (initSent h sent s) ∧
      initSent h sent s s = some z ∧ (h.head s).2 = some z ∧ ((h.lazyInit s).item z).ok = false ∧
      ((h.lazyInit s).item z).stack = some s ∧ ((h.lazyInit s).hdr s).length = 0 := by
  have hw' := hw.lazyInit hs
  obtain ⟨_, z, hz, hhd⟩ := head_spec hw hs
  rw [hg] at hhd
  have hs' : s < (h.lazyInit s).ns := hw'.lt_ns_of_sent hz
  have hp : h.pop s = some (h.lazyInit s, z) := by
    cases hh : (h.hdr s).head with
    | none =>
      rw [(pop_empty_nil hw hs hh).1]
      simp only [initSent, if_pos hh, upd_same] at hz
      cases hz; rfl
    | some a =>
      rw [lazyInit_of_head_some hh]
      simp only [initSent, hh] at hz
      exact pop_empty_sentinel hw (by simpa using hz) hg
  obtain ⟨_, hok, _, hst⟩ := hw'.sentinel_of_sent hz
  refine ⟨z, hp, hw', hz, hhd, hok, hst, ?_⟩
  rw [(hw'.stk s hs').len, hg]; rfl

/-- `Pop()` on an empty stack followed by `Push(v)`: the stack holds exactly the fresh item carrying `v` -/
theorem pop_empty_then_push (hw : WF h g sent) {s : Nat} (hs : s < h.ns) (hg : g s = []) (v : Int) :
    ∃ z h' n, h.pop s = some (h.lazyInit s, z) ∧ (h.lazyInit s).push s v = some h' ∧
      WF h' (upd g s [n]) (initSent h sent s) ∧ (h'.item n).value = v ∧ (h'.hdr s).length = 1 := by
  obtain ⟨z, hp, hw1, hz, _, _, _, hl⟩ := pop_empty_spec hw hs hg
  have hs1 : s < (h.lazyInit s).ns := hw1.lt_ns_of_sent hz
  obtain ⟨h', n, hpush, _, hw2, hv, _, hl2⟩ := push_spec hw1 hs1 v
  obtain ⟨a, ha⟩ := lazyInit_head_some h s
  rw [hg] at hw2
  rw [initSent, if_neg (by simp [ha])] at hw2
  exact ⟨z, h', n, hp, hpush, hw2, hv, by rw [hl2, hl]; rfl⟩

/-- `it.Append(n)` is accepted when `n` is ok and detached and `it` belongs to a stack `s`:
`n` becomes the new top of `s` (wherever `it` sits) and is returned -/
theorem itemAppend_accept_spec (hw : WF h g sent) {it n s : Nat} (hit : it < h.ni) (hn : n < h.ni)
    (hst : (h.item it).stack = some s) (hnst : (h.item n).stack = none) (hnok : (h.item n).ok = true) :
    ∃ h', h.itemAppend it (some n) = some (h', n) ∧ WF h' (upd g s (n :: g s)) sent ∧
      (h'.item n).value = (h.item n).value := by
  obtain ⟨hp, hw'⟩ := Sll.itemAppend_accept hw hit hn hst hnst hnok
  exact ⟨_, hp, hw', by simp [Heap.linked]⟩

/-- in every other case `it.Append(n)` changes nothing and returns `it` -/
theorem itemAppend_reject_spec (h : Heap) (it : Nat) (n : Option Nat)
    (hrej : ¬ ∃ n' s, n = some n' ∧ (h.item it).stack = some s ∧ (h.item n').stack = none ∧
      (h.item n').ok = true) : h.itemAppend it n = some (h, it) :=
  Sll.itemAppend_reject h it n hrej

/-- `it.Remove()` for a member of `s` that is not the top: unlinked, `true`, and `it` is detached -/
theorem itemRemove_mid_spec (hw : WF h g sent) {s it : Nat} (hit : it ∈ g s) (hnh : (g s).head? ≠ some it) :
    ∃ h', h.itemRemove it = some (h', true) ∧ WF h' (upd g s ((g s).erase it)) sent ∧
      (h'.item it).stack = none ∧ (∀ t, it ∉ upd g s ((g s).erase it) t) ∧
      (h'.hdr s).length = (h.hdr s).length - 1 := by
  have hs := hw.lt_ns_of_mem hit
  have hnh' : (h.hdr s).head ≠ some it := by
    cases hz : sent s with
    | none => rw [(hw.head_none_iff hs).2 hz]; simp
    | some z =>
      rw [hw.head_eq hz]
      cases hg : g s with
      | nil => rw [hg] at hit; cases hit
      | cons x xs => rw [hg] at hnh; simpa using hnh
  obtain ⟨pl, hpl, hp, hw'⟩ := Sll.itemRemove_mid hw hit hnh'
  have hst : ((h.unlinked s pl it).item it).stack = none := by simp [Heap.unlinked]
  exact ⟨_, hp, hw', hst, hw'.not_mem_of_stack_none hst, by simp [Heap.unlinked]⟩

/-- `it.Remove()` on detached items, not-ok items and sentinels: nothing changes, `false` -/
theorem itemRemove_reject_spec (h : Heap) (it : Nat)
    (hrej : (h.item it).stack = none ∨ (h.item it).ok = false) : h.itemRemove it = some (h, false) :=
  Sll.itemRemove_reject h it hrej

/-- `Set` refuses exactly when `stack != nil && next == nil`; otherwise only `ok` and `value` change -/
theorem itemSet_spec (h : Heap) (it : Nat) (v : Int) :
    (((h.item it).stack.isSome = true ∧ (h.item it).next = none) → h.itemSet it v = (h, false)) ∧
    (¬ ((h.item it).stack.isSome = true ∧ (h.item it).next = none) →
      h.itemSet it v = (h.setItem it { h.item it with ok := true, value := v }, true)) :=
  ⟨Sll.itemSet_refuse h it v, Sll.itemSet_accept h it v⟩

/-- in a well-formed heap `Set` is refused exactly on the sentinels -/
theorem itemSet_refused_iff (hw : WF h g sent) {it : Nat} (hit : it < h.ni) :
    (h.itemSet it 0).2 = false ↔ ∃ s, sent s = some it := by
  rw [← Sll.refused_iff hw hit]
  by_cases hr : (h.item it).stack.isSome = true ∧ (h.item it).next = none
  · simp [Sll.itemSet_refuse h it 0 hr, hr]
  · simp [Sll.itemSet_accept h it 0 hr, hr]

/-- `Set` on anything that is not a sentinel keeps every stack as it is -/
theorem itemSet_wf (hw : WF h g sent) {it : Nat} (hit : it < h.ni) (v : Int) (hns : ∀ t, sent t ≠ some it) :
    (h.itemSet it v).2 = true ∧ WF (h.itemSet it v).1 g sent ∧
      ((h.itemSet it v).1.item it).value = v ∧ ((h.itemSet it v).1.item it).ok = true := by
  have hr : ¬ ((h.item it).stack.isSome = true ∧ (h.item it).next = none) := by
    intro hr
    obtain ⟨s, hz⟩ := (Sll.refused_iff hw hit).1 hr
    exact hns s hz
  rw [Sll.itemSet_accept h it v hr]
  exact ⟨rfl, hw.setValue v hns, by simp, by simp⟩

/-- `Set` on any allocated item keeps the heap well-formed (on a sentinel it is refused and changes nothing) -/
theorem itemSet_preserves_wf (hw : WF h g sent) {it : Nat} (hit : it < h.ni) (v : Int) :
    WF (h.itemSet it v).1 g sent ∧ ((∃ s, sent s = some it) → h.itemSet it v = (h, false)) := by
  by_cases hr : (h.item it).stack.isSome = true ∧ (h.item it).next = none
  · rw [Sll.itemSet_refuse h it v hr]; exact ⟨hw, fun _ => rfl⟩
  · have hns : ∀ t, sent t ≠ some it := fun t ht => hr ((Sll.refused_iff hw hit).2 ⟨t, ht⟩)
    exact ⟨(itemSet_wf hw hit v hns).2.1, fun ⟨t, ht⟩ => absurd ht (hns t)⟩

/-- `PopIterator` run to EOF yields the whole sequence top first, empties the stack, detaches every item -/
theorem popIter_spec (hw : WF h g sent) {s fuel : Nat} (hs : s < h.ns) (hf : (g s).length < fuel) :
    ∃ h', h.popIterLoop s fuel [] = some (h', g s) ∧ WF h' (upd g s []) (initSent h sent s) ∧
      (∀ x, x ∈ g s → (h'.item x).stack = none) ∧ (h'.hdr s).length = 0 := by
  obtain ⟨h', hp, hw', hni, hns⟩ := Sll.popIterLoop_spec fuel h g [] hw hs hf
  refine ⟨h', by simpa using hp, hw', fun x hx => ?_, ?_⟩
  · obtain ⟨hlt, hok, _⟩ := hw.item_of_mem hx
    refine hw'.detached x (Nat.lt_of_lt_of_le hlt hni) (fun t ht => ?_) (fun t ht => ?_)
    · by_cases e : t = s
      · subst e; rw [upd_same] at ht; cases ht
      · rw [upd_ne _ _ _ _ e] at ht; exact e (hw.disjoint ht hx)
    · simp only [initSent] at ht
      split at ht
      · by_cases e : t = s
        · subst e; rw [upd_same] at ht; cases ht; exact Nat.lt_irrefl _ hlt
        · rw [upd_ne _ _ _ _ e] at ht; exact hw.not_sent_of_mem hx ht
      · exact hw.not_sent_of_mem hx ht
  · have hs' : s < h'.ns := by rw [hns]; exact hs
    rw [(hw'.stk s hs').len, upd_same]; rfl

/-! ## reachable states -/

/-- every state reachable from the empty heap by `allocStack`, `alloc`, `push`, `pop`, `head`, `itemAppend`,
`itemRemove` (not on a top item), `itemSet` (any allocated item) and `popIterLoop` is well-formed -/
theorem reachable_wf {h : Heap} (hr : Reachable h) : ∃ g sent, WF h g sent := hr.wf

/-- a concrete non-trivial reachable state: two stacks; push 1, 2, 3 on the first, 7 on the second, pop the
first, remove its bottom item, set the remaining one to 9 -/
example : ∃ h, Reachable h ∧ h.walk 10 (h.hdr 0).head = ([2], "end") ∧ (h.hdr 0).length = 1 ∧
    (h.item 2).value = 9 ∧ h.walk 10 (h.hdr 1).head = ([5], "end") ∧ (h.item 5).value = 7 ∧
    (h.item 3).stack = none ∧ (h.item 1).stack = none ∧ h.ni = 6 ∧ h.ns = 2 := by
  have r0 : Reachable _ := Reachable.allocStack (Reachable.allocStack Reachable.empty)
  have r1 := Reachable.push (s := 0) (v := 1) r0 (by decide) rfl
  have r2 := Reachable.push (s := 0) (v := 2) r1 (by decide) rfl
  have r3 := Reachable.push (s := 0) (v := 3) r2 (by decide) rfl
  have r4 := Reachable.push (s := 1) (v := 7) r3 (by decide) rfl
  have r5 := Reachable.pop (s := 0) (x := 3) r4 (by decide) rfl
  have r6 := Reachable.itemRemove (it := 1) (b := true) r5 (by decide) (by intro s hs; cases hs; decide) rfl
  have r7 := Reachable.itemSet (it := 2) (v := 9) r6 (by decide)
  exact ⟨_, r7, rfl, rfl, rfl, rfl, rfl, rfl, rfl, rfl, rfl⟩

/-- the invariant is satisfiable on a non-trivial state, with the expected ghost sequences -/
example : ∃ h g sent, WF h g sent ∧ g 0 = [2, 1] ∧ g 1 = [] ∧ sent 0 = some 0 := by
  have r0 : Reachable _ := Reachable.allocStack (Reachable.allocStack Reachable.empty)
  have r1 := Reachable.push (s := 0) (v := 1) r0 (by decide) rfl
  have r2 := Reachable.push (s := 0) (v := 2) r1 (by decide) rfl
  obtain ⟨g, sent, hw⟩ := reachable_wf r2
  have hl0 := length_spec hw (s := 0) (by decide)
  have hl1 := length_spec hw (s := 1) (by decide)
  have hw0 := walk_spec hw (s := 0) (fuel := 10) (by decide)
    (by have : ((2 : Int)) = ((g 0).length : Int) := hl0; omega)
  have hw1 := walk_spec hw (s := 1) (fuel := 10) (by decide)
    (by have : ((0 : Int)) = ((g 1).length : Int) := hl1; omega)
  refine ⟨_, g, sent, hw, (congrArg Prod.fst hw0).symm, (congrArg Prod.fst hw1).symm, ?_⟩
  rcases wf_shape hw (s := 0) (by decide) with ⟨hn, _⟩ | ⟨a, z, _, hz, hseg, _⟩
  · cases hn
  · rw [hz]
    have hg0 : g 0 = [2, 1] := (congrArg Prod.fst hw0).symm
    rw [hg0] at hseg
    obtain ⟨_, _, hz'⟩ := hseg
    exact congrArg some (Option.some.inj hz').symm

/-! ## findings (concrete witnesses; the model mirrors the Go code) -/

/-- `Remove` of the top item: after push 1; push 2; `Remove` of the top item the traversal from the head still
lists two items while `Len()` is 1, and no ghost state makes the heap well-formed -/
theorem remove_head_breaks_wf :
    ∃ h top h', Reachable h ∧ (h.hdr 0).head = some top ∧ h.itemRemove top = some (h', true) ∧
      h'.walk 10 (h'.hdr 0).head = ([2, 1], "end") ∧ (h'.hdr 0).length = 1 ∧
      (h'.item top).stack = none ∧ ¬ ∃ g sent, WF h' g sent := by
  have r0 : Reachable _ := Reachable.allocStack Reachable.empty
  have r1 := Reachable.push (s := 0) (v := 1) r0 (by decide) rfl
  have r2 := Reachable.push (s := 0) (v := 2) r1 (by decide) rfl
  refine ⟨_, 2, _, r2, rfl, rfl, rfl, rfl, rfl, ?_⟩
  rintro ⟨g, sent, hw⟩
  have hl := length_spec hw (s := 0) (by decide)
  have hl' : (1 : Int) = ((g 0).length : Int) := hl
  have hwk := walk_spec hw (s := 0) (fuel := 10) (by decide) (by omega)
  have hg : [2, 1] = g 0 := congrArg Prod.fst hwk
  rw [← hg] at hl'
  exact absurd hl' (by decide)

/-- consequence of the same defect: the stale head has a nil stack field, so the next `Push` is dropped -/
theorem remove_head_then_push_lost :
    ∃ h top h' h'', Reachable h ∧ (h.hdr 0).head = some top ∧ h.itemRemove top = some (h', true) ∧
      h'.push 0 3 = some h'' ∧ h''.walk 10 (h''.hdr 0).head = ([2, 1], "end") ∧ (h''.hdr 0).length = 1 := by
  have r0 : Reachable _ := Reachable.allocStack Reachable.empty
  have r1 := Reachable.push (s := 0) (v := 1) r0 (by decide) rfl
  have r2 := Reachable.push (s := 0) (v := 2) r1 (by decide) rfl
  exact ⟨_, 2, _, _, r2, rfl, rfl, rfl, rfl, rfl⟩

/-- (repaired upstream) `Pop` on a zero-value stack runs `lazyInit` and returns the sentinel; a following
`Push(v)` is no longer lost: the stack then holds exactly `[v]` -/
theorem pop_fresh_then_push (v : Int) :
    ∃ h0 h1 z h2 n, Reachable h0 ∧ h0.ns = 1 ∧ h0.pop 0 = some (h1, z) ∧ (h1.item z).ok = false ∧
      h1.push 0 v = some h2 ∧ Reachable h2 ∧ (h2.hdr 0).length = 1 ∧
      h2.walk 10 (h2.hdr 0).head = ([n], "end") ∧ (h2.item n).value = v := by
  have r0 : Reachable _ := Reachable.allocStack Reachable.empty
  have r1 := Reachable.pop (s := 0) (x := 0) r0 (by decide) rfl
  have r2 := Reachable.push (s := 0) (v := v) r1 (by decide) rfl
  exact ⟨_, _, 0, _, 1, r0, rfl, rfl, rfl, rfl, r2, rfl, rfl, rfl⟩

/-- the sentinel returned by `Pop` on an empty stack refuses `Set` -/
example : ∃ h0 h1 z, Reachable h0 ∧ h0.pop 0 = some (h1, z) ∧ h1.itemSet z 7 = (h1, false) := by
  have r0 : Reachable _ := Reachable.allocStack Reachable.empty
  exact ⟨_, _, 0, r0, rfl, rfl⟩

/-! ## non-vacuity of the one-step hypotheses -/

/-- `Remove` of a non-top member really unlinks it -/
example : ∃ h h', Reachable h ∧ h.walk 10 (h.hdr 0).head = ([3, 2, 1], "end") ∧
    h.itemRemove 2 = some (h', true) ∧ h'.walk 10 (h'.hdr 0).head = ([3, 1], "end") ∧
    (h'.hdr 0).length = 2 ∧ (h'.item 2).stack = none := by
  have r0 : Reachable _ := Reachable.allocStack Reachable.empty
  have r1 := Reachable.push (s := 0) (v := 1) r0 (by decide) rfl
  have r2 := Reachable.push (s := 0) (v := 2) r1 (by decide) rfl
  have r3 := Reachable.push (s := 0) (v := 3) r2 (by decide) rfl
  exact ⟨_, _, r3, rfl, rfl, rfl, rfl, rfl⟩

/-- `Append` of a detached item onto a stack through one of its items; `PopIterator` drains it -/
example : ∃ h h1 h2, Reachable h ∧ h.itemAppend 1 (some 3) = some (h1, 3) ∧
    h1.walk 10 (h1.hdr 0).head = ([3, 2, 1], "end") ∧
    h1.popIterLoop 0 10 [] = some (h2, [3, 2, 1]) ∧ (h2.hdr 0).length = 0 ∧
    h2.walk 10 (h2.hdr 0).head = ([], "end") := by
  have r0 : Reachable _ := Reachable.allocStack Reachable.empty
  have r1 := Reachable.push (s := 0) (v := 1) r0 (by decide) rfl
  have r2 := Reachable.push (s := 0) (v := 2) r1 (by decide) rfl
  have r3 := Reachable.alloc { ok := true, value := 3 } r2 rfl
  exact ⟨_, _, _, r3, rfl, rfl, rfl, rfl, rfl⟩

end FunModel.C16Stack
