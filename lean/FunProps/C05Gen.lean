import FunProofs.GenTieTracker

/-! C05 — T-gen obligations: the limit trackers the Queue model uses (FunModel/Queue.lean `Tracker`) are
    equal to the definitions tools/go2lean regenerates from pubsub/tracker.go on every run
    (lean/FunGen/Tracker.lean). -/
namespace FunModel.C05Gen
open FunModel.Queue FunGen.Tracker FunProofs.GenTie

theorem gen_soft_len (sq hl l : Nat) (cr : Float) :
    (genSoft sq hl l cr).len = ((Tracker.soft sq hl l cr).len : Int) := soft_len sq hl l cr

theorem gen_soft_cap (sq hl l : Nat) (cr : Float) :
    some (genSoft sq hl l cr).cap = ((Tracker.soft sq hl l cr).cap).map (fun (n : Nat) => (n : Int)) :=
  soft_cap sq hl l cr

/-- `queueLimitTrackerImpl.add`: same decision (ok / ErrQueueFull / ErrQueueNoCredit) and same new state -/
theorem gen_soft_add (sq hl l : Nat) (cr : Float) :
    (genSoft sq hl l cr).add = (genOfSoft (Tracker.soft sq hl l cr).add.1, errOf (Tracker.soft sq hl l cr).add.2) :=
  soft_add sq hl l cr

/-- `queueLimitTrackerImpl.remove`, for the states the queue calls it in (`length > 0`, tracker invariant) -/
theorem gen_soft_remove (sq hl l : Nat) (cr : Float) (hl0 : 0 < l) (hsq : 1 ≤ sq) (hh : sq ≤ hl) :
    (genSoft sq hl l cr).remove = genOfSoft (Tracker.soft sq hl l cr).remove := soft_remove sq hl l cr hl0 hsq hh

theorem gen_noLimit_len (l : Nat) : (genNoLimit l).len = ((Tracker.noLimit l).len : Int) := noLimit_len l
theorem gen_noLimit_cap (l : Nat) : (genNoLimit l).cap = maxInt ∧ (Tracker.noLimit l).cap = none := noLimit_cap l
theorem gen_noLimit_add (l : Nat) :
    (genNoLimit l).add = (genNoLimit (Tracker.noLimit l).add.1.len, errOf (Tracker.noLimit l).add.2) := noLimit_add l
theorem gen_noLimit_remove (l : Nat) :
    (genNoLimit l).remove = genNoLimit (Tracker.noLimit l).remove.len := noLimit_remove l

end FunModel.C05Gen
