import FunProofs.BrokerOrder

/-! # C08 — the broker delivers each message exactly once, in order, to every subscriber

    Property theorems about the process model `FunModel.Broker` (event loop, abstract distributor
    with four behaviours, k dispatch workers, serial or parallel dispatch, subscription channels
    with capacity `BufferSize`, any number of publishers, subscribers and messages, every
    interleaving: the theorems quantify over every reachable state, i.e. every finite action
    sequence). The tie to pubsub/broker.go is behavioural (T-out): `allowed_of_reachable` is the
    statement the Lean driver evaluates on runs of the real broker.

    The full statement of the exactly-once part (a message whose Publish returned after Subscribe
    returned and before Unsubscribe *was called* is delivered exactly once) is FALSE for the code
    (finding D24, `broker:unsubscribe-overtakes-inflight`): `unsubscribe_overtakes_inflight` is a
    kernel-checked run of the model, reproduced on the real broker by checks/c08.py. What is
    proved instead is `lossless_exactly_once_partial`. -/

namespace FunProps.C08
open FunModel.Broker FunProofs.Broker

/-- **Every configuration** (all back-ends incl. load-shedding ones, any worker pool, serial or
    parallel dispatch, any BufferSize), every reachable state: what a subscriber has received
    contains no message twice and only messages a Publish call was made for. -/
theorem only_published_no_duplicates (c : Cfg) (s : St) (h : Reachable c s) (k : Sub) :
    (s.recvd k).Nodup ∧ ∀ m ∈ s.recvd k, m ∈ s.published :=
  (uniq_reachable h).recvd_ok k

/-- … and more: inside the broker every message is in exactly one place (a pending Publish call,
    the event loop's hand, the distributor, one dispatch worker, or done), and it is on its way to
    or has reached each subscriber at most once (received + channel buffer + sends in progress). -/
theorem each_message_in_one_place (c : Cfg) (s : St) (h : Reachable c s) (m : Msg) (k : Sub) :
    (flight s ++ s.fin).count m ≤ 1 ∧
      (s.recvd k).count m + (s.chan k).count m + s.sends.count (k, m) ≤ 1 :=
  ⟨(uniq_reachable h).once m, (uniq_reachable h).donce k m⟩

/-- **Single dispatch worker** (all four distributor behaviours hand messages out first-in
    first-out), while the broker's context is live: there is one order — the order in which the
    worker took the messages from the distributor — of which every subscriber's received sequence
    is a subsequence, which itself is a subsequence of the order in which the event loop accepted
    the Publish calls, and in which the messages of each publisher appear in the order they were
    published (sequence numbers increase). Serial or parallel dispatch, any BufferSize. -/
theorem single_worker_same_order (c : Cfg) (h1 : c.nworkers = 1) (s : St) (h : Reachable c s)
    (hl : s.live = true) :
    (∀ k, (s.recvd k).Sublist s.dispatched) ∧ s.dispatched.Sublist s.taken ∧
      s.taken.Pairwise (fun a b => a.1 = b.1 → a.2 < b.2) := by
  have ho := ord_reachable h
  refine ⟨fun k => recvd_sublist_dispatched h1 (wf_reachable h) ho.2 hl k, ?_, ho.1.pw⟩
  exact ((List.sublist_append_left _ _).trans (List.sublist_append_left _ _)).trans ho.1.sub

/-- The same for the log, also after Stop: the receive events older than the first `stop` fit one
    order that keeps every publisher's order. (After the context is done the code may still
    complete a send it had started, in any order; nothing is claimed about those.) -/
theorem single_worker_same_order_log (c : Cfg) (h1 : c.nworkers = 1) (s : St) (h : Reachable c s) :
    ∃ order : List Msg, order.Pairwise (fun a b => a.1 = b.1 → a.2 < b.2) ∧
      ∀ k, (recvs k (liveLog s.log)).Sublist order :=
  ordlog_reachable h h1

/-- With any number of workers the order in which messages are *taken* and handed to the workers
    still keeps each publisher's order (the subscribers' orders then depend on the workers). -/
theorem dispatch_keeps_publisher_order (c : Cfg) (s : St) (h : Reachable c s) :
    s.dispatched.Pairwise (fun a b => a.1 = b.1 → a.2 < b.2) :=
  dispatched_pubLt (ord_reachable h).1

/-- **Lossless broker, exactly once — the part that is true.**

    Full statement (visible, NOT proved, false for the code — D24): on a lossless broker a
    message whose Publish returned, published after the subscriber's Subscribe returned and before
    its Unsubscribe was *called*, is delivered to it exactly once provided it keeps receiving.

    Proved: state form — on a broker whose distributor never discards (`fifo`, `blocking`), in
    every reachable state in which the context is live, every subscriber is receiving and no
    internal action is enabled (so everybody "kept receiving" until nothing was left to do), every
    message the event loop took from a Publish call while subscriber `k` was in its map and `k`
    still is in the map has been received by `k` exactly once. Missing with respect to the full
    statement: messages still on their way when the event loop *processes* Unsubscribe(k) are
    never delivered, although their Publish returned before Unsubscribe was called. -/
theorem lossless_exactly_once_partial (c : Cfg) (hloss : c.backend.lossless = true) (hv : Cfg.valid c)
    (s : St) (h : Reachable c s) (hl : s.live = true) (hopen : allOpen s = true)
    (hq : quiescent c s = true) (k : Sub) (hk : k ∈ s.subs) (m : Msg) (hm : m ∈ s.since k) :
    (s.recvd k).count m = 1 :=
  once_at_quiet hloss hv h hl hopen hq hk hm

/-- The same in terms of what a client can see (BufferSize = 0, the configuration C08 calls
    lossless): Subscribe returned `k` before the Publish call of `m` started, that call returned
    (handing `m` over), and Unsubscribe(k) has not been called: at a quiescent point with the
    context live and every subscriber receiving, `k` has received `m` exactly once. -/
theorem lossless_exactly_once_partial_log (c : Cfg) (hloss : c.lossless = true) (hv : Cfg.valid c)
    (s : St) (h : Reachable c s) (hl : s.live = true) (hopen : allOpen s = true)
    (hq : quiescent c s = true) (k : Sub) (m : Msg)
    (hwin : seenAfter (.subRet k) (.pubCall m) s.log = true) (hret : Ev.pubRet m ∈ s.log)
    (hnu : Ev.unsubCall k ∉ s.log) : (recvs k s.log).count m = 1 := by
  simp only [Cfg.lossless, Bool.and_eq_true, beq_iff_eq] at hloss
  have hli := loginv_reachable h
  have hin : k ∈ s.subs := hli.inMap hloss.2 k (seenAfter_mem hwin) hnu
  rw [hli.recvs k]
  exact once_at_quiet hloss.1 hv h hl hopen hq hin (hli.since hloss.2 k hin m hwin hret)

/-- The conservation law behind it, for every reachable state of a lossless broker with a live
    context: a message taken while `k` was in the map (and `k` still is) has been received by
    `k`, is in `k`'s channel, is being sent to `k`, or is still ahead of `k` (event loop's hand,
    distributor, a worker that has not visited `k` yet). -/
theorem lossless_conservation (c : Cfg) (hloss : c.backend.lossless = true) (s : St) (h : Reachable c s)
    (hl : s.live = true) (k : Sub) (hk : k ∈ s.subs) (m : Msg) (hm : m ∈ s.since k) :
    m ∈ s.recvd k ∨ m ∈ s.chan k ∨ (k, m) ∈ s.sends ∨ Ahead s k m :=
  (owed_reachable hloss h).loc hl k hk m hm

/-! ### D24: the full statement fails — a kernel-checked run of the model -/

/-- `NewBroker` defaults: unbuffered channel distributor, one worker, serial dispatch -/
def cfgD24 : Cfg := { backend := .blocking 0, workers := 1, parallel := false, bufSize := 0 }

/-- Subscribe returns 0; Publish of (0,0) is called and returns; the worker receives the message;
    Unsubscribe(0) is called and processed by the event loop; only then does the worker range
    over the (now empty) subscriber map. -/
def runD24 : List Act :=
  [.subCall, .loopSub 0, .pubCall 0, .loopTake 0, .wRecv 0, .unsubCall 0, .loopUnsub 0, .wStart 0, .wDone 0,
   .observeQuiet]

/-- the window of the full statement: Publish of `m` was called after Subscribe returned `k`,
    it returned, and Unsubscribe(k) was not called before that return -/
def fullWindow (l : List Ev) (k : Sub) (m : Msg) : Bool :=
  seenAfter (.subRet k) (.pubCall m) l && l.contains (.pubRet m) &&
    (!l.contains (.unsubCall k) || seenAfter (.pubRet m) (.unsubCall k) l)

/-- **Kernel-checked witness (not a claim about all runs):** a reachable state of the default
    configuration in which the message is in the window of the full statement, the subscriber has
    been receiving all the time, the context is live and nothing is left to do — and the message
    was not delivered. -/
theorem unsubscribe_overtakes_inflight :
    ∃ s, run cfgD24 (init cfgD24) runD24 = some s ∧ s.live = true ∧ allOpen s = true ∧
      quiescent cfgD24 s = true ∧ fullWindow s.log 0 (0, 0) = true ∧ (0, 0) ∉ s.recvd 0 := by
  refine ⟨_, rfl, ?_, ?_, ?_, ?_, ?_⟩ <;> decide

/-! ### the outcome predicate (T-out) -/

/-- Every check `Broker.allowed` makes holds of the log of every reachable state: no message
    received twice / unpublished; with one worker the receive events before the first `stop` fit
    one order keeping publisher order; at every quiescent point with the context live and all
    subscribers receiving no Publish/Subscribe/Unsubscribe/Stats call is pending and (lossless
    configurations) every message in the window of a still-subscribed subscriber was received; no
    call whose own context is done is pending at any quiescent point; after `stop` no Wait call
    with a live context is pending and no broker goroutine is alive at a quiescent point. -/
theorem allowed_of_reachable (c : Cfg) (hv : Cfg.valid c) (s : St) (h : Reachable c s) :
    allowed c s.log = true :=
  allowed_reachable hv h

/-! ### non-vacuity: concrete reachable states satisfying the hypotheses -/

/-- two subscribers, two messages of one publisher, one worker: both received both, in order -/
def runOrder : List Act :=
  [.subCall, .loopSub 0, .subCall, .loopSub 0, .pubCall 7, .loopTake 0, .wRecv 0, .wStart 0, .wNext 0 1,
   .handoff 1 (7, 0), .wNext 0 0, .handoff 0 (7, 0), .wDone 0, .pubCall 7, .loopTake 0, .wRecv 0, .wStart 0,
   .wNext 0 0, .handoff 0 (7, 1), .wNext 0 1, .handoff 1 (7, 1), .wDone 0, .observeQuiet]

example : ∃ s, run cfgD24 (init cfgD24) runOrder = some s ∧ s.live = true ∧ allOpen s = true ∧
    quiescent cfgD24 s = true ∧ s.recvd 0 = [(7, 0), (7, 1)] ∧ s.recvd 1 = [(7, 0), (7, 1)] ∧
    s.subs = [0, 1] ∧ s.since 1 = [(7, 0), (7, 1)] ∧ s.dispatched = [(7, 0), (7, 1)] := by
  refine ⟨_, rfl, ?_, ?_, ?_, ?_, ?_, ?_, ?_, ?_⟩ <;> decide

example : cfgD24.nworkers = 1 ∧ cfgD24.backend.lossless = true ∧ cfgD24.lossless = true ∧ Cfg.valid cfgD24 := by
  refine ⟨by decide, by decide, by decide, ?_⟩
  simp [Cfg.valid, cfgD24]

end FunProps.C08
