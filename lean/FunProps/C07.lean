import FunModel.Queue
import FunProofs.QueueLive

/-! C07 — `pubsub.Queue`: blocking operations never miss a wake-up. Property theorems over the
    small-step model (`FunModel.Conc` + `FunModel.Queue`; conditions 0 = `nempty`, 1 = `nupdates`),
    for every admissible initial queue (`QInit`: `mkUnlimited` and every `mkSoft hard soft burst`
    are instances — the side conditions `1 ≤ hard`, `soft ≤ hard` of `Validate` turn out not to be
    needed), every number of threads, every list of programs and every schedule: all states
    `Reach`able from `initSys init programs` (what `runCase` builds) by enabled actions.

    Why a single `Signal` on the first item is enough (`doAdd` signals `nempty` only when the length
    becomes 1): every waiter that returns releases its helper, whose `fire` broadcasts `nempty`.
    The inductive invariant (`Queue.Inv.nempty`) is: queue non-empty ∧ somebody parked on `nempty`
    → some woken thread inside `Wait`/`Receive` whose helper has not fired, or some helper for
    `nempty` pending at its gate (`Conc.Wit`); both are enabled internal actions. -/
namespace FunModel.C07
open FunModel.Conc FunModel.Queue

/-- closing never loses queued items -/
theorem close_keeps_items (s : St) (t : Nat) : (start s t .close).st.q = s.q := by
  simp [start]

/-- the initial queues of the harness are admissible -/
theorem init_admissible : QInit mkUnlimited ∧ ∀ hard soft burst, QInit (mkSoft hard soft burst) :=
  ⟨qinit_unlimited, qinit_soft⟩

/-- `no_stuck_queue`: in every reachable quiescent state (no woken goroutine has still to re-check,
    no helper broadcast is outstanding) a parked thread's context is not cancelled and the queue is
    not closed; if it is parked in `Wait` / `Receive` the queue is empty; if it is parked in
    `BlockingAdd` the tracker has no room -/
theorem no_stuck_queue {init : St} (hinit : QInit init) (programs : List (List Op)) {s : Sys St Op}
    (hr : Reach subject (initSys init programs) s) (q : Quiescent s) {t : Nat} {th : Th Op} {c : Nat}
    (hth : s.ths[t]? = some th) (hp : th.st = .parked c) :
    s.subj.closed = false ∧ th.cancelled = false ∧
    ((th.ops[th.pc]? = some .wait ∨ th.ops[th.pc]? = some .recv) → s.subj.q = [] ∧ s.subj.tracker.len = 0) ∧
    (∀ v, th.ops[th.pc]? = some (.badd v) → s.subj.tracker.hasRoom = false) := by
  obtain ⟨hcl, _, _, op, hop, hc, hroom, _⟩ := parked_facts hinit hr hth hp
  obtain ⟨hcan, h0⟩ := no_stuck hinit hr q hth hp
  refine ⟨hcl, hcan, ?_, ?_⟩
  · intro hw
    have : c = 0 := by
      rcases hw with hw | hw <;> (rw [hop] at hw; cases hw; simp [condOf] at hc; exact hc.symm)
    exact ⟨(h0 this).2, (h0 this).1⟩
  · intro v hv; rw [hop] at hv; cases hv; exact hroom v rfl

/-- what is true of a parked thread in *every* reachable state (quiescent or not): it is inside
    `Wait`/`Receive` (on `nempty`) or `BlockingAdd`/iterator-`next` (on `nupdates`), the queue is open,
    it has an unfired helper for its condition, and if its context is cancelled that helper is
    pending at its gate -/
theorem parked_invariant {init : St} (hinit : QInit init) (programs : List (List Op)) {s : Sys St Op}
    (hr : Reach subject (initSys init programs) s) {t : Nat} {th : Th Op} {c : Nat}
    (hth : s.ths[t]? = some th) (hp : th.st = .parked c) :
    s.subj.closed = false ∧ Live c th.helpers ∧ (th.cancelled = true → Pending c th.helpers) ∧
    ((c = 0 ∧ (th.ops[th.pc]? = some .wait ∨ th.ops[th.pc]? = some .recv)) ∨
     (c = 1 ∧ ((∃ v, th.ops[th.pc]? = some (.badd v)) ∨ ∃ k, th.ops[th.pc]? = some (.next k)))) := by
  obtain ⟨hcl, hl, hpend, op, hop, hc, _, _⟩ := parked_facts hinit hr hth hp
  refine ⟨hcl, hl, hpend, ?_⟩
  cases op <;> simp [condOf] at hc <;> subst hc <;> simp [hop]

/-- the wake-up invariant itself: whenever the queue is non-empty and somebody is parked on `nempty`,
    a wake-up is on its way (`Wit`), hence the state is not quiescent -/
theorem nempty_wakeup_pending {init : St} (hinit : QInit init) (programs : List (List Op)) {s : Sys St Op}
    (hr : Reach subject (initSys init programs) s) (hlen : s.subj.tracker.len ≠ 0) (hp : ParkedOn s 0) :
    Wit (fun _ => condOf) s 0 ∧ ¬ Quiescent s :=
  ⟨(reach_inv hinit hr).nempty hlen hp, ((reach_inv hinit hr).nempty hlen hp).not_quiescent⟩

/-- `wait_when_ready_returns`: a `Wait`/`Receive`/`BlockingAdd`/`next` (indeed any operation) whose
    condition `Ready` already holds when it takes the lock — at its start, or when it re-acquires the
    lock after a wake-up — completes in that same segment: the pc advances and it does not park.
    `Ready`: `Wait`/`Receive`: non-empty ∨ closed ∨ context done; `BlockingAdd`: room ∨ closed ∨
    context done; `next k`: an unseen successor ∨ closed ∨ context done; a started operation has a
    live context. -/
theorem wait_when_ready_returns {init : St} (hinit : QInit init) (programs : List (List Op)) {s s' : Sys St Op}
    {a : Act} {obs : String} {t : Nat} {th th' : Th Op} {op : Op} (hr : Reach subject (initSys init programs) s)
    (hen : a ∈ enabled s true) (hs : step subject s a = some (s', obs)) (ha : a = .start t ∨ a = .resume t)
    (hth : s.ths[t]? = some th) (hop : th.ops[th.pc]? = some op) (hth' : s'.ths[t]? = some th')
    (hready : Ready s.subj op (if a = .start t then false else th.cancelled)) :
    th'.pc = th.pc + 1 ∧ ∀ c, th'.st ≠ .parked c :=
  (ready_iff_returns hinit hr hen hs ha hth hop hth').1 hready

/-- the converse: an operation that is not `Ready` parks, on the condition of that operation -/
theorem not_ready_parks {init : St} (hinit : QInit init) (programs : List (List Op)) {s s' : Sys St Op}
    {a : Act} {obs : String} {t : Nat} {th th' : Th Op} {op : Op} (hr : Reach subject (initSys init programs) s)
    (hen : a ∈ enabled s true) (hs : step subject s a = some (s', obs)) (ha : a = .start t ∨ a = .resume t)
    (hth : s.ths[t]? = some th) (hop : th.ops[th.pc]? = some op) (hth' : s'.ths[t]? = some th')
    (hnot : ¬ Ready s.subj op (if a = .start t then false else th.cancelled)) :
    ∃ c, th'.st = .parked c ∧ condOf op = some c ∧ th'.pc = th.pc :=
  (ready_iff_returns hinit hr hen hs ha hth hop hth').2 hnot

/-! ### non-vacuity -/

/-- a consumer parked on the empty unlimited queue: reachable, quiescent, somebody is parked -/
example : ∃ s, Reach subject (initSys mkUnlimited [[.wait], [.add 7]]) s ∧ Quiescent s ∧
    (∃ th, s.ths[0]? = some th ∧ th.st = .parked 0 ∧ th.ops[th.pc]? = some .wait) := by
  refine ⟨_, reach_of_runActs [.start 0] rfl .init, by decide, ⟨_, rfl, rfl, rfl⟩⟩

/-- a producer parked in `BlockingAdd` on a full bounded queue (hard = soft = 1) -/
example : ∃ s, Reach subject (initSys (mkSoft 1 1 0) [[.badd 1, .badd 2]]) s ∧ Quiescent s ∧
    (∃ th, s.ths[0]? = some th ∧ th.st = .parked 1 ∧ th.ops[th.pc]? = some (.badd 2)) := by
  refine ⟨_, reach_of_runActs [.start 0, .start 0] rfl .init, by decide, ⟨_, rfl, rfl, rfl⟩⟩

/-- the subtle schedule: two parked waiters, two adds — only one `Signal`. Thread 1 is woken, thread 2
    is still parked on `nempty` with 2 items queued: the state is reachable, *not* quiescent, and
    `nempty_wakeup_pending` speaks about it. After thread 1 returned, its helper is at the gate. -/
example : ∃ s, Reach subject (initSys mkUnlimited [[.add 1, .add 2], [.wait], [.wait]]) s ∧
    s.subj.tracker.len = 2 ∧ ParkedOn s 0 ∧ .resume 1 ∈ enabled s true := by
  refine ⟨_, reach_of_runActs [.start 1, .start 2, .start 0, .start 0] rfl .init, rfl, ⟨2, _, rfl, rfl⟩, by decide⟩

example : ∃ s, Reach subject (initSys mkUnlimited [[.add 1, .add 2], [.wait], [.wait]]) s ∧
    s.subj.tracker.len = 1 ∧ ParkedOn s 0 ∧ .fire 1 ∈ enabled s true ∧ .resume 1 ∉ enabled s true := by
  refine ⟨_, reach_of_runActs [.start 1, .start 2, .start 0, .start 0, .resume 1] rfl .init, rfl, ⟨2, _, rfl, rfl⟩,
    by decide, by decide⟩

/-- `Ready` is satisfiable and refutable -/
example : Ready (mkSoft 1 1 0) (.badd 3) false ∧ ¬ Ready mkUnlimited .wait false := by
  refine ⟨Or.inl rfl, ?_⟩
  rintro (h | h | h)
  · exact h rfl
  · cases h
  · cases h

end FunModel.C07
