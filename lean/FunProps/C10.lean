import FunProofs.ServiceLive
import FunProps.C12

/-! C10 — srv.Service lifecycle: each phase once, in order, errors complete.

    Property theorems only; the invariants are in `FunProofs/Service*.lean`. Everything is about
    `FunModel/Service.lean`, the small-step model of srv/service.go whose atomic steps are the
    yield points of the `verif` build. All theorems are for the code as it is now (`c.current`:
    the three `fix:` commits applied), for every configuration `c` of phase outcomes
    ({absent, ok, err e, panic p}⁴ × Run blocking or not), every list of caller programs `ps`
    (any number of threads calling Start/Close/Wait/Running in any order, any parent contexts)
    and every state `s` reachable by any schedule (`Reachable c ps s`, including schedules in which
    parent contexts are cancelled at any point and Run finishes before Start returns).

    The log `s.log` is the list of (clock, event): calls/returns of the public methods,
    begin/end of Run/Shutdown/Cleanup/ErrorHandler, parent cancellations; the clock is the index
    of the atomic step that produced the event. `before l k p` = "an event satisfying p has a clock
    < k". The same predicates are evaluated by the driver on logs recorded from the real code. -/

namespace FunModel.C10
open FunModel FunModel.Service

variable {c : Cfg} {ps : List (List Op)} {s : State}

/-! ### Run, Start -/

/-- Run is invoked at most once (never when it is nil). -/
theorem run_at_most_once (hc : c.current) (hr : Reachable c ps s) :
    countEv s.log (isBegin .run) ≤ 1 ∧ (c.run.present = false → countEv s.log (isBegin .run) = 0) := by
  have h := (Inv.reachable hc hr).i2.run.runB
  constructor
  · rw [h]; split <;> omega
  · intro hp; rw [h, hp]; simp

/-- At most one Start ever returns nil; and once no caller is inside a method any more, if Start was
    called at all then exactly one Start has returned nil. -/
theorem exactly_one_start_nil (hc : c.current) (hr : Reachable c ps s) :
    countEv s.log isStartNil ≤ 1 ∧
    ((∀ (t : Nat) (th : Thread), s.ths[t]? = some th → th.loc = .idle) → has s.log isStartCall = true →
      countEv s.log isStartNil = 1) :=
  start_nil_count (Inv.reachable hc hr)

/-- What a Start returns: nil, ErrServiceAlreadyStarted, or ErrServiceReturned — the last only when Run,
    Shutdown and Cleanup had all returned before. -/
theorem others_report_started_or_returned (hc : c.current) (hr : Reachable c ps s)
    {k t i p : Nat} {r : Ret} {th : Thread} (hx : (k, Ev.ret t i r) ∈ s.log) (hth : s.ths[t]? = some th)
    (hop : th.ops[i]? = some (.start p)) :
    r = .startNil ∨ r = .startAlready ∨ (r = .startReturned ∧ phasesDoneBefore c s.log k = true) := by
  have hI := Inv.reachable hc hr
  obtain ⟨op, ho, hm⟩ := hI.i2.book.rt _ hx t i r rfl th hth
  rw [hop] at ho; injection ho with ho; subst ho
  rcases hm with rfl | rfl | rfl
  · exact Or.inl rfl
  · exact Or.inr (Or.inl rfl)
  · exact Or.inr (Or.inr ⟨rfl, by simpa [evOk] using hI.evs _ hx⟩)

/-- A Start called on a finished service (its first check sees `isFinished`) reports ErrServiceReturned at once. -/
theorem start_after_finish_returned (hc : c.current) {t p : Nat} {th : Thread} (hth : s.ths[t]? = some th)
    (hop : th.ops[th.pc]? = some (.start p)) (hl : th.loc = .idle) (hf : s.isFinished = true) :
    step c s (.th t) = some (s.finish t th .startReturned [.call t th.pc (.start p)]) := by
  simp [step, stepTh, hth, hop, hl, hf]

/-! ### Shutdown -/

/-- The shutdown goroutine calls Shutdown only in a step taken while the service context has ended. -/
theorem shutdown_begins_only_when_ctx_done {s' : State} (h : step c s .sd = some s') (he : s.sd = .entry) :
    s.ctxDone = true := by
  have := stepSd_sound h
  cases this <;> simp_all

/-- Shutdown runs at most once (never when nil), and whenever it began, the service context had ended
    for a reason recorded earlier in the log: Run had returned (or is nil), Close had been called, or the
    parent context of a Start had been cancelled. -/
theorem shutdown_once_after_ctx_end (hc : c.current) (hr : Reachable c ps s) :
    countEv s.log (isBegin .shutdown) ≤ 1 ∧ (c.shutdown.present = false → countEv s.log (isBegin .shutdown) = 0) ∧
    ∀ k agg, (k, Ev.phBegin .shutdown agg) ∈ s.log → ctxEndBefore c s.log k = true := by
  have hI := Inv.reachable hc hr
  have h := hI.i2.sd.sdB
  refine ⟨by rw [h]; split <;> omega, fun hp => by rw [h, hp]; simp, fun k agg hx => ?_⟩
  have := hI.evs _ hx
  simp only [evOk, Bool.and_eq_true] at this
  exact this.2

/-! ### Cleanup -/

/-- Cleanup runs at most once (never when nil), and only after Run (if set) and Shutdown (if set) have returned. -/
theorem cleanup_once_after_run_and_shutdown (hc : c.current) (hr : Reachable c ps s) :
    countEv s.log (isBegin .cleanup) ≤ 1 ∧ (c.cleanup.present = false → countEv s.log (isBegin .cleanup) = 0) ∧
    ∀ k agg, (k, Ev.phBegin .cleanup agg) ∈ s.log →
      endedBefore c s.log k .run = true ∧ endedBefore c s.log k .shutdown = true := by
  have hI := Inv.reachable hc hr
  have h := hI.i2.run.cuB
  refine ⟨by rw [h]; split <;> omega, fun hp => by rw [h, hp]; simp, fun k agg hx => ?_⟩
  have := hI.evs _ hx
  simp only [evOk, Bool.and_eq_true] at this
  exact ⟨this.1.2, this.2⟩

/-- "exactly once": by the time any Wait has returned a result, each configured phase among Run, Shutdown,
    Cleanup has run exactly once. -/
theorem phases_exactly_once_after_wait (hc : c.current) (hr : Reachable c ps s) (hw : has s.log isWaitRes = true) :
    (c.run.present = true → countEv s.log (isBegin .run) = 1) ∧
    (c.shutdown.present = true → countEv s.log (isBegin .shutdown) = 1) ∧
    (c.cleanup.present = true → countEv s.log (isBegin .cleanup) = 1) :=
  phases_once_of_finished (Inv.reachable hc hr) ((Inv.reachable hc hr).i2.th.wf hw)

/-! ### ErrorHandler -/

/-- The ErrorHandler runs at most once (never when unset), with a non-nil aggregate, and only after Run,
    Shutdown and Cleanup have returned. -/
theorem handler_at_most_once_after_cleanup_nonnil (hc : c.current) (hr : Reachable c ps s) :
    countEv s.log (isBegin .handler) ≤ 1 ∧ (c.handler.present = false → countEv s.log (isBegin .handler) = 0) ∧
    ∀ k agg, (k, Ev.phBegin .handler agg) ∈ s.log → agg ≠ [] ∧ phasesDoneBefore c s.log k = true := by
  have hI := Inv.reachable hc hr
  refine ⟨hI.i2.eh.ehB1, hI.i2.eh.ehAbs, fun k agg hx => ?_⟩
  have := hI.evs _ hx
  simp only [evOk, Bool.and_eq_true, Bool.not_eq_true', List.isEmpty_eq_false_iff] at this
  exact ⟨this.1.2, this.2⟩

/-! ### Wait, Running -/

/-- Wait returns a result only after Run, Shutdown and Cleanup have returned. -/
theorem wait_blocks_until_phases_done (hc : c.current) (hr : Reachable c ps s)
    {k t i : Nat} {ids : List Nat} (hx : (k, Ev.ret t i (.waitResult ids)) ∈ s.log) :
    phasesDoneBefore c s.log k = true := by
  have := (Inv.reachable hc hr).evs _ hx
  simp only [evOk, Bool.and_eq_true] at this
  exact this.1.1

/-- Wait's result: `errors.Is` finds every error returned by Run/Shutdown/Cleanup and ErrRecoveredPanic if one of
    them panicked (a nil Run counts as a panic of the Run goroutine); it is nil if none failed.
    (`ids` = the leaves of the collector's stack; see `resolve_is_iff_mem` for the link to the C12 model.) -/
theorem wait_result_complete (hc : c.current) (hr : Reachable c ps s)
    {k t i : Nat} {ids : List Nat} (hx : (k, Ev.ret t i (.waitResult ids)) ∈ s.log) :
    (∀ j ∈ mustIds c, j ∈ ids) ∧ (mustIds c = [] → ids = []) := by
  have := (Inv.reachable hc hr).evs _ hx
  simp only [evOk, Bool.and_eq_true, List.all_eq_true, List.contains_eq_mem, decide_eq_true_eq, Bool.or_eq_true,
    Bool.not_eq_true', List.isEmpty_iff] at this
  refine ⟨this.1.2, fun hm => ?_⟩
  rcases this.2 with h | h
  · simp [hm] at h
  · exact h

/-- what `mustIds` is, spelled out -/
theorem mustIds_spec (c : Cfg) (j : Nat) :
    j ∈ mustIds c ↔
      (c.run = .err j ∨ c.shutdown = .err j ∨ c.cleanup = .err j) ∨
      (j = idPanic ∧ (c.run = .absent ∨ (∃ p, c.run = .panic p) ∨ (∃ p, c.shutdown = .panic p) ∨ (∃ p, c.cleanup = .panic p))) := by
  unfold mustIds
  cases hr : c.run <;> cases hs : c.shutdown <;> cases hc : c.cleanup <;> simp <;> grind

/-- The collector as the C12 model sees it: pushing the leaves `ids` one by one (each `ec.Add` of a plain error,
    each half of a `ParsePanic` join) and resolving gives an error on which `errors.Is` finds exactly the ids
    in the list, and nil iff the list is empty. -/
theorem resolve_is_iff_mem (ids : List Nat) (j : Nat) :
    isOpt (collectorResolve (C12.collect (ids.map (fun i => some (Err.leaf i))))) j = true ↔ j ∈ ids := by
  rw [C12.collector_is, C12.collect_eq]
  simp only [List.any_reverse, List.any_eq_true, List.mem_flatMap, List.mem_map]
  constructor
  · rintro ⟨e, ⟨o, ⟨i, hi, rfl⟩, he⟩, hj⟩
    simp [optParts, Err.parts] at he; subst he
    simp [Err.is] at hj; subst hj; exact hi
  · intro hj
    exact ⟨.leaf j, ⟨some (.leaf j), ⟨j, hj, rfl⟩, by simp [optParts, Err.parts]⟩, by simp [Err.is]⟩

theorem resolve_nil_iff (ids : List Nat) :
    collectorResolve (C12.collect (ids.map (fun i => some (Err.leaf i)))) = none ↔ ids = [] := by
  cases ids with
  | nil => simp [C12.collect, flatten, ErrList.ofList, ErrList.pushAll, collectorResolve]
  | cons i r =>
    have : isOpt (collectorResolve (C12.collect ((i :: r).map (fun i => some (Err.leaf i))))) i = true :=
      (resolve_is_iff_mem (i :: r) i).mpr (by simp)
    constructor
    · intro h; rw [h] at this; simp [isOpt] at this
    · intro h; simp at h

/-- Once a Wait has returned a result, `Running()` evaluated in any later state is false. -/
theorem not_running_after_wait (hc : c.current) (hr : Reachable c ps s) (hw : has s.log isWaitRes = true) :
    s.runningNow c = false := by
  have hf := (Inv.reachable hc hr).i2.th.wf hw
  simp [State.runningNow, hc.2.2, hf]

/-- The same for the `Running()` calls of the callers (which take two atomic loads): a call that returned true
    has its call event in the log, and no Wait had returned a result before that call began. -/
theorem running_true_only_before_wait_returns (hc : c.current) (hr : Reachable c ps s)
    {k t i : Nat} (hx : (k, Ev.ret t i (.running true)) ∈ s.log) :
    ∃ k0, (k0, Ev.call t i .running) ∈ s.log ∧
      ∀ kw t' i' ids, (kw, Ev.ret t' i' (.waitResult ids)) ∈ s.log → k0 ≤ kw := by
  have := (Inv.reachable hc hr).evs _ hx
  simp only [evOk, runningCallOk, List.any_eq_true, Bool.and_eq_true, beq_iff_eq, Bool.not_eq_true'] at this
  obtain ⟨y, hy, hy2, hb⟩ := this
  refine ⟨y.1, by rw [← hy2]; exact hy, fun kw t' i' ids hw => ?_⟩
  rcases Nat.lt_or_ge kw y.1 with hlt | hge
  · have : before s.log y.1 isWaitRes = true := by
      simp only [before, List.any_eq_true, Bool.and_eq_true, decide_eq_true_eq]
      exact ⟨_, hw, hlt, rfl⟩
    rw [hb] at this; exact absurd this (by simp)
  · exact hge

/-- Each operation of each caller is logged as called at most once (so "its call event" above is unique). -/
theorem call_events_unique (hc : c.current) (hr : Reachable c ps s) {x y : Nat × Ev} (hx : x ∈ s.log) (hy : y ∈ s.log)
    {t i : Nat} {op op' : Op} (h1 : x.2 = .call t i op) (h2 : y.2 = .call t i op') : x = y :=
  (CallU.reachable hc hr).uniq x hx y hy t i op op' h1 h2

/-! ### the whole property as one decidable predicate on the log -/

/-- Every reachable log is accepted by `allowedLog` — the predicate the driver evaluates on the call logs recorded
    from the implementation (harness cases `svcmatrix`, `svcfree`). -/
theorem allowedLog_of_reachable (hc : c.current) (hr : Reachable c ps s) : allowedLog c s.log = true :=
  allowedLog_inv (Inv.reachable hc hr)

/-! ### liveness as safety -/

/-- No stuck state: in a reachable state in which no caller and no service goroutine can take a step, and in which
    the service context has ended or Run does not block on it: every caller has finished its program, and if the
    service was started all three service goroutines have exited (Run returned, Shutdown and Cleanup done, handler
    goroutine gone, wait-group at zero). -/
theorem lifecycle_completes (hc : c.current) (hr : Reachable c ps s)
    (hq : ∀ a, (∀ p, a ≠ .cancelParent p) → step c s a = none)
    (hend : s.ctxDone = true ∨ c.runBlocks = false) :
    (∀ (t : Nat) (th : Thread), s.ths[t]? = some th → th.ops.length ≤ th.pc) ∧
    (s.once ≠ .fresh → s.rg = .gone ∧ s.sd = .gone ∧ s.eh = .gone ∧ s.wg = 0) :=
  no_stuck hc (Inv.reachable hc hr) (LocOp.reachable hc hr) hq hend

/-- …and if Run blocks and its context never ends, the only goroutines left are the ones waiting for that:
    Run itself, the shutdown goroutine at `<-ctx.Done()`, the handler goroutine at `<-mainSignal`; callers can only be
    blocked in `wg.Wait`. -/
theorem quiescent_shape (hc : c.current) (hr : Reachable c ps s)
    (hq : ∀ a, (∀ p, a ≠ .cancelParent p) → step c s a = none) (hl : s.once ≠ .fresh) (hg : s.rg ≠ .gone) :
    s.rg = .inRun ∧ s.sd = .entry ∧ s.eh = .entry ∧ s.ctxDone = false ∧ c.runBlocks = true ∧
    (∀ (t : Nat) (th : Thread), s.ths[t]? = some th → th.ops.length ≤ th.pc ∨ th.loc = .waitStarted) :=
  stuck_shape hc (Inv.reachable hc hr) (LocOp.reachable hc hr) hq hl hg

/-- Bounded progress: every step of a caller or of a service goroutine strictly decreases `measure`, and a parent
    cancellation does not increase it — so every schedule has finitely many non-cancel steps and (with
    `lifecycle_completes`) every maximal run ends with all service goroutines exited once the context has ended. -/
theorem step_decreases_measure {a : Act} {s' : State} (hc : c.current) (hr : Reachable c ps s) (h : step c s a = some s') :
    (∀ p, a ≠ .cancelParent p) → measure s' < measure s :=
  measure_decreases hc (Inv.reachable hc hr) h

theorem cancel_keeps_measure {p : Nat} {s' : State} (h : step c s (.cancelParent p) = some s') :
    measure s' = measure s := measure_cancel h

/-! ### witnesses about the code *before* the fixes (kernel-checked counter-schedules on the old variants of the
    model; they are about the old code only — the theorems above are about the current code) -/

def rep (n : Nat) (a : Act) : List Act := List.replicate n a

/-- the tree before the three fixes -/
def oldCfg : Cfg := { run := .ok, shutdown := .absent, cleanup := .absent, handler := .absent, runBlocks := false,
                      fixD19 := false, fixD20 := false, fixRunning := false }

def lastEv (s : State) : Option Ev := s.log.getLast?.map (·.2)

/-- the service goroutines run to completion: rg ×4 (Run … recovered), sd ×3, rg ×6, eh ×3 -/
def serviceRuns : List Act := rep 4 .rg ++ rep 3 .sd ++ rep 6 .rg ++ rep 3 .eh

/-- witness D19 (old code): the starter is parked at `Start.launched`; Run and its whole deferred chain finish
    (isFinished=true, isRunning=false); Start's deferred `isRunning.Store(true)` then runs; Wait returns; Running() is true. -/
example : (run oldCfg (init [[.start 0, .wait, .running]]) (rep 4 (.th 0) ++ serviceRuns ++ rep 4 (.th 0))).map
    (fun s => (lastEv s, allowedLog oldCfg s.log)) = some (some (.ret 0 2 (.running true)), false) := by decide

/-- …and with the D19 fix alone the same schedule ends with Running() = false -/
example : (run { oldCfg with fixD19 := true } (init [[.start 0, .wait, .running]])
    (rep 4 (.th 0) ++ serviceRuns ++ rep 4 (.th 0))).map lastEv = some (some (.ret 0 2 (.running false))) := by decide

/-- witness D20 (code with the D19 fix only): thread 1 is parked at `Start.checked`; thread 0 starts the service, it
    finishes, Wait returns; thread 1's `Swap(true)` succeeds: a second Start returns nil (and Running() is true). -/
example : (run { oldCfg with fixD19 := true } (init [[.start 0, .wait], [.start 0, .running]])
    ([.th 1] ++ rep 6 (.th 0) ++ serviceRuns ++ [.th 0] ++ rep 4 (.th 1))).map
    (fun s => (countEv s.log isStartNil, lastEv s, allowedLog { oldCfg with fixD19 := true } s.log))
    = some (2, some (.ret 1 1 (.running true)), false) := by decide

/-- witness (code with the D19 and D20 fixes, Running() = isRunning.Load()): Wait returns through the `isFinished` fast
    path while the Run goroutine is between `isFinished.Store(true)` and `isRunning.Store(false)`; Running() is true. -/
example : (run { oldCfg with fixD19 := true, fixD20 := true } (init [[.start 0, .wait], [.running]])
    (rep 6 (.th 0) ++ rep 4 .rg ++ rep 3 .sd ++ rep 3 .rg ++ [.th 0, .th 1])).map
    (fun s => (lastEv s, allowedLog { oldCfg with fixD19 := true, fixD20 := true } s.log))
    = some (some (.ret 1 0 (.running true)), false) := by decide

/-- witness (same code): the stale Start of thread 1 has swapped isRunning to true after the service finished and Wait
    returned; before it undoes the swap a third caller sees Running() = true. -/
example : (run { oldCfg with fixD19 := true, fixD20 := true } (init [[.start 0, .wait], [.start 0], [.running]])
    ([.th 1] ++ rep 6 (.th 0) ++ serviceRuns ++ [.th 0, .th 1, .th 2])).map lastEv
    = some (some (.ret 2 0 (.running true))) := by decide

/-! ### non-vacuity: the current code on the same schedules, and a non-trivial reachable state -/

def curCfg : Cfg := { run := .err 11, shutdown := .panic 22, cleanup := .ok, handler := .ok, runBlocks := true }

/-- a complete run with a blocking Run ended by Close, two starters, a waiter: reachable, all goroutines gone -/
def sampleSched : List Act :=
  [.th 1] ++ rep 6 (.th 0) ++ [.th 2, .th 2] ++ [.th 0] ++ rep 4 .rg ++ rep 4 .sd ++ rep 7 .rg ++ rep 4 .eh ++ rep 3 (.th 1) ++ rep 2 (.th 2) ++ [.th 0]

def samplePrograms : List (List Op) := [[.start 0, .close, .wait], [.start 0], [.wait, .running]]

example : curCfg.current := by decide
/-- the hypotheses of the theorems above are satisfiable by a non-trivial state: a reachable state of the current code in
    which a Wait has returned a result, the handler has run, and a stale Start has reported ErrServiceReturned -/
example : ∃ s, Reachable curCfg samplePrograms s ∧ has s.log isWaitRes = true ∧ countEv s.log (isBegin .handler) = 1
    ∧ (31, Ev.ret 1 0 .startReturned) ∈ s.log ∧ s.once ≠ .fresh := by
  refine ⟨(run curCfg (init samplePrograms) sampleSched).get (by decide), ⟨sampleSched, by simp⟩, ?_, ?_, ?_, ?_⟩ <;> decide
example : ((run curCfg (init samplePrograms) sampleSched).map (fun s => (s.rg, s.sd, s.eh, s.wg)))
    = some (.gone, .gone, .gone, 0) := by decide
example : ((run curCfg (init samplePrograms) sampleSched).map (fun s => (countEv s.log isStartNil, s.coll)))
    = some (1, [11, 22, 1000]) := by decide
example : ((run curCfg (init samplePrograms) sampleSched).map (fun s => allowedLog curCfg s.log)) = some true := by decide
example : mustIds curCfg = [11, 1000] := by decide

end FunModel.C10
