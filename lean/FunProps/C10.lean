import FunModel.Service

/-! C10 — srv.Service lifecycle (placeholder; theorems land with FunProofs/Service.lean) -/
namespace FunModel.C10
open FunModel.Service

theorem init_not_running (c : Cfg) (ps : List (List Op)) : (init ps).runningNow c = false := by
  simp [init, State.runningNow]

end FunModel.C10
