import FunProofs.GenTieCmp
import FunProofs.SortPtr

/-! C17 — T-gen obligations. tools/go2lean (cmp.go) re-reads dt/cmp.go on every run of `./check` and rewrites
    lean/FunGen/Cmp.lean: `List.IsSorted`, `split`, `merge`, `mergeSort`, `List.SortMerge`, `Heap.lazySetup`,
    `Heap.Push`, `Heap.Pop`, `Heap.Len`, statement by statement, over the heap of FunModel/Dll.lean (every pointer an
    `Option Nat`, `none` result = panic, loops and the recursion as functions over `fuel`, calls into dt/list.go mapped
    onto the operations of the C16 model — the mapping is the preamble of the generated file and is trusted).

    These theorems say that the hand-written pointer-level model FunProps/C17Ptr.lean is about
    (`Heap.isSortedLoop/isSorted`, `splitLoop/split`, `mergeLoop/merge`, `mergeSort`, `sortMerge`,
    `heapPushLoop/heapPush`, and `popFront` + `(item, ok)` for `Heap.Pop`) computes what the generated definitions
    compute on a non-nil receiver: loops and the recursion for EVERY fuel, wrappers with the fuel the model passes
    (`length + 1`; the generated callers take the callee's fuel from a policy `φ`, instantiated here with the model's
    measures `handFuel`). Heaps are arbitrary except where stated:
    * `RS h l` (`l.root != nil`) for the output list of the loops of `split`/`merge` (the wrappers establish it:
      `out.lazySetup()`) and for the two inputs of `merge` — the generated code calls `Front()/Back()` (hence
      `lazySetup`) where the model reads `root.next/prev` directly or in another order, which agree once the sentinels
      exist;
    * `0 ≤ length` for `split` (Go's `/` truncates, the model's rounds down);
    * `mergeSort`: the sentinel of `head` exists and so do those of the lists allocated since some point `n`
      (`RSFrom`; vacuous for `n` = the current allocation pointer, which is how `gen_sortMerge` uses it);
    * `SortMerge`: the list is allocated and has its sentinel if it holds two or more elements — true in every
      well-formed heap (`gen_sortMerge_wf`, hypothesis `WF` of C16/C17Ptr only).
    `SortQuick` (slice, `sort.SliceStable`, closure, `range`) is outside the translated subset: T-diff only. -/
namespace FunModel.C17Gen
open FunModel.Dll FunModel.Dll.Heap FunGen.Cmp FunProofs.GenTieCmp

/-! ### IsSorted -/

/-- the walk of `IsSorted` (`for item := …; item.Ok(); item = item.Next()` comparing `item.Value()` with
    `item.Previous().Value()`) is the model's `isSortedLoop`, for every fuel and start pointer: `false` = the body
    returned false, `true` = the loop was left -/
theorem gen_isSortedLoop (h : Heap) (lt : Int → Int → Bool) (l : Option Nat) (fuel : Nat) (cur : Option Nat) :
    List_IsSorted_loop1 fuel h l lt cur =
      (h.isSortedLoop lt cur fuel).map (fun b => (h, if b then none else some false)) :=
  isSortedLoop_tie h lt l fuel cur

/-- `l.IsSorted(lt)` (guard `l == nil || l.Len() <= 1`, start at `l.root.Next().Next()`, final `return true`) is the
    model's `isSorted`, heap untouched -/
theorem gen_isSorted (h : Heap) (lt : Int → Int → Bool) (l : Nat) :
    List_IsSorted ((h.hdr l).length.toNat + 1) h (some l) lt = (h.isSorted lt l).map (fun b => (h, b)) :=
  isSorted_tie h lt l

/-- a nil list is sorted (no panic) -/
theorem gen_isSorted_nil (fuel : Nat) (h : Heap) (lt : Int → Int → Bool) :
    List_IsSorted fuel h none lt = some (h, true) := isSorted_nil fuel h lt

/-! ### split, merge, mergeSort, SortMerge -/

/-- the loop of `split` (`for list.Len() > total/2 { out.Back().Append(list.PopFront()) }`), every fuel -/
theorem gen_splitLoop (fuel : Nat) (h : Heap) (l out : Nat) (total : Int) (hr : RS h out) :
    split_loop1 fuel h (some l) total (some out) =
      (h.splitLoop l out (Int.tdiv total 2) fuel).map (fun μ => (μ, none)) :=
  splitLoop_tie fuel h l out total hr

/-- `split(list)` is the model's `split` -/
theorem gen_split (h : Heap) (l : Nat) (h0 : 0 ≤ (h.hdr l).length) :
    FunGen.Cmp.split ((h.hdr l).length.toNat + 1) h (some l) = (h.split l).map (fun p => (p.1, some p.2)) :=
  split_tie h l h0

/-- the loop of `merge` (condition `a.Len() != 0 && b.Len() != 0`, the comparison
    `lt(a.Front().Value(), b.Front().Value())`, which list is popped in which branch), every fuel -/
theorem gen_mergeLoop (fuel : Nat) (lt : Int → Int → Bool) (a b out : Nat) (h : Heap)
    (ha : RS h a) (hb : RS h b) (ho : RS h out) :
    merge_loop1 fuel h lt (some a) (some b) (some out) = (h.mergeLoop lt a b out fuel).map (fun μ => (μ, none)) :=
  mergeLoop_tie fuel lt a b out h ha hb ho

/-- `merge(lt, a, b)` is the model's `merge` (allocation of `out`, loop, the two `Extend`s in this order) -/
theorem gen_merge (h : Heap) (lt : Int → Int → Bool) (a b : Nat) (ha : RS h a) (hb : RS h b)
    (han : a ≠ h.nl) (hbn : b ≠ h.nl) :
    FunGen.Cmp.merge (mergeFuel h a b) h lt (some a) (some b) = (h.merge lt a b).map (fun p => (p.1, some p.2)) :=
  merge_tie h lt a b ha hb han hbn

/-- `mergeSort(head, lt)` is the model's `mergeSort`, for every recursion fuel -/
theorem gen_mergeSort (lt : Int → Int → Bool) (n fuel : Nat) (h : Heap) (head : Nat)
    (ha : RSFrom n h) (hn : n ≤ h.nl) (hh : head < h.nl) (hr : RS h head) :
    FunGen.Cmp.mergeSort fuel handFuel h (some head) lt =
      (h.mergeSort lt head fuel).map (fun p => (p.1, some p.2)) :=
  mergeSort_tie lt n fuel h head ha hn hh hr

/-- `l.SortMerge(lt)` (`if sorted := mergeSort(l, lt); sorted != l { l.Extend(sorted) }`) is the model's `sortMerge` -/
theorem gen_sortMerge (h : Heap) (lt : Int → Int → Bool) (l : Nat) (hl : l < h.nl)
    (hr : 2 ≤ (h.hdr l).length → RS h l) :
    List_SortMerge handFuel h (some l) lt = h.sortMerge lt l :=
  sortMerge_tie h lt l hl hr

/-- … in particular on every allocated list of every well-formed heap (the hypothesis of `C17Ptr.sortMerge_refines`) -/
theorem gen_sortMerge_wf {h : Heap} {g : Nat → List Nat} (hw : WF h g) (lt : Int → Int → Bool) {l : Nat}
    (hl : l < h.nl) : List_SortMerge handFuel h (some l) lt = h.sortMerge lt l :=
  sortMerge_tie_wf hw lt hl

/-! ### Heap -/

/-- `Heap.lazySetup` panics on a nil heap … -/
theorem gen_heapLazySetup_nil (h : Heap) : Heap_lazySetup h none = none := heapLazySetup_nil h
/-- … and on a heap without comparator -/
theorem gen_heapLazySetup_noLT (h : Heap) (l : Option Nat) :
    Heap_lazySetup h (some { LT := none, list := l }) = none := heapLazySetup_noLT h l
/-- … does nothing once the backing list exists -/
theorem gen_heapLazySetup (h : Heap) (lt : Int → Int → Bool) (l : Nat) :
    Heap_lazySetup h (some { LT := some lt, list := some l }) = some (h, some { LT := some lt, list := some l }) :=
  heapLazySetup_some h lt l
/-- … and otherwise allocates it and creates its sentinel -/
theorem gen_heapLazySetup_fresh (h : Heap) (lt : Int → Int → Bool) :
    Heap_lazySetup h (some { LT := some lt, list := none }) =
      some (h.allocList.1.lazySetup h.nl, some { LT := some lt, list := some h.nl }) := heapLazySetup_fresh h lt

/-- the scan of `Heap.Push` (`for item := h.list.Back(); item.Ok(); item = item.Previous()`: `continue` while
    `LT(t, item.item)`, else `item.Append(NewElement(t)); return`) followed by what `Push` does when the loop is left
    (`h.list.PushFront(t)`) is the model's `heapPushLoop`, for every fuel and start pointer -/
theorem gen_heapPushLoop (h : Heap) (lt : Int → Int → Bool) (l : Nat) (t : Int) (fuel : Nat) (cur : Option Nat) :
    (Heap_Push_loop1 fuel h (some { LT := some lt, list := some l }) t cur).bind (pushRest l t) =
      h.heapPushLoop lt l t cur fuel := heapPushLoop_tie h lt l t fuel cur

/-- `Heap.Push(t)` on a heap with backing list `l` is the model's `heapPush` on `l` -/
theorem gen_heapPush (h : Heap) (lt : Int → Int → Bool) (l : Nat) (t : Int) :
    Heap_Push ((h.hdr l).length.toNat + 1) h (some { LT := some lt, list := some l }) t =
      (h.heapPush lt l t).map (fun μ => (μ, some { LT := some lt, list := some l })) := heapPush_tie h lt l t

/-- the first `Push` allocates the backing list and then is the model's `heapPush` on it -/
theorem gen_heapPush_fresh (fuel : Nat) (h : Heap) (lt : Int → Int → Bool) (t : Int) :
    Heap_Push fuel h (some { LT := some lt, list := none }) t =
      (h.allocList.1.heapPush lt h.nl t).map (fun μ => (μ, some { LT := some lt, list := some h.nl })) :=
  heapPush_fresh fuel h lt t

/-- `Push` on a nil heap panics -/
theorem gen_heapPush_nil (fuel : Nat) (h : Heap) (t : Int) : Heap_Push fuel h none t = none := heapPush_nil fuel h t

/-- `Heap.Pop()` is `PopFront` on the backing list, returning the element's `(item, ok)` — the reading of `Pop` in
    `SortPtr.heapRun` / `C17Ptr.heapPop_refines_*` -/
theorem gen_heapPop (h : Heap) (lt : Int → Int → Bool) (l : Nat) :
    Heap_Pop h (some { LT := some lt, list := some l }) =
      (h.popFront l).map (fun p =>
        (p.1, some { LT := some lt, list := some l }, (p.1.node p.2).item, (p.1.node p.2).ok)) := heapPop_tie h lt l

/-- `Heap.Len()` is the length field of the backing list … -/
theorem gen_heapLen (h : Heap) (lt : Option (Int → Int → Bool)) (l : Nat) :
    Heap_Len h (some { LT := lt, list := some l }) = some (h, some { LT := lt, list := some l }, (h.hdr l).length) :=
  heapLen_tie h lt l
/-- … and 0 before the first push -/
theorem gen_heapLen_fresh (h : Heap) (lt : Option (Int → Int → Bool)) :
    Heap_Len h (some { LT := lt, list := none }) = some (h, some { LT := lt, list := none }, 0) := heapLen_fresh h lt

/-! ### non-vacuity: the GENERATED functions run on concrete heaps (kernel-checked) -/

open FunProofs.SortPtr in
/-- the generated `SortMerge` sorts 3,-1,2,-1,0 (stable: observable with the key-projected comparison below) -/
example : (demo5.bind fun h => (List_SortMerge handFuel h (some 0) (fun a b => a < b)).map fun h => observe h 0) =
    some ([-1, -1, 0, 2, 3], [3, 2, 0, -1, -1], 5) := by decide
open FunProofs.SortPtr in
example : (demo5.bind fun h =>
      (List_SortMerge handFuel h (some 0) (fun a b => (a + 1000) / 10 < (b + 1000) / 10)).map fun h => observe h 0) =
    some ([-1, -1, 3, 2, 0], [0, 2, 3, -1, -1], 5) := by decide
open FunProofs.SortPtr in
example : (demo5.bind fun h => (List_IsSorted 6 h (some 0) (fun a b => a < b)).map (·.2)) = some false := by decide
/-- the hypotheses of `gen_sortMerge` hold of that heap -/
example : FunProofs.SortPtr.demo5.isSome = true ∧
    ∀ h, FunProofs.SortPtr.demo5 = some h → 0 < h.nl ∧ RS h 0 := by
  refine ⟨by decide, ?_⟩
  intro h hh
  have : (FunProofs.SortPtr.demo5.map fun h => (decide (0 < h.nl), ((h.hdr 0).root).isSome)) = some (true, true) := by decide
  rw [hh] at this
  simp only [Option.map_some, Option.some.injEq, Prod.mk.injEq, decide_eq_true_eq] at this
  exact ⟨this.1, this.2⟩
/-- generated `Push`/`Pop` from an empty heap object: pushes 2, -3, 2 then three pops and one more -/
example : (do
      let lt : Int → Int → Bool := fun a b => a < b
      let (μ, hp) ← Heap_Push 9 ({} : Heap) (some { LT := some lt, list := none }) 2
      let (μ, hp) ← Heap_Push 9 μ hp (-3)
      let (μ, hp) ← Heap_Push 9 μ hp 2
      let (μ, hp, n) ← Heap_Len μ hp
      let (μ, hp, a) ← Heap_Pop μ hp
      let (μ, hp, b) ← Heap_Pop μ hp
      let (μ, hp, c) ← Heap_Pop μ hp
      let (_, _, d) ← Heap_Pop μ hp
      pure (n, [a, b, c, d])) = some (3, [(-3, true), (2, true), (2, true), (0, false)]) := by decide

end FunModel.C17Gen
