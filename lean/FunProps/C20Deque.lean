import FunProofs.DequeIter

/-! C20 (Deque half) — the non-destructive Deque iterators `Producer` / `ProducerReverse` /
    `ProducerBlocking` / `ProducerReverseBlocking` (`Iterator` / `IteratorReverse` wrap the first two).

    Model: `Op.next d blocking k` = one call of iterator `k` of that kind; its cursor is an element
    identity (0 = the root, also the `nil` the closure starts with); `St.nbr d e` is
    `e.getNextOrPrevious(d)`, taken from the live list while `e` is linked and from the links `e`
    kept when it was popped (`stale`) afterwards. `ahead x d c` = what an iterator in direction `d`
    standing on `c` has not passed yet. Hypothesis `Owned`: each iterator is used by one
    goroutine. Proofs: `FunProofs/DequeIter.lean`, `FunProofs/DequeWake.lean`. -/
namespace FunModel.C20Deque
open FunModel.Conc FunModel.Deque

/-- a deque fresh from `NewDeque` satisfies both identity invariants -/
theorem inv23_new (o : Opts) (st : St) (h : newDeque o = some (some st)) : Inv23 st := by
  obtain ⟨_, hq, _, hs, hc, hn, hv⟩ := (newDeque_ok o).2 st h
  refine ⟨⟨by omega, ?_, ?_, ?_, ?_⟩, ⟨?_, ?_, ?_, ?_, ?_, ?_⟩⟩
  · intro i hi; simp [St.ids, hq] at hi
  · simp [St.ids, hq]
  · intro p hp; simp [hc] at hp
  · intro p hp; simp [hs] at hp
  · intro i hi; simp [St.ids, hq] at hi
  · intro p hp; simp [hq] at hp
  · intro p hp; simp [hv] at hp
  · simp [hv]
  · intro p hp; simp [hc] at hp
  · intro p hp; simp [hs] at hp

def exSt : St := { tracker := .noLimit 2, q := [(1, 10), (2, 20)], vals := [(2, 20), (1, 10)], nextId := 3 }
theorem exSt_inv23 : Inv23 exSt :=
  ⟨⟨by decide, by simp [exSt, St.ids], by simp [exSt, St.ids], by simp [exSt], by simp [exSt]⟩,
   ⟨by simp [exSt, St.ids], by simp [exSt], by simp [exSt], by simp [exSt], by simp [exSt], by simp [exSt]⟩⟩

/-- **iter_nondestructive**: an iterator call never changes the contents, the closed flag or the
    tracker of the deque -/
theorem iter_nondestructive (s : St) (d : End) (b : Bool) (k : Nat) (cancelled : Bool) :
    absS (startR s (.next d b k)).st = absS s ∧ absS (resumeR s (.next d b k) cancelled).st = absS s :=
  iter_absS s d b k cancelled

/-- **iter_complete_in_order**: while the element an iterator stands on is still in the deque (or it
    has not yielded anything yet) — in particular when nothing is removed — (1) `n = |unseen|`
    successive calls yield exactly the unseen items, in container order for the forward kinds and in
    reverse order for the reverse kinds, each once, none skipped, and leave the deque unchanged with
    nothing unseen; (2) a push at the far end appends the new item to the unseen part, a push at the
    near end leaves the unseen part of a started iterator alone (an iterator that has not started
    sees the new first item): so with pushes interleaved the yielded sequence is a prefix of
    present ++ pushed-later, in order. -/
theorem iter_complete_in_order (x : St) (h : Inv23 x) (d : End) (b : Bool) (k : Nat)
    (hc : x.cursor (cursorKey d b k) = 0 ∨ x.cursor (cursorKey d b k) ∈ x.ids) :
    (let L := ahead x d (x.cursor (cursorKey d b k))
     (iterRun x d b k L.length).2 = L.map (fun p => FinR.ret (.val p.2)) ∧
     abs (iterRun x d b k L.length).1 = abs x ∧
     ahead (iterRun x d b k L.length).1 d ((iterRun x d b k L.length).1.cursor (cursorKey d b k)) = []) ∧
    (∀ v, ahead (pushed x d.opp v) d (x.cursor (cursorKey d b k)) = ahead x d (x.cursor (cursorKey d b k)) ++ [(x.nextId, v)]) ∧
    (∀ v, ahead (pushed x d v) d (x.cursor (cursorKey d b k)) =
      if x.cursor (cursorKey d b k) = 0 then (x.nextId, v) :: ahead x d 0 else ahead x d (x.cursor (cursorKey d b k))) := by
  refine ⟨?_, fun v => ahead_push_far x d v _ hc, fun v => ?_⟩
  · obtain ⟨h1, h2, _, h4⟩ := iterRun_ahead d b k _ x h.i2 h.i3 hc rfl
    exact ⟨h1, h2, h4⟩
  · have := ahead_push_near x h.i2 d v _ hc
    by_cases h0 : x.cursor (cursorKey d b k) = 0
    · rw [h0] at this ⊢; exact this
    · simpa [h0] using this

example : (iterRun exSt .back false 0 2).2 = [.ret (.val 20), .ret (.val 10)] :=
  (iter_complete_in_order exSt exSt_inv23 .back false 0 (Or.inl rfl)).1.1

/-- the first unseen element is what a single call yields; with nothing unseen the non-blocking
    kinds end at the sentinel with io.EOF and stay there, the blocking kinds park (open deque) or
    end with ErrQueueClosed, which is an io.EOF (closed deque) -/
theorem iter_next (x : St) (h : Inv23 x) (d : End) (b : Bool) (k : Nat)
    (hc : x.cursor (cursorKey d b k) = 0 ∨ x.cursor (cursorKey d b k) ∈ x.ids) :
    (∀ e v rest, ahead x d (x.cursor (cursorKey d b k)) = (e, v) :: rest →
      startR x (.next d b k) = { st := x.setCursor (cursorKey d b k) e, fin := .ret (.val v) } ∧
      ahead (x.setCursor (cursorKey d b k) e) d e = rest) ∧
    (ahead x d (x.cursor (cursorKey d b k)) = [] →
      (b = false → startR x (.next d b k) = { st := x, fin := .ret .eof }) ∧
      (b = true → x.closed = true → (startR x (.next d b k)).fin = .ret .closed) ∧
      (b = true → x.closed = false → ∃ c, (startR x (.next d b k)).fin = .park c)) := by
  constructor
  · intro e v rest ha
    obtain ⟨h1, _, h3⟩ := iter_step_some x h.i2 h.i3 d b k hc ha
    exact ⟨h1, h3⟩
  · intro ha
    obtain ⟨_, h1, h2, h3⟩ := iter_step_none x d b k hc ha
    exact ⟨h1, fun hb hcl => (h2 hb hcl).1, fun hb hcl => ⟨_, (h3 hb hcl).1⟩⟩

/-- **iter_safe_under_removal**: in every reachable state — whatever was popped or evicted, whenever —
    every cursor and every link an iterator can follow is the root or an element that a push
    created (never nil), every value a call yields is the item of such an element (so it was in
    the deque), and the set of created elements only grows by successful pushes of the pushed value. -/
theorem iter_safe_under_removal (init : St) (hinit : Inv23 init) (programs : List (List Op)) (s : Sys St Op)
    (hr : Reach subject (initSys init programs) s) (d : End) (b : Bool) (k : Nat) (kc : Bool) :
    (∀ key, s.subj.cursor key = 0 ∨ s.subj.cursor key ∈ s.subj.vals.map (·.1)) ∧
    (∀ e, s.subj.nbr d e = 0 ∨ s.subj.nbr d e ∈ s.subj.vals.map (·.1)) ∧
    (∀ v, (startR s.subj (.next d b k)).fin = .ret (.val v) → ∃ e, e ≠ 0 ∧ (e, v) ∈ s.subj.vals) ∧
    (∀ v, (resumeR s.subj (.next d b k) kc).fin = .ret (.val v) → ∃ e, e ≠ 0 ∧ (e, v) ∈ s.subj.vals) ∧
    (∀ d' v', (addEnd s.subj d' v').1.vals = s.subj.vals ∨
      ((addEnd s.subj d' v').1.vals = (s.subj.nextId, v') :: s.subj.vals ∧ (s.subj.nextId, v') ∈ (addEnd s.subj d' v').1.q)) := by
  have hinv := reach_inv23 (initSys_wf init programs) hinit hr
  exact ⟨hinv.i3.cursor_valid, hinv.i3.nbr_valid d,
    fun v => (iter_yield_created s.subj hinv.i3 d b k kc v).1,
    fun v => (iter_yield_created s.subj hinv.i3 d b k kc v).2,
    fun d' v' => addEnd_vals s.subj d' v'⟩

/-- **iter_nonblocking_ends_at_sentinel**: `Producer` / `ProducerReverse` never park; they return
    io.EOF exactly when the link they follow is the root -/
theorem iter_nonblocking_ends_at_sentinel (x : St) (d : End) (k : Nat) :
    (∀ c, (startR x (.next d false k)).fin ≠ .park c) ∧
    ((startR x (.next d false k)).fin = .ret .eof ↔ x.nbr d (x.cursor (cursorKey d false k)) = 0) := by
  constructor
  · intro c h
    have := startR_park_blocking h
    simp [Op.blocking] at this
  · by_cases hn : x.nbr d (x.cursor (cursorKey d false k)) = 0
    · simp [startR, iterYield, hn]
    · have h0 : (x.nbr d (x.cursor (cursorKey d false k)) == 0) = false := by simpa using hn
      simp [startR, iterYield, hn, h0]

/-- **iter_returns_on_close_and_cancel**: a blocking iterator that has nothing to yield returns
    ErrQueueClosed (an io.EOF) once the deque is closed and its context's error once that is
    cancelled, in the first segment it runs after the event; and it has no effect -/
theorem iter_returns_on_close_and_cancel (x : St) (d : End) (k : Nat) (kc : Bool)
    (hn : x.nbr d (x.cursor (cursorKey d true k)) = 0) :
    (x.closed = true → (resumeR x (.next d true k) kc).fin = .ret .closed ∧ (startR x (.next d true k)).fin = .ret .closed) ∧
    (x.closed = false → kc = true → (resumeR x (.next d true k) kc).fin = .ret .ctx) ∧
    (resumeR x (.next d true k) kc).st = x := by
  refine ⟨fun hc => ?_, fun hc hk => ?_, ?_⟩
  · simp [resumeR, startR, iterLoop, hn, hc]
  · simp [resumeR, iterLoop, hn, hc, hk]
  · simp only [resumeR, iterLoop, hn, beq_self_eq_true, ite_true]
    by_cases hc : x.closed = true
    · simp [hc]
    · by_cases hk : kc = true <;> simp [hc, hk]

/-- **iter_no_stuck**: in every reachable state that is quiescent up to ping-pong, a blocking iterator
    call that is still blocked has nothing to yield (the link it watches is the root), the deque is
    open and its context is live; if the element it stands on is still linked (or it stands on
    the root) this means that no unseen item is in the deque. -/
theorem iter_no_stuck (init : St) (hinit : Inv23 init) (programs : List (List Op)) (hown : Owned (initSys init programs))
    (s : Sys St Op) (hr : Reach subject (initSys init programs) s) (hq : QuiescentPP subject s)
    (u : Nat) (th : Th Op) (d : End) (k : Nat) (hth : s.ths[u]? = some th)
    (hblocked : th.st = .woken ∨ ∃ c, th.st = .parked c) (hop : th.ops[th.pc]? = some (.next d true k)) :
    s.subj.nbr d (s.subj.cursor (cursorKey d true k)) = 0 ∧ s.subj.closed = false ∧ th.cancelled = false ∧
    ((s.subj.cursor (cursorKey d true k) = 0 ∨ s.subj.cursor (cursorKey d true k) ∈ s.subj.ids) →
      ahead s.subj d (s.subj.cursor (cursorKey d true k)) = []) := by
  have hp : parks s.subj (.next d true k) th.cancelled = true := by
    rcases hblocked with hw | ⟨c, hc⟩
    · exact woken_pp_parks init hinit.i2 programs hown hr hq hth hw hop
    · exact no_stuck_pp init hinit.i2 programs hown hr hq hth hc hop
  simp only [parks, Bool.and_eq_true, Bool.not_eq_true', beq_iff_eq] at hp
  refine ⟨hp.1.1, hp.1.2, hp.2, ?_⟩
  intro hc
  have h3 := (reach_inv23 (initSys_wf init programs) hinit hr).i3
  have hn := hp.1.1
  rw [nbr_ahead s.subj d _ hc] at hn
  cases ha : ahead s.subj d (s.subj.cursor (cursorKey d true k)) with
  | nil => rfl
  | cons p rest =>
    exfalso
    rw [ha] at hn
    simp only [List.map_cons, List.headD_cons] at hn
    have hm : p ∈ s.subj.q := ahead_sub (by rw [ha]; exact List.mem_cons_self)
    have := h3.ids_pos p.1 (List.mem_map.2 ⟨p, hm, rfl⟩)
    omega

/-- a blocking forward iterator standing on the last element, parked, with the pushing thread
    still to run: reachable; after the push it is woken (hypotheses satisfiable, and the schedule
    of the corrected defect) -/
example : ∃ s, Reach subject (initSys exSt [[.next .front true 0, .next .front true 0, .next .front true 0], [.push .back 30]]) s ∧
    ∃ th, s.ths[0]? = some th ∧ th.st = .woken ∧ abs s.subj = [10, 20, 30] :=
  ⟨_, reach_of_runActs [.start 0, .start 0, .start 0, .start 1] rfl .init, _, rfl, rfl, rfl⟩

end FunModel.C20Deque
