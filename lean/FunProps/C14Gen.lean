import FunProofs.GenTieSegs

/-! C14 — T-gen obligations for the *control structure* of `fun.WaitGroup`. tools/go2lean (segs.go) re-reads
    sync.go on every run of `./check` and rewrites lean/FunGen/SegsWaitGroup.lean: for `Add`, `Num`, `IsDone`
    and `Wait` the critical section from `wg.mu.Lock()` to the first return or `wg.cond.Wait()` (`…_start`) and,
    for `Wait`, the section from the wake-up to the next return or `cond.Wait()` (`Wait_resume`), as decision
    trees over the model state in the `SegOut` vocabulary of FunModel/Conc.lean (new state, signals issued —
    `Broadcast`, the context-watcher goroutine —, return value or park). A method outside the recognised
    shapes makes that file not compile.

    These theorems say that the hand-written `FunModel.WaitGroup.subject` — what every theorem of
    FunProps/C14.lean is about and what the deterministic-scheduler run executes — has, for every state, thread,
    operation and cancellation flag, exactly the generated `start`/`resume`. `Subject.start` is the segment of
    a call whose context is live (the scheduler cancels a context only after the call has started), hence
    `cancelled := false` there; `gen_start_dead_ctx` records what the source does otherwise. -/
namespace FunModel.C14Gen
open FunModel.Conc FunModel.WaitGroup FunProofs.GenTieSegs

/-- `Add(n)`: same test (`counter + n ≥ 0`, before any update), same new counter, same broadcast condition -/
theorem gen_Add (s : St) (t : Nat) (n : Int) (cancelled : Bool) :
    FunGen.SegsWaitGroup.Add_start s n cancelled = start s t (.add n) := Add_tie s t n cancelled

theorem gen_Num (s : St) (t : Nat) (cancelled : Bool) :
    FunGen.SegsWaitGroup.Num_start s cancelled = start s t .num := Num_tie s t cancelled

/-- `IsDone` is `counter == 0` on every state, negative counters included -/
theorem gen_IsDone (s : St) (t : Nat) (cancelled : Bool) :
    FunGen.SegsWaitGroup.IsDone_start s cancelled = start s t .isDone := IsDone_tie s t cancelled

/-- `Wait`, entry: returns iff the counter is 0, else starts the helper goroutine and parks on `wg.cond` -/
theorem gen_Wait_start (s : St) (t : Nat) :
    FunGen.SegsWaitGroup.Wait_start s false = start s t .wait := Wait_start_tie s t

/-- `Wait`, woken: re-reads the counter, then the context, else parks again -/
theorem gen_Wait_resume (s : St) (t : Nat) (cancelled : Bool) :
    FunGen.SegsWaitGroup.Wait_resume s cancelled = resume s t .wait cancelled := Wait_resume_tie s t cancelled

/-- the subject's `start` is the generated dispatch, for every state, thread and operation -/
theorem gen_subject_start (s : St) (t : Nat) (op : Op) :
    FunGen.SegsWaitGroup.start s t op false = some (subject.start s t op) := start_tie s t op

/-- the subject's `resume` of the only blocking operation is the generated one -/
theorem gen_subject_resume (s : St) (t : Nat) (cancelled : Bool) :
    FunGen.SegsWaitGroup.resume s t .wait cancelled = some (subject.resume s t .wait cancelled) :=
  resume_tie s t cancelled

/-- for the other operations the generator found no `cond.Wait()`: there is no generated `resume`, and
    their single segment always ends in a return, so the scheduler never resumes them (the model's
    `"bad-resume"` branch is unreachable) -/
theorem gen_nonblocking (s : St) (t : Nat) (op : Op) (cancelled : Bool) (h : op ≠ .wait) :
    FunGen.SegsWaitGroup.resume s t op cancelled = none ∧
    ∀ c' o, FunGen.SegsWaitGroup.start s t op c' = some o → ∃ r, o.fin = .ret r :=
  nonblocking s t op cancelled h

/-- only `Wait` reads the context: the other segments are the model's whatever the flag -/
theorem gen_start_ignores_ctx (s : St) (t : Nat) (op : Op) (cancelled : Bool) (h : op ≠ .wait) :
    FunGen.SegsWaitGroup.start s t op cancelled = some (subject.start s t op) :=
  start_ignores_ctx s t op cancelled h

/-- `Wait` called with a context that is already done returns at once, without helper goroutine -/
theorem gen_start_dead_ctx (s : St) (t : Nat) :
    FunGen.SegsWaitGroup.start s t .wait true = some { st := s, sigs := [], fin := .ret "ok" } :=
  congrArg some (Wait_start_dead s)

/-- non-vacuity: the generated `Wait` does park and does spawn the helper on a non-trivial state, and the
    generated `Add` does broadcast -/
example : (FunGen.SegsWaitGroup.Wait_start { counter := 2 } false).fin = .park 0 ∧
    (FunGen.SegsWaitGroup.Wait_start { counter := 2 } false).sigs = [.spawn 0] ∧
    (FunGen.SegsWaitGroup.Add_start { counter := 1 } (-1) false).sigs = [.broadcast 0] ∧
    (FunGen.SegsWaitGroup.Add_start { counter := 1 } (-2) false).fin = .ret "panic" := by decide

end FunModel.C14Gen
