import FunProofs.GenTieErr

/-! C12 — T-gen obligations. tools/go2lean (errshapes.go) re-reads `ers/merged.go`, `ers/ers.go`, `ers/panic.go`
    and `internal/wrap.go` on every run and rewrites lean/FunGen/ErrShapes.lean:

      * the type switches of `(*Stack).Push`, `internal.Unwind`, `ers.ParsePanic`, `ers.Ok` as ordered tables
        (`pushSwitch`, `unwindSwitch`, `parsePanicSwitch`, `okSwitch`: one row per `case`, in source order, with the
        types it lists and what its body does, plus the `default` arm), and the method set of `*Stack`;
      * the pointer/field code of `(*Stack).Resolve/Len/Ok/Unwrap/Is/As` and of the `default` clause of `Push`
        (`stackResolve`, …, `stackLink`) statement by statement over the cell chain of FunModel/ErrShapes.lean;
      * the glue `Add`, `Join`, `Wrap`, and the functions all of this denotes on the error trees of
        FunModel/Err.lean (`push`, `pushAll`, `add`, `join`, `unwind`, `ok`, `wrap`, `parsePanic`).

    The theorems say that the hand-written model the C12 theorems (FunProps/C12.lean) are about — `Err.push`,
    `ErrList.pushAll`, `flatten`, `resolve`, `join`, `Err.unwind`, `Err.okStack`, `wrapAnnot`, `parsePanicErr`,
    `lenAfter`, the `stack` cases of `Err.is`/`Err.as` — is what the regenerated definitions compute, on every
    error tree and every item list, and that every regenerated switch dispatches every dynamic type that can
    exist in Go (also foreign types implementing several of the interfaces, which the model's six node kinds
    do not include) the way the model's documented precedence says. Reordering two clauses that some type can
    both match, dropping a clause, or changing what a clause does changes the table and one of these stops
    proving; reordering clauses no value can both match (nil / *Stack, error / string / []error) does not. -/
namespace FunModel.C12Gen
open FunModel FunModel.ErrShapes FunGen.ErrShapes FunProofs.GenTieErr

/-! ### which clause runs -/

/-- `Stack.Push`: nil returns; a `*Stack` is walked node by node; `Unwind() []error` before `Unwrap() []error`;
    everything else is linked as one item — for every dynamic type -/
theorem gen_push_dispatch (d : Dyn) (h : d.valid = true) : pushSwitch.select d = pushArmOf d := push_dispatch d h

/-- `internal.Unwind`: `Unwind() []T` before `Unwrap() T` before `Unwrap() []T`, nil ends the walk, else a leaf -/
theorem gen_unwind_dispatch (d : Dyn) (h : d.valid = true) : unwindSwitch.select d = unwindArmOf d :=
  unwind_dispatch d h

/-- `ers.ParsePanic`: nil ↦ nil; an error is joined with ErrRecoveredPanic; a string, a `[]error` and anything
    else are converted first -/
theorem gen_parsePanic_dispatch (d : Dyn) (h : d.valid = true) : parsePanicSwitch.select d = panicArmOf d :=
  panic_dispatch d h

/-- `ers.Ok`: nil is ok, a value with an `Ok() bool` method is asked, anything else is an error -/
theorem gen_ok_dispatch (d : Dyn) (h : d.valid = true) : okSwitch.select d = okArmOf d := ok_dispatch d h

/-- the dynamic type the mapping table gives a `stack` node is the method set `*Stack` has in the source -/
theorem gen_stack_methods (p : Pat) : Dyn.stack.has p = (p == .stackPtr || stackMethods.contains p) :=
  stack_methods p

/-- the mapping table only produces dynamic types that can exist -/
theorem gen_table_valid (e : Option Err) : (Dyn.ofOpt e).valid = true := ofOpt_valid e

/-! ### what the clauses compute on the model's error trees -/

/-- `Stack.Push` -/
theorem gen_push (acc : List Err) (e : Err) : e.push acc = push acc e := (push_tie acc e).symm

/-- pushing a slice of errors, nil entries included -/
theorem gen_pushAll (acc : List Err) (es : ErrList) : es.pushAll acc = pushAll acc es := (pushAll_tie acc es).symm

/-- `Stack.Add` on an empty stack -/
theorem gen_flatten (es : ErrList) : flatten es = add [] es := (add_tie [] es).symm

/-- the `default` clause of `Push` (`e.next = &Stack{next: e.next, err: e.err}; e.err = err; e.count++`) turns the
    chain of `xs` into the chain of `x :: xs`: one `link` arm is one `cons` on the model's item list -/
theorem gen_link (xs : List Err) (x : Err) : stackLink (ofItems xs) (some x) = some (ofItems (x :: xs)) :=
  link_tie xs x

/-- `Stack.Resolve` on the chain of `xs`: nil / the single item itself / the stack -/
theorem gen_resolve (xs : List Err) : (stackResolve (ofItems xs)).map StackRet.toErr = some (resolve xs) :=
  resolve_tie xs

/-- … and nil on a nil receiver -/
theorem gen_resolve_nilptr : stackResolve [] = some StackRet.nil := resolve_nilptr

/-- `ers.Join` = zero Stack, Add, Resolve -/
theorem gen_join (es : ErrList) : FunGen.ErrShapes.join es = some (FunModel.join es) := join_tie es

/-- `Stack.Len` counts the links -/
theorem gen_len (es : ErrList) : stackLen (ofItems (flatten es)) = some (lenAfter es : Int) := len_tie _

theorem gen_len_nilptr : stackLen [] = some 0 := len_nilptr

/-- `internal.Unwind` (= `ers.Unwind`) on a non-nil error -/
theorem gen_unwind (e : Err) : e.unwind = unwind e := (unwind_tie e).symm

/-- `ers.Ok`: nil and an empty `*Stack` are ok, nothing else -/
theorem gen_ok (e : Option Err) : ok e = some (match e with | none => true | some e => e.okStack) := ok_fn_tie e

/-- `(*Stack).Ok` on the chain of `xs` -/
theorem gen_stackOk (xs : List Err) : stackOk (ofItems xs) = some xs.isEmpty := ok_tie xs

/-- `ers.Wrap` -/
theorem gen_wrap (e : Option Err) (a : Nat) : wrap e a = some (wrapAnnot e a) := wrap_tie e a

/-- `ers.ParsePanic` for a nil or error payload -/
theorem gen_parsePanic (r : Option Err) : parsePanic r = some (parsePanicErr r) := parsePanic_tie r

/-- the standard library's `errors.Is` loop on a `*Stack`, run with the regenerated `Is` and `Unwrap` methods
    (fuel = number of nodes), is the `stack` case of the model's `Err.is` -/
theorem gen_stack_is (xs : List Err) (t : Nat) :
    errorsIsStack stackIs stackUnwrap (xs.length + 1) (ofItems xs) t
      = some ((Err.stack (ErrList.ofErrs xs)).is t) := is_tie xs t

/-- `errors.As` likewise -/
theorem gen_stack_as (xs : List Err) (ty : Nat) :
    errorsAsStack stackAs stackUnwrap (xs.length + 1) (ofItems xs) ty
      = some ((Err.stack (ErrList.ofErrs xs)).as ty) := as_tie xs ty

/-- the helpers the model relies on without translating them (`sparse`, `buffer`, `grow`, `Stack.Unwind`,
    `ers.Unwind`, `Stack.Future/Handler`) still have the recorded syntax tree -/
theorem gen_helpers : helpers = allHelpers := helpers_tie

/-! ### non-vacuity, kernel-checked through the *generated* definitions -/

/-- a foreign type implementing both `Unwind() []error` and `Unwrap() []error` is a valid dynamic type the
    dispatch theorems speak about: `Push` opens it through `Unwind` -/
example : ({ error := true, unwindMany := true, unwrapMany := true } : Dyn).valid = true ∧
    pushSwitch.select { error := true, unwindMany := true, unwrapMany := true } = .pushEach .unwindMany := by decide

/-- a `*Stack` is walked as a chain by `Push` and listed through `Unwind()` by `internal.Unwind` -/
example : pushSwitch.select Dyn.stack = .walkChain ∧ unwindSwitch.select Dyn.stack = .retSparse .unwindMany := by
  decide

def sample : ErrList :=
  .cons (.leaf 1) (.skip (.cons (.multi 10 (.cons (.wrap 11 (.leaf 2)) (.skip (.cons
    (.stack (.cons (.typed 7 3) (.cons (.leaf 4) .nil))) .nil)))) (.cons (.unwinder 12 (.cons (.leaf 5) .nil)) .nil)))

example : (add [] sample).map Err.label = ["L5", "L4", "T7.3", "W11", "L1"] := by decide
example : ((FunGen.ErrShapes.join sample).map (fun o => (unwindOpt o).map Err.label))
    = some ["L5", "L4", "T7.3", "W11", "L1"] := by decide
example : (unwind (.wrap 1 (.wrap 2 (.stack (.cons (.leaf 3) (.skip (.cons (.leaf 4) .nil))))))).map Err.label
    = ["W1", "W2", "L3", "L4"] := by decide
example : (do let p ← stackLink (ofItems []) (some (.leaf 1)); let p ← stackLink p (some (.leaf 2));
              let r ← stackResolve p; pure ((unwindOpt r.toErr).map Err.label, (← stackLen p)))
    = some (["L2", "L1"], 2) := by decide
example : (parsePanic (some (.leaf 1))).map (fun o => (unwindOpt o).map Err.label) = some ["L1000", "L1"] := by decide
example : (wrap (some (.stack .nil)) 5).map Option.isNone = some true := by decide
example : (wrap (some (.leaf 1)) 5).map (fun o => (unwindOpt o).map Err.label) = some ["L5", "L1"] := by decide
example : errorsIsStack stackIs stackUnwrap 3 (ofItems [.leaf 1, .wrap 2 (.leaf 3)]) 3 = some true := by decide

end FunModel.C12Gen
