import FunProofs.GenTieSet

/-! C18 — T-gen obligations. tools/go2lean (setops.go) re-reads `dt/set.go` on every run of `./check` and
    rewrites lean/FunGen/SetOps.lean: `isOrdered`, `lockedIsOrdered`, `Len`, `Check`, `Order`,
    `forceSetupOrdered`, `AddCheck`, `DeleteCheck`, `Add`, `Delete`, `SortQuick`, `SortMerge`, `keys`,
    `unsafeIterator`, `Producer`, `Iterator`, `Populate`, `Extend`, `Equal`, statement by statement, over the
    state record `SetSt` of the C18 model. What is regenerated is the branch structure and the order of the
    effects of each method; the calls into the Go map, `dt.List`/`dt.Element` and iterators are the named
    primitives of `FunModel/SetPrim.lean` (hand-written, trusted, consistent with the sequence-level
    statements of C16). The locking calls are skipped (C13 and the `setexcl` cases).

    These theorems say that the hand-written model operations the C18 theorems (FunProps/C18.lean) are about
    — `check`, `len`, `isOrdered`, `order`, `forceSetupOrdered`, `addCheck`, `deleteCheck`, `sortQuick`,
    `sortMerge`, `iter`, `addAll`, `equal` — compute, for every state and every argument, exactly what the
    generated definitions compute (and that the generated definitions do not panic), outright where that is
    true of every state, and otherwise under the representation invariant `Inv` of C18 (proved there to be
    preserved by every operation) and `GoodOrder` (the order in which the map is ranged over has no
    repetition and misses no key). `gen_run` lifts this to every sequence of calls from the empty set.

    `some x` = returned `x`; `none` = panic. Generated functions that write the set return the new state
    (with the result, if any); a method that ranges over the map takes the order `mo` as a parameter, and
    `Producer`/`Iterator` (hence `Extend`, `Equal`) the flag "the set has a mutex" (`s.mtx.Get() != nil`):
    the theorems hold for both values, i.e. both branches of `Producer` yield the same items. -/
namespace FunModel.C18Gen
open FunModel.SetModel FunModel.SetPrim FunGen.SetOps FunProofs.GenTieSet

/-! ### readers: every state -/

/-- `Check` reads the map and nothing else -/
theorem gen_Check (s : SetSt) (k : Int) : Set_Check s k = some (s.check k) := Check_tie s k

/-- `Len` is the size of the map (not of the list) -/
theorem gen_Len (s : SetSt) : Set_Len s = some s.len := Len_tie s

theorem gen_isOrdered (s : SetSt) : Set_isOrdered s = some s.isOrdered := isOrdered_tie s

theorem gen_lockedIsOrdered (s : SetSt) : Set_lockedIsOrdered s = some s.isOrdered := lockedIsOrdered_tie s

/-! ### `AddCheck` / `Add` -/

/-- `AddCheck`: membership is tested first; a present value changes nothing and reports `true`; an
    absent one goes into the map (with a nil element when unordered), and when ordered a new element is
    appended to the list and the map points at it. The invariant is used for one fact only (`Fresh`): the
    addresses in the list are below the allocation counter, so the new element is detached and
    `Back().Append` accepts it. -/
theorem gen_AddCheck {s : SetSt} (hi : Inv s) (k : Int) : Set_AddCheck s k = some (s.addCheck k) :=
  AddCheck_tie (fresh_of_inv hi) k

theorem gen_Add {s : SetSt} (hi : Inv s) (k : Int) : Set_Add s k = some (s.addCheck k).1 :=
  Add_tie (fresh_of_inv hi) k

/-- without `Fresh` the two differ (so the hypothesis is not decoration): if the list already holds an
    element with the next address, the real `Append` refuses the "new" element -/
example : Set_AddCheck { hash := [], list := some [(0, 7)], nextId := 0 } 5 ≠
    some (SetSt.addCheck { hash := [], list := some [(0, 7)], nextId := 0 } 5) := by decide

/-! ### `DeleteCheck` / `Delete`: every state -/

/-- `DeleteCheck`: look the value up; absent: `false` (the deferred `delete` is then a no-op); present:
    the element, if the map has one, is removed from the list, `true` is returned and the deferred
    `delete` removes the key -/
theorem gen_DeleteCheck (s : SetSt) (k : Int) : Set_DeleteCheck s k = some (s.deleteCheck k) :=
  DeleteCheck_tie s k

theorem gen_Delete (s : SetSt) (k : Int) : Set_Delete s k = some (s.deleteCheck k).1 := Delete_tie s k

/-! ### `Order`, `forceSetupOrdered`, `SortQuick`, `SortMerge` -/

/-- `Order()` on an ordered set is a no-op, on an empty unordered one it installs an empty list … -/
theorem gen_Order {s : SetSt} (h : s.list.isSome ∨ s.hash = []) : Set_Order s = some s.order := Order_tie h

/-- … and it panics on an unordered set with members (the model's `order` is only used under the
    hypothesis of `gen_Order`; see `C18.inv_order`) -/
theorem gen_Order_panics {s : SetSt} (h1 : s.list = none) (h2 : s.hash ≠ []) : Set_Order s = none :=
  Order_panics h1 h2

/-- `forceSetupOrdered`: a new list; for every key in map order one new element appended and the key
    pointed at it — once each. (`mo.filter s.check` is what the range visits; it has no repetition
    whenever `GoodOrder s mo`.) -/
theorem gen_forceSetupOrdered {s : SetSt} (hl : s.list = none) {mo : List Int}
    (hn : (mo.filter s.check).Nodup) : Set_forceSetupOrdered s mo = some (s.forceSetupOrdered mo) :=
  forceSetupOrdered_tie hl hn

/-- it is only called on unordered sets (`fun.Invariant.Ok(s.list == nil)`) -/
theorem gen_forceSetupOrdered_panics {s : SetSt} (hl : s.list.isSome) (mo : List Int) :
    Set_forceSetupOrdered s mo = none := forceSetupOrdered_panics hl mo

theorem goodOrder_nodup {s : SetSt} {mo : List Int} (hg : s.GoodOrder mo) : (mo.filter s.check).Nodup :=
  nodup_of_goodOrder hg

/-- `SortQuick`: `forceSetupOrdered` exactly when the set is unordered, then the list sort -/
theorem gen_SortQuick (lt : Int → Int → Bool) (s : SetSt) (mo : List Int)
    (hn : s.list = none → (mo.filter s.check).Nodup) :
    Set_SortQuick s lt mo = some (SetSt.sortQuick lt s mo) := SortQuick_tie lt s mo hn

theorem gen_SortMerge (lt : Int → Int → Bool) (s : SetSt) (mo : List Int)
    (hn : s.list = none → (mo.filter s.check).Nodup) :
    Set_SortMerge s lt mo = some (SetSt.sortMerge lt s mo) := SortMerge_tie lt s mo hn

/-! ### the iteration source: every state -/

/-- `keys()` collects the keys in the order of its range -/
theorem gen_keys (s : SetSt) (mo : List Int) : Set_keys s mo = some (mo.filter s.check) := keys_tie s mo

/-- `unsafeIterator`, `Producer` (with and without a mutex) and `Iterator` all yield the model's `iter`:
    the list's items when ordered, the keys in map order otherwise -/
theorem gen_unsafeIterator (s : SetSt) (mo : List Int) : Set_unsafeIterator s mo = some (s.iter mo) :=
  unsafeIterator_tie s mo

theorem gen_Producer (s : SetSt) (mo : List Int) (sync : Bool) : Set_Producer s mo sync = some (s.iter mo) :=
  Producer_tie s mo sync

theorem gen_Iterator (s : SetSt) (mo : List Int) (sync : Bool) : Set_Iterator s mo sync = some (s.iter mo) :=
  Iterator_tie s mo sync

/-! ### `Populate`, `Extend` -/

/-- `Populate` adds the items one by one in iterator order -/
theorem gen_Populate {s : SetSt} (hi : Inv s) (ks : List Int) : Set_Populate s ks = some (s.addAll ks) :=
  Populate_tie hi ks

/-- `Extend` populates from the other set's iterator (what the C18 driver computes for `extend`) -/
theorem gen_Extend {s : SetSt} (hi : Inv s) (o : SetSt) (mo : List Int) (sync : Bool) :
    Set_Extend s o mo sync = some (s.addAll (o.iter mo)) := Extend_tie hi o mo sync

/-! ### `Equal` -/

/-- `Equal`: the size/orderedness guard, then the lock-step comparison of the two iterations (ordered) or
    the membership test of every key in the other set (unordered), are the model's `equal` -/
theorem gen_Equal {s o : SetSt} (hs : Inv s) (ho : Inv o) {mo : List Int} (hg : s.GoodOrder mo)
    (mo' : List Int) (sync : Bool) : Set_Equal s o mo mo' sync = some (s.equal o) :=
  Equal_tie hs ho hg mo' sync

/-! ### every sequence of calls -/

/-- From any reachable state (in particular the empty set), any sequence of `AddCheck`, `DeleteCheck`,
    `Order`, `SortQuick`, `SortMerge`, `Populate` calls made through the *generated* functions — `Order`
    only where it does not panic, sorts with a possible map order — never panics and ends in exactly the
    state the hand-written model computes, which is again reachable (so `Inv` holds there and all the
    theorems above and of FunProps/C18.lean apply to it). -/
theorem gen_run (ops : List Op) {s : SetSt} (hr : SetSt.Reachable s) (ha : Admissible ops s) :
    runGen ops s = some (runModel ops s) ∧ SetSt.Reachable (runModel ops s) := run_tie ops hr ha

/-! ### non-vacuity, kernel-checked through the generated functions -/

/-- add 3, add 1, add 3 again (reported present, not moved), sort ascending, delete 1: the generated
    functions produce `SetSt.demo` of FunProofs/SetModel.lean; intermediate results as the code returns them -/
example :
    (do let (s, r1) ← Set_AddCheck {} 3
        let (s, r2) ← Set_AddCheck s 1
        let (s, r3) ← Set_AddCheck s 3
        let before ← Set_Iterator s [1, 3] false
        let s ← Set_SortQuick s (fun a b => a < b) [1, 3]
        let sorted ← Set_Iterator s [] true
        let (s, r4) ← Set_DeleteCheck s 1
        let (s, r5) ← Set_DeleteCheck s 1
        let n ← Set_Len s
        pure (r1, r2, r3, before, sorted, r4, r5, n, s)) =
      some (false, false, true, [1, 3], [1, 3], true, false, 1, SetSt.demo) := by rfl

/-- an ordered set: `Order`, add 5, 2, 5; iteration is insertion order; `Equal` with a set built in the
    other order is false, with one built in the same order true -/
example :
    (do let s ← Set_Order {}
        let s ← Set_Populate s [5, 2, 5]
        let t ← Set_Order {}
        let t ← Set_Populate t [2, 5]
        let u ← Set_Order {}
        let u ← Set_Populate u [5, 2]
        let it ← Set_Iterator s [] false
        let e1 ← Set_Equal s t [] [] false
        let e2 ← Set_Equal s u [] [] true
        pure (it, e1, e2)) = some ([5, 2], false, true) := by decide

/-- `gen_run`'s hypotheses are satisfiable by a non-trivial run -/
example : Admissible [.add 3, .add 1, .add 3, .sortQuick (fun a b => a < b) [1, 3], .del 1] {} :=
  ⟨trivial, trivial, trivial,
    ⟨by decide, fun k hk => by
      have h : k ∈ ([3, 1] : List Int) := hk
      simp only [List.mem_cons, List.not_mem_nil, or_false] at h ⊢
      omega⟩,
    trivial, trivial⟩

end FunModel.C18Gen
