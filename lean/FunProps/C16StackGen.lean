import FunProofs.GenTieSll

/-! C16 (stack part) — T-gen obligations. tools/go2lean (stack.go) re-reads dt/stack.go on every run and
    rewrites lean/FunGen/Sll.lean: `makeItem`, `Item.Ok`, `Stack.lazyInit`, `Item.Set`, `Item.Append`,
    `Item.Remove` (guard, head branch, and the unlinking loop as a recursive function over `fuel`), `Stack.Pop`,
    `Stack.Push`, `Stack.Head`, statement by statement, over the heap of FunModel/Sll.lean. In the generated
    code every pointer is an `Option Nat` (`none` = nil), a nil dereference or `panic(…)` is `none`, and Go's
    short-circuit conditions are kept. These theorems say that the hand-written model functions the C16 stack
    theorems (FunProps/C16Stack.lean) are about — `lazyInit`, `itemSet`, `itemAppend`, `removeLoop`,
    `itemRemove`, `pop`, `push`, `head` — compute, on every heap and for every argument, what the generated
    definitions compute when called on a non-nil receiver (the model's standing assumption); the nil-receiver
    behaviour of the generated code is stated where the source tests for it.

    Where the source returns a pointer the generated function returns an `Option Nat`; the model returns the
    address, so the statements map `some` over the model's result. The model's `pop` has a `none` branch
    ("head still nil after lazyInit") that the generated code does not have: `gen_pop` shows it is dead. -/
namespace FunModel.C16StackGen
open FunModel.Sll FunModel.Sll.Heap FunGen.Sll FunProofs.GenTieSll

/-- `makeItem(v)` allocates `{value: v, ok: true}` (what the model's `push` allocates) -/
theorem gen_makeItem (h : Heap) (v : Int) :
    makeItem h v = some ((h.alloc { ok := true, value := v }).1, some (h.alloc { ok := true, value := v }).2) :=
  makeItem_tie h v

/-- `it.Ok()` is the `ok` field for a non-nil item … -/
theorem gen_Ok (h : Heap) (a : Nat) : Item_Ok h (some a) = some (h.item a).ok := Ok_tie h a

/-- … and `false` (not a panic) for nil: the model's loops stop at a nil pointer the same way -/
theorem gen_Ok_nil (h : Heap) : Item_Ok h none = some false := Ok_nil h

/-- `Stack.lazyInit` on a non-nil stack is the model's `lazyInit` (never panics) -/
theorem gen_lazyInit (h : Heap) (s : Nat) : Stack_lazyInit h (some s) = some (h.lazyInit s) := lazyInit_tie h s

/-- `Stack.lazyInit` on nil panics -/
theorem gen_lazyInit_nil (h : Heap) : Stack_lazyInit h none = none := lazyInit_nil h

/-- `Item.Set` is the model's `itemSet` -/
theorem gen_itemSet (h : Heap) (it : Nat) (v : Int) : Item_Set h (some it) v = some (h.itemSet it v) :=
  Set_tie h it v

/-- `Item.Append`: the five-way guard and the four assignments after `lazyInit` are the model's `itemAppend`,
    for every argument including nil -/
theorem gen_itemAppend (h : Heap) (it : Nat) (n : Option Nat) :
    Item_Append h (some it) n = (h.itemAppend it n).map (fun p => (p.1, some p.2)) := Append_tie h it n

/-- `Stack.Pop`: both early returns, `s.length--`, `out.stack = nil`, `s.head = s.head.next` are the model's `pop` -/
theorem gen_pop (h : Heap) (s : Nat) :
    Stack_Pop h (some s) = (h.pop s).map (fun p => (p.1, some p.2)) := Pop_tie h s

/-- the loop of `Item.Remove` (`for prev := it.stack.head; prev.Ok(); prev = prev.next` with the unlinking body
    `prev.next = it.next; it.stack.length--; it.stack = nil; return true`) is the model's `removeLoop`, for
    every fuel and every starting pointer: `some true` = the body returned, `none` = the loop was left -/
theorem gen_removeLoop (h : Heap) (it s : Nat) (hs : (h.item it).stack = some s) (fuel : Nat) (prev : Option Nat) :
    Item_Remove_loop1 fuel h (some it) prev =
      (h.removeLoop it s prev fuel).map (fun p => (p.1, if p.2 then some true else none)) :=
  Remove_loop_tie h it s hs fuel prev

/-- `Item.Remove` (guard, head-item branch, loop, final `return false`) is the model's `itemRemove`, with the
    fuel the model gives the loop (`length + 2` of the item's stack) -/
theorem gen_itemRemove (h : Heap) (it : Nat) :
    Item_Remove (removeFuel h it) h (some it) = h.itemRemove it := Remove_tie h it

/-- `Item.Remove` on a nil item returns false without touching the heap -/
theorem gen_itemRemove_nil (fuel : Nat) (h : Heap) : Item_Remove fuel h none = some (h, false) :=
  Remove_nil fuel h

/-- `Stack.Push` (`s.lazyInit(); s.head.Append(makeItem(it))`) is the model's `push` -/
theorem gen_push (h : Heap) (s : Nat) (v : Int) : Stack_Push h (some s) v = h.push s v := Push_tie h s v

/-- `Stack.Head` is the model's `head` -/
theorem gen_head (h : Heap) (s : Nat) : Stack_Head h (some s) = some ((h.head s).1, (h.head s).2) :=
  Head_tie h s

/-! non-vacuity, kernel-checked on concrete heaps through the *generated* functions: push 5, push 7, push 9;
    remove the middle item (7) — the loop unlinks it from 9; pop returns 9; the stack is then [5] -/
example :
    (do let (h, s) := ({} : Heap).allocStack
        let h ← Stack_Push h (some s) 5
        let h ← Stack_Push h (some s) 7
        let (h, top) ← Stack_Head h (some s)
        let h ← Stack_Push h (some s) 9
        let (h, r) ← Item_Remove (removeFuel h (top.getD 0)) h top
        let (h, out) ← Stack_Pop h (some s)
        let o ← out
        let (h, hd) ← Stack_Head h (some s)
        let a ← hd
        pure (r, (h.item o).value, (h.item o).stack, (h.hdr s).length, (h.item a).value,
              Item_Ok h (h.item a).next)) =
      some (true, 9, none, 1, 5, some false) := by
  rfl

/-- the hypothesis of `gen_removeLoop` is satisfiable and the loop does unlink: 7 out of 9 → 7 → 5 -/
example :
    ∃ h it s, (h.item it).stack = some s ∧
      (Item_Remove_loop1 5 h (some it) (h.hdr s).head).map (fun p => (p.2, (p.1.hdr s).length)) = some (some true, 2) :=
  ⟨(((({} : Heap).allocStack.1.push 0 5).bind (·.push 0 7)).bind (·.push 0 9)).getD {}, 2, 0, by decide, by rfl⟩

end FunModel.C16StackGen
