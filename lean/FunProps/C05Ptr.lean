import FunProofs.QueuePtr

/-! C05 (and the Queue half of C20) — pointer-level obligations. The link updates of `Queue.doAdd` and
    `Queue.popFront` are regenerated from pubsub/queue.go on every run (lean/FunGen/QueuePtr.lean, heap
    of FunModel/QueuePtr.lean). These theorems say that the list operations of the model the C05/C20
    theorems are about (FunModel/Queue.lean: `doAdd`, `popFront` on `q`, `links`, `vals`, `nextId`) are
    the abstraction of that generated pointer code, for queues of any size:

    * `R h s` (FunProofs/QueuePtr.lean): `front` is the sentinel 0; following `link` from it visits
      exactly the entry identities of `s.q`, without repetition, and ends in a nil link; `back` is the
      last of them (the sentinel when `s.q = []`); every `link` field — of linked *and* of removed
      entries — equals the model's `linkOf`; items equal the model's.
    * `abs h`: walk from `front.link`; `Inv h := ∃ s, R h s`.

    Guards that do not concern the links (`q.closed`, the tracker's verdict) are Bool parameters of the
    generated functions; the tracker itself is tied by `FunProps/C05Gen.lean`. -/
namespace FunModel.C05Ptr
open FunModel.QueuePtr FunModel.Queue FunModel.Conc FunModel.ConcSubj FunProofs.QueuePtr

/-- the guards the generator left abstract are the ones the model decides `doAdd` by, in this order;
    `popFront` has none (it is only called on a non-empty queue) -/
theorem gen_guards :
    FunGen.QueuePtr.doAdd_guards = ["q.closed", "err := q.tracker.add(); err != nil"] ∧
    FunGen.QueuePtr.popFront_guards = [] := ⟨rfl, rfl⟩

/-- `makeQueue`'s heap represents every initial model state -/
theorem init_represented {q0 : St} (h0 : InitQ q0) : R Heap.init q0 := by
  obtain ⟨e1, _, e3, _, e5, _, _⟩ := h0.empty
  exact R.init e1 e3 e5

/-- generated `doAdd`, every branch, against the model's `doAdd`: with the guards instantiated by the
    model's conditions the pointer code runs without a nil dereference, reaches the `return` the model
    predicts (`k = 2`, the final `return nil`, exactly when the model answers "ok"), and the heap it
    leaves represents the model's new state — on the main branch `q.back.link = e; q.back = e`
    appends the fresh entry `h.nn = s.nextId` to the represented sequence and records the link of the
    old newest entry; on a refusal the heap is untouched -/
theorem doAdd_refines {h : Heap} {s : St} (hr : R h s) (v : Int) :
    ∃ h' k, FunGen.QueuePtr.doAdd h s.closed (s.tracker.add.2 != .ok) v = some (h', k, none) ∧
      R h' (doAdd s v).1 ∧ (k = 2 ↔ (doAdd s v).2.1 = "ok") := FunProofs.QueuePtr.doAdd_refines hr v

/-- generated `popFront` against the model's, on a non-empty queue: it returns the item the model returns,
    the new heap represents the model's new state (head removed), and `back` has been reset to the
    sentinel `front` exactly when the queue became empty -/
theorem popFront_refines {h : Heap} {s : St} (hr : R h s) (hne : s.q ≠ []) :
    ∃ h', FunGen.QueuePtr.popFront h = some (h', 0, some (popFront s).2.1) ∧ R h' (popFront s).1 ∧
      (h'.back = h'.front ↔ (popFront s).1.q = []) := FunProofs.QueuePtr.popFront_refines hr hne

/-- the abstraction of a representing heap is the model's queue; `back == front` iff it is empty -/
theorem abs_is_model {h : Heap} {s : St} (hr : R h s) : abs h = s.q ∧ (h.back = h.front ↔ s.q = []) :=
  ⟨hr.abs_eq, hr.back_front_iff⟩

/-- `abs (doAdd h) = abs h ++ [new]`: on heaps satisfying the representation invariant the generated
    `doAdd` (guards off) appends the freshly allocated entry and keeps the invariant -/
theorem abs_doAdd {h : Heap} (hi : Inv h) (v : Int) :
    ∃ h', FunGen.QueuePtr.doAdd h false false v = some (h', 2, none) ∧ Inv h' ∧ abs h' = abs h ++ [(h.nn, v)] :=
  hi.doAdd v

/-- `abs (popFront h) = tail (abs h)`: the generated `popFront` returns the head's item, removes the head,
    keeps the invariant, resets `back` to the sentinel iff nothing is left, and leaves the removed entry's
    own `link` as it was (the iterator of C20 may still stand on it) -/
theorem abs_popFront {h : Heap} (hi : Inv h) {e : Nat} {x : Int} {rest : List (Nat × Int)} (ha : abs h = (e, x) :: rest) :
    ∃ h', FunGen.QueuePtr.popFront h = some (h', 0, some x) ∧ Inv h' ∧ abs h' = rest ∧
      (h'.back = h'.front ↔ rest = []) ∧ h'.link e = h.link e := hi.popFront ha

/-- on an empty queue `popFront` dereferences nil: the guard `tracker.len() == 0` of its callers is needed -/
theorem popFront_empty_panics {h : Heap} (hi : Inv h) (ha : abs h = []) : FunGen.QueuePtr.popFront h = none :=
  hi.popFront_empty ha

/-- one segment of any queue operation, in any state satisfying the tracker invariant `SInv`, is matched
    by at most one call of a generated function, after which the heap represents the new model state -/
theorem segment_refines {h : Heap} {s : St} (hS : SInv s) (hr : R h s) {t : Nat} {op : Op} {first c : Bool}
    {o : SegOut St} (hs : IsSeg s t op first c o) : ∃ h', PStep h h' ∧ R h' o.st := hr.seg hS hs

/-- every reachable state of the concurrent queue system (any programs, any schedule, any length) is
    represented by a heap obtained from `makeQueue`'s by calls of the generated `doAdd`/`popFront` -/
theorem reachable_represented {q0 : St} (h0 : InitQ q0) {programs : List (List Op)} {log : List (Ev St Op)}
    {s : Sys St Op} (h : Reach' subject (initSys q0 programs) log s) : ∃ hp, PReach hp ∧ R hp s.subj :=
  run_rep h0 h

/-! non-vacuity: a heap with two linked entries and the model state it represents -/
example : ∃ h s, R h s ∧ s.q = [(1, 5), (2, 7)] ∧ s.closed = false ∧ abs h = [(1, 5), (2, 7)] := by
  have r0 : R Heap.init mkUnlimited := init_represented (Or.inl rfl)
  obtain ⟨h1, _, _, r1, _⟩ := doAdd_refines r0 5
  obtain ⟨h2, _, _, r2, _⟩ := doAdd_refines r1 7
  refine ⟨h2, _, r2, ?_, ?_, ?_⟩
  · simp [doAdd, mkUnlimited, Tracker.add]
  · simp [doAdd, mkUnlimited, Tracker.add]
  · rw [r2.abs_eq]; simp [doAdd, mkUnlimited, Tracker.add]

example : Inv Heap.init ∧ abs Heap.init = [] := Inv.init

/-- kernel-checked witness on concrete heaps: add 5, add 7, pop — the popped entry 1 still links to 2 -/
example :
    (do let (h1, _, _) ← FunGen.QueuePtr.doAdd Heap.init false false 5
        let (h2, _, _) ← FunGen.QueuePtr.doAdd h1 false false 7
        let (h3, _, it) ← FunGen.QueuePtr.popFront h2
        pure (it, h3.link 0, h3.link 1, h3.back, h3.front)) = some (some 5, some 2, some 2, some 2, some 0) := by
  decide

end FunModel.C05Ptr
