import FunProofs.QueueIter

/-! # C20 (safety half) — the non-destructive iterator of `pubsub.Queue`

Model: `next k` in `FunModel/Queue.lean` is one call of the producer of iterator `k`; entries carry
identities (`1, 2, …` in creation order; `0` is the sentinel), `vals` records every entry ever created,
`links` the `link` pointers (kept after removal), `cursors k` the entry iterator `k` yielded last.
Quantification as in C05: every initial queue (`InitQ`), every list of programs, every run (`Reach'`,
with its event log), no bounds; the iterator may be used by any number of threads (a single thread is
the special case the property statement talks about: the order of the log is then the order of its calls).

Reading the log (definitions in `FunProofs/QueueIter.lean`):
* `nextVals k log` — the strings returned by the successive `next k` calls, other than "eof"/"ctx";
* `yields k log` — the (entry identity, item) pairs iterator `k` yielded (`nextVals_eq`: the returned strings
  are exactly the decimal renderings of these items — in particular no value is the `getD 0` default of the
  totalised `valOf`);
* `added log` — the items of all successful `Add`/`BlockingAdd`, in the order they took effect;
* `returnsItem ev` — `ev` is a `Remove`/`Wait`/`Receive` segment returning an item (a removal).

The liveness half (the iterator does not stay blocked while an unseen item is present, returns on
Close/cancel) is C20Live / C07. -/
namespace FunModel.C20
open FunModel.Conc FunModel.ConcSubj FunModel.Queue

/-- `iter_complete_in_order`: in any run in which no `Remove`/`Wait`/`Receive` ever returns an item, the
    sequence of values returned by the successive `next k` calls is a prefix of the sequence of all items
    ever added, in add order — precisely its first `cursor k` elements: none skipped, none twice, order
    kept; the entries yielded are those with identities `1, …, cursor k`. -/
theorem iter_complete_in_order {q0 : St} (h0 : InitQ q0) (programs : List (List Op)) {log : List (Ev St Op)}
    {s : Sys St Op} (hr : Reach' subject (initSys q0 programs) log s) (hnr : ∀ ev ∈ log, ¬ returnsItem ev) (k : Nat) :
    nextVals k log = ((added log).take (s.subj.cursor k)).map toString ∧
    nextVals k log <+: (added log).map toString ∧
    (yields k log).map (·.1) = List.range' 1 (s.subj.cursor k) := by
  obtain ⟨hI, hN⟩ := NRInv.run h0 hr hnr
  have hv := nextVals_eq k hI.evs
  have hy := hN.ys k
  have e1 : nextVals k log = ((added log).take (s.subj.cursor k)).map toString := by
    rw [hv, hy, hI.addedEq, ← List.map_take, List.map_map]; rfl
  refine ⟨e1, ?_, ?_⟩
  · rw [e1]; exact List.IsPrefix.map _ (List.take_prefix _ _)
  · rw [hy, List.map_take, hN.ids]
    exact List.take_range'_of_length_ge (by have := NRInv.cursor_lt hI.iinv k; omega)

/-- `iter_safe_under_removal`: in every reachable state, removals allowed:
    (1) whatever a `next k` call returns is "eof", "ctx", or the item of an entry that exists in `vals` and was
        added by a successful add (never a made-up value), and the cursor then points at that entry;
    (2) every cursor points at the sentinel or at an entry that was created (it is never dangling);
    (3) the entries one iterator yields have strictly increasing identities — so no entry is yielded twice and
        the order of adds is kept — and the strings returned are exactly the items of those entries;
    (4) `vals` is exactly the record of the successful adds. -/
theorem iter_safe_under_removal {q0 : St} (h0 : InitQ q0) (programs : List (List Op)) {log : List (Ev St Op)}
    {s : Sys St Op} (hr : Reach' subject (initSys q0 programs) log s) :
    (∀ t pc k first c pre out r, Ev.seg t pc (.next k) first c pre out ∈ log → out.fin = .ret r →
        r = "eof" ∨ r = "ctx" ∨
        ∃ n v, pre.nextEntry k = some n ∧ 1 ≤ n ∧ (n, v) ∈ s.subj.vals ∧ v ∈ added log ∧ r = toString v ∧
          out.st.cursor k = n) ∧
    (∀ k, s.subj.cursor k = 0 ∨ ∃ v, (s.subj.cursor k, v) ∈ s.subj.vals) ∧
    (∀ k, ((yields k log).map (·.1)).Pairwise (· < ·) ∧ ((yields k log).map (·.1)).Nodup ∧
        nextVals k log = (yields k log).map (fun p => toString p.2)) ∧
    added log = s.subj.vals.reverse.map (·.2) := by
  have hI := IterInv.run h0 hr
  refine ⟨?_, fun k => hI.iinv.cursor_exists k, ?_, hI.addedEq⟩
  · intro t pc k first c pre out r hmem hfin
    obtain ⟨_, hIp, hs⟩ := hI.evs _ hmem
    obtain ⟨r1, r2⟩ := next_result hIp hs
    cases hne : pre.nextEntry k with
    | some n =>
      obtain ⟨e1, e2, e3, e4⟩ := r1 n hne
      have hin := hI.valsMono _ _ _ _ _ _ _ hmem _ e4
      refine Or.inr (Or.inr ⟨n, pre.valOf n, rfl, e3, hin, ?_, ?_, e2⟩)
      · rw [hI.addedEq]
        exact List.mem_map.2 ⟨_, List.mem_reverse.2 hin, rfl⟩
      · rw [hfin] at e1; simpa using e1
    | none =>
      rcases (r2 hne).2 with ⟨e, _⟩ | ⟨e, _⟩ | ⟨e, _⟩
      · rw [hfin] at e; left; simpa using e
      · rw [hfin] at e; right; left; simpa using e
      · rw [hfin] at e; cases e
  · intro k
    obtain ⟨y, hy⟩ := hI.yinv k
    exact ⟨hy.incr, (hy.incr.imp (fun h => Nat.ne_of_lt h)), nextVals_eq k hI.evs⟩

/-- `iter_eof_only_when_closed_or_ctx` (per call): a `next k` segment returns "eof" only on a closed
    queue, and "ctx" only when it is a re-check that saw its context cancelled; in both cases there was no
    unseen linked entry after the cursor, and the queue (items, closed flag, tracker) is untouched -/
theorem iter_eof_only_when_closed_or_ctx (s : St) (hI : IInv s) {t k : Nat} {first c : Bool} {o : SegOut St}
    (hs : IsSeg s t (.next k) first c o) :
    (o.fin = .ret "eof" → s.closed = true ∧ s.nextEntry k = none) ∧
    (o.fin = .ret "ctx" → c = true ∧ first = false ∧ s.closed = false ∧ s.nextEntry k = none) ∧
    specOf o.st = specOf s := by
  obtain ⟨r1, r2⟩ := next_result hI hs
  refine ⟨?_, ?_, next_specOf s t k c o hs.next_cases⟩
  · intro hf
    cases hne : s.nextEntry k with
    | some n =>
      have := (r1 n hne).1
      rw [hf] at this
      exact absurd (by simpa using this.symm) (int_ne_eof (s.valOf n))
    | none =>
      rcases (r2 hne).2 with ⟨_, e⟩ | ⟨e, _⟩ | ⟨e, _⟩
      · exact ⟨e, rfl⟩
      · rw [hf] at e; simp at e
      · rw [hf] at e; cases e
  · intro hf
    cases hne : s.nextEntry k with
    | some n =>
      have := (r1 n hne).1
      rw [hf] at this
      exact absurd (by simpa using this.symm) (int_ne_ctx (s.valOf n))
    | none =>
      rcases (r2 hne).2 with ⟨e, _⟩ | ⟨_, e1, e2, e3⟩ | ⟨e, _⟩
      · rw [hf] at e; simp at e
      · exact ⟨e2, e3, e1, rfl⟩
      · rw [hf] at e; cases e

/-- the same along runs: every "eof" in the log was returned on a closed queue; every "ctx" was returned by a
    re-check segment, and a `cancel` action for that thread lies in the log between the invocation of that
    very call and the segment that returned "ctx" (no later invocation of the thread in between) -/
theorem iter_eof_ctx_in_runs {q0 : St} (h0 : InitQ q0) (programs : List (List Op)) {s : Sys St Op}
    {l1 l2 : List (Ev St Op)} {t pc k : Nat} {first c : Bool} {pre : St} {out : SegOut St}
    (hr : Reach' subject (initSys q0 programs) (l1 ++ Ev.seg t pc (.next k) first c pre out :: l2) s) :
    (out.fin = .ret "eof" → pre.closed = true) ∧
    (out.fin = .ret "ctx" → first = false ∧
      ∃ l1a l1b, l1 = l1a ++ [Ev.env (.cancel t)] ++ l1b ∧ ∀ ev ∈ l1b, ¬ ev.isStartOf t) := by
  have hI := IterInv.run h0 hr
  obtain ⟨_, hIp, hs⟩ := hI.evs (Ev.seg t pc (.next k) first c pre out) (by simp)
  obtain ⟨h1, h2, _⟩ := iter_eof_only_when_closed_or_ctx pre hIp hs
  refine ⟨fun hf => (h1 hf).1, fun hf => ?_⟩
  obtain ⟨hc, _, _, _⟩ := h2 hf
  subst hc
  exact hr.cancel_before

/-! ## non-vacuity -/

/-- a run without removals: two adds, the iterator (thread 1) reads 5, parks, is woken by the second add
    and reads 6, parks again; close wakes it and it returns "eof" -/
example : ∃ log s, Reach' subject (initSys mkUnlimited [[.add 5, .add 6, .close], [.next 0, .next 0, .next 0]]) log s ∧
    (∀ ev ∈ log, ¬ returnsItem ev) ∧ added log = [5, 6] ∧ nextVals 0 log = ["5", "6"] ∧
    results log = ["ok", "ok", "ok"] ∧ s.subj.cursor 0 = 2 := by
  obtain ⟨log, s, hr, hc⟩ := runActs_witness (sub := subject)
    (s := initSys mkUnlimited [[.add 5, .add 6, .close], [.next 0, .next 0, .next 0]])
    (acts := [.start 0, .start 1, .start 1, .start 0, .resume 1, .start 1, .start 0, .resume 1])
    (fun s log => decide (added log = [5, 6] ∧ nextVals 0 log = ["5", "6"] ∧ results log = ["ok", "ok", "ok"] ∧
      s.subj.cursor 0 = 2 ∧ log.length = 8 ∧ log.all (fun ev => match ev with
        | .seg _ _ op _ _ _ _ => op != .remove && op != .wait && op != .recv
        | .env _ => true))) (by decide)
  obtain ⟨h1, h2, h3, h4, _, h6⟩ := of_decide_eq_true hc
  refine ⟨log, s, hr, ?_, h1, h2, h3, h4⟩
  intro ev hev hri
  have := List.all_eq_true.1 h6 ev hev
  cases ev with
  | env a => exact hri
  | seg t pc op first c pre out =>
    obtain ⟨hop, _⟩ := hri
    rcases hop with rfl | rfl | rfl <;> simp at this

/-- a run with removals: the only entry is removed while the iterator (which has yielded it) is parked;
    the next add is seen after the restart from the sentinel; identities yielded: 1 then 2 -/
example : ∃ log s, Reach' subject (initSys mkUnlimited [[.add 5, .remove, .add 6], [.next 0, .next 0]]) log s ∧
    nextVals 0 log = ["5", "6"] ∧ (yields 0 log).map (·.1) = [1, 2] ∧ abs s.subj = [6] := by
  obtain ⟨log, s, hr, hc⟩ := runActs_witness (sub := subject)
    (s := initSys mkUnlimited [[.add 5, .remove, .add 6], [.next 0, .next 0]])
    (acts := [.start 0, .start 1, .start 1, .start 0, .resume 1, .start 0, .resume 1])
    (fun s log => decide (nextVals 0 log = ["5", "6"] ∧ (yields 0 log).map (·.1) = [1, 2] ∧ abs s.subj = [6])) (by decide)
  exact ⟨log, s, hr, of_decide_eq_true hc⟩

/-- `iter_eof_only_when_closed_or_ctx` has instances of both kinds -/
example : ∃ (s : St) (o : SegOut St), IInv s ∧ IsSeg s 0 (.next 0) true false o ∧ o.fin = .ret "eof" :=
  ⟨{ tracker := .noLimit 0, closed := true }, _, IInv.init (Or.inl rfl) |>.same rfl rfl rfl rfl rfl,
   ⟨rfl, fun _ => rfl, fun h => (by cases h)⟩, by decide⟩

example : ∃ (s : St) (o : SegOut St), IInv s ∧ IsSeg s 0 (.next 0) false true o ∧ o.fin = .ret "ctx" :=
  ⟨mkUnlimited, _, IInv.init (Or.inl rfl), ⟨rfl, fun h => (by cases h), fun _ => rfl⟩, by decide⟩

end FunModel.C20
