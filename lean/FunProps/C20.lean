import FunModel.Queue

/-! C20 — placeholder until FunProofs/Queue.lean lands -/
namespace FunModel.C20
open FunModel.Conc FunModel.Queue

/-- closing never loses queued items -/
theorem close_keeps_items (s : St) (t : Nat) : (start s t .close).st.q = s.q := by
  simp [start]

end FunModel.C20
