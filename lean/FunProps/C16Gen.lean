import FunProofs.GenTieDll

/-! C16 — T-gen obligations: the pointer splices of dt/list.go used by every mutating operation of
    the list model (FunModel/Dll.lean) are equal to the definitions tools/go2lean regenerates from
    the current source (lean/FunGen/Dll.lean). -/
namespace FunModel.C16Gen
open FunModel.Dll

theorem gen_uncheckedAppend (h : Heap) (e new : Nat) :
    FunGen.Dll.uncheckedAppend h e new = h.uncheckedAppend e new := FunProofs.GenTie.uncheckedAppend_tie h e new

theorem gen_uncheckedRemove (h : Heap) (e : Nat) :
    FunGen.Dll.uncheckedRemove h e = h.uncheckedRemove e := FunProofs.GenTie.uncheckedRemove_tie h e

end FunModel.C16Gen
