import FunProofs.GenTieHdr

/-! C19 — T-gen obligations: the index arithmetic the C19 theorems are about (FunModel/Hdr.lean) is
    equal to the definitions tools/go2lean regenerates from dt/hdrhist/hdr.go on every run
    (lean/FunGen/Hdr.lean). Values are non-negative int64 (`< 2^63`). -/
namespace FunModel.C19Gen
open FunModel.Hdr FunGen.Hdr FunProofs.GenTie

/-- `bitLen` of hdr.go (its loop and four steps) is `⌊log2 x⌋ + 1` (0 for 0) -/
theorem gen_bitLen (x : Nat) (h : x < 2 ^ 63) : FunGen.Hdr.bitLen (x : Int) = (FunModel.Hdr.bitLen x : Int) := by
  rw [bitLen_tie, bitLenGo_eq_bitLen x h]

theorem gen_getBucketIndex (s : Shape) (v : Nat) (hv : v ||| s.subBucketMask < 2 ^ 63) :
    (genHist s).getBucketIndex (v : Int) = (s.bucketIdx v : Int) := getBucketIndex_tie s v hv

theorem gen_getSubBucketIdx (s : Shape) (v b : Nat) :
    (genHist s).getSubBucketIdx (v : Int) (b : Int) = (s.subBucketIdx v b : Int) := getSubBucketIdx_tie s v b

theorem gen_countsIndex (s : Shape) (b sb : Nat) :
    (genHist s).countsIndex (b : Int) (sb : Int) = (s.countsIndex b sb : Int) := countsIndex_tie s b sb

theorem gen_countsIndexFor (s : Shape) (v : Nat) (hv : v ||| s.subBucketMask < 2 ^ 63) :
    (genHist s).countsIndexFor (v : Int) = (s.countsIndexFor v : Int) := countsIndexFor_tie s v hv

theorem gen_valueFromIndex (s : Shape) (b sb : Nat) :
    (genHist s).valueFromIndex (b : Int) (sb : Int) = (s.valueFromIndex b sb : Int) := valueFromIndex_tie s b sb

theorem gen_sizeOfEquivalentValueRange (s : Shape) (v : Nat) (hv : v ||| s.subBucketMask < 2 ^ 63) :
    (genHist s).sizeOfEquivalentValueRange (v : Int) = (s.sizeOfRange v : Int) := sizeOfRange_tie s v hv

theorem gen_lowestEquivalentValue (s : Shape) (v : Nat) (hv : v ||| s.subBucketMask < 2 ^ 63) :
    (genHist s).lowestEquivalentValue (v : Int) = (s.lowestEquiv v : Int) := lowestEquiv_tie s v hv

theorem gen_nextNonEquivalentValue (s : Shape) (v : Nat) (hv : v ||| s.subBucketMask < 2 ^ 63) :
    (genHist s).nextNonEquivalentValue (v : Int) = (s.nextNonEquiv v : Int) := nextNonEquiv_tie s v hv

theorem gen_highestEquivalentValue (s : Shape) (v : Nat) (hv : v ||| s.subBucketMask < 2 ^ 63) :
    (genHist s).highestEquivalentValue (v : Int) = (s.highestEquiv v : Int) := highestEquiv_tie s v hv

theorem gen_medianEquivalentValue (s : Shape) (v : Nat) (hv : v ||| s.subBucketMask < 2 ^ 63) :
    (genHist s).medianEquivalentValue (v : Int) = (s.medianEquiv v : Int) := medianEquiv_tie s v hv

/-- non-vacuity: the guard holds for every recordable value of a real shape -/
example : (2048 ||| (mkShape 1 2048 3).subBucketMask) < 2 ^ 63 := by decide

end FunModel.C19Gen
