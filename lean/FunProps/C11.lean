import FunModel.Orch
import FunProofs.OrchMain

/-! # C11 — Orchestrator and service wrappers run all submitted work and collect all errors

    Property theorems about the assume/guarantee machines of `FunModel/Orch.lean` (the orchestrator's
    Run loop, `srv.Group`, `WorkerPool` / `HandlerWorkerPool`, `srv.Cleanup`; Service = its C10
    contract, Queue = its C05 contract, ParallelForEach = its C03 contract).  Every theorem is about
    every reachable state — any number of services / jobs, any outcome per unit (ok / error / panic /
    blocks until its context ends, each released by the environment at any time), any placement of
    `Add`, `Start`, cancellation and release, every interleaving of the goroutines' steps.

    The hypotheses `legacy… = false` select the code as it is after the four `fix:` commits; with a
    switch on, the machine is the code before the fix, and the kernel-checked witnesses next to the
    theorems show that the property then fails (each was first exhibited on the real code by the
    check: `replays/C11/…`).  The tie to the Go code is T-out: the observation of every run of the
    real constructs is judged by the `allowed…` predicates, which the `…_allowed` theorems prove for
    every reachable state of the model. -/

namespace FunProps.C11
open FunModel FunModel.Orch

/-! ## Orchestrator -/

/-- `orchestrator_starts_at_most_once_and_awaits_all`: no service's Run function is ever entered
    twice; and once the orchestrator's Run has returned, every service that was handed to `Add`
    before the orchestrator's context ended — not yet started, running or finished at that moment,
    before or after the orchestrator was started — has been started exactly once (by whomever) and
    the complete result of its `Wait` has been collected. -/
theorem orchestrator_starts_at_most_once_and_awaits_all (c : Orc.Cfg) (hfix : c.legacyWaitFor = false) (s : Orc.St)
    (h : Orc.Reachable c s) :
    (∀ i, s.runs i ≤ 1) ∧
    (s.orch = .returned → ∀ i, s.addSt i = .live → s.runs i = 1 ∧ Orc.Entry.wait i true ∈ s.coll) := by
  have hi := Orc.reachable_inv hfix h
  refine ⟨hi.runs_le, fun hret i hl => ?_⟩
  have hd := hi.live_done hret hl
  obtain ⟨hf, hm⟩ := hi.done_fin i hd
  exact ⟨hi.runs_one (by simp [hf]), hm⟩

/-- `orchestrator_wait_after_all_returned`: the step in which the orchestrator's Run returns (and its
    Wait with it) is enabled only when every service handed over before the context ended has
    returned; hence, in every state after it, each of them had returned when Wait returned (`retAtW`
    is the snapshot taken in that step) — and so had every service the orchestrator started itself. -/
theorem orchestrator_wait_after_all_returned (c : Orc.Cfg) (hfix : c.legacyWaitFor = false) (s : Orc.St)
    (h : Orc.Reachable c s) :
    ((Orc.step c s .orchReturn).isSome = true → ∀ i, s.addSt i = .live → s.phase i = .finished) ∧
    (s.orch = .returned → ∀ i, (s.addSt i = .live ∨ s.byOrch i = true) → s.retAtW i = true ∧ s.phase i = .finished) := by
  have hi := Orc.reachable_inv hfix h
  refine ⟨fun hen i hl => hi.return_enabled hen hl, fun hret i hli => ?_⟩
  have hd : s.task i = .done := by
    rcases hli with hl | hb
    · exact hi.live_done hret hl
    · exact hi.ret_done hret i (hi.byOrch_task i hb).1
  exact ⟨hi.ret_snap hret i hd, (hi.done_fin i hd).1⟩

/-- `orchestrator_error_complete`: when Wait has returned, for every service handed over before the
    context ended: whatever `errors.Is` finds in the error its Run returned (or in the recovered panic)
    — other than the identity of a multi-error wrapper that `Stack.Push` opens — it finds in the error
    Wait returned; and a panic is found as ErrRecoveredPanic. -/
theorem orchestrator_error_complete (c : Orc.Cfg) (hfix : c.legacyWaitFor = false) (s : Orc.St)
    (h : Orc.Reachable c s) (hret : s.orch = .returned) (i : Nat) (hl : s.addSt i = .live) :
    (∀ e, (c.outcome i).result = some e → ∀ t, e.is t = true → t ∉ e.shellIds →
        isOpt (Orc.waitResult c s.coll) t = true) ∧
    (∀ p, c.outcome i = .panic p → isOpt (Orc.waitResult c s.coll) idRecoveredPanic = true) := by
  have hi := Orc.reachable_inv hfix h
  have hm := (hi.done_fin i (hi.live_done hret hl)).2
  exact ⟨fun e he t ht hs => Orc.waitResult_is hm e he t ht hs, fun p hp => Orc.waitResult_panic hm p hp⟩

/-- T-out: the predicate the correspondence run evaluates on every observed run of the real
    orchestrator holds of the observation of every reachable state of the model. -/
theorem orchestrator_allowed (c : Orc.Cfg) (hfix : c.legacyWaitFor = false) (s : Orc.St) (h : Orc.Reachable c s)
    (ident : Nat → Nat) (hid : Identifies c.outcome ident) (n : Nat) :
    allowedOrch c.outcome (Orc.obsOf c ident n s) = true :=
  Orc.allowed_of_inv (Orc.reachable_inv hfix h) ident hid n

/-! non-vacuity: service 0 (ok) is added before Start, 1 (fails) after, 2 (blocks until cancel) is
    started from outside and added while running, 3 (panics) is added last; the context is cancelled,
    the loop drains, Wait returns. -/

def orcSample : Orc.Cfg :=
  { outcome := fun i => if i = 1 then .err (.leaf 101) else if i = 2 then .block else if i = 3 then .panic (.leaf 103) else .ok }

def orcSampleRun : List Orc.Act :=
  [.add 0, .startOrch, .add 1, .loopTake, .taskStart 0, .release 0, .svcReturn 0, .taskCollect 0, .loopTake, .taskStart 1,
   .extStart 2, .add 2, .loopTake, .add 3, .loopTake, .taskStart 3, .release 1, .svcReturn 1, .taskCollect 1, .release 3,
   .svcReturn 3, .taskCollect 3, .cancel, .release 2, .endOwn 2, .svcReturn 2, .taskCollect 2, .loopExit, .orchReturn]

example :
    (Orc.run orcSample Orc.init orcSampleRun).map (fun s =>
      (s.orch, [0, 1, 2, 3].map s.runs, [0, 1, 2, 3].map s.retAtW, [0, 1, 2, 3].map (fun i => decide (s.addSt i = .live)))) =
      some (.returned, [1, 1, 1, 1], [true, true, true, true], [true, true, true, true]) := by
  decide +kernel

example :
    (Orc.run orcSample Orc.init orcSampleRun).map (fun s =>
      (isOpt (Orc.waitResult orcSample s.coll) 101, isOpt (Orc.waitResult orcSample s.coll) idRecoveredPanic,
       allowedOrch orcSample.outcome (Orc.obsOf orcSample (fun i => 100 + i) 4 s))) = some (true, true, true) := by
  decide +kernel

/-- the identification hypothesis of the `…_allowed` theorems holds of the outcomes the driver builds -/
example : Identifies orcSample.outcome (fun i => 100 + i) := by
  intro i e hf he
  simp only [orcSample] at hf he
  split at he
  · cases he; subst_vars; decide
  · split at he
    · simp [Outcome.result] at he
    · split at he <;> simp_all [Outcome.fails]

/-- the code before the fix (`waitFor(ctx)` for a service that is running when it is dispatched): the
    orchestrator's Wait returns while service 0 — handed over before the cancellation — is still
    running (kernel-checked witness; on the real code: `replays/C11`, key orch:not-awaited). -/
example :
    (Orc.run { outcome := fun _ => .block, legacyWaitFor := true } Orc.init
        [.extStart 0, .add 0, .startOrch, .loopTake, .cancel, .taskCollect 0, .loopExit, .orchReturn]).map
      (fun s => (s.orch, decide (s.addSt 0 = .live), decide (s.phase 0 = .running), s.retAtW 0)) =
      some (.returned, true, true, false) := by
  decide +kernel

/-! ## Group -/

/-- `group_members_run_until_done_or_ctx`: in every reachable state, a member that is running (started
    and not yet returned) has a live context unless the group's own context has ended: the group's
    Run does not return — which is what cancels the members' context — while a member is running.
    In particular no member ever sees its context end while the group's context is live. -/
theorem group_members_run_until_done_or_ctx (c : Grp.Cfg) (hf1 : c.legacyRun = false) (hf2 : c.legacyStarters = false)
    (s : Grp.St) (h : Grp.Reachable c s) :
    (∀ i, s.phase i = .running → s.memberCtxEnded = true → s.cancelled = true) ∧
    (∀ i, s.sawEndLive i = false) := by
  have hi := Grp.reachable_inv hf1 hf2 h
  refine ⟨fun i hr he => ?_, hi.saw⟩
  have := hi.running_live i hr
  simpa [Grp.St.memberCtxEnded, this] using he

/-- `group_awaits_all`: no member is started twice, a member the iterator did not yield is not
    started; the step in which the group's Wait returns is enabled only when every member taken from the
    iterator has returned, and once it is done each of them has run exactly once and had returned. -/
theorem group_awaits_all (c : Grp.Cfg) (hf1 : c.legacyRun = false) (hf2 : c.legacyStarters = false)
    (s : Grp.St) (h : Grp.Reachable c s) :
    (∀ i, s.runs i ≤ 1) ∧ (∀ i, ¬ i < s.next → s.runs i = 0) ∧
    ((Grp.step c s .cleanupDone).isSome = true → ∀ i, i < s.next → s.phase i = .finished) ∧
    (s.gphase = .done → ∀ i, i < s.next → s.runs i = 1 ∧ s.retAtW i = true ∧ s.phase i = .finished) := by
  have hi := Grp.reachable_inv hf1 hf2 h
  refine ⟨hi.runs_le, fun i hlt => ?_, fun hen i hlt => hi.cleanup_enabled hen hlt, fun hd i hlt => ?_⟩
  · have : s.starter i = .none := by
      by_cases hx : s.starter i = .none
      · exact hx
      · exact absurd ((hi.st_range i).mp hx) hlt
    exact (hi.runs_zero i).mpr ((hi.st_fresh i).mpr (Or.inl this))
  · obtain ⟨_, hf, hr, hs⟩ := hi.done_member hd hlt
    exact ⟨hr, hs, hf⟩

/-- `group_starts_every_member`: unless the group's context ended while it was still iterating, the
    group took every one of the `n` members from the iterator — so (previous theorem) each ran once. -/
theorem group_starts_every_member (c : Grp.Cfg) (hf1 : c.legacyRun = false) (hf2 : c.legacyStarters = false)
    (s : Grp.St) (h : Grp.Reachable c s) (hd : s.gphase = .done) (hcut : s.cut = false) :
    s.next = c.n ∧ ∀ i, i < c.n → s.runs i = 1 := by
  have hi := Grp.reachable_inv hf1 hf2 h
  have hn := hi.full (by simp [hd]) hcut
  exact ⟨hn, fun i hlt => (hi.done_member hd (by omega)).2.2.1⟩

/-- `group_error_complete`: the group's Wait error finds every failure of every member it started. -/
theorem group_error_complete (c : Grp.Cfg) (hf1 : c.legacyRun = false) (hf2 : c.legacyStarters = false)
    (s : Grp.St) (h : Grp.Reachable c s) (hd : s.gphase = .done) (i : Nat) (hlt : i < s.next) :
    (∀ e, (c.outcome i).result = some e → ∀ t, e.is t = true → t ∉ e.shellIds →
        isOpt (Grp.waitResult c s) t = true) ∧
    (∀ p, c.outcome i = .panic p → isOpt (Grp.waitResult c s) idRecoveredPanic = true) := by
  have hi := Grp.reachable_inv hf1 hf2 h
  have hm := (hi.done_member hd hlt).1
  exact ⟨fun e he t ht hs => nested_is_of_result _ (c.outcome i) e he (Or.inr (Grp.mem_adds hm)) t ht hs,
         fun p hp => nested_is_of_panic _ (c.outcome i) p hp (Or.inr (Grp.mem_adds hm))⟩

theorem group_allowed (c : Grp.Cfg) (hf1 : c.legacyRun = false) (hf2 : c.legacyStarters = false) (s : Grp.St)
    (h : Grp.Reachable c s) (ident : Nat → Nat) (hid : Identifies c.outcome ident) (n : Nat) :
    allowedGroup c.outcome (Grp.obsOf c ident n s) = true :=
  Grp.allowed_of_inv (Grp.reachable_inv hf1 hf2 h) ident hid n

def grpSample (legacyRun legacyStarters : Bool) : Grp.Cfg :=
  { n := 2, outcome := fun i => if i = 0 then .block else .err (.leaf 101), legacyRun := legacyRun,
    legacyStarters := legacyStarters }

/-- non-vacuity: two members (one blocks until cancel, one fails); the failing one returns, the group
    keeps running until its context is cancelled, then awaits both -/
example :
    (Grp.run (grpSample false false) Grp.init
        [.startGroup, .iterNext, .iterNext, .starterStart 0, .starterStart 1, .starterQueue 1, .starterQueue 0, .iterNext,
         .startersDone, .release 1, .svcReturn 1, .release 0, .cancel, .svcReturn 0, .membersDone, .cleanupDone]).map
      (fun s => ((s.gphase, s.next, [0, 1].map s.runs, [0, 1].map s.retAtW), ([0, 1].map s.sawEndLive,
                 isOpt (Grp.waitResult (grpSample false false) s) 101,
                 allowedGroup (grpSample false false).outcome (Grp.obsOf (grpSample false false) (fun i => 100 + i) 2 s)))) =
      some ((.done, 2, [1, 1], [true, true]), ([false, false], true, true)) := by
  decide +kernel

/-- D21, the code before the fix (Run returns once the members are started): member 0, which blocks
    until its context ends, finds it ended although nobody cancelled the group (kernel-checked witness;
    on the real code: key group:members-cancelled-early). -/
example :
    (Grp.run (grpSample true false) Grp.init
        [.startGroup, .iterNext, .iterNext, .starterStart 0, .starterStart 1, .starterQueue 1, .starterQueue 0, .iterNext,
         .startersDone, .membersDone, .release 0, .svcReturn 0]).map
      (fun s => (s.cancelled, s.sawEndLive 0)) = some (false, true) := by
  decide +kernel

/-- the second defect (`wg.Wait(ctx)` before `waiters.Close()`): the context ends while member 0 is
    being started; its `Wait` cannot be queued any more, and the group's Wait returns while member 0
    is still running (kernel-checked witness; on the real code: key group:not-awaited). -/
example :
    (Grp.run (grpSample false true) Grp.init
        [.startGroup, .iterNext, .cancel, .iterStop, .startersDone, .starterStart 0, .starterQueue 0, .membersDone,
         .cleanupDone]).map
      (fun s => (s.gphase, s.runs 0, decide (s.phase 0 = .running), s.retAtW 0, s.failed)) =
      some (.done, 1, true, false, [0]) := by
  decide +kernel

/-! ## WorkerPool / HandlerWorkerPool -/

/-- `pool_at_most_once`: in every reachable state every job has been run at most once, and a job that
    was rejected by the queue or never added has not been run. -/
theorem pool_at_most_once (c : Pool.Cfg) (s : Pool.St) (h : Pool.Reachable c s) :
    (∀ j, s.runs j ≤ 1) ∧ (∀ j, s.addSt j ≠ .accepted → s.runs j = 0) := by
  have hi := Pool.reachable_inv h
  refine ⟨hi.runs_le, fun j hna => ?_⟩
  by_cases h0 : s.runs j = 0
  · exact h0
  · exact absurd (hi.runs_accepted j h0) hna

/-- `pool_exactly_once_while_running`: whenever the pool is at rest (no goroutine of the pool can take a
    step) while it keeps running — it was started, neither its context nor the worker group's context
    has ended — and some worker is idle, every accepted job has been run exactly once. -/
theorem pool_exactly_once_while_running (c : Pool.Cfg) (s : Pool.St) (h : Pool.Reachable c s)
    (hq : Pool.Quiescent c s) (hst : s.started = true) (hlive : s.wctxEnded = false)
    (w : Nat) (hw : s.ws[w]? = some .idle) :
    ∀ j, s.addSt j = .accepted → s.runs j = 1 :=
  fun j ha => Pool.rest_all_started (Pool.reachable_inv h) hq hst hlive w hw j ha

/-- the rest-point predicate of the correspondence run (`busy < n` is how the harness knows that a
    worker is idle): at a rest point of a pool with an idle worker that keeps running, the list of jobs
    that were accepted but not run is empty -/
theorem pool_rest_allowed (c : Pool.Cfg) (s : Pool.St) (h : Pool.Reachable c s)
    (hq : Pool.Quiescent c s) (hst : s.started = true) (w : Nat) (hw : s.ws[w]? = some .idle)
    (pending : List Nat) (hp : ∀ j ∈ pending, s.addSt j = .accepted ∧ s.runs j = 0) (busy : Nat) :
    allowedRest c.n busy pending.length (!s.wctxEnded) = true := by
  cases hl : s.wctxEnded with
  | true => simp [allowedRest]
  | false =>
    have : pending = [] := by
      cases hpd : pending with
      | nil => rfl
      | cons j l =>
        obtain ⟨ha, hr⟩ := hp j (by simp [hpd])
        have := pool_exactly_once_while_running c s h hq hst hl w hw j ha
        omega
    simp [allowedRest, this]

/-- `pool_awaits_and_surfaces_errors`: when the pool's Wait has returned every job that was started had
    returned; the error of a failed job was given to the handler (HandlerWorkerPool) or is found in
    Wait's error when it is reportable (WorkerPool: not io.EOF / skip / a context error); a panic is
    found as ErrRecoveredPanic in Wait's error in both. -/
theorem pool_awaits_and_surfaces_errors (c : Pool.Cfg) (s : Pool.St) (h : Pool.Reachable c s) (hd : s.svcDone = true)
    (j : Nat) (hr : s.runs j = 1) :
    s.finAtW j = true ∧
    (c.handles j = true → j ∈ s.handled) ∧
    (c.viaCollector j = true → (c.cls j).reportable c.conf = true →
        ∀ e, (c.outcome j).result = some e → ∀ t, e.is t = true → t ∉ e.shellIds →
          isOpt (Pool.waitResult c s.coll) t = true) ∧
    (∀ p, c.outcome j = .panic p → isOpt (Pool.waitResult c s.coll) idRecoveredPanic = true) := by
  have hi := Pool.reachable_inv h
  obtain ⟨hrr, hsnap⟩ := hi.svc hd
  have hspec := hi.coll_spec j (hi.fin_of_returned hrr hr)
  refine ⟨hsnap j hr, hspec.2, fun hv hrep e he t ht hs => ?_, fun p hp => ?_⟩
  · exact nested_is_of_result _ (c.outcome j) e he
      (Or.inl (Pool.mem_adds (hspec.1 (Pool.reports_of_reportable c j hv hrep)))) t ht hs
  · exact nested_is_of_panic _ (c.outcome j) p hp
      (Or.inl (Pool.mem_adds (hspec.1 (Pool.reports_of_panic c j (by simp [hp, Outcome.isPanic])))))

theorem pool_allowed (c : Pool.Cfg) (s : Pool.St) (h : Pool.Reachable c s) (ident : Nat → Nat)
    (hid : Identifies c.outcome ident)
    (hrep : ∀ i, (c.outcome i).fails = true → (c.cls i).reportable c.conf = true) (n : Nat) :
    allowedPool c.handler c.outcome (Pool.obsOf c ident n s) = true :=
  Pool.allowed_of_inv (Pool.reachable_inv h) ident hid hrep n

def poolSample : Pool.Cfg :=
  { n := 2, conf := ⟨true, true, false⟩, handler := false,
    outcome := fun j => if j = 1 then .err (.leaf 101) else if j = 2 then .panic (.leaf 102) else .ok }

def poolSampleRun : List Pool.Act :=
  [.add 0 true, .startPool, .add 1 true, .add 2 true, .add 3 false, .read, .handoff 0, .wstart 0, .read, .handoff 1, .wstart 1,
   .release 0, .release 1, .release 2, .wfinish 1, .read, .handoff 1, .wstart 1, .wfinish 1, .wfinish 0]

/-- non-vacuity: a rest point of a running pool with both workers idle — every accepted job ran once,
    the rejected one did not — … -/
example :
    (Pool.run poolSample Pool.init poolSampleRun).map
      (fun s => (s.started, s.wctxEnded, s.ws, s.queue.length + s.rd.toList.length)) =
      some (true, false, [.idle, .idle], 0) := by
  decide +kernel

example :
    (Pool.run poolSample Pool.init poolSampleRun).map (fun s => ([0, 1, 2, 3].map s.runs, s.coll)) =
      some ([1, 1, 1, 0], [2, 1]) := by
  decide +kernel

/-- the hypotheses of `pool_exactly_once_while_running` are satisfiable: the sample run ends in a rest point -/
example : ∃ s, Pool.run poolSample Pool.init poolSampleRun = some s ∧ Pool.Quiescent poolSample s ∧
    s.started = true ∧ s.wctxEnded = false ∧ s.ws[0]? = some .idle := by
  refine ⟨_, rfl, ?_, rfl, rfl, rfl⟩
  intro a ha
  cases a with
  | startPool => cases ha
  | cancel => cases ha
  | add _ _ => cases ha
  | release _ => cases ha
  | shutdown => rfl
  | read => rfl
  | handoff w => rfl
  | drop => rfl
  | rdExit => rfl
  | wstart w =>
    match w with
    | 0 => rfl
    | 1 => rfl
    | _ + 2 => rfl
  | wfinish w =>
    match w with
    | 0 => rfl
    | 1 => rfl
    | _ + 2 => rfl
  | wexit w =>
    match w with
    | 0 => rfl
    | 1 => rfl
    | _ + 2 => rfl
  | runReturn => rfl
  | svcReturn => rfl

/-- … and the shutdown after it: the context is cancelled, the queue closed, the workers return, Wait
    returns with both failures -/
example :
    (Pool.run poolSample Pool.init (poolSampleRun ++ [.cancel, .shutdown, .rdExit, .wexit 0, .wexit 1, .runReturn, .svcReturn])).map
      (fun s => (s.svcDone, [0, 1, 2].map s.finAtW, isOpt (Pool.waitResult poolSample s.coll) 101,
                 isOpt (Pool.waitResult poolSample s.coll) idRecoveredPanic,
                 allowedPool false poolSample.outcome (Pool.obsOf poolSample (fun i => 100 + i) 4 s))) =
      some (true, [true, true, true], true, true, true) := by
  decide +kernel

/-- "at most once" cannot be improved to "exactly once" for a job accepted while the pool is shutting
    down: the reader drops the job it holds when the context ends (kernel-checked witness) -/
example :
    (Pool.run poolSample Pool.init [.startPool, .add 0 true, .read, .cancel, .drop, .wexit 0, .wexit 1, .shutdown,
        .runReturn, .svcReturn]).map (fun s => (s.svcDone, decide (s.addSt 0 = .accepted), s.runs 0, s.dropped)) =
      some (true, true, 0, [0]) := by
  decide +kernel

/-! ## Cleanup -/

/-- `cleanup_runs_every_accepted_job_once`: no cleanup function is run twice, none that the pipe
    rejected is run, none is run before the shutdown began (the context has ended whenever one has
    run); and when the service is done every function the pipe accepted has been run exactly once. -/
theorem cleanup_runs_every_accepted_job_once (c : Cln.Cfg) (hfix : c.legacyNoSweep = false) (s : Cln.St)
    (h : Cln.Reachable c s) :
    (∀ j, s.runs j ≤ 1) ∧ (∀ j, s.addSt j ≠ .accepted → s.runs j = 0) ∧
    (∀ j, s.runs j ≠ 0 → s.cancelled = true) ∧ (∀ j, s.ranEarly j = false) ∧
    (s.cphase = .done → ∀ j, s.addSt j = .accepted → s.runs j = 1) := by
  have hi := Cln.reachable_inv hfix h
  refine ⟨hi.runs_le, fun j hna => ?_, fun j hr => ?_, hi.early, fun hd j ha => (hi.done_ran hd ha).1⟩
  · by_cases h0 : s.runs j = 0
    · exact h0
    · exact absurd (hi.runs_accepted j h0) hna
  · by_cases hsw : s.swept
    · rcases hsw with h1 | h1
      · exact hi.ended (Or.inr (Or.inl h1))
      · exact hi.ended (Or.inr (Or.inr (Or.inl h1)))
    · exact absurd ((hi.pre hsw).2.2 j) hr

/-- `cleanup_failures_isolated`: the previous theorem needs no hypothesis about the outcomes — and the
    sweep cannot get stuck on one: while functions remain, running any of them is enabled whatever the
    others did (fail, panic), and when none remains the service finishes. -/
theorem cleanup_failures_isolated (c : Cln.Cfg) (hfix : c.legacyNoSweep = false) (s : Cln.St)
    (h : Cln.Reachable c s) (hs : s.cphase = .sweeping) :
    (∀ j ∈ s.todo, (Cln.step c s (.runJob j)).isSome = true) ∧
    (s.todo = [] → (Cln.step c s .finish).isSome = true) ∧
    (∀ j, s.addSt j = .accepted → s.runs j = 1 ∨ j ∈ s.todo) := by
  have hi := Cln.reachable_inv hfix h
  have hsw : s.swept := Or.inl hs
  refine ⟨fun j hj => by simp [Cln.step, hs, hj], fun ht => by simp [Cln.step, hs, ht], fun j ha => ?_⟩
  have hc : j ∈ s.cache := by
    rcases (hi.acc_where j).mp ha with hq | hq
    · rw [(hi.post hsw).1] at hq; cases hq
    · exact hq
  by_cases ht : j ∈ s.todo
  · exact Or.inr ht
  · exact Or.inl ((hi.runs_spec hsw j).1 ⟨hc, ht⟩).1

/-- `cleanup_errors_surfaced`: when the service is done, the error every accepted cleanup function
    returned is found in Wait's error, and a panic as ErrRecoveredPanic. -/
theorem cleanup_errors_surfaced (c : Cln.Cfg) (hfix : c.legacyNoSweep = false) (s : Cln.St)
    (h : Cln.Reachable c s) (hd : s.cphase = .done) (j : Nat) (ha : s.addSt j = .accepted) :
    (∀ e, (c.outcome j).result = some e → ∀ t, e.is t = true → t ∉ e.shellIds →
        isOpt (Cln.waitResult c s.coll) t = true) ∧
    (∀ p, c.outcome j = .panic p → isOpt (Cln.waitResult c s.coll) idRecoveredPanic = true) := by
  have hi := Cln.reachable_inv hfix h
  have hm := (hi.done_ran hd ha).2
  exact ⟨fun e he t ht hs => nested_is_of_result _ (c.outcome j) e he (Or.inl (Cln.mem_adds hm)) t ht hs,
         fun p hp => nested_is_of_panic _ (c.outcome j) p hp (Or.inl (Cln.mem_adds hm))⟩

theorem cleanup_allowed (c : Cln.Cfg) (hfix : c.legacyNoSweep = false) (s : Cln.St) (h : Cln.Reachable c s)
    (ident : Nat → Nat) (hid : Identifies c.outcome ident) (n : Nat) :
    allowedCleanup c.outcome (Cln.obsOf c ident n s) = true :=
  Cln.allowed_of_inv (Cln.reachable_inv hfix h) ident hid n

def clnSample (legacy : Bool) : Cln.Cfg :=
  { outcome := fun j => if j = 1 then .err (.leaf 101) else if j = 2 then .panic (.leaf 102) else .ok,
    legacyNoSweep := legacy }

/-- non-vacuity: job 0 is moved into the cache by Run, jobs 1 (fails) and 2 (panics) are accepted when
    Run has already seen the cancellation; all three are run during the sweep, job 3 is rejected -/
example :
    (Cln.run (clnSample false) Cln.init
        [.start, .add 0 true, .drain, .add 1 true, .cancel, .runExit, .add 2 true, .shutdown, .add 3 false, .beginSweep,
         .runJob 2, .runJob 0, .runJob 1, .finish]).map
      (fun s => (s.cphase, [0, 1, 2, 3].map s.runs, isOpt (Cln.waitResult (clnSample false) s.coll) 101,
                 isOpt (Cln.waitResult (clnSample false) s.coll) idRecoveredPanic,
                 allowedCleanup (clnSample false).outcome (Cln.obsOf (clnSample false) (fun i => 100 + i) 4 s))) =
      some (.done, [1, 1, 1, 0], true, true, true) := by
  decide +kernel

/-- D22, the code before the fix: the same schedule leaves the two functions that were still in the
    pipe unrun (kernel-checked witness; on the real code: key cleanup:accepted-not-run). -/
example :
    (Cln.run (clnSample true) Cln.init
        [.start, .add 0 true, .drain, .add 1 true, .cancel, .runExit, .add 2 true, .shutdown, .beginSweep,
         .runJob 0, .finish]).map
      (fun s => (s.cphase, [0, 1, 2].map s.runs, [1, 2].map (fun j => decide (s.addSt j = .accepted)))) =
      some (.done, [1, 0, 0], [true, true]) := by
  decide +kernel

end FunProps.C11
