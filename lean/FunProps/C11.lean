import FunModel.Orch

namespace FunProps.C11
end FunProps.C11
