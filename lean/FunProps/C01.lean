import FunProofs.PipeFeeder
import FunProofs.PipeFanIn
import FunProofs.PipeFanOut
import FunProofs.PipeSplit

/-! # C01 — parallel iterator stages deliver every item exactly once

Statement (properties.jsonl): when an iterator is fanned out to concurrent workers or fanned in from
several sources and nothing aborts the run, the output multiset equals the input multiset (nothing
lost, duplicated or invented); order is unconstrained for more than one worker and equal to input
order for Buffer and for a single worker.

The theorems are about the process models of `FunModel/Pipe.lean` (FanOut(n), FanIn(n), Feeder; the
table there says which construct instantiates which model with which parameters) and quantify over
*every* schedule (`Reachable` = any action list from the initial state), every input, every worker
count, every buffer capacity and every configuration of the model. "Nothing aborts the run" is
`c.invalid = false` (the option set was accepted: a rejected one closes the output at construction) and
`envStopped = false` (no environment `close` / `cancel` action was taken); `Reachable c input 0 0`
(no close/cancel budget) is the special case in which none can be taken.

The tie to the Go code is T-out: behavioural at the boundary (see checks/c01.py). -/
namespace FunModel.C01
open FunModel.Pipe

/-! ## FanOut(n): Split, ProcessParallel / ParallelForEach / Worker, Map, ParallelBuffer -/

/-- `conservation`: in every reachable state (any n, any buffer size, any schedule, also after Close
    or cancellation) input ≈ delivered ++ in-flight ++ given-up (by workers / by the reader) ++ remaining -/
theorem fanout_conservation {c : FanOut.Cfg} {input : List Nat} {k1 k2 : Nat} {s : FanOut.St}
    (h : FanOut.Reachable c input k1 k2 s) :
    (s.got ++ s.seen ++ s.out ++ s.hold ++ s.droppedW ++ s.rd.held ++ s.droppedR ++ s.src).Perm input :=
  List.perm_iff_count.mpr (FanOut.reachable_good h).conserved

/-- nothing is duplicated or invented, at any time, in any run (also after Close / cancellation):
    no value has been delivered more often than it occurs in the input -/
theorem fanout_no_invention {c : FanOut.Cfg} {input : List Nat} {k1 k2 : Nat} {s : FanOut.St}
    (h : FanOut.Reachable c input k1 k2 s) (a : Nat) : (s.got ++ s.seen).count a ≤ input.count a := by
  have := (FanOut.reachable_good h).conserved a
  simp only [FanOut.St.items, List.count_append] at this ⊢
  omega

/-- `terminal_multiset_eq`: a failure-free run that has ended delivered exactly the input multiset -/
theorem fanout_terminal_multiset_eq {c : FanOut.Cfg} {input : List Nat} {k1 k2 : Nat} {s : FanOut.St}
    (hwf : c.wf) (hv : c.invalid = false) (h : FanOut.Reachable c input k1 k2 s) (hclean : s.envStopped = false)
    (ht : s.terminal c = true) : (s.got ++ s.seen).Perm input := by
  have hg := FanOut.reachable_good h
  obtain ⟨t1, t2, t3, t4, t5, t6⟩ := FanOut.terminal_items hg hwf hv hclean ht
  have := fanout_conservation h
  simpa [t1, t2, t3, t4, t5, t6] using this

/-- the same with no close/cancel budget: every terminal state of an exhaust run -/
theorem fanout_exhaust_multiset_eq {c : FanOut.Cfg} {input : List Nat} {s : FanOut.St}
    (hwf : c.wf) (hv : c.invalid = false) (h : FanOut.Reachable c input 0 0 s) (ht : s.terminal c = true) :
    (s.got ++ s.seen).Perm input := by
  obtain ⟨as, hr⟩ := h
  have := FanOut.run_nostop as (s := FanOut.init c input 0 0) (by simp [FanOut.init]) hr
  exact fanout_terminal_multiset_eq hwf hv ⟨as, hr⟩ this.1 ht

/-- `single_worker_order`: with one worker the input order is kept at every moment of **every** run
    (also after Close / cancellation): delivered, then buffered, then held by the worker, then given up
    by the worker, then held by the reader, then given up by the reader, then unread. In a failure-free
    run nothing is given up. -/
theorem fanout_single_worker_order {c : FanOut.Cfg} {input : List Nat} {k1 k2 : Nat} {s : FanOut.St}
    (h : FanOut.Reachable c input k1 k2 s) (hn : c.n = 1) :
    s.got ++ s.seen ++ s.out ++ s.hold ++ s.droppedW ++ s.rd.held ++ s.droppedR ++ s.src = input ∧
    (c.invalid = false → s.envStopped = false → s.droppedW = [] ∧ s.droppedR = []) :=
  ⟨((FanOut.reachable_good h).ord1 hn).order, fun hv hc => ((FanOut.reachable_good h).clean hv hc).dropped⟩

/-- `setup_once`: however many outputs are advanced, at most one reader goroutine is ever started, and
    exactly one once any output has been advanced -/
theorem fanout_setup_once {c : FanOut.Cfg} {input : List Nat} {k1 k2 : Nat} {s : FanOut.St}
    (h : FanOut.Reachable c input k1 k2 s) :
    s.spawned ≤ 1 ∧ (0 < s.idle + s.hold.length → s.spawned = 1) :=
  FanOut.setup_once (FanOut.reachable_good h).inv

/-! ## FanIn(n): MergeIterators, GenerateParallel -/

theorem fanin_conservation {c : FanIn.Cfg} {privs : List (List Nat)} {shared : List Nat} {k1 k2 : Nat} {s : FanIn.St}
    (h : FanIn.Reachable c privs shared k1 k2 s) :
    (s.got ++ s.pipe ++ s.prods.flatMap (fun p => p.held.toList) ++ s.dropped ++ s.prods.flatMap (·.src) ++ s.shared).Perm
      (privs.flatten ++ shared) :=
  List.perm_iff_count.mpr (FanIn.reachable_good h).conserved

theorem fanin_no_invention {c : FanIn.Cfg} {privs : List (List Nat)} {shared : List Nat} {k1 k2 : Nat} {s : FanIn.St}
    (h : FanIn.Reachable c privs shared k1 k2 s) (a : Nat) : s.got.count a ≤ (privs.flatten ++ shared).count a := by
  have := (FanIn.reachable_good h).conserved a
  simp only [FanIn.St.items, FanIn.inputOf, List.count_append] at this ⊢
  omega

theorem fanin_terminal_multiset_eq {c : FanIn.Cfg} {privs : List (List Nat)} {shared : List Nat} {k1 k2 : Nat}
    {s : FanIn.St} (hn : 0 < privs.length) (hv : c.invalid = false) (h : FanIn.Reachable c privs shared k1 k2 s)
    (hclean : s.envStopped = false) (ht : s.terminal = true) : s.got.Perm (privs.flatten ++ shared) := by
  have hg := FanIn.reachable_good h
  have hlen : s.prods.length = privs.length := FanIn.reachable_prods_length h
  obtain ⟨t1, t2, t3, t4, t5⟩ := FanIn.terminal_items hg (by omega) hv hclean ht
  have := fanin_conservation h
  simpa [t1, t2, t3, t4, t5] using this

/-- a single producer keeps the order of its source in **every** run (MergeIterators of one iterator,
    GenerateParallel with one worker); in a failure-free run nothing is given up -/
theorem fanin_single_producer_order {c : FanIn.Cfg} {l shared : List Nat} {k1 k2 : Nat} {s : FanIn.St}
    (h : FanIn.Reachable c [l] shared k1 k2 s) :
    s.got ++ s.pipe ++ s.prods.flatMap (fun p => p.held.toList) ++ s.dropped ++ s.prods.flatMap (·.src) ++ s.shared
      = l ++ shared ∧ (c.invalid = false → s.envStopped = false → s.dropped = []) := by
  have hg := FanIn.reachable_good h
  have hlen : s.prods.length = 1 := by simpa using FanIn.reachable_prods_length h
  have := (hg.order1 hlen).1
  exact ⟨by simpa [FanIn.inputOf] using this, fun hv hc => (hg.clean hv hc).dropped⟩

/-! ## Feeder: Buffer, Chain, MergeSlices, MergeSliceIterators, BufferedChannel, dt.Map / adt.Map iterators -/

/-- exact order in every reachable state of every run (also aborted ones) -/
theorem feeder_order {c : Feeder.Cfg} {input : List Nat} {k1 k2 : Nat} {s : Feeder.St}
    (h : Feeder.Reachable c input k1 k2 s) :
    s.got ++ s.pipe ++ s.fd.held ++ s.dropped ++ s.src = input :=
  (Feeder.reachable_inv h).order

theorem feeder_conservation {c : Feeder.Cfg} {input : List Nat} {k1 k2 : Nat} {s : Feeder.St}
    (h : Feeder.Reachable c input k1 k2 s) :
    (s.got ++ s.pipe ++ s.fd.held ++ s.dropped ++ s.src).Perm input := by
  rw [feeder_order h]

/-- `buffer_order`: what the consumer of Buffer (any Feeder construct) has received is always a
    prefix of the input, in input order -/
theorem buffer_order {c : Feeder.Cfg} {input : List Nat} {k1 k2 : Nat} {s : Feeder.St}
    (h : Feeder.Reachable c input k1 k2 s) : s.got <+: input :=
  ⟨s.pipe ++ s.fd.held ++ s.dropped ++ s.src, by simpa [List.append_assoc] using feeder_order h⟩

/-- a failure-free run that has ended delivered exactly the input, in order -/
theorem feeder_terminal_eq {c : Feeder.Cfg} {input : List Nat} {k1 k2 : Nat} {s : Feeder.St}
    (h : Feeder.Reachable c input k1 k2 s) (hclean : s.envStopped = false) (hdone : s.cons = .done) :
    s.got = input :=
  Feeder.terminal_got (Feeder.reachable_inv h) hclean hdone

/-! ## Non-vacuity: concrete schedules (kernel-evaluated) that satisfy the hypotheses -/

/-- Map with 2 workers over [7, 8, 9]: a complete failure-free schedule ending in a terminal state
    that delivered 8, 7, 9 -/
example :
    let c : FanOut.Cfg := { n := 2, hasOut := true, outCap := 0, hasCloser := true, closerCtx := true, onceGo := false, lazy := true, workerCancels := true }
    ∃ s, FanOut.run c (FanOut.init c [7, 8, 9] 0 0)
      [.cStart, .wAdvance, .wAdvance, .rRead, .rHandoff, .rRead, .rHandoff, .wHandoff 1, .cStart, .wHandoff 0, .rRead,
       .rHandoff, .cStart, .wHandoff 0, .rEof, .wEof, .wEof, .kCancel, .kClose, .cStart, .cEof] = some s ∧
      s.terminal c = true ∧ s.envStopped = false ∧ s.got = [8, 7, 9] ∧ c.wf := by
  refine ⟨_, rfl, ?_, ?_, ?_, ?_⟩ <;> decide

/-- Buffer(1) over [1, 2]: reachable non-terminal state with an item in the buffer -/
example :
    let c : Feeder.Cfg := { cap := 1, onceGo := true, srcChecksCtx := true, eager := false }
    ∃ s, Feeder.run c (Feeder.init c [1, 2] 1 0) [.cStart, .fRead, .fSend, .fRead] = some s ∧
      s.pipe = [1] ∧ s.fd = .running (some 2) ∧ s.envStopped = false := by
  refine ⟨_, rfl, ?_, ?_, ?_⟩ <;> decide

/-- MergeIterators of [1, 3] and [2]: complete failure-free schedule -/
example :
    let c : FanIn.Cfg := { cap := 0, srcChecksCtx := true, closerCtx := true }
    ∃ s, FanIn.run c (FanIn.init c [[1, 3], [2]] [] 0 0)
      [.cStart, .pRead 1, .pRead 0, .pHandoff 1, .cStart, .pHandoff 0, .pRead 0, .pEof 1, .cStart, .pHandoff 0, .pEof 0,
       .kCancel, .kClose, .cStart, .cEof] = some s ∧ s.terminal = true ∧ s.got = [2, 1, 3] := by
  refine ⟨_, rfl, ?_, ?_⟩ <;> decide

end FunModel.C01
