import FunModel.Dll
import FunModel.Sll

/-! C16 — placeholder (the development is in progress in FunProofs/Dll.lean) -/
namespace FunModel.C16
open FunModel.Dll

/-- `Set` on an element never touches any list header -/
theorem set_keeps_headers (h : Heap) (e : Nat) (v : Int) : (h.elemSet e v).1.hdr = h.hdr := by
  unfold Heap.elemSet
  split
  · split <;> rfl
  · rfl

end FunModel.C16
