import FunProofs.Dll

/-! C16 — `dt.List` / `dt.Element` (circular doubly linked list with a sentinel), pointer level.

    Every public list operation keeps ALL lists of the heap well-formed (`WF h g`, for any number
    of lists of any length) and acts on the ghost sequences `g l` (the element addresses held by
    list `l`, front to back) exactly like the corresponding operation on a plain sequence; no
    operation panics on allocated arguments; `ok`/`item` of untouched elements do not change
    (`Frame`), so the value sequences `vals h g l = (g l).map item` evolve like plain slices.
    `Element.Swap` as written does NOT keep the invariant (`swap_breaks_wf`).

    Property theorems only. The definitions `Chain`, `LWF`, `WF`, `Frame`, `FrameExcept`, `upd`,
    `insertAfter`, `lastOr`, `vals`, `Op`, `Op.valid`, `Op.run`, `Reachable`, `runOps`, the witnesses
    `demo4`, `demoSwap`, `demoOps` and all helper lemmas are in `FunProofs/Dll.lean`. -/

namespace FunModel.C16
open FunModel.Dll

variable {h : Heap} {g : Nat → List Nat}

/-! ### 0. what the invariant says -/

/-- the empty heap is well-formed -/
theorem wf_empty : WF {} (fun _ => []) := WF.empty

/-- a list without sentinel is empty with length 0; unallocated lists have default headers -/
theorem wf_no_root (hw : WF h g) {l : Nat} (hr : (h.hdr l).root = none) :
    g l = [] ∧ (h.hdr l).length = 0 := by
  have h1 := (hw.lwf l).empty hr
  have h2 := (hw.lwf l).len
  rw [h1] at h2
  exact ⟨h1, h2⟩

theorem wf_unallocated (hw : WF h g) {l : Nat} (hl : h.nl ≤ l) : h.hdr l = {} ∧ g l = [] :=
  ⟨hw.hdr_unalloc hl, hw.ghost_unalloc hl⟩

/-- the sentinel `r` of `l`: allocated list, allocated element, not ok, owned by `l`, in no ghost
    sequence; `next` from `r` runs through `g l` back to `r` and `prev` is the inverse -/
theorem wf_root (hw : WF h g) {l r : Nat} (hr : (h.hdr l).root = some r) :
    l < h.nl ∧ r < h.nn ∧ (h.node r).ok = false ∧ (h.node r).list = some l ∧ Chain h r (g l) r ∧
      (∀ l', r ∉ g l') ∧ (∀ l', (h.hdr l').root = some r → l' = l) := by
  obtain ⟨h1, h2, h3, h4⟩ := (hw.lwf l).root r hr
  exact ⟨hw.root_lt hr, h1, h2, h3, h4, fun _ => hw.root_not_mem hr, fun _ hr' => hw.roots_distinct hr' hr⟩

/-- `Chain` spelled out: `next` of the sentinel / of each element is the successor in
    `g l ++ [r]`, `prev` is the predecessor in `r :: g l` -/
theorem wf_links (hw : WF h g) {l r : Nat} (hr : (h.hdr l).root = some r) :
    (h.node r).next = some ((g l).headD r) ∧ (h.node r).prev = some (lastOr r (g l)) ∧
      ∀ pre e post, g l = pre ++ e :: post →
        (h.node e).next = some (post.headD r) ∧ (h.node e).prev = some (lastOr r pre) := by
  obtain ⟨_, _, _, h4⟩ := (hw.lwf l).root r hr
  refine ⟨h4.next_first, h4.prev_last, ?_⟩
  intro pre e post hg
  rw [hg] at h4
  exact ⟨h4.next_mid, h4.prev_mid⟩

/-- the length field is the length of the ghost sequence -/
theorem wf_length (hw : WF h g) (l : Nat) : (h.hdr l).length = (g l).length := (hw.lwf l).len

theorem wf_nodup (hw : WF h g) (l : Nat) : (g l).Nodup := (hw.lwf l).nodup

/-- elements are allocated, ok, owned by their list, and are not sentinels -/
theorem wf_elem (hw : WF h g) {l x : Nat} (hx : x ∈ g l) :
    x < h.nn ∧ (h.node x).ok = true ∧ (h.node x).list = some l ∧ ∀ l', (h.hdr l').root ≠ some x := by
  obtain ⟨h1, h2, h3⟩ := (hw.lwf l).elem x hx
  exact ⟨h1, h2, h3, fun l' hr => hw.root_not_mem hr hx⟩

/-- distinct lists share no element -/
theorem wf_disjoint (hw : WF h g) {l l' x : Nat} (hne : l ≠ l') (hx : x ∈ g l) : x ∉ g l' :=
  fun hx' => hne (hw.disjoint hx hx')

/-- every address that is no sentinel and in no list is detached (this includes all unallocated
    addresses) -/
theorem wf_detached (hw : WF h g) {a : Nat} (hr : ∀ l, (h.hdr l).root ≠ some a) (hm : ∀ l, a ∉ g l) :
    (h.node a).list = none := hw.detached hr hm

theorem wf_unallocated_elem (hw : WF h g) {a : Nat} (ha : h.nn ≤ a) : (h.node a).list = none :=
  hw.list_none_of_ge ha

/-! ### 1. allocation and `lazySetup` -/

theorem allocList_spec (hw : WF h g) :
    h.allocList.2 = h.nl ∧ WF h.allocList.1 g ∧ g h.nl = [] ∧ (h.allocList.1.hdr h.nl).root = none ∧
      h.allocList.1.nl = h.nl + 1 ∧ Frame h h.allocList.1 :=
  ⟨rfl, hw.allocList, hw.ghost_unalloc (Nat.le_refl _), by simp, rfl, Frame.allocList hw⟩

/-- `NewElement v`: a fresh, detached, ok element -/
theorem makeElem_spec (hw : WF h g) (v : Int) :
    (h.makeElem v).2 = h.nn ∧ WF (h.makeElem v).1 g ∧
      (h.makeElem v).1.node h.nn = { ok := true, item := v } ∧ (h.makeElem v).1.nn = h.nn + 1 ∧
      Frame h (h.makeElem v).1 :=
  ⟨rfl, hw.alloc rfl, by simp [Heap.makeElem], rfl, Frame.alloc h _⟩

theorem lazySetup_spec (hw : WF h g) {l : Nat} (hl : l < h.nl) :
    WF (h.lazySetup l) g ∧ Frame h (h.lazySetup l) ∧ ∃ r, ((h.lazySetup l).hdr l).root = some r :=
  hw.lazySetup hl

theorem lazySetup_idem {l r : Nat} (hr : (h.hdr l).root = some r) : h.lazySetup l = h :=
  Heap.lazySetup_some hr

/-! ### 2. `PushFront` / `PushBack` -/

theorem pushBack_spec (hw : WF h g) {l : Nat} (hl : l < h.nl) (v : Int) :
    ∃ h' n, h.pushBack l v = some h' ∧ h.nn ≤ n ∧ WF h' (upd g l (g l ++ [n])) ∧
      (h'.node n).item = v ∧ Frame h h' := by
  obtain ⟨h', n, h1, h2, h3, h4, h5⟩ := hw.pushBack hl v
  exact ⟨h', n, h1, h4, h2, h5, h3⟩

theorem pushFront_spec (hw : WF h g) {l : Nat} (hl : l < h.nl) (v : Int) :
    ∃ h' n, h.pushFront l v = some h' ∧ h.nn ≤ n ∧ WF h' (upd g l (n :: g l)) ∧
      (h'.node n).item = v ∧ Frame h h' := by
  obtain ⟨h', n, h1, h2, h3, h4, h5⟩ := hw.pushFront hl v
  exact ⟨h', n, h1, h4, h2, h5, h3⟩

/-- value level: `PushBack` appends `v` to `l` and leaves every other list alone -/
theorem pushBack_vals (hw : WF h g) {l : Nat} (hl : l < h.nl) (v : Int) :
    ∃ h' g', h.pushBack l v = some h' ∧ WF h' g' ∧ vals h' g' l = vals h g l ++ [v] ∧
      ∀ l', l' ≠ l → vals h' g' l' = vals h g l' := by
  obtain ⟨h', n, h1, h2, h3, h4, h5⟩ := hw.pushBack hl v
  refine ⟨h', _, h1, h2, ?_, fun l' hl' => h3.vals hw (upd_other g _ hl')⟩
  simp only [vals, upd_same, List.map_append, List.map_cons, List.map_nil, h5]
  rw [h3.map_item (fun x hx => ((hw.lwf l).elem x hx).1)]

theorem pushFront_vals (hw : WF h g) {l : Nat} (hl : l < h.nl) (v : Int) :
    ∃ h' g', h.pushFront l v = some h' ∧ WF h' g' ∧ vals h' g' l = v :: vals h g l ∧
      ∀ l', l' ≠ l → vals h' g' l' = vals h g l' := by
  obtain ⟨h', n, h1, h2, h3, h4, h5⟩ := hw.pushFront hl v
  refine ⟨h', _, h1, h2, ?_, fun l' hl' => h3.vals hw (upd_other g _ hl')⟩
  simp only [vals, upd_same, List.map_cons, h5]
  rw [h3.map_item (fun x hx => ((hw.lwf l).elem x hx).1)]

/-! ### 3. `PopFront` / `PopBack` -/

/-- non-empty list: the head comes back, detached, with its data intact -/
theorem popFront_nonempty (hw : WF h g) {l x : Nat} {xs : List Nat} (hg : g l = x :: xs) :
    ∃ h', h.popFront l = some (h', x) ∧ WF h' (upd g l xs) ∧ (h'.node x).list = none ∧
      (h'.node x).ok = true ∧ (h'.node x).item = (h.node x).item ∧ Frame h h' := by
  obtain ⟨h', h1, h2, h3, h4⟩ := hw.popFront_cons hg
  obtain ⟨hx1, hx2, _⟩ := (hw.lwf l).elem x (by simp [hg])
  exact ⟨h', h1, h2, h4, by rw [(h3.data x hx1).1]; exact hx2, (h3.data x hx1).2, h3⟩

theorem popBack_nonempty (hw : WF h g) {l x : Nat} {xs : List Nat} (hg : g l = xs ++ [x]) :
    ∃ h', h.popBack l = some (h', x) ∧ WF h' (upd g l xs) ∧ (h'.node x).list = none ∧
      (h'.node x).ok = true ∧ (h'.node x).item = (h.node x).item ∧ Frame h h' := by
  obtain ⟨h', h1, h2, h3, h4⟩ := hw.popBack_snoc hg
  obtain ⟨hx1, hx2, _⟩ := (hw.lwf l).elem x (by simp [hg])
  exact ⟨h', h1, h2, h4, by rw [(h3.data x hx1).1]; exact hx2, (h3.data x hx1).2, h3⟩

/-- empty list: a fresh, detached, not-ok element comes back and nothing else changes -/
theorem popFront_empty (hw : WF h g) {l : Nat} (hl : l < h.nl) (hg : g l = []) :
    ∃ h' z, h.popFront l = some (h', z) ∧ WF h' g ∧ h.nn ≤ z ∧ z < h'.nn ∧ h'.node z = {} ∧
      Frame h h' := by
  obtain ⟨h', z, h1, _, h3, h4, h5, h6, h7⟩ := hw.pop_empty hl hg
  exact ⟨h', z, h1, h3, h5, h6, h7, h4⟩

theorem popBack_empty (hw : WF h g) {l : Nat} (hl : l < h.nl) (hg : g l = []) :
    ∃ h' z, h.popBack l = some (h', z) ∧ WF h' g ∧ h.nn ≤ z ∧ z < h'.nn ∧ h'.node z = {} ∧
      Frame h h' := by
  obtain ⟨h', z, _, h2, h3, h4, h5, h6, h7⟩ := hw.pop_empty hl hg
  exact ⟨h', z, h2, h3, h5, h6, h7, h4⟩

/-! ### 4. `Element.Append` -/

/-- accepted: `n` allocated, ok and detached, `e` attached to `l` (an element of `l` or `l`'s
    sentinel): `n` is inserted right after `e` (at the front for the sentinel) and returned -/
theorem elemAppend_accepted (hw : WF h g) {l e n : Nat} (he : (h.node e).list = some l)
    (hn : n < h.nn) (hok : (h.node n).ok = true) (hdet : (h.node n).list = none) :
    ∃ h', h.elemAppend e (some n) = some (h', n) ∧
      WF h' (upd g l (if (h.hdr l).root = some e then n :: g l else insertAfter e n (g l))) ∧
      Frame h h' ∧ h'.nn = h.nn ∧ h'.nl = h.nl :=
  hw.elemAppend_accept he hn hok hdet

/-- `insertAfter` really inserts after `e` -/
theorem insertAfter_spec {e n : Nat} {pre post : List Nat} (he : e ∉ pre) :
    insertAfter e n (pre ++ e :: post) = pre ++ e :: n :: post := insertAfter_split he

/-- rejected (nil argument, `n` not ok, `e` detached, `n` attached or a sentinel): nothing
    changes and `e` is returned -/
theorem elemAppend_rejected {e : Nat} {new : Option Nat}
    (hrej : new = none ∨ ∃ n, new = some n ∧
      ((h.node n).ok = false ∨ (h.node e).list = none ∨ (h.node n).list ≠ none)) :
    h.elemAppend e new = some (h, e) := by
  apply Heap.elemAppend_reject
  rcases hrej with rfl | ⟨n, rfl, hc⟩
  · rfl
  · rcases hc with hc | hc | hc
    · simp [Heap.appendable, hc]
    · simp [Heap.appendable, hc]
    · cases hl : (h.node n).list with
      | none => exact absurd hl hc
      | some _ => simp [Heap.appendable, hl]

/-- the same two theorems with the side conditions phrased on the ghost state: accepted iff `n` is
    ok and neither a sentinel nor in a list, and `e` is a sentinel or in a list -/
theorem elemAppend_accepted_ghost (hw : WF h g) {l e n : Nat}
    (he : (h.hdr l).root = some e ∨ e ∈ g l) (hn : n < h.nn) (hok : (h.node n).ok = true)
    (hnr : ∀ l', (h.hdr l').root ≠ some n) (hnm : ∀ l', n ∉ g l') :
    ∃ h', h.elemAppend e (some n) = some (h', n) ∧
      WF h' (upd g l (if (h.hdr l).root = some e then n :: g l else insertAfter e n (g l))) ∧
      Frame h h' ∧ h'.nn = h.nn ∧ h'.nl = h.nl := by
  have hel : (h.node e).list = some l := by
    rcases he with he | he
    · exact ((hw.lwf l).root e he).2.2.1
    · exact ((hw.lwf l).elem e he).2.2
  exact hw.elemAppend_accept hel hn hok (hw.detached hnr hnm)

theorem elemAppend_rejected_ghost (hw : WF h g) {e : Nat} {new : Option Nat}
    (hrej : new = none ∨ ∃ n, new = some n ∧
      ((h.node n).ok = false ∨ ((∀ l, (h.hdr l).root ≠ some e) ∧ ∀ l, e ∉ g l) ∨
        ∃ l, (h.hdr l).root = some n ∨ n ∈ g l)) :
    h.elemAppend e new = some (h, e) := by
  apply elemAppend_rejected
  rcases hrej with rfl | ⟨n, rfl, hc⟩
  · exact Or.inl rfl
  · refine Or.inr ⟨n, rfl, ?_⟩
    rcases hc with hc | ⟨h1, h2⟩ | ⟨l, hc⟩
    · exact Or.inl hc
    · exact Or.inr (Or.inl (hw.detached h1 h2))
    · refine Or.inr (Or.inr ?_)
      have : (h.node n).list = some l := by
        rcases hc with hc | hc
        · exact ((hw.lwf l).root n hc).2.2.1
        · exact ((hw.lwf l).elem n hc).2.2
      rw [this]; simp

/-- the two cases are exhaustive: `Append` never panics -/
theorem elemAppend_total (hw : WF h g) {e : Nat} {new : Option Nat} (hn : ∀ n, new = some n → n < h.nn) :
    ∃ h' g' x, h.elemAppend e new = some (h', x) ∧ WF h' g' ∧ Frame h h' := by
  cases ha : h.appendable e new with
  | false => exact ⟨h, g, e, Heap.elemAppend_reject ha, hw, Frame.refl h⟩
  | true =>
    obtain ⟨n, rfl, h1, h2, h3⟩ := Heap.appendable_eq_true.1 ha
    obtain ⟨l, hl⟩ := Option.isSome_iff_exists.1 h2
    obtain ⟨h', e1, hw', hf, _⟩ := hw.elemAppend_accept hl (hn n rfl) h1 h3
    exact ⟨h', _, n, e1, hw', hf⟩

/-! ### 5. `Element.Remove`, `Drop`, `Set` -/

/-- an element of a list is unlinked: `true`, and it ends up detached with its data intact -/
theorem elemRemove_attached (hw : WF h g) {l e : Nat} (hm : e ∈ g l) :
    ∃ h', h.elemRemove e = some (h', true) ∧ WF h' (upd g l ((g l).erase e)) ∧ Frame h h' ∧
      h'.nn = h.nn ∧ h'.nl = h.nl ∧ (h'.node e).list = none :=
  hw.elemRemove_mem hm

/-- sentinels and detached elements: `false`, nothing changes -/
theorem elemRemove_other (hw : WF h g) {e : Nat} (hm : ∀ l, e ∉ g l) : h.elemRemove e = some (h, false) :=
  hw.elemRemove_not hm

theorem elemDrop_attached (hw : WF h g) {l e : Nat} (hm : e ∈ g l) :
    ∃ h', h.elemDrop e = some h' ∧ WF h' (upd g l ((g l).erase e)) ∧ FrameExcept e h h' ∧
      h'.nn = h.nn ∧ h'.nl = h.nl ∧
      (h'.node e).list = none ∧ (h'.node e).ok = false ∧ (h'.node e).item = 0 :=
  hw.elemDrop_mem hm

theorem elemDrop_other (hw : WF h g) {e : Nat} (hm : ∀ l, e ∉ g l) : h.elemDrop e = some h :=
  hw.elemDrop_not hm

/-- `Set` refuses exactly the sentinels -/
theorem elemSet_refuses_iff (hw : WF h g) (e : Nat) (v : Int) :
    (h.elemSet e v).2 = false ↔ ∃ l, (h.hdr l).root = some e := by
  by_cases hr : ∃ l, (h.hdr l).root = some e
  · obtain ⟨l, hr'⟩ := hr
    simp only [Heap.elemSet_root ((hw.lwf l).root e hr').2.2.1 hr' v, true_iff]
    exact ⟨l, hr'⟩
  · have := (hw.elemSet_nonroot (e := e) (fun l hx => hr ⟨l, hx⟩) v).1
    simp [this, hr]

theorem elemSet_root (hw : WF h g) {l e : Nat} (hr : (h.hdr l).root = some e) (v : Int) :
    h.elemSet e v = (h, false) :=
  Heap.elemSet_root ((hw.lwf l).root e hr).2.2.1 hr v

/-- on anything else `Set` stores the value, makes the element ok and changes nothing else -/
theorem elemSet_nonroot (hw : WF h g) {e : Nat} (hr : ∀ l, (h.hdr l).root ≠ some e) (v : Int) :
    ∃ h', h.elemSet e v = (h', true) ∧ WF h' g ∧ (h'.node e).ok = true ∧ (h'.node e).item = v ∧
      FrameExcept e h h' := by
  obtain ⟨h1, h2⟩ := hw.elemSet_nonroot hr v
  exact ⟨_, h1, h2, by simp, by simp, FrameExcept.setData h e true v⟩

/-- `Set` never touches any list header -/
theorem set_keeps_headers (h : Heap) (e : Nat) (v : Int) : (h.elemSet e v).1.hdr = h.hdr := by
  unfold Heap.elemSet
  cases (h.node e).list with
  | none => rfl
  | some l => by_cases hr : (h.hdr l).root = some e <;> simp [hr]

/-! ### 6. `Extend`, `Copy`, the pop iterators -/

/-- `l.Extend(src)` for `src ≠ l` moves all elements of `src` to the back of `l` -/
theorem extend_spec (hw : WF h g) {l src : Nat} (hl : l < h.nl) (hs : src < h.nl) (hne : l ≠ src) :
    ∃ h', h.extend l src = some h' ∧ WF h' (upd (upd g l (g l ++ g src)) src []) ∧ Frame h h' :=
  hw.extend hl hs hne

theorem extend_vals (hw : WF h g) {l src : Nat} (hl : l < h.nl) (hs : src < h.nl) (hne : l ≠ src) :
    ∃ h' g', h.extend l src = some h' ∧ WF h' g' ∧ vals h' g' l = vals h g l ++ vals h g src ∧
      vals h' g' src = [] ∧ ∀ l', l' ≠ l → l' ≠ src → vals h' g' l' = vals h g l' := by
  obtain ⟨h', h1, h2, h3⟩ := hw.extend hl hs hne
  refine ⟨h', _, h1, h2, ?_, ?_, ?_⟩
  · simp only [vals, upd_other _ _ hne, upd_same, List.map_append]
    rw [h3.map_item (fun x hx => ((hw.lwf l).elem x hx).1),
      h3.map_item (fun x hx => ((hw.lwf src).elem x hx).1)]
  · simp [vals]
  · intro l' h4 h5
    exact h3.vals hw (by rw [upd_other _ _ h5, upd_other _ _ h4])

/-- `Copy`: a new list (address `h.nl`) of fresh elements carrying the same items in order;
    the source and all other lists keep their sequences -/
theorem copy_spec (hw : WF h g) {l : Nat} (hl : l < h.nl) :
    ∃ h' ns, h.copy l = some (h', h.nl) ∧ WF h' (upd g h.nl ns) ∧ (∀ n, n ∈ ns → h.nn ≤ n) ∧
      vals h' (upd g h.nl ns) h.nl = vals h g l ∧
      (∀ l', l' < h.nl → vals h' (upd g h.nl ns) l' = vals h g l') ∧ Frame h h' := by
  obtain ⟨h', ns, h1, h2, h3, h4, h5⟩ := hw.copy hl
  refine ⟨h', ns, h1, h2, h5, ?_, ?_, h3⟩
  · simpa [vals] using h4
  · intro l' hl'
    exact h3.vals hw (upd_other _ _ (Nat.ne_of_lt hl'))

/-- `ProducerPop` run to EOF (`fuel` calls): yields the first `fuel` elements in order and
    leaves the rest -/
theorem popIterFront_spec (hw : WF h g) {l : Nat} (hl : l < h.nl) (fuel : Nat) (acc : List Nat) :
    ∃ h', h.popIterLoop l false fuel acc = some (h', acc.reverse ++ (g l).take fuel) ∧
      WF h' (upd g l ((g l).drop fuel)) ∧ Frame h h' :=
  hw.popIterFront fuel hl

/-- `ProducerReversePop`: the same from the back -/
theorem popIterBack_spec (hw : WF h g) {l : Nat} (hl : l < h.nl) (fuel : Nat) (acc : List Nat) :
    ∃ h', h.popIterLoop l true fuel acc = some (h', acc.reverse ++ (g l).reverse.take fuel) ∧
      WF h' (upd g l ((g l).reverse.drop fuel).reverse) ∧ Frame h h' :=
  hw.popIterBack fuel hl

/-- with enough fuel the iterators drain the list completely -/
theorem popIter_drains (hw : WF h g) {l : Nat} (hl : l < h.nl) {fuel : Nat} (hf : (g l).length < fuel)
    (fromBack : Bool) :
    ∃ h', h.popIterLoop l fromBack fuel [] = some (h', if fromBack then (g l).reverse else g l) ∧
      WF h' (upd g l []) ∧ Frame h h' := by
  cases fromBack with
  | false =>
    obtain ⟨h', h1, h2, h3⟩ := hw.popIterFront fuel (acc := []) hl
    rw [List.take_of_length_le (Nat.le_of_lt hf), List.drop_of_length_le (Nat.le_of_lt hf)] at *
    exact ⟨h', by simpa using h1, h2, h3⟩
  | true =>
    obtain ⟨h', h1, h2, h3⟩ := hw.popIterBack fuel (acc := []) hl
    have hf' : (g l).reverse.length ≤ fuel := by simpa using Nat.le_of_lt hf
    rw [List.take_of_length_le hf', List.drop_of_length_le hf'] at *
    exact ⟨h', by simpa using h1, by simpa using h2, h3⟩

/-! ### 7. observations -/

/-- the public forward traversal sees exactly the ghost sequence … -/
theorem walkFwd_eq (hw : WF h g) {l : Nat} (hl : l < h.nl) {fuel : Nat} (hf : (g l).length < fuel) :
    (h.lazySetup l).walkFwd l fuel = (g l, "end") := by
  obtain ⟨hw', _, r, hr⟩ := hw.lazySetup hl
  exact hw'.walkFwd hr hf

/-- … the backward traversal its reverse … -/
theorem walkBwd_eq (hw : WF h g) {l : Nat} (hl : l < h.nl) {fuel : Nat} (hf : (g l).length < fuel) :
    (h.lazySetup l).walkBwd l fuel = ((g l).reverse, "end") := by
  obtain ⟨hw', _, r, hr⟩ := hw.lazySetup hl
  exact hw'.walkBwd hr hf

/-- … `Len` its length … -/
theorem len_eq (hw : WF h g) (l : Nat) : (h.hdr l).length = (g l).length := (hw.lwf l).len

/-- … and `In` is membership (for non-sentinels) -/
theorem in_iff (hw : WF h g) {a l : Nat} (hr : ∀ l, (h.hdr l).root ≠ some a) :
    (h.node a).list = some l ↔ a ∈ g l := hw.mem_iff hr

/-- `In` asked of a nil handle is `false` for every list (the documented answer; never a panic) -/
theorem elemIn_nil (l : Nat) : h.elemIn none l = false := rfl

/-- `In` asked through a handle is membership in the sequence: for a nil handle false, for every
    element that is not a sentinel true exactly for the list whose sequence contains it -/
theorem elemIn_iff (hw : WF h g) {e : Option Nat} {l : Nat} (hr : ∀ a, e = some a → ∀ l, (h.hdr l).root ≠ some a) :
    h.elemIn e l = true ↔ ∃ a, e = some a ∧ a ∈ g l := by
  cases e with
  | none => simp [Heap.elemIn]
  | some a =>
    have := in_iff hw (l := l) (hr a rfl)
    simp only [Heap.elemIn, Bool.and_eq_true, beq_iff_eq, Option.some.injEq, exists_eq_left']
    constructor
    · intro hh; exact this.mp hh.2
    · intro hm; have := this.mpr hm; exact ⟨by simp [this], this⟩

/-- a detached or popped element (in no sequence) reports `In` false for every list, and so does nil -/
theorem elemIn_detached (hw : WF h g) {e : Option Nat} (hr : ∀ a, e = some a → ∀ l, (h.hdr l).root ≠ some a)
    (hm : ∀ a, e = some a → ∀ l, a ∉ g l) (l : Nat) : h.elemIn e l = false := by
  cases hb : h.elemIn e l with
  | false => rfl
  | true =>
    obtain ⟨a, ha, hin⟩ := (elemIn_iff hw hr).mp hb
    exact absurd hin (hm a ha l)

/-! ### 8. `Element.Swap` -/

theorem elemSwap_nil (e : Nat) : h.elemSwap e none = some (h, false) := rfl

theorem elemSwap_detached {e w : Nat} (he : (h.node e).list = none) : h.elemSwap e (some w) = some (h, false) := by
  simp [Heap.elemSwap, he]

theorem elemSwap_other_list {e w : Nat} (he : (h.node e).list ≠ (h.node w).list) :
    h.elemSwap e (some w) = some (h, false) := by
  simp [Heap.elemSwap, he]

theorem elemSwap_self (e : Nat) : h.elemSwap e (some e) = some (h, false) := by
  simp [Heap.elemSwap]

/-- `demo4` is a well-formed heap whose list 0 holds the elements 1,2,3,4 with items 1,2,3,4 -/
theorem demo4_wf : ∃ h g, demo4 = some h ∧ WF h g ∧ g 0 = [1, 2, 3, 4] ∧ vals h g 0 = [1, 2, 3, 4] := by
  have hw0 : WF ({} : Heap).allocList.1 (fun _ => []) := WF.empty.allocList
  obtain ⟨h1, n1, e1, hw1, f1, _⟩ := hw0.pushBack (l := 0) (by decide) 1
  have l1 : 0 < h1.nl := Nat.lt_of_lt_of_le (by decide) f1.nl
  obtain ⟨h2, n2, e2, hw2, f2, _⟩ := hw1.pushBack l1 2
  have l2 : 0 < h2.nl := Nat.lt_of_lt_of_le l1 f2.nl
  obtain ⟨h3, n3, e3, hw3, f3, _⟩ := hw2.pushBack l2 3
  have l3 : 0 < h3.nl := Nat.lt_of_lt_of_le l2 f3.nl
  obtain ⟨h4, n4, e4, hw4, f4, _⟩ := hw3.pushBack l3 4
  obtain ⟨G, hw4⟩ : ∃ G, WF h4 G := ⟨_, hw4⟩
  have hd : demo4 = some h4 := by simp [demo4, e1, e2, e3, e4]
  have hwalk : (demo4.map fun h => (h.walkFwd 0 10).1) = some [1, 2, 3, 4] := by decide
  have hitems : (demo4.map fun h => [1, 2, 3, 4].map fun a => (h.node a).item) = some [1, 2, 3, 4] := by
    decide
  have hroot : (demo4.map fun h => (h.hdr 0).root) = some (some 0) := by decide
  have hlen : (demo4.map fun h => (h.hdr 0).length) = some 4 := by decide
  rw [hd] at hwalk hitems hroot hlen
  simp only [Option.map_some, Option.some.injEq] at hwalk hitems hroot hlen
  have hl := (hw4.lwf 0).len
  rw [hlen] at hl
  have key := hw4.walkFwd hroot (fuel := 10) (by omega)
  rw [key] at hwalk
  have hg : G 0 = [1, 2, 3, 4] := hwalk
  refine ⟨h4, G, hd, hw4, hg, ?_⟩
  unfold vals
  rw [hg]
  exact hitems

/-- `Element.Swap` as written breaks the invariant: swapping the first and the last element of
    the well-formed list 1,2,3,4 reports success, but afterwards the forward traversal visits
    only three elements (4,2,3 — element 1 is lost) while `Len` still says 4, the backward
    traversal from the sentinel never comes back to it, and no ghost state makes the heap
    well-formed. -/
theorem swap_breaks_wf :
    ∃ h0 g0 h, demo4 = some h0 ∧ WF h0 g0 ∧ g0 0 = [1, 2, 3, 4] ∧
      h0.elemSwap 1 (some 4) = some (h, true) ∧
      h.walkFwd 0 10 = ([4, 2, 3], "end") ∧ (h.hdr 0).length = 4 ∧
      h.walkBwd 0 10 = ([3, 2, 4, 1, 5, 2, 4, 1, 5, 2], "cycle") ∧ ¬ ∃ g, WF h g := by
  obtain ⟨h0, g0, hd, hw0, hg0, _⟩ := demo4_wf
  have hs : demoSwap = h0.elemSwap 1 (some 4) := by simp [demoSwap, hd]
  have h1 : (demoSwap.map fun p => p.2) = some true := by decide
  have h2 : (demoSwap.map fun p => p.1.walkFwd 0 10) = some ([4, 2, 3], "end") := by decide
  have h3 : (demoSwap.map fun p => (p.1.hdr 0).length) = some 4 := by decide
  have h4 : (demoSwap.map fun p => p.1.walkBwd 0 10) = some ([3, 2, 4, 1, 5, 2, 4, 1, 5, 2], "cycle") := by
    decide
  have h5 : (demoSwap.map fun p => (p.1.hdr 0).root) = some (some 0) := by decide
  rw [hs] at h1 h2 h3 h4 h5
  cases hsw : h0.elemSwap 1 (some 4) with
  | none => rw [hsw] at h1; cases h1
  | some p =>
    obtain ⟨h, b⟩ := p
    rw [hsw] at h1 h2 h3 h4 h5
    simp only [Option.map_some, Option.some.injEq] at h1 h2 h3 h4 h5
    subst h1
    refine ⟨h0, g0, h, hd, hw0, hg0, hsw, h2, h3, h4, ?_⟩
    rintro ⟨g, hw⟩
    have hl := (hw.lwf 0).len
    rw [h3] at hl
    have key := hw.walkFwd h5 (fuel := 10) (by omega)
    rw [h2] at key
    have : g 0 = [4, 2, 3] := (congrArg Prod.fst key).symm
    rw [this] at hl
    simp at hl

/-! ### 9. all reachable states are well-formed -/

/-- every state reachable from the empty heap by the operations of `Op` (AllocList, NewElement,
    lazySetup, PushFront/Back, PopFront/Back, Append, Remove, Drop, Set, Extend (src ≠ l), Copy,
    the pop iterators) with allocated but otherwise arbitrary arguments is well-formed -/
theorem reachable_wf {h : Heap} (hr : Reachable h) : ∃ g, WF h g := hr.wf

/-- … and from a reachable state no such operation panics -/
theorem reachable_no_panic {h : Heap} (hr : Reachable h) (op : Op) (hv : op.valid h) :
    ∃ h', op.run h = some h' ∧ Reachable h' := hr.no_panic op hv

/-- `Reachable` is "some list of operations runs (with validity checks) from the empty heap" -/
theorem reachable_iff {h : Heap} : Reachable h ↔ ∃ ops, runOps ops {} = some h := reachable_iff_runOps

/-- hence `runOps` can only fail on an unallocated argument -/
theorem runOps_wf {ops : List Op} {h : Heap} (he : runOps ops {} = some h) : ∃ g, WF h g :=
  (reachable_iff.2 ⟨ops, he⟩).wf

/-- the observations of a reachable state are consistent: forward and backward traversal of
    every allocated list are reverses of each other, end at the sentinel and `Len` agrees -/
theorem reachable_walks {h : Heap} (hr : Reachable h) {l : Nat} (hl : l < h.nl) :
    ∃ xs : List Nat, (∀ fuel, xs.length < fuel →
        (h.lazySetup l).walkFwd l fuel = (xs, "end") ∧ (h.lazySetup l).walkBwd l fuel = (xs.reverse, "end")) ∧
      (h.hdr l).length = xs.length := by
  obtain ⟨g, hw⟩ := hr.wf
  exact ⟨g l, fun fuel hf => ⟨walkFwd_eq hw hl hf, walkBwd_eq hw hl hf⟩, (hw.lwf l).len⟩

/-- non-vacuity: `demoOps` runs, so its final state is reachable and well-formed; list 1 holds the
    elements 5,2 with items 40,7, the copy (list 2) holds 40,10 after one reverse pop -/
example : ∃ h g, runOps demoOps {} = some h ∧ Reachable h ∧ WF h g ∧ h.nl = 3 ∧
    g 0 = [] ∧ g 1 = [5, 2] ∧ vals h g 1 = [40, 7] ∧ g 2 = [8, 9] ∧ vals h g 2 = [40, 10] := by
  have h0 : (runOps demoOps {}).isSome = true := by decide
  obtain ⟨h, he⟩ := Option.isSome_iff_exists.1 h0
  have hr : Reachable h := reachable_iff.2 ⟨_, he⟩
  obtain ⟨g, hw⟩ := hr.wf
  have e1 : ((runOps demoOps {}).map fun h => (h.nl, (h.hdr 0).root, (h.hdr 1).root, (h.hdr 2).root)) =
      some (3, some 0, some 3, some 7) := by decide
  have e3 : ((runOps demoOps {}).map fun h => (h.walkFwd 0 10, h.walkFwd 1 10, h.walkFwd 2 10)) =
      some (([], "end"), ([5, 2], "end"), ([8, 9], "end")) := by decide
  have e4 : ((runOps demoOps {}).map fun h => ((h.hdr 0).length, (h.hdr 1).length, (h.hdr 2).length)) =
      some (0, 2, 2) := by decide
  have e2 : ((runOps demoOps {}).map fun h => ([5, 2].map fun a => (h.node a).item,
      [8, 9].map fun a => (h.node a).item)) = some ([40, 7], [40, 10]) := by decide
  rw [he] at e1 e2 e3 e4
  simp only [Option.map_some, Option.some.injEq, Prod.mk.injEq] at e1 e2 e3 e4
  obtain ⟨n1, r0, r1, r2⟩ := e1
  obtain ⟨w0, w1, w2⟩ := e3
  obtain ⟨l0, l1, l2⟩ := e4
  have g0 : g 0 = [] := by
    have hl := (hw.lwf 0).len; rw [l0] at hl
    have := hw.walkFwd r0 (fuel := 10) (by omega)
    rw [w0] at this; exact (congrArg Prod.fst this).symm
  have g1 : g 1 = [5, 2] := by
    have hl := (hw.lwf 1).len; rw [l1] at hl
    have := hw.walkFwd r1 (fuel := 10) (by omega)
    rw [w1] at this; exact (congrArg Prod.fst this).symm
  have g2 : g 2 = [8, 9] := by
    have hl := (hw.lwf 2).len; rw [l2] at hl
    have := hw.walkFwd r2 (fuel := 10) (by omega)
    rw [w2] at this; exact (congrArg Prod.fst this).symm
  refine ⟨h, g, he, hr, hw, n1, g0, g1, ?_, g2, ?_⟩
  · unfold vals; rw [g1]; exact e2.1
  · unfold vals; rw [g2]; exact e2.2

/-- non-vacuity of the hypotheses of the one-step theorems: a well-formed heap with a non-empty
    list and a detached ok element exists -/
example : ∃ h g n, WF h g ∧ g 0 = [1, 2, 3, 4] ∧ n < h.nn ∧ (h.node n).ok = true ∧
    (h.node n).list = none := by
  obtain ⟨h, g, _, hw, hg, _⟩ := demo4_wf
  exact ⟨(h.makeElem 0).1, g, h.nn, hw.alloc rfl, hg, by simp [Heap.makeElem], by simp [Heap.makeElem],
    by simp [Heap.makeElem]⟩

end FunModel.C16
