import FunProofs.SortSeq

/-! C17 — sorting and the heap of `dt/cmp.go`, at the level of the sequence of items:
    `SortMerge` (the hand-written merge sort) and `SortQuick` (`sort.SliceStable`) both return
    THE stable sorted permutation of the input (hence agree), for every strict weak ordering and
    every list; `IsSorted` decides sortedness; `Heap.Push` keeps the list sorted, so popping from
    the front yields every pushed value exactly once in non-decreasing order, FIFO among equals.
    Property theorems only; `StrictWeak`, `Sorted`, `AdjSorted`, `equiv`, `heapOf` and the helper
    lemmas are in `FunProofs/SortSeq.lean`. -/

namespace FunModel.C17
open FunModel FunModel.SortSeq

variable {α β : Type}

/-! ### 0. strict weak orderings: closure properties and the instances used by the checks -/

theorem strictWeak_flip {lt : α → α → Bool} (h : StrictWeak lt) :
    StrictWeak (fun a b => lt b a) := h.flip

theorem strictWeak_comap {lt : α → α → Bool} (f : β → α) (h : StrictWeak lt) :
    StrictWeak (fun a b => lt (f a) (f b)) := h.comap f

theorem strictWeak_int_lt : StrictWeak (fun a b : Int => a < b) :=
  SortSeq.strictWeak_int_lt

theorem strictWeak_int_gt : StrictWeak (fun a b : Int => a > b) :=
  SortSeq.strictWeak_int_gt

theorem strictWeak_int_key : StrictWeak (fun a b : Int => (a + 1000) / 10 < (b + 1000) / 10) :=
  SortSeq.strictWeak_int_key

/-! ### 1–3. `SortMerge` -/

/-- The fuel of the model is adequate: `sortMerge` satisfies the recursion equation of the Go
    `mergeSort` (`head` = what remains after `split` = the back part, `tail` = the front part). -/
theorem sortMerge_unfold (lt : α → α → Bool) (xs : List α) (h : 2 ≤ xs.length) :
    sortMerge lt xs = merge lt (sortMerge lt (split xs).2) (sortMerge lt (split xs).1) := by
  have h1 := split_fst_length_lt h
  have h2 := split_snd_length_lt h
  unfold sortMerge
  rw [mergeSort_succ lt h,
    mergeSort_fuel lt xs.length ((split xs).2.length + 1) _ (by omega) (by omega),
    mergeSort_fuel lt xs.length ((split xs).1.length + 1) _ (by omega) (by omega)]

theorem sortMerge_short (lt : α → α → Bool) (xs : List α) (h : xs.length < 2) :
    sortMerge lt xs = xs := mergeSort_short lt h _

theorem sortMerge_perm (lt : α → α → Bool) (xs : List α) : (sortMerge lt xs).Perm xs :=
  mergeSort_perm lt _ xs

theorem sortMerge_sorted {lt : α → α → Bool} (h : StrictWeak lt) (xs : List α) :
    Sorted lt (sortMerge lt xs) :=
  mergeSort_sorted h _ xs (Nat.le_succ _)

/-- `merge` alone: on sorted inputs every equivalence class of the output consists of the
    SECOND argument's members followed by the first's. -/
theorem merge_stable {lt : α → α → Bool} (h : StrictWeak lt) (k : α) (a b : List α)
    (hb : Sorted lt b) :
    (merge lt a b).filter (equiv lt k) = b.filter (equiv lt k) ++ a.filter (equiv lt k) :=
  merge_filter h k a b hb

theorem sortMerge_stable {lt : α → α → Bool} (h : StrictWeak lt) (xs : List α) (k : α) :
    (sortMerge lt xs).filter (equiv lt k) = xs.filter (equiv lt k) :=
  mergeSort_filter h k _ xs (Nat.le_succ _)

/-! ### 4. `SortQuick` (specification of `sort.SliceStable`) -/

theorem sortQuick_perm (lt : α → α → Bool) (xs : List α) : (sortQuick lt xs).Perm xs := by
  induction xs with
  | nil => exact List.Perm.refl _
  | cons x xs ih => exact (insertStable_perm lt x _).trans (ih.cons x)

theorem sortQuick_sorted {lt : α → α → Bool} (h : StrictWeak lt) (xs : List α) :
    Sorted lt (sortQuick lt xs) := by
  induction xs with
  | nil => exact sorted_nil lt
  | cons x xs ih => exact insertStable_sorted h x _ ih

theorem sortQuick_stable {lt : α → α → Bool} (h : StrictWeak lt) (xs : List α) (k : α) :
    (sortQuick lt xs).filter (equiv lt k) = xs.filter (equiv lt k) := by
  induction xs with
  | nil => rfl
  | cons x xs ih =>
    show (insertStable lt x (sortQuick lt xs)).filter (equiv lt k) = _
    rw [insertStable_filter h, List.filter_cons, ih, ← List.filter_cons]

/-! ### 5. the stable sorted arrangement is unique -/

/-- Two sorted lists with the same equivalence-class subsequences are equal. -/
theorem sorted_unique {lt : α → α → Bool} (h : StrictWeak lt) (l1 l2 : List α)
    (h1 : Sorted lt l1) (h2 : Sorted lt l2)
    (hf : ∀ k, l1.filter (equiv lt k) = l2.filter (equiv lt k)) : l1 = l2 :=
  sorted_eq_of_filter_eq h l1 l2 h1 h2 hf

/-- Two sorted, stable permutations of `xs` are equal (the permutation hypotheses are in fact
    implied by the stability hypotheses, see `sorted_unique`). -/
theorem sorted_unique_of_stable {lt : α → α → Bool} (h : StrictWeak lt) (xs l1 l2 : List α)
    (_p1 : l1.Perm xs) (_p2 : l2.Perm xs) (s1 : Sorted lt l1) (s2 : Sorted lt l2)
    (st1 : ∀ k, l1.filter (equiv lt k) = xs.filter (equiv lt k))
    (st2 : ∀ k, l2.filter (equiv lt k) = xs.filter (equiv lt k)) : l1 = l2 :=
  sorted_eq_of_filter_eq h l1 l2 s1 s2 (fun k => (st1 k).trans (st2 k).symm)

theorem sortMerge_eq_sortQuick {lt : α → α → Bool} (h : StrictWeak lt) (xs : List α) :
    sortMerge lt xs = sortQuick lt xs :=
  sorted_unique_of_stable h xs _ _ (sortMerge_perm lt xs) (sortQuick_perm lt xs)
    (sortMerge_sorted h xs) (sortQuick_sorted h xs) (sortMerge_stable h xs) (sortQuick_stable h xs)

/-! ### 6. `IsSorted` -/

theorem isSorted_iff (lt : α → α → Bool) (xs : List α) :
    isSorted lt xs = true ↔ AdjSorted lt xs :=
  isSorted_iff_adj lt xs

theorem isSorted_iff_sorted {lt : α → α → Bool} (h : StrictWeak lt) (xs : List α) :
    isSorted lt xs = true ↔ Sorted lt xs :=
  ⟨sorted_of_isSorted h xs, isSorted_of_sorted lt xs⟩

theorem isSorted_short (lt : α → α → Bool) (xs : List α) (h : xs.length < 2) :
    isSorted lt xs = true :=
  isSorted_of_sorted lt xs (sorted_of_length_lt_two lt h)

theorem isSorted_sortMerge {lt : α → α → Bool} (h : StrictWeak lt) (xs : List α) :
    isSorted lt (sortMerge lt xs) = true :=
  (isSorted_iff_sorted h _).mpr (sortMerge_sorted h xs)

theorem isSorted_sortQuick {lt : α → α → Bool} (h : StrictWeak lt) (xs : List α) :
    isSorted lt (sortQuick lt xs) = true :=
  (isSorted_iff_sorted h _).mpr (sortQuick_sorted h xs)

theorem sortMerge_adjSorted {lt : α → α → Bool} (h : StrictWeak lt) (xs : List α) :
    AdjSorted lt (sortMerge lt xs) :=
  (isSorted_iff lt _).mp (isSorted_sortMerge h xs)

theorem sortQuick_adjSorted {lt : α → α → Bool} (h : StrictWeak lt) (xs : List α) :
    AdjSorted lt (sortQuick lt xs) :=
  (isSorted_iff lt _).mp (isSorted_sortQuick h xs)

/-! ### 7. the heap -/

theorem heapInsert_perm (lt : α → α → Bool) (t : α) (xs : List α) :
    (heapInsert lt t xs).Perm (t :: xs) :=
  heapInsert_perm' lt t xs

theorem heapInsert_sorted {lt : α → α → Bool} (h : StrictWeak lt) (t : α) (xs : List α)
    (hs : Sorted lt xs) : Sorted lt (heapInsert lt t xs) :=
  heapInsert_sorted' h t xs hs

/-- Pushing `t` changes every equivalence class exactly as appending `t` at the back would … -/
theorem heapInsert_stable {lt : α → α → Bool} (h : StrictWeak lt) (t : α) (xs : List α) (k : α) :
    (heapInsert lt t xs).filter (equiv lt k) = (xs ++ [t]).filter (equiv lt k) :=
  heapInsert_filter h k t xs

/-- … in particular the new element goes after all existing elements equivalent to it. -/
theorem heapInsert_after_equal {lt : α → α → Bool} (h : StrictWeak lt) (t : α) (xs : List α) :
    (heapInsert lt t xs).filter (equiv lt t) = xs.filter (equiv lt t) ++ [t] := by
  rw [heapInsert_filter h, List.filter_append]
  simp [equiv_refl h]

theorem heapOf_perm (lt : α → α → Bool) (ts : List α) : (heapOf lt ts).Perm ts := by
  simpa [heapOf] using foldl_heapInsert_perm lt ts []

theorem heapOf_sorted {lt : α → α → Bool} (h : StrictWeak lt) (ts : List α) :
    Sorted lt (heapOf lt ts) :=
  foldl_heapInsert_sorted h ts [] (sorted_nil lt)

theorem heapOf_stable {lt : α → α → Bool} (h : StrictWeak lt) (ts : List α) (k : α) :
    (heapOf lt ts).filter (equiv lt k) = ts.filter (equiv lt k) := by
  simpa [heapOf] using foldl_heapInsert_filter h k ts []

/-- The pop order of a heap is the stable sort of the push order. -/
theorem heapOf_eq_sortQuick {lt : α → α → Bool} (h : StrictWeak lt) (ts : List α) :
    heapOf lt ts = sortQuick lt ts :=
  sorted_unique_of_stable h ts _ _ (heapOf_perm lt ts) (sortQuick_perm lt ts)
    (heapOf_sorted h ts) (sortQuick_sorted h ts) (heapOf_stable h ts) (sortQuick_stable h ts)

/-! ### 8. non-vacuity -/

example : StrictWeak (fun a b : Int => a < b) := strictWeak_int_lt
example : StrictWeak (fun a b : Int => a > b) := strictWeak_int_gt
example : StrictWeak (fun a b : Int => (a + 1000) / 10 < (b + 1000) / 10) := strictWeak_int_key

-- (`merge` is compiled by well-founded recursion, so `decide` cannot evaluate it; `simp` can)
example : sortMerge (fun a b : Int => a < b) [3, -1, 2, -1, 0] = [-1, -1, 0, 2, 3] := by
  simp [sortMerge, mergeSort, split, merge]
example : sortQuick (fun a b : Int => a < b) [3, -1, 2, -1, 0] = [-1, -1, 0, 2, 3] := by decide
example : sortMerge (fun a b : Int => a > b) [3, -1, 2, -1, 0] = [3, 2, 0, -1, -1] := by
  simp [sortMerge, mergeSort, split, merge]

/-- stability is visible: 11, 19, 12 all have key 101 and keep their input order -/
example : sortMerge (fun a b : Int => (a + 1000) / 10 < (b + 1000) / 10) [25, 11, -7, 19, 3, 12]
    = [-7, 3, 11, 19, 12, 25] := by
  simp [sortMerge, mergeSort, split, merge]
example : sortQuick (fun a b : Int => (a + 1000) / 10 < (b + 1000) / 10) [25, 11, -7, 19, 3, 12]
    = [-7, 3, 11, 19, 12, 25] := by decide
example : heapOf (fun a b : Int => (a + 1000) / 10 < (b + 1000) / 10) [25, 11, -7, 19, 3, 12]
    = [-7, 3, 11, 19, 12, 25] := by decide
example : [25, 11, -7, 19, 3, 12].filter
      (equiv (fun a b : Int => (a + 1000) / 10 < (b + 1000) / 10) 15) = [11, 19, 12] := by decide

example : split [1, 2, 3, 4, 5] = ([1, 2, 3], [4, 5]) := by decide
example : merge (fun a b : Int => a < b) [1, 4] [1, 2] = [1, 1, 2, 4] := by simp [merge]
/-- on a tie `merge` takes from its second argument first -/
example : merge (fun a b : Int => (a + 1000) / 10 < (b + 1000) / 10) [11, 30] [19, 20]
    = [19, 11, 20, 30] := by simp [merge]

example : isSorted (fun a b : Int => a < b) [1, 3, 2] = false := by decide
example : isSorted (fun a b : Int => a < b) [-2, -1, 5] = true := by decide
example : ¬ Sorted (fun a b : Int => a < b) [1, 3, 2] := by
  rw [← isSorted_iff_sorted strictWeak_int_lt]; decide
example : Sorted (fun a b : Int => a < b) [-2, -1, 5] :=
  (isSorted_iff_sorted strictWeak_int_lt _).mp (by decide)

example : heapInsert (fun a b : Int => a < b) 2 [-1, 2, 2, 5] = [-1, 2, 2, 2, 5] := by decide
example : heapInsert (fun a b : Int => a < b) (-3) [-1, 2] = [-3, -1, 2] := by decide
example : heapInsert (fun a b : Int => a < b) 7 [] = [7] := by decide

end FunModel.C17
