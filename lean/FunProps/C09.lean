import FunProofs.BrokerMeasure

/-! # C09 — the broker makes progress while subscribers read, and shuts down cleanly

    Property theorems about the process model `FunModel.Broker` (see FunProps/C08.lean for what
    the model covers). Liveness is stated as safety, as everywhere in this development:
    *no stuck state* (`broker_no_stuck`, `quiescent_means_idle`) plus a *strictly decreasing
    measure* for every internal action (`internal_step_decreases`), so every run of internal
    actions is finite and ends in a quiescent state; what quiescent states look like while the
    context is live and everybody receives (`quiescent_means_idle`) and after Stop / cancellation
    (`shutdown_all_exit`) is proved for every reachable state. "Promptly" = the return is enabled
    in the model; wall-clock time is not expressible.

    The back-end containers enter through the abstract distributor: that a blocked `Receive` is
    woken by a `Send` (and a blocked `Send` by a `Receive`) is what C05/C06/C07 prove of
    `pubsub.Queue` / `pubsub.Deque` (`wait_when_ready_returns`, D1–D4 repaired); in the model a
    worker in `Receive` is simply enabled whenever the buffer is not empty. -/

namespace FunProps.C09
open FunModel.Broker FunProofs.Broker

/-- **No stuck state.** Context live, every subscriber receiving: a reachable state in which
    something is left to do — the distributor holds a message, the event loop holds one, a
    Publish / Subscribe / Unsubscribe / Stats call is pending, a worker is busy, a send is in
    progress or a subscription channel is not empty — has an enabled internal action. For every
    distributor back-end, every worker pool size, serial and parallel dispatch, every BufferSize,
    every burst size (any number of messages buffered or pending). -/
theorem broker_no_stuck (c : Cfg) (hv : Cfg.valid c) (s : St) (h : Reachable c s) (hl : s.live = true)
    (hopen : allOpen s = true)
    (hwork : s.buf ≠ [] ∨ s.loop ≠ .select ∨ pendingApi s.calls ≠ 0 ∨ (∃ w ∈ s.ws, w ≠ Worker.idle) ∨
      s.sends ≠ [] ∨ ∃ k, s.chan k ≠ []) :
    enabledInternal c s ≠ [] := by
  intro hne
  have hq : quiescent c s = true := by simp [quiescent, hne]
  have hi := idle_of_quiescent hv (wf_reachable h) hl hopen hq
  rcases hwork with h1 | h1 | h1 | ⟨w, hw, h1⟩ | h1 | ⟨k, h1⟩
  · exact h1 hi.buf
  · exact h1 hi.loop
  · exact h1 (pendingApi_zero hi)
  · exact h1 (hi.workers w hw)
  · exact h1 hi.sends
  · exact h1 (hi.chans k)

/-- The same read the other way: a quiescent state (context live, every subscriber receiving) is
    idle — distributor empty, event loop in its `select`, every worker waiting in `Receive`, no
    send in progress, every subscription channel drained, no Publish / Subscribe / Unsubscribe /
    Stats call pending (each Publish has returned). -/
theorem quiescent_means_idle (c : Cfg) (hv : Cfg.valid c) (s : St) (h : Reachable c s) (hl : s.live = true)
    (hopen : allOpen s = true) (hq : quiescent c s = true) :
    s.buf = [] ∧ s.loop = .select ∧ (∀ w ∈ s.ws, w = Worker.idle) ∧ s.sends = [] ∧ (∀ k, s.chan k = []) ∧
      pendingApi s.calls = 0 := by
  have hi := idle_of_quiescent hv (wf_reachable h) hl hopen hq
  exact ⟨hi.buf, hi.loop, hi.workers, hi.sends, hi.chans, pendingApi_zero hi⟩

/-- `quiescent` means what it should: no internal action (anything the broker, the pending calls
    or the receiving subscribers can do by themselves) is enabled. -/
theorem quiescent_iff_no_internal_action (c : Cfg) (s : St) (h : Reachable c s) :
    quiescent c s = true ↔ ∀ a, a.internal = true → step c s a = none :=
  quiescent_iff h

/-- **Decreasing measure.** Every internal action strictly decreases `mu` (a weighted count of
    what is left to do: pending calls, the event loop's hand, buffered messages — each weighted
    with the number of subscribers it may still have to visit —, workers' remaining keys, sends in
    progress, buffered deliveries): from any reachable state every sequence of internal actions is
    finite (at most `mu s` long), whatever the burst size, live or stopped. With `broker_no_stuck`
    a finite burst is drained; with `shutdown_all_exit` a stopped broker winds down. -/
theorem internal_step_decreases (c : Cfg) (s s' : St) (a : Act) (h : Reachable c s)
    (hs : step c s a = some s') (hi : a.internal = true) : mu s' < mu s :=
  mu_decreases (wf_reachable h) (step_sound hs) hi

/-- … hence a run of internal actions from a reachable state has at most `mu s` steps. -/
theorem internal_run_bounded (c : Cfg) (s s' : St) (acts : List Act) (h : Reachable c s)
    (hall : ∀ a ∈ acts, a.internal = true) (hr : run c s acts = some s') : acts.length + mu s' ≤ mu s :=
  run_bounded h hall hr

/-- **Clean shutdown.** After Stop or cancellation of the broker's context (`live = false`), a
    reachable state in which no internal action is enabled — where every run of internal actions
    ends, by the measure — has the event loop and every dispatch worker exited, no send goroutine
    left, and no Wait call pending (it was enabled to return and did). -/
theorem shutdown_all_exit (c : Cfg) (s : St) (_h : Reachable c s) (hd : s.live = false)
    (hq : quiescent c s = true) :
    s.loop = .exited ∧ (∀ w ∈ s.ws, w = Worker.exited) ∧ s.sends = [] ∧ alive s = 0 ∧
      (∀ cl ∈ s.calls, cl.kind ≠ CallKind.wait) := by
  have hdn := down_of_quiescent hd hq
  exact ⟨hdn.loop, hdn.workers, hdn.sends, alive_zero hdn, hdn.waits⟩

/-- Wait returns as soon as the event loop and the workers have exited. -/
theorem wait_returns_when_exited (c : Cfg) (s : St) (i : Nat) (x : Bool)
    (hc : s.calls[i]? = some { kind := .wait, cancelled := x }) (hl : s.loop = .exited)
    (hw : ∀ w ∈ s.ws, w = Worker.exited) : (step c s (.waitRet i)).isSome = true := by
  have : allExited s.ws = true := by
    simp only [allExited, List.all_eq_true, beq_iff_eq]; exact hw
  simp [step, stepCore, hc, hl, this]

/-- After Stop every blocked broker goroutine is enabled to give up: nothing in the broker waits
    for anything but its context. -/
theorem stopped_goroutines_can_exit (c : Cfg) (s : St) (hd : s.live = false) :
    (s.loop = .select → (step c s .loopExit).isSome = true) ∧
    (∀ m, s.loop = .sending m → (step c s .loopSendAbort).isSome = true) ∧
    (∀ w, s.ws[w]? = some Worker.idle → (step c s (.wExit w)).isSome = true) ∧
    (∀ w m, s.ws[w]? = some (Worker.got m) → (step c s (.wAbandon w)).isSome = true) ∧
    (∀ w m st vi, s.ws[w]? = some (Worker.iter m st vi) → (step c s (.wAbandon w)).isSome = true) ∧
    (∀ k m, (k, m) ∈ s.sends → (step c s (.sendAbort k m)).isSome = true) := by
  refine ⟨?_, ?_, ?_, ?_, ?_, ?_⟩
  · intro h; simp [step, stepCore, h, hd]
  · intro m h; simp [step, stepCore, h, hd]
  · intro w h; simp [step, stepCore, h, hd]
  · intro w m h; simp [step, stepCore, h, hd]
  · intro w m st vi h; simp [step, stepCore, h, hd]
  · intro k m h; simp [step, stepCore, h, hd]

/-- **API calls return on their own context.** A pending Publish, Subscribe, Unsubscribe, Stats or
    Wait call whose own context is done is enabled to return — in every state, whatever the broker
    is doing (stopped, wedged behind a slow subscriber, …) — and at a quiescent point none is left. -/
theorem api_returns_on_own_ctx (c : Cfg) (s : St) (i : Nat) (cl : Call) (hc : s.calls[i]? = some cl)
    (hx : cl.cancelled = true) : (step c s (.callAbort i)).isSome = true := by
  simp [step, stepCore, hc, hx]

theorem no_cancelled_call_at_quiescence (c : Cfg) (s : St) (hq : quiescent c s = true) :
    ∀ cl ∈ s.calls, cl.cancelled = false :=
  no_zombie_of_quiescent hq

/-! ### non-vacuity -/

def cfgQ : Cfg := { backend := .fifo, workers := 2, parallel := true, bufSize := 1 }

/-- a burst of three publishes completes before any worker runs; then Stop with the backlog -/
def runBurst : List Act :=
  [.subCall, .enqSub 0, .loopSubQ, .pubCall 0, .loopTake 0, .loopSend true, .pubCall 0, .loopTake 0,
   .loopSend true, .pubCall 0, .loopTake 0, .loopSend true]

example : ∃ s, run cfgQ (init cfgQ) runBurst = some s ∧ s.live = true ∧ allOpen s = true ∧
    s.buf = [(0, 0), (0, 1), (0, 2)] ∧ enabledInternal cfgQ s ≠ [] ∧ mu s = 24 := by
  refine ⟨_, rfl, ?_, ?_, ?_, ?_, ?_⟩ <;> decide

example : ∃ s, run cfgQ (init cfgQ) (runBurst ++ [.waitCall, .stop, .loopExit, .wExit 0, .wExit 1, .waitRet 0,
      .observeQuiet, .census]) = some s ∧
    s.live = false ∧ quiescent cfgQ s = true ∧ alive s = 0 ∧ s.buf = [(0, 0), (0, 1), (0, 2)] := by
  refine ⟨_, rfl, ?_, ?_, ?_, ?_⟩ <;> decide

example : Cfg.valid cfgQ := by simp [Cfg.valid, cfgQ]

end FunProps.C09
