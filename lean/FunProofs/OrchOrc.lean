import FunModel.Orch
import FunProofs.OrchErr

/-! Helper lemmas for C11, orchestrator: inversion of `Orc.step` and the inductive invariant of the
    orchestrator machine (code with the fix: `legacyWaitFor = false`). -/

namespace FunModel.Orch

theorem ite_some_eq {α : Type} {p : Prop} [Decidable p] {a b : α} (h : (if p then some a else none) = some b) :
    p ∧ b = a := by
  by_cases hp : p
  · simp [hp] at h; exact ⟨hp, h.symm⟩
  · simp [hp] at h

theorem upd_apply {α : Type} (f : Nat → α) (i j : Nat) (v : α) : upd f i v j = if j = i then v else f j := rfl

namespace Orc

def Task.active : Task → Bool
  | .toStart => true
  | .awaiting _ => true
  | _ => false

/-! ### inversion of `step` -/

theorem step_add {c : Cfg} {s s' : St} {i : Nat} (h : step c s (.add i) = some s') :
    s.addSt i = .none ∧
      s' = { s with addSt := upd s.addSt i (if s.cancelled then .late else .live), queue := s.queue ++ [i] } :=
  ite_some_eq h

theorem step_startOrch {c : Cfg} {s s' : St} (h : step c s .startOrch = some s') :
    s.orch = .idle ∧ s' = { s with orch := .looping } := ite_some_eq h

theorem step_cancel {c : Cfg} {s s' : St} (h : step c s .cancel = some s') : s' = { s with cancelled := true } := by
  simp only [step, Option.some.injEq] at h; exact h.symm

theorem step_extStart {c : Cfg} {s s' : St} {i : Nat} (h : step c s (.extStart i) = some s') :
    s.phase i = .fresh ∧ s' = { s with phase := upd s.phase i .running, runs := upd s.runs i (s.runs i + 1) } :=
  ite_some_eq h

theorem step_release {c : Cfg} {s s' : St} {i : Nat} (h : step c s (.release i) = some s') :
    s' = { s with released := upd s.released i true } := by
  simp only [step, Option.some.injEq] at h; exact h.symm

theorem step_endOwn {c : Cfg} {s s' : St} {i : Nat} (h : step c s (.endOwn i) = some s') :
    s' = { s with ownEnded := upd s.ownEnded i true } := by
  simp only [step, Option.some.injEq] at h; exact h.symm

theorem step_svcReturn {c : Cfg} {s s' : St} {i : Nat} (h : step c s (.svcReturn i) = some s') :
    (s.phase i = .running ∧ s.released i = true ∧ ((c.outcome i).blocks = true → s.ctxEnded i = true)) ∧
      s' = { s with phase := upd s.phase i .finished } := ite_some_eq h

theorem step_loopTake {c : Cfg} {s s' : St} (h : step c s .loopTake = some s') :
    ∃ i q, s.orch = .looping ∧ s.queue = i :: q ∧
      ((s.phase i = .running ∧ s' = { s with queue := q, task := upd s.task i (.awaiting true), dispatched := i :: s.dispatched, wg := s.wg + 1 }) ∨
       (s.phase i = .finished ∧ s' = { s with queue := q, task := upd s.task i .done, dispatched := i :: s.dispatched, coll := .wait i true :: s.coll }) ∨
       (s.phase i = .fresh ∧ s' = { s with queue := q, task := upd s.task i .toStart, dispatched := i :: s.dispatched, wg := s.wg + 1 })) := by
  simp only [step] at h
  split at h
  · rename_i i q ho hq
    refine ⟨i, q, ho, hq, ?_⟩
    split at h <;> rename_i hp <;> simp only [Option.some.injEq] at h <;> subst h <;> simp [hp]
  · cases h

theorem step_loopExit {c : Cfg} {s s' : St} (h : step c s .loopExit = some s') :
    (s.orch = .looping ∧ s.queue = [] ∧ s.cancelled = true) ∧ s' = { s with orch := .draining } := ite_some_eq h

theorem step_taskStart {c : Cfg} {s s' : St} {i : Nat} (h : step c s (.taskStart i) = some s') :
    s.task i = .toStart ∧
      ((s.phase i = .fresh ∧ s' = { s with phase := upd s.phase i .running, runs := upd s.runs i (s.runs i + 1), byOrch := upd s.byOrch i true, task := upd s.task i (.awaiting false) }) ∨
       (s.phase i ≠ .fresh ∧ ∃ r, s' = { s with task := upd s.task i (.awaiting false), coll := .startErr i r :: s.coll })) := by
  simp only [step] at h
  split at h
  · rename_i ht
    refine ⟨ht, ?_⟩
    split at h <;> rename_i hp <;> simp only [Option.some.injEq] at h <;> subst h
    · exact Or.inl ⟨hp, rfl⟩
    · exact Or.inr ⟨by simp [hp], false, rfl⟩
    · exact Or.inr ⟨by simp [hp], true, rfl⟩
  · cases h

theorem step_taskCollect {c : Cfg} (hfix : c.legacyWaitFor = false) {s s' : St} {i : Nat}
    (h : step c s (.taskCollect i) = some s') :
    ∃ v, s.task i = .awaiting v ∧ s.phase i = .finished ∧
      s' = { s with task := upd s.task i .done, wg := s.wg - 1, coll := .wait i true :: s.coll } := by
  simp only [step] at h
  split at h
  · rename_i v hv
    by_cases hp : s.phase i = .finished
    · simp only [hp, ↓reduceIte, Option.some.injEq] at h
      exact ⟨v, hv, hp, h.symm⟩
    · simp [hp, hfix] at h
  · cases h

theorem step_orchReturn {c : Cfg} {s s' : St} (h : step c s .orchReturn = some s') :
    (s.orch = .draining ∧ s.wg = 0) ∧
      s' = { s with orch := .returned, retAtW := fun i => decide (s.phase i = .finished) } := ite_some_eq h

/-! ### the invariant -/

structure Inv (s : St) : Prop where
  runs_le : ∀ i, s.runs i ≤ 1
  runs_zero : ∀ i, s.runs i = 0 ↔ s.phase i = .fresh
  q_none : ∀ i ∈ s.queue, s.task i = .none
  q_added : ∀ i ∈ s.queue, s.addSt i ≠ .none
  q_nodup : s.queue.Nodup
  task_added : ∀ i, s.task i ≠ .none → s.addSt i ≠ .none
  live_where : ∀ i, s.addSt i = .live → i ∈ s.queue ∨ s.task i ≠ .none
  over_cancelled : s.orch = .draining ∨ s.orch = .returned → s.cancelled = true
  over_queue : s.orch = .draining ∨ s.orch = .returned → ∀ i ∈ s.queue, s.addSt i = .late
  act : ∃ l : List Nat, l.Nodup ∧ (∀ i, i ∈ l ↔ (s.task i).active = true) ∧ s.wg = l.length
  await_started : ∀ i v, s.task i = .awaiting v → s.phase i ≠ .fresh
  done_fin : ∀ i, s.task i = .done → s.phase i = .finished ∧ Entry.wait i true ∈ s.coll
  ret_done : s.orch = .returned → ∀ i, s.task i ≠ .none → s.task i = .done
  ret_snap : s.orch = .returned → ∀ i, s.task i = .done → s.retAtW i = true
  byOrch_task : ∀ i, s.byOrch i = true → s.task i ≠ .none ∧ s.task i ≠ .toStart

theorem inv_init : Inv init := by
  refine ⟨?_, ?_, ?_, ?_, ?_, ?_, ?_, ?_, ?_, ⟨[], ?_, ?_, ?_⟩, ?_, ?_, ?_, ?_, ?_⟩ <;> simp [init, Task.active]

/-- the list of active tasks when task `i` goes from inactive to active -/
theorem act_add {s : St} {i : Nat} {t : Task} (hi : (s.task i).active = false) (ht : t.active = true)
    (h : ∃ l : List Nat, l.Nodup ∧ (∀ j, j ∈ l ↔ (s.task j).active = true) ∧ s.wg = l.length) :
    ∃ l : List Nat, l.Nodup ∧ (∀ j, j ∈ l ↔ (upd s.task i t j).active = true) ∧ s.wg + 1 = l.length := by
  obtain ⟨l, hnd, hmem, hlen⟩ := h
  have hnot : i ∉ l := by intro hm; rw [(hmem i).mp hm] at hi; cases hi
  refine ⟨i :: l, List.nodup_cons.mpr ⟨hnot, hnd⟩, ?_, by simp [hlen]⟩
  intro j
  by_cases hj : j = i
  · subst hj; simp [ht]
  · simp [hj, hmem j]

/-- … stays active -/
theorem act_same {s : St} {i : Nat} {t : Task} (hi : (s.task i).active = true) (ht : t.active = true)
    (h : ∃ l : List Nat, l.Nodup ∧ (∀ j, j ∈ l ↔ (s.task j).active = true) ∧ s.wg = l.length) :
    ∃ l : List Nat, l.Nodup ∧ (∀ j, j ∈ l ↔ (upd s.task i t j).active = true) ∧ s.wg = l.length := by
  obtain ⟨l, hnd, hmem, hlen⟩ := h
  refine ⟨l, hnd, ?_, hlen⟩
  intro j
  by_cases hj : j = i
  · subst hj; simp [ht, (hmem j).mpr hi]
  · simp [hj, hmem j]

/-- … stays inactive -/
theorem act_idle {s : St} {i : Nat} {t : Task} (hi : (s.task i).active = false) (ht : t.active = false)
    (h : ∃ l : List Nat, l.Nodup ∧ (∀ j, j ∈ l ↔ (s.task j).active = true) ∧ s.wg = l.length) :
    ∃ l : List Nat, l.Nodup ∧ (∀ j, j ∈ l ↔ (upd s.task i t j).active = true) ∧ s.wg = l.length := by
  obtain ⟨l, hnd, hmem, hlen⟩ := h
  refine ⟨l, hnd, ?_, hlen⟩
  intro j
  by_cases hj : j = i
  · subst hj; simp only [upd_same, ht, Bool.false_eq_true, iff_false]; intro hm; rw [(hmem j).mp hm] at hi; cases hi
  · simp [hj, hmem j]

/-- … goes from active to inactive -/
theorem act_remove {s : St} {i : Nat} {t : Task} (hi : (s.task i).active = true) (ht : t.active = false)
    (h : ∃ l : List Nat, l.Nodup ∧ (∀ j, j ∈ l ↔ (s.task j).active = true) ∧ s.wg = l.length) :
    ∃ l : List Nat, l.Nodup ∧ (∀ j, j ∈ l ↔ (upd s.task i t j).active = true) ∧ s.wg - 1 = l.length := by
  obtain ⟨l, hnd, hmem, hlen⟩ := h
  have hin : i ∈ l := (hmem i).mpr hi
  refine ⟨l.erase i, hnd.erase i, ?_, by rw [List.length_erase_of_mem hin, hlen]⟩
  intro j
  by_cases hj : j = i
  · subst hj; simp only [upd_same, ht, Bool.false_eq_true, iff_false]; exact hnd.not_mem_erase
  · rw [List.mem_erase_of_ne hj]; simp [hj, hmem j]

theorem inv_step {c : Cfg} (hfix : c.legacyWaitFor = false) {s s' : St} {a : Act} (hi : Inv s)
    (h : step c s a = some s') : Inv s' := by
  cases a with
  | add i =>
    obtain ⟨hn, rfl⟩ := step_add h
    have hnq : i ∉ s.queue := fun hm => hi.q_added i hm hn
    have htn : s.task i = .none := by
      by_cases ht : s.task i = .none
      · exact ht
      · exact absurd hn (hi.task_added i ht)
    refine { hi with q_none := ?_, q_added := ?_, q_nodup := ?_, task_added := ?_, live_where := ?_, over_queue := ?_ }
    · intro j hj
      rcases List.mem_append.mp hj with hj | hj
      · exact hi.q_none j hj
      · simp at hj; subst hj; exact htn
    · intro j hj
      show upd s.addSt i _ j ≠ .none
      by_cases hji : j = i
      · subst hji; simp only [upd_same]; split <;> simp
      · rcases List.mem_append.mp hj with hj | hj
        · simpa [hji] using hi.q_added j hj
        · simp at hj; exact absurd hj hji
    · exact List.nodup_append.mpr ⟨hi.q_nodup, by simp, by
        intro a ha b hb; simp at hb; subst hb; intro hab; subst hab; exact hnq ha⟩
    · intro j hj
      show upd s.addSt i _ j ≠ .none
      by_cases hji : j = i
      · subst hji; simp only [upd_same]; split <;> simp
      · simpa [hji] using hi.task_added j hj
    · intro j hj
      by_cases hji : j = i
      · subst hji; exact Or.inl (by simp)
      · have : s.addSt j = .live := by simpa [upd, hji] using hj
        rcases hi.live_where j this with h1 | h1
        · exact Or.inl (by simp [h1])
        · exact Or.inr h1
    · intro ho j hj
      show upd s.addSt i _ j = .late
      by_cases hji : j = i
      · subst hji; simp [hi.over_cancelled ho]
      · rcases List.mem_append.mp hj with hj | hj
        · simpa [hji] using hi.over_queue ho j hj
        · simp at hj; exact absurd hj hji
  | startOrch =>
    obtain ⟨ho, rfl⟩ := step_startOrch h
    exact { hi with over_cancelled := by simp, over_queue := by simp, ret_done := by simp, ret_snap := by simp }
  | cancel =>
    rw [step_cancel h]
    exact { hi with over_cancelled := by simp }
  | extStart i =>
    obtain ⟨hf, rfl⟩ := step_extStart h
    have hr0 : s.runs i = 0 := (hi.runs_zero i).mpr hf
    refine { hi with runs_le := ?_, runs_zero := ?_, await_started := ?_, done_fin := ?_ }
    · intro j; by_cases hj : j = i
      · subst hj; simp [hr0]
      · simpa [hj] using hi.runs_le j
    · intro j; by_cases hj : j = i
      · subst hj; simp
      · simpa [hj] using hi.runs_zero j
    · intro j v hv; by_cases hj : j = i
      · subst hj; simp
      · simpa [hj] using hi.await_started j v hv
    · intro j hd; by_cases hj : j = i
      · subst hj; have := (hi.done_fin j hd).1; rw [hf] at this; cases this
      · simpa [hj] using hi.done_fin j hd
  | release i => rw [step_release h]; exact { hi with }
  | endOwn i => rw [step_endOwn h]; exact { hi with }
  | svcReturn i =>
    obtain ⟨⟨hr, _, _⟩, rfl⟩ := step_svcReturn h
    have hne : s.runs i ≠ 0 := fun h0 => by rw [(hi.runs_zero i).mp h0] at hr; cases hr
    refine { hi with runs_zero := ?_, await_started := ?_, done_fin := ?_ }
    · intro j; by_cases hj : j = i
      · subst hj; simp [hne]
      · simpa [hj] using hi.runs_zero j
    · intro j v hv; by_cases hj : j = i
      · subst hj; simp
      · simpa [hj] using hi.await_started j v hv
    · intro j hd; by_cases hj : j = i
      · subst hj; simpa using (hi.done_fin j hd).2
      · simpa [hj] using hi.done_fin j hd
  | loopTake =>
    obtain ⟨i, q, ho, hq, hcase⟩ := step_loopTake h
    have hiq : i ∈ s.queue := by rw [hq]; simp
    have hnd : i ∉ q ∧ q.Nodup := by have := hi.q_nodup; rw [hq] at this; exact List.nodup_cons.mp this
    have htn : s.task i = .none := hi.q_none i hiq
    have hqsub : ∀ j ∈ q, j ∈ s.queue := fun j hj => by rw [hq]; exact List.mem_cons_of_mem _ hj
    have hne : ∀ j ∈ q, j ≠ i := fun j hj hji => hnd.1 (hji ▸ hj)
    have hnot : ¬(s.orch = .draining ∨ s.orch = .returned) := by rw [ho]; simp
    -- facts common to the three branches, for a new task value `t ≠ .none`
    have common : ∀ t : Task, t ≠ .none →
        (∀ j ∈ q, upd s.task i t j = .none) ∧ (∀ j, upd s.task i t j ≠ .none → s.addSt j ≠ .none) ∧
        (∀ j, s.addSt j = .live → j ∈ q ∨ upd s.task i t j ≠ .none) := by
      intro t ht
      refine ⟨?_, ?_, ?_⟩
      · intro j hj; simpa [hne j hj] using hi.q_none j (hqsub j hj)
      · intro j hj; by_cases hji : j = i
        · subst hji; exact hi.q_added j hiq
        · exact hi.task_added j (by simpa [hji] using hj)
      · intro j hj; by_cases hji : j = i
        · subst hji; exact Or.inr (by simpa using ht)
        · rcases hi.live_where j hj with h1 | h1
          · rw [hq] at h1; rcases List.mem_cons.mp h1 with h1 | h1
            · exact absurd h1 hji
            · exact Or.inl h1
          · exact Or.inr (by simpa [hji] using h1)
    rcases hcase with ⟨hp, rfl⟩ | ⟨hp, rfl⟩ | ⟨hp, rfl⟩
    · obtain ⟨c1, c2, c3⟩ := common (.awaiting true) (by simp)
      refine { hi with
               q_none := c1, q_added := fun j hj => hi.q_added j (hqsub j hj), q_nodup := hnd.2,
               task_added := c2, live_where := c3, over_cancelled := fun h => absurd h hnot,
               over_queue := fun h => absurd h hnot,
               act := act_add (by simp [htn, Task.active]) (by simp [Task.active]) hi.act,
               await_started := ?_, done_fin := ?_, ret_done := fun h => absurd (Or.inr h) hnot,
               ret_snap := fun h => absurd (Or.inr h) hnot, byOrch_task := ?_ }
      · intro j v hv; by_cases hji : j = i
        · subst hji; simp [hp]
        · exact hi.await_started j v (by simpa [hji] using hv)
      · intro j hd; by_cases hji : j = i
        · subst hji; simp at hd
        · exact hi.done_fin j (by simpa [hji] using hd)
      · intro j hb; by_cases hji : j = i
        · subst hji; simp
        · simpa [hji] using hi.byOrch_task j hb
    · obtain ⟨c1, c2, c3⟩ := common .done (by simp)
      refine { hi with
               q_none := c1, q_added := fun j hj => hi.q_added j (hqsub j hj), q_nodup := hnd.2,
               task_added := c2, live_where := c3, over_cancelled := fun h => absurd h hnot,
               over_queue := fun h => absurd h hnot,
               act := act_idle (by simp [htn, Task.active]) (by simp [Task.active]) hi.act,
               await_started := ?_, done_fin := ?_, ret_done := fun h => absurd (Or.inr h) hnot,
               ret_snap := fun h => absurd (Or.inr h) hnot, byOrch_task := ?_ }
      · intro j v hv; by_cases hji : j = i
        · subst hji; simp at hv
        · exact hi.await_started j v (by simpa [hji] using hv)
      · intro j hd; by_cases hji : j = i
        · subst hji; exact ⟨hp, by simp⟩
        · have := hi.done_fin j (by simpa [hji] using hd)
          exact ⟨this.1, List.mem_cons_of_mem _ this.2⟩
      · intro j hb; by_cases hji : j = i
        · subst hji; have := (hi.byOrch_task j hb).1; exact absurd htn this
        · simpa [hji] using hi.byOrch_task j hb
    · obtain ⟨c1, c2, c3⟩ := common .toStart (by simp)
      refine { hi with
               q_none := c1, q_added := fun j hj => hi.q_added j (hqsub j hj), q_nodup := hnd.2,
               task_added := c2, live_where := c3, over_cancelled := fun h => absurd h hnot,
               over_queue := fun h => absurd h hnot,
               act := act_add (by simp [htn, Task.active]) (by simp [Task.active]) hi.act,
               await_started := ?_, done_fin := ?_, ret_done := fun h => absurd (Or.inr h) hnot,
               ret_snap := fun h => absurd (Or.inr h) hnot, byOrch_task := ?_ }
      · intro j v hv; by_cases hji : j = i
        · subst hji; simp at hv
        · exact hi.await_started j v (by simpa [hji] using hv)
      · intro j hd; by_cases hji : j = i
        · subst hji; simp at hd
        · exact hi.done_fin j (by simpa [hji] using hd)
      · intro j hb; by_cases hji : j = i
        · subst hji; have := (hi.byOrch_task j hb).1; exact absurd htn this
        · simpa [hji] using hi.byOrch_task j hb
  | loopExit =>
    obtain ⟨⟨ho, hq, hc⟩, rfl⟩ := step_loopExit h
    exact { hi with
                    over_cancelled := fun _ => hc, over_queue := (by intro _ j hj; rw [hq] at hj; cases hj),
                    ret_done := by simp, ret_snap := by simp }
  | taskStart i =>
    obtain ⟨ht, hcase⟩ := step_taskStart h
    have hact : (s.task i).active = true := by simp [ht, Task.active]
    have hnr : s.orch ≠ .returned := by
      intro hr; have := hi.ret_done hr i (by simp [ht]); rw [ht] at this; cases this
    have hnq : i ∉ s.queue := fun hm => by have := hi.q_none i hm; rw [ht] at this; cases this
    have common : (∀ j ∈ s.queue, upd s.task i (.awaiting false) j = .none) ∧
        (∀ j, upd s.task i (.awaiting false) j ≠ .none → s.addSt j ≠ .none) ∧
        (∀ j, s.addSt j = .live → j ∈ s.queue ∨ upd s.task i (.awaiting false) j ≠ .none) ∧
        (∀ j, upd s.task i (.awaiting false) j = .done → s.task j = .done) := by
      refine ⟨?_, ?_, ?_, ?_⟩
      · intro j hj; have hji : j ≠ i := fun e => hnq (e ▸ hj)
        simpa [hji] using hi.q_none j hj
      · intro j hj; by_cases hji : j = i
        · subst hji; exact hi.task_added j (by simp [ht])
        · exact hi.task_added j (by simpa [hji] using hj)
      · intro j hj; by_cases hji : j = i
        · subst hji; exact Or.inr (by simp)
        · rcases hi.live_where j hj with h1 | h1
          · exact Or.inl h1
          · exact Or.inr (by simpa [hji] using h1)
      · intro j hd; by_cases hji : j = i
        · subst hji; simp at hd
        · simpa [hji] using hd
    obtain ⟨c1, c2, c3, c4⟩ := common
    rcases hcase with ⟨hp, rfl⟩ | ⟨hp, r, rfl⟩
    · have hr0 : s.runs i = 0 := (hi.runs_zero i).mpr hp
      refine { hi with
               runs_le := ?_, runs_zero := ?_, q_none := c1, task_added := c2, live_where := c3,
               act := act_same hact (by simp [Task.active]) hi.act, await_started := ?_, done_fin := ?_,
               ret_done := fun h => absurd h hnr, ret_snap := fun h => absurd h hnr, byOrch_task := ?_ }
      · intro j; by_cases hj : j = i
        · subst hj; simp [hr0]
        · simpa [hj] using hi.runs_le j
      · intro j; by_cases hj : j = i
        · subst hj; simp
        · simpa [hj] using hi.runs_zero j
      · intro j v hv; by_cases hj : j = i
        · subst hj; simp
        · simpa [hj] using hi.await_started j v (by simpa [hj] using hv)
      · intro j hd
        have hd' := c4 j hd
        have hji : j ≠ i := fun e => by subst e; rw [ht] at hd'; cases hd'
        simpa [hji] using hi.done_fin j hd'
      · intro j hb; by_cases hj : j = i
        · subst hj; simp
        · simpa [hj] using hi.byOrch_task j (by simpa [hj] using hb)
    · refine { hi with
               q_none := c1, task_added := c2, live_where := c3,
               act := act_same hact (by simp [Task.active]) hi.act, await_started := ?_, done_fin := ?_,
               ret_done := fun h => absurd h hnr, ret_snap := fun h => absurd h hnr, byOrch_task := ?_ }
      · intro j v hv; by_cases hj : j = i
        · subst hj; exact hp
        · exact hi.await_started j v (by simpa [hj] using hv)
      · intro j hd
        have := hi.done_fin j (c4 j hd)
        exact ⟨this.1, List.mem_cons_of_mem _ this.2⟩
      · intro j hb; by_cases hj : j = i
        · subst hj; simp
        · simpa [hj] using hi.byOrch_task j hb
  | taskCollect i =>
    obtain ⟨v, ht, hp, rfl⟩ := step_taskCollect hfix h
    have hact : (s.task i).active = true := by simp [ht, Task.active]
    have hnr : s.orch ≠ .returned := by
      intro hr; have := hi.ret_done hr i (by simp [ht]); rw [ht] at this; cases this
    have hnq : i ∉ s.queue := fun hm => by have := hi.q_none i hm; rw [ht] at this; cases this
    refine { hi with
             q_none := ?_, task_added := ?_, live_where := ?_,
             act := act_remove hact (by simp [Task.active]) hi.act, await_started := ?_, done_fin := ?_,
             ret_done := fun h => absurd h hnr, ret_snap := fun h => absurd h hnr, byOrch_task := ?_ }
    · intro j hj; have hji : j ≠ i := fun e => hnq (e ▸ hj)
      simpa [hji] using hi.q_none j hj
    · intro j hj; by_cases hji : j = i
      · subst hji; exact hi.task_added j (by simp [ht])
      · exact hi.task_added j (by simpa [hji] using hj)
    · intro j hj; by_cases hji : j = i
      · subst hji; exact Or.inr (by simp)
      · rcases hi.live_where j hj with h1 | h1
        · exact Or.inl h1
        · exact Or.inr (by simpa [hji] using h1)
    · intro j w hw; by_cases hji : j = i
      · subst hji; simp at hw
      · exact hi.await_started j w (by simpa [hji] using hw)
    · intro j hd; by_cases hji : j = i
      · subst hji; exact ⟨hp, by simp⟩
      · have := hi.done_fin j (by simpa [hji] using hd)
        exact ⟨this.1, List.mem_cons_of_mem _ this.2⟩
    · intro j hb; by_cases hji : j = i
      · subst hji; simp
      · simpa [hji] using hi.byOrch_task j hb
  | orchReturn =>
    obtain ⟨⟨ho, hw⟩, rfl⟩ := step_orchReturn h
    obtain ⟨l, _, hmem, hlen⟩ := hi.act
    have hl : l = [] := List.eq_nil_of_length_eq_zero (by omega)
    have hinactive : ∀ j, (s.task j).active = false := by
      intro j; cases hj : (s.task j).active with
      | false => rfl
      | true => have := (hmem j).mpr hj; rw [hl] at this; cases this
    refine { hi with
             over_cancelled := fun _ => hi.over_cancelled (Or.inl ho),
             over_queue := fun _ => hi.over_queue (Or.inl ho), ret_done := ?_, ret_snap := ?_ }
    · intro _ j hj
      have := hinactive j
      cases ht : s.task j with
      | none => exact absurd ht hj
      | toStart => simp [ht, Task.active] at this
      | awaiting v => simp [ht, Task.active] at this
      | done => rfl
    · intro _ j hd
      simp [(hi.done_fin j hd).1]

theorem reachable_inv {c : Cfg} (hfix : c.legacyWaitFor = false) {s : St} (h : Reachable c s) : Inv s := by
  obtain ⟨acts, h⟩ := h
  suffices ∀ (acts : List Act) (s0 : St), Inv s0 → run c s0 acts = some s → Inv s from this acts init inv_init h
  intro acts
  induction acts with
  | nil => intro s0 h0 hr; simp [run] at hr; subst hr; exact h0
  | cons a as ih =>
    intro s0 h0 hr
    simp only [run, List.foldlM_cons, Option.bind_eq_bind] at hr
    cases hs : step c s0 a with
    | none => simp [hs] at hr
    | some s1 => rw [hs] at hr; exact ih s1 (inv_step hfix h0 hs) hr

end Orc
end FunModel.Orch
