import FunModel.Conc

/-! Generic theory of the small-step machine `FunModel.Conc` (any `Subject`):
    reachability, the inductive-invariant principle, well-formedness of the parked list,
    characterisations of `modTh` / `wake` / `signal` / `broadcast` / `applySeg` / `step`,
    helper-goroutine bookkeeping (`Fresh` / `Live` / `Pending`), the generic helper discipline
    invariant `HelperInv`, the wake-up witness `Wit`, quiescence. Core Lean only. -/

namespace FunModel.Conc
variable {σ Op : Type}

/-! ## Reachability -/

/-- the initial system exactly as `runCase` builds it -/
def initSys (init : σ) (programs : List (List Op)) : Sys σ Op :=
  { subj := init, ths := programs.map (fun p => { ops := p, st := if p.isEmpty then .done else .idle }) }

/-- states reachable by taking enabled actions (cancellations included) -/
inductive Reach (sub : Subject σ Op) (s0 : Sys σ Op) : Sys σ Op → Prop
  | init : Reach sub s0 s0
  | step {s s' : Sys σ Op} {a : Act} {obs : String} :
      Reach sub s0 s → a ∈ enabled s true → FunModel.Conc.step sub s a = some (s', obs) → Reach sub s0 s'

/-- an inductive invariant holds in every reachable state -/
theorem Reach.inv {sub : Subject σ Op} {s0 s : Sys σ Op} (P : Sys σ Op → Prop) (h0 : P s0)
    (hstep : ∀ s a s' obs, Reach sub s0 s → P s → a ∈ enabled s true → FunModel.Conc.step sub s a = some (s', obs) → P s')
    (hr : Reach sub s0 s) : P s := by
  induction hr with
  | init => exact h0
  | step hr ha hs ih => exact hstep _ _ _ _ hr ih ha hs

theorem Reach.trans {sub : Subject σ Op} {s0 s1 s2 : Sys σ Op} (h1 : Reach sub s0 s1) (h2 : Reach sub s1 s2) :
    Reach sub s0 s2 := by
  induction h2 with
  | init => exact h1
  | step _ ha hs ih => exact .step ih ha hs

/-! ## `enabled` -/

theorem mem_enabled_start {s : Sys σ Op} {b : Bool} {t : Nat} :
    Act.start t ∈ enabled s b ↔ ∃ th, s.ths[t]? = some th ∧ th.st = .idle ∧ th.pc < th.ops.length := by
  simp only [enabled, idxs, List.mem_append, List.mem_map, List.mem_filter, List.mem_range]
  constructor
  · rintro (((⟨i, ⟨hi, hp⟩, he⟩ | ⟨i, _, he⟩) | h) | ⟨i, _, he⟩)
    · cases he
      cases hth : s.ths[t]? with
      | none => simp [hth] at hp
      | some th => simp [hth] at hp; exact ⟨th, rfl, hp.1, hp.2⟩
    · cases he
    · split at h
      · obtain ⟨i, _, he⟩ := List.mem_map.1 h; cases he
      · cases h
    · cases he
  · rintro ⟨th, hth, hst, hpc⟩
    refine Or.inl (Or.inl (Or.inl ⟨t, ⟨?_, ?_⟩, rfl⟩))
    · exact (List.getElem?_eq_some_iff.1 hth).1
    · simp [hth, hst, hpc]

theorem mem_enabled_resume {s : Sys σ Op} {b : Bool} {t : Nat} :
    Act.resume t ∈ enabled s b ↔ ∃ th, s.ths[t]? = some th ∧ th.st = .woken := by
  simp only [enabled, idxs, List.mem_append, List.mem_map, List.mem_filter, List.mem_range]
  constructor
  · rintro (((⟨i, _, he⟩ | ⟨i, ⟨hi, hp⟩, he⟩) | h) | ⟨i, _, he⟩)
    · cases he
    · cases he
      cases hth : s.ths[t]? with
      | none => simp [hth] at hp
      | some th => simp [hth] at hp; exact ⟨th, rfl, hp⟩
    · split at h
      · obtain ⟨i, _, he⟩ := List.mem_map.1 h; cases he
      · cases h
    · cases he
  · rintro ⟨th, hth, hst⟩
    refine Or.inl (Or.inl (Or.inr ⟨t, ⟨?_, ?_⟩, rfl⟩))
    · exact (List.getElem?_eq_some_iff.1 hth).1
    · simp [hth, hst]

theorem mem_enabled_cancel {s : Sys σ Op} {b : Bool} {t : Nat} :
    Act.cancel t ∈ enabled s b ↔
      b = true ∧ ∃ th, s.ths[t]? = some th ∧ (th.st = .woken ∨ ∃ c, th.st = .parked c) ∧ th.cancelled = false := by
  simp only [enabled, idxs, List.mem_append, List.mem_map, List.mem_filter, List.mem_range]
  constructor
  · rintro (((⟨i, _, he⟩ | ⟨i, _, he⟩) | h) | ⟨i, _, he⟩)
    · cases he
    · cases he
    · split at h
      · rename_i hb
        obtain ⟨i, hm, he⟩ := List.mem_map.1 h
        cases he
        have hp := (List.mem_filter.1 hm).2
        cases hth : s.ths[t]? with
        | none => simp [hth] at hp
        | some th =>
          simp [hth] at hp
          refine ⟨hb, th, rfl, ?_, hp.2⟩
          rcases hp.1 with h1 | h1
          · exact Or.inl h1
          · cases hst : th.st with
            | parked c => exact Or.inr ⟨c, rfl⟩
            | idle => simp [hst] at h1
            | woken => exact Or.inl rfl
            | done => simp [hst] at h1
      · cases h
    · cases he
  · rintro ⟨hb, th, hth, hst, hc⟩
    refine Or.inl (Or.inr ?_)
    rw [if_pos hb]
    refine List.mem_map.2 ⟨t, List.mem_filter.2 ⟨List.mem_range.2 (List.getElem?_eq_some_iff.1 hth).1, ?_⟩, rfl⟩
    rcases hst with h | ⟨c, h⟩ <;> simp [hth, h, hc]

theorem mem_enabled_fire {s : Sys σ Op} {b : Bool} {t : Nat} :
    Act.fire t ∈ enabled s b ↔ ∃ th, s.ths[t]? = some th ∧ th.hasGate = true := by
  simp only [enabled, idxs, List.mem_append, List.mem_map, List.mem_filter, List.mem_range]
  constructor
  · rintro (((⟨i, _, he⟩ | ⟨i, _, he⟩) | h) | ⟨i, ⟨hi, hp⟩, he⟩)
    · cases he
    · cases he
    · split at h
      · obtain ⟨i, _, he⟩ := List.mem_map.1 h; cases he
      · cases h
    · cases he
      cases hth : s.ths[t]? with
      | none => simp [hth] at hp
      | some th => simp [hth] at hp; exact ⟨th, rfl, hp⟩
  · rintro ⟨th, hth, hg⟩
    refine Or.inr ⟨t, ⟨?_, ?_⟩, rfl⟩
    · exact (List.getElem?_eq_some_iff.1 hth).1
    · simp [hth, hg]

/-- whatever is enabled without cancellations is enabled with them -/
theorem enabled_false_sub {s : Sys σ Op} {a : Act} (h : a ∈ enabled s false) : a ∈ enabled s true := by
  cases a with
  | start t => exact mem_enabled_start.2 (mem_enabled_start.1 h)
  | resume t => exact mem_enabled_resume.2 (mem_enabled_resume.1 h)
  | cancel t => have := (mem_enabled_cancel.1 h).1; cases this
  | fire t => exact mem_enabled_fire.2 (mem_enabled_fire.1 h)

/-! ## Internal actions and quiescence -/

/-- internal actions: a woken goroutine re-acquiring the lock, a helper goroutine firing -/
def Act.internal : Act → Bool
  | .resume _ => true
  | .fire _ => true
  | _ => false

/-- no internal action is enabled: every operation in progress is parked -/
def Quiescent (s : Sys σ Op) : Prop := ∀ a ∈ enabled s false, a.internal = false

instance (s : Sys σ Op) : Decidable (Quiescent s) := by unfold Quiescent; infer_instance

theorem Quiescent.no_woken {s : Sys σ Op} (q : Quiescent s) {t : Nat} {th : Th Op}
    (h : s.ths[t]? = some th) : th.st ≠ .woken := by
  intro hw
  have := q (.resume t) (mem_enabled_resume.2 ⟨th, h, hw⟩)
  simp [Act.internal] at this

theorem Quiescent.no_gate {s : Sys σ Op} (q : Quiescent s) {t : Nat} {th : Th Op}
    (h : s.ths[t]? = some th) : th.hasGate = false := by
  cases hg : th.hasGate with
  | false => rfl
  | true =>
    have := q (.fire t) (mem_enabled_fire.2 ⟨th, h, hg⟩)
    simp [Act.internal] at this

theorem quiescent_iff {s : Sys σ Op} :
    Quiescent s ↔ ∀ (t : Nat) (th : Th Op), s.ths[t]? = some th → th.st ≠ .woken ∧ th.hasGate = false := by
  constructor
  · intro q t th h; exact ⟨q.no_woken h, q.no_gate h⟩
  · intro h a ha
    cases a with
    | start t => rfl
    | cancel t => rfl
    | resume t => obtain ⟨th, hth, hw⟩ := mem_enabled_resume.1 ha; exact absurd hw (h t th hth).1
    | fire t => obtain ⟨th, hth, hg⟩ := mem_enabled_fire.1 ha; rw [(h t th hth).2] at hg; cases hg

/-! ## Thread lookup through `modTh` and `wake` -/

@[simp] theorem modTh_subj (s : Sys σ Op) (i : Nat) (f : Th Op → Th Op) : (modTh s i f).subj = s.subj := rfl
@[simp] theorem modTh_parked (s : Sys σ Op) (i : Nat) (f : Th Op → Th Op) : (modTh s i f).parked = s.parked := rfl
@[simp] theorem modTh_length (s : Sys σ Op) (i : Nat) (f : Th Op → Th Op) :
    (modTh s i f).ths.length = s.ths.length := by simp [modTh]

/-- `modTh` changes thread `i` by `f` and nothing else -/
theorem modTh_get (s : Sys σ Op) (i u : Nat) (f : Th Op → Th Op) :
    (modTh s i f).ths[u]? = if u = i then (s.ths[u]?).map f else s.ths[u]? := by
  simp only [modTh, List.getElem?_modify]
  by_cases h : u = i
  · subst h; cases s.ths[u]? <;> simp
  · have h' : ¬ i = u := fun e => h e.symm
    cases s.ths[u]? <;> simp [h, h']

theorem modTh_get_self (s : Sys σ Op) (i : Nat) (f : Th Op → Th Op) :
    (modTh s i f).ths[i]? = (s.ths[i]?).map f := by simp [modTh_get]

theorem modTh_get_ne (s : Sys σ Op) {i u : Nat} (f : Th Op → Th Op) (h : u ≠ i) :
    (modTh s i f).ths[u]? = s.ths[u]? := by simp [modTh_get, h]

/-- mark a thread as woken -/
def Th.wake (th : Th Op) : Th Op := { th with st := .woken }

@[simp] theorem Th.wake_st (th : Th Op) : th.wake.st = .woken := rfl
@[simp] theorem Th.wake_ops (th : Th Op) : th.wake.ops = th.ops := rfl
@[simp] theorem Th.wake_pc (th : Th Op) : th.wake.pc = th.pc := rfl
@[simp] theorem Th.wake_cancelled (th : Th Op) : th.wake.cancelled = th.cancelled := rfl
@[simp] theorem Th.wake_helpers (th : Th Op) : th.wake.helpers = th.helpers := rfl
@[simp] theorem Th.wake_wake (th : Th Op) : th.wake.wake = th.wake := rfl

@[simp] theorem wake_subj (s : Sys σ Op) (w : Nat) : (wake s w).subj = s.subj := rfl
theorem wake_parked (s : Sys σ Op) (w : Nat) : (wake s w).parked = s.parked.filter (fun p => p.1 != w) := rfl
theorem wake_get (s : Sys σ Op) (w u : Nat) :
    (wake s w).ths[u]? = if u = w then (s.ths[u]?).map Th.wake else s.ths[u]? := by
  unfold wake; rw [modTh_get]; rfl

/-! ## Well-formedness of the parked list -/

/-- the `parked` list is exactly the threads whose state is `.parked c`, each at most once -/
structure Sys.WF (s : Sys σ Op) : Prop where
  parked_iff : ∀ t c, (t, c) ∈ s.parked ↔ ∃ th, s.ths[t]? = some th ∧ th.st = .parked c
  once : s.parked.Pairwise (fun p q => p.1 ≠ q.1)

theorem initSys_wf (init : σ) (programs : List (List Op)) : (initSys init programs).WF := by
  refine ⟨?_, by simp [initSys]⟩
  intro t c
  simp only [initSys, List.getElem?_map]
  constructor
  · intro h; cases h
  · rintro ⟨th, hth, hst⟩
    cases hp : programs[t]? with
    | none => simp [hp] at hth
    | some p =>
      simp [hp] at hth
      subst hth
      split at hst <;> cases hst

/-- changing a thread without touching whether/where it is parked keeps `WF` -/
theorem Sys.WF.modTh {s : Sys σ Op} (h : s.WF) (i : Nat) (f : Th Op → Th Op)
    (hf : ∀ th, s.ths[i]? = some th → ∀ c, (f th).st = .parked c ↔ th.st = .parked c) : (modTh s i f).WF := by
  refine ⟨?_, h.once⟩
  intro t c
  rw [modTh_parked, h.parked_iff, modTh_get]
  by_cases hti : t = i
  · subst hti
    simp only [if_true]
    constructor
    · rintro ⟨th, hth, hst⟩
      exact ⟨f th, by simp [hth], (hf th hth c).2 hst⟩
    · rintro ⟨th', hth', hst⟩
      cases hth : s.ths[t]? with
      | none => simp [hth] at hth'
      | some th =>
        simp [hth] at hth'
        subst hth'
        exact ⟨th, rfl, (hf th hth c).1 hst⟩
  · simp [hti]

theorem Sys.WF.subj {s : Sys σ Op} (h : s.WF) (x : σ) : ({ s with subj := x } : Sys σ Op).WF :=
  ⟨h.parked_iff, h.once⟩

theorem Sys.WF.wake {s : Sys σ Op} (h : s.WF) (w : Nat) : (wake s w).WF := by
  refine ⟨?_, by rw [wake_parked]; exact h.once.filter _⟩
  intro t c
  rw [wake_parked, List.mem_filter, h.parked_iff, wake_get]
  by_cases htw : t = w
  · subst htw
    simp only [if_true, bne_self_eq_false, Bool.false_eq_true, and_false, false_iff]
    rintro ⟨th', hth', hst⟩
    cases hth : s.ths[t]? with
    | none => simp [hth] at hth'
    | some th => simp [hth] at hth'; subst hth'; simp at hst
  · simp [htw]

/-- a thread that is not parked does not occur in the parked list -/
theorem Sys.WF.not_mem {s : Sys σ Op} (h : s.WF) {t : Nat} {th : Th Op} (hth : s.ths[t]? = some th)
    (hnp : ∀ c, th.st ≠ .parked c) : ∀ p ∈ s.parked, p.1 ≠ t := by
  intro p hp he
  obtain ⟨u, c⟩ := p
  simp at he; subst he
  obtain ⟨th', hth', hst⟩ := (h.parked_iff u c).1 hp
  rw [hth] at hth'; cases hth'
  exact hnp c hst

/-! ## `broadcast` and `signal` -/

theorem foldl_wake_subj (ws : List Nat) (s : Sys σ Op) : (ws.foldl wake s).subj = s.subj := by
  induction ws generalizing s with
  | nil => rfl
  | cons w r ih => rw [List.foldl_cons, ih, wake_subj]

theorem foldl_wake_wf (ws : List Nat) {s : Sys σ Op} (h : s.WF) : (ws.foldl wake s).WF := by
  induction ws generalizing s with
  | nil => exact h
  | cons w r ih => rw [List.foldl_cons]; exact ih (h.wake w)

theorem foldl_wake_get (ws : List Nat) (s : Sys σ Op) (u : Nat) :
    (ws.foldl wake s).ths[u]? = if u ∈ ws then (s.ths[u]?).map Th.wake else s.ths[u]? := by
  induction ws generalizing s with
  | nil => simp
  | cons w r ih =>
    rw [List.foldl_cons, ih, wake_get]
    by_cases huw : u = w
    · subst huw
      by_cases hur : u ∈ r
      · cases s.ths[u]? <;> simp [hur]
      · simp [hur]
    · by_cases hur : u ∈ r <;> simp [huw, hur]

/-- what `Broadcast` does to one thread -/
def Th.bwake (c : Nat) (th : Th Op) : Th Op := if th.st = .parked c then th.wake else th

theorem Th.bwake_of_parked {c : Nat} {th : Th Op} (h : th.st = .parked c) : th.bwake c = th.wake := by
  simp [Th.bwake, h]
theorem Th.bwake_of_not {c : Nat} {th : Th Op} (h : th.st ≠ .parked c) : th.bwake c = th := by
  simp [Th.bwake, h]
@[simp] theorem Th.bwake_ops (c : Nat) (th : Th Op) : (th.bwake c).ops = th.ops := by
  unfold Th.bwake; split <;> rfl
@[simp] theorem Th.bwake_pc (c : Nat) (th : Th Op) : (th.bwake c).pc = th.pc := by
  unfold Th.bwake; split <;> rfl
@[simp] theorem Th.bwake_cancelled (c : Nat) (th : Th Op) : (th.bwake c).cancelled = th.cancelled := by
  unfold Th.bwake; split <;> rfl
@[simp] theorem Th.bwake_helpers (c : Nat) (th : Th Op) : (th.bwake c).helpers = th.helpers := by
  unfold Th.bwake; split <;> rfl
theorem Th.bwake_st (c : Nat) (th : Th Op) : (th.bwake c).st = if th.st = .parked c then .woken else th.st := by
  unfold Th.bwake; split <;> rfl
theorem Th.bwake_st_ne (c : Nat) (th : Th Op) : (th.bwake c).st ≠ .parked c := by
  rw [Th.bwake_st]; split
  · intro h; cases h
  · assumption

theorem mem_broadcast_woken {s : Sys σ Op} (h : s.WF) (c u : Nat) :
    u ∈ (broadcast s c).2 ↔ ∃ th, s.ths[u]? = some th ∧ th.st = .parked c := by
  rw [← h.parked_iff]
  simp only [broadcast, List.mem_map, List.mem_filter]
  constructor
  · rintro ⟨⟨u', c'⟩, ⟨hm, hc⟩, hu⟩
    simp at hc hu; subst hc; subst hu; exact hm
  · intro hm; exact ⟨(u, c), ⟨hm, by simp⟩, rfl⟩

/-- after `broadcast s c` exactly the threads parked on `c` became woken; everything else
    (other threads, the subject state) is unchanged -/
theorem broadcast_get {s : Sys σ Op} (h : s.WF) (c u : Nat) :
    (broadcast s c).1.ths[u]? = (s.ths[u]?).map (Th.bwake c) := by
  have hm := mem_broadcast_woken h c u
  show (List.foldl wake s (broadcast s c).2).ths[u]? = _
  rw [foldl_wake_get]
  by_cases hu : u ∈ (broadcast s c).2
  · obtain ⟨th, hth, hst⟩ := hm.1 hu
    simp [hu, hth, Th.bwake_of_parked hst]
  · rw [if_neg hu]
    cases hth : s.ths[u]? with
    | none => rfl
    | some th =>
      have : th.st ≠ .parked c := fun hst => hu (hm.2 ⟨th, hth, hst⟩)
      simp [Th.bwake_of_not this]

@[simp] theorem broadcast_subj (s : Sys σ Op) (c : Nat) : (broadcast s c).1.subj = s.subj :=
  foldl_wake_subj _ _

theorem Sys.WF.broadcast {s : Sys σ Op} (h : s.WF) (c : Nat) : (broadcast s c).1.WF :=
  foldl_wake_wf _ h

/-- after `broadcast s c` nobody is parked on `c` -/
theorem broadcast_none_parked {s : Sys σ Op} (h : s.WF) (c u : Nat) (th : Th Op)
    (hth : (broadcast s c).1.ths[u]? = some th) : th.st ≠ .parked c := by
  rw [broadcast_get h] at hth
  cases h0 : s.ths[u]? with
  | none => simp [h0] at hth
  | some th0 => simp [h0] at hth; subst hth; exact Th.bwake_st_ne c th0

@[simp] theorem signal_subj (s : Sys σ Op) (c : Nat) : (signal s c).1.subj = s.subj := by
  unfold signal; split <;> rfl

theorem Sys.WF.signal {s : Sys σ Op} (h : s.WF) (c : Nat) : (signal s c).1.WF := by
  unfold Conc.signal; split
  · exact h.wake _
  · exact h

/-- `signal s c`: if nobody is parked on `c` nothing happens; otherwise exactly one thread parked on
    `c` (the longest-parked one) becomes woken -/
theorem signal_spec {s : Sys σ Op} (h : s.WF) (c : Nat) :
    ((∀ (u : Nat) (th : Th Op), s.ths[u]? = some th → th.st ≠ .parked c) ∧ signal s c = (s, [])) ∨
    (∃ w th, s.ths[w]? = some th ∧ th.st = .parked c ∧ signal s c = (wake s w, [w]) ∧
      ∀ u, (signal s c).1.ths[u]? = if u = w then some th.wake else s.ths[u]?) := by
  unfold signal
  cases hf : s.parked.find? (fun p => p.2 == c) with
  | none =>
    left
    refine ⟨?_, rfl⟩
    intro u th hth hst
    have := (h.parked_iff u c).2 ⟨th, hth, hst⟩
    have hn := List.find?_eq_none.1 hf _ this
    simp at hn
  | some p =>
    right
    obtain ⟨w, c'⟩ := p
    have hc : c' = c := by simpa using List.find?_some hf
    subst hc
    obtain ⟨th, hth, hst⟩ := (h.parked_iff w c').1 (List.mem_of_find?_eq_some hf)
    refine ⟨w, th, hth, hst, rfl, ?_⟩
    intro u
    show (wake s w).ths[u]? = _
    rw [wake_get]
    by_cases huw : u = w
    · subst huw; simp [hth]
    · simp [huw]

/-! ## Helper goroutines of one thread -/

/-- a helper for condition `c` whose context is still live (not at its gate, not fired) -/
def Fresh (c : Nat) (hs : List Helper) : Prop := ∃ h ∈ hs, h.cond = c ∧ h.atGate = false ∧ h.fired = false
/-- a helper for condition `c` that has not broadcast yet -/
def Live (c : Nat) (hs : List Helper) : Prop := ∃ h ∈ hs, h.cond = c ∧ h.fired = false
/-- a helper for condition `c` whose context is done and whose broadcast is still to come -/
def Pending (c : Nat) (hs : List Helper) : Prop := ∃ h ∈ hs, h.cond = c ∧ h.atGate = true ∧ h.fired = false

theorem Fresh.live {c : Nat} {hs : List Helper} : Fresh c hs → Live c hs
  | ⟨h, hm, hc, _, hf⟩ => ⟨h, hm, hc, hf⟩
theorem Pending.live {c : Nat} {hs : List Helper} : Pending c hs → Live c hs
  | ⟨h, hm, hc, _, hf⟩ => ⟨h, hm, hc, hf⟩

theorem hasGate_iff (th : Th Op) : th.hasGate = true ↔ ∃ c, Pending c th.helpers := by
  simp only [Th.hasGate, List.any_eq_true, Pending]
  constructor
  · rintro ⟨h, hm, hp⟩
    simp at hp
    exact ⟨h.cond, h, hm, rfl, hp.1, hp.2⟩
  · rintro ⟨c, h, hm, _, hg, hf⟩
    exact ⟨h, hm, by simp [hg, hf]⟩

theorem Pending.hasGate {c : Nat} {th : Th Op} (h : Pending c th.helpers) : th.hasGate = true :=
  (hasGate_iff th).2 ⟨c, h⟩

theorem mem_gateAll {hs : List Helper} {x : Helper} :
    x ∈ gateAll hs ↔ ∃ h ∈ hs, x = if h.fired then h else { h with atGate := true } := by
  simp only [gateAll, List.mem_map]
  constructor
  · rintro ⟨h, hm, he⟩; exact ⟨h, hm, he.symm⟩
  · rintro ⟨h, hm, he⟩; exact ⟨h, hm, he.symm⟩

theorem live_gateAll {c : Nat} {hs : List Helper} : Live c (gateAll hs) ↔ Live c hs := by
  constructor
  · rintro ⟨x, hm, hc, hf⟩
    obtain ⟨h, hh, rfl⟩ := mem_gateAll.1 hm
    by_cases hfd : h.fired = true
    · simp [hfd] at hf
    · simp [hfd] at hc hf; exact ⟨h, hh, hc, by simpa using hfd⟩
  · rintro ⟨h, hm, hc, hf⟩
    exact ⟨_, mem_gateAll.2 ⟨h, hm, rfl⟩, by simp [hf, hc], by simp [hf]⟩

theorem pending_gateAll {c : Nat} {hs : List Helper} : Pending c (gateAll hs) ↔ Live c hs := by
  constructor
  · intro h; exact live_gateAll.1 h.live
  · rintro ⟨h, hm, hc, hf⟩
    exact ⟨_, mem_gateAll.2 ⟨h, hm, rfl⟩, by simp [hf, hc], by simp [hf], by simp [hf]⟩

theorem Fresh.append {c : Nat} {hs : List Helper} (l : List Helper) : Fresh c hs → Fresh c (hs ++ l)
  | ⟨h, hm, r⟩ => ⟨h, List.mem_append_left _ hm, r⟩
theorem Live.append {c : Nat} {hs : List Helper} (l : List Helper) : Live c hs → Live c (hs ++ l)
  | ⟨h, hm, r⟩ => ⟨h, List.mem_append_left _ hm, r⟩
theorem Pending.append {c : Nat} {hs : List Helper} (l : List Helper) : Pending c hs → Pending c (hs ++ l)
  | ⟨h, hm, r⟩ => ⟨h, List.mem_append_left _ hm, r⟩
theorem fresh_spawn (c : Nat) (hs : List Helper) : Fresh c (hs ++ [{ cond := c }]) :=
  ⟨{ cond := c }, by simp, rfl, rfl, rfl⟩

/-- `markFired` replaces the first pending helper and keeps every other entry -/
theorem mem_markFired {hs : List Helper} {x : Helper} (hx : x ∈ hs) :
    x ∈ step.markFired hs ∨ hs.find? (fun h => h.atGate && !h.fired) = some x := by
  induction hs with
  | nil => cases hx
  | cons h r ih =>
    unfold step.markFired
    by_cases hp : (h.atGate && !h.fired) = true
    · rw [if_pos hp, List.find?_cons, hp]
      rcases List.mem_cons.1 hx with rfl | hxr
      · right; rfl
      · left; exact List.mem_cons_of_mem _ hxr
    · rw [if_neg hp, List.find?_cons]; simp only [hp]
      rcases List.mem_cons.1 hx with rfl | hxr
      · left; exact List.mem_cons_self
      · rcases ih hxr with h1 | h1
        · left; exact List.mem_cons_of_mem _ h1
        · right; exact h1

theorem Fresh.markFired {c : Nat} {hs : List Helper} : Fresh c hs → Fresh c (step.markFired hs)
  | ⟨h, hm, hc, hg, hf⟩ => by
    rcases mem_markFired hm with h1 | h1
    · exact ⟨h, h1, hc, hg, hf⟩
    · have := List.find?_some h1; simp [hg] at this

theorem Pending.markFired {c : Nat} {hs : List Helper} {h0 : Helper}
    (hf0 : hs.find? (fun h => h.atGate && !h.fired) = some h0) (hne : h0.cond ≠ c) :
    Pending c hs → Pending c (step.markFired hs)
  | ⟨h, hm, hc, hg, hf⟩ => by
    rcases mem_markFired hm with h1 | h1
    · exact ⟨h, h1, hc, hg, hf⟩
    · rw [hf0] at h1; cases h1; exact absurd hc hne

theorem Live.markFired {c : Nat} {hs : List Helper} {h0 : Helper}
    (hf0 : hs.find? (fun h => h.atGate && !h.fired) = some h0) (hne : h0.cond ≠ c) :
    Live c hs → Live c (step.markFired hs)
  | ⟨h, hm, hc, hf⟩ => by
    rcases mem_markFired hm with h1 | h1
    · exact ⟨h, h1, hc, hf⟩
    · rw [hf0] at h1; cases h1; exact absurd hc hne

/-- the effect of a segment's `spawn` / `release` signals on the running thread's helpers -/
def sigHelpers : List Sig → List Helper → List Helper
  | [], hs => hs
  | .spawn c :: r, hs => sigHelpers r (hs ++ [{ cond := c }])
  | .release :: r, hs => sigHelpers r (gateAll hs)
  | .signal _ :: r, hs => sigHelpers r hs
  | .broadcast _ :: r, hs => sigHelpers r hs

theorem Live.sigHelpers {c : Nat} (sigs : List Sig) {hs : List Helper} (h : Live c hs) :
    Live c (sigHelpers sigs hs) := by
  induction sigs generalizing hs with
  | nil => exact h
  | cons sg r ih =>
    cases sg with
    | signal _ => exact ih h
    | broadcast _ => exact ih h
    | spawn c' => exact ih (h.append _)
    | release => exact ih (live_gateAll.2 h)

theorem Pending.sigHelpers {c : Nat} (sigs : List Sig) {hs : List Helper} (h : Pending c hs) :
    Pending c (sigHelpers sigs hs) := by
  induction sigs generalizing hs with
  | nil => exact h
  | cons sg r ih =>
    cases sg with
    | signal _ => exact ih h
    | broadcast _ => exact ih h
    | spawn c' => exact ih (h.append _)
    | release => exact ih (pending_gateAll.2 h.live)

theorem Fresh.sigHelpers {c : Nat} {sigs : List Sig} (hnr : Sig.release ∉ sigs) {hs : List Helper}
    (h : Fresh c hs) : Fresh c (sigHelpers sigs hs) := by
  induction sigs generalizing hs with
  | nil => exact h
  | cons sg r ih =>
    have hr : Sig.release ∉ r := fun hm => hnr (List.mem_cons_of_mem _ hm)
    cases sg with
    | signal _ => exact ih hr h
    | broadcast _ => exact ih hr h
    | spawn c' => exact ih hr (h.append _)
    | release => exact absurd List.mem_cons_self hnr

theorem fresh_of_spawn {c : Nat} {sigs : List Sig} (hnr : Sig.release ∉ sigs) (hsp : Sig.spawn c ∈ sigs)
    (hs : List Helper) : Fresh c (sigHelpers sigs hs) := by
  induction sigs generalizing hs with
  | nil => cases hsp
  | cons sg r ih =>
    have hr : Sig.release ∉ r := fun hm => hnr (List.mem_cons_of_mem _ hm)
    rcases List.mem_cons.1 hsp with rfl | hsp'
    · exact Fresh.sigHelpers hr (fresh_spawn c hs)
    · cases sg with
      | signal _ => exact ih hr hsp' _
      | broadcast _ => exact ih hr hsp' _
      | spawn c' => exact ih hr hsp' _
      | release => exact absurd List.mem_cons_self hnr

/-! ## What a segment does: `applySig`, `applySeg` -/

/-- a thread other than the running one is untouched or woken from a park -/
def ThWake (th th' : Th Op) : Prop := th' = th ∨ ((∃ c, th.st = .parked c) ∧ th' = th.wake)

theorem ThWake.refl (th : Th Op) : ThWake th th := Or.inl rfl

theorem ThWake.eq_of_not_parked {th th' : Th Op} (h : ThWake th th') (hnp : ∀ c, th.st ≠ .parked c) : th' = th := by
  rcases h with h | ⟨⟨c, hc⟩, _⟩
  · exact h
  · exact absurd hc (hnp c)

theorem ThWake.trans {a b c : Th Op} (h1 : ThWake a b) (h2 : ThWake b c) : ThWake a c := by
  rcases h1 with rfl | ⟨hp, rfl⟩
  · exact h2
  · have := h2.eq_of_not_parked (by intro c; simp)
    subst this; exact Or.inr ⟨hp, rfl⟩

theorem ThWake.ops {th th' : Th Op} (h : ThWake th th') : th'.ops = th.ops := by
  rcases h with rfl | ⟨_, rfl⟩ <;> rfl
theorem ThWake.pc {th th' : Th Op} (h : ThWake th th') : th'.pc = th.pc := by
  rcases h with rfl | ⟨_, rfl⟩ <;> rfl
theorem ThWake.cancelled {th th' : Th Op} (h : ThWake th th') : th'.cancelled = th.cancelled := by
  rcases h with rfl | ⟨_, rfl⟩ <;> rfl
theorem ThWake.helpers {th th' : Th Op} (h : ThWake th th') : th'.helpers = th.helpers := by
  rcases h with rfl | ⟨_, rfl⟩ <;> rfl
/-- the new state is the old one, or `woken` (and then the old one was a park) -/
theorem ThWake.st {th th' : Th Op} (h : ThWake th th') :
    th'.st = th.st ∨ (th'.st = .woken ∧ ∃ c, th.st = .parked c) := by
  rcases h with rfl | ⟨hp, rfl⟩
  · exact Or.inl rfl
  · exact Or.inr ⟨rfl, hp⟩
/-- a thread that is parked afterwards was parked (on the same condition) before and is unchanged -/
theorem ThWake.parked {th th' : Th Op} (h : ThWake th th') {c : Nat} (hp : th'.st = .parked c) : th' = th := by
  rcases h with h | ⟨_, rfl⟩
  · exact h
  · simp at hp

theorem bwake_thWake (c : Nat) (th : Th Op) : ThWake th (th.bwake c) := by
  unfold Th.bwake; split
  · exact Or.inr ⟨⟨c, by assumption⟩, rfl⟩
  · exact Or.inl rfl

/-- the signals `sigs` of a segment run by the (not parked) thread `t` lead from `s` to `s'` -/
structure SigRel (s s' : Sys σ Op) (t : Nat) (sigs : List Sig) : Prop where
  wf : s'.WF
  subj : s'.subj = s.subj
  self : ∀ (th : Th Op), s.ths[t]? = some th →
    s'.ths[t]? = some { th with helpers := sigHelpers sigs th.helpers }
  other : ∀ (u : Nat) (th : Th Op), u ≠ t → s.ths[u]? = some th → ∃ th', s'.ths[u]? = some th' ∧ ThWake th th'
  none : ∀ (u : Nat), s.ths[u]? = none → s'.ths[u]? = none
  bcast : ∀ c, Sig.broadcast c ∈ sigs → ∀ (u : Nat) (th : Th Op), u ≠ t → s.ths[u]? = some th →
    th.st = .parked c → s'.ths[u]? = some th.wake
  signal : ∀ c, Sig.signal c ∈ sigs → (∃ (u : Nat) (th : Th Op), u ≠ t ∧ s.ths[u]? = some th ∧ th.st = .parked c) →
    ∃ (u : Nat) (th : Th Op), u ≠ t ∧ s.ths[u]? = some th ∧ th.st = .parked c ∧ s'.ths[u]? = some th.wake

/-- thread `t` is not parked -/
def NotParked (s : Sys σ Op) (t : Nat) : Prop := ∀ (th : Th Op), s.ths[t]? = some th → ∀ c, th.st ≠ .parked c

theorem SigRel.nil {s : Sys σ Op} (h : s.WF) (t : Nat) : SigRel s s t [] where
  wf := h
  subj := rfl
  self := fun th hth => by simpa [sigHelpers] using hth
  other := fun u th _ hth => ⟨th, hth, .refl th⟩
  none := fun _ h => h
  bcast := fun c hc => by cases hc
  signal := fun c hc => by cases hc

/-- one signal -/
theorem applySig_rel {s : Sys σ Op} (h : s.WF) (t : Nat) (hnp : NotParked s t) (acc : List Nat) (sg : Sig) :
    SigRel s (applySig t (s, acc) sg).1 t [sg] := by
  cases sg with
  | spawn c =>
    show SigRel s (modTh s t _) t _
    refine ⟨h.modTh t _ (fun _ _ _ => Iff.rfl), rfl, ?_, ?_, ?_, ?_, ?_⟩
    · intro th hth; rw [modTh_get_self, hth]; rfl
    · intro u th hu hth; exact ⟨th, by rw [modTh_get_ne _ _ hu, hth], .refl th⟩
    · intro u hu; rw [modTh_get, hu]; simp
    · intro c' hc'; simp at hc'
    · intro c' hc'; simp at hc'
  | release =>
    show SigRel s (modTh s t _) t _
    refine ⟨h.modTh t _ (fun _ _ _ => Iff.rfl), rfl, ?_, ?_, ?_, ?_, ?_⟩
    · intro th hth; rw [modTh_get_self, hth]; rfl
    · intro u th hu hth; exact ⟨th, by rw [modTh_get_ne _ _ hu, hth], .refl th⟩
    · intro u hu; rw [modTh_get, hu]; simp
    · intro c' hc'; simp at hc'
    · intro c' hc'; simp at hc'
  | broadcast c =>
    show SigRel s (broadcast s c).1 t _
    refine ⟨h.broadcast c, broadcast_subj s c, ?_, ?_, ?_, ?_, ?_⟩
    · intro th hth
      rw [broadcast_get h, hth]
      simp [Th.bwake_of_not (hnp th hth c), sigHelpers]
    · intro u th _ hth
      exact ⟨th.bwake c, by rw [broadcast_get h, hth]; rfl, bwake_thWake c th⟩
    · intro u hu; rw [broadcast_get h, hu]; rfl
    · intro c' hc' u th _ hth hst
      simp at hc'; subst hc'
      rw [broadcast_get h, hth]; simp [Th.bwake_of_parked hst]
    · intro c' hc'; simp at hc'
  | signal c =>
    show SigRel s (signal s c).1 t _
    rcases signal_spec h c with ⟨hnone, heq⟩ | ⟨w, thw, hthw, hstw, _, hget⟩
    · rw [heq]
      refine ⟨h, rfl, ?_, ?_, ?_, ?_, ?_⟩
      · intro th hth; simpa [sigHelpers] using hth
      · intro u th _ hth; exact ⟨th, hth, .refl th⟩
      · intro u hu; exact hu
      · intro c' hc'; simp at hc'
      · intro c' hc' ⟨u, th, _, hth, hst⟩
        simp at hc'; subst hc'
        exact absurd hst (hnone u th hth)
    · have hwt : w ≠ t := by
        intro e; subst e; exact hnp thw hthw c hstw
      refine ⟨h.signal c, signal_subj s c, ?_, ?_, ?_, ?_, ?_⟩
      · intro th hth
        rw [hget]
        simpa [hwt.symm, sigHelpers] using hth
      · intro u th _ hth
        rw [hget]
        by_cases huw : u = w
        · subst huw; rw [hth] at hthw; cases hthw
          exact ⟨thw.wake, by simp, Or.inr ⟨⟨c, hstw⟩, rfl⟩⟩
        · exact ⟨th, by simpa [huw] using hth, .refl th⟩
      · intro u hu
        rw [hget]
        by_cases huw : u = w
        · subst huw; rw [hu] at hthw; cases hthw
        · simpa [huw] using hu
      · intro c' hc'; simp at hc'
      · intro c' hc' _
        simp at hc'; subst hc'
        exact ⟨w, thw, hwt, hthw, hstw, by rw [hget]; simp⟩

theorem SigRel.notParked {s s' : Sys σ Op} {t : Nat} {sigs : List Sig} (r : SigRel s s' t sigs)
    (hnp : NotParked s t) : NotParked s' t := by
  intro th' hth' c
  cases hth : s.ths[t]? with
  | none => rw [r.none t hth] at hth'; cases hth'
  | some th =>
    rw [r.self th hth] at hth'; cases hth'
    exact hnp th hth c

/-- composing the first signal with the rest -/
theorem SigRel.cons {s s2 s' : Sys σ Op} {t : Nat} {sg : Sig} {rest : List Sig}
    (r1 : SigRel s s2 t [sg]) (r2 : SigRel s2 s' t rest) : SigRel s s' t (sg :: rest) where
  wf := r2.wf
  subj := r2.subj.trans r1.subj
  self := by
    intro th hth
    rw [r2.self _ (r1.self th hth)]
    cases sg <;> rfl
  other := by
    intro u th hu hth
    obtain ⟨th2, hth2, w1⟩ := r1.other u th hu hth
    obtain ⟨th', hth', w2⟩ := r2.other u th2 hu hth2
    exact ⟨th', hth', w1.trans w2⟩
  none := fun u hu => r2.none u (r1.none u hu)
  bcast := by
    intro c hc u th hu hth hst
    have stay : ∀ th2, s2.ths[u]? = some th2 → (∀ c, th2.st ≠ .parked c) → s'.ths[u]? = some th2 := by
      intro th2 hth2 hnp
      obtain ⟨th', hth', w2⟩ := r2.other u th2 hu hth2
      rw [hth', w2.eq_of_not_parked hnp]
    rcases List.mem_cons.1 hc with rfl | hc
    · exact stay _ (r1.bcast c (by simp) u th hu hth hst) (by intro c; simp)
    · obtain ⟨th2, hth2, w1⟩ := r1.other u th hu hth
      rcases w1 with rfl | ⟨_, rfl⟩
      · exact r2.bcast c hc u th2 hu hth2 hst
      · exact stay _ hth2 (by intro c; simp)
  signal := by
    intro c hc ⟨u, th, hu, hth, hst⟩
    have stay : ∀ (u : Nat) (th2 : Th Op), u ≠ t → s2.ths[u]? = some th2 → (∀ c, th2.st ≠ .parked c) →
        s'.ths[u]? = some th2 := by
      intro u th2 hu hth2 hnp
      obtain ⟨th', hth', w2⟩ := r2.other u th2 hu hth2
      rw [hth', w2.eq_of_not_parked hnp]
    rcases List.mem_cons.1 hc with rfl | hc
    · obtain ⟨w, thw, hw, hthw, hstw, hw2⟩ := r1.signal c (by simp) ⟨u, th, hu, hth, hst⟩
      exact ⟨w, thw, hw, hthw, hstw, stay w _ hw hw2 (by intro c; simp)⟩
    · obtain ⟨th2, hth2, w1⟩ := r1.other u th hu hth
      rcases w1 with rfl | ⟨_, rfl⟩
      · obtain ⟨w, thw2, hw, hthw2, hstw2, hw'⟩ := r2.signal c hc ⟨u, th2, hu, hth2, hst⟩
        -- `w` was parked on `c` in `s2`, hence already in `s` and unchanged by the first signal
        cases hthw : s.ths[w]? with
        | none => rw [r1.none w hthw] at hthw2; cases hthw2
        | some thw =>
          obtain ⟨thw2', hthw2', ww⟩ := r1.other w thw hw hthw
          rw [hthw2] at hthw2'; cases hthw2'
          have := ww.parked hstw2
          subst this
          exact ⟨w, thw2, hw, hthw, hstw2, hw'⟩
      · exact ⟨u, th, hu, hth, hst, stay u _ hu hth2 (by intro c; simp)⟩

/-- all signals of a segment -/
theorem sigs_rel (t : Nat) (sigs : List Sig) {s : Sys σ Op} (h : s.WF) (hnp : NotParked s t) (acc : List Nat) :
    SigRel s (sigs.foldl (applySig t) (s, acc)).1 t sigs := by
  induction sigs generalizing s acc with
  | nil => exact .nil h t
  | cons sg rest ih =>
    rw [List.foldl_cons]
    have r1 := applySig_rel h t hnp acc sg
    have := ih r1.wf (r1.notParked hnp) (applySig t (s, acc) sg).2
    exact r1.cons this

/-- what the end of a segment does to the running thread -/
def finTh (fin : SegEnd) (th : Th Op) : Th Op :=
  match fin with
  | .ret _ => { th with pc := th.pc + 1, st := if th.pc + 1 < th.ops.length then .idle else .done,
                        helpers := gateAll th.helpers }
  | .park c => { th with st := .parked c }

@[simp] theorem finTh_ops (fin : SegEnd) (th : Th Op) : (finTh fin th).ops = th.ops := by cases fin <;> rfl
@[simp] theorem finTh_cancelled (fin : SegEnd) (th : Th Op) : (finTh fin th).cancelled = th.cancelled := by
  cases fin <;> rfl
@[simp] theorem finTh_park (c : Nat) (th : Th Op) : finTh (.park c) th = { th with st := .parked c } := rfl
theorem finTh_ret (r : String) (th : Th Op) :
    finTh (.ret r) th = { th with pc := th.pc + 1, st := if th.pc + 1 < th.ops.length then .idle else .done,
                                  helpers := gateAll th.helpers } := rfl
theorem finTh_ret_st (r : String) (th : Th Op) : ∀ c, (finTh (.ret r) th).st ≠ .parked c := by
  intro c; rw [finTh_ret]; simp only; split <;> simp
/-- the thread is parked afterwards iff the segment ended in a park -/
theorem finTh_parked_iff {fin : SegEnd} {th : Th Op} {c : Nat} : (finTh fin th).st = .parked c ↔ fin = .park c := by
  cases fin with
  | ret r => constructor
             · intro h; exact absurd h (finTh_ret_st r th c)
             · intro h; cases h
  | park c' => simp

/-- the outcome `o` of a segment run by thread `t` (whose record at the start of the segment is
    `th0`, not parked) leads from `s` to `s'` -/
structure SegRel (s s' : Sys σ Op) (t : Nat) (o : SegOut σ) (th0 : Th Op) : Prop where
  wf : s'.WF
  subj : s'.subj = o.st
  self : s'.ths[t]? = some (finTh o.fin { th0 with helpers := sigHelpers o.sigs th0.helpers })
  other : ∀ (u : Nat) (th : Th Op), u ≠ t → s.ths[u]? = some th → ∃ th', s'.ths[u]? = some th' ∧ ThWake th th'
  none : ∀ (u : Nat), s.ths[u]? = none → s'.ths[u]? = none
  bcast : ∀ c, Sig.broadcast c ∈ o.sigs → ∀ (u : Nat) (th : Th Op), u ≠ t → s.ths[u]? = some th →
    th.st = .parked c → s'.ths[u]? = some th.wake
  signal : ∀ c, Sig.signal c ∈ o.sigs →
    (∃ (u : Nat) (th : Th Op), u ≠ t ∧ s.ths[u]? = some th ∧ th.st = .parked c) →
    ∃ (u : Nat) (th : Th Op), u ≠ t ∧ s.ths[u]? = some th ∧ th.st = .parked c ∧ s'.ths[u]? = some th.wake

/-- every thread of `s'` other than `t` comes from a thread of `s` -/
theorem SegRel.other_inv {s s' : Sys σ Op} {t : Nat} {o : SegOut σ} {th0 : Th Op} (r : SegRel s s' t o th0)
    {u : Nat} {th' : Th Op} (hu : u ≠ t) (h : s'.ths[u]? = some th') :
    ∃ th, s.ths[u]? = some th ∧ ThWake th th' := by
  cases hth : s.ths[u]? with
  | none => rw [r.none u hth] at h; cases h
  | some th =>
    obtain ⟨th'', h'', w⟩ := r.other u th hu hth
    rw [h] at h''; cases h''
    exact ⟨th, rfl, w⟩

/-- a thread other than `t` that is parked after the segment was parked before it, unchanged -/
theorem SegRel.parked_inv {s s' : Sys σ Op} {t : Nat} {o : SegOut σ} {th0 : Th Op} (r : SegRel s s' t o th0)
    {u : Nat} {th' : Th Op} {c : Nat} (hu : u ≠ t) (h : s'.ths[u]? = some th') (hp : th'.st = .parked c) :
    s.ths[u]? = some th' := by
  obtain ⟨th, hth, w⟩ := r.other_inv hu h
  rw [hth, w.parked hp]

/-- after a segment that broadcast `c`, nobody but possibly `t` itself is parked on `c` -/
theorem SegRel.bcast_none {s s' : Sys σ Op} {t : Nat} {o : SegOut σ} {th0 : Th Op} (r : SegRel s s' t o th0)
    {c : Nat} (hc : Sig.broadcast c ∈ o.sigs) {u : Nat} {th' : Th Op} (hu : u ≠ t) (h : s'.ths[u]? = some th') :
    th'.st ≠ .parked c := by
  intro hp
  have h0 := r.parked_inv hu h hp
  have := r.bcast c hc u th' hu h0 hp
  rw [h] at this
  have e : th' = th'.wake := Option.some.inj this
  rw [e] at hp; simp at hp

theorem applySeg_fst (s : Sys σ Op) (t : Nat) (o : SegOut σ) :
    (applySeg s t o).1 =
      match o.fin with
      | .ret _ => modTh (o.sigs.foldl (applySig t) ({ s with subj := o.st }, [])).1 t (fun th =>
          { th with pc := th.pc + 1, st := if th.pc + 1 < th.ops.length then .idle else .done,
                    helpers := gateAll th.helpers })
      | .park c =>
        modTh { (o.sigs.foldl (applySig t) ({ s with subj := o.st }, [])).1 with
                  parked := (o.sigs.foldl (applySig t) ({ s with subj := o.st }, [])).1.parked ++ [(t, c)] }
          t (fun th => { th with st := .parked c }) := by
  unfold applySeg
  cases o.fin <;> rfl

theorem applySeg_rel {s : Sys σ Op} (h : s.WF) {t : Nat} {th0 : Th Op} (hth : s.ths[t]? = some th0)
    (hnp : ∀ c, th0.st ≠ .parked c) (o : SegOut σ) : SegRel s (applySeg s t o).1 t o th0 := by
  have hnp1 : NotParked ({ s with subj := o.st } : Sys σ Op) t := by
    intro th hth' c; rw [show ({ s with subj := o.st } : Sys σ Op).ths = s.ths from rfl, hth] at hth'
    cases hth'; exact hnp c
  have r := sigs_rel t o.sigs (h.subj o.st) hnp1 []
  have hself := r.self th0 hth
  rw [applySeg_fst]
  generalize (o.sigs.foldl (applySig t) ({ s with subj := o.st }, [])).1 = s2 at r hself
  cases hfin : o.fin with
  | ret rv =>
    simp only
    refine ⟨?_, by rw [modTh_subj, r.subj], ?_, ?_, ?_, ?_, ?_⟩
    · apply r.wf.modTh
      intro th hth2 c
      rw [hself] at hth2; cases hth2
      constructor
      · intro hp; simp only at hp; split at hp <;> cases hp
      · intro hp; exact absurd hp (hnp c)
    · rw [modTh_get_self, hself, hfin]; rfl
    · intro u th hu hthu
      obtain ⟨th', hth', w⟩ := r.other u th hu hthu
      exact ⟨th', by rw [modTh_get_ne _ _ hu, hth'], w⟩
    · intro u hu; rw [modTh_get, r.none u hu]; simp
    · intro c hc u th hu hthu hst
      rw [modTh_get_ne _ _ hu]; exact r.bcast c hc u th hu hthu hst
    · intro c hc hex
      obtain ⟨u, th, hu, hthu, hst, hw⟩ := r.signal c hc hex
      exact ⟨u, th, hu, hthu, hst, by rw [modTh_get_ne _ _ hu]; exact hw⟩
  | park c =>
    simp only
    refine ⟨?_, by rw [modTh_subj]; exact r.subj, ?_, ?_, ?_, ?_, ?_⟩
    · refine ⟨?_, ?_⟩
      · intro u c'
        rw [modTh_parked, modTh_get]
        show (u, c') ∈ s2.parked ++ [(t, c)] ↔ ∃ th, (if u = t then Option.map _ s2.ths[u]? else s2.ths[u]?) = some th ∧ _
        rw [List.mem_append, r.wf.parked_iff]
        by_cases hut : u = t
        · subst hut
          simp only [if_true, hself, Option.map_some, List.mem_singleton, Prod.mk.injEq, true_and]
          constructor
          · rintro (⟨th, hth', hst⟩ | rfl)
            · cases hth'; exact absurd hst (hnp c')
            · exact ⟨_, rfl, rfl⟩
          · rintro ⟨th, hth', hst⟩
            cases hth'; simp at hst; exact Or.inr hst.symm
        · simp [hut]
      · rw [modTh_parked]
        show (s2.parked ++ [(t, c)]).Pairwise _
        rw [List.pairwise_append]
        refine ⟨r.wf.once, by simp, ?_⟩
        intro p hp q hq
        simp at hq; subst hq
        exact r.wf.not_mem hself (by intro c; exact hnp c) p hp
    · rw [modTh_get_self]
      show Option.map _ s2.ths[t]? = _
      rw [hself, hfin]; rfl
    · intro u th hu hthu
      obtain ⟨th', hth', w⟩ := r.other u th hu hthu
      exact ⟨th', by rw [modTh_get_ne _ _ hu]; exact hth', w⟩
    · intro u hu; rw [modTh_get]; show (if u = t then Option.map _ s2.ths[u]? else s2.ths[u]?) = none
      rw [r.none u hu]; simp
    · intro c' hc u th hu hthu hst
      rw [modTh_get_ne _ _ hu]; exact r.bcast c' hc u th hu hthu hst
    · intro c' hc hex
      obtain ⟨u, th, hu, hthu, hst, hw⟩ := r.signal c' hc hex
      exact ⟨u, th, hu, hthu, hst, by rw [modTh_get_ne _ _ hu]; exact hw⟩

/-! ## What a step does -/

/-- the `SegRel` of a segment run from `modTh s t f` (where `f` keeps the thread un-parked) is a
    `SegRel` from `s` -/
theorem SegRel.of_modTh {s s' : Sys σ Op} {t : Nat} {o : SegOut σ} {th0 : Th Op} {f : Th Op → Th Op}
    (r : SegRel (modTh s t f) s' t o th0) : SegRel s s' t o th0 where
  wf := r.wf
  subj := r.subj
  self := r.self
  other := fun u th hu hth => r.other u th hu (by rw [modTh_get_ne _ _ hu]; exact hth)
  none := fun u hu => r.none u (by rw [modTh_get, hu]; simp)
  bcast := fun c hc u th hu hth hst => r.bcast c hc u th hu (by rw [modTh_get_ne _ _ hu]; exact hth) hst
  signal := by
    intro c hc ⟨u, th, hu, hth, hst⟩
    obtain ⟨w, thw, hw, hthw, hstw, hw'⟩ := r.signal c hc ⟨u, th, hu, by rw [modTh_get_ne _ _ hu]; exact hth, hst⟩
    exact ⟨w, thw, hw, by rw [modTh_get_ne _ _ hw] at hthw; exact hthw, hstw, hw'⟩

theorem step_start_rel {sub : Subject σ Op} {s s' : Sys σ Op} {t : Nat} {obs : String} (hwf : s.WF)
    (hen : Act.start t ∈ enabled s true) (h : step sub s (.start t) = some (s', obs)) :
    ∃ th op, s.ths[t]? = some th ∧ th.st = .idle ∧ th.ops[th.pc]? = some op ∧
      SegRel s s' t (sub.start s.subj t op) { th with cancelled := false } := by
  obtain ⟨th, hth, hst, hpc⟩ := mem_enabled_start.1 hen
  simp only [step, hth, Option.bind_eq_bind, Option.bind_some] at h
  cases hop : th.ops[th.pc]? with
  | none => simp [hop] at h
  | some op =>
    simp only [hop, Option.bind_some, pure, Option.some.injEq, Prod.mk.injEq] at h
    refine ⟨th, op, hth, hst, hop, ?_⟩
    rw [← h.1]
    apply SegRel.of_modTh (f := fun th => { th with cancelled := false })
    apply applySeg_rel
    · exact hwf.modTh t _ (fun _ _ _ => Iff.rfl)
    · rw [modTh_get_self, hth]; rfl
    · intro c; simp [hst]

theorem step_resume_rel {sub : Subject σ Op} {s s' : Sys σ Op} {t : Nat} {obs : String} (hwf : s.WF)
    (hen : Act.resume t ∈ enabled s true) (h : step sub s (.resume t) = some (s', obs)) :
    ∃ th op, s.ths[t]? = some th ∧ th.st = .woken ∧ th.ops[th.pc]? = some op ∧
      SegRel s s' t (sub.resume s.subj t op th.cancelled) th := by
  obtain ⟨th, hth, hst⟩ := mem_enabled_resume.1 hen
  simp only [step, hth, Option.bind_eq_bind, Option.bind_some] at h
  cases hop : th.ops[th.pc]? with
  | none => simp [hop] at h
  | some op =>
    simp only [hop, Option.bind_some, pure, Option.some.injEq, Prod.mk.injEq] at h
    refine ⟨th, op, hth, hst, hop, ?_⟩
    rw [← h.1]
    exact applySeg_rel hwf hth (by intro c; simp [hst]) _

/-- the two kinds of segment, uniformly: `th0` is the running thread's record at the start of the
    segment (for a `start` its context is fresh), `op` its current operation, `o` the outcome -/
inductive IsSeg (sub : Subject σ Op) (s : Sys σ Op) (t : Nat) : Act → Th Op → Op → SegOut σ → Prop
  | start {th : Th Op} {op : Op} : s.ths[t]? = some th → th.st = .idle → th.ops[th.pc]? = some op →
      IsSeg sub s t (.start t) { th with cancelled := false } op (sub.start s.subj t op)
  | resume {th : Th Op} {op : Op} : s.ths[t]? = some th → th.st = .woken → th.ops[th.pc]? = some op →
      IsSeg sub s t (.resume t) th op (sub.resume s.subj t op th.cancelled)

/-- facts common to both kinds of segment -/
theorem IsSeg.basic {sub : Subject σ Op} {s : Sys σ Op} {t : Nat} {a : Act} {th0 : Th Op} {op : Op} {o : SegOut σ}
    (h : IsSeg sub s t a th0 op o) :
    ∃ th, s.ths[t]? = some th ∧ th0.ops = th.ops ∧ th0.pc = th.pc ∧ th0.st = th.st ∧ th0.helpers = th.helpers ∧
      th0.ops[th0.pc]? = some op ∧ (th0.st = .idle ∨ th0.st = .woken) ∧
      (a = .start t ∨ (a = .resume t ∧ th0 = th)) := by
  cases h with
  | start hth hst hop => exact ⟨_, hth, rfl, rfl, rfl, rfl, hop, Or.inl hst, Or.inl rfl⟩
  | resume hth hst hop => exact ⟨_, hth, rfl, rfl, rfl, rfl, hop, Or.inr hst, Or.inr ⟨rfl, rfl⟩⟩

theorem IsSeg.of_woken {sub : Subject σ Op} {s : Sys σ Op} {t : Nat} {a : Act} {th0 : Th Op} {op : Op} {o : SegOut σ}
    (h : IsSeg sub s t a th0 op o) (hw : th0.st = .woken) :
    a = .resume t ∧ s.ths[t]? = some th0 ∧ o = sub.resume s.subj t op th0.cancelled := by
  cases h with
  | start _ hst _ => simp only at hw; rw [hst] at hw; cases hw
  | resume hth _ _ => exact ⟨rfl, hth, rfl⟩

theorem IsSeg.of_idle {sub : Subject σ Op} {s : Sys σ Op} {t : Nat} {a : Act} {th0 : Th Op} {op : Op} {o : SegOut σ}
    (h : IsSeg sub s t a th0 op o) (hi : th0.st = .idle) :
    a = .start t ∧ th0.cancelled = false ∧ o = sub.start s.subj t op := by
  cases h with
  | start _ _ _ => exact ⟨rfl, rfl, rfl⟩
  | resume _ hst _ => rw [hst] at hi; cases hi

/-- the action and the pre-state determine the segment -/
theorem IsSeg.unique {sub : Subject σ Op} {s : Sys σ Op} {t t' : Nat} {a : Act} {th0 th0' : Th Op} {op op' : Op}
    {o o' : SegOut σ} (h1 : IsSeg sub s t a th0 op o) (h2 : IsSeg sub s t' a th0' op' o') :
    t' = t ∧ th0' = th0 ∧ op' = op ∧ o' = o := by
  cases h1 with
  | start hth _ hop =>
    cases h2 with
    | start hth' _ hop' =>
      rw [hth] at hth'; cases hth'
      rw [hop] at hop'; cases hop'
      exact ⟨rfl, rfl, rfl, rfl⟩
  | resume hth _ hop =>
    cases h2 with
    | resume hth' _ hop' =>
      rw [hth] at hth'; cases hth'
      rw [hop] at hop'; cases hop'
      exact ⟨rfl, rfl, rfl, rfl⟩

/-- every `start` / `resume` step is a segment -/
theorem step_seg {sub : Subject σ Op} {s s' : Sys σ Op} {a : Act} {t : Nat} {obs : String} (hwf : s.WF)
    (hen : a ∈ enabled s true) (h : step sub s a = some (s', obs)) (ha : a = .start t ∨ a = .resume t) :
    ∃ th0 op o, IsSeg sub s t a th0 op o ∧ SegRel s s' t o th0 := by
  rcases ha with rfl | rfl
  · obtain ⟨th, op, hth, hst, hop, r⟩ := step_start_rel hwf hen h
    exact ⟨_, op, _, .start hth hst hop, r⟩
  · obtain ⟨th, op, hth, hst, hop, r⟩ := step_resume_rel hwf hen h
    exact ⟨_, op, _, .resume hth hst hop, r⟩

theorem IsSeg.rel {sub : Subject σ Op} {s s' : Sys σ Op} {a : Act} {t : Nat} {obs : String} {th0 : Th Op} {op : Op}
    {o : SegOut σ} (hseg : IsSeg sub s t a th0 op o) (hwf : s.WF) (hen : a ∈ enabled s true)
    (h : step sub s a = some (s', obs)) : SegRel s s' t o th0 := by
  have ha : a = .start t ∨ a = .resume t := by cases hseg <;> simp
  obtain ⟨th0', op', o', hseg', r⟩ := step_seg hwf hen h ha
  obtain ⟨_, rfl, rfl, rfl⟩ := hseg.unique hseg'
  exact r

/-- the running thread after the segment -/
theorem SegRel.self_eq {s s' : Sys σ Op} {t : Nat} {o : SegOut σ} {th0 th' : Th Op} (r : SegRel s s' t o th0)
    (h : s'.ths[t]? = some th') : th' = finTh o.fin { th0 with helpers := sigHelpers o.sigs th0.helpers } := by
  rw [r.self] at h; exact (Option.some.inj h).symm

/-- the segment ended in a return iff the thread is not parked afterwards iff its pc advanced -/
theorem SegRel.returned_iff {s s' : Sys σ Op} {t : Nat} {o : SegOut σ} {th0 th' : Th Op} (r : SegRel s s' t o th0)
    (h : s'.ths[t]? = some th') : (∃ rv, o.fin = .ret rv) ↔ th'.pc = th0.pc + 1 := by
  rw [r.self_eq h]
  cases o.fin with
  | ret rv => simp [finTh_ret]
  | park c => simp

theorem SegRel.parked_iff {s s' : Sys σ Op} {t : Nat} {o : SegOut σ} {th0 th' : Th Op} (r : SegRel s s' t o th0)
    (h : s'.ths[t]? = some th') (c : Nat) : o.fin = .park c ↔ th'.st = .parked c := by
  rw [r.self_eq h]; exact finTh_parked_iff.symm

/-- if the running thread is parked after the segment, the segment ended in that park and the
    thread is still inside the same operation -/
theorem SegRel.self_parked {s s' : Sys σ Op} {t : Nat} {o : SegOut σ} {th0 th' : Th Op} (r : SegRel s s' t o th0)
    (h : s'.ths[t]? = some th') {c : Nat} (hp : th'.st = .parked c) :
    o.fin = .park c ∧ th'.ops = th0.ops ∧ th'.pc = th0.pc ∧ th'.cancelled = th0.cancelled := by
  have hfin := (r.parked_iff h c).2 hp
  refine ⟨hfin, ?_⟩
  rw [r.self_eq h, hfin]
  exact ⟨rfl, rfl, rfl⟩

/-- identify the segment of a step from the pre-state -/
theorem seg_of_step {sub : Subject σ Op} {s s' : Sys σ Op} {a : Act} {obs : String} {t : Nat} {th : Th Op} {op : Op}
    (hwf : s.WF) (hen : a ∈ enabled s true) (hs : step sub s a = some (s', obs))
    (ha : a = .start t ∨ a = .resume t) (hth : s.ths[t]? = some th) (hop : th.ops[th.pc]? = some op) :
    ∃ th0 o, IsSeg sub s t a th0 op o ∧ SegRel s s' t o th0 ∧ th0.pc = th.pc ∧
      (a = .resume t → th0 = th) ∧ (a = .start t → th0.cancelled = false) := by
  obtain ⟨th0, op', o, hseg, r⟩ := step_seg hwf hen hs ha
  obtain ⟨th1, hth1, hops, hpc, _, _, hop', _, hact⟩ := hseg.basic
  rw [hth] at hth1; cases hth1
  rw [hops, hpc, hop] at hop'; cases hop'
  refine ⟨th0, o, hseg, r, hpc, ?_, ?_⟩
  · intro hr; rcases hact with h1 | ⟨_, h1⟩
    · rw [hr] at h1; cases h1
    · exact h1
  · intro hst; subst hst
    cases hseg with
    | start _ _ _ => rfl

theorem step_cancel_rel {sub : Subject σ Op} {s s' : Sys σ Op} {t : Nat} {obs : String} (hwf : s.WF)
    (hen : Act.cancel t ∈ enabled s true) (h : step sub s (.cancel t) = some (s', obs)) :
    ∃ th, s.ths[t]? = some th ∧ (th.st = .woken ∨ ∃ c, th.st = .parked c) ∧ th.cancelled = false ∧
      s'.WF ∧ s'.subj = s.subj ∧
      s'.ths[t]? = some { th with cancelled := true, helpers := gateAll th.helpers } ∧
      ∀ u, u ≠ t → s'.ths[u]? = s.ths[u]? := by
  obtain ⟨_, th, hth, hst, hc⟩ := mem_enabled_cancel.1 hen
  simp only [step, hth, Option.bind_eq_bind, Option.bind_some, pure, Option.some.injEq, Prod.mk.injEq] at h
  refine ⟨th, hth, hst, hc, ?_⟩
  rw [← h.1]
  refine ⟨hwf.modTh t _ (fun _ _ _ => Iff.rfl), rfl, by rw [modTh_get_self, hth]; rfl, ?_⟩
  intro u hu; exact modTh_get_ne _ _ hu

theorem step_fire_rel {sub : Subject σ Op} {s s' : Sys σ Op} {t : Nat} {obs : String} (hwf : s.WF)
    (h : step sub s (.fire t) = some (s', obs)) :
    ∃ th h0, s.ths[t]? = some th ∧ th.helpers.find? (fun h => h.atGate && !h.fired) = some h0 ∧
      s'.WF ∧ s'.subj = s.subj ∧
      s'.ths[t]? = some (Th.bwake h0.cond { th with helpers := step.markFired th.helpers }) ∧
      ∀ u, u ≠ t → s'.ths[u]? = (s.ths[u]?).map (Th.bwake h0.cond) := by
  cases hth : s.ths[t]? with
  | none => simp [step, hth] at h
  | some th =>
    simp only [step, hth, Option.bind_eq_bind, Option.bind_some] at h
    cases hf : th.helpers.find? (fun h => h.atGate && !h.fired) with
    | none => simp [hf] at h
    | some h0 =>
      simp only [hf, Option.bind_some, pure, Option.some.injEq, Prod.mk.injEq] at h
      have hwf1 : (modTh s t (fun th => { th with helpers := step.markFired th.helpers })).WF :=
        hwf.modTh t _ (fun _ _ _ => Iff.rfl)
      refine ⟨th, h0, rfl, hf, ?_⟩
      rw [← h.1]
      refine ⟨hwf1.broadcast _, by rw [broadcast_subj]; rfl, ?_, ?_⟩
      · rw [broadcast_get hwf1, modTh_get_self, hth]; rfl
      · intro u hu; rw [broadcast_get hwf1, modTh_get_ne _ _ hu]

/-- `WF` is preserved by every step, for every subject -/
theorem step_wf {sub : Subject σ Op} {s s' : Sys σ Op} {a : Act} {obs : String} (hwf : s.WF)
    (hen : a ∈ enabled s true) (h : step sub s a = some (s', obs)) : s'.WF := by
  cases a with
  | start t => obtain ⟨_, _, _, _, _, r⟩ := step_start_rel hwf hen h; exact r.wf
  | resume t => obtain ⟨_, _, _, _, _, r⟩ := step_resume_rel hwf hen h; exact r.wf
  | cancel t => obtain ⟨_, _, _, _, w, _⟩ := step_cancel_rel hwf hen h; exact w
  | fire t => obtain ⟨_, _, _, _, w, _⟩ := step_fire_rel hwf h; exact w

theorem Reach.wf {sub : Subject σ Op} {s0 s : Sys σ Op} (hr : Reach sub s0 s) (h0 : s0.WF) : s.WF :=
  hr.inv Sys.WF h0 (fun _ _ _ _ _ hwf hen hs => step_wf hwf hen hs)

/-- reachable from the initial system `runCase` builds -/
theorem Reach.wf_init {sub : Subject σ Op} {init : σ} {programs : List (List Op)} {s : Sys σ Op}
    (hr : Reach sub (initSys init programs) s) : s.WF := hr.wf (initSys_wf init programs)

/-- an invariant that may use `WF` of the pre-state -/
theorem Reach.inv_wf {sub : Subject σ Op} {s0 s : Sys σ Op} (P : Sys σ Op → Prop) (hwf0 : s0.WF) (h0 : P s0)
    (hstep : ∀ s a s' obs, Reach sub s0 s → s.WF → P s → a ∈ enabled s true →
      FunModel.Conc.step sub s a = some (s', obs) → P s')
    (hr : Reach sub s0 s) : P s :=
  (hr.inv (fun s => s.WF ∧ P s) ⟨hwf0, h0⟩
    (fun s a s' obs hr ⟨hwf, hp⟩ hen hs => ⟨step_wf hwf hen hs, hstep s a s' obs hr hwf hp hen hs⟩)).2

/-! ## The harness's executions are reachable -/

theorem runChoices_reach {sub : Subject σ Op} {s0 : Sys σ Op} (choices : List Nat) {s : Sys σ Op}
    (hr : Reach sub s0 s) (log : List String) : Reach sub s0 (runChoices sub s choices log).1 := by
  induction choices generalizing s log with
  | nil => exact hr
  | cons c rest ih =>
    unfold runChoices
    simp only
    split
    · exact hr
    · split
      · exact hr
      · rename_i a ha
        split
        · exact hr
        · rename_i s' obs hs
          exact ih (.step hr (List.mem_of_getElem? ha) hs) _

theorem drain_reach {sub : Subject σ Op} {s0 : Sys σ Op} (fuel : Nat) {s : Sys σ Op}
    (hr : Reach sub s0 s) (log : List String) : Reach sub s0 (drain sub s fuel log).1 := by
  induction fuel generalizing s log with
  | zero => exact hr
  | succ n ih =>
    unfold drain
    simp only
    split
    · exact hr
    · rename_i a rest hen
      split
      · exact hr
      · rename_i s' obs hs
        exact ih (.step hr (enabled_false_sub (by rw [hen]; exact List.mem_cons_self)) hs) _

/-- `runCase` starts from `initSys` and its final state (after the drain) is reachable -/
theorem runCase_eq (sub : Subject σ Op) (init : σ) (programs : List (List Op)) (choices : List Nat) :
    runCase sub init programs choices =
      (let r1 := runChoices sub (initSys init programs) choices []
       let r2 := drain sub r1.1 200 r1.2
       " ; ".intercalate (r2.2 ++ [s!"final blocked=[{blockedStr sub r2.1}] {sub.final r2.1.subj}"])) := by
  unfold runCase initSys
  rfl

theorem runCase_final_reach (sub : Subject σ Op) (init : σ) (programs : List (List Op)) (choices : List Nat) :
    Reach sub (initSys init programs)
      (drain sub (runChoices sub (initSys init programs) choices []).1 200
        (runChoices sub (initSys init programs) choices []).2).1 :=
  drain_reach _ (runChoices_reach _ .init _) _

/-- run an explicit list of actions, checking enabledness (for concrete examples) -/
def runActs (sub : Subject σ Op) (s : Sys σ Op) : List Act → Option (Sys σ Op)
  | [] => some s
  | a :: r =>
    if a ∈ enabled s true then
      match step sub s a with
      | some (s', _) => runActs sub s' r
      | none => none
    else none

theorem reach_of_runActs {sub : Subject σ Op} {s0 : Sys σ Op} (acts : List Act) {s s' : Sys σ Op}
    (h : runActs sub s acts = some s') (hr : Reach sub s0 s) : Reach sub s0 s' := by
  induction acts generalizing s with
  | nil => simp [runActs] at h; subst h; exact hr
  | cons a r ih =>
    unfold runActs at h
    split at h
    · rename_i hen
      split at h
      · rename_i s1 obs hs; exact ih h (.step hr hen hs)
      · cases h
    · cases h

/-! ## Reachability with the log of executed segments -/

/-- one executed segment: who ran, inside which operation, how it ended (what the harness prints) -/
structure Ev (Op : Type) where
  t : Nat
  op : Op
  fin : SegEnd

/-- reachability that also records the executed segments, oldest first -/
inductive ReachT (sub : Subject σ Op) (s0 : Sys σ Op) : List (Ev Op) → Sys σ Op → Prop
  | init : ReachT sub s0 [] s0
  | seg {evs : List (Ev Op)} {s s' : Sys σ Op} {a : Act} {obs : String} {t : Nat} {th0 : Th Op} {op : Op}
      {o : SegOut σ} : ReachT sub s0 evs s → a ∈ enabled s true → FunModel.Conc.step sub s a = some (s', obs) →
      IsSeg sub s t a th0 op o → ReachT sub s0 (evs ++ [⟨t, op, o.fin⟩]) s'
  | other {evs : List (Ev Op)} {s s' : Sys σ Op} {a : Act} {obs : String} {t : Nat} :
      ReachT sub s0 evs s → a ∈ enabled s true → FunModel.Conc.step sub s a = some (s', obs) →
      (a = .cancel t ∨ a = .fire t) → ReachT sub s0 evs s'

theorem ReachT.reach {sub : Subject σ Op} {s0 s : Sys σ Op} {evs : List (Ev Op)} (h : ReachT sub s0 evs s) :
    Reach sub s0 s := by
  induction h with
  | init => exact .init
  | seg _ hen hs _ ih => exact .step ih hen hs
  | other _ hen hs _ ih => exact .step ih hen hs

theorem Reach.reachT {sub : Subject σ Op} {s0 s : Sys σ Op} (hr : Reach sub s0 s) (h0 : s0.WF) :
    ∃ evs, ReachT sub s0 evs s := by
  induction hr with
  | init => exact ⟨[], .init⟩
  | @step s1 s2 a obs hr1 hen hs ih =>
    obtain ⟨evs, ht⟩ := ih
    have hwf := hr1.wf h0
    cases a with
    | start t => obtain ⟨th0, op, o, hseg, _⟩ := step_seg hwf hen hs (Or.inl rfl); exact ⟨_, .seg ht hen hs hseg⟩
    | resume t => obtain ⟨th0, op, o, hseg, _⟩ := step_seg hwf hen hs (Or.inr rfl); exact ⟨_, .seg ht hen hs hseg⟩
    | cancel t => exact ⟨evs, .other ht hen hs (Or.inl rfl)⟩
    | fire t => exact ⟨evs, .other ht hen hs (Or.inr rfl)⟩

/-! ## The helper discipline (generic invariant)

    `condOf σ op = some c` says: in subject state `σ` operation `op` may park, and then on
    condition `c`, after having started a helper goroutine for `c`. (For most subjects `condOf`
    ignores `σ`; a subject whose condition depends on its state — a cursor — must show that the
    condition of a waiting thread is stable under the other threads' segments, `AgreeOn`.)
    The invariant: a parked thread is inside such an operation; while its context is live its
    helper is `Fresh`; once its context is cancelled and it is (still) parked, its helper is
    `Pending` — so its broadcast is still to come. -/

structure ThDisc (condOf : Op → Option Nat) (th : Th Op) : Prop where
  op_of_parked : ∀ c, th.st = .parked c → ∃ op, th.ops[th.pc]? = some op ∧ condOf op = some c
  fresh : (th.st = .woken ∨ ∃ c, th.st = .parked c) → th.cancelled = false →
    ∀ op c, th.ops[th.pc]? = some op → condOf op = some c → Fresh c th.helpers
  pending : ∀ c, th.st = .parked c → th.cancelled = true → Pending c th.helpers

def HelperInv (condOf : σ → Op → Option Nat) (s : Sys σ Op) : Prop :=
  ∀ (u : Nat) (th : Th Op), s.ths[u]? = some th → ThDisc (condOf s.subj) th

/-- `g` agrees with `f` on the operation a waiting (woken or parked) thread is in -/
def AgreeOn (f g : Op → Option Nat) (th : Th Op) : Prop :=
  (th.st = .woken ∨ ∃ c, th.st = .parked c) → ∀ op, th.ops[th.pc]? = some op → g op = f op

theorem AgreeOn.rfl {f : Op → Option Nat} {th : Th Op} : AgreeOn f f th := fun _ _ _ => Eq.refl _

theorem ThDisc.congr {f g : Op → Option Nat} {th : Th Op} (h : ThDisc f th) (hag : AgreeOn f g th) :
    ThDisc g th := by
  refine ⟨?_, ?_, h.pending⟩
  · intro c hc
    obtain ⟨op, hop, hf⟩ := h.op_of_parked c hc
    exact ⟨op, hop, by rw [hag (Or.inr ⟨c, hc⟩) op hop]; exact hf⟩
  · intro hst hcan op c hop hg
    exact h.fresh hst hcan op c hop (by rw [← hag hst op hop]; exact hg)

theorem ThDisc.of_inactive {condOf : Op → Option Nat} {th : Th Op} (h1 : th.st ≠ .woken)
    (h2 : ∀ c, th.st ≠ .parked c) : ThDisc condOf th :=
  ⟨fun c hc => absurd hc (h2 c), fun h => by rcases h with h | ⟨c, h⟩; exact absurd h h1; exact absurd h (h2 c),
   fun c hc => absurd hc (h2 c)⟩

/-- a parked thread has an unfired helper for its condition -/
theorem ThDisc.live {condOf : Op → Option Nat} {th : Th Op} (h : ThDisc condOf th) {c : Nat}
    (hp : th.st = .parked c) : Live c th.helpers := by
  obtain ⟨op, hop, hc⟩ := h.op_of_parked c hp
  cases hcan : th.cancelled with
  | false => exact (h.fresh (Or.inr ⟨c, hp⟩) hcan op c hop hc).live
  | true => exact (h.pending c hp hcan).live

theorem ThDisc.wake {condOf : Op → Option Nat} {th th' : Th Op} (h : ThDisc condOf th) (w : ThWake th th') :
    ThDisc condOf th' := by
  rcases w with rfl | ⟨⟨c, hc⟩, rfl⟩
  · exact h
  · refine ⟨fun c' hc' => by simp at hc', ?_, fun c' hc' => by simp at hc'⟩
    intro _ hcan op c' hop hcond
    exact h.fresh (Or.inr ⟨c, hc⟩) hcan op c' hop hcond

theorem AgreeOn.wake {f g : Op → Option Nat} {th th' : Th Op} (h : AgreeOn f g th) (w : ThWake th th') :
    AgreeOn f g th' := by
  rcases w with rfl | ⟨hp, rfl⟩
  · exact h
  · intro _ op hop; exact h (Or.inr hp) op hop

theorem initSys_helperInv (condOf : σ → Op → Option Nat) (init : σ) (programs : List (List Op)) :
    HelperInv condOf (initSys init programs) := by
  intro u th hth
  simp only [initSys, List.getElem?_map] at hth
  cases hp : programs[u]? with
  | none => simp [hp] at hth
  | some p =>
    simp [hp] at hth; subst hth
    apply ThDisc.of_inactive
    · show (if p = [] then TState.done else TState.idle) ≠ _
      split <;> simp
    · intro c
      show (if p = [] then TState.done else TState.idle) ≠ _
      split <;> simp

/-- the side condition a subject has to establish for a segment that parks (`f` = `condOf` in the
    state before the segment, `g` = after): the context is live, the operation waits on the
    condition it parks on, and its helper was started in this segment or — on a re-park — it is
    the condition the thread was already waiting on -/
def ParkOK (f g : Op → Option Nat) (th0 : Th Op) (op : Op) (o : SegOut σ) : Prop :=
  ∀ c, o.fin = .park c →
    th0.cancelled = false ∧ g op = some c ∧ Sig.release ∉ o.sigs ∧
      (Sig.spawn c ∈ o.sigs ∨ (th0.st = .woken ∧ f op = some c))

/-- the other threads' conditions are not changed by a segment of thread `t` -/
def Stable (condOf : σ → Op → Option Nat) (s : Sys σ Op) (t : Nat) (o : SegOut σ) : Prop :=
  ∀ (u : Nat) (thu : Th Op), u ≠ t → s.ths[u]? = some thu → AgreeOn (condOf s.subj) (condOf o.st) thu

/-- a state-independent `condOf` is stable -/
theorem stable_const (f : Op → Option Nat) (s : Sys σ Op) (t : Nat) (o : SegOut σ) :
    Stable (fun _ => f) s t o := fun _ _ _ _ => AgreeOn.rfl

theorem HelperInv.step {condOf : σ → Op → Option Nat} {sub : Subject σ Op} {s s' : Sys σ Op} {a : Act}
    {obs : String} (hinv : HelperInv condOf s) (hwf : s.WF) (hen : a ∈ enabled s true)
    (hs : step sub s a = some (s', obs))
    (hpark : ∀ t th0 op o, IsSeg sub s t a th0 op o → ParkOK (condOf s.subj) (condOf o.st) th0 op o)
    (hstable : ∀ t th0 op o, IsSeg sub s t a th0 op o → Stable condOf s t o) : HelperInv condOf s' := by
  have seg : ∀ t, (a = .start t ∨ a = .resume t) → HelperInv condOf s' := by
    intro t ha u th' hth'
    obtain ⟨th0, op, o, hseg, r⟩ := step_seg hwf hen hs ha
    rw [r.subj]
    by_cases hut : u = t
    · subst hut
      rw [r.self] at hth'; cases hth'
      obtain ⟨th, hth, hops, hpc, hst, hhelp, hop, hiw, hact⟩ := hseg.basic
      cases hfin : o.fin with
      | ret rv => exact ThDisc.of_inactive (by rw [finTh_ret]; simp only; split <;> simp) (finTh_ret_st rv _)
      | park c =>
        obtain ⟨hcan, hcond, hnr, hsp⟩ := hpark u th0 op o hseg c hfin
        rw [finTh_park]
        refine ⟨?_, ?_, ?_⟩
        · intro c' hc'; simp at hc'; subst hc'; exact ⟨op, hop, hcond⟩
        · intro _ _ op' c' hop' hcond'
          simp only at hop'
          rw [hop] at hop'; cases hop'
          rw [hcond] at hcond'; cases hcond'
          simp only
          rcases hsp with hsp | ⟨hw, hf⟩
          · exact fresh_of_spawn hnr hsp _
          · apply Fresh.sigHelpers hnr
            exact (hinv u th0 (hseg.of_woken hw).2.1).fresh (Or.inl hw) hcan op c hop hf
        · intro c' _ hcan'; simp only at hcan'; rw [hcan] at hcan'; cases hcan'
    · obtain ⟨th, hth, w⟩ := r.other_inv hut hth'
      exact ((hinv u th hth).congr (hstable t th0 op o hseg u th hut hth)).wake w
  cases a with
  | start t => exact seg t (Or.inl rfl)
  | resume t => exact seg t (Or.inr rfl)
  | cancel t =>
    obtain ⟨th, hth, hst, hcan, _, hsubj, hself, hoth⟩ := step_cancel_rel hwf hen hs
    intro u th' hth'
    rw [hsubj]
    by_cases hut : u = t
    · subst hut
      rw [hself] at hth'; cases hth'
      have hd := hinv u th hth
      refine ⟨hd.op_of_parked, fun _ hc => by simp at hc, ?_⟩
      intro c hc _
      obtain ⟨op, hop, hcond⟩ := hd.op_of_parked c hc
      exact pending_gateAll.2 (hd.fresh hst hcan op c hop hcond).live
    · rw [hoth u hut] at hth'; exact hinv u th' hth'
  | fire t =>
    obtain ⟨th, h0, hth, hf, _, hsubj, hself, hoth⟩ := step_fire_rel hwf hs
    intro u th' hth'
    rw [hsubj]
    by_cases hut : u = t
    · subst hut
      rw [hself] at hth'; cases hth'
      have hd := hinv u th hth
      have hstp : ∀ c, (Th.bwake h0.cond { th with helpers := step.markFired th.helpers }).st = .parked c →
          th.st = .parked c ∧ c ≠ h0.cond := by
        intro c hc
        rw [Th.bwake_st] at hc
        split at hc
        · cases hc
        · rename_i hne
          exact ⟨hc, fun e => hne (by rw [← e]; exact hc)⟩
      refine ⟨?_, ?_, ?_⟩
      · intro c hc; simpa using hd.op_of_parked c (hstp c hc).1
      · intro hst hcan op c hop hcond
        simp only [Th.bwake_helpers, Th.bwake_ops, Th.bwake_pc, Th.bwake_cancelled] at *
        apply Fresh.markFired
        refine hd.fresh ?_ hcan op c hop hcond
        rcases hst with hw | ⟨c', hc'⟩
        · rw [Th.bwake_st] at hw
          split at hw
          · rename_i hp; exact Or.inr ⟨_, hp⟩
          · exact Or.inl hw
        · exact Or.inr ⟨c', (hstp c' hc').1⟩
      · intro c hc hcan
        simp only [Th.bwake_helpers, Th.bwake_cancelled] at *
        obtain ⟨hp, hne⟩ := hstp c hc
        exact (hd.pending c hp hcan).markFired hf (fun e => hne e.symm)
    · rw [hoth u hut] at hth'
      cases hthu : s.ths[u]? with
      | none => simp [hthu] at hth'
      | some thu =>
        simp [hthu] at hth'; subst hth'
        exact (hinv u thu hthu).wake (bwake_thWake _ _)

/-- at quiescence a parked thread's context is live: were it cancelled, its helper would be at
    its gate and `fire` would be enabled -/
theorem HelperInv.not_cancelled {condOf : σ → Op → Option Nat} {s : Sys σ Op} (hinv : HelperInv condOf s)
    (q : Quiescent s) {u : Nat} {th : Th Op} (hth : s.ths[u]? = some th) {c : Nat} (hp : th.st = .parked c) :
    th.cancelled = false := by
  cases hcan : th.cancelled with
  | false => rfl
  | true =>
    have := ((hinv u th hth).pending c hp hcan).hasGate
    rw [q.no_gate hth] at this; cases this

/-! ## Wake-up witnesses

    `Wit condOf s c`: somebody is on the way to serve the waiters on condition `c` — a woken
    thread inside an operation that waits on `c` whose helper has not fired (when it returns, its
    helper is released and will broadcast `c`), or a helper for `c` at its gate. Both are
    *internal* enabled actions, so a quiescent state has no witness. -/

def ParkedOn (s : Sys σ Op) (c : Nat) : Prop := ∃ (u : Nat) (th : Th Op), s.ths[u]? = some th ∧ th.st = .parked c

def ThWit (condOf : Op → Option Nat) (c : Nat) (th : Th Op) : Prop :=
  (th.st = .woken ∧ (∃ op, th.ops[th.pc]? = some op ∧ condOf op = some c) ∧ Live c th.helpers) ∨
  Pending c th.helpers

def Wit (condOf : σ → Op → Option Nat) (s : Sys σ Op) (c : Nat) : Prop :=
  ∃ (u : Nat) (th : Th Op), s.ths[u]? = some th ∧ ThWit (condOf s.subj) c th

/-- a witness is an enabled internal action -/
theorem Wit.not_quiescent {condOf : σ → Op → Option Nat} {s : Sys σ Op} {c : Nat} (w : Wit condOf s c) :
    ¬ Quiescent s := by
  intro q
  obtain ⟨u, th, hth, hw | hp⟩ := w
  · exact q.no_woken hth hw.1
  · have := hp.hasGate; rw [q.no_gate hth] at this; cases this

/-- who is parked after a segment was parked before it, or is the running thread that just parked -/
theorem SegRel.parkedOn_inv {s s' : Sys σ Op} {t : Nat} {o : SegOut σ} {th0 : Th Op} (r : SegRel s s' t o th0)
    {c : Nat} (h : ParkedOn s' c) :
    (∃ (u : Nat) (th : Th Op), u ≠ t ∧ s.ths[u]? = some th ∧ th.st = .parked c ∧ s'.ths[u]? = some th) ∨
      o.fin = .park c := by
  obtain ⟨u, th', hth', hp⟩ := h
  by_cases hut : u = t
  · subst hut
    rw [r.self] at hth'; cases hth'
    exact Or.inr (finTh_parked_iff.1 hp)
  · have := r.parked_inv hut hth' hp
    exact Or.inl ⟨u, th', hut, this, hp, hth'⟩

/-- a witness survives every step, unless nobody is parked on `c` any more, or the step is the
    resumption of a thread (inside an operation that was waiting on `c`) that parked again -/
theorem Wit.step {condOf : σ → Op → Option Nat} {sub : Subject σ Op} {s s' : Sys σ Op} {a : Act} {obs : String}
    {c : Nat} (w : Wit condOf s c) (hwf : s.WF) (hen : a ∈ enabled s true) (hs : step sub s a = some (s', obs))
    (hstable : ∀ t th0 op o, IsSeg sub s t a th0 op o → Stable condOf s t o) :
    Wit condOf s' c ∨ ¬ ParkedOn s' c ∨
      ∃ (t : Nat) (th' : Th Op) (op : Op) (c' : Nat), a = .resume t ∧ s'.ths[t]? = some th' ∧
        th'.st = .parked c' ∧ th'.ops[th'.pc]? = some op ∧ condOf s.subj op = some c := by
  obtain ⟨u, th, hth, hw⟩ := w
  have seg : ∀ t, (a = .start t ∨ a = .resume t) → (Wit condOf s' c ∨ ¬ ParkedOn s' c ∨
      ∃ (t : Nat) (th' : Th Op) (op : Op) (c' : Nat), a = .resume t ∧ s'.ths[t]? = some th' ∧
        th'.st = .parked c' ∧ th'.ops[th'.pc]? = some op ∧ condOf s.subj op = some c) := by
    intro t ha
    obtain ⟨th0, op, o, hseg, r⟩ := step_seg hwf hen hs ha
    by_cases hut : u = t
    · subst hut
      obtain ⟨th1, hth1, hops, hpc, hst, hhelp, hop, hiw, hact⟩ := hseg.basic
      rw [hth] at hth1; cases hth1
      rcases hw with ⟨hwk, ⟨op', hop', hcond⟩, hlive⟩ | hpend
      · -- the woken witness resumes
        have hlive' : Live c (sigHelpers o.sigs th0.helpers) := by rw [hhelp]; exact hlive.sigHelpers _
        cases hfin : o.fin with
        | ret rv =>
          left
          refine ⟨u, _, r.self, Or.inr ?_⟩
          rw [hfin, finTh_ret]; exact pending_gateAll.2 hlive'
        | park c' =>
          right; right
          have ha' : a = .resume u := (hseg.of_woken (by rw [hst]; exact hwk)).1
          refine ⟨u, _, op', c', ha', r.self, by rw [hfin]; rfl, ?_, hcond⟩
          rw [hfin, finTh_park]; simp only; rw [hops, hpc]; exact hop'
      · left
        have hp' : Pending c (sigHelpers o.sigs th0.helpers) := by rw [hhelp]; exact hpend.sigHelpers _
        refine ⟨u, _, r.self, Or.inr ?_⟩
        cases hfin : o.fin with
        | ret rv => rw [finTh_ret]; exact pending_gateAll.2 hp'.live
        | park c' => exact hp'
    · left
      obtain ⟨th', hth', wk⟩ := r.other u th hut hth
      refine ⟨u, th', hth', ?_⟩
      rcases hw with ⟨hwk, ⟨op', hop', hcond⟩, hlive⟩ | hpend
      · have := wk.eq_of_not_parked (by intro c; rw [hwk]; simp)
        subst this
        refine Or.inl ⟨hwk, ⟨op', hop', ?_⟩, hlive⟩
        rw [r.subj, hstable t th0 op o hseg u th' hut hth (Or.inl hwk) op' hop']; exact hcond
      · exact Or.inr (by rw [wk.helpers]; exact hpend)
  cases a with
  | start t => exact seg t (Or.inl rfl)
  | resume t => exact seg t (Or.inr rfl)
  | cancel t =>
    left
    obtain ⟨tht, htht, _, _, _, hsubj, hself, hoth⟩ := step_cancel_rel hwf hen hs
    unfold Wit; rw [hsubj]
    by_cases hut : u = t
    · subst hut
      rw [hth] at htht; cases htht
      refine ⟨u, _, hself, ?_⟩
      rcases hw with ⟨hwk, hop, hlive⟩ | hpend
      · exact Or.inl ⟨hwk, hop, live_gateAll.2 hlive⟩
      · exact Or.inr (pending_gateAll.2 hpend.live)
    · exact ⟨u, th, by rw [hoth u hut]; exact hth, hw⟩
  | fire t =>
    obtain ⟨tht, h0, htht, hf, _, hsubj, hself, hoth⟩ := step_fire_rel hwf hs
    by_cases hc0 : h0.cond = c
    · -- the fired helper broadcasts `c`: nobody stays parked on `c`
      right; left
      rintro ⟨v, thv, hthv, hpv⟩
      by_cases hvt : v = t
      · subst hvt
        rw [hself] at hthv; cases hthv
        rw [hc0] at hpv; exact Th.bwake_st_ne c _ hpv
      · rw [hoth v hvt] at hthv
        cases h1 : s.ths[v]? with
        | none => simp [h1] at hthv
        | some th1 =>
          simp [h1] at hthv; subst hthv
          rw [hc0] at hpv; exact Th.bwake_st_ne c _ hpv
    · left
      unfold Wit; rw [hsubj]
      by_cases hut : u = t
      · subst hut
        rw [hth] at htht; cases htht
        refine ⟨u, _, hself, ?_⟩
        rcases hw with ⟨hwk, hop, hlive⟩ | hpend
        · left
          refine ⟨?_, by simpa using hop, by simpa using hlive.markFired hf hc0⟩
          rw [Th.bwake_st]; simp [hwk]
        · right; simpa using hpend.markFired hf hc0
      · refine ⟨u, th.bwake h0.cond, by rw [hoth u hut, hth]; rfl, ?_⟩
        rcases hw with ⟨hwk, hop, hlive⟩ | hpend
        · left
          refine ⟨?_, by simpa using hop, by simpa using hlive⟩
          rw [Th.bwake_st]; simp [hwk]
        · right; simpa using hpend

/-- a `Signal` on `c` while somebody (other than the signaller) is parked on `c` creates a witness -/
theorem Wit.of_signal {condOf : σ → Op → Option Nat} {s s' : Sys σ Op} {t : Nat} {o : SegOut σ} {th0 : Th Op}
    (hinv : HelperInv condOf s) (r : SegRel s s' t o th0) (hstable : Stable condOf s t o) {c : Nat}
    (hc : Sig.signal c ∈ o.sigs)
    (hp : ∃ (u : Nat) (th : Th Op), u ≠ t ∧ s.ths[u]? = some th ∧ th.st = .parked c) : Wit condOf s' c := by
  obtain ⟨w, thw, hwt, hthw, hstw, hw'⟩ := r.signal c hc hp
  have hd := (hinv w thw hthw).congr (hstable w thw hwt hthw)
  refine ⟨w, _, hw', Or.inl ⟨rfl, ?_, by simpa using hd.live hstw⟩⟩
  rw [r.subj]; simpa using hd.op_of_parked c hstw

/-- `cancel` and `fire` park nobody -/
theorem parkedOn_of_cancel_fire {sub : Subject σ Op} {s s' : Sys σ Op} {a : Act} {obs : String} {t : Nat}
    (hwf : s.WF) (hen : a ∈ enabled s true) (hs : step sub s a = some (s', obs)) (ha : a = .cancel t ∨ a = .fire t)
    {c : Nat} (h : ParkedOn s' c) : ParkedOn s c := by
  obtain ⟨u, th', hth', hp⟩ := h
  rcases ha with rfl | rfl
  · obtain ⟨tht, htht, _, _, _, _, hself, hoth⟩ := step_cancel_rel hwf hen hs
    by_cases hut : u = t
    · subst hut; rw [hself] at hth'; cases hth'; exact ⟨u, tht, htht, hp⟩
    · rw [hoth u hut] at hth'; exact ⟨u, th', hth', hp⟩
  · obtain ⟨tht, h0, htht, hf, _, _, hself, hoth⟩ := step_fire_rel hwf hs
    by_cases hut : u = t
    · subst hut; rw [hself] at hth'; cases hth'
      rw [Th.bwake_st] at hp
      split at hp
      · cases hp
      · exact ⟨u, tht, htht, hp⟩
    · rw [hoth u hut] at hth'
      cases h1 : s.ths[u]? with
      | none => simp [h1] at hth'
      | some th1 =>
        simp [h1] at hth'; subst hth'
        rw [Th.bwake_st] at hp
        split at hp
        · cases hp
        · exact ⟨u, th1, h1, hp⟩

/-- what `cancel` / `fire` do to the threads, coarsely: the subject state, programs and program
    counters are untouched; a thread's state is unchanged or went from parked to woken -/
theorem cancel_fire_thread {sub : Subject σ Op} {s s' : Sys σ Op} {a : Act} {obs : String} {t : Nat}
    (hwf : s.WF) (hen : a ∈ enabled s true) (hs : step sub s a = some (s', obs)) (ha : a = .cancel t ∨ a = .fire t) :
    s'.subj = s.subj ∧ ∀ (u : Nat),
      (∀ th, s.ths[u]? = some th → ∃ th', s'.ths[u]? = some th' ∧ th'.ops = th.ops ∧ th'.pc = th.pc ∧
        (th'.st = th.st ∨ (th'.st = .woken ∧ ∃ c, th.st = .parked c))) ∧
      (s.ths[u]? = none → s'.ths[u]? = none) := by
  rcases ha with rfl | rfl
  · obtain ⟨tht, htht, _, _, _, hsubj, hself, hoth⟩ := step_cancel_rel hwf hen hs
    refine ⟨hsubj, fun u => ⟨?_, ?_⟩⟩
    · intro th hth
      by_cases hut : u = t
      · subst hut; rw [hth] at htht; cases htht
        exact ⟨_, hself, rfl, rfl, Or.inl rfl⟩
      · exact ⟨th, by rw [hoth u hut]; exact hth, rfl, rfl, Or.inl rfl⟩
    · intro hn
      by_cases hut : u = t
      · subst hut; rw [hn] at htht; cases htht
      · rw [hoth u hut]; exact hn
  · obtain ⟨tht, h0, htht, hf, _, hsubj, hself, hoth⟩ := step_fire_rel hwf hs
    have hb : ∀ th : Th Op, (th.bwake h0.cond).st = th.st ∨ ((th.bwake h0.cond).st = .woken ∧ ∃ c, th.st = .parked c) := by
      intro th; rw [Th.bwake_st]; split
      · exact Or.inr ⟨rfl, _, by assumption⟩
      · exact Or.inl rfl
    refine ⟨hsubj, fun u => ⟨?_, ?_⟩⟩
    · intro th hth
      by_cases hut : u = t
      · subst hut; rw [hth] at htht; cases htht
        exact ⟨_, hself, by simp, by simp, hb _⟩
      · exact ⟨th.bwake h0.cond, by rw [hoth u hut, hth]; rfl, by simp, by simp, hb th⟩
    · intro hn
      by_cases hut : u = t
      · subst hut; rw [hn] at htht; cases htht
      · rw [hoth u hut, hn]; rfl

/-- a thread parked after `cancel` / `fire` was parked before, inside the same operation -/
theorem parked_of_cancel_fire {sub : Subject σ Op} {s s' : Sys σ Op} {a : Act} {obs : String} {t : Nat}
    (hwf : s.WF) (hen : a ∈ enabled s true) (hs : step sub s a = some (s', obs)) (ha : a = .cancel t ∨ a = .fire t)
    {u : Nat} {th' : Th Op} {c : Nat} (hth' : s'.ths[u]? = some th') (hp : th'.st = .parked c) :
    ∃ th, s.ths[u]? = some th ∧ th.st = .parked c ∧ th.ops = th'.ops ∧ th.pc = th'.pc := by
  obtain ⟨_, h⟩ := cancel_fire_thread hwf hen hs ha
  cases hth : s.ths[u]? with
  | none => rw [(h u).2 hth] at hth'; cases hth'
  | some th =>
    obtain ⟨th'', hth'', hops, hpc, hst⟩ := (h u).1 th hth
    rw [hth'] at hth''; cases hth''
    rcases hst with hst | ⟨hst, _⟩
    · exact ⟨th, rfl, by rw [← hst]; exact hp, hops.symm, hpc.symm⟩
    · rw [hst] at hp; cases hp

end FunModel.Conc
