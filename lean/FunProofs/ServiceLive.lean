import FunProofs.ServiceEv

/-! C10 helper lemmas, part 6: consequences of the invariant (start-nil count, `allowedLog`), and liveness as
    safety: no stuck state at quiescence, and a measure that every non-cancel step decreases. -/

namespace FunModel.Service

set_option linter.unusedSimpArgs false

/-! ### Start returns nil exactly once -/

theorem start_nil_count {c : Cfg} {s : State} (hI : Inv c s) :
    countEv s.log isStartNil ≤ 1 ∧
    ((∀ (t : Nat) (th : Thread), s.ths[t]? = some th → th.loc = .idle) → has s.log isStartCall = true →
      countEv s.log isStartNil = 1) := by
  have hT := hI.i2.th
  constructor
  · cases hcl : s.claimed with
    | false => rw [hT.n2 hcl]; omega
    | true =>
      by_cases hex : ∃ (t : Nat) (th : Thread), s.ths[t]? = some th ∧ inClaim th.loc
      · obtain ⟨t, th, hth, hin⟩ := hex; rw [hT.n1 t th hth hin]; omega
      · rw [hT.n3 hcl (fun t th hth hin => hex ⟨t, th, hth, hin⟩)]; omega
  · intro hidle hsc
    have hcl : s.claimed = true := by
      cases hcl : s.claimed with
      | true => rfl
      | false =>
        have := hT.sc hcl (fun t th hth => by simp [hidle t th hth])
        rw [this] at hsc; exact absurd hsc (by simp)
    exact hT.n3 hcl (fun t th hth => by simp [inClaim, hidle t th hth])

theorem phases_once_of_finished {c : Cfg} {s : State} (hI : Inv c s) (hf : s.isFinished = true) :
    (c.run.present = true → countEv s.log (isBegin .run) = 1) ∧
    (c.shutdown.present = true → countEv s.log (isBegin .shutdown) = 1) ∧
    (c.cleanup.present = true → countEv s.log (isBegin .cleanup) = 1) := by
  have hG := hI.i1.1
  have hr : 9 ≤ s.rg.rank := by have := hG.fin; rw [hf] at this; simpa using this.symm
  have hsig : s.shutdownSig = true := hG.rgSd (by omega)
  have hsd : 4 ≤ s.sd.rank := by have := hG.sdS; rw [hsig] at this; simpa using this.symm
  refine ⟨fun hp => ?_, fun hp => ?_, fun hp => ?_⟩
  · rw [hI.i2.run.runB]; simp [hp]; omega
  · rw [hI.i2.sd.sdB]; simp [hp]; omega
  · rw [hI.i2.run.cuB]; simp [hp]; omega

/-! ### the whole property -/

theorem idle_of_complete {c : Cfg} {s : State} (hI : Inv c s) (hcomp : complete s.log = true) :
    ∀ (t : Nat) (th : Thread), s.ths[t]? = some th → th.loc = .idle := by
  intro t th hth
  cases hl : th.loc with
  | idle => rfl
  | _ =>
    exfalso
    obtain ⟨k, op, ho, hk⟩ := hI.i2.book.cm1 t th hth (by simp [hl])
    simp only [complete, List.all_eq_true] at hcomp
    have := hcomp _ hk
    simp only [List.any_eq_true] at this
    obtain ⟨y, hy, hy2⟩ := this
    cases hy2' : y.2 with
    | ret t' i' r =>
      simp only [hy2', Bool.and_eq_true, beq_iff_eq] at hy2
      obtain ⟨rfl, rfl⟩ := hy2
      have := hI.i2.book.cm2 y hy _ _ r hy2' th hth
      omega
    | _ => simp [hy2'] at hy2

theorem allowedLog_inv {c : Cfg} {s : State} (hI : Inv c s) : allowedLog c s.log = true := by
  have hnil := start_nil_count hI
  have h1 : countEv s.log (isBegin .run) ≤ 1 := by rw [hI.i2.run.runB]; split <;> omega
  have h2 : countEv s.log (isBegin .shutdown) ≤ 1 := by rw [hI.i2.sd.sdB]; split <;> omega
  have h3 : countEv s.log (isBegin .cleanup) ≤ 1 := by rw [hI.i2.run.cuB]; split <;> omega
  have h4 := hI.i2.eh.ehB1
  have h5 : (!complete s.log || countEv s.log isStartCall == 0 || countEv s.log isStartNil == 1) = true := by
    cases hcomp : complete s.log with
    | false => rfl
    | true =>
      by_cases hz : countEv s.log isStartCall = 0
      · simp [hz]
      · have := hnil.2 (idle_of_complete hI hcomp) (has_of_count_pos (Nat.pos_of_ne_zero hz))
        simp [this]
  have h0 : s.log.all (fun x => evOk c s.log x.1 x.2) = true := by
    rw [List.all_eq_true]; exact fun x hx => hI.evs x hx
  simp only [allowedLog, h0, h5, Bool.and_true, Bool.true_and, Bool.and_eq_true, decide_eq_true_eq]
  exact ⟨⟨⟨⟨h1, h2⟩, h3⟩, h4⟩, hnil.1⟩


/-! ### no stuck state -/

/-- the locations an operation passes through -/
def locOk : Op → Loc → Bool
  | .start _, .startChecked | .start _, .startSwapped | .start _, .startRechecked | .start _, .startClaimed
  | .start _, .startLaunched | .start _, .startStarted => true
  | .wait, .waitChecked | .wait, .waitStarted => true
  | .running, .runningChecked => true
  | _, _ => false

/-- a thread inside an operation is at one of that operation's locations -/
def LocOp (s : State) : Prop :=
  ∀ (t : Nat) (th : Thread), s.ths[t]? = some th → th.loc ≠ .idle → ∃ op, th.ops[th.pc]? = some op ∧ locOk op th.loc = true

theorem LocOp.goto {s σ : State} (h : LocOp s) {t : Nat} {th : Thread} (hth : s.ths[t]? = some th)
    (e1 : σ.ths = s.ths) (loc : Loc) (evs : List Ev) (op : Op) (ho : th.ops[th.pc]? = some op)
    (hok : locOk op loc = true) : LocOp (σ.goto t th loc evs) := by
  have ht := lt_of_getElem? hth
  unfold LocOp
  simp only [State.goto, tick_ths, setTh_ths, e1]
  rw [forall_getElem?_set ht]
  exact ⟨fun _ => ⟨op, ho, hok⟩, fun u x _ hu => h u x hu⟩

theorem LocOp.finish {s σ : State} (h : LocOp s) {t : Nat} {th : Thread} (hth : s.ths[t]? = some th)
    (e1 : σ.ths = s.ths) (r : Ret) (evs : List Ev) : LocOp (σ.finish t th r evs) := by
  have ht := lt_of_getElem? hth
  unfold LocOp
  simp only [State.finish, tick_ths, setTh_ths, e1]
  rw [forall_getElem?_set ht]
  exact ⟨fun hne => absurd rfl hne, fun u x _ hu => h u x hu⟩

theorem ThStep.locOp {c : Cfg} {s s' : State} {t : Nat} {th : Thread} (h : LocOp s)
    (hth : s.ths[t]? = some th) (hs : ThStep c s t th s') : LocOp s' := by
  cases hs with
  | startReturned | startAlready | startUndo | startOnceDone | startNil | close | waitFinished | waitNotStarted
  | waitDone | runningFinished | runningLoad => apply h.finish hth; rfl
  | startCheck p ho | startSwap p ho | startRecheck p ho | startClaim p ho | startLaunch p ho | startStore p ho =>
    apply h.goto hth (ho := ho) <;> rfl
  | waitCheck ho | waitStarted ho | runningCheck ho => apply h.goto hth (ho := ho) <;> rfl

theorem Trans.locOp {c : Cfg} {s s' : State} (h : LocOp s) (hs : Trans c s s') : LocOp s' := by
  cases hs with
  | th t th hth hs => exact hs.locOp h hth
  | rg hs => cases hs <;> exact h
  | sd hs => cases hs <;> exact h
  | eh hs => cases hs <;> exact h
  | cancelParent p hp => exact h

theorem LocOp.reachable {c : Cfg} (hc : c.current) {ps : List (List Op)} {s : State} (hr : Reachable c ps s) : LocOp s :=
  reachable_induction LocOp (fun t th hth hl => absurd (init_thread hth).1 hl)
    (fun _ _ _ h hs => (step_sound hc hs).locOp h) hr


theorem sd_rank_of_sig {c : Cfg} {s : State} (hG : InvG c s) (h : s.shutdownSig = false) : s.sd.rank < 4 := by
  have := hG.sdS; rw [h] at this
  have : ¬ (4 ≤ s.sd.rank) := by simpa using this.symm
  omega

/-- at quiescence the Run goroutine is either gone or blocked inside a blocking Run whose context has not ended -/
theorem rg_quiescent {c : Cfg} {s : State} (hG : InvG c s) (hl : s.once ≠ .fresh)
    (hrg : stepRg c s = none) (hsd : stepSd c s = none) :
    s.rg = .gone ∨ (s.rg = .inRun ∧ c.runBlocks = true ∧ s.ctxDone = false) := by
  have hne := (hG.launched hl).1
  have hsdne := (hG.launched hl).2.1
  cases h : s.rg with
  | none => exact absurd h hne
  | gone => exact Or.inl rfl
  | entry => cases hc : c.run <;> simp [stepRg, h, hc] at hrg
  | inRun =>
    cases hb : c.runBlocks <;> cases hd : s.ctxDone <;>
      first
        | exact Or.inr ⟨rfl, rfl, rfl⟩
        | (cases hc : c.run <;> simp [stepRg, h, hb, hd, hc] at hrg)
  | returned => simp [stepRg, h] at hrg
  | cancelled => cases hp : s.panicking <;> simp [stepRg, h, hp] at hrg
  | recovered =>
    exfalso
    cases hsig : s.shutdownSig with
    | true => simp [stepRg, h, hsig] at hrg
    | false =>
      have hlt := sd_rank_of_sig hG hsig
      have hcd : s.ctxDone = true := by
        have := hG.ccl (by simp [h, RgLoc.rank]); simp [State.ctxDone, this]
      cases hs : s.sd with
      | none => exact hsdne hs
      | entry => cases hc : c.shutdown <;> simp [stepSd, hs, hcd, hc] at hsd
      | inShutdown => simp [stepSd, hs] at hsd
      | closing => simp [stepSd, hs] at hsd
      | exit => simp [hs, SdLoc.rank] at hlt
      | gone => simp [hs, SdLoc.rank] at hlt
  | signalled => cases hc : c.cleanup <;> simp [stepRg, h, hc] at hrg
  | inCleanup => simp [stepRg, h] at hrg
  | cleaned => simp [stepRg, h] at hrg
  | finished => simp [stepRg, h] at hrg
  | closing => simp [stepRg, h] at hrg
  | exit => simp [stepRg, h] at hrg

theorem sd_eh_quiescent {c : Cfg} {s : State} (hG : InvG c s) (hl : s.once ≠ .fresh) (hg : s.rg = .gone)
    (hsd : stepSd c s = none) (heh : stepEh c s = none) : s.sd = .gone ∧ s.eh = .gone ∧ s.wg = 0 := by
  have hsdne := (hG.launched hl).2.1
  have hehne := (hG.launched hl).2.2.1
  have hsig : s.shutdownSig = true := hG.rgSd (by simp [hg, RgLoc.rank])
  have hmain : s.mainSig = true := by rw [hG.mainS, hg]; simp [RgLoc.rank]
  have hehs : s.ehSig = true := by rw [hG.ehS, hg]; simp [RgLoc.rank]
  have h4 : 4 ≤ s.sd.rank := by have := hG.sdS; rw [hsig] at this; simpa using this.symm
  have hsdg : s.sd = .gone := by
    cases hs : s.sd <;> simp [hs, SdLoc.rank] at h4
    · simp [stepSd, hs] at hsd
    · rfl
  have hehg : s.eh = .gone := by
    cases he : s.eh with
    | none => exact absurd he hehne
    | entry => simp [stepEh, he, hmain] at heh
    | main =>
      simp only [stepEh, he, hehs, if_true] at heh
      split at heh <;> simp at heh
    | inHandler => cases hc : c.handler <;> simp [stepEh, he, hc] at heh
    | exit => simp [stepEh, he] at heh
    | gone => rfl
  refine ⟨hsdg, hehg, ?_⟩
  rw [hG.wgEq, hg, hsdg, hehg]; simp [liveRg, liveSd, liveEh]

/-- a caller thread that still has an operation to run can take a step, unless it is in `wg.Wait` with the wait-group
    not at zero -/
theorem th_quiescent {c : Cfg} (hc : c.current) {s : State} (hI : Inv c s) (hL : LocOp s) {t : Nat} {th : Thread}
    (hth : s.ths[t]? = some th) (hq : stepTh c s t = none) :
    th.ops[th.pc]? = none ∨ (th.loc = .waitStarted ∧ s.wg ≠ 0) := by
  obtain ⟨h19, h20, hrun⟩ := hc
  cases hop : th.ops[th.pc]? with
  | none => exact Or.inl rfl
  | some op =>
    refine Or.inr ?_
    cases hl : th.loc with
    | idle =>
      exfalso
      cases op <;> simp only [stepTh, hth, hop, hl] at hq
      · split at hq <;> simp at hq
      · simp at hq
      · split at hq <;> simp at hq
      · simp only [hrun, if_true] at hq; split at hq <;> simp at hq
    | _ =>
      obtain ⟨op', ho', hok⟩ := hL t th hth (by simp [hl])
      rw [hop] at ho'; injection ho' with ho'; subst ho'
      rw [hl] at hok
      first
        | (cases op <;> simp [locOk] at hok; done)
        | (exfalso
           cases op <;> simp [locOk] at hok <;> simp only [stepTh, hth, hop, hl] at hq <;>
             first
               | (simp at hq; done)
               | (split at hq <;> simp at hq; done)
               | (have := hI.i1.2.t1 t th hth hl; simp [this] at hq; done))
        | (cases op <;> simp [locOk] at hok
           simp only [stepTh, hth, hop, hl] at hq
           by_cases hw : s.wg = 0
           · simp [hw] at hq
           · exact ⟨rfl, hw⟩)


theorem no_stuck {c : Cfg} (hc : c.current) {s : State} (hI : Inv c s) (hL : LocOp s)
    (hq : ∀ a, (∀ p, a ≠ .cancelParent p) → step c s a = none)
    (hend : s.ctxDone = true ∨ c.runBlocks = false) :
    (∀ (t : Nat) (th : Thread), s.ths[t]? = some th → th.ops.length ≤ th.pc) ∧
    (s.once ≠ .fresh → s.rg = .gone ∧ s.sd = .gone ∧ s.eh = .gone ∧ s.wg = 0) := by
  have hG := hI.i1.1
  have hrg : stepRg c s = none := hq .rg (by simp)
  have hsd : stepSd c s = none := hq .sd (by simp)
  have heh : stepEh c s = none := hq .eh (by simp)
  have hgor : s.once ≠ .fresh → s.rg = .gone ∧ s.sd = .gone ∧ s.eh = .gone ∧ s.wg = 0 := by
    intro hl
    have hg : s.rg = .gone := by
      rcases rg_quiescent hG hl hrg hsd with h | ⟨_, hb, hd⟩
      · exact h
      · rcases hend with h | h
        · rw [h] at hd; exact absurd hd (by simp)
        · rw [h] at hb; exact absurd hb (by simp)
    obtain ⟨a, b, d⟩ := sd_eh_quiescent hG hl hg hsd heh
    exact ⟨hg, a, b, d⟩
  refine ⟨fun t th hth => ?_, hgor⟩
  rcases th_quiescent hc hI hL hth (hq (.th t) (by simp)) with h | ⟨hl, hw⟩
  · rcases Nat.lt_or_ge th.pc th.ops.length with h1 | h1
    · simp [List.getElem?_eq_getElem h1] at h
    · exact h1
  · exfalso
    have hst := hI.i2.th.ws t th hth hl
    exact hw (hgor (hI.i1.2.st hst)).2.2.2

theorem stuck_shape {c : Cfg} (hc : c.current) {s : State} (hI : Inv c s) (hL : LocOp s)
    (hq : ∀ a, (∀ p, a ≠ .cancelParent p) → step c s a = none) (hl : s.once ≠ .fresh) (hg : s.rg ≠ .gone) :
    s.rg = .inRun ∧ s.sd = .entry ∧ s.eh = .entry ∧ s.ctxDone = false ∧ c.runBlocks = true ∧
    (∀ (t : Nat) (th : Thread), s.ths[t]? = some th → th.ops.length ≤ th.pc ∨ th.loc = .waitStarted) := by
  have hG := hI.i1.1
  have hrg : stepRg c s = none := hq .rg (by simp)
  have hsd : stepSd c s = none := hq .sd (by simp)
  have heh : stepEh c s = none := hq .eh (by simp)
  rcases rg_quiescent hG hl hrg hsd with h | ⟨hr, hb, hd⟩
  · exact absurd h hg
  · have hsdne := (hG.launched hl).2.1
    have hehne := (hG.launched hl).2.2.1
    have hsde : s.sd = .entry := by
      have : ¬ (2 ≤ s.sd.rank) := fun h2 => by have := hG.sdCtx h2; rw [hd] at this; exact absurd this (by simp)
      cases hs : s.sd <;> simp [hs, SdLoc.rank] at this hsdne ⊢
    have hehe : s.eh = .entry := by
      have hm : s.mainSig = false := by rw [hG.mainS, hr]; simp [RgLoc.rank]
      have : ¬ (2 ≤ s.eh.rank) := fun h2 => by have := hG.ehMain h2; rw [hm] at this; exact absurd this (by simp)
      cases hs : s.eh <;> simp [hs, EhLoc.rank] at this hehne ⊢
    refine ⟨hr, hsde, hehe, hd, hb, fun t th hth => ?_⟩
    rcases th_quiescent hc hI hL hth (hq (.th t) (by simp)) with h | ⟨hl, _⟩
    · rcases Nat.lt_or_ge th.pc th.ops.length with h1 | h1
      · simp [List.getElem?_eq_getElem h1] at h
      · exact Or.inl h1
    · exact Or.inr hl


/-! ### bounded progress -/

def locRank : Loc → Nat
  | .idle => 0 | .startChecked => 1 | .startSwapped => 2 | .startRechecked => 3 | .startClaimed => 3
  | .startLaunched => 4 | .startStarted => 5 | .waitChecked => 1 | .waitStarted => 2 | .runningChecked => 1

theorem locRank_lt (l : Loc) : locRank l < 8 := by cases l <;> simp [locRank]

/-- steps a thread can still take: 8 per remaining operation, minus how far it is into the current one -/
def thMeasure (th : Thread) : Nat := 8 * (th.ops.length - th.pc) - locRank th.loc

def gMeasure (s : State) : Nat := (12 - s.rg.rank) + (5 - s.sd.rank) + (5 - s.eh.rank)

/-- an upper bound on the number of steps callers and service goroutines can still take -/
def measure (s : State) : Nat := (s.ths.map thMeasure).sum + gMeasure s

theorem sum_map_set (f : Thread → Nat) (l : List Thread) (t : Nat) (a b : Thread) (h : l[t]? = some b) :
    ((l.set t a).map f).sum + f b = (l.map f).sum + f a := by
  induction l generalizing t with
  | nil => simp at h
  | cons x xs ih =>
    cases t with
    | zero => simp at h; subst h; simp; omega
    | succ n =>
      simp only [List.getElem?_cons_succ] at h
      simp only [List.set_cons_succ, List.map_cons, List.sum_cons]
      have := ih n h; omega

theorem measure_thread {s s' : State} {t : Nat} {th th' : Thread} (hth : s.ths[t]? = some th)
    (e1 : s'.ths = s.ths.set t th') (hg : gMeasure s' ≤ gMeasure s) (hlt : thMeasure th' < thMeasure th) :
    measure s' < measure s := by
  have := sum_map_set thMeasure s.ths t th' th hth
  simp only [measure, e1]; omega

theorem thMeasure_goto {th : Thread} {op : Op} (ho : th.ops[th.pc]? = some op) (loc : Loc)
    (h : locRank th.loc < locRank loc) : thMeasure { th with loc := loc } < thMeasure th := by
  have hp : th.pc < th.ops.length := by
    rcases Nat.lt_or_ge th.pc th.ops.length with h1 | h1
    · exact h1
    · simp [List.getElem?_eq_none h1] at ho
  have := locRank_lt loc
  simp only [thMeasure]; omega

theorem thMeasure_finish {th : Thread} {op : Op} (ho : th.ops[th.pc]? = some op) :
    thMeasure { th with pc := th.pc + 1, loc := .idle } < thMeasure th := by
  have hp : th.pc < th.ops.length := by
    rcases Nat.lt_or_ge th.pc th.ops.length with h1 | h1
    · exact h1
    · simp [List.getElem?_eq_none h1] at ho
  have := locRank_lt th.loc
  have h0 : locRank Loc.idle = 0 := rfl
  simp only [thMeasure, h0]; omega

theorem ThStep.measure_lt {c : Cfg} {s s' : State} {t : Nat} {th : Thread} (hG : InvG c s)
    (hth : s.ths[t]? = some th) (hs : ThStep c s t th s') : measure s' < measure s := by
  cases hs with
  | startReturned p ho | startAlready p ho | startUndo p ho | startOnceDone p ho | startNil p ho =>
    exact measure_thread hth rfl (Nat.le_refl _) (thMeasure_finish ho)
  | close ho | waitFinished ho | waitNotStarted ho | waitDone ho | runningFinished ho | runningLoad ho =>
    exact measure_thread hth rfl (Nat.le_refl _) (thMeasure_finish ho)
  | startCheck p ho hl | startSwap p ho hl | startRecheck p ho hl | startClaim p ho hl | startStore p ho hl =>
    exact measure_thread hth rfl (Nat.le_refl _) (thMeasure_goto ho _ (by simp [hl, locRank]))
  | waitCheck ho hl | waitStarted ho hl | runningCheck ho hl =>
    exact measure_thread hth rfl (Nat.le_refl _) (thMeasure_goto ho _ (by simp [hl, locRank]))
  | startLaunch p ho hl hon =>
    refine measure_thread hth rfl ?_ (thMeasure_goto ho _ (by simp [hl, locRank]))
    obtain ⟨hr, hsd, heh, _⟩ := hG.fresh hon
    simp [gMeasure, State.goto, hr, hsd, heh, RgLoc.rank, SdLoc.rank, EhLoc.rank]

theorem RgStep.measure_lt {c : Cfg} {s s' : State} (hs : RgStep c s s') : measure s' < measure s := by
  cases hs <;> simp_all [measure, gMeasure, RgLoc.rank] <;> omega

theorem SdStep.measure_lt {c : Cfg} {s s' : State} (hs : SdStep c s s') : measure s' < measure s := by
  cases hs <;> simp_all [measure, gMeasure, SdLoc.rank] <;> omega

theorem EhStep.measure_lt {c : Cfg} {s s' : State} (hs : EhStep c s s') : measure s' < measure s := by
  cases hs <;> simp_all [measure, gMeasure, EhLoc.rank] <;> omega

theorem measure_decreases {c : Cfg} (hc : c.current) {s s' : State} {a : Act} (hI : Inv c s) (h : step c s a = some s') :
    (∀ p, a ≠ .cancelParent p) → measure s' < measure s := by
  intro hne
  cases a with
  | th t => obtain ⟨th, hth, h'⟩ := stepTh_sound hc h; exact h'.measure_lt hI.i1.1 hth
  | rg => exact (stepRg_sound h).measure_lt
  | sd => exact (stepSd_sound h).measure_lt
  | eh => exact (stepEh_sound h).measure_lt
  | cancelParent p => exact absurd rfl (hne p)

theorem measure_cancel {c : Cfg} {s s' : State} {p : Nat} (h : step c s (.cancelParent p) = some s') :
    measure s' = measure s := by
  simp only [step] at h
  split at h
  · simp at h
  · simp at h; subst h; rfl



/-! ### each operation is called once -/

/-- call events against the program counters, and their uniqueness -/
structure CallU (s : State) : Prop where
  cm3 : ∀ x ∈ s.log, ∀ (t i : Nat) (op : Op), x.2 = .call t i op → ∀ (th : Thread), s.ths[t]? = some th →
          i < th.pc ∨ (i = th.pc ∧ th.loc ≠ .idle)
  uniq : ∀ x ∈ s.log, ∀ y ∈ s.log, ∀ (t i : Nat) (op op' : Op), x.2 = .call t i op → y.2 = .call t i op' → x = y
  exists_th : ∀ x ∈ s.log, ∀ (t i : Nat) (op : Op), x.2 = .call t i op → t < s.ths.length

theorem CallU.goto {s σ : State} (h : CallU s) {t : Nat} {th : Thread} (hth : s.ths[t]? = some th)
    (e1 : σ.ths = s.ths) (e2 : σ.log = s.log) (e3 : σ.clock = s.clock) (loc : Loc) (evs : List Ev)
    (hloc : loc ≠ .idle)
    (hcall : (∃ op, th.loc = .idle ∧ evs = [.call t th.pc op]) ∨ (th.loc ≠ .idle ∧ evs = [])) :
    CallU (σ.goto t th loc evs) := by
  obtain ⟨h1, h2, h3⟩ := h
  have ht := lt_of_getElem? hth
  have hnew : ∀ x, x.1 = s.clock ∧ x.2 ∈ evs → ∃ op, th.loc = .idle ∧ x = (s.clock, .call t th.pc op) := by
    rintro ⟨k, e⟩ ⟨hk, he⟩
    rcases hcall with ⟨op, hl, rfl⟩ | ⟨hl, rfl⟩
    · simp at he hk; subst he hk; exact ⟨op, hl, rfl⟩
    · simp at he
  constructor <;> simp only [State.goto, tick_ths, setTh_ths, tick_log, setTh_log, setTh_clock, e1, e2, e3,
    List.mem_append, mem_stamp, List.length_set]
  · intro x hx u i op hop x' hx'
    rcases hx with hx | hx
    · rcases getElem?_set_cases hx' with ⟨rfl, rfl⟩ | ⟨hne, hu⟩
      · rcases h1 x hx _ i op hop th hth with h | ⟨h, _⟩
        · exact Or.inl h
        · exact Or.inr ⟨h, hloc⟩
      · exact h1 x hx u i op hop x' hu
    · obtain ⟨op', hl, rfl⟩ := hnew x hx
      simp at hop; obtain ⟨rfl, rfl, rfl⟩ := hop
      rcases getElem?_set_cases hx' with ⟨_, rfl⟩ | ⟨hne, hu⟩
      · exact Or.inr ⟨rfl, hloc⟩
      · exact absurd rfl hne
  · intro x hx y hy u i op op' hxo hyo
    rcases hx with hx | hx <;> rcases hy with hy | hy
    · exact h2 x hx y hy u i op op' hxo hyo
    · obtain ⟨op2, hl, rfl⟩ := hnew y hy
      simp at hyo; obtain ⟨rfl, rfl, rfl⟩ := hyo
      rcases h1 x hx _ _ op hxo th hth with h | ⟨_, h⟩
      · omega
      · exact absurd hl h
    · obtain ⟨op2, hl, rfl⟩ := hnew x hx
      simp at hxo; obtain ⟨rfl, rfl, rfl⟩ := hxo
      rcases h1 y hy _ _ op' hyo th hth with h | ⟨_, h⟩
      · omega
      · exact absurd hl h
    · obtain ⟨op2, _, rfl⟩ := hnew x hx
      obtain ⟨op3, _, rfl⟩ := hnew y hy
      rcases hcall with ⟨op4, _, rfl⟩ | ⟨_, rfl⟩
      · simp at hx hy; rw [hx, hy]
      · simp at hx
  · intro x hx u i op hop
    rcases hx with hx | hx
    · exact h3 x hx u i op hop
    · obtain ⟨op', hl, rfl⟩ := hnew x hx
      simp at hop; obtain ⟨rfl, _, _⟩ := hop; exact ht


theorem CallU.finish {s σ : State} (h : CallU s) {t : Nat} {th : Thread} (hth : s.ths[t]? = some th)
    (e1 : σ.ths = s.ths) (e2 : σ.log = s.log) (e3 : σ.clock = s.clock) (r : Ret) (evs : List Ev)
    (hcall : (∃ op, th.loc = .idle ∧ evs = [.call t th.pc op]) ∨ (th.loc ≠ .idle ∧ evs = [])) :
    CallU (σ.finish t th r evs) := by
  obtain ⟨h1, h2, h3⟩ := h
  have ht := lt_of_getElem? hth
  have hnew : ∀ x, x.1 = s.clock ∧ x.2 ∈ evs ++ [Ev.ret t th.pc r] → ∀ u i op, x.2 = .call u i op →
      ∃ op', th.loc = .idle ∧ x = (s.clock, .call t th.pc op') := by
    rintro ⟨k, e⟩ ⟨hk, he⟩ u i op hop
    rcases hcall with ⟨op', hl, rfl⟩ | ⟨hl, rfl⟩
    · simp at he hk hop; subst hk
      rcases he with rfl | rfl
      · exact ⟨op', hl, rfl⟩
      · simp at hop
    · simp at he hop; subst he; simp at hop
  constructor <;> simp only [State.finish, tick_ths, setTh_ths, tick_log, setTh_log, setTh_clock, e1, e2, e3,
    List.mem_append, mem_stamp, List.length_set]
  · intro x hx u i op hop x' hx'
    rcases hx with hx | hx
    · rcases getElem?_set_cases hx' with ⟨rfl, rfl⟩ | ⟨hne, hu⟩
      · rcases h1 x hx _ i op hop th hth with h | ⟨h, _⟩
        · exact Or.inl (Nat.lt_succ_of_lt h)
        · exact Or.inl (by simp [h])
      · exact h1 x hx u i op hop x' hu
    · obtain ⟨op', hl, rfl⟩ := hnew x (by simpa [List.mem_append] using hx) u i op hop
      simp at hop; obtain ⟨rfl, rfl, rfl⟩ := hop
      rcases getElem?_set_cases hx' with ⟨_, rfl⟩ | ⟨hne, hu⟩
      · exact Or.inl (by simp)
      · exact absurd rfl hne
  · intro x hx y hy u i op op' hxo hyo
    rcases hx with hx | hx <;> rcases hy with hy | hy
    · exact h2 x hx y hy u i op op' hxo hyo
    · obtain ⟨op2, hl, rfl⟩ := hnew y (by simpa [List.mem_append] using hy) u i op' hyo
      simp at hyo; obtain ⟨rfl, rfl, rfl⟩ := hyo
      rcases h1 x hx _ _ op hxo th hth with h | ⟨_, h⟩
      · omega
      · exact absurd hl h
    · obtain ⟨op2, hl, rfl⟩ := hnew x (by simpa [List.mem_append] using hx) u i op hxo
      simp at hxo; obtain ⟨rfl, rfl, rfl⟩ := hxo
      rcases h1 y hy _ _ op' hyo th hth with h | ⟨_, h⟩
      · omega
      · exact absurd hl h
    · obtain ⟨op2, _, rfl⟩ := hnew x (by simpa [List.mem_append] using hx) u i op hxo
      obtain ⟨op3, _, rfl⟩ := hnew y (by simpa [List.mem_append] using hy) u i op' hyo
      rcases hcall with ⟨op4, _, rfl⟩ | ⟨_, rfl⟩
      · simp at hx hy; rw [hx, hy]
      · simp at hx
  · intro x hx u i op hop
    rcases hx with hx | hx
    · exact h3 x hx u i op hop
    · obtain ⟨op', hl, rfl⟩ := hnew x (by simpa [List.mem_append] using hx) u i op hop
      simp at hop; obtain ⟨rfl, _, _⟩ := hop; exact ht

theorem CallU.frameG {s s' : State} (h : CallU s) (e0 : s'.ths = s.ths)
    (hl : Appends s s' (fun e => ∀ t i op, e ≠ .call t i op)) : CallU s' := by
  obtain ⟨evs, hlog, _, hev⟩ := hl
  obtain ⟨h1, h2, h3⟩ := h
  have hold : ∀ x, x ∈ s'.log → ∀ u i op, x.2 = .call u i op → x ∈ s.log := by
    intro x hx u i op hop
    rw [hlog] at hx
    rcases List.mem_append.mp hx with hx | hx
    · exact hx
    · rw [mem_stamp] at hx; exact absurd hop (hev _ hx.2 u i op)
  constructor
  · intro x hx u i op hop; rw [e0]; exact h1 x (hold x hx u i op hop) u i op hop
  · intro x hx y hy u i op op' hxo hyo; exact h2 x (hold x hx u i op hxo) y (hold y hy u i op' hyo) u i op op' hxo hyo
  · intro x hx u i op hop; rw [e0]; exact h3 x (hold x hx u i op hop) u i op hop

theorem ThStep.callU {c : Cfg} {s s' : State} {t : Nat} {th : Thread} (h : CallU s)
    (hth : s.ths[t]? = some th) (hs : ThStep c s t th s') : CallU s' := by
  cases hs with
  | startReturned p ho hl | close ho hl | waitFinished ho hl | runningFinished ho hl =>
    apply h.finish hth <;> first | rfl | exact Or.inl ⟨_, hl, rfl⟩
  | startAlready p ho hl | startUndo p ho hl | startOnceDone p ho hl | startNil p ho hl | waitNotStarted ho hl
  | waitDone ho hl | runningLoad ho hl =>
    apply h.finish hth <;> first | rfl | exact Or.inr ⟨by simp [hl], rfl⟩
  | startCheck p ho hl | waitCheck ho hl | runningCheck ho hl =>
    apply h.goto hth <;> first | rfl | (simp; done) | exact Or.inl ⟨_, hl, rfl⟩
  | startSwap p ho hl | startRecheck p ho hl | startClaim p ho hl | startLaunch p ho hl | startStore p ho hl
  | waitStarted ho hl =>
    apply h.goto hth <;> first | rfl | (simp; done) | exact Or.inr ⟨by simp [hl], rfl⟩

theorem Trans.callU {c : Cfg} {s s' : State} (h : CallU s) (hs : Trans c s s') : CallU s' := by
  cases hs with
  | th t th hth hs => exact hs.callU h hth
  | rg hs => cases hs <;> (apply h.frameG <;> first | rfl | appends)
  | sd hs => cases hs <;> (apply h.frameG <;> first | rfl | appends)
  | eh hs => cases hs <;> (apply h.frameG <;> first | rfl | appends)
  | cancelParent p hp => apply h.frameG <;> first | rfl | appends

theorem CallU.reachable {c : Cfg} (hc : c.current) {ps : List (List Op)} {s : State} (hr : Reachable c ps s) : CallU s :=
  reachable_induction CallU
    ⟨fun x hx => by simp [Service.init] at hx, fun x hx => by simp [Service.init] at hx, fun x hx => by simp [Service.init] at hx⟩
    (fun _ _ _ h hs => (step_sound hc hs).callU h) hr


end FunModel.Service
