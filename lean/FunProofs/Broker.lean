import FunModel.Broker

/-! Helper lemmas for C08/C09: the step function of `FunModel.Broker` as an inductive relation
    (one constructor per action, with its guard and the explicit successor state), reachability
    induction, small list lemmas. -/

namespace FunProofs.Broker
open FunModel.Broker

@[simp] theorem upd_same {α : Type} (f : Nat → α) (k : Nat) (v : α) : upd f k v k = v := by simp [upd]
theorem upd_other {α : Type} (f : Nat → α) {k x : Nat} (v : α) (h : x ≠ k) : upd f k v x = f x := by simp [upd, h]
theorem upd_apply {α : Type} (f : Nat → α) (k x : Nat) (v : α) : upd f k v x = if x = k then v else f x := rfl

/-- `step c s a = some s'`, action by action -/
inductive Step (c : Cfg) (s : St) : Act → St → Prop
  | subCall : Step c s .subCall
      { s with calls := s.calls ++ [{ kind := .sub s.nextSub }], nextSub := s.nextSub + 1 }
  | unsubCall (k : Sub) : Step c s (.unsubCall k)
      { s with calls := s.calls ++ [{ kind := .unsub k }], log := .unsubCall k :: s.log }
  | pubCall (p : Nat) (h : s.calls.any (Call.isPubOf p) = false) : Step c s (.pubCall p)
      { s with calls := s.calls ++ [{ kind := .pub (p, s.nextSeq p) }],
               nextSeq := upd s.nextSeq p (s.nextSeq p + 1),
               published := (p, s.nextSeq p) :: s.published, log := .pubCall (p, s.nextSeq p) :: s.log }
  | statsCall : Step c s .statsCall { s with calls := s.calls ++ [{ kind := .stats }] }
  | waitCall : Step c s .waitCall { s with calls := s.calls ++ [{ kind := .wait }] }
  | cancelCall (i : Nat) (cl : Call) (h : s.calls[i]? = some cl) : Step c s (.cancelCall i)
      { s with calls := s.calls.set i { cl with cancelled := true } }
  | stop : Step c s .stop { s with live := false, log := .stop :: s.log }
  | openSub (k : Sub) : Step c s (.openSub k) { s with isOpen := upd s.isOpen k true }
  | gateSub (k : Sub) : Step c s (.gateSub k) { s with isOpen := upd s.isOpen k false }
  | observeQuiet (h : quiescent c s = true) : Step c s .observeQuiet
      { s with log := .quiet (s.live && allOpen s) (pendingApi s.calls) (pendingWaits s.calls)
                        (zombies s.calls) :: s.log }
  | census (h : quiescent c s = true) : Step c s .census { s with log := .census (alive s) :: s.log }
  | enqSub (i : Nat) (k : Sub) (x : Bool) (h : s.calls[i]? = some { kind := .sub k, cancelled := x })
      (hq : s.subQ.length < c.bufSize) : Step c s (.enqSub i)
      { s with subQ := s.subQ ++ [k], calls := s.calls.eraseIdx i, log := .subRet k :: s.log }
  | enqUnsub (i : Nat) (k : Sub) (x : Bool) (h : s.calls[i]? = some { kind := .unsub k, cancelled := x })
      (hq : s.unsubQ.length < c.bufSize) : Step c s (.enqUnsub i)
      { s with unsubQ := s.unsubQ ++ [k], calls := s.calls.eraseIdx i }
  | callAbort (i : Nat) (cl : Call) (h : s.calls[i]? = some cl) (hc : cl.cancelled = true) :
      Step c s (.callAbort i) { s with calls := s.calls.eraseIdx i, fin := cl.msgs ++ s.fin }
  | waitRet (i : Nat) (x : Bool) (h : s.calls[i]? = some { kind := .wait, cancelled := x })
      (hl : s.loop = .exited) (hw : allExited s.ws = true) : Step c s (.waitRet i)
      { s with calls := s.calls.eraseIdx i }
  | loopSubQ (k : Sub) (rest : List Sub) (hl : s.loop = .select) (hq : s.subQ = k :: rest) :
      Step c s .loopSubQ { s with subQ := rest, subs := insertSub k s.subs }
  | loopSub (i : Nat) (k : Sub) (x : Bool) (hl : s.loop = .select)
      (h : s.calls[i]? = some { kind := .sub k, cancelled := x }) : Step c s (.loopSub i)
      { s with subs := insertSub k s.subs, calls := s.calls.eraseIdx i, log := .subRet k :: s.log }
  | loopUnsubQ (k : Sub) (rest : List Sub) (hl : s.loop = .select) (hq : s.unsubQ = k :: rest) :
      Step c s .loopUnsubQ { s with unsubQ := rest, subs := s.subs.erase k, since := upd s.since k [] }
  | loopUnsub (i : Nat) (k : Sub) (x : Bool) (hl : s.loop = .select)
      (h : s.calls[i]? = some { kind := .unsub k, cancelled := x }) : Step c s (.loopUnsub i)
      { s with subs := s.subs.erase k, since := upd s.since k [], calls := s.calls.eraseIdx i }
  | loopStats (i : Nat) (x : Bool) (hl : s.loop = .select)
      (h : s.calls[i]? = some { kind := .stats, cancelled := x }) : Step c s (.loopStats i)
      { s with calls := s.calls.eraseIdx i }
  | loopTake (i : Nat) (m : Msg) (x : Bool) (hl : s.loop = .select)
      (h : s.calls[i]? = some { kind := .pub m, cancelled := x }) : Step c s (.loopTake i)
      { s with loop := .sending m, calls := s.calls.eraseIdx i, taken := s.taken ++ [m],
               since := fun k => if k ∈ s.subs then s.since k ++ [m] else s.since k,
               log := .pubRet m :: s.log }
  | loopSend (accept : Bool) (m : Msg) (buf' dropped : List Msg) (hl : s.loop = .sending m)
      (h : sendTo c.backend s.buf m accept = some (buf', dropped)) : Step c s (.loopSend accept)
      { s with loop := .select, buf := buf', fin := dropped ++ s.fin }
  | loopSendAbort (m : Msg) (hl : s.loop = .sending m) (hd : s.live = false) : Step c s .loopSendAbort
      { s with loop := .select, fin := m :: s.fin }
  | loopExit (hl : s.loop = .select) (hd : s.live = false) : Step c s .loopExit { s with loop := .exited }
  | wRecvBuf (w : Nat) (m : Msg) (rest : List Msg) (hw : s.ws[w]? = some .idle) (hb : s.buf = m :: rest) :
      Step c s (.wRecv w)
      { s with buf := rest, ws := s.ws.set w (.got m), dispatched := s.dispatched ++ [m] }
  | wRecvDirect (w : Nat) (m : Msg) (cap : Nat) (hw : s.ws[w]? = some .idle) (hb : s.buf = [])
      (hl : s.loop = .sending m) (hc : c.backend = .blocking cap) : Step c s (.wRecv w)
      { s with loop := .select, ws := s.ws.set w (.got m), dispatched := s.dispatched ++ [m] }
  | wStart (w : Nat) (m : Msg) (hw : s.ws[w]? = some (.got m)) : Step c s (.wStart w)
      { s with ws := s.ws.set w (.iter m s.subs []) }
  | wNext (w : Nat) (k : Sub) (m : Msg) (start visited : List Sub)
      (hw : s.ws[w]? = some (.iter m start visited)) (hk : k ∈ s.subs) (hv : k ∉ visited)
      (hp : c.parallel = true ∨ pendingOf m s.sends = []) : Step c s (.wNext w k)
      { s with ws := s.ws.set w (.iter m start (k :: visited)), sends := s.sends ++ [(k, m)] }
  | wDone (w : Nat) (m : Msg) (start visited : List Sub)
      (hw : s.ws[w]? = some (.iter m start visited)) (hr : rangeDone s.subs start visited = true)
      (hp : pendingOf m s.sends = []) : Step c s (.wDone w)
      { s with ws := s.ws.set w .idle, fin := m :: s.fin }
  | wAbandonGot (w : Nat) (m : Msg) (hd : s.live = false) (hw : s.ws[w]? = some (.got m)) :
      Step c s (.wAbandon w) { s with ws := s.ws.set w .idle, fin := m :: s.fin }
  | wAbandonIter (w : Nat) (m : Msg) (start visited : List Sub) (hd : s.live = false)
      (hw : s.ws[w]? = some (.iter m start visited)) :
      Step c s (.wAbandon w) { s with ws := s.ws.set w .idle, fin := m :: s.fin }
  | wExit (w : Nat) (hd : s.live = false) (hw : s.ws[w]? = some .idle) : Step c s (.wExit w)
      { s with ws := s.ws.set w .exited }
  | deliver (k : Sub) (m : Msg) (hs : (k, m) ∈ s.sends) (hb : (s.chan k).length < c.bufSize) :
      Step c s (.deliver k m)
      { s with sends := s.sends.erase (k, m), chan := upd s.chan k (s.chan k ++ [m]) }
  | handoff (k : Sub) (m : Msg) (hs : (k, m) ∈ s.sends) (hb : s.chan k = []) (ho : s.isOpen k = true) :
      Step c s (.handoff k m)
      { s with sends := s.sends.erase (k, m), recvd := upd s.recvd k (s.recvd k ++ [m]),
               log := .recv k m :: s.log }
  | sendAbort (k : Sub) (m : Msg) (hs : (k, m) ∈ s.sends) (hd : s.live = false) :
      Step c s (.sendAbort k m) { s with sends := s.sends.erase (k, m) }
  | recv (k : Sub) (m : Msg) (rest : List Msg) (hb : s.chan k = m :: rest) (ho : s.isOpen k = true) :
      Step c s (.recv k)
      { s with chan := upd s.chan k rest, recvd := upd s.recvd k (s.recvd k ++ [m]), log := .recv k m :: s.log }

theorem step_sound {c : Cfg} {s s' : St} {a : Act} (h : step c s a = some s') : Step c s a s' := by
  cases a <;> simp only [step, stepCore] at h
  case subCall => cases h; exact .subCall
  case unsubCall k => cases h; exact .unsubCall k
  case pubCall p =>
    split at h
    · cases h
    · rename_i hn
      cases h
      exact .pubCall p (by simpa using hn)
  case statsCall => cases h; exact .statsCall
  case waitCall => cases h; exact .waitCall
  case cancelCall i =>
    split at h
    · rename_i cl hc
      cases h; exact .cancelCall i cl hc
    · cases h
  case stop => cases h; exact .stop
  case openSub k => cases h; exact .openSub k
  case gateSub k => cases h; exact .gateSub k
  case observeQuiet =>
    split at h
    · rename_i hq
      cases h; exact .observeQuiet hq
    · cases h
  case census =>
    split at h
    · rename_i hq
      cases h; exact .census hq
    · cases h
  case enqSub i =>
    split at h
    · rename_i k x hc
      split at h
      · rename_i hq
        cases h
        exact .enqSub i k x hc hq
      · cases h
    · cases h
  case enqUnsub i =>
    split at h
    · rename_i k x hc
      split at h
      · rename_i hq
        cases h
        exact .enqUnsub i k x hc hq
      · cases h
    · cases h
  case callAbort i =>
    split at h
    · rename_i cl hc
      split at h
      · rename_i hx
        cases h; exact .callAbort i cl hc hx
      · cases h
    · cases h
  case waitRet i =>
    split at h
    · rename_i x hc
      split at h
      · rename_i hx
        simp only [Bool.and_eq_true, beq_iff_eq] at hx
        cases h; exact .waitRet i x hc hx.1 hx.2
      · cases h
    · cases h
  case loopSubQ =>
    split at h
    · rename_i k rest hl hq
      cases h; exact .loopSubQ k rest hl hq
    · cases h
  case loopSub i =>
    split at h
    · rename_i k x hl hc
      cases h; exact .loopSub i k x hl hc
    · cases h
  case loopUnsubQ =>
    split at h
    · rename_i k rest hl hq
      cases h; exact .loopUnsubQ k rest hl hq
    · cases h
  case loopUnsub i =>
    split at h
    · rename_i k x hl hc
      cases h; exact .loopUnsub i k x hl hc
    · cases h
  case loopStats i =>
    split at h
    · rename_i x hl hc
      cases h; exact .loopStats i x hl hc
    · cases h
  case loopTake i =>
    split at h
    · rename_i m x hl hc
      cases h; exact .loopTake i m x hl hc
    · cases h
  case loopSend accept =>
    split at h
    · rename_i m hl
      split at h
      · rename_i buf' dropped hs
        cases h; exact .loopSend accept m buf' dropped hl hs
      · cases h
    · cases h
  case loopSendAbort =>
    split at h
    · rename_i m hl
      split at h
      · cases h
      · rename_i hd
        cases h; exact .loopSendAbort m hl (by simpa using hd)
    · cases h
  case loopExit =>
    split at h
    · rename_i hl
      split at h
      · cases h
      · rename_i hd
        cases h; exact .loopExit hl (by simpa using hd)
    · cases h
  case wRecv w =>
    split at h
    · rename_i hw
      split at h
      · rename_i m rest hb
        cases h; exact .wRecvBuf w m rest hw hb
      · rename_i m hb hl
        split at h
        · rename_i cap hc
          cases h; exact .wRecvDirect w m cap hw hb hl hc
        · cases h
      · cases h
    · cases h
  case wStart w =>
    split at h
    · rename_i m hw
      cases h; exact .wStart w m hw
    · cases h
  case wNext w k =>
    split at h
    · rename_i m start visited hw
      split at h
      · rename_i hg
        simp only [Bool.and_eq_true, decide_eq_true_eq, Bool.not_eq_true', Bool.or_eq_true,
          List.isEmpty_iff] at hg
        cases h
        exact .wNext w k m start visited hw hg.1.1 (by simpa using hg.1.2) hg.2
      · cases h
    · cases h
  case wDone w =>
    split at h
    · rename_i m start visited hw
      split at h
      · rename_i hg
        simp only [Bool.and_eq_true, List.isEmpty_iff] at hg
        cases h
        exact .wDone w m start visited hw hg.1 hg.2
      · cases h
    · cases h
  case wAbandon w =>
    split at h
    · cases h
    · rename_i hd
      split at h
      · rename_i m hw
        cases h; exact .wAbandonGot w m (by simpa using hd) hw
      · rename_i m start visited hw
        cases h; exact .wAbandonIter w m start visited (by simpa using hd) hw
      · cases h
  case wExit w =>
    split at h
    · cases h
    · rename_i hd
      split at h
      · rename_i hw
        cases h; exact .wExit w (by simpa using hd) hw
      · cases h
  case deliver k m =>
    split at h
    · rename_i hg
      simp only [Bool.and_eq_true, decide_eq_true_eq] at hg
      cases h; exact .deliver k m hg.1 hg.2
    · cases h
  case handoff k m =>
    split at h
    · rename_i hg
      simp only [Bool.and_eq_true, decide_eq_true_eq, List.isEmpty_iff] at hg
      cases h; exact .handoff k m hg.1.1 hg.1.2 hg.2
    · cases h
  case sendAbort k m =>
    split at h
    · rename_i hg
      simp only [Bool.and_eq_true, decide_eq_true_eq, Bool.not_eq_true'] at hg
      cases h; exact .sendAbort k m hg.1 hg.2
    · cases h
  case recv k =>
    split at h
    · rename_i m rest hb
      split at h
      · rename_i ho
        cases h; exact .recv k m rest hb ho
      · cases h
    · cases h

/-! ### counting over vectors of workers / pending calls -/

theorem count_flatMap_set {α β : Type} [BEq β] [LawfulBEq β] (f : α → List β) (m : β) :
    ∀ (l : List α) (i : Nat) (y x : α), l[i]? = some y →
      List.count m ((l.set i x).flatMap f) + List.count m (f y)
        = List.count m (l.flatMap f) + List.count m (f x) := by
  intro l
  induction l with
  | nil => intro i y x h; simp at h
  | cons a rest ih =>
    intro i y x h
    cases i with
    | zero =>
      simp only [List.getElem?_cons_zero, Option.some.injEq] at h
      subst h
      simp only [List.set_cons_zero, List.flatMap_cons, List.count_append]
      omega
    | succ j =>
      simp only [List.getElem?_cons_succ] at h
      have := ih j y x h
      simp only [List.set_cons_succ, List.flatMap_cons, List.count_append]
      omega

theorem count_flatMap_eraseIdx {α β : Type} [BEq β] [LawfulBEq β] (f : α → List β) (m : β) :
    ∀ (l : List α) (i : Nat) (y : α), l[i]? = some y →
      List.count m ((l.eraseIdx i).flatMap f) + List.count m (f y) = List.count m (l.flatMap f) := by
  intro l
  induction l with
  | nil => intro i y h; simp at h
  | cons a rest ih =>
    intro i y h
    cases i with
    | zero =>
      simp only [List.getElem?_cons_zero, Option.some.injEq] at h
      subst h
      simp only [List.eraseIdx_cons_zero, List.flatMap_cons, List.count_append]
      omega
    | succ j =>
      simp only [List.getElem?_cons_succ] at h
      have := ih j y h
      simp only [List.eraseIdx_cons_succ, List.flatMap_cons, List.count_append]
      omega

theorem count_flatMap_ge {α β : Type} [BEq β] [LawfulBEq β] (f : α → List β) (m : β) :
    ∀ (l : List α) (i : Nat) (y : α), l[i]? = some y → List.count m (f y) ≤ List.count m (l.flatMap f) := by
  intro l i y h
  have := count_flatMap_eraseIdx f m l i y h
  omega

theorem count_flatMap_two {α β : Type} [BEq β] [LawfulBEq β] (f : α → List β) (m : β) :
    ∀ (l : List α) (i j : Nat) (a b : α), l[i]? = some a → l[j]? = some b → i ≠ j →
      List.count m (f a) + List.count m (f b) ≤ List.count m (l.flatMap f) := by
  intro l
  induction l with
  | nil => intro i j a b h; simp at h
  | cons x rest ih =>
    intro i j a b hi hj hne
    cases i with
    | zero =>
      cases j with
      | zero => exact absurd rfl hne
      | succ j' =>
        simp only [List.getElem?_cons_zero, Option.some.injEq] at hi
        simp only [List.getElem?_cons_succ] at hj
        subst hi
        have := count_flatMap_ge f m rest j' b hj
        simp only [List.flatMap_cons, List.count_append]
        omega
    | succ i' =>
      cases j with
      | zero =>
        simp only [List.getElem?_cons_zero, Option.some.injEq] at hj
        simp only [List.getElem?_cons_succ] at hi
        subst hj
        have := count_flatMap_ge f m rest i' a hi
        simp only [List.flatMap_cons, List.count_append]
        omega
      | succ j' =>
        simp only [List.getElem?_cons_succ] at hi hj
        have := ih i' j' a b hi hj (by omega)
        simp only [List.flatMap_cons, List.count_append]
        omega

/-! ### reachability -/

theorem run_append {c : Cfg} {s : St} (as bs : List Act) :
    run c s (as ++ bs) = (run c s as).bind (fun s' => run c s' bs) := by
  simp [run, List.foldlM_append]

theorem reachable_init (c : Cfg) : Reachable c (init c) := ⟨[], rfl⟩

theorem reachable_step {c : Cfg} {s s' : St} {a : Act} (hr : Reachable c s) (h : step c s a = some s') :
    Reachable c s' := by
  obtain ⟨acts, ha⟩ := hr
  refine ⟨acts ++ [a], ?_⟩
  rw [run_append, ha]
  simp [run, h]

/-- an inductive invariant holds in every reachable state -/
theorem reachable_induction {c : Cfg} (P : St → Prop) (h0 : P (init c))
    (hstep : ∀ s a s', Reachable c s → P s → Step c s a s' → P s') : ∀ s, Reachable c s → P s := by
  intro s ⟨acts, ha⟩
  suffices ∀ (acts : List Act) (s0 : St), Reachable c s0 → P s0 → ∀ s, run c s0 acts = some s → P s from
    this acts _ (reachable_init c) h0 s ha
  intro acts
  induction acts with
  | nil => intro s0 _ hp s h; simp [run] at h; subst h; exact hp
  | cons a rest ih =>
    intro s0 hr hp s h
    simp only [run, List.foldlM_cons] at h
    cases h1 : FunModel.Broker.step c s0 a with
    | none => simp [h1] at h
    | some s1 =>
      simp only [h1, Option.bind_eq_bind, Option.bind_some] at h
      exact ih s1 (reachable_step hr h1) (hstep s0 a s1 hr hp (step_sound h1)) s h

end FunProofs.Broker
