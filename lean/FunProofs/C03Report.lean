import FunProofs.C03Pipe
import FunProps.C12

/-! Helper lemmas for C03: what the collector of the fault process model resolves to, in terms of
    C12's theorems about `ers.Stack` / `erc.Collector`. -/

namespace FunModel.FaultPipe
open FunModel FunModel.C12

theorem canContinue_table (o : Conf) (k : ErrClass) :
    (canContinue o k).reports = (if k.reportable o then 1 else 0) ∧ (canContinue o k).cont = k.continues o := by
  rcases o with ⟨cp, ce, ic⟩
  rcases k with ⟨n, p, s, e, x, a, ex⟩
  cases n <;> cases p <;> cases s <;> cases e <;> cases x <;> cases ex <;> cases cp <;> cases ic <;>
    simp [canContinue, ErrClass.reportable, ErrClass.continues]

theorem reports_eq_reportable (c : Cfg) (x : Nat) : c.reports x = (c.cls x).reportable c.conf := by
  have := (canContinue_table c.conf (c.cls x)).1
  simp only [Cfg.reports, Cfg.dec, this]
  cases (c.cls x).reportable c.conf <;> simp

theorem cont_eq_continues (c : Cfg) (x : Nat) : c.cont x = (c.cls x).continues c.conf :=
  (canContinue_table c.conf (c.cls x)).2

/-- only a non-nil result is ever reported -/
theorem result_some_of_reports {c : Cfg} {x : Nat} (h : c.reports x = true) :
    ∃ e, (c.outcome x).result = some e := by
  rw [reports_eq_reportable] at h
  cases hr : (c.outcome x).result with
  | some e => exact ⟨e, rfl⟩
  | none => simp [Cfg.cls, hr, classify, ErrClass.reportable] at h

theorem resultOf_eq (c : Cfg) (coll : List Nat) :
    resultOf c coll = collectorResolve (collect (collectedErrs c coll)) := rfl

theorem mem_collectedErrs {c : Cfg} {coll : List Nat} {x : Nat} (hx : x ∈ coll) :
    (c.outcome x).result ∈ collectedErrs c coll := by
  simp only [collectedErrs, List.mem_map, List.mem_reverse]
  exact ⟨x, hx, rfl⟩

/-- the result is nil exactly when nothing was handed to the collector -/
theorem resultOf_none_iff (c : Cfg) (coll : List Nat)
    (hsolid : ∀ x e, (c.outcome x).result = some e → e.solid = true)
    (hrep : ∀ x ∈ coll, c.reports x = true) : resultOf c coll = none ↔ coll = [] := by
  rw [resultOf_eq, collector_resolve_nil_iff]
  · constructor
    · intro h
      cases coll with
      | nil => rfl
      | cons x xs =>
        exfalso
        obtain ⟨e, he⟩ := result_some_of_reports (hrep x (by simp))
        have := h _ (mem_collectedErrs (c := c) (coll := x :: xs) (x := x) (by simp))
        rw [he] at this; cases this
    · intro h; subst h; intro o ho; simp [collectedErrs] at ho
  · intro e he
    simp only [collectedErrs, List.mem_map, List.mem_reverse] at he
    obtain ⟨x, _, hx⟩ := he
    exact hsolid x e hx

/-- whatever `errors.Is` finds in a reported error (other than the identity of a multi-error
    wrapper that `Stack.Push` opens) it finds in the result -/
theorem resultOf_is_of_reported (c : Cfg) (coll : List Nat) (x : Nat) (hx : x ∈ coll) (e : Err)
    (he : (c.outcome x).result = some e) (t : Nat) (ht : e.is t = true) (hshell : t ∉ e.shellIds) :
    isOpt (resultOf c coll) t = true := by
  rw [resultOf_eq, collector_is, collect_eq]
  cases Err.parts_of_is t e ht with
  | inl h => exact absurd h hshell
  | inr h =>
    simp only [List.any_eq_true] at h ⊢
    obtain ⟨p, hp, hpt⟩ := h
    refine ⟨p, ?_, hpt⟩
    simp only [List.mem_reverse, List.mem_flatMap]
    exact ⟨some e, by rw [← he]; exact mem_collectedErrs hx, by simpa [optParts] using hp⟩

/-- a reported panic is found as ErrRecoveredPanic in the result -/
theorem resultOf_is_panic (c : Cfg) (coll : List Nat) (x : Nat) (hx : x ∈ coll) (p : Err)
    (hp : c.outcome x = .panic p) : isOpt (resultOf c coll) idRecoveredPanic = true := by
  cases hr : parsePanicErr (some p) with
  | none => exact absurd hr (parsePanic_ne_nil p)
  | some r =>
    have hparts := join_join_parts _ r (by simpa [parsePanicErr] using hr)
    have hmem : Err.leaf idRecoveredPanic ∈ r.parts := by
      have : Err.leaf idRecoveredPanic ∈ r.parts.reverse := by
        rw [hparts]; simp [ErrList.partsAll, Err.parts]
      simpa using this
    rw [resultOf_eq, collector_is, collect_eq]
    simp only [List.any_eq_true]
    refine ⟨.leaf idRecoveredPanic, ?_, by simp [Err.is]⟩
    simp only [List.mem_reverse, List.mem_flatMap]
    refine ⟨some r, ?_, by simpa [optParts] using hmem⟩
    have := mem_collectedErrs (c := c) hx
    simpa [hp, Outcome.result, hr] using this

/-- nothing is invented: what `errors.Is` finds in the result it finds in a reported error, when no
    reported error hides its children behind an `Unwind()`-only type -/
theorem reported_of_resultOf_is (c : Cfg) (coll : List Nat) (t : Nat)
    (hvis : ∀ x e, (c.outcome x).result = some e → e.visible = true)
    (h : isOpt (resultOf c coll) t = true) :
    ∃ x ∈ coll, ∃ e, (c.outcome x).result = some e ∧ e.is t = true := by
  rw [resultOf_eq, collector_is, collect_eq] at h
  simp only [List.any_eq_true, List.mem_reverse, List.mem_flatMap] at h
  obtain ⟨p, ⟨o, ho, hpo⟩, hpt⟩ := h
  simp only [collectedErrs, List.mem_map, List.mem_reverse] at ho
  obtain ⟨x, hx, hxo⟩ := ho
  cases o with
  | none => simp [optParts] at hpo
  | some e =>
    refine ⟨x, hx, e, hxo, ?_⟩
    apply Err.is_of_parts t e (hvis x e hxo)
    simp only [List.any_eq_true]
    exact ⟨p, by simpa [optParts] using hpo, hpt⟩

end FunModel.FaultPipe
