import FunModel.Queue
import FunProofs.Conc

/-! Wake-up invariants of `pubsub.Queue` as a `Conc.Subject` (C07, C20 iterator liveness).
    `Tracker` holds a `Float` burst credit: nothing here looks inside it; every lemma about
    `add` / `remove` holds for every credit value. -/

namespace FunModel.Queue
open FunModel.Conc

/-! ### the limit tracker (for every credit value) -/

theorem Tracker.add_ok_len {tr tr' : Tracker} (h : tr.add = (tr', .ok)) : tr'.len = tr.len + 1 := by
  cases tr with
  | noLimit l => simp [Tracker.add] at h; subst h; rfl
  | soft sq hl l cr =>
    simp only [Tracker.add] at h
    split at h
    · split at h
      · cases h
      · split at h
        · cases h
        · simp at h; subst h; rfl
    · simp at h; subst h; rfl

/-- an `add` that succeeds while there is no room leaves no room -/
theorem Tracker.add_ok_noroom {tr tr' : Tracker} (h : tr.add = (tr', .ok)) (hr : tr.hasRoom = false) :
    tr'.hasRoom = false := by
  cases tr with
  | noLimit l => simp [Tracker.hasRoom, Tracker.cap] at hr
  | soft sq hl l cr =>
    simp only [Tracker.add] at h
    split at h
    · split at h
      · cases h
      · split at h
        · cases h
        · simp at h; subst h; simp [Tracker.hasRoom, Tracker.cap, Tracker.len]
    · rename_i hlt
      simp [Tracker.hasRoom, Tracker.cap, Tracker.len] at hr
      omega

theorem Tracker.remove_lenL (tr : Tracker) : tr.remove.len = tr.len - 1 := by
  cases tr with
  | noLimit l => rfl
  | soft sq hl l cr =>
    simp only [Tracker.remove]
    split <;> rfl

/-! ### cursors -/

/-- the cursor after the adjustment at the top of the iterator's loop -/
def St.adj (s : St) (c : Nat) : Nat := if c != 0 && (s.linkOf c).isNone && c != s.back then 0 else c

/-- the unseen successor of iterator `k`'s cursor, if any -/
def St.succ (s : St) (k : Nat) : Option Nat := s.linkOf (s.adj (s.cursor k))

theorem St.adj_idem (s : St) (c : Nat) : s.adj (s.adj c) = s.adj c := by
  unfold St.adj
  by_cases h : (c != 0 && (s.linkOf c).isNone && c != s.back) = true
  · simp [h]
  · simp [h]

@[simp] theorem cursor_setCursor_self (s : St) (k c : Nat) : (s.setCursor k c).cursor k = c := by
  simp [St.cursor, St.setCursor]

theorem find_filter_neL {k k' : Nat} (h : k ≠ k') (l : List (Nat × Nat)) :
    (l.filter (fun p => p.1 != k')).find? (fun p => p.1 == k) = l.find? (fun p => p.1 == k) := by
  induction l with
  | nil => rfl
  | cons p r ih =>
    by_cases hp : p.1 = k'
    · have hk : (p.1 == k) = false := by simpa using fun e => h (e.symm.trans hp)
      rw [List.filter_cons, List.find?_cons, hk]
      simpa [hp] using ih
    · have hp' : (p.1 != k') = true := by simpa using hp
      rw [List.filter_cons, hp', if_pos rfl, List.find?_cons, List.find?_cons, ih]

theorem cursor_setCursor_neL (s : St) {k k' : Nat} (c : Nat) (h : k ≠ k') : (s.setCursor k' c).cursor k = s.cursor k := by
  simp only [St.cursor, St.setCursor]
  have hb : ((k', c).1 == k) = false := by simpa using fun e => h e.symm
  rw [List.find?_cons, hb, find_filter_neL h]

/-- `linkOf`, `back`, `adj` only read `q` and `links` -/
theorem linkOf_congrL {s s' : St} (hq : s'.q = s.q) (hl : s'.links = s.links) (c : Nat) : s'.linkOf c = s.linkOf c := by
  simp [St.linkOf, hq, hl]
theorem back_congrL {s s' : St} (hq : s'.q = s.q) : s'.back = s.back := by simp [St.back, hq]
theorem adj_congr {s s' : St} (hq : s'.q = s.q) (hl : s'.links = s.links) (c : Nat) : s'.adj c = s.adj c := by
  simp [St.adj, linkOf_congrL hq hl, back_congrL hq]
theorem succ_congr {s s' : St} (hq : s'.q = s.q) (hl : s'.links = s.links) {k : Nat}
    (hc : s'.cursor k = s.cursor k) : s'.succ k = s.succ k := by
  simp [St.succ, adj_congr hq hl, linkOf_congrL hq hl, hc]

/-! ### what a segment does to the queue state and which signals it sends -/

/-- which condition an operation may park on: 0 = `nempty`, 1 = `nupdates` -/
def condOf : Op → Option Nat
  | .wait => some 0
  | .recv => some 0
  | .badd _ => some 1
  | .next _ => some 1
  | _ => none

structure SegFacts (σ : St) (t : Nat) (op : Op) (o : SegOut St) : Prop where
  lenq : σ.tracker.len = σ.q.length → o.st.tracker.len = o.st.q.length
  w_other : ∀ u, u ≠ t → u ∈ o.st.waited → u ∈ σ.waited
  w_self : t ∈ o.st.waited → (t ∈ σ.waited ∧ ∀ k, op ≠ .next k) ∨ ((∃ k, op = .next k) ∧ o.fin = .park 1)
  closed_mono : σ.closed = true → o.st.closed = true
  closed_park : o.st.closed = true → ∀ c, o.fin ≠ .park c
  closed_bcast : o.st.closed = true → σ.closed = false → Sig.broadcast 0 ∈ o.sigs ∧ Sig.broadcast 1 ∈ o.sigs
  len_sig : o.st.tracker.len ≠ 0 → σ.tracker.len = 0 → Sig.signal 0 ∈ o.sigs
  park0 : o.fin = .park 0 → o.st.tracker.len = 0
  tracker : Sig.broadcast 1 ∈ o.sigs ∨ o.st.tracker = σ.tracker
  badd_park : ∀ v, op = .badd v → ∀ c, o.fin = .park c → o.st.tracker.hasRoom = false
  succ : Sig.broadcast 1 ∈ o.sigs ∨ ∀ k, σ.succ k = none → o.st.succ k = none
  next_park : ∀ k, op = .next k → ∀ c, o.fin = .park c → o.st.succ k = none
  norelease : Sig.release ∉ o.sigs
  park_cond : ∀ c, o.fin = .park c → condOf op = some c

/-- a list of signals that only starts helpers -/
def Spawns (pre : List Sig) : Prop := ∀ sg ∈ pre, ∃ c, sg = Sig.spawn c

theorem spawns_nil : Spawns [] := fun _ h => by cases h
theorem spawns_one (c : Nat) : Spawns [.spawn c] := fun sg h => by simp at h; exact ⟨c, h⟩
theorem Spawns.no_bcast {pre : List Sig} (h : Spawns pre) (c : Nat) : Sig.broadcast c ∉ pre := by
  intro hm; obtain ⟨_, he⟩ := h _ hm; cases he
theorem Spawns.no_signal {pre : List Sig} (h : Spawns pre) (c : Nat) : Sig.signal c ∉ pre := by
  intro hm; obtain ⟨_, he⟩ := h _ hm; cases he
theorem Spawns.no_release {pre : List Sig} (h : Spawns pre) : Sig.release ∉ pre := by
  intro hm; obtain ⟨_, he⟩ := h _ hm; cases he

/-- the segment returns without touching the state and without waking anybody -/
theorem facts_noop {σ : St} {t : Nat} {op : Op} {o : SegOut St} (hst : o.st = σ) {r : String} (hfin : o.fin = .ret r)
    (hsig : Spawns o.sigs) (hop : ∀ k, op ≠ .next k) : SegFacts σ t op o := by
  refine ⟨?_, ?_, ?_, ?_, ?_, ?_, ?_, ?_, ?_, ?_, ?_, ?_, ?_, ?_⟩ <;> (try rw [hst]) <;> (try rw [hfin])
  · exact id
  · exact fun _ _ h => h
  · exact fun h => Or.inl ⟨h, hop⟩
  · exact id
  · intro _ c h; cases h
  · intro h1 h2; rw [h1] at h2; cases h2
  · intro h1 h2; exact absurd h2 h1
  · intro h; cases h
  · exact Or.inr rfl
  · intro _ _ _ h; cases h
  · exact Or.inr (fun _ h => h)
  · intro _ _ _ h; cases h
  · exact hsig.no_release
  · intro _ h; cases h

/-- the segment parks without touching the state -/
theorem facts_park {σ : St} {t : Nat} {op : Op} {o : SegOut St} (hst : o.st = σ) {c : Nat} (hfin : o.fin = .park c)
    (hsig : Spawns o.sigs) (hop : ∀ k, op ≠ .next k) (hcl : σ.closed = false) (h0 : c = 0 → σ.tracker.len = 0)
    (hb : ∀ v, op = .badd v → σ.tracker.hasRoom = false) (hc : condOf op = some c) : SegFacts σ t op o := by
  refine ⟨?_, ?_, ?_, ?_, ?_, ?_, ?_, ?_, ?_, ?_, ?_, ?_, ?_, ?_⟩ <;> (try rw [hst]) <;> (try rw [hfin])
  · exact id
  · exact fun _ _ h => h
  · exact fun h => Or.inl ⟨h, hop⟩
  · exact id
  · intro h; rw [hcl] at h; cases h
  · intro h1 h2; rw [h1] at h2; cases h2
  · intro h1 h2; exact absurd h2 h1
  · intro h; cases h; exact h0 rfl
  · exact Or.inr rfl
  · intro v hv _ _; exact hb v hv
  · exact Or.inr (fun _ h => h)
  · intro k hk; exact absurd hk (hop k)
  · exact hsig.no_release
  · intro c' h; cases h; exact hc

/-- the state after a successful `doAdd` -/
def St.added (σ : St) (tr : Tracker) (v : Int) : St :=
  { σ with tracker := tr, q := σ.q ++ [(σ.nextId, v)], vals := (σ.nextId, v) :: σ.vals, nextId := σ.nextId + 1,
           links := if σ.back = 0 then σ.links else (σ.back, σ.nextId) :: σ.links }

inductive DoAdd (σ : St) (v : Int) : St × String × List Sig → Prop
  | fail (r : String) : DoAdd σ v (σ, r, [])
  | ok (tr : Tracker) : σ.closed = false → σ.tracker.add = (tr, .ok) →
      DoAdd σ v (σ.added tr v, "ok", (if tr.len == 1 then [Sig.signal 0] else []) ++ [Sig.broadcast 1])

theorem doAdd_spec (σ : St) (v : Int) : DoAdd σ v (doAdd σ v) := by
  unfold doAdd
  by_cases hc : σ.closed = true
  · simp only [hc, if_true]; exact .fail _
  · have hc' : σ.closed = false := by simpa using hc
    rw [if_neg hc]
    cases ha : σ.tracker.add with
    | mk tr res =>
      cases res with
      | ok => exact .ok tr hc' ha
      | full => exact .fail _
      | noCredit => exact .fail _

theorem facts_of_doAdd {σ : St} {t : Nat} {op : Op} {v : Int} {x : St × String × List Sig} (h : DoAdd σ v x)
    (hop : ∀ k, op ≠ .next k) {pre : List Sig} (hpre : Spawns pre) :
    SegFacts σ t op { st := x.1, sigs := pre ++ x.2.2, fin := .ret x.2.1 } := by
  cases h with
  | fail r => exact facts_noop rfl rfl (by simpa using hpre) hop
  | ok tr hcl hadd =>
    have hlen := Tracker.add_ok_len hadd
    refine ⟨?_, ?_, ?_, ?_, ?_, ?_, ?_, ?_, ?_, ?_, ?_, ?_, ?_, ?_⟩ <;> simp only [St.added]
    · intro h; simp [hlen, h]
    · exact fun _ _ h => h
    · exact fun h => Or.inl ⟨h, hop⟩
    · exact id
    · intro _ c h; cases h
    · intro h1 h2; rw [h1] at h2; cases h2
    · intro _ h0
      have : tr.len = 1 := by rw [hlen, h0]
      simp [this]
    · intro h; cases h
    · left; simp
    · intro _ _ _ h; cases h
    · left; simp
    · intro _ _ _ h; cases h
    · intro hm
      rcases List.mem_append.1 hm with h1 | h1
      · exact hpre.no_release h1
      · split at h1 <;> simp at h1
    · intro _ h; cases h

inductive Pop (σ : St) : St × Int × List Sig → Prop
  | none : σ.q = [] → Pop σ (σ, 0, [])
  | some (e : Nat) (v : Int) (rest : List (Nat × Int)) : σ.q = (e, v) :: rest →
      Pop σ ({ σ with q := rest, tracker := σ.tracker.remove }, v, [Sig.broadcast 1])

theorem popFront_spec (σ : St) : Pop σ (popFront σ) := by
  unfold popFront
  cases hq : σ.q with
  | nil => exact .none hq
  | cons p rest => obtain ⟨e, v⟩ := p; exact .some e v rest hq

theorem facts_of_pop {σ : St} {t : Nat} {op : Op} {x : St × Int × List Sig} (h : Pop σ x)
    (hlen : σ.tracker.len ≠ 0) (hop : ∀ k, op ≠ .next k) {pre : List Sig} (hpre : Spawns pre) :
    SegFacts σ t op { st := x.1, sigs := pre ++ x.2.2, fin := .ret (toString x.2.1) } := by
  cases h with
  | none hq => exact facts_noop rfl rfl (by simpa using hpre) hop
  | some e v rest hq =>
    refine ⟨?_, ?_, ?_, ?_, ?_, ?_, ?_, ?_, ?_, ?_, ?_, ?_, ?_, ?_⟩ <;> simp only
    · intro h; rw [Tracker.remove_lenL, h, hq]; simp
    · exact fun _ _ h => h
    · exact fun h => Or.inl ⟨h, hop⟩
    · exact id
    · intro _ c h; cases h
    · intro h1 h2; rw [h1] at h2; cases h2
    · intro _ h0; exact absurd h0 hlen
    · intro h; cases h
    · left; simp
    · intro _ _ _ h; cases h
    · left; simp
    · intro _ _ _ h; cases h
    · intro hm
      rcases List.mem_append.1 hm with h1 | h1
      · exact hpre.no_release h1
      · simp at h1
    · intro _ h; cases h

theorem facts_baddLoop (σ : St) (t : Nat) (v : Int) (b : Bool) {pre : List Sig} (hpre : Spawns pre) :
    SegFacts σ t (.badd v) (baddLoop σ v b pre) := by
  have hop : ∀ k, Op.badd v ≠ .next k := fun _ h => by cases h
  unfold baddLoop
  by_cases hr : σ.tracker.hasRoom = true
  · simp only [hr, Bool.not_true, Bool.false_eq_true, if_false]
    exact facts_of_doAdd (doAdd_spec σ v) hop hpre
  · have hr' : σ.tracker.hasRoom = false := by simpa using hr
    simp only [hr', Bool.not_false, if_true]
    by_cases hc : σ.closed = true
    · simp only [hc, if_true]; exact facts_noop rfl rfl hpre hop
    · have hc' : σ.closed = false := by simpa using hc
      rw [if_neg hc]
      cases b with
      | true => simp only [if_true]; exact facts_noop rfl rfl hpre hop
      | false =>
        simp only [Bool.false_eq_true, if_false]
        exact facts_park rfl rfl hpre hop hc' (fun h => by cases h) (fun _ _ => hr') rfl

theorem facts_waitLoop (σ : St) (t : Nat) (op : Op) (hop0 : condOf op = some 0) (b : Bool) {pre : List Sig}
    (hpre : Spawns pre) : SegFacts σ t op (waitLoop σ b pre) := by
  have hop : ∀ k, op ≠ .next k := fun k h => by subst h; simp [condOf] at hop0
  have hnb : ∀ v, op = .badd v → σ.tracker.hasRoom = false := fun v h => by subst h; simp [condOf] at hop0
  unfold waitLoop
  by_cases hl : σ.tracker.len = 0
  · simp only [hl, beq_self_eq_true, if_true]
    by_cases hc : σ.closed = true
    · simp only [hc, if_true]; exact facts_noop rfl rfl hpre hop
    · have hc' : σ.closed = false := by simpa using hc
      rw [if_neg hc]
      cases b with
      | true => simp only [if_true]; exact facts_noop rfl rfl hpre hop
      | false =>
        simp only [Bool.false_eq_true, if_false]
        exact facts_park rfl rfl hpre hop hc' (fun _ => hl) hnb hop0
  · have : (σ.tracker.len == 0) = false := by simpa using hl
    simp only [this, Bool.false_eq_true, if_false]
    exact facts_of_pop (popFront_spec σ) hl hop hpre

theorem facts_close (σ : St) (t : Nat) :
    SegFacts σ t .close { st := { σ with closed := true }, sigs := [.broadcast 1, .broadcast 0], fin := .ret "ok" } := by
  refine ⟨?_, ?_, ?_, ?_, ?_, ?_, ?_, ?_, ?_, ?_, ?_, ?_, ?_, ?_⟩
  · exact id
  · exact fun _ _ h => h
  · exact fun h => Or.inl ⟨h, fun _ h => by cases h⟩
  · exact fun _ => rfl
  · intro _ c h; cases h
  · intro _ _; simp
  · intro h1 h2; exact absurd h2 h1
  · intro h; cases h
  · left; simp
  · intro _ h; cases h
  · left; simp
  · intro _ h; cases h
  · simp
  · intro _ h; cases h

/-- the common shape of the iterator's segments: tracker, items and `closed` untouched, no signal
    but possibly a helper start; either a return that takes `t` out of `waited`, or a park on
    `nupdates` of an open queue with no unseen successor -/
theorem facts_next_aux {σ σ' : St} {t k : Nat} {o : SegOut St} (hst : o.st = σ')
    (htr : σ'.tracker = σ.tracker) (hq : σ'.q = σ.q) (hcl : σ'.closed = σ.closed)
    (hsucc : ∀ k', σ.succ k' = none → σ'.succ k' = none) (hsig : Spawns o.sigs)
    (hfin : (∃ r, o.fin = .ret r ∧ ∀ u, u ∈ σ'.waited → u ∈ σ.waited ∧ u ≠ t) ∨
      (o.fin = .park 1 ∧ σ.closed = false ∧ σ'.succ k = none ∧ ∀ u, u ∈ σ'.waited → u ∈ σ.waited ∨ u = t)) :
    SegFacts σ t (.next k) o := by
  refine ⟨?_, ?_, ?_, ?_, ?_, ?_, ?_, ?_, ?_, ?_, ?_, ?_, ?_, ?_⟩ <;> (try rw [hst])
  · intro h; rw [htr, hq]; exact h
  · intro u hu h
    rcases hfin with ⟨_, _, hw⟩ | ⟨_, _, _, hw⟩
    · exact (hw u h).1
    · exact (hw u h).resolve_right hu
  · intro h
    rcases hfin with ⟨_, _, hw⟩ | ⟨hf, _, _, _⟩
    · exact absurd rfl (hw t h).2
    · exact Or.inr ⟨⟨k, rfl⟩, hf⟩
  · intro h; rw [hcl]; exact h
  · intro h c hp
    rcases hfin with ⟨_, hf, _⟩ | ⟨_, hc, _, _⟩
    · rw [hf] at hp; cases hp
    · rw [hcl, hc] at h; cases h
  · intro h1 h2; rw [hcl, h2] at h1; cases h1
  · intro h1 h2; rw [htr] at h1; exact absurd h2 h1
  · intro hp
    rcases hfin with ⟨_, hf, _⟩ | ⟨hf, _, _, _⟩ <;> rw [hf] at hp <;> cases hp
  · exact Or.inr htr
  · intro _ h; cases h
  · exact Or.inr hsucc
  · intro k' hk' c hp
    cases hk'
    rcases hfin with ⟨_, hf, _⟩ | ⟨_, _, hs, _⟩
    · rw [hf] at hp; cases hp
    · exact hs
  · exact hsig.no_release
  · intro c hp
    rcases hfin with ⟨_, hf, _⟩ | ⟨hf, _, _, _⟩ <;> rw [hf] at hp <;> cases hp
    rfl

theorem facts_next (σ : St) (t k : Nat) (b : Bool) : SegFacts σ t (.next k) (nextLoop σ t k b) := by
  have hadj : (if (σ.cursor k != 0 && (σ.linkOf (σ.cursor k)).isNone && σ.cursor k != σ.back) = true then 0
      else σ.cursor k) = σ.adj (σ.cursor k) := rfl
  -- the successor seen by the other iterators is unchanged; for `k` itself, when there is none,
  -- the cursor is stored adjusted and `adj` is idempotent
  have hsucc_none : σ.succ k = none → ∀ σ' : St, σ'.q = σ.q → σ'.links = σ.links →
      σ'.cursors = (σ.setCursor k (σ.adj (σ.cursor k))).cursors → ∀ k', σ.succ k' = none → σ'.succ k' = none := by
    intro hk σ' hq hl hcur k' hk'
    have hcursor : ∀ j, σ'.cursor j = (σ.setCursor k (σ.adj (σ.cursor k))).cursor j := by
      intro j; simp only [St.cursor, hcur]
    by_cases he : k' = k
    · subst he
      rw [St.succ, hcursor, cursor_setCursor_self, adj_congr hq hl, St.adj_idem, linkOf_congrL hq hl]; exact hk
    · rw [succ_congr hq hl ((hcursor k').trans (cursor_setCursor_neL σ _ he))]; exact hk'
  unfold nextLoop
  simp only [hadj]
  cases hs : σ.linkOf (σ.adj (σ.cursor k)) with
  | some n =>
    simp only
    refine facts_next_aux rfl rfl rfl rfl ?_ spawns_nil (Or.inl ⟨_, rfl, ?_⟩)
    · intro k' hk'
      by_cases he : k' = k
      · subst he; rw [St.succ, hs] at hk'; cases hk'
      · rw [← hk']
        exact succ_congr (s := σ) (by rfl) (by rfl) (cursor_setCursor_neL σ n he)
    · intro u h
      have := List.mem_filter.1 h
      exact ⟨this.1, by simpa using this.2⟩
  | none =>
    have hk : σ.succ k = none := hs
    simp only
    have hcl : (σ.setCursor k (σ.adj (σ.cursor k))).closed = σ.closed := rfl
    have hwt : (σ.setCursor k (σ.adj (σ.cursor k))).waited = σ.waited := rfl
    have hret : ∀ u, u ∈ List.filter (fun x => x != t) σ.waited → u ∈ σ.waited ∧ u ≠ t := by
      intro u h
      have := List.mem_filter.1 h
      exact ⟨this.1, by simpa using this.2⟩
    by_cases hc : σ.closed = true
    · simp only [hcl, hc, if_true, hwt]
      exact facts_next_aux rfl rfl rfl hc.symm (hsucc_none hk _ (by rfl) (by rfl) (by rfl)) spawns_nil (Or.inl ⟨_, rfl, hret⟩)
    · have hc' : σ.closed = false := by simpa using hc
      simp only [hcl, hc', Bool.false_eq_true, if_false, hwt]
      cases b with
      | true =>
        simp only [if_true]
        exact facts_next_aux rfl rfl rfl hc'.symm (hsucc_none hk _ (by rfl) (by rfl) (by rfl)) spawns_nil (Or.inl ⟨_, rfl, hret⟩)
      | false =>
        simp only [Bool.false_eq_true, if_false]
        by_cases hw : σ.waited.contains t = true
        · simp only [hw, if_true]
          exact facts_next_aux rfl rfl rfl rfl (hsucc_none hk _ (by rfl) (by rfl) (by rfl)) spawns_nil
            (Or.inr ⟨rfl, hc', hsucc_none hk _ (by rfl) (by rfl) (by rfl) k hk, fun u h => Or.inl h⟩)
        · simp only [hw, Bool.false_eq_true, if_false]
          refine facts_next_aux rfl (by rfl) (by rfl) hc'.symm (hsucc_none hk _ (by rfl) (by rfl) (by rfl)) (spawns_one 1)
            (Or.inr ⟨rfl, hc', hsucc_none hk _ (by rfl) (by rfl) (by rfl) k hk, ?_⟩)
          intro u h
          rcases List.mem_cons.1 h with h | h
          · exact Or.inr h
          · exact Or.inl h

theorem start_facts (σ : St) (t : Nat) (op : Op) : SegFacts σ t op (start σ t op) := by
  cases op with
  | add v => exact facts_of_doAdd (pre := []) (doAdd_spec σ v) (fun _ h => by cases h) spawns_nil
  | badd v =>
    have hop : ∀ k, Op.badd v ≠ .next k := fun _ h => by cases h
    simp only [start]
    by_cases hc : σ.closed = true
    · simp only [hc, if_true]; exact facts_noop rfl rfl spawns_nil hop
    · rw [if_neg hc]
      by_cases hr : σ.tracker.hasRoom = true
      · simp only [hr, if_true]
        exact facts_of_doAdd (pre := []) (doAdd_spec σ v) hop spawns_nil
      · rw [if_neg hr]; exact facts_baddLoop σ t v false (spawns_one 1)
  | remove =>
    have hop : ∀ k, Op.remove ≠ .next k := fun _ h => by cases h
    simp only [start]
    by_cases hl : σ.tracker.len = 0
    · simp only [hl, beq_self_eq_true, if_true]; exact facts_noop rfl rfl spawns_nil hop
    · have : (σ.tracker.len == 0) = false := by simpa using hl
      simp only [this, Bool.false_eq_true, if_false]
      exact facts_of_pop (pre := []) (popFront_spec σ) hl hop spawns_nil
  | wait => exact facts_waitLoop σ t .wait rfl false (spawns_one 0)
  | recv =>
    have hop : ∀ k, Op.recv ≠ .next k := fun _ h => by cases h
    simp only [start]
    by_cases hl : σ.tracker.len = 0
    · simp only [hl, beq_self_eq_true, if_true]; exact facts_waitLoop σ t .recv rfl false (spawns_one 0)
    · have : (σ.tracker.len == 0) = false := by simpa using hl
      simp only [this, Bool.false_eq_true, if_false]
      exact facts_of_pop (pre := []) (popFront_spec σ) hl hop spawns_nil
  | len => exact facts_noop rfl rfl spawns_nil (fun _ h => by cases h)
  | close => exact facts_close σ t
  | next k => exact facts_next σ t k false

theorem resume_facts (σ : St) (t : Nat) (op : Op) (b : Bool) : SegFacts σ t op (resume σ t op b) := by
  cases op with
  | add v => exact facts_noop rfl rfl spawns_nil (fun _ h => by cases h)
  | badd v => exact facts_baddLoop σ t v b spawns_nil
  | remove => exact facts_noop rfl rfl spawns_nil (fun _ h => by cases h)
  | wait => exact facts_waitLoop σ t .wait rfl b spawns_nil
  | recv => exact facts_waitLoop σ t .recv rfl b spawns_nil
  | len => exact facts_noop rfl rfl spawns_nil (fun _ h => by cases h)
  | close => exact facts_noop rfl rfl spawns_nil (fun _ h => by cases h)
  | next k => exact facts_next σ t k b

theorem seg_facts {s : Sys St Op} {t : Nat} {a : Act} {th0 : Th Op} {op : Op} {o : SegOut St}
    (h : IsSeg subject s t a th0 op o) : SegFacts s.subj t op o := by
  cases h with
  | start _ _ _ => exact start_facts s.subj t op
  | resume _ _ _ => exact resume_facts s.subj t op th0.cancelled

theorem nextLoop_park {σ : St} {t k : Nat} {b : Bool} {c : Nat} (h : (nextLoop σ t k b).fin = .park c) :
    c = 1 ∧ b = false ∧ (σ.waited.contains t = false → (nextLoop σ t k b).sigs = [.spawn 1]) := by
  have hadj : (if (σ.cursor k != 0 && (σ.linkOf (σ.cursor k)).isNone && σ.cursor k != σ.back) = true then 0
      else σ.cursor k) = σ.adj (σ.cursor k) := rfl
  have hcl : (σ.setCursor k (σ.adj (σ.cursor k))).closed = σ.closed := rfl
  have hwt : (σ.setCursor k (σ.adj (σ.cursor k))).waited = σ.waited := rfl
  simp only [nextLoop, hadj] at h ⊢
  cases hs : σ.linkOf (σ.adj (σ.cursor k)) with
  | some n => simp only [hs] at h; cases h
  | none =>
    simp only [hs, hcl, hwt] at h ⊢
    by_cases hc : σ.closed = true
    · simp only [hc, if_true] at h; cases h
    · simp only [hc, Bool.false_eq_true, if_false] at h ⊢
      cases b with
      | true => simp only [if_true] at h; cases h
      | false =>
        simp only [Bool.false_eq_true, if_false] at h ⊢
        by_cases hw : σ.waited.contains t = true
        · simp only [hw, if_true] at h ⊢
          cases h; exact ⟨rfl, trivial, fun h => by cases h⟩
        · simp only [hw, Bool.false_eq_true, if_false] at h ⊢
          cases h; exact ⟨rfl, trivial, fun _ => trivial⟩

/-- a resumed segment with a done context never parks -/
theorem resume_cancelled_ret (σ : St) (t : Nat) (op : Op) (c : Nat) : (resume σ t op true).fin ≠ .park c := by
  cases op with
  | add v => intro h; cases h
  | remove => intro h; cases h
  | len => intro h; cases h
  | close => intro h; cases h
  | badd v =>
    simp only [resume, baddLoop]
    split
    · split
      · intro h; cases h
      · intro h; cases h
    · intro h; cases h
  | wait =>
    simp only [resume, waitLoop]
    split
    · split
      · intro h; cases h
      · intro h; cases h
    · intro h; cases h
  | recv =>
    simp only [resume, waitLoop]
    split
    · split
      · intro h; cases h
      · intro h; cases h
    · intro h; cases h
  | next k => intro h; have := (nextLoop_park (σ := σ) (t := t) (k := k) (b := true) h).2.1; cases this

/-- a started segment that parks has started its helper (the caller is not in `waited`) -/
theorem start_park_spawn {σ : St} {t : Nat} {op : Op} {c : Nat} (hw : t ∉ σ.waited)
    (h : (start σ t op).fin = .park c) : Sig.spawn c ∈ (start σ t op).sigs := by
  have hwait : ∀ (pre : List Sig) c, (waitLoop σ false pre).fin = .park c → c = 0 ∧ (waitLoop σ false pre).sigs = pre := by
    intro pre c h
    unfold waitLoop at h ⊢
    by_cases hl : (σ.tracker.len == 0) = true
    · rw [if_pos hl] at h ⊢
      by_cases hc : σ.closed = true
      · rw [if_pos hc] at h; cases h
      · rw [if_neg hc] at h ⊢
        simp only [Bool.false_eq_true, if_false] at h ⊢
        cases h; exact ⟨rfl, trivial⟩
    · rw [if_neg hl] at h; cases h
  have hbadd : ∀ v (pre : List Sig) c, (baddLoop σ v false pre).fin = .park c → c = 1 ∧ (baddLoop σ v false pre).sigs = pre := by
    intro v pre c h
    unfold baddLoop at h ⊢
    by_cases hl : (!σ.tracker.hasRoom) = true
    · rw [if_pos hl] at h ⊢
      by_cases hc : σ.closed = true
      · rw [if_pos hc] at h; cases h
      · rw [if_neg hc] at h ⊢
        simp only [Bool.false_eq_true, if_false] at h ⊢
        cases h; exact ⟨rfl, trivial⟩
    · rw [if_neg hl] at h; cases h
  cases op with
  | add v => cases h
  | len => cases h
  | close => cases h
  | remove => simp only [start] at h; split at h <;> cases h
  | wait =>
    obtain ⟨rfl, hs⟩ := hwait [.spawn 0] c h
    show Sig.spawn 0 ∈ (waitLoop σ false [.spawn 0]).sigs
    rw [hs]; simp
  | recv =>
    simp only [start] at h ⊢
    split at h
    · rename_i hl
      obtain ⟨rfl, hs⟩ := hwait [.spawn 0] c h
      rw [if_pos hl, hs]; simp
    · cases h
  | badd v =>
    simp only [start] at h ⊢
    split at h
    · cases h
    · split at h
      · cases h
      · rename_i h1 h2
        obtain ⟨rfl, hs⟩ := hbadd v [.spawn 1] c h
        rw [if_neg h1, if_neg h2, hs]; simp
  | next k =>
    have hw' : σ.waited.contains t = false := by simpa using hw
    obtain ⟨rfl, _, hs⟩ := nextLoop_park (σ := σ) (t := t) (k := k) (b := false) h
    show Sig.spawn 1 ∈ (nextLoop σ t k false).sigs
    rw [hs hw']; simp

theorem condOf_cases {op : Op} {c : Nat} (h : condOf op = some c) : c = 0 ∨ c = 1 := by
  cases op <;> simp [condOf] at h <;> omega

theorem condOf_badd {v : Int} {c : Nat} (h : condOf (.badd v) = some c) : c = 1 := by
  simp [condOf] at h; exact h.symm
theorem condOf_next {k c : Nat} (h : condOf (.next k) = some c) : c = 1 := by
  simp [condOf] at h; exact h.symm
theorem condOf_zero {op : Op} (h : condOf op = some 0) : op = .wait ∨ op = .recv := by
  cases op <;> simp [condOf] at h <;> simp

/-! ### the invariant -/

/-- admissible initial queue states: nobody has waited yet, the tracker agrees with the items -/
structure QInit (σ : St) : Prop where
  waited : σ.waited = []
  lenq : σ.tracker.len = σ.q.length

theorem qinit_unlimited : QInit mkUnlimited := ⟨rfl, rfl⟩
theorem qinit_soft (hard soft : Nat) (burst : Float) : QInit (mkSoft hard soft burst) := ⟨rfl, rfl⟩

structure Inv (s : Sys St Op) : Prop where
  wf : s.WF
  disc : HelperInv (fun _ => condOf) s
  lenq : s.subj.tracker.len = s.subj.q.length
  waited : ∀ u ∈ s.subj.waited, ∃ th, s.ths[u]? = some th ∧ (th.st = .parked 1 ∨ th.st = .woken) ∧
    ∃ k, th.ops[th.pc]? = some (.next k)
  closed : s.subj.closed = true → ∀ (u : Nat) (th : Th Op) (c : Nat), s.ths[u]? = some th → th.st ≠ .parked c
  nempty : s.subj.tracker.len ≠ 0 → ParkedOn s 0 → Wit (fun _ => condOf) s 0
  room : ∀ (u : Nat) (th : Th Op) (c : Nat) (v : Int), s.ths[u]? = some th → th.st = .parked c →
    th.ops[th.pc]? = some (.badd v) → s.subj.tracker.hasRoom = false
  succ : ∀ (u : Nat) (th : Th Op) (c k : Nat), s.ths[u]? = some th → th.st = .parked c →
    th.ops[th.pc]? = some (.next k) → s.subj.succ k = none

theorem inv_init {σ : St} (hq : QInit σ) (programs : List (List Op)) : Inv (initSys σ programs) := by
  have hnp : ∀ (u : Nat) (th : Th Op) (c : Nat), (initSys σ programs).ths[u]? = some th → th.st ≠ .parked c := by
    intro u th c hth hp
    have := ((initSys_wf σ programs).parked_iff u c).2 ⟨th, hth, hp⟩
    simp [initSys] at this
  refine ⟨initSys_wf _ _, initSys_helperInv _ _ _, hq.lenq, ?_, fun _ => hnp, ?_, ?_, ?_⟩
  · intro u hu; rw [show (initSys σ programs).subj.waited = σ.waited from rfl, hq.waited] at hu; cases hu
  · rintro _ ⟨u, th, hth, hp⟩; exact absurd hp (hnp u th 0 hth)
  · intro u th c v hth hp; exact absurd hp (hnp u th c hth)
  · intro u th c k hth hp; exact absurd hp (hnp u th c hth)

theorem parkOK {s : Sys St Op} (h : Inv s) {t : Nat} {a : Act} {th0 : Th Op} {op : Op} {o : SegOut St}
    (hseg : IsSeg subject s t a th0 op o) : ParkOK condOf condOf th0 op o := by
  intro c hc
  have f := seg_facts hseg
  cases hseg with
  | @start th _ hth hst hop =>
    refine ⟨rfl, f.park_cond c hc, f.norelease, Or.inl ?_⟩
    apply start_park_spawn _ hc
    intro hw
    obtain ⟨th', hth', hst', _⟩ := h.waited t hw
    rw [hth] at hth'; cases hth'
    rw [hst] at hst'; rcases hst' with h1 | h1 <;> cases h1
  | resume hth hst hop =>
    refine ⟨?_, f.park_cond c hc, f.norelease, Or.inr ⟨hst, f.park_cond c hc⟩⟩
    cases hcan : th0.cancelled with
    | false => rfl
    | true => rw [hcan] at hc; exact absurd hc (resume_cancelled_ret _ _ _ _)

theorem inv_step {s s' : Sys St Op} {a : Act} {obs : String} (h : Inv s) (hen : a ∈ enabled s true)
    (hs : step subject s a = some (s', obs)) : Inv s' := by
  have hwf' := step_wf h.wf hen hs
  have hdisc' : HelperInv (fun _ => condOf) s' :=
    h.disc.step h.wf hen hs (fun _ _ _ _ hseg => parkOK h hseg) (fun _ _ _ _ _ => stable_const _ _ _ _)
  have seg : ∀ t, (a = .start t ∨ a = .resume t) → Inv s' := by
    intro t ha
    obtain ⟨th0, op, o, hseg, r⟩ := step_seg h.wf hen hs ha
    have f := seg_facts hseg
    have pok := parkOK h hseg
    obtain ⟨tht, htht, hops, hpc, hst0, _, hop0, _, _⟩ := hseg.basic
    -- a parked thread other than `t` is parked on 0 or 1
    have hcond : ∀ (u : Nat) (th : Th Op) (c : Nat), s.ths[u]? = some th → th.st = .parked c → c = 0 ∨ c = 1 := by
      intro u th c hth hp
      obtain ⟨_, _, hc⟩ := (h.disc u th hth).op_of_parked c hp
      exact condOf_cases hc
    refine ⟨hwf', hdisc', by rw [r.subj]; exact f.lenq h.lenq, ?_, ?_, ?_, ?_, ?_⟩
    · -- waited
      intro u hu
      rw [r.subj] at hu
      by_cases hut : u = t
      · subst hut
        rcases f.w_self hu with ⟨hw, hnn⟩ | ⟨⟨k, hk⟩, hfin⟩
        · obtain ⟨th, hth, _, k, hk⟩ := h.waited u hw
          rw [htht] at hth; cases hth
          rw [← hops, ← hpc, hop0] at hk; cases hk
          exact absurd rfl (hnn k)
        · refine ⟨_, r.self, Or.inl (by rw [hfin]; rfl), k, ?_⟩
          rw [hfin, finTh_park, ← hk]; exact hop0
      · obtain ⟨th, hth, hst, k, hk⟩ := h.waited u (f.w_other u hut hu)
        obtain ⟨th', hth', w⟩ := r.other u th hut hth
        refine ⟨th', hth', ?_, k, by rw [w.ops, w.pc]; exact hk⟩
        rcases w.st with e | ⟨e, _⟩
        · rw [e]; exact hst
        · exact Or.inr e
    · -- closed
      intro hc u th' c hth' hp
      rw [r.subj] at hc
      by_cases hut : u = t
      · subst hut
        exact f.closed_park hc c (r.self_parked hth' hp).1
      · have hth := r.parked_inv hut hth' hp
        cases hcl : s.subj.closed with
        | true => exact h.closed hcl u th' c hth hp
        | false =>
          obtain ⟨hb0, hb1⟩ := f.closed_bcast hc hcl
          rcases hcond u th' c hth hp with rfl | rfl
          · exact r.bcast_none hb0 hut hth' hp
          · exact r.bcast_none hb1 hut hth' hp
    · -- nempty
      intro hlen hpk
      rw [r.subj] at hlen
      rcases r.parkedOn_inv hpk with ⟨u, th, hut, hth, hp, _⟩ | hfin
      · by_cases hl0 : s.subj.tracker.len = 0
        · exact Wit.of_signal h.disc r (stable_const _ _ _ _) (f.len_sig hlen hl0) ⟨u, th, hut, hth, hp⟩
        · have w := h.nempty hl0 ⟨u, th, hth, hp⟩
          rcases w.step h.wf hen hs (fun _ _ _ _ _ => stable_const _ _ _ _) with w' | hnp | ⟨t', th', op', c', ha', hth', hp', hop', hc'⟩
          · exact w'
          · exact absurd hpk hnp
          · -- the resumed waiter parked again: only possible on an empty queue
            have ht' : t' = t := by
              rcases ha with rfl | rfl
              · cases ha'
              · cases ha'; rfl
            subst ht'
            obtain ⟨hfin, hops', hpc', _⟩ := r.self_parked hth' hp'
            rw [hops', hpc', hop0] at hop'; cases hop'
            have := (pok c' hfin).2.1
            rw [hc'] at this; cases this
            exact absurd (f.park0 hfin) hlen
      · exact absurd (f.park0 hfin) hlen
    · -- room
      intro u th' c v hth' hp hop
      rw [r.subj]
      by_cases hut : u = t
      · subst hut
        obtain ⟨hfin, hops', hpc', _⟩ := r.self_parked hth' hp
        rw [hops', hpc', hop0] at hop; cases hop
        exact f.badd_park v rfl c hfin
      · have hth := r.parked_inv hut hth' hp
        rcases f.tracker with hb | he
        · obtain ⟨_, hop', hc⟩ := (h.disc u th' hth).op_of_parked c hp
          rw [hop] at hop'; cases hop'
          cases condOf_badd hc
          exact absurd hp (r.bcast_none hb hut hth')
        · rw [he]; exact h.room u th' c v hth hp hop
    · -- succ
      intro u th' c k hth' hp hop
      rw [r.subj]
      by_cases hut : u = t
      · subst hut
        obtain ⟨hfin, hops', hpc', _⟩ := r.self_parked hth' hp
        rw [hops', hpc', hop0] at hop; cases hop
        exact f.next_park k rfl c hfin
      · have hth := r.parked_inv hut hth' hp
        rcases f.succ with hb | he
        · obtain ⟨_, hop', hc⟩ := (h.disc u th' hth).op_of_parked c hp
          rw [hop] at hop'; cases hop'
          cases condOf_next hc
          exact absurd hp (r.bcast_none hb hut hth')
        · exact he k (h.succ u th' c k hth hp hop)
  have cf : ∀ t, (a = .cancel t ∨ a = .fire t) → Inv s' := by
    intro t ha
    obtain ⟨hsubj, hthr⟩ := cancel_fire_thread h.wf hen hs ha
    have hpk : ∀ {u : Nat} {th' : Th Op} {c : Nat}, s'.ths[u]? = some th' → th'.st = .parked c →
        ∃ th, s.ths[u]? = some th ∧ th.st = .parked c ∧ th.ops = th'.ops ∧ th.pc = th'.pc :=
      fun hth' hp => parked_of_cancel_fire h.wf hen hs ha hth' hp
    refine ⟨hwf', hdisc', by rw [hsubj]; exact h.lenq, ?_, ?_, ?_, ?_, ?_⟩
    · intro u hu
      rw [hsubj] at hu
      obtain ⟨th, hth, hst, k, hk⟩ := h.waited u hu
      obtain ⟨th', hth', hops, hpc, hst'⟩ := (hthr u).1 th hth
      refine ⟨th', hth', ?_, k, by rw [hops, hpc]; exact hk⟩
      rcases hst' with e | ⟨e, _⟩
      · rw [e]; exact hst
      · exact Or.inr e
    · intro hc u th' c hth' hp
      rw [hsubj] at hc
      obtain ⟨th, hth, hp0, _, _⟩ := hpk hth' hp
      exact h.closed hc u th c hth hp0
    · intro hlen hp
      rw [hsubj] at hlen
      have w := h.nempty hlen (parkedOn_of_cancel_fire h.wf hen hs ha hp)
      rcases w.step h.wf hen hs (fun _ _ _ _ _ => stable_const _ _ _ _) with w' | hnp | ⟨t', _, _, _, ha', _⟩
      · exact w'
      · exact absurd hp hnp
      · rcases ha with rfl | rfl <;> cases ha'
    · intro u th' c v hth' hp hop
      obtain ⟨th, hth, hp0, hops, hpc⟩ := hpk hth' hp
      rw [hsubj]; exact h.room u th c v hth hp0 (by rw [hops, hpc]; exact hop)
    · intro u th' c k hth' hp hop
      obtain ⟨th, hth, hp0, hops, hpc⟩ := hpk hth' hp
      rw [hsubj]; exact h.succ u th c k hth hp0 (by rw [hops, hpc]; exact hop)
  cases a with
  | start t => exact seg t (Or.inl rfl)
  | resume t => exact seg t (Or.inr rfl)
  | cancel t => exact cf t (Or.inl rfl)
  | fire t => exact cf t (Or.inr rfl)

theorem reach_inv {σ : St} (hq : QInit σ) {programs : List (List Op)} {s : Sys St Op}
    (hr : Reach subject (initSys σ programs) s) : Inv s :=
  hr.inv Inv (inv_init hq programs) (fun _ _ _ _ _ hi hen hs => inv_step hi hen hs)

/-! ### no stuck thread at quiescence -/

/-- in every reachable state a parked thread is inside one of the four blocking operations, on
    the matching condition; the queue is open; its helper is unfired, and pending if its context
    is cancelled -/
theorem parked_facts {σ : St} (hq : QInit σ) {programs : List (List Op)} {s : Sys St Op}
    (hr : Reach subject (initSys σ programs) s) {t : Nat} {th : Th Op} {c : Nat}
    (hth : s.ths[t]? = some th) (hp : th.st = .parked c) :
    s.subj.closed = false ∧ Live c th.helpers ∧ (th.cancelled = true → Pending c th.helpers) ∧
    ∃ op, th.ops[th.pc]? = some op ∧ condOf op = some c ∧
      (∀ v, op = .badd v → s.subj.tracker.hasRoom = false) ∧ (∀ k, op = .next k → s.subj.succ k = none) := by
  have hi := reach_inv hq hr
  have hd := hi.disc t th hth
  obtain ⟨op, hop, hc⟩ := hd.op_of_parked c hp
  refine ⟨?_, hd.live hp, hd.pending c hp, op, hop, hc, ?_, ?_⟩
  · cases hcl : s.subj.closed with
    | false => rfl
    | true => exact absurd hp (hi.closed hcl t th c hth)
  · intro v hv; subst hv; exact hi.room t th c v hth hp hop
  · intro k hk; subst hk; exact hi.succ t th c k hth hp hop

/-- C07 `no_stuck_queue`: at quiescence the context of a parked thread is live, and a thread parked
    on `nempty` sees an empty queue -/
theorem no_stuck {σ : St} (hq : QInit σ) {programs : List (List Op)} {s : Sys St Op}
    (hr : Reach subject (initSys σ programs) s) (q : Quiescent s) {t : Nat} {th : Th Op} {c : Nat}
    (hth : s.ths[t]? = some th) (hp : th.st = .parked c) :
    th.cancelled = false ∧ (c = 0 → s.subj.tracker.len = 0 ∧ s.subj.q = []) := by
  have hi := reach_inv hq hr
  refine ⟨hi.disc.not_cancelled q hth hp, ?_⟩
  intro hc; subst hc
  have hl : s.subj.tracker.len = 0 := by
    cases hl : s.subj.tracker.len with
    | zero => rfl
    | succ n => exact absurd q (hi.nempty (by rw [hl]; simp) ⟨t, th, hth, hp⟩).not_quiescent
  refine ⟨hl, ?_⟩
  have := hi.lenq; rw [hl] at this
  exact List.eq_nil_of_length_eq_zero this.symm

/-! ### an operation whose condition holds returns at once -/

/-- the condition a blocking operation waits for (`cancelled` = its context is done) -/
def Ready (σ : St) (op : Op) (cancelled : Bool) : Prop :=
  match op with
  | .wait => σ.tracker.len ≠ 0 ∨ σ.closed = true ∨ cancelled = true
  | .recv => σ.tracker.len ≠ 0 ∨ σ.closed = true ∨ cancelled = true
  | .badd _ => σ.tracker.hasRoom = true ∨ σ.closed = true ∨ cancelled = true
  | .next k => (σ.succ k).isSome = true ∨ σ.closed = true ∨ cancelled = true
  | _ => True

/-- how a segment ends: with a return iff the operation is ready, else with a park on its condition -/
def EndsRight (σ : St) (op : Op) (b : Bool) (o : SegOut St) : Prop :=
  (Ready σ op b → ∃ r, o.fin = .ret r) ∧ (¬ Ready σ op b → ∃ c, o.fin = .park c ∧ condOf op = some c ∧ o.st.tracker = σ.tracker)

theorem waitLoop_ends (σ : St) (op : Op) (hop : op = .wait ∨ op = .recv) (b : Bool) (pre : List Sig) :
    EndsRight σ op b (waitLoop σ b pre) := by
  have hr : Ready σ op b ↔ (σ.tracker.len ≠ 0 ∨ σ.closed = true ∨ b = true) := by
    rcases hop with rfl | rfl <;> rfl
  have hc0 : condOf op = some 0 := by rcases hop with rfl | rfl <;> rfl
  unfold EndsRight; rw [hr]
  unfold waitLoop
  by_cases hl : σ.tracker.len = 0
  · simp only [hl, beq_self_eq_true, if_true]
    by_cases hc : σ.closed = true
    · simp only [hc, if_true]; exact ⟨fun _ => ⟨_, rfl⟩, fun h => absurd (Or.inr (Or.inl trivial)) h⟩
    · rw [if_neg hc]
      cases b with
      | true => simp only [if_true]; exact ⟨fun _ => ⟨_, rfl⟩, fun h => absurd (Or.inr (Or.inr trivial)) h⟩
      | false =>
        simp only [Bool.false_eq_true, if_false]
        refine ⟨?_, fun _ => ⟨0, rfl, hc0, trivial⟩⟩
        rintro (h | h | h)
        · exact absurd rfl h
        · exact absurd h hc
        · cases h
  · have : (σ.tracker.len == 0) = false := by simpa using hl
    simp only [this, Bool.false_eq_true, if_false]
    exact ⟨fun _ => ⟨_, rfl⟩, fun h => absurd (Or.inl hl) h⟩

theorem baddLoop_ends (σ : St) (v : Int) (b : Bool) (pre : List Sig) :
    EndsRight σ (.badd v) b (baddLoop σ v b pre) := by
  unfold EndsRight
  show (σ.tracker.hasRoom = true ∨ σ.closed = true ∨ b = true → _) ∧ (¬ (σ.tracker.hasRoom = true ∨ σ.closed = true ∨ b = true) → _)
  unfold baddLoop
  by_cases hr : σ.tracker.hasRoom = true
  · simp only [hr, Bool.not_true, Bool.false_eq_true, if_false]
    exact ⟨fun _ => ⟨_, rfl⟩, fun h => absurd (Or.inl trivial) h⟩
  · have hr' : σ.tracker.hasRoom = false := by simpa using hr
    simp only [hr', Bool.not_false, if_true]
    by_cases hc : σ.closed = true
    · simp only [hc, if_true]; exact ⟨fun _ => ⟨_, rfl⟩, fun h => absurd (Or.inr (Or.inl trivial)) h⟩
    · rw [if_neg hc]
      cases b with
      | true => simp only [if_true]; exact ⟨fun _ => ⟨_, rfl⟩, fun h => absurd (Or.inr (Or.inr trivial)) h⟩
      | false =>
        simp only [Bool.false_eq_true, if_false]
        refine ⟨?_, fun _ => ⟨1, rfl, rfl, trivial⟩⟩
        rintro (h | h | h)
        · cases h
        · exact absurd h hc
        · cases h

theorem nextLoop_ends (σ : St) (t k : Nat) (b : Bool) : EndsRight σ (.next k) b (nextLoop σ t k b) := by
  have hadj : (if (σ.cursor k != 0 && (σ.linkOf (σ.cursor k)).isNone && σ.cursor k != σ.back) = true then 0
      else σ.cursor k) = σ.adj (σ.cursor k) := rfl
  have hcl : (σ.setCursor k (σ.adj (σ.cursor k))).closed = σ.closed := rfl
  have hwt : (σ.setCursor k (σ.adj (σ.cursor k))).waited = σ.waited := rfl
  unfold EndsRight
  show ((σ.succ k).isSome = true ∨ σ.closed = true ∨ b = true → _) ∧ (¬ ((σ.succ k).isSome = true ∨ σ.closed = true ∨ b = true) → _)
  simp only [nextLoop, hadj]
  cases hs : σ.linkOf (σ.adj (σ.cursor k)) with
  | some n =>
    have : (σ.succ k).isSome = true := by rw [St.succ, hs]; rfl
    exact ⟨fun _ => ⟨_, rfl⟩, fun h => absurd (Or.inl this) h⟩
  | none =>
    have hk : σ.succ k = none := hs
    simp only [hcl, hwt, hk]
    by_cases hc : σ.closed = true
    · simp only [hc, if_true]; exact ⟨fun _ => ⟨_, rfl⟩, fun h => absurd (Or.inr (Or.inl trivial)) h⟩
    · simp only [hc, Bool.false_eq_true, if_false]
      cases b with
      | true => simp only [if_true]; exact ⟨fun _ => ⟨_, rfl⟩, fun h => absurd (Or.inr (Or.inr trivial)) h⟩
      | false =>
        simp only [Bool.false_eq_true, if_false]
        refine ⟨?_, fun _ => ?_⟩
        · rintro (h | h | h) <;> simp at h
        · by_cases hw : σ.waited.contains t = true
          · simp only [hw, if_true]; exact ⟨1, rfl, rfl, rfl⟩
          · simp only [hw, Bool.false_eq_true, if_false]; exact ⟨1, rfl, rfl, rfl⟩

theorem start_ends (σ : St) (t : Nat) (op : Op) : EndsRight σ op false (start σ t op) := by
  have nonblock : ∀ {op : Op} {o : SegOut St} {r : String}, o.fin = .ret r → Ready σ op false →
      EndsRight σ op false o := fun hf hr => ⟨fun _ => ⟨_, hf⟩, fun h => absurd hr h⟩
  cases op with
  | add v => exact nonblock rfl trivial
  | len => exact nonblock rfl trivial
  | close => exact nonblock rfl trivial
  | remove =>
    simp only [start]
    split
    · exact nonblock rfl trivial
    · exact nonblock rfl trivial
  | wait => exact waitLoop_ends σ .wait (Or.inl rfl) false _
  | recv =>
    simp only [start]
    by_cases hl : σ.tracker.len = 0
    · simp only [hl, beq_self_eq_true, if_true]; exact waitLoop_ends σ .recv (Or.inr rfl) false _
    · have : (σ.tracker.len == 0) = false := by simpa using hl
      simp only [this, Bool.false_eq_true, if_false]
      exact nonblock rfl (Or.inl hl)
  | badd v =>
    simp only [start]
    by_cases hc : σ.closed = true
    · simp only [hc, if_true]; exact nonblock rfl (Or.inr (Or.inl hc))
    · rw [if_neg hc]
      by_cases hr : σ.tracker.hasRoom = true
      · simp only [hr, if_true]; exact nonblock rfl (Or.inl hr)
      · rw [if_neg hr]; exact baddLoop_ends σ v false _
  | next k => exact nextLoop_ends σ t k false

theorem resume_ends (σ : St) (t : Nat) (op : Op) (b : Bool) : EndsRight σ op b (resume σ t op b) := by
  have nonblock : ∀ {op : Op} {o : SegOut St} {r : String}, o.fin = .ret r → Ready σ op b →
      EndsRight σ op b o := fun hf hr => ⟨fun _ => ⟨_, hf⟩, fun h => absurd hr h⟩
  cases op with
  | add v => exact nonblock rfl trivial
  | len => exact nonblock rfl trivial
  | close => exact nonblock rfl trivial
  | remove => exact nonblock rfl trivial
  | wait => exact waitLoop_ends σ .wait (Or.inl rfl) b _
  | recv => exact waitLoop_ends σ .recv (Or.inr rfl) b _
  | badd v => exact baddLoop_ends σ v b _
  | next k => exact nextLoop_ends σ t k b

theorem seg_ends {s : Sys St Op} {t : Nat} {a : Act} {th0 : Th Op} {op : Op} {o : SegOut St}
    (h : IsSeg subject s t a th0 op o) : EndsRight s.subj op th0.cancelled o := by
  cases h with
  | start _ _ _ => exact start_ends s.subj t op
  | resume _ _ _ => exact resume_ends s.subj t op th0.cancelled

/-- C07 `wait_when_ready_returns` (and its converse), system level: a `start` / `resume` step of
    thread `t` inside `op` completes the operation (pc advances) if `op` is `Ready` when the thread
    takes the lock, and otherwise parks on the operation's condition -/
theorem ready_iff_returns {σ : St} (hq : QInit σ) {programs : List (List Op)} {s s' : Sys St Op} {a : Act}
    {obs : String} {t : Nat} {th th' : Th Op} {op : Op} (hr : Reach subject (initSys σ programs) s)
    (hen : a ∈ enabled s true) (hs : step subject s a = some (s', obs)) (ha : a = .start t ∨ a = .resume t)
    (hth : s.ths[t]? = some th) (hop : th.ops[th.pc]? = some op) (hth' : s'.ths[t]? = some th') :
    (Ready s.subj op (if a = .start t then false else th.cancelled) → th'.pc = th.pc + 1 ∧ ∀ c, th'.st ≠ .parked c) ∧
    (¬ Ready s.subj op (if a = .start t then false else th.cancelled) →
      ∃ c, th'.st = .parked c ∧ condOf op = some c ∧ th'.pc = th.pc) := by
  obtain ⟨th0, o, hseg, r, hpc, hres, hsta⟩ := seg_of_step (reach_inv hq hr).wf hen hs ha hth hop
  have hcan : (if a = .start t then false else th.cancelled) = th0.cancelled := by
    rcases ha with rfl | rfl
    · simp [hsta rfl]
    · simp [hres rfl]
  rw [hcan]
  obtain ⟨h1, h2⟩ := seg_ends hseg
  constructor
  · intro hrdy
    obtain ⟨rv, hf⟩ := h1 hrdy
    refine ⟨by rw [← hpc]; exact (r.returned_iff hth').1 ⟨rv, hf⟩, ?_⟩
    intro c hp
    have := (r.parked_iff hth' c).2 hp
    rw [hf] at this; cases this
  · intro hn
    obtain ⟨c, hf, hc, _⟩ := h2 hn
    refine ⟨c, (r.parked_iff hth' c).1 hf, hc, ?_⟩
    rw [r.self_eq hth', hf]; exact hpc

/-! ### closing -/

theorem closed_persists {s s2 : Sys St Op} (hwf : s.WF) (hr : Reach subject s s2) (hc : s.subj.closed = true) :
    s2.subj.closed = true := by
  refine (hr.inv_wf (fun x => x.subj.closed = true) hwf hc ?_)
  intro x a x' obs _ hxwf hx hen hs
  cases a with
  | start t =>
    obtain ⟨_, _, _, hseg, r⟩ := step_seg hxwf hen hs (Or.inl rfl)
    rw [r.subj]; exact (seg_facts hseg).closed_mono hx
  | resume t =>
    obtain ⟨_, _, _, hseg, r⟩ := step_seg hxwf hen hs (Or.inr rfl)
    rw [r.subj]; exact (seg_facts hseg).closed_mono hx
  | cancel t => rw [(cancel_fire_thread hxwf hen hs (Or.inl rfl)).1]; exact hx
  | fire t => rw [(cancel_fire_thread hxwf hen hs (Or.inr rfl)).1]; exact hx

/-- C20 `iter_eof_after_close`, segment level: on a closed queue a `next k` whose cursor has no
    unseen successor returns "eof" -/
theorem nextLoop_eof {σ : St} {t k : Nat} (b : Bool) (hc : σ.closed = true) (hs : σ.succ k = none) :
    (nextLoop σ t k b).fin = .ret "eof" := by
  have hadj : (if (σ.cursor k != 0 && (σ.linkOf (σ.cursor k)).isNone && σ.cursor k != σ.back) = true then 0
      else σ.cursor k) = σ.adj (σ.cursor k) := rfl
  have hcl : (σ.setCursor k (σ.adj (σ.cursor k))).closed = σ.closed := rfl
  have hs' : σ.linkOf (σ.adj (σ.cursor k)) = none := hs
  simp only [nextLoop, hadj, hs', hcl, hc, if_true]

theorem eof_after_close {σ : St} (hq : QInit σ) {programs : List (List Op)} {s s' : Sys St Op} {a : Act}
    {obs : String} {t k : Nat} {th th' : Th Op} (hr : Reach subject (initSys σ programs) s)
    (hen : a ∈ enabled s true) (hs : step subject s a = some (s', obs)) (ha : a = .start t ∨ a = .resume t)
    (hth : s.ths[t]? = some th) (hop : th.ops[th.pc]? = some (.next k))
    (hc : s.subj.closed = true) (hsucc : s.subj.succ k = none) (hth' : s'.ths[t]? = some th') :
    (∃ th0 o, IsSeg subject s t a th0 (.next k) o ∧ o.fin = .ret "eof") ∧
      th'.pc = th.pc + 1 ∧ (∀ c, th'.st ≠ .parked c) := by
  obtain ⟨th0, o, hseg, r, hpc, _, _⟩ := seg_of_step (reach_inv hq hr).wf hen hs ha hth hop
  have hf : o.fin = .ret "eof" := by
    cases hseg with
    | start _ _ _ => exact nextLoop_eof false hc hsucc
    | resume _ _ _ => exact nextLoop_eof _ hc hsucc
  refine ⟨⟨th0, o, hseg, hf⟩, by rw [← hpc]; exact (r.returned_iff hth').1 ⟨_, hf⟩, ?_⟩
  intro c hp
  have := (r.parked_iff hth' c).2 hp
  rw [hf] at this; cases this

end FunModel.Queue
