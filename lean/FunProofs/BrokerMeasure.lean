import FunProofs.BrokerLive

/-! C09: a measure of what is left to do that every internal action strictly decreases. -/
namespace FunProofs.Broker
open FunModel.Broker

/-! ### sums over vectors -/

theorem sum_map_eraseIdx {α : Type} (f : α → Nat) : ∀ (l : List α) (i : Nat) (y : α), l[i]? = some y →
    ((l.eraseIdx i).map f).sum + f y = (l.map f).sum := by
  intro l
  induction l with
  | nil => intro i y h; simp at h
  | cons a rest ih =>
    intro i y h
    cases i with
    | zero =>
      simp only [List.getElem?_cons_zero, Option.some.injEq] at h
      subst h
      simp only [List.eraseIdx_cons_zero, List.map_cons, List.sum_cons]; omega
    | succ j =>
      simp only [List.getElem?_cons_succ] at h
      have := ih j y h
      simp only [List.eraseIdx_cons_succ, List.map_cons, List.sum_cons]; omega

theorem sum_map_set {α : Type} (f : α → Nat) : ∀ (l : List α) (i : Nat) (y x : α), l[i]? = some y →
    ((l.set i x).map f).sum + f y = (l.map f).sum + f x := by
  intro l
  induction l with
  | nil => intro i y x h; simp at h
  | cons a rest ih =>
    intro i y x h
    cases i with
    | zero =>
      simp only [List.getElem?_cons_zero, Option.some.injEq] at h
      subst h
      simp only [List.set_cons_zero, List.map_cons, List.sum_cons]; omega
    | succ j =>
      simp only [List.getElem?_cons_succ] at h
      have := ih j y x h
      simp only [List.set_cons_succ, List.map_cons, List.sum_cons]; omega

theorem sum_map_le {α : Type} (f g : α → Nat) : ∀ (l : List α), (∀ x ∈ l, f x ≤ g x) →
    (l.map f).sum ≤ (l.map g).sum := by
  intro l
  induction l with
  | nil => intro _; simp
  | cons a rest ih =>
    intro h
    have h1 := h a List.mem_cons_self
    have h2 := ih (fun x hx => h x (List.mem_cons_of_mem _ hx))
    simp only [List.map_cons, List.sum_cons]; omega

/-- total length of the subscription channels' buffers -/
def chanSum (f : Nat → List Msg) (n : Nat) : Nat := ((List.range n).map (fun x => (f x).length)).sum

theorem sum_range_upd (f : Nat → List Msg) (k : Nat) (v : List Msg) : ∀ n, k < n →
    chanSum (upd f k v) n + (f k).length = chanSum f n + v.length := by
  intro n
  simp only [chanSum]
  induction n with
  | zero => intro h; omega
  | succ n ih =>
    intro h
    simp only [List.range_succ, List.map_append, List.sum_append, List.map_cons, List.map_nil, List.sum_cons,
      List.sum_nil, Nat.add_zero]
    by_cases hk : k = n
    · subst hk
      have : ((List.range k).map (fun x => (upd f k v x).length)) = ((List.range k).map (fun x => (f x).length)) := by
        apply List.map_congr_left
        intro x hx
        have : x ≠ k := by simp only [List.mem_range] at hx; omega
        simp [upd_apply, this]
      rw [this]; simp; omega
    · have hlt : k < n := by omega
      have := ih hlt
      have hn : upd f k v n = f n := by simp [upd_apply, Ne.symm hk]
      rw [hn]; omega

/-! ### the measure -/

def subWeight (cl : Call) : Nat :=
  match cl.kind with
  | .sub _ => 1
  | _ => 0

/-- pending Subscribe calls -/
def subCalls (calls : List Call) : Nat := (calls.map subWeight).sum

/-- how many subscribers a message may still have to be sent to: `P` for a message whose range
    has not started, `U visited` for a range in progress -/
structure Pot where
  P : Nat
  U : List Sub → Nat

def potOf (s : St) : Pot :=
  { P := s.subs.length + s.subQ.length + subCalls s.calls
    U := fun v => (s.subs.filter (fun k => !v.contains k)).length + s.subQ.length + subCalls s.calls }

def Pot.le (a b : Pot) : Prop := a.P ≤ b.P ∧ ∀ v, a.U v ≤ b.U v

/-- cost of a message in the distributor: Receive, start of the range, 3 per subscriber, end -/
def bcost (p : Pot) : Nat := 4 + 3 * p.P

def loopCost (p : Pot) : Loop → Nat
  | .select => 1
  | .sending _ => 2 + bcost p
  | .exited => 0

def workerCost (p : Pot) : Worker → Nat
  | .idle => 1
  | .got _ => 3 + 3 * p.P
  | .iter _ _ v => 2 + 3 * p.U v
  | .exited => 0

def callCost (p : Pot) (cl : Call) : Nat :=
  match cl.kind with
  | .pub _ => 3 + bcost p
  | .sub _ => 2
  | .unsub _ => 2
  | .stats => 1
  | .wait => 1

def chanCost (s : St) : Nat := chanSum s.chan s.nextSub

def muWith (p : Pot) (s : St) : Nat :=
  loopCost p s.loop + (s.ws.map (workerCost p)).sum + 2 * s.sends.length + chanCost s + s.buf.length * bcost p
    + (s.calls.map (callCost p)).sum + s.subQ.length + s.unsubQ.length

/-- what is left to do -/
def mu (s : St) : Nat := muWith (potOf s) s

theorem muWith_mono {p p' : Pot} (h : Pot.le p' p) (s : St) : muWith p' s ≤ muWith p s := by
  obtain ⟨hP, hU⟩ := h
  have hb : bcost p' ≤ bcost p := by simp only [bcost]; omega
  have h1 : loopCost p' s.loop ≤ loopCost p s.loop := by
    cases s.loop <;> simp only [loopCost] <;> omega
  have h2 : (s.ws.map (workerCost p')).sum ≤ (s.ws.map (workerCost p)).sum := by
    apply sum_map_le
    intro w _
    cases w with
    | idle => exact Nat.le_refl _
    | exited => exact Nat.le_refl _
    | got m => simp only [workerCost]; omega
    | iter m st v => have := hU v; simp only [workerCost]; omega
  have h3 : (s.calls.map (callCost p')).sum ≤ (s.calls.map (callCost p)).sum := by
    apply sum_map_le
    intro cl _
    simp only [callCost]
    split <;> omega
  have h4 : s.buf.length * bcost p' ≤ s.buf.length * bcost p := Nat.mul_le_mul_left _ hb
  simp only [muWith]; omega

theorem length_insertSub_le (k : Sub) (l : List Sub) : (insertSub k l).length ≤ l.length + 1 := by
  simp only [insertSub]; split <;> simp

theorem length_filter_insertSub_le (q : Sub → Bool) (k : Sub) (l : List Sub) :
    ((insertSub k l).filter q).length ≤ (l.filter q).length + 1 := by
  simp only [insertSub]; split
  · omega
  · simp only [List.filter_append, List.length_append]
    have : ([k].filter q).length ≤ 1 := by
      have := List.length_filter_le q [k]; simpa using this
    omega

theorem length_filter_erase_le (q : Sub → Bool) (k : Sub) (l : List Sub) :
    ((l.erase k).filter q).length ≤ (l.filter q).length :=
  ((List.erase_sublist (a := k) (l := l)).filter q).length_le

theorem length_erase_le' (k : Sub) (l : List Sub) : (l.erase k).length ≤ l.length :=
  (List.erase_sublist (a := k) (l := l)).length_le

theorem filter_length_mono {α : Type} (p q : α → Bool) (h : ∀ x, p x = true → q x = true) :
    ∀ l : List α, (l.filter p).length ≤ (l.filter q).length := by
  intro l
  induction l with
  | nil => simp
  | cons a rest ih =>
    simp only [List.filter_cons]
    cases hp : p a with
    | true => simp [h a hp]; exact ih
    | false =>
      simp only [Bool.false_eq_true, if_false]
      split
      · simp only [List.length_cons]; omega
      · exact ih

/-- yielding a key that is in the map and was not yet visited uses up potential -/
theorem unvisited_lt {l v : List Sub} {k : Sub} (hk : k ∈ l) (hv : k ∉ v) :
    (l.filter (fun x => !(k :: v).contains x)).length + 1 ≤ (l.filter (fun x => !v.contains x)).length := by
  induction l with
  | nil => cases hk
  | cons a rest ih =>
    have hle : (rest.filter (fun x => !(k :: v).contains x)).length ≤ (rest.filter (fun x => !v.contains x)).length := by
      apply filter_length_mono
      intro x hx
      simp only [List.contains_cons, Bool.not_or, Bool.and_eq_true, Bool.not_eq_true'] at hx
      have := hx.2
      simp only [Bool.not_eq_true']
      exact this
    by_cases ha : a = k
    · subst ha
      have h1 : (!(a :: v).contains a) = false := by simp
      have h2 : (!v.contains a) = true := by simp [hv]
      simp only [List.filter_cons, h1, h2, if_true, List.length_cons]
      simp only [Bool.false_eq_true, if_false]
      omega
    · have hk' : k ∈ rest := by
        rcases List.mem_cons.mp hk with h | h
        · exact absurd h.symm ha
        · exact h
      have := ih hk'
      have hc : (!(k :: v).contains a) = (!v.contains a) := by
        simp [ha]
      simp only [List.filter_cons, hc]
      split
      · simp only [List.length_cons]; omega
      · omega

theorem subCalls_erase {calls : List Call} {i : Nat} {cl : Call} (h : calls[i]? = some cl) :
    subCalls (calls.eraseIdx i) + subWeight cl = subCalls calls :=
  sum_map_eraseIdx subWeight calls i cl h

theorem Pot.le_refl (p : Pot) : Pot.le p p := ⟨Nat.le_refl _, fun _ => Nat.le_refl _⟩

/-- internal actions never add potential subscribers -/
theorem pot_le_step {c : Cfg} {s s' : St} {a : Act} (h : Step c s a s') (hi : a.internal = true) :
    Pot.le (potOf s') (potOf s) := by
  cases h <;> simp only [Act.internal] at hi <;> try (cases hi; done)
  case enqSub i k x hc hq =>
    have := subCalls_erase hc
    simp only [subWeight] at this
    refine ⟨?_, fun v => ?_⟩ <;> simp only [potOf, List.length_append, List.length_singleton] <;> omega
  case enqUnsub i k x hc hq =>
    have := subCalls_erase hc
    simp only [subWeight] at this
    refine ⟨?_, fun v => ?_⟩ <;> simp only [potOf] <;> omega
  case callAbort i cl hc hx =>
    have := subCalls_erase hc
    refine ⟨?_, fun v => ?_⟩ <;> simp only [potOf] <;> omega
  case waitRet i x hc hl hw =>
    have := subCalls_erase hc
    simp only [subWeight] at this
    refine ⟨?_, fun v => ?_⟩ <;> simp only [potOf] <;> omega
  case loopSubQ k rest hl hq =>
    refine ⟨?_, fun v => ?_⟩
    · have := length_insertSub_le k s.subs
      simp only [potOf, hq, List.length_cons]; omega
    · have := length_filter_insertSub_le (fun x => !v.contains x) k s.subs
      simp only [potOf, hq, List.length_cons]; omega
  case loopSub i k x hl hc =>
    have h1 := subCalls_erase hc
    simp only [subWeight] at h1
    refine ⟨?_, fun v => ?_⟩
    · have := length_insertSub_le k s.subs
      simp only [potOf]; omega
    · have := length_filter_insertSub_le (fun x => !v.contains x) k s.subs
      simp only [potOf]; omega
  case loopUnsubQ k rest hl hq =>
    refine ⟨?_, fun v => ?_⟩
    · have := length_erase_le' k s.subs
      simp only [potOf]; omega
    · have := length_filter_erase_le (fun x => !v.contains x) k s.subs
      simp only [potOf]; omega
  case loopUnsub i k x hl hc =>
    have h1 := subCalls_erase hc
    simp only [subWeight] at h1
    refine ⟨?_, fun v => ?_⟩
    · have := length_erase_le' k s.subs
      simp only [potOf]; omega
    · have := length_filter_erase_le (fun x => !v.contains x) k s.subs
      simp only [potOf]; omega
  case loopStats i x hl hc =>
    have := subCalls_erase hc
    simp only [subWeight] at this
    refine ⟨?_, fun v => ?_⟩ <;> simp only [potOf] <;> omega
  case loopTake i m x hl hc =>
    have := subCalls_erase hc
    simp only [subWeight] at this
    refine ⟨?_, fun v => ?_⟩ <;> simp only [potOf] <;> omega
  all_goals exact Pot.le_refl _

theorem callCost_pos (p : Pot) (cl : Call) : 0 < callCost p cl := by
  simp only [callCost]; split <;> omega

theorem sendTo_length {b : Backend} {buf : List Msg} {m : Msg} {accept : Bool} {buf' dropped : List Msg}
    (h : sendTo b buf m accept = some (buf', dropped)) : buf'.length ≤ buf.length + 1 := by
  cases b with
  | fifo =>
    simp only [sendTo] at h
    split at h
    · cases h; simp
    · cases h
  | blocking cap =>
    simp only [sendTo] at h
    split at h
    · cases h; simp
    · cases h
  | shedding hard =>
    simp only [sendTo] at h
    split at h
    · split at h
      · cases h; simp
      · cases h
    · split at h
      · cases h
      · cases h; omega
  | evicting cap =>
    simp only [sendTo] at h
    split at h
    · cases h
    · split at h
      · cases h; simp
      · split at h
        · cases h; simp
        · cases h; simp

/-- with the potential of the state before the step held fixed, every internal action lowers the
    weighted count -/
theorem muWith_lt_step {c : Cfg} {s s' : St} {a : Act} (hw : WF c s) (h : Step c s a s') (hi : a.internal = true) :
    muWith (potOf s) s' < muWith (potOf s) s := by
  have hU0 : (potOf s).U [] = (potOf s).P := by simp [potOf]
  cases h <;> simp only [Act.internal] at hi <;> try (cases hi; done)
  case enqSub i k x hc hq =>
    have := sum_map_eraseIdx (callCost (potOf s)) s.calls i _ hc
    simp only [callCost] at this
    simp only [muWith, chanCost, List.length_append, List.length_singleton]; omega
  case enqUnsub i k x hc hq =>
    have := sum_map_eraseIdx (callCost (potOf s)) s.calls i _ hc
    simp only [callCost] at this
    simp only [muWith, chanCost, List.length_append, List.length_singleton]; omega
  case callAbort i cl hc hx =>
    have := sum_map_eraseIdx (callCost (potOf s)) s.calls i _ hc
    have := callCost_pos (potOf s) cl
    simp only [muWith, chanCost]; omega
  case waitRet i x hc hl hw' =>
    have := sum_map_eraseIdx (callCost (potOf s)) s.calls i _ hc
    simp only [callCost] at this
    simp only [muWith, chanCost]; omega
  case loopSubQ k rest hl hq =>
    simp only [muWith, chanCost, hq, List.length_cons]; omega
  case loopSub i k x hl hc =>
    have := sum_map_eraseIdx (callCost (potOf s)) s.calls i _ hc
    simp only [callCost] at this
    simp only [muWith, chanCost]; omega
  case loopUnsubQ k rest hl hq =>
    simp only [muWith, chanCost, hq, List.length_cons]; omega
  case loopUnsub i k x hl hc =>
    have := sum_map_eraseIdx (callCost (potOf s)) s.calls i _ hc
    simp only [callCost] at this
    simp only [muWith, chanCost]; omega
  case loopStats i x hl hc =>
    have := sum_map_eraseIdx (callCost (potOf s)) s.calls i _ hc
    simp only [callCost] at this
    simp only [muWith, chanCost]; omega
  case loopTake i m x hl hc =>
    have := sum_map_eraseIdx (callCost (potOf s)) s.calls i _ hc
    simp only [callCost] at this
    simp only [muWith, chanCost, hl, loopCost]; omega
  case loopSend accept m buf' dropped hl hs =>
    have h1 := sendTo_length hs
    have h2 : buf'.length * bcost (potOf s) ≤ (s.buf.length + 1) * bcost (potOf s) := Nat.mul_le_mul_right _ h1
    rw [Nat.add_mul, Nat.one_mul] at h2
    simp only [muWith, chanCost, hl, loopCost]; omega
  case loopSendAbort m hl hd =>
    simp only [muWith, chanCost, hl, loopCost]; omega
  case loopExit hl hd =>
    simp only [muWith, chanCost, hl, loopCost]; omega
  case wRecvBuf w m rest hw' hb =>
    have := sum_map_set (workerCost (potOf s)) s.ws w _ (Worker.got m) hw'
    simp only [workerCost] at this
    have h2 : (rest.length + 1) * bcost (potOf s) = rest.length * bcost (potOf s) + bcost (potOf s) := by
      rw [Nat.add_mul, Nat.one_mul]
    have hB : bcost (potOf s) = 4 + 3 * (potOf s).P := rfl
    simp only [muWith, chanCost, hb, List.length_cons, h2]; omega
  case wRecvDirect w m cap hw' hb hl hc =>
    have := sum_map_set (workerCost (potOf s)) s.ws w _ (Worker.got m) hw'
    simp only [workerCost] at this
    simp only [muWith, chanCost, hl, loopCost, bcost]; omega
  case wStart w m hw' =>
    have := sum_map_set (workerCost (potOf s)) s.ws w _ (Worker.iter m s.subs []) hw'
    simp only [workerCost, hU0] at this
    simp only [muWith, chanCost]; omega
  case wNext w k m start visited hw' hk hv hp =>
    have := sum_map_set (workerCost (potOf s)) s.ws w _ (Worker.iter m start (k :: visited)) hw'
    simp only [workerCost] at this
    have hlt : (potOf s).U (k :: visited) + 1 ≤ (potOf s).U visited := by
      have := unvisited_lt hk hv
      simp only [potOf]; omega
    simp only [muWith, chanCost, List.length_append, List.length_singleton]; omega
  case wDone w m start visited hw' hr hp =>
    have := sum_map_set (workerCost (potOf s)) s.ws w _ Worker.idle hw'
    simp only [workerCost] at this
    simp only [muWith, chanCost]; omega
  case wAbandonGot w m hd hw' =>
    have := sum_map_set (workerCost (potOf s)) s.ws w _ Worker.idle hw'
    simp only [workerCost] at this
    simp only [muWith, chanCost]; omega
  case wAbandonIter w m start visited hd hw' =>
    have := sum_map_set (workerCost (potOf s)) s.ws w _ Worker.idle hw'
    simp only [workerCost] at this
    simp only [muWith, chanCost]; omega
  case wExit w hd hw' =>
    have := sum_map_set (workerCost (potOf s)) s.ws w _ Worker.exited hw'
    simp only [workerCost] at this
    simp only [muWith, chanCost]; omega
  case deliver k m hs hb =>
    have hk : k < s.nextSub := hw.sendsLt _ hs
    have h1 := sum_range_upd s.chan k (s.chan k ++ [m]) s.nextSub hk
    have h2 : (s.sends.erase (k, m)).length = s.sends.length - 1 := List.length_erase_of_mem hs
    have h3 : 0 < s.sends.length := List.length_pos_of_mem hs
    simp only [muWith, chanCost, List.length_append, List.length_singleton] at h1 ⊢; omega
  case handoff k m hs hb ho =>
    have h2 : (s.sends.erase (k, m)).length = s.sends.length - 1 := List.length_erase_of_mem hs
    have h3 : 0 < s.sends.length := List.length_pos_of_mem hs
    simp only [muWith, chanCost]; omega
  case sendAbort k m hs hd =>
    have h2 : (s.sends.erase (k, m)).length = s.sends.length - 1 := List.length_erase_of_mem hs
    have h3 : 0 < s.sends.length := List.length_pos_of_mem hs
    simp only [muWith, chanCost]; omega
  case recv k m rest hb ho =>
    have hk : k < s.nextSub := hw.chanLt k (by rw [hb]; simp)
    have h1 := sum_range_upd s.chan k rest s.nextSub hk
    simp only [muWith, chanCost, hb, List.length_cons] at h1 ⊢; omega

/-- every internal action strictly decreases the measure -/
theorem mu_decreases {c : Cfg} {s s' : St} {a : Act} (hw : WF c s) (h : Step c s a s') (hi : a.internal = true) :
    mu s' < mu s :=
  Nat.lt_of_le_of_lt (muWith_mono (pot_le_step h hi) s') (muWith_lt_step hw h hi)

/-- a run of internal actions from a reachable state is no longer than the measure allows -/
theorem run_bounded {c : Cfg} {s s' : St} {acts : List Act} (h : Reachable c s)
    (hall : ∀ a ∈ acts, a.internal = true) (hr : run c s acts = some s') : acts.length + mu s' ≤ mu s := by
  induction acts generalizing s with
  | nil =>
    simp only [run, List.foldlM_nil] at hr
    cases hr; simp
  | cons a rest ih =>
    simp only [run, List.foldlM_cons] at hr
    cases h1 : step c s a with
    | none => simp [h1] at hr
    | some s1 =>
      simp only [h1, Option.bind_eq_bind, Option.bind_some] at hr
      have hlt := mu_decreases (wf_reachable h) (step_sound h1) (hall a List.mem_cons_self)
      have := ih (reachable_step h h1) (fun b hb => hall b (List.mem_cons_of_mem _ hb)) hr
      simp only [List.length_cons]; omega

end FunProofs.Broker
