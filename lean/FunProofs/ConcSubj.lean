import FunModel.Conc

/-! Generic facts about the small-step machine `FunModel/Conc.lean` seen from the *subject*:

    * `Reach'` — reachability over **enabled** actions, carrying the log of events (`Ev`): for every
      `start`/`resume` action the segment that ran (thread, program counter, operation, whether it is the
      operation's first segment, the context flag it saw, subject state before, `SegOut`);
    * the subject state changes only through `sub.start` / `sub.resume` of the acting thread;
      `cancel`, `fire` and everything the runtime does with signals leave it unchanged;
    * per-thread bookkeeping: programs never change, `pc` counts the returned operations, a thread is
      parked/woken only inside an operation whose first segment is in the log and whose last segment
      parked; `cancelled` is set only by a `cancel` action after the operation's start;
    * `runCase` (what the driver executes) only visits `Reach'`-able systems. -/
namespace FunModel.ConcSubj
open FunModel.Conc
variable {σ Op : Type}

/-- the initial system of `runCase` -/
def initSys (init : σ) (programs : List (List Op)) : Sys σ Op :=
  { subj := init, ths := programs.map (fun p => { ops := p, st := if p.isEmpty then .done else .idle }) }

/-- what happened in one action, as far as the subject is concerned -/
inductive Ev (σ Op : Type) where
  | seg (t pc : Nat) (op : Op) (first : Bool) (cancelled : Bool) (pre : σ) (out : SegOut σ)
  | env (a : Act)

/-- the event of action `a` in system `s` -/
def evOf (sub : Subject σ Op) (s : Sys σ Op) : Act → Ev σ Op
  | .start t =>
    match s.ths[t]? with
    | some th =>
      match th.ops[th.pc]? with
      | some op => .seg t th.pc op true false s.subj (sub.start s.subj t op)
      | none => .env (.start t)
    | none => .env (.start t)
  | .resume t =>
    match s.ths[t]? with
    | some th =>
      match th.ops[th.pc]? with
      | some op => .seg t th.pc op false th.cancelled s.subj (sub.resume s.subj t op th.cancelled)
      | none => .env (.resume t)
    | none => .env (.resume t)
  | .cancel t => .env (.cancel t)
  | .fire t => .env (.fire t)

/-- reachability by enabled actions, with the event log -/
inductive Reach' (sub : Subject σ Op) (s0 : Sys σ Op) : List (Ev σ Op) → Sys σ Op → Prop where
  | init : Reach' sub s0 [] s0
  | step {log s a s' obs} : Reach' sub s0 log s → a ∈ enabled s true → step sub s a = some (s', obs) →
      Reach' sub s0 (log ++ [evOf sub s a]) s'

/-! ### enabledness -/

theorem mem_enabled_start {s : Sys σ Op} {b : Bool} {t : Nat} (h : Act.start t ∈ enabled s b) :
    ∃ th, s.ths[t]? = some th ∧ th.st = .idle ∧ th.pc < th.ops.length := by
  simp only [enabled, List.mem_append, List.mem_map, List.mem_filter] at h
  rcases h with ((⟨i, ⟨_, hi⟩, he⟩ | ⟨i, _, he⟩) | hc) | ⟨i, _, he⟩
  · cases he
    cases hth : s.ths[t]? with
    | none => simp [hth] at hi
    | some th =>
      simp only [hth, Bool.and_eq_true, beq_iff_eq, decide_eq_true_eq] at hi
      exact ⟨th, rfl, hi.1, hi.2⟩
  · cases he
  · split at hc
    · simp only [List.mem_map] at hc
      obtain ⟨i, _, he⟩ := hc
      cases he
    · cases hc
  · cases he

theorem mem_enabled_resume {s : Sys σ Op} {b : Bool} {t : Nat} (h : Act.resume t ∈ enabled s b) :
    ∃ th, s.ths[t]? = some th ∧ th.st = .woken := by
  simp only [enabled, List.mem_append, List.mem_map, List.mem_filter] at h
  rcases h with ((⟨i, _, he⟩ | ⟨i, ⟨_, hi⟩, he⟩) | hc) | ⟨i, _, he⟩
  · cases he
  · cases he
    cases hth : s.ths[t]? with
    | none => simp [hth] at hi
    | some th =>
      simp only [hth, beq_iff_eq] at hi
      exact ⟨th, rfl, hi⟩
  · split at hc
    · simp only [List.mem_map] at hc
      obtain ⟨i, _, he⟩ := hc
      cases he
    · cases hc
  · cases he

theorem mem_enabled_cancel {s : Sys σ Op} {b : Bool} {t : Nat} (h : Act.cancel t ∈ enabled s b) :
    ∃ th, s.ths[t]? = some th ∧ (th.st = .woken ∨ ∃ c, th.st = .parked c) ∧ th.cancelled = false := by
  simp only [enabled, List.mem_append, List.mem_map, List.mem_filter] at h
  rcases h with ((⟨i, _, he⟩ | ⟨i, _, he⟩) | hc) | ⟨i, _, he⟩
  · cases he
  · cases he
  · split at hc
    · simp only [List.mem_map, List.mem_filter] at hc
      obtain ⟨i, ⟨_, hi⟩, he⟩ := hc
      cases he
      cases hth : s.ths[t]? with
      | none => simp [hth] at hi
      | some th =>
        simp only [hth, Bool.and_eq_true, Bool.or_eq_true, beq_iff_eq, Bool.not_eq_true'] at hi
        refine ⟨th, rfl, ?_, hi.2⟩
        rcases hi.1 with h1 | h1
        · exact Or.inl h1
        · cases hst : th.st with
          | parked c => exact Or.inr ⟨c, rfl⟩
          | idle => simp [hst] at h1
          | woken => exact Or.inl rfl
          | done => simp [hst] at h1
    · cases hc
  · cases he


/-! ### the runtime leaves the subject and the thread bookkeeping alone -/

@[simp] theorem modTh_subj (s : Sys σ Op) (i : Nat) (f : Th Op → Th Op) : (modTh s i f).subj = s.subj := rfl
@[simp] theorem modTh_parked (s : Sys σ Op) (i : Nat) (f : Th Op → Th Op) : (modTh s i f).parked = s.parked := rfl
@[simp] theorem modTh_length (s : Sys σ Op) (i : Nat) (f : Th Op → Th Op) :
    (modTh s i f).ths.length = s.ths.length := by simp [modTh]
theorem modTh_get_eq (s : Sys σ Op) (i : Nat) (f : Th Op → Th Op) :
    (modTh s i f).ths[i]? = (s.ths[i]?).map f := by simp [modTh, List.getElem?_modify_eq]
theorem modTh_get_ne (s : Sys σ Op) {i j : Nat} (f : Th Op → Th Op) (h : i ≠ j) :
    (modTh s i f).ths[j]? = s.ths[j]? := by simp [modTh, List.getElem?_modify_ne _ _ h]

/-- `a` differs from `s` only by wake-ups of threads that are in a condition queue of `s` and by
    helper bookkeeping -/
structure Quiet (s a : Sys σ Op) : Prop where
  subj : a.subj = s.subj
  len : a.ths.length = s.ths.length
  th : ∀ i th, s.ths[i]? = some th → ∃ th', a.ths[i]? = some th' ∧ th'.ops = th.ops ∧ th'.pc = th.pc ∧
        th'.cancelled = th.cancelled ∧ (th'.st = th.st ∨ (th'.st = .woken ∧ ∃ c, (i, c) ∈ s.parked))
  parked : ∀ p ∈ a.parked, p ∈ s.parked ∧
        ∀ th th', s.ths[p.1]? = some th → a.ths[p.1]? = some th' → th'.st = th.st

theorem Quiet.refl (s : Sys σ Op) : Quiet s s :=
  ⟨rfl, rfl, fun _ th h => ⟨th, h, rfl, rfl, rfl, Or.inl rfl⟩,
   fun _ hp => ⟨hp, fun th th' h h' => by rw [h] at h'; cases h'; rfl⟩⟩

/-- changing only helper bookkeeping of one thread -/
theorem Quiet.modTh {s a : Sys σ Op} (h : Quiet s a) (i : Nat) (f : Th Op → Th Op)
    (hf : ∀ th, (f th).ops = th.ops ∧ (f th).pc = th.pc ∧ (f th).cancelled = th.cancelled ∧ (f th).st = th.st) :
    Quiet s (Conc.modTh a i f) := by
  refine ⟨h.subj, by simp [h.len], ?_, ?_⟩
  · intro j th hj
    obtain ⟨th', h1, h2, h3, h4, h5⟩ := h.th j th hj
    by_cases hij : i = j
    · subst hij
      refine ⟨f th', by simp [modTh_get_eq, h1], ?_⟩
      obtain ⟨f1, f2, f3, f4⟩ := hf th'
      rw [f1, f2, f3, f4]
      exact ⟨h2, h3, h4, h5⟩
    · exact ⟨th', by rw [modTh_get_ne _ _ hij]; exact h1, h2, h3, h4, h5⟩
  · intro p hp
    obtain ⟨h1, h2⟩ := h.parked p hp
    refine ⟨h1, ?_⟩
    intro th th' hs ha
    by_cases hij : i = p.1
    · rw [← hij, modTh_get_eq] at ha
      cases hx : a.ths[i]? with
      | none => simp [hx] at ha
      | some x =>
        simp only [hx, Option.map_some, Option.some.injEq] at ha
        subst ha
        rw [(hf x).2.2.2]
        exact h2 th x hs (hij ▸ hx)
    · rw [modTh_get_ne _ _ hij] at ha
      exact h2 th th' hs ha

/-- waking a thread that is in a condition queue of the base system -/
theorem Quiet.wake {s a : Sys σ Op} (h : Quiet s a) (w c : Nat) (hw : (w, c) ∈ s.parked) :
    Quiet s (Conc.wake a w) := by
  refine ⟨h.subj, by simp [Conc.wake, h.len], ?_, ?_⟩
  · intro j th hj
    obtain ⟨th', h1, h2, h3, h4, h5⟩ := h.th j th hj
    by_cases hij : w = j
    · subst hij
      refine ⟨{ th' with st := .woken }, by simp [Conc.wake, modTh_get_eq, h1], h2, h3, h4, Or.inr ⟨rfl, c, hw⟩⟩
    · exact ⟨th', by simp only [Conc.wake]; rw [modTh_get_ne _ _ hij]; exact h1, h2, h3, h4, h5⟩
  · intro p hp
    simp only [Conc.wake, modTh_parked, List.mem_filter, bne_iff_ne, ne_eq] at hp
    obtain ⟨h1, h2⟩ := h.parked p hp.1
    refine ⟨h1, ?_⟩
    intro th th' hs ha
    simp only [Conc.wake] at ha
    rw [modTh_get_ne _ _ (fun e => hp.2 e.symm)] at ha
    exact h2 th th' hs ha

theorem Quiet.signal {s a : Sys σ Op} (h : Quiet s a) (c : Nat) : Quiet s (Conc.signal a c).1 := by
  unfold Conc.signal
  cases hf : a.parked.find? (fun p => p.2 == c) with
  | none => exact h
  | some p =>
    have hp := (h.parked p (List.mem_of_find?_eq_some hf)).1
    exact h.wake p.1 p.2 hp

theorem Quiet.foldl_wake {s : Sys σ Op} (ws : List Nat) (hws : ∀ w ∈ ws, ∃ c, (w, c) ∈ s.parked) :
    ∀ a : Sys σ Op, Quiet s a → Quiet s (ws.foldl Conc.wake a) := by
  induction ws with
  | nil => intro a h; exact h
  | cons w rest ih =>
    intro a h
    obtain ⟨c, hc⟩ := hws w (List.mem_cons_self)
    exact ih (fun w' hw' => hws w' (List.mem_cons_of_mem _ hw')) _ (h.wake w c hc)

theorem Quiet.broadcast {s a : Sys σ Op} (h : Quiet s a) (c : Nat) : Quiet s (Conc.broadcast a c).1 := by
  unfold Conc.broadcast
  apply Quiet.foldl_wake _ _ _ h
  intro w hw
  simp only [List.mem_map, List.mem_filter] at hw
  obtain ⟨p, ⟨hp, _⟩, rfl⟩ := hw
  exact ⟨p.2, (h.parked p hp).1⟩

theorem gateAll_frame (th : Th Op) (hs : List Helper) :
    ({ th with helpers := hs } : Th Op).ops = th.ops ∧ ({ th with helpers := hs } : Th Op).pc = th.pc ∧
    ({ th with helpers := hs } : Th Op).cancelled = th.cancelled ∧ ({ th with helpers := hs } : Th Op).st = th.st :=
  ⟨rfl, rfl, rfl, rfl⟩

theorem Quiet.applySig {s : Sys σ Op} (t : Nat) (acc : Sys σ Op × List Nat) (h : Quiet s acc.1) (sg : Sig) :
    Quiet s (Conc.applySig t acc sg).1 := by
  obtain ⟨a, woke⟩ := acc
  cases sg with
  | signal c => exact h.signal c
  | broadcast c => exact h.broadcast c
  | spawn c => exact h.modTh t _ (fun th => gateAll_frame th _)
  | release => exact h.modTh t _ (fun th => gateAll_frame th _)

theorem Quiet.foldl_applySig {s : Sys σ Op} (t : Nat) (sigs : List Sig) :
    ∀ acc : Sys σ Op × List Nat, Quiet s acc.1 → Quiet s (sigs.foldl (Conc.applySig t) acc).1 := by
  induction sigs with
  | nil => intro acc h; exact h
  | cons sg rest ih => intro acc h; exact ih _ (Quiet.applySig t acc h sg)


/-! ### one segment -/

/-- every entry of a condition queue belongs to a thread that is parked on that condition -/
def ParkedOK (s : Sys σ Op) : Prop := ∀ p ∈ s.parked, ∃ th, s.ths[p.1]? = some th ∧ th.st = .parked p.2

/-- what an action may do to a thread that is not the acting one: wake it -/
def OtherSame (th th' : Th Op) : Prop :=
  th'.ops = th.ops ∧ th'.pc = th.pc ∧ th'.cancelled = th.cancelled ∧
    (th'.st = th.st ∨ (th'.st = .woken ∧ ∃ c, th.st = .parked c))

theorem OtherSame.rfl' (th : Th Op) : OtherSame th th := ⟨rfl, rfl, rfl, Or.inl rfl⟩

theorem applySeg_fst (s : Sys σ Op) (t : Nat) (o : SegOut σ) :
    ∃ s3, Quiet { s with subj := o.st } s3 ∧
      (applySeg s t o).1 = match o.fin with
        | .ret _ => modTh s3 t (fun th =>
            { th with pc := th.pc + 1, st := if th.pc + 1 < th.ops.length then .idle else .done,
                      helpers := gateAll th.helpers })
        | .park c => modTh { s3 with parked := s3.parked ++ [(t, c)] } t (fun th => { th with st := .parked c }) := by
  have hq := Quiet.foldl_applySig (s := { s with subj := o.st }) t o.sigs ({ s with subj := o.st }, []) (Quiet.refl _)
  unfold applySeg
  generalize o.sigs.foldl (applySig t) ({ s with subj := o.st }, []) = acc at hq
  obtain ⟨s3, woke⟩ := acc
  refine ⟨s3, hq, ?_⟩
  cases o.fin <;> rfl

theorem Quiet.other {s a : Sys σ Op} (h : Quiet s a) (hG : ParkedOK s) {i : Nat} {th : Th Op}
    (hi : s.ths[i]? = some th) : ∃ th', a.ths[i]? = some th' ∧ OtherSame th th' := by
  obtain ⟨th', h1, h2, h3, h4, h5⟩ := h.th i th hi
  refine ⟨th', h1, h2, h3, h4, ?_⟩
  rcases h5 with h5 | ⟨h5, c, hc⟩
  · exact Or.inl h5
  · obtain ⟨th2, e1, e2⟩ := hG _ hc
    simp only at e1 e2
    rw [hi] at e1; cases e1
    exact Or.inr ⟨h5, c, e2⟩

theorem Quiet.parkedOK {s a : Sys σ Op} (h : Quiet s a) (hG : ParkedOK s) : ParkedOK a := by
  intro p hp
  obtain ⟨h1, h2⟩ := h.parked p hp
  obtain ⟨th, e1, e2⟩ := hG p h1
  obtain ⟨th', e3, -⟩ := h.th _ th e1
  exact ⟨th', e3, by rw [h2 th th' e1 e3]; exact e2⟩

/-- the acting thread is not in a condition queue, during the whole segment -/
theorem Quiet.not_parked {s a : Sys σ Op} (h : Quiet s a) (hG : ParkedOK s) {t : Nat} {th : Th Op}
    (hth : s.ths[t]? = some th) (hst : ∀ c, th.st ≠ .parked c) : ∀ p ∈ a.parked, p.1 ≠ t := by
  intro p hp e
  obtain ⟨th2, e1, e2⟩ := hG p (h.parked p hp).1
  rw [e, hth] at e1; cases e1
  exact hst _ e2

theorem applySeg_summary {s : Sys σ Op} (hG : ParkedOK s) {t : Nat} {th : Th Op} (hth : s.ths[t]? = some th)
    (hst : ∀ c, th.st ≠ .parked c) (o : SegOut σ) :
    ParkedOK (applySeg s t o).1 ∧ (applySeg s t o).1.subj = o.st ∧
    (applySeg s t o).1.ths.length = s.ths.length ∧
    (∃ th', (applySeg s t o).1.ths[t]? = some th' ∧ th'.ops = th.ops ∧ th'.cancelled = th.cancelled ∧
      match o.fin with
      | .ret _ => th'.pc = th.pc + 1 ∧ th'.st = (if th.pc + 1 < th.ops.length then .idle else .done)
      | .park c => th'.pc = th.pc ∧ th'.st = .parked c) ∧
    ∀ i thi, i ≠ t → s.ths[i]? = some thi → ∃ thi', (applySeg s t o).1.ths[i]? = some thi' ∧ OtherSame thi thi' := by
  obtain ⟨s3, hq, heq⟩ := applySeg_fst s t o
  have hG0 : ParkedOK ({ s with subj := o.st } : Sys σ Op) := hG
  have hth0 : ({ s with subj := o.st } : Sys σ Op).ths[t]? = some th := hth
  have hG3 := hq.parkedOK hG0
  have hnp := hq.not_parked hG0 hth0 hst
  obtain ⟨th3, e1, e2, e3, e4, e5⟩ := hq.th t th hth0
  have hother : ∀ i thi, i ≠ t → s.ths[i]? = some thi → ∃ thi', s3.ths[i]? = some thi' ∧ OtherSame thi thi' :=
    fun i thi _ hi => hq.other hG0 (i := i) hi
  rw [heq]
  cases hfin : o.fin with
  | ret r =>
    simp only
    refine ⟨?_, hq.subj, by simp [hq.len], ?_, ?_⟩
    · intro p hp
      simp only [modTh_parked] at hp
      obtain ⟨thp, f1, f2⟩ := hG3 p hp
      exact ⟨thp, by rw [modTh_get_ne _ _ (fun e => hnp p hp e.symm)]; exact f1, f2⟩
    · refine ⟨{ th3 with pc := th3.pc + 1, st := if th3.pc + 1 < th3.ops.length then .idle else .done,
                          helpers := gateAll th3.helpers }, by rw [modTh_get_eq, e1]; rfl, e2, e4, ?_⟩
      simp only [e2, e3, and_self]
    · intro i thi hi hs
      obtain ⟨thi', g1, g2⟩ := hother i thi hi hs
      exact ⟨thi', by rw [modTh_get_ne _ _ (fun e => hi e.symm)]; exact g1, g2⟩
  | park c =>
    simp only
    refine ⟨?_, hq.subj, by simp [hq.len], ?_, ?_⟩
    · intro p hp
      simp only [modTh_parked, List.mem_append, List.mem_singleton] at hp
      rcases hp with hp | rfl
      · obtain ⟨thp, f1, f2⟩ := hG3 p hp
        exact ⟨thp, by rw [modTh_get_ne _ _ (fun e => hnp p hp e.symm)]; exact f1, f2⟩
      · exact ⟨{ th3 with st := .parked c }, by rw [modTh_get_eq]; simp only [e1]; rfl, rfl⟩
    · exact ⟨{ th3 with st := .parked c }, by rw [modTh_get_eq]; simp only [e1]; rfl, e2, e4, e3, rfl⟩
    · intro i thi hi hs
      obtain ⟨thi', g1, g2⟩ := hother i thi hi hs
      exact ⟨thi', by rw [modTh_get_ne _ _ (fun e => hi e.symm)]; exact g1, g2⟩


/-! ### one action -/

theorem step_start_eq {sub : Subject σ Op} {s s' : Sys σ Op} {t : Nat} {obs : String}
    (h : step sub s (.start t) = some (s', obs)) :
    ∃ th op, s.ths[t]? = some th ∧ th.ops[th.pc]? = some op ∧
      s' = (applySeg (modTh s t (fun th => { th with cancelled := false })) t (sub.start s.subj t op)).1 := by
  simp only [step, bind, Option.bind] at h
  cases hth : s.ths[t]? with
  | none => simp [hth] at h
  | some th =>
    simp only [hth] at h
    cases hop : th.ops[th.pc]? with
    | none => simp [hop] at h
    | some op =>
      simp only [hop, pure, Option.some.injEq, Prod.mk.injEq] at h
      exact ⟨th, op, rfl, hop, h.1.symm⟩

theorem step_resume_eq {sub : Subject σ Op} {s s' : Sys σ Op} {t : Nat} {obs : String}
    (h : step sub s (.resume t) = some (s', obs)) :
    ∃ th op, s.ths[t]? = some th ∧ th.ops[th.pc]? = some op ∧
      s' = (applySeg s t (sub.resume s.subj t op th.cancelled)).1 := by
  simp only [step, bind, Option.bind] at h
  cases hth : s.ths[t]? with
  | none => simp [hth] at h
  | some th =>
    simp only [hth] at h
    cases hop : th.ops[th.pc]? with
    | none => simp [hop] at h
    | some op =>
      simp only [hop, pure, Option.some.injEq, Prod.mk.injEq] at h
      exact ⟨th, op, rfl, hop, h.1.symm⟩

theorem step_cancel_eq {sub : Subject σ Op} {s s' : Sys σ Op} {t : Nat} {obs : String}
    (h : step sub s (.cancel t) = some (s', obs)) :
    s' = modTh s t (fun th => { th with cancelled := true, helpers := gateAll th.helpers }) := by
  simp only [step, bind, Option.bind] at h
  cases hth : s.ths[t]? with
  | none => simp [hth] at h
  | some th =>
    simp only [hth, pure, Option.some.injEq, Prod.mk.injEq] at h
    exact h.1.symm

theorem step_fire_eq {sub : Subject σ Op} {s s' : Sys σ Op} {t : Nat} {obs : String}
    (h : step sub s (.fire t) = some (s', obs)) :
    ∃ c, s' = (broadcast (modTh s t (fun th => { th with helpers := step.markFired th.helpers })) c).1 := by
  simp only [step, bind, Option.bind] at h
  cases hth : s.ths[t]? with
  | none => simp [hth] at h
  | some th =>
    simp only [hth] at h
    cases hf : th.helpers.find? (fun h => h.atGate && !h.fired) with
    | none => simp [hf] at h
    | some hp =>
      simp only [hf, pure, Option.some.injEq, Prod.mk.injEq] at h
      exact ⟨hp.cond, h.1.symm⟩

/-- what one enabled action does, thread by thread -/
inductive StepInfo (sub : Subject σ Op) (s : Sys σ Op) (a : Act) (s' : Sys σ Op) : Prop where
  /-- a segment of thread `t` ran -/
  | seg (t : Nat) (th th' : Th Op) (op : Op) (first : Bool) (o : SegOut σ)
      (ha : a = if first then .start t else .resume t)
      (hth : s.ths[t]? = some th)
      (hop : th.ops[th.pc]? = some op)
      (hst : th.st = if first then .idle else .woken)
      (ho : o = if first then sub.start s.subj t op else sub.resume s.subj t op th.cancelled)
      (hev : evOf sub s a = .seg t th.pc op first (if first then false else th.cancelled) s.subj o)
      (hsubj : s'.subj = o.st)
      (hth' : s'.ths[t]? = some th')
      (hops : th'.ops = th.ops)
      (hcanc : th'.cancelled = if first then false else th.cancelled)
      (hfin : match o.fin with
        | .ret _ => th'.pc = th.pc + 1 ∧ th'.st = (if th.pc + 1 < th.ops.length then .idle else .done)
        | .park c => th'.pc = th.pc ∧ th'.st = .parked c)
      (hoth : ∀ i thi, i ≠ t → s.ths[i]? = some thi → ∃ thi', s'.ths[i]? = some thi' ∧ OtherSame thi thi')
  /-- a cancellation or a helper goroutine -/
  | env (t : Nat)
      (ha : a = .cancel t ∨ a = .fire t)
      (hev : evOf sub s a = .env a)
      (hsubj : s'.subj = s.subj)
      (hths : ∀ i thi, s.ths[i]? = some thi → ∃ thi', s'.ths[i]? = some thi' ∧ thi'.ops = thi.ops ∧ thi'.pc = thi.pc ∧
        (thi'.st = thi.st ∨ (thi'.st = .woken ∧ ∃ c, thi.st = .parked c)) ∧
        (thi'.cancelled = thi.cancelled ∨ (a = .cancel i ∧ thi'.cancelled = true)))

theorem step_info {sub : Subject σ Op} {s s' : Sys σ Op} {a : Act} {obs : String} (hG : ParkedOK s)
    (hen : a ∈ enabled s true) (h : step sub s a = some (s', obs)) :
    ParkedOK s' ∧ s'.ths.length = s.ths.length ∧ StepInfo sub s a s' := by
  cases a with
  | start t =>
    obtain ⟨th, hth, hst, _⟩ := mem_enabled_start hen
    obtain ⟨th2, op, hth2, hop, rfl⟩ := step_start_eq h
    rw [hth] at hth2; cases hth2
    have hG1 : ParkedOK (modTh s t (fun th => { th with cancelled := false })) := by
      intro p hp
      obtain ⟨thp, f1, f2⟩ := hG p hp
      by_cases e : t = p.1
      · exact ⟨{ thp with cancelled := false }, by rw [← e, modTh_get_eq, e, f1]; rfl, f2⟩
      · exact ⟨thp, by rw [modTh_get_ne _ _ e]; exact f1, f2⟩
    have hth1 : (modTh s t (fun th => { th with cancelled := false })).ths[t]? = some { th with cancelled := false } := by
      rw [modTh_get_eq, hth]; rfl
    obtain ⟨g1, g2, g3, ⟨th', g4, g5, g6, g7⟩, g8⟩ :=
      applySeg_summary hG1 hth1 (by intro c; simp [hst]) (sub.start s.subj t op)
    refine ⟨g1, by simpa using g3, ?_⟩
    refine StepInfo.seg t th th' op true (sub.start s.subj t op) rfl hth hop (by simp [hst]) rfl
      (by simp [evOf, hth, hop]) g2 g4 g5 (by simpa using g6) g7 ?_
    intro i thi hi hs
    exact g8 i thi hi (by rw [modTh_get_ne _ _ (fun e => hi e.symm)]; exact hs)
  | resume t =>
    obtain ⟨th, hth, hst⟩ := mem_enabled_resume hen
    obtain ⟨th2, op, hth2, hop, rfl⟩ := step_resume_eq h
    rw [hth] at hth2; cases hth2
    obtain ⟨g1, g2, g3, ⟨th', g4, g5, g6, g7⟩, g8⟩ :=
      applySeg_summary hG hth (by intro c; simp [hst]) (sub.resume s.subj t op th.cancelled)
    refine ⟨g1, g3, ?_⟩
    exact StepInfo.seg t th th' op false (sub.resume s.subj t op th.cancelled) rfl hth hop (by simp [hst]) rfl
      (by simp [evOf, hth, hop]) g2 g4 g5 (by simpa using g6) g7 g8
  | cancel t =>
    have := step_cancel_eq h
    subst this
    refine ⟨?_, by simp, ?_⟩
    · intro p hp
      obtain ⟨thp, f1, f2⟩ := hG p hp
      by_cases e : t = p.1
      · exact ⟨{ thp with cancelled := true, helpers := gateAll thp.helpers }, by rw [← e, modTh_get_eq, e, f1]; rfl, f2⟩
      · exact ⟨thp, by rw [modTh_get_ne _ _ e]; exact f1, f2⟩
    · refine StepInfo.env t (Or.inl rfl) rfl rfl ?_
      intro i thi hi
      by_cases e : t = i
      · subst e
        exact ⟨{ thi with cancelled := true, helpers := gateAll thi.helpers }, by rw [modTh_get_eq, hi]; rfl,
          rfl, rfl, Or.inl rfl, Or.inr ⟨rfl, rfl⟩⟩
      · exact ⟨thi, by rw [modTh_get_ne _ _ e]; exact hi, rfl, rfl, Or.inl rfl, Or.inl rfl⟩
  | fire t =>
    obtain ⟨c, rfl⟩ := step_fire_eq h
    have hq : Quiet s (broadcast (modTh s t (fun th => { th with helpers := step.markFired th.helpers })) c).1 :=
      ((Quiet.refl s).modTh t _ (fun th => gateAll_frame th _)).broadcast c
    refine ⟨hq.parkedOK hG, hq.len, ?_⟩
    refine StepInfo.env t (Or.inr rfl) rfl hq.subj ?_
    intro i thi hi
    obtain ⟨thi', f1, f2, f3, f4, f5⟩ := hq.other hG hi
    exact ⟨thi', f1, f2, f3, f5, Or.inl f4⟩


/-! ### bookkeeping along a run -/

/-- the returning segment of thread `t` recorded by an event: (program counter, operation) -/
def Ev.retOf (t : Nat) : Ev σ Op → Option (Nat × Op)
  | .seg t' pc op _ _ _ o => if t' = t then (match o.fin with | .ret _ => some (pc, op) | .park _ => none) else none
  | .env _ => none

/-- `ev` is the first segment (the invocation) of an operation of thread `t` -/
def Ev.isStartOf (t : Nat) : Ev σ Op → Prop
  | .seg t' _ _ first _ _ _ => t' = t ∧ first = true
  | .env _ => False

/-- operations of thread `t` that have returned, in the order of the log -/
def retOps (log : List (Ev σ Op)) (t : Nat) : List Op := (log.filterMap (Ev.retOf t)).map (·.2)
def retPcs (log : List (Ev σ Op)) (t : Nat) : List Nat := (log.filterMap (Ev.retOf t)).map (·.1)

structure RInv (programs : List (List Op)) (log : List (Ev σ Op)) (s : Sys σ Op) : Prop where
  parkedOK : ParkedOK s
  len : s.ths.length = programs.length
  /-- programs never change -/
  ops : ∀ (t : Nat) (th : Th Op), s.ths[t]? = some th → programs[t]? = some th.ops
  /-- `pc` counts the returned operations: they are the first `pc` operations of the program, in order -/
  rops : ∀ (t : Nat) (th : Th Op), s.ths[t]? = some th → retOps log t = th.ops.take th.pc
  rpcs : ∀ (t : Nat) (th : Th Op), s.ths[t]? = some th → retPcs log t = List.range th.pc
  /-- a thread is parked or woken only inside its current operation: the operation's first segment is in
      the log and some segment of it parked -/
  inflight : ∀ (t : Nat) (th : Th Op), s.ths[t]? = some th → (th.st = .woken ∨ ∃ c, th.st = .parked c) →
    ∃ op, th.ops[th.pc]? = some op ∧ (∃ c pre out, Ev.seg t th.pc op true c pre out ∈ log) ∧
      (∃ first c pre out cnd, Ev.seg t th.pc op first c pre out ∈ log ∧ out.fin = .park cnd)
  /-- the context flag is raised only by a `cancel` action after the invocation of the current operation -/
  cancelled : ∀ (t : Nat) (th : Th Op), s.ths[t]? = some th → th.cancelled = true →
    ∃ l1 l2, log = l1 ++ [Ev.env (.cancel t)] ++ l2 ∧ ∀ ev ∈ l2, ¬ ev.isStartOf t
  /-- every segment in the log ran the operation its thread's program has at that program counter -/
  segs : ∀ t pc op first c pre out, Ev.seg t pc op first c pre out ∈ log → ∃ p, programs[t]? = some p ∧ p[pc]? = some op
  /-- the segments of a thread in the log belong to operations it has returned from, or to its current
      operation if it is inside one (parked or woken) -/
  fresh : ∀ (t : Nat) (th : Th Op), s.ths[t]? = some th → ∀ pc op first c pre out, Ev.seg t pc op first c pre out ∈ log →
    pc < th.pc ∨ (pc = th.pc ∧ (th.st = .woken ∨ ∃ cnd, th.st = .parked cnd))

theorem RInv.init (i : σ) (programs : List (List Op)) : RInv programs ([] : List (Ev σ Op)) (initSys i programs) := by
  have hget : ∀ (t : Nat) (th : Th Op), (initSys i programs).ths[t]? = some th →
      ∃ p, programs[t]? = some p ∧ th = ({ ops := p, st := if p.isEmpty then .done else .idle } : Th Op) := by
    intro t th h
    simp only [initSys, List.getElem?_map] at h
    cases hp : programs[t]? with
    | none => simp [hp] at h
    | some p => simp only [hp, Option.map_some, Option.some.injEq] at h; exact ⟨p, rfl, h.symm⟩
  refine ⟨?_, by simp [initSys], ?_, ?_, ?_, ?_, ?_, ?_, ?_⟩
  · intro p hp; simp [initSys] at hp
  · intro t th h; obtain ⟨p, h1, rfl⟩ := hget t th h; exact h1
  · intro t th h; obtain ⟨p, h1, rfl⟩ := hget t th h; simp [ConcSubj.retOps]
  · intro t th h; obtain ⟨p, h1, rfl⟩ := hget t th h; simp [ConcSubj.retPcs]
  · intro t th h hst; obtain ⟨p, h1, rfl⟩ := hget t th h
    by_cases hp : p.isEmpty = true <;> simp [hp] at hst
  · intro t th h hc; obtain ⟨p, h1, rfl⟩ := hget t th h; simp at hc
  · intro t pc op first c pre out h; simp at h
  · intro t th _ pc op first c pre out h; simp at h

theorem retOf_append (log : List (Ev σ Op)) (ev : Ev σ Op) (t : Nat) :
    (log ++ [ev]).filterMap (Ev.retOf t) = log.filterMap (Ev.retOf t) ++ (Ev.retOf t ev).toList := by
  simp only [List.filterMap_append]
  cases h : Ev.retOf t ev <;> simp [List.filterMap, h]

theorem RInv.step {sub : Subject σ Op} {programs : List (List Op)} {log : List (Ev σ Op)} {s s' : Sys σ Op}
    {a : Act} {obs : String} (hI : RInv programs log s) (hen : a ∈ enabled s true)
    (h : step sub s a = some (s', obs)) : RInv programs (log ++ [evOf sub s a]) s' := by
  obtain ⟨hG', hlen', hinfo⟩ := step_info hI.parkedOK hen h
  cases hinfo with
  | seg t th th' op first o ha hth hop hst ho hev hsubj hth' hops hcanc hfin hoth =>
    rw [hev]
    -- every thread of s' comes from a thread of s
    have hback : ∀ i thi', s'.ths[i]? = some thi' → i ≠ t → ∃ thi, s.ths[i]? = some thi ∧ OtherSame thi thi' := by
      intro i thi' hi hne
      have hlt : i < s.ths.length := by
        rw [← hlen']; exact (List.getElem?_eq_some_iff.1 hi).1
      obtain ⟨thi, hthi⟩ : ∃ thi, s.ths[i]? = some thi := ⟨s.ths[i], List.getElem?_eq_getElem hlt⟩
      obtain ⟨thi2, g1, g2⟩ := hoth i thi hne hthi
      rw [hi] at g1; cases g1
      exact ⟨thi, hthi, g2⟩
    have hret_ne : ∀ i, i ≠ t → Ev.retOf i (Ev.seg t th.pc op first (if first then false else th.cancelled) s.subj o) = none := by
      intro i hne; simp only [Ev.retOf]; rw [if_neg (fun e => hne e.symm)]
    refine ⟨hG', by rw [hlen', hI.len], ?_, ?_, ?_, ?_, ?_, ?_, ?_⟩
    · intro i thi' hi
      by_cases hne : i = t
      · subst hne; rw [hth'] at hi; cases hi; rw [hops]; exact hI.ops _ th hth
      · obtain ⟨thi, g1, g2⟩ := hback i thi' hi hne
        rw [g2.1]; exact hI.ops i thi g1
    · intro i thi' hi
      by_cases hne : i = t
      · subst hne; rw [hth'] at hi; cases hi
        simp only [ConcSubj.retOps, retOf_append, List.map_append]
        have := hI.rops i th hth
        simp only [ConcSubj.retOps] at this
        rw [this, hops]
        cases hf : o.fin with
        | ret r =>
          rw [hf] at hfin
          simp [Ev.retOf, hf, hfin.1, List.take_add_one, hop]
        | park c =>
          rw [hf] at hfin
          simp [Ev.retOf, hf, hfin.1]
      · obtain ⟨thi, g1, g2⟩ := hback i thi' hi hne
        simp only [ConcSubj.retOps, retOf_append, hret_ne i hne, Option.toList_none, List.append_nil]
        rw [g2.1, g2.2.1]; exact hI.rops i thi g1
    · intro i thi' hi
      by_cases hne : i = t
      · subst hne; rw [hth'] at hi; cases hi
        simp only [ConcSubj.retPcs, retOf_append, List.map_append]
        have := hI.rpcs i th hth
        simp only [ConcSubj.retPcs] at this
        rw [this]
        cases hf : o.fin with
        | ret r =>
          rw [hf] at hfin
          simp [Ev.retOf, hf, hfin.1, List.range_succ]
        | park c =>
          rw [hf] at hfin
          simp [Ev.retOf, hf, hfin.1]
      · obtain ⟨thi, g1, g2⟩ := hback i thi' hi hne
        simp only [ConcSubj.retPcs, retOf_append, hret_ne i hne, Option.toList_none, List.append_nil]
        rw [g2.2.1]; exact hI.rpcs i thi g1
    · intro i thi' hi hst'
      by_cases hne : i = t
      · subst hne; rw [hth'] at hi; cases hi
        cases hf : o.fin with
        | ret r =>
          rw [hf] at hfin
          exfalso
          rcases hst' with e | ⟨c, e⟩ <;> (rw [hfin.2] at e; split at e <;> cases e)
        | park c =>
          rw [hf] at hfin
          refine ⟨op, by rw [hops, hfin.1]; exact hop, ?_, ?_⟩
          · cases first with
            | true => exact ⟨(if true = true then false else th.cancelled), s.subj, o, by rw [hfin.1]; simp⟩
            | false =>
              have hw : th.st = .woken := by simpa using hst
              obtain ⟨op2, e1, ⟨c2, pre2, out2, e2⟩, -⟩ := hI.inflight i th hth (Or.inl hw)
              rw [hop] at e1; cases e1
              exact ⟨c2, pre2, out2, by rw [hfin.1]; simp [e2]⟩
          · exact ⟨first, (if first = true then false else th.cancelled), s.subj, o, c, by rw [hfin.1]; simp, hf⟩
      · obtain ⟨thi, g1, g2⟩ := hback i thi' hi hne
        have hst0 : thi.st = .woken ∨ ∃ c, thi.st = .parked c := by
          rcases g2.2.2.2 with e | ⟨_, c, e⟩
          · rw [e] at hst'; exact hst'
          · exact Or.inr ⟨c, e⟩
        obtain ⟨op2, e1, ⟨c2, pre2, out2, e2⟩, ⟨f3, c3, pre3, out3, cnd3, e3, e4⟩⟩ := hI.inflight i thi g1 hst0
        rw [g2.1, g2.2.1]
        exact ⟨op2, e1, ⟨c2, pre2, out2, by simp [e2]⟩, ⟨f3, c3, pre3, out3, cnd3, by simp [e3], e4⟩⟩
    · intro i thi' hi hc
      by_cases hne : i = t
      · subst hne; rw [hth'] at hi; cases hi
        cases first with
        | true => simp [hcanc] at hc
        | false =>
          have hc0 : th.cancelled = true := by simpa [hcanc] using hc
          obtain ⟨l1, l2, e1, e2⟩ := hI.cancelled i th hth hc0
          refine ⟨l1, l2 ++ [Ev.seg i th.pc op false (if false = true then false else th.cancelled) s.subj o], by simp [e1], ?_⟩
          intro ev hev'
          simp only [List.mem_append, List.mem_singleton] at hev'
          rcases hev' with hev' | rfl
          · exact e2 ev hev'
          · simp [Ev.isStartOf]
      · obtain ⟨thi, g1, g2⟩ := hback i thi' hi hne
        obtain ⟨l1, l2, e1, e2⟩ := hI.cancelled i thi g1 (by rw [← g2.2.2.1]; exact hc)
        refine ⟨l1, l2 ++ [Ev.seg t th.pc op first (if first = true then false else th.cancelled) s.subj o], by simp [e1], ?_⟩
        intro ev hev'
        simp only [List.mem_append, List.mem_singleton] at hev'
        rcases hev' with hev' | rfl
        · exact e2 ev hev'
        · simp only [Ev.isStartOf]; exact fun e => hne e.1.symm
    · intro t2 pc2 op2 first2 c2 pre2 out2 hmem
      simp only [List.mem_append, List.mem_singleton] at hmem
      rcases hmem with hmem | hmem
      · exact hI.segs _ _ _ _ _ _ _ hmem
      · cases hmem
        exact ⟨th.ops, hI.ops t th hth, hop⟩
    · intro i thi' hi pc2 op2 first2 c2 pre2 out2 hmem
      simp only [List.mem_append, List.mem_singleton] at hmem
      by_cases hne : i = t
      · subst hne; rw [hth'] at hi; cases hi
        have hold : pc2 ≤ th.pc := by
          rcases hmem with hmem | hmem
          · rcases hI.fresh i th hth _ _ _ _ _ _ hmem with h1 | ⟨h1, _⟩ <;> omega
          · cases hmem; exact Nat.le_refl _
        cases hf : o.fin with
        | ret r => rw [hf] at hfin; left; rw [hfin.1]; omega
        | park cnd =>
          rw [hf] at hfin
          rw [hfin.1, hfin.2]
          rcases Nat.lt_or_ge pc2 th.pc with h1 | h1
          · exact Or.inl h1
          · exact Or.inr ⟨by omega, Or.inr ⟨cnd, rfl⟩⟩
      · obtain ⟨thi, g1, g2⟩ := hback i thi' hi hne
        rcases hmem with hmem | hmem
        · rw [g2.2.1]
          rcases hI.fresh i thi g1 _ _ _ _ _ _ hmem with h1 | ⟨h1, h2⟩
          · exact Or.inl h1
          · refine Or.inr ⟨h1, ?_⟩
            rcases g2.2.2.2 with e | ⟨e, _⟩
            · rw [e]; exact h2
            · exact Or.inl e
        · cases hmem; exact absurd rfl hne
  | env t ha hev hsubj hths =>
    rw [hev]
    have hback : ∀ i thi', s'.ths[i]? = some thi' → ∃ thi, s.ths[i]? = some thi ∧ thi'.ops = thi.ops ∧ thi'.pc = thi.pc ∧
        (thi'.st = thi.st ∨ (thi'.st = .woken ∧ ∃ c, thi.st = .parked c)) ∧
        (thi'.cancelled = thi.cancelled ∨ (a = .cancel i ∧ thi'.cancelled = true)) := by
      intro i thi' hi
      have hlt : i < s.ths.length := by
        rw [← hlen']; exact (List.getElem?_eq_some_iff.1 hi).1
      obtain ⟨thi, hthi⟩ : ∃ thi, s.ths[i]? = some thi := ⟨s.ths[i], List.getElem?_eq_getElem hlt⟩
      obtain ⟨thi2, g1, g2⟩ := hths i thi hthi
      rw [hi] at g1; cases g1
      exact ⟨thi, hthi, g2⟩
    have hret : ∀ i, Ev.retOf i (Ev.env a : Ev σ Op) = none := fun i => rfl
    refine ⟨hG', by rw [hlen', hI.len], ?_, ?_, ?_, ?_, ?_, ?_, ?_⟩
    · intro i thi' hi
      obtain ⟨thi, g1, g2, -⟩ := hback i thi' hi
      rw [g2]; exact hI.ops i thi g1
    · intro i thi' hi
      obtain ⟨thi, g1, g2, g3, -⟩ := hback i thi' hi
      simp only [ConcSubj.retOps, retOf_append, hret i, Option.toList_none, List.append_nil]
      rw [g2, g3]; exact hI.rops i thi g1
    · intro i thi' hi
      obtain ⟨thi, g1, g2, g3, -⟩ := hback i thi' hi
      simp only [ConcSubj.retPcs, retOf_append, hret i, Option.toList_none, List.append_nil]
      rw [g3]; exact hI.rpcs i thi g1
    · intro i thi' hi hst'
      obtain ⟨thi, g1, g2, g3, g4, -⟩ := hback i thi' hi
      have hst0 : thi.st = .woken ∨ ∃ c, thi.st = .parked c := by
        rcases g4 with e | ⟨_, c, e⟩
        · rw [e] at hst'; exact hst'
        · exact Or.inr ⟨c, e⟩
      obtain ⟨op2, e1, ⟨c2, pre2, out2, e2⟩, ⟨f3, c3, pre3, out3, cnd3, e3, e4⟩⟩ := hI.inflight i thi g1 hst0
      rw [g2, g3]
      exact ⟨op2, e1, ⟨c2, pre2, out2, by simp [e2]⟩, ⟨f3, c3, pre3, out3, cnd3, by simp [e3], e4⟩⟩
    · intro i thi' hi hc
      obtain ⟨thi, g1, g2, g3, g4, g5⟩ := hback i thi' hi
      rcases g5 with g5 | ⟨g5, -⟩
      · obtain ⟨l1, l2, e1, e2⟩ := hI.cancelled i thi g1 (by rw [← g5]; exact hc)
        refine ⟨l1, l2 ++ [Ev.env a], by simp [e1], ?_⟩
        intro ev hev'
        simp only [List.mem_append, List.mem_singleton] at hev'
        rcases hev' with hev' | rfl
        · exact e2 ev hev'
        · simp [Ev.isStartOf]
      · subst g5
        exact ⟨log, [], by simp, by simp⟩
    · intro t2 pc2 op2 first2 c2 pre2 out2 hmem
      simp only [List.mem_append, List.mem_singleton] at hmem
      rcases hmem with hmem | hmem
      · exact hI.segs _ _ _ _ _ _ _ hmem
      · cases hmem
    · intro i thi' hi pc2 op2 first2 c2 pre2 out2 hmem
      simp only [List.mem_append, List.mem_singleton] at hmem
      obtain ⟨thi, g1, g2, g3, g4, -⟩ := hback i thi' hi
      rcases hmem with hmem | hmem
      · rw [g3]
        rcases hI.fresh i thi g1 _ _ _ _ _ _ hmem with h1 | ⟨h1, h2⟩
        · exact Or.inl h1
        · refine Or.inr ⟨h1, ?_⟩
          rcases g4 with e | ⟨e, _⟩
          · rw [e]; exact h2
          · exact Or.inl e
      · cases hmem

/-- the bookkeeping invariant holds along every run from an initial system -/
theorem Reach'.rinv {sub : Subject σ Op} {i : σ} {programs : List (List Op)} {log : List (Ev σ Op)} {s : Sys σ Op}
    (h : Reach' sub (initSys i programs) log s) : RInv programs log s := by
  induction h with
  | init => exact RInv.init i programs
  | step _ hen hs ih => exact ih.step hen hs


/-! ### the subject state changes only through segments: an induction principle -/

/-- the segment of `op` that thread `t` runs in subject state `s` (`first`: the invocation; otherwise a
    re-check after a wake-up with context flag `c`) -/
def segOut (sub : Subject σ Op) (s : σ) (t : Nat) (op : Op) (first c : Bool) : SegOut σ :=
  if first then sub.start s t op else sub.resume s t op c

/-- some segment of `op` can park -/
def CanPark (sub : Subject σ Op) (op : Op) : Prop :=
  ∃ s t first c cnd, (segOut sub s t op first c).fin = .park cnd

/-- the event records what the subject really computes; an invocation sees a live context -/
def Ev.genuine (sub : Subject σ Op) : Ev σ Op → Prop
  | .seg t _ op first c pre out => out = segOut sub pre t op first c ∧ (first = true → c = false)
  | .env _ => True

theorem evOf_genuine (sub : Subject σ Op) (s : Sys σ Op) (a : Act) : (evOf sub s a).genuine sub := by
  cases a with
  | start t =>
    cases h1 : s.ths[t]? with
    | none => simp [evOf, h1, Ev.genuine]
    | some th => cases h2 : th.ops[th.pc]? with
      | none => simp [evOf, h1, h2, Ev.genuine]
      | some op => simp [evOf, h1, h2, Ev.genuine, segOut]
  | resume t =>
    cases h1 : s.ths[t]? with
    | none => simp [evOf, h1, Ev.genuine]
    | some th => cases h2 : th.ops[th.pc]? with
      | none => simp [evOf, h1, h2, Ev.genuine]
      | some op => simp [evOf, h1, h2, Ev.genuine, segOut]
  | cancel t => trivial
  | fire t => trivial

theorem Reach'.genuine {sub : Subject σ Op} {s0 s : Sys σ Op} {log : List (Ev σ Op)} (h : Reach' sub s0 log s) :
    ∀ ev ∈ log, ev.genuine sub := by
  induction h with
  | init => intro ev hev; cases hev
  | step _ _ _ ih =>
    intro ev hev
    simp only [List.mem_append, List.mem_singleton] at hev
    rcases hev with hev | rfl
    · exact ih ev hev
    · exact evOf_genuine _ _ _

/-- a prefix of a run is a run -/
theorem Reach'.prefix {sub : Subject σ Op} {s0 s : Sys σ Op} {l1 l2 : List (Ev σ Op)}
    (h : Reach' sub s0 (l1 ++ l2) s) : ∃ s1, Reach' sub s0 l1 s1 := by
  generalize hl : l1 ++ l2 = log at h
  induction h generalizing l2 with
  | init =>
    have : l1 = [] := by cases l1 <;> simp_all
    subst this; exact ⟨_, Reach'.init⟩
  | @step log s a s' obs hr hen hs ih =>
    rcases List.eq_nil_or_concat l2 with rfl | ⟨l2', e, rfl⟩
    · rw [List.append_nil] at hl; subst hl
      exact ⟨_, Reach'.step hr hen hs⟩
    · rw [List.concat_eq_append, ← List.append_assoc] at hl
      have := List.append_inj' hl rfl
      exact ih this.1

/-- **Induction over the segments of a run.** The subject state of a run from an initial system is
    changed by nothing but the segments `sub.start` (with a live context) and `sub.resume`; a `resume`
    segment only ever runs for an operation that can park. `cancel`/`fire` actions and all signalling
    leave the subject state unchanged. -/
theorem Reach'.induction {sub : Subject σ Op} {i : σ} {programs : List (List Op)}
    (I : List (Ev σ Op) → σ → Prop) (h0 : I [] i)
    (hseg : ∀ log s t pc op first c, I log s → (first = true → c = false) → (first = false → CanPark sub op) →
      I (log ++ [.seg t pc op first c s (segOut sub s t op first c)]) (segOut sub s t op first c).st)
    (henv : ∀ log s a, I log s → I (log ++ [.env a]) s)
    {log : List (Ev σ Op)} {s : Sys σ Op} (h : Reach' sub (initSys i programs) log s) : I log s.subj := by
  induction h with
  | init => exact h0
  | @step log s a s' obs hr hen hs ih =>
    have hI := hr.rinv
    have hgen := hr.genuine
    obtain ⟨-, -, hinfo⟩ := step_info hI.parkedOK hen hs
    cases hinfo with
    | seg t th th' op first o ha hth hop hst ho hev hsubj hth' hops hcanc hfin hoth =>
      rw [hev, hsubj]
      have ho' : o = segOut sub s.subj t op first (if first then false else th.cancelled) := by
        cases first <;> simpa [segOut] using ho
      rw [ho']
      apply hseg _ _ _ _ _ _ _ ih
      · intro hf; simp [hf]
      · intro hf
        subst hf
        have hw : th.st = .woken := by simpa using hst
        obtain ⟨op2, e1, -, ⟨f3, c3, pre3, out3, cnd3, e3, e4⟩⟩ := hI.inflight t th hth (Or.inl hw)
        rw [hop] at e1; cases e1
        have hg := hgen _ e3
        simp only [Ev.genuine] at hg
        exact ⟨pre3, t, f3, c3, cnd3, by rw [← hg.1]; exact e4⟩
    | env t ha hev hsubj hths =>
      rw [hev, hsubj]
      exact henv _ _ _ ih


/-! ### positions in the log: invocation, linearization point, cancellation -/

theorem Reach'.snoc_inv {sub : Subject σ Op} {s0 s : Sys σ Op} {l : List (Ev σ Op)} {ev : Ev σ Op}
    (h : Reach' sub s0 (l ++ [ev]) s) :
    ∃ s1 a obs, Reach' sub s0 l s1 ∧ a ∈ enabled s1 true ∧ Conc.step sub s1 a = some (s, obs) ∧ ev = evOf sub s1 a := by
  generalize hl : l ++ [ev] = log at h
  cases h with
  | init => simp at hl
  | @step log' s1 a s' obs hr hen hs =>
    have := List.append_inj' hl rfl
    obtain ⟨e1, e2⟩ := this
    subst e1
    simp only [List.cons.injEq, and_true] at e2
    exact ⟨s1, a, obs, hr, hen, hs, e2⟩

/-- the action behind an event in the middle of a log -/
theorem Reach'.split {sub : Subject σ Op} {s0 s : Sys σ Op} {l1 l2 : List (Ev σ Op)} {ev : Ev σ Op}
    (h : Reach' sub s0 (l1 ++ ev :: l2) s) :
    ∃ s1 a s2 obs, Reach' sub s0 l1 s1 ∧ a ∈ enabled s1 true ∧ Conc.step sub s1 a = some (s2, obs) ∧ ev = evOf sub s1 a := by
  have : l1 ++ ev :: l2 = (l1 ++ [ev]) ++ l2 := by simp
  rw [this] at h
  obtain ⟨s2, h2⟩ := h.prefix
  obtain ⟨s1, a, obs, g1, g2, g3, g4⟩ := h2.snoc_inv
  exact ⟨s1, a, s2, obs, g1, g2, g3, g4⟩

/-- **The linearization point lies inside the operation.** Every segment of an operation instance
    (thread `t`, program counter `pc`) is its invocation segment or is preceded in the log by it. -/
theorem Reach'.invocation_before {sub : Subject σ Op} {i : σ} {programs : List (List Op)} {s : Sys σ Op}
    {l1 l2 : List (Ev σ Op)} {t pc : Nat} {op : Op} {first c : Bool} {pre : σ} {out : SegOut σ}
    (h : Reach' sub (initSys i programs) (l1 ++ Ev.seg t pc op first c pre out :: l2) s) :
    first = true ∨ ∃ c' pre' out', Ev.seg t pc op true c' pre' out' ∈ l1 := by
  obtain ⟨s1, a, s2, obs, hr, hen, hs, hev⟩ := h.split
  have hI := hr.rinv
  obtain ⟨-, -, hinfo⟩ := step_info hI.parkedOK hen hs
  cases hinfo with
  | seg t' th th' op' first' o ha hth hop hst ho hev' hsubj hth' hops hcanc hfin hoth =>
    rw [hev'] at hev
    cases hev
    cases first with
    | true => exact Or.inl rfl
    | false =>
      right
      have hw : th.st = .woken := by simpa using hst
      obtain ⟨op2, e1, e2, -⟩ := hI.inflight t th hth (Or.inl hw)
      rw [hop] at e1; cases e1
      exact e2
  | env t' ha hev' hsubj hths => rw [hev'] at hev; cases hev

/-- **An operation's invocation is the first thing that happens in it**: no segment of the same thread at
    the same or a later program counter precedes the invocation segment. -/
theorem Reach'.invocation_first {sub : Subject σ Op} {i : σ} {programs : List (List Op)} {s : Sys σ Op}
    {l1 l2 : List (Ev σ Op)} {t pc : Nat} {op : Op} {c : Bool} {pre : σ} {out : SegOut σ}
    (h : Reach' sub (initSys i programs) (l1 ++ Ev.seg t pc op true c pre out :: l2) s) :
    ∀ pc' op' f' c' pre' out', Ev.seg t pc' op' f' c' pre' out' ∈ l1 → pc' < pc := by
  obtain ⟨s1, a, s2, obs, hr, hen, hs, hev⟩ := h.split
  have hI := hr.rinv
  obtain ⟨-, -, hinfo⟩ := step_info hI.parkedOK hen hs
  cases hinfo with
  | seg t' th th' op' first' o ha hth hop hst ho hev' hsubj hth' hops hcanc hfin hoth =>
    rw [hev'] at hev
    cases hev
    intro pc' op2 f' c' pre' out' hmem
    have hidle : th.st = .idle := by simpa using hst
    rcases hI.fresh t th hth _ _ _ _ _ _ hmem with h1 | ⟨_, h2⟩
    · exact h1
    · rw [hidle] at h2
      rcases h2 with h2 | ⟨_, h2⟩ <;> cases h2
  | env t' ha hev' hsubj hths => rw [hev'] at hev; cases hev

/-- a segment sees a cancelled context only if a `cancel` action for its thread happened after the
    invocation of the operation it belongs to -/
theorem Reach'.cancel_before {sub : Subject σ Op} {i : σ} {programs : List (List Op)} {s : Sys σ Op}
    {l1 l2 : List (Ev σ Op)} {t pc : Nat} {op : Op} {first : Bool} {pre : σ} {out : SegOut σ}
    (h : Reach' sub (initSys i programs) (l1 ++ Ev.seg t pc op first true pre out :: l2) s) :
    first = false ∧ ∃ l1a l1b, l1 = l1a ++ [Ev.env (.cancel t)] ++ l1b ∧ ∀ ev ∈ l1b, ¬ ev.isStartOf t := by
  obtain ⟨s1, a, s2, obs, hr, hen, hs, hev⟩ := h.split
  have hI := hr.rinv
  obtain ⟨-, -, hinfo⟩ := step_info hI.parkedOK hen hs
  cases hinfo with
  | seg t' th th' op' first' o ha hth hop hst ho hev' hsubj hth' hops hcanc hfin hoth =>
    rw [hev'] at hev
    simp only [Ev.seg.injEq] at hev
    obtain ⟨rfl, rfl, rfl, rfl, hc, rfl, rfl⟩ := hev
    cases first with
    | true => simp at hc
    | false =>
      simp only [Bool.false_eq_true, if_false] at hc
      exact ⟨rfl, hI.cancelled t th hth hc.symm⟩
  | env t' ha hev' hsubj hths => rw [hev'] at hev; cases hev

/-! ### an executable way to build runs (used by the non-vacuity examples) -/

theorem Reach'.trans {sub : Subject σ Op} {s0 s1 s2 : Sys σ Op} {l1 l2 : List (Ev σ Op)}
    (h1 : Reach' sub s0 l1 s1) (h2 : Reach' sub s1 l2 s2) : Reach' sub s0 (l1 ++ l2) s2 := by
  induction h2 with
  | init => simpa using h1
  | step _ hen hs ih => rw [← List.append_assoc]; exact Reach'.step ih hen hs

/-- run a list of actions, each of which must be enabled -/
def runActs (sub : Subject σ Op) (s : Sys σ Op) : List Act → Option (Sys σ Op × List (Ev σ Op))
  | [] => some (s, [])
  | a :: rest =>
    if a ∈ enabled s true then
      match step sub s a with
      | some (s', _) =>
        match runActs sub s' rest with
        | some (s'', l) => some (s'', evOf sub s a :: l)
        | none => none
      | none => none
    else none

theorem runActs_reach {sub : Subject σ Op} {acts : List Act} : ∀ {s s' : Sys σ Op} {log : List (Ev σ Op)},
    runActs sub s acts = some (s', log) → Reach' sub s log s' := by
  induction acts with
  | nil => intro s s' log h; simp only [runActs, Option.some.injEq, Prod.mk.injEq] at h; rw [← h.1, ← h.2]; exact Reach'.init
  | cons a rest ih =>
    intro s s' log h
    simp only [runActs] at h
    by_cases hen : a ∈ enabled s true
    · simp only [hen, if_true] at h
      cases hs : step sub s a with
      | none => simp [hs] at h
      | some p =>
        obtain ⟨s1, obs⟩ := p
        simp only [hs] at h
        cases hr : runActs sub s1 rest with
        | none => simp [hr] at h
        | some q =>
          obtain ⟨s2, l⟩ := q
          simp only [hr, Option.some.injEq, Prod.mk.injEq] at h
          rw [← h.1, ← h.2]
          have h1 : Reach' sub s ([] ++ [evOf sub s a]) s1 := Reach'.step Reach'.init hen hs
          exact Reach'.trans h1 (ih hr)
    · simp [hen] at h


/-! ### what the driver executes is covered -/

theorem enabled_false_sub {s : Sys σ Op} {a : Act} (h : a ∈ enabled s false) : a ∈ enabled s true := by
  simp only [enabled, List.mem_append] at h ⊢
  rcases h with ((h | h) | h) | h
  · exact Or.inl (Or.inl (Or.inl h))
  · exact Or.inl (Or.inl (Or.inr h))
  · simp at h
  · exact Or.inr h

theorem runChoices_reach {sub : Subject σ Op} {s0 : Sys σ Op} (choices : List Nat) :
    ∀ (s : Sys σ Op) (l : List String), (∃ log, Reach' sub s0 log s) →
      ∃ log, Reach' sub s0 log (runChoices sub s choices l).1 := by
  induction choices with
  | nil => intro s l h; exact h
  | cons c rest ih =>
    intro s l h
    simp only [runChoices]
    split
    · exact h
    · split
      · exact h
      · rename_i a ha
        split
        · exact h
        · rename_i s' obs hs
          obtain ⟨log, hr⟩ := h
          exact ih s' _ ⟨_, Reach'.step hr (List.mem_of_getElem? ha) hs⟩

theorem drain_reach {sub : Subject σ Op} {s0 : Sys σ Op} (fuel : Nat) :
    ∀ (s : Sys σ Op) (l : List String), (∃ log, Reach' sub s0 log s) →
      ∃ log, Reach' sub s0 log (drain sub s fuel l).1 := by
  induction fuel with
  | zero => intro s l h; exact h
  | succ n ih =>
    intro s l h
    simp only [drain]
    split
    · exact h
    · rename_i a rest hen
      split
      · exact h
      · rename_i s' obs hs
        obtain ⟨log, hr⟩ := h
        have hmem : a ∈ enabled s true := enabled_false_sub (by rw [hen]; exact List.mem_cons_self)
        exact ih s' _ ⟨_, Reach'.step hr hmem hs⟩

/-- the system `runCase` ends in (its observation string is computed from this system and the per-action
    observations) -/
def runCaseSys (sub : Subject σ Op) (init : σ) (programs : List (List Op)) (choices : List Nat) : Sys σ Op :=
  (drain sub (runChoices sub (initSys init programs) choices []).1 200
    (runChoices sub (initSys init programs) choices []).2).1

/-- every case the driver runs (choice list, then the fixed drain policy) is a `Reach'` run -/
theorem runCase_reach (sub : Subject σ Op) (init : σ) (programs : List (List Op)) (choices : List Nat) :
    ∃ log, Reach' sub (initSys init programs) log (runCaseSys sub init programs choices) :=
  drain_reach 200 _ _ (runChoices_reach choices _ _ ⟨[], Reach'.init⟩)

/-- a Boolean check of the outcome of `runActs` yields a run with that property -/
theorem runActs_witness {sub : Subject σ Op} {s : Sys σ Op} {acts : List Act} (chk : Sys σ Op → List (Ev σ Op) → Bool)
    (h : (match runActs sub s acts with | some (s', log) => chk s' log | none => false) = true) :
    ∃ log s', Reach' sub s log s' ∧ chk s' log = true := by
  cases hr : runActs sub s acts with
  | none => simp [hr] at h
  | some p =>
    obtain ⟨s', log⟩ := p
    simp only [hr] at h
    exact ⟨log, s', runActs_reach hr, h⟩

end FunModel.ConcSubj
