import FunProofs.ServiceLog

/-! C10 helper lemmas, part 3: collector under the shutdown/handler goroutines, context-end reasons, thread-related log facts. -/

namespace FunModel.Service

set_option linter.unusedSimpArgs false

theorem SdStep.coll {c : Cfg} {s s' : State} (h : Coll c s) (hS : SdLog c s) (hs : SdStep c s s') : Coll c s' := by
  obtain ⟨h1, h2, h3, h4, h5, h6, h7, h8, h9, h10⟩ := h
  have hp := hS.inSdP
  clear hS
  cases hs <;> constructor <;>
    simp_all [SdLoc.rank, Outcome.adds, runPanics, Outcome.present, noFail, quiet] <;> grind [Outcome.adds]

theorem EhStep.coll {c : Cfg} {s s' : State} (h : Coll c s) (hs : EhStep c s s') : Coll c s' := by
  obtain ⟨h1, h2, h3, h4, h5, h6, h7, h8, h9, h10⟩ := h
  cases hs <;> constructor <;>
    simp_all [EhLoc.rank, Outcome.adds, runPanics, Outcome.present, noFail, quiet] <;> grind

/-- why the service context may have ended, as recorded in the log -/
structure CtxLog (c : Cfg) (s : State) : Prop where
  cc : s.cancelCalled = true → c.run.present = false ∨ has s.log (isEnd .run) = true ∨ has s.log isCloseCall = true
  pc1 : ∀ p ∈ s.cancelled, ∃ k, (k, Ev.cancelParent p) ∈ s.log
  pc2 : ∀ p, s.svcParent = some p → ∃ k t i, (k, Ev.call t i (.start p)) ∈ s.log

/-- the log only grows and the context flags do not change -/
theorem CtxLog.frame {c : Cfg} {s s' : State} (h : CtxLog c s) (k : Nat) (evs : List Ev)
    (hl : s'.log = s.log ++ stamp k evs) (e1 : s'.cancelCalled = s.cancelCalled)
    (e2 : s'.cancelled = s.cancelled) (e3 : s'.svcParent = s.svcParent) : CtxLog c s' := by
  obtain ⟨h1, h2, h3⟩ := h
  constructor <;> simp only [hl, e1, e2, e3, has_append]
  · intro hc; rcases h1 hc with h | h | h <;> simp [h]
  · intro p hp; obtain ⟨k, hk⟩ := h2 p hp; exact ⟨k, List.mem_append_left _ hk⟩
  · intro p hp; obtain ⟨k, t, i, hk⟩ := h3 p hp; exact ⟨k, t, i, List.mem_append_left _ hk⟩


def isStartRetNonNil : Ev → Bool
  | .ret _ _ .startAlready => true
  | .ret _ _ .startReturned => true
  | _ => false

/-! evaluation of the event predicates on each kind of event (all by `rfl`) -/
@[simp] theorem isWaitRes_call_start (t i p : Nat) : isWaitRes (.call t i (.start p)) = false := rfl
@[simp] theorem isWaitRes_call_close (t i : Nat) : isWaitRes (.call t i .close) = false := rfl
@[simp] theorem isWaitRes_call_wait (t i : Nat) : isWaitRes (.call t i .wait) = false := rfl
@[simp] theorem isWaitRes_call_running (t i : Nat) : isWaitRes (.call t i .running) = false := rfl
@[simp] theorem isWaitRes_ret_nil (t i : Nat) : isWaitRes (.ret t i .startNil) = false := rfl
@[simp] theorem isWaitRes_ret_already (t i : Nat) : isWaitRes (.ret t i .startAlready) = false := rfl
@[simp] theorem isWaitRes_ret_returned (t i : Nat) : isWaitRes (.ret t i .startReturned) = false := rfl
@[simp] theorem isWaitRes_ret_closed (t i : Nat) : isWaitRes (.ret t i .closed) = false := rfl
@[simp] theorem isWaitRes_ret_notstarted (t i : Nat) : isWaitRes (.ret t i .waitNotStarted) = false := rfl
@[simp] theorem isWaitRes_ret_res (t i : Nat) (ids : List Nat) : isWaitRes (.ret t i (.waitResult ids)) = true := rfl
@[simp] theorem isWaitRes_ret_running (t i : Nat) (b : Bool) : isWaitRes (.ret t i (.running b)) = false := rfl
@[simp] theorem isWaitRes_beg (ph : Phase) (agg : List Nat) : isWaitRes (.phBegin ph agg) = false := rfl
@[simp] theorem isWaitRes_end (ph : Phase) : isWaitRes (.phEnd ph) = false := rfl
@[simp] theorem isWaitRes_cancel (p : Nat) : isWaitRes (.cancelParent p) = false := rfl
@[simp] theorem isStartNil_call_start (t i p : Nat) : isStartNil (.call t i (.start p)) = false := rfl
@[simp] theorem isStartNil_call_close (t i : Nat) : isStartNil (.call t i .close) = false := rfl
@[simp] theorem isStartNil_call_wait (t i : Nat) : isStartNil (.call t i .wait) = false := rfl
@[simp] theorem isStartNil_call_running (t i : Nat) : isStartNil (.call t i .running) = false := rfl
@[simp] theorem isStartNil_ret_nil (t i : Nat) : isStartNil (.ret t i .startNil) = true := rfl
@[simp] theorem isStartNil_ret_already (t i : Nat) : isStartNil (.ret t i .startAlready) = false := rfl
@[simp] theorem isStartNil_ret_returned (t i : Nat) : isStartNil (.ret t i .startReturned) = false := rfl
@[simp] theorem isStartNil_ret_closed (t i : Nat) : isStartNil (.ret t i .closed) = false := rfl
@[simp] theorem isStartNil_ret_notstarted (t i : Nat) : isStartNil (.ret t i .waitNotStarted) = false := rfl
@[simp] theorem isStartNil_ret_res (t i : Nat) (ids : List Nat) : isStartNil (.ret t i (.waitResult ids)) = false := rfl
@[simp] theorem isStartNil_ret_running (t i : Nat) (b : Bool) : isStartNil (.ret t i (.running b)) = false := rfl
@[simp] theorem isStartNil_beg (ph : Phase) (agg : List Nat) : isStartNil (.phBegin ph agg) = false := rfl
@[simp] theorem isStartNil_end (ph : Phase) : isStartNil (.phEnd ph) = false := rfl
@[simp] theorem isStartNil_cancel (p : Nat) : isStartNil (.cancelParent p) = false := rfl
@[simp] theorem isStartCall_call_start (t i p : Nat) : isStartCall (.call t i (.start p)) = true := rfl
@[simp] theorem isStartCall_call_close (t i : Nat) : isStartCall (.call t i .close) = false := rfl
@[simp] theorem isStartCall_call_wait (t i : Nat) : isStartCall (.call t i .wait) = false := rfl
@[simp] theorem isStartCall_call_running (t i : Nat) : isStartCall (.call t i .running) = false := rfl
@[simp] theorem isStartCall_ret_nil (t i : Nat) : isStartCall (.ret t i .startNil) = false := rfl
@[simp] theorem isStartCall_ret_already (t i : Nat) : isStartCall (.ret t i .startAlready) = false := rfl
@[simp] theorem isStartCall_ret_returned (t i : Nat) : isStartCall (.ret t i .startReturned) = false := rfl
@[simp] theorem isStartCall_ret_closed (t i : Nat) : isStartCall (.ret t i .closed) = false := rfl
@[simp] theorem isStartCall_ret_notstarted (t i : Nat) : isStartCall (.ret t i .waitNotStarted) = false := rfl
@[simp] theorem isStartCall_ret_res (t i : Nat) (ids : List Nat) : isStartCall (.ret t i (.waitResult ids)) = false := rfl
@[simp] theorem isStartCall_ret_running (t i : Nat) (b : Bool) : isStartCall (.ret t i (.running b)) = false := rfl
@[simp] theorem isStartCall_beg (ph : Phase) (agg : List Nat) : isStartCall (.phBegin ph agg) = false := rfl
@[simp] theorem isStartCall_end (ph : Phase) : isStartCall (.phEnd ph) = false := rfl
@[simp] theorem isStartCall_cancel (p : Nat) : isStartCall (.cancelParent p) = false := rfl
@[simp] theorem isCloseCall_call_start (t i p : Nat) : isCloseCall (.call t i (.start p)) = false := rfl
@[simp] theorem isCloseCall_call_close (t i : Nat) : isCloseCall (.call t i .close) = true := rfl
@[simp] theorem isCloseCall_call_wait (t i : Nat) : isCloseCall (.call t i .wait) = false := rfl
@[simp] theorem isCloseCall_call_running (t i : Nat) : isCloseCall (.call t i .running) = false := rfl
@[simp] theorem isCloseCall_ret_nil (t i : Nat) : isCloseCall (.ret t i .startNil) = false := rfl
@[simp] theorem isCloseCall_ret_already (t i : Nat) : isCloseCall (.ret t i .startAlready) = false := rfl
@[simp] theorem isCloseCall_ret_returned (t i : Nat) : isCloseCall (.ret t i .startReturned) = false := rfl
@[simp] theorem isCloseCall_ret_closed (t i : Nat) : isCloseCall (.ret t i .closed) = false := rfl
@[simp] theorem isCloseCall_ret_notstarted (t i : Nat) : isCloseCall (.ret t i .waitNotStarted) = false := rfl
@[simp] theorem isCloseCall_ret_res (t i : Nat) (ids : List Nat) : isCloseCall (.ret t i (.waitResult ids)) = false := rfl
@[simp] theorem isCloseCall_ret_running (t i : Nat) (b : Bool) : isCloseCall (.ret t i (.running b)) = false := rfl
@[simp] theorem isCloseCall_beg (ph : Phase) (agg : List Nat) : isCloseCall (.phBegin ph agg) = false := rfl
@[simp] theorem isCloseCall_end (ph : Phase) : isCloseCall (.phEnd ph) = false := rfl
@[simp] theorem isCloseCall_cancel (p : Nat) : isCloseCall (.cancelParent p) = false := rfl
@[simp] theorem isStartRetNonNil_call_start (t i p : Nat) : isStartRetNonNil (.call t i (.start p)) = false := rfl
@[simp] theorem isStartRetNonNil_call_close (t i : Nat) : isStartRetNonNil (.call t i .close) = false := rfl
@[simp] theorem isStartRetNonNil_call_wait (t i : Nat) : isStartRetNonNil (.call t i .wait) = false := rfl
@[simp] theorem isStartRetNonNil_call_running (t i : Nat) : isStartRetNonNil (.call t i .running) = false := rfl
@[simp] theorem isStartRetNonNil_ret_nil (t i : Nat) : isStartRetNonNil (.ret t i .startNil) = false := rfl
@[simp] theorem isStartRetNonNil_ret_already (t i : Nat) : isStartRetNonNil (.ret t i .startAlready) = true := rfl
@[simp] theorem isStartRetNonNil_ret_returned (t i : Nat) : isStartRetNonNil (.ret t i .startReturned) = true := rfl
@[simp] theorem isStartRetNonNil_ret_closed (t i : Nat) : isStartRetNonNil (.ret t i .closed) = false := rfl
@[simp] theorem isStartRetNonNil_ret_notstarted (t i : Nat) : isStartRetNonNil (.ret t i .waitNotStarted) = false := rfl
@[simp] theorem isStartRetNonNil_ret_res (t i : Nat) (ids : List Nat) : isStartRetNonNil (.ret t i (.waitResult ids)) = false := rfl
@[simp] theorem isStartRetNonNil_ret_running (t i : Nat) (b : Bool) : isStartRetNonNil (.ret t i (.running b)) = false := rfl
@[simp] theorem isStartRetNonNil_beg (ph : Phase) (agg : List Nat) : isStartRetNonNil (.phBegin ph agg) = false := rfl
@[simp] theorem isStartRetNonNil_end (ph : Phase) : isStartRetNonNil (.phEnd ph) = false := rfl
@[simp] theorem isStartRetNonNil_cancel (p : Nat) : isStartRetNonNil (.cancelParent p) = false := rfl
@[simp] theorem isBegin_call_start (q : Phase) (t i p : Nat) : isBegin q (.call t i (.start p)) = false := rfl
@[simp] theorem isEnd_call_start (q : Phase) (t i p : Nat) : isEnd q (.call t i (.start p)) = false := rfl
@[simp] theorem isBegin_call_close (q : Phase) (t i : Nat) : isBegin q (.call t i .close) = false := rfl
@[simp] theorem isEnd_call_close (q : Phase) (t i : Nat) : isEnd q (.call t i .close) = false := rfl
@[simp] theorem isBegin_call_wait (q : Phase) (t i : Nat) : isBegin q (.call t i .wait) = false := rfl
@[simp] theorem isEnd_call_wait (q : Phase) (t i : Nat) : isEnd q (.call t i .wait) = false := rfl
@[simp] theorem isBegin_call_running (q : Phase) (t i : Nat) : isBegin q (.call t i .running) = false := rfl
@[simp] theorem isEnd_call_running (q : Phase) (t i : Nat) : isEnd q (.call t i .running) = false := rfl
@[simp] theorem isBegin_ret_nil (q : Phase) (t i : Nat) : isBegin q (.ret t i .startNil) = false := rfl
@[simp] theorem isEnd_ret_nil (q : Phase) (t i : Nat) : isEnd q (.ret t i .startNil) = false := rfl
@[simp] theorem isBegin_ret_already (q : Phase) (t i : Nat) : isBegin q (.ret t i .startAlready) = false := rfl
@[simp] theorem isEnd_ret_already (q : Phase) (t i : Nat) : isEnd q (.ret t i .startAlready) = false := rfl
@[simp] theorem isBegin_ret_returned (q : Phase) (t i : Nat) : isBegin q (.ret t i .startReturned) = false := rfl
@[simp] theorem isEnd_ret_returned (q : Phase) (t i : Nat) : isEnd q (.ret t i .startReturned) = false := rfl
@[simp] theorem isBegin_ret_closed (q : Phase) (t i : Nat) : isBegin q (.ret t i .closed) = false := rfl
@[simp] theorem isEnd_ret_closed (q : Phase) (t i : Nat) : isEnd q (.ret t i .closed) = false := rfl
@[simp] theorem isBegin_ret_notstarted (q : Phase) (t i : Nat) : isBegin q (.ret t i .waitNotStarted) = false := rfl
@[simp] theorem isEnd_ret_notstarted (q : Phase) (t i : Nat) : isEnd q (.ret t i .waitNotStarted) = false := rfl
@[simp] theorem isBegin_ret_res (q : Phase) (t i : Nat) (ids : List Nat) : isBegin q (.ret t i (.waitResult ids)) = false := rfl
@[simp] theorem isEnd_ret_res (q : Phase) (t i : Nat) (ids : List Nat) : isEnd q (.ret t i (.waitResult ids)) = false := rfl
@[simp] theorem isBegin_ret_running (q : Phase) (t i : Nat) (b : Bool) : isBegin q (.ret t i (.running b)) = false := rfl
@[simp] theorem isEnd_ret_running (q : Phase) (t i : Nat) (b : Bool) : isEnd q (.ret t i (.running b)) = false := rfl
@[simp] theorem isBegin_beg (q ph : Phase) (agg : List Nat) : isBegin q (.phBegin ph agg) = (ph == q) := rfl
@[simp] theorem isEnd_beg (q ph : Phase) (agg : List Nat) : isEnd q (.phBegin ph agg) = false := rfl
@[simp] theorem isBegin_end (q ph : Phase) : isBegin q (.phEnd ph) = false := rfl
@[simp] theorem isEnd_end (q ph : Phase) : isEnd q (.phEnd ph) = (ph == q) := rfl
@[simp] theorem isBegin_cancel (q : Phase) (p : Nat) : isBegin q (.cancelParent p) = false := rfl
@[simp] theorem isEnd_cancel (q : Phase) (p : Nat) : isEnd q (.cancelParent p) = false := rfl

/-- thread-related facts about the log (all in universal form) -/
structure ThLog (c : Cfg) (s : State) : Prop where
  ws : ∀ (t : Nat) (th : Thread), s.ths[t]? = some th → th.loc = .waitStarted → s.isStarted = true
  wf : has s.log isWaitRes = true → s.isFinished = true
  rc : ∀ (t : Nat) (th : Thread), s.ths[t]? = some th → th.loc = .runningChecked →
        ∀ x ∈ s.log, ∀ y ∈ s.log, isWaitRes x.2 = true → y.2 = .call t th.pc .running → y.1 ≤ x.1
  n1 : ∀ (t : Nat) (th : Thread), s.ths[t]? = some th → inClaim th.loc → countEv s.log isStartNil = 0
  n2 : s.claimed = false → countEv s.log isStartNil = 0
  n3 : s.claimed = true → (∀ (t : Nat) (th : Thread), s.ths[t]? = some th → ¬ inClaim th.loc) →
        countEv s.log isStartNil = 1
  sc : s.claimed = false →
        (∀ (t : Nat) (th : Thread), s.ths[t]? = some th → th.loc ≠ .startChecked ∧ th.loc ≠ .startSwapped) →
        has s.log isStartCall = false
  lp : s.claimed = false → (∀ (t : Nat) (th : Thread), s.ths[t]? = some th → th.loc ≠ .startSwapped) →
        s.isRunning = false

theorem forall_getElem?_set {α : Type} {l : List α} {t : Nat} {a : α} (ht : t < l.length) (P : Nat → α → Prop) :
    (∀ (u : Nat) (x : α), (l.set t a)[u]? = some x → P u x) ↔ P t a ∧ ∀ (u : Nat) (x : α), u ≠ t → l[u]? = some x → P u x := by
  constructor
  · intro h
    refine ⟨h t a (by simp [ht]), fun u x hne hu => h u x ?_⟩
    rw [List.getElem?_set_ne (fun e => hne e.symm)]; exact hu
  · rintro ⟨h1, h2⟩ u x hu
    rcases getElem?_set_cases hu with ⟨rfl, rfl⟩ | ⟨hne, hu'⟩
    · exact h1
    · exact h2 u x hne hu'

theorem lt_of_getElem? {α : Type} {l : List α} {t : Nat} {a : α} (h : l[t]? = some a) : t < l.length := by
  rcases Nat.lt_or_ge t l.length with h1 | h1
  · exact h1
  · simp [List.getElem?_eq_none h1] at h

theorem map_stamp (k : Nat) (evs : List Ev) : evs.map (fun e => (k, e)) = stamp k evs := rfl

macro "thnorm" : tactic => `(tactic|
  simp only [State.goto, State.finish, State.setTh, State.tick, map_stamp,
      has_append, has_stamp, countEv_append, countEv_stamp, List.mem_append, mem_stamp,
      List.any_cons, List.any_nil, List.filter_cons, List.filter_nil, List.nil_append, List.cons_append,
      List.mem_cons, List.not_mem_nil, List.mem_singleton, List.length_cons, List.length_nil,
      isWaitRes_call_start, isWaitRes_call_close, isWaitRes_call_wait, isWaitRes_call_running, isWaitRes_ret_nil,
      isWaitRes_ret_already, isWaitRes_ret_returned, isWaitRes_ret_closed, isWaitRes_ret_notstarted, isWaitRes_ret_res,
      isWaitRes_ret_running,
      isStartNil_call_start, isStartNil_call_close, isStartNil_call_wait, isStartNil_call_running, isStartNil_ret_nil,
      isStartNil_ret_already, isStartNil_ret_returned, isStartNil_ret_closed, isStartNil_ret_notstarted, isStartNil_ret_res,
      isStartNil_ret_running,
      isStartCall_call_start, isStartCall_call_close, isStartCall_call_wait, isStartCall_call_running, isStartCall_ret_nil,
      isStartCall_ret_already, isStartCall_ret_returned, isStartCall_ret_closed, isStartCall_ret_notstarted, isStartCall_ret_res,
      isStartCall_ret_running, Bool.or_false, Bool.false_or, Bool.or_true, Bool.true_or, if_true, if_false,
      Bool.false_eq_true, Nat.add_zero, Nat.zero_add, or_false, false_or])

set_option maxHeartbeats 4000000 in
theorem ThStep.thLog {c : Cfg} {s s' : State} {t : Nat} {th : Thread} (h : ThLog c s) (hT : InvT c s) (hG : InvG c s)
    (hclk : Clk s) (hth : s.ths[t]? = some th) (hs : ThStep c s t th s') : ThLog c s' := by
  obtain ⟨h1, h2, h3, h4, h5, h6, h7, h8⟩ := h
  have ht := lt_of_getElem? hth
  simp only [Clk] at hclk
  obtain ⟨g1, g2, g3, g4, g5, g6, g7, g8, g9, g10, g11⟩ := hT
  have f1 := hG.fin
  have f2 := hG.fresh
  have f3 := hG.wgEq
  have f4 := hG.launched
  clear hG
  cases hs with
  | startReturned =>
    constructor <;> thnorm <;> (try simp only [forall_getElem?_set ht]) <;> grind [inClaim, RgLoc.rank, liveRg]
  | startCheck =>
    constructor <;> thnorm <;> (try simp only [forall_getElem?_set ht]) <;> grind [inClaim, RgLoc.rank, liveRg]
  | startAlready =>
    constructor <;> thnorm <;> (try simp only [forall_getElem?_set ht]) <;> grind [inClaim, RgLoc.rank, liveRg]
  | startSwap =>
    constructor <;> thnorm <;> (try simp only [forall_getElem?_set ht]) <;> grind [inClaim, RgLoc.rank, liveRg]
  | startRecheck =>
    constructor <;> thnorm <;> (try simp only [forall_getElem?_set ht]) <;> grind [inClaim, RgLoc.rank, liveRg]
  | startClaim =>
    constructor <;> thnorm <;> (try simp only [forall_getElem?_set ht]) <;> grind [inClaim, RgLoc.rank, liveRg]
  | startUndo =>
    constructor <;> thnorm <;> (try simp only [forall_getElem?_set ht]) <;> grind [inClaim, RgLoc.rank, liveRg]
  | startLaunch =>
    constructor <;> thnorm <;> (try simp only [forall_getElem?_set ht]) <;> grind [inClaim, RgLoc.rank, liveRg]
  | startOnceDone =>
    constructor <;> thnorm <;> (try simp only [forall_getElem?_set ht]) <;> grind [inClaim, RgLoc.rank, liveRg]
  | startStore =>
    constructor <;> thnorm <;> (try simp only [forall_getElem?_set ht]) <;> grind [inClaim, RgLoc.rank, liveRg]
  | startNil =>
    constructor <;> thnorm <;> (try simp only [forall_getElem?_set ht]) <;> grind [inClaim, RgLoc.rank, liveRg]
  | close =>
    constructor <;> thnorm <;> (try simp only [forall_getElem?_set ht]) <;> grind [inClaim, RgLoc.rank, liveRg]
  | waitFinished =>
    constructor <;> thnorm <;> (try simp only [forall_getElem?_set ht]) <;> grind [inClaim, RgLoc.rank, liveRg]
  | waitCheck =>
    constructor <;> thnorm <;> (try simp only [forall_getElem?_set ht]) <;> grind [inClaim, RgLoc.rank, liveRg]
  | waitStarted =>
    constructor <;> thnorm <;> (try simp only [forall_getElem?_set ht]) <;> grind [inClaim, RgLoc.rank, liveRg]
  | waitNotStarted =>
    constructor <;> thnorm <;> (try simp only [forall_getElem?_set ht]) <;> grind [inClaim, RgLoc.rank, liveRg]
  | waitDone =>
    constructor <;> thnorm <;> (try simp only [forall_getElem?_set ht]) <;> grind [inClaim, RgLoc.rank, liveRg]
  | runningFinished =>
    constructor <;> thnorm <;> (try simp only [forall_getElem?_set ht]) <;> grind [inClaim, RgLoc.rank, liveRg]
  | runningCheck ho hl hf =>
    have hnw : ∀ x ∈ s.log, isWaitRes x.2 = true → False := by
      intro x hx hw; have := h2 (has_iff.mpr ⟨x, hx, hw⟩); simp [hf] at this
    constructor <;> thnorm <;> (try simp only [forall_getElem?_set ht]) <;> grind [inClaim, RgLoc.rank, liveRg]
  | runningLoad =>
    constructor <;> thnorm <;> (try simp only [forall_getElem?_set ht]) <;> grind [inClaim, RgLoc.rank, liveRg]


/-- a goroutine step or a parent cancellation: threads untouched, no call/return events -/
theorem ThLog.frameG {c : Cfg} {s s' : State} (h : ThLog c s) (k : Nat) (evs : List Ev)
    (e0 : s'.ths = s.ths) (hl : s'.log = s.log ++ stamp k evs)
    (hev : ∀ e ∈ evs, isWaitRes e = false ∧ isStartNil e = false ∧ isStartCall e = false ∧ (∀ t i op, e ≠ .call t i op))
    (e2 : s'.claimed = s.claimed) (e3 : s.isFinished = true → s'.isFinished = true)
    (e4 : s'.isRunning = true → s.isRunning = true) (e5 : s'.isStarted = s.isStarted) : ThLog c s' := by
  obtain ⟨h1, h2, h3, h4, h5, h6, h7, h8⟩ := h
  have z1 := has_stamp_false (k := k) (fun e he => (hev e he).1)
  have z2 := count_stamp_zero (k := k) (fun e he => (hev e he).2.1)
  have z3 := has_stamp_false (k := k) (fun e he => (hev e he).2.2.1)
  constructor <;> simp only [e0, hl, e2, e5, has_append, countEv_append, z1, z2, z3, Bool.or_false, Nat.add_zero]
  · exact h1
  · intro hw; exact e3 (h2 hw)
  · intro u x hu hloc a ha b hb hwa hcb
    have ha' : a ∈ s.log := by
      rcases List.mem_append.mp ha with h | h
      · exact h
      · rw [mem_stamp] at h; have := (hev _ h.2).1; simp [hwa] at this
    have hb' : b ∈ s.log := by
      rcases List.mem_append.mp hb with h | h
      · exact h
      · rw [mem_stamp] at h; exact absurd hcb ((hev _ h.2).2.2.2 _ _ _)
    exact h3 u x hu hloc a ha' b hb' hwa hcb
  · exact h4
  · exact h5
  · exact h6
  · exact h7
  · intro hc hall
    cases hr : s'.isRunning with
    | false => rfl
    | true => have := h8 hc hall; rw [e4 hr] at this; exact absurd this (by simp)


end FunModel.Service
