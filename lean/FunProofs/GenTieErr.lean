import FunGen.ErrShapes
import FunProofs.Err

/-! T-gen tie for C12: the hand-written error model (FunModel/Err.lean) against the tables and functions that
    tools/go2lean (errshapes.go) regenerates from `ers/merged.go`, `ers/ers.go`, `ers/panic.go`,
    `internal/wrap.go` on every run (lean/FunGen/ErrShapes.lean).

    Two layers. (1) *dispatch*: each regenerated type switch selects, for every dynamic type that can exist in
    Go, the arm the model's precedence (`pushArmOf`, `unwindArmOf`, …) names — proved by evaluating both on all
    2^9 capability vectors. (2) *meaning*: the interpreters of FunModel/ErrShapes.lean run with the model's
    precedence compute the model's functions (`Err.push`, `Err.unwind`, …) on every error tree — structural
    induction, nothing here mentions the generated file — and only ask the dispatch about valid dynamic types,
    so (1) carries them over to the regenerated tables. The pointer/field functions (`stackResolve`, `stackLink`,
    …) are related to the model directly, on the chain `ofItems xs` of every item list. -/

namespace FunProofs.GenTieErr
open FunModel FunModel.ErrShapes FunGen.ErrShapes

/-! ## dispatch -/

theorem push_dispatch : ∀ d : Dyn, d.valid = true → pushSwitch.select d = pushArmOf d := by
  intro ⟨a, b, c, d, e, f, g, h, i⟩
  revert a b c d e f g h i
  decide

theorem unwind_dispatch : ∀ d : Dyn, d.valid = true → unwindSwitch.select d = unwindArmOf d := by
  intro ⟨a, b, c, d, e, f, g, h, i⟩
  revert a b c d e f g h i
  decide

theorem panic_dispatch : ∀ d : Dyn, d.valid = true → parsePanicSwitch.select d = panicArmOf d := by
  intro ⟨a, b, c, d, e, f, g, h, i⟩
  revert a b c d e f g h i
  decide

theorem ok_dispatch : ∀ d : Dyn, d.valid = true → okSwitch.select d = okArmOf d := by
  intro ⟨a, b, c, d, e, f, g, h, i⟩
  revert a b c d e f g h i
  decide

theorem stack_methods (p : Pat) : Dyn.stack.has p = (p == .stackPtr || stackMethods.contains p) := by
  cases p <;> decide

theorem ofErr_valid (e : Err) : (Dyn.ofErr e).valid = true := by
  cases e <;> rfl

theorem ofOpt_valid (e : Option Err) : (Dyn.ofOpt e).valid = true := by
  cases e with
  | none => decide
  | some e => exact ofErr_valid e

theorem stack_valid : Dyn.stack.valid = true := by decide
theorem nil_valid : Dyn.nil.valid = true := by decide

/-! ## Push: the interpreter only asks about valid dynamic types … -/

mutual
theorem runPush_congr (sel sel' : Dyn → PushArm) (h : ∀ d, d.valid = true → sel d = sel' d) (acc : List Err) :
    (e : Err) → runPush sel acc e = runPush sel' acc e
  | .stack cs => by
      simp only [runPush, h _ stack_valid, runPushAll_congr sel sel' h acc cs]
  | .unwinder id cs => by
      simp only [runPush, h _ (ofErr_valid _), runPushAll_congr sel sel' h acc cs]
  | .multi id cs => by
      simp only [runPush, h _ (ofErr_valid _), runPushAll_congr sel sel' h acc cs]
  | .leaf id => by simp only [runPush, h _ (ofErr_valid _)]
  | .typed ty id => by simp only [runPush, h _ (ofErr_valid _)]
  | .wrap id inner => by simp only [runPush, h _ (ofErr_valid _)]
theorem runPushAll_congr (sel sel' : Dyn → PushArm) (h : ∀ d, d.valid = true → sel d = sel' d) (acc : List Err) :
    (cs : ErrList) → runPushAll sel acc cs = runPushAll sel' acc cs
  | .nil => by simp only [runPushAll]
  | .cons e r => by
      simp only [runPushAll, runPush_congr sel sel' h acc e, runPushAll_congr sel sel' h _ r]
  | .skip r => by
      simp only [runPushAll, h _ nil_valid, runPushAll_congr sel sel' h acc r]
end

/-! … and with the model's precedence it is the model's `Err.push` -/
mutual
theorem runPush_model (acc : List Err) : (e : Err) → runPush pushArmOf acc e = e.push acc
  | .stack cs => by
      simp [runPush, Err.push, pushStep, opens, pushArmOf, Dyn.stack, runPushAll_model acc cs]
  | .unwinder id cs => by
      simp [runPush, Err.push, pushStep, opens, pushArmOf, Dyn.ofErr, runPushAll_model acc cs]
  | .multi id cs => by
      simp [runPush, Err.push, pushStep, opens, pushArmOf, Dyn.ofErr, runPushAll_model acc cs]
  | .leaf id => by simp [runPush, Err.push, pushStep, pushArmOf, Dyn.ofErr]
  | .typed ty id => by simp [runPush, Err.push, pushStep, pushArmOf, Dyn.ofErr]
  | .wrap id inner => by simp [runPush, Err.push, pushStep, pushArmOf, Dyn.ofErr]
theorem runPushAll_model (acc : List Err) : (cs : ErrList) → runPushAll pushArmOf acc cs = cs.pushAll acc
  | .nil => by simp [runPushAll, ErrList.pushAll]
  | .cons e r => by
      simp [runPushAll, ErrList.pushAll, runPush_model acc e, runPushAll_model _ r]
  | .skip r => by
      simp [runPushAll, ErrList.pushAll, pushArmOf, Dyn.nil, runPushAll_model acc r]
end

theorem push_tie (acc : List Err) (e : Err) : push acc e = e.push acc := by
  unfold push
  rw [runPush_congr _ _ push_dispatch, runPush_model]

theorem pushAll_tie (acc : List Err) (es : ErrList) : pushAll acc es = es.pushAll acc := by
  unfold pushAll
  rw [runPushAll_congr _ _ push_dispatch, runPushAll_model]

theorem add_tie (acc : List Err) (es : ErrList) : add acc es = es.pushAll acc := by
  show runAdd addBody pushSwitch.select acc es = _
  have : addBody = .rangePush := by decide
  rw [this]
  exact pushAll_tie acc es

/-! ## the cell chain -/

theorem items_tailCells (xs : List Err) : items (tailCells xs) = xs := by
  induction xs with
  | nil => rfl
  | cons x r ih => simp [tailCells, items, ih]

theorem ofItems_nil : ofItems [] = [{ count := 0, err := none }] := rfl
theorem ofItems_cons (x : Err) (r : List Err) :
    ofItems (x :: r) = { count := ((r.length + 1 : Nat) : Int), err := some x } :: tailCells r := rfl

theorem items_ofItems (xs : List Err) : items (ofItems xs) = xs := by
  cases xs with
  | nil => rfl
  | cons x r => simp [ofItems_cons, items, items_tailCells]

/-- one link: the chain of `xs` becomes the chain of `x :: xs` -/
theorem link_tie (xs : List Err) (x : Err) : stackLink (ofItems xs) (some x) = some (ofItems (x :: xs)) := by
  cases xs with
  | nil => rfl
  | cons y r =>
    simp only [ofItems_cons]
    simp [stackLink, ldErr, ldNext, ldCount, stNext, stErr, stCount, mkNode, tailCells, bind, Option.bind]

/-- `Resolve` on the chain of `xs` is the model's `resolve xs` -/
theorem resolve_tie (xs : List Err) : (stackResolve (ofItems xs)).map StackRet.toErr = some (resolve xs) := by
  match xs with
  | [] => rfl
  | [x] => rfl
  | x :: y :: r =>
    have h0 : ¬ ((r.length : Int) + 1 + 1 = 0) := by omega
    have h1 : ¬ ((r.length : Int) + 1 + 1 = 1) := by omega
    have hi : items (tailCells r) = r := items_tailCells r
    simp [ofItems_cons, stackResolve, ptrIsNil, orP, cmpP, ldCount, ldErr, bind, Option.bind, h0, h1, StackRet.toErr,
      resolve, items, tailCells, hi]

theorem resolve_nilptr : stackResolve [] = some StackRet.nil := rfl

theorem len_tie (xs : List Err) : stackLen (ofItems xs) = some (xs.length : Int) := by
  cases xs with
  | nil => rfl
  | cons x r => rfl

theorem len_nilptr : stackLen [] = some 0 := rfl

theorem ok_tie (xs : List Err) : stackOk (ofItems xs) = some xs.isEmpty := by
  cases xs with
  | nil => rfl
  | cons x r => rfl

theorem ok_nilptr : stackOk [] = some true := rfl

/-! ## Join -/

theorem join_tie (es : ErrList) : FunGen.ErrShapes.join es = some (FunModel.join es) := by
  unfold FunGen.ErrShapes.join
  have hb : joinBody = [.zeroStack, .addSpread, .retResolve] := by decide
  rw [hb]
  simp only [runJoin, add_tie, resolve_tie]
  rfl

/-! ## internal.Unwind -/

theorem runUnwind_congr (sel sel' : Dyn → UnwindArm) (h : ∀ d, d.valid = true → sel d = sel' d) :
    (e : Err) → (out : List Err) → runUnwind sel out e = runUnwind sel' out e
  | .wrap id inner, out => by
      simp only [runUnwind, h _ (ofErr_valid _), runUnwind_congr sel sel' h inner]
  | .stack cs, out => by simp only [runUnwind, h _ stack_valid]
  | .leaf id, out => by simp only [runUnwind, h _ (ofErr_valid _)]
  | .typed ty id, out => by simp only [runUnwind, h _ (ofErr_valid _)]
  | .multi id cs, out => by simp only [runUnwind, h _ (ofErr_valid _)]
  | .unwinder id cs, out => by simp only [runUnwind, h _ (ofErr_valid _)]

theorem runUnwind_model : (e : Err) → (out : List Err) → runUnwind unwindArmOf out e = out ++ e.unwind
  | .wrap id inner, out => by
      simp [runUnwind, unwindStep, unwindArmOf, Dyn.ofErr, Err.unwind, runUnwind_model inner]
  | .stack cs, out => by simp [runUnwind, unwindStep, unwindArmOf, Dyn.stack, Err.unwind, many]
  | .leaf id, out => by simp [runUnwind, unwindStep, unwindArmOf, Dyn.ofErr, Err.unwind]
  | .typed ty id, out => by simp [runUnwind, unwindStep, unwindArmOf, Dyn.ofErr, Err.unwind]
  | .multi id cs, out => by simp [runUnwind, unwindStep, unwindArmOf, Dyn.ofErr, Err.unwind, many]
  | .unwinder id cs, out => by simp [runUnwind, unwindStep, unwindArmOf, Dyn.ofErr, Err.unwind, many]

theorem unwind_tie (e : Err) : unwind e = e.unwind := by
  unfold unwind
  rw [runUnwind_congr _ _ unwind_dispatch, runUnwind_model]
  simp

/-! ## Ok, Wrap, ParsePanic -/

theorem ok_fn_tie (e : Option Err) :
    ok e = some (match e with | none => true | some e => e.okStack) := by
  unfold ok runOk
  rw [ok_dispatch _ (ofOpt_valid e)]
  cases e with
  | none => rfl
  | some e =>
    cases e with
    | stack cs => simp [Dyn.ofOpt, Dyn.ofErr, okArmOf, Dyn.stack, ok_tie, Err.okStack]
    | _ => simp [Dyn.ofOpt, Dyn.ofErr, okArmOf, Err.okStack]

theorem wrap_tie (e : Option Err) (a : Nat) : wrap e a = some (wrapAnnot e a) := by
  unfold wrap
  rw [ok_fn_tie]
  cases e with
  | none => rfl
  | some e =>
    by_cases h : e.okStack = true
    · simp [h, runRet, wrapAnnot, bind, Option.bind]
    · simp [h, runRet, wrapAnnot, joinArgs, join_tie, bind, Option.bind]

theorem parsePanic_tie (r : Option Err) : parsePanic r = some (parsePanicErr r) := by
  unfold parsePanic runPanic
  rw [panic_dispatch _ (ofOpt_valid r)]
  cases r with
  | none => rfl
  | some e =>
    have : (Dyn.ofOpt (some e)).isNil = false ∧ (Dyn.ofOpt (some e)).error = true := by
      cases e <;> exact ⟨rfl, rfl⟩
    simp [panicArmOf, this.1, this.2, runRet, joinArgs, join_tie, parsePanicErr]

/-! ## errors.Is / errors.As through a `*Stack` -/

theorem stackIs_cons (c : Cell) (rest : Ptr) (t : Nat) : stackIs (c :: rest) t = some (isOpt c.err t) := rfl
theorem stackAs_cons (c : Cell) (rest : Ptr) (ty : Nat) : stackAs (c :: rest) ty = some (asOpt c.err ty) := rfl

/-- `Unwrap` hands out the next node unless there is none or it holds no error -/
theorem stackUnwrap_cons (c : Cell) (rest : Ptr) :
    stackUnwrap (c :: rest) = some (match rest with
      | [] => StackRet.nil
      | c' :: _ => if c'.err.isNone then StackRet.nil else StackRet.node rest) := by
  cases rest with
  | nil => rfl
  | cons c' r' => cases h : c'.err <;> simp [stackUnwrap, ldNext, ldErr, ptrIsNil, errIsNil, orP, bind, Option.bind, h]

theorem is_tail (t : Nat) : (r : List Err) → (fuel : Nat) → r.length < fuel →
    errorsIsStack stackIs stackUnwrap fuel (tailCells r) t = some (r.any (fun c => c.is t))
  | [], fuel + 1, _ => by simp [errorsIsStack, tailCells, stackIs_cons, stackUnwrap_cons, isOpt]
  | x :: r, fuel + 1, h => by
      have ih := is_tail t r fuel (by simpa using h)
      cases hx : x.is t with
      | true => simp [errorsIsStack, tailCells, stackIs_cons, isOpt, hx]
      | false =>
        cases r with
        | nil => simp [errorsIsStack, tailCells, stackIs_cons, stackUnwrap_cons, isOpt, hx]
        | cons y r' =>
          simp only [tailCells] at ih
          simp [errorsIsStack, tailCells, stackIs_cons, stackUnwrap_cons, isOpt, hx, ih]

/-- the standard library's `errors.Is` on a `*Stack`, run with the regenerated `Is` and `Unwrap` methods, finds
    exactly what the model's `Err.is` finds in a `stack` node -/
theorem is_tie (xs : List Err) (t : Nat) :
    errorsIsStack stackIs stackUnwrap (xs.length + 1) (ofItems xs) t = some ((Err.stack (ErrList.ofErrs xs)).is t) := by
  simp only [Err.is, ErrList.isAny_ofErrs]
  cases xs with
  | nil => simp [errorsIsStack, ofItems_nil, stackIs_cons, stackUnwrap_cons, isOpt]
  | cons x r =>
    have ih := is_tail t r (r.length + 1) (by simp)
    cases hx : x.is t with
    | true => simp [errorsIsStack, ofItems_cons, stackIs_cons, isOpt, hx]
    | false =>
      cases r with
      | nil => simp [errorsIsStack, ofItems_cons, tailCells, stackIs_cons, stackUnwrap_cons, isOpt, hx]
      | cons y r' =>
        simp only [tailCells] at ih
        simp only [List.length_cons] at ih
        simp [errorsIsStack, ofItems_cons, tailCells, stackIs_cons, stackUnwrap_cons, isOpt, hx, ih]

theorem as_tail (ty : Nat) : (r : List Err) → (fuel : Nat) → r.length < fuel →
    errorsAsStack stackAs stackUnwrap fuel (tailCells r) ty = some (r.findSome? (fun c => c.as ty))
  | [], fuel + 1, _ => by simp [errorsAsStack, tailCells, stackAs_cons, stackUnwrap_cons, asOpt]
  | x :: r, fuel + 1, h => by
      have ih := as_tail ty r fuel (by simpa using h)
      cases hx : x.as ty with
      | some id => simp [errorsAsStack, tailCells, stackAs_cons, asOpt, hx]
      | none =>
        cases r with
        | nil => simp [errorsAsStack, tailCells, stackAs_cons, stackUnwrap_cons, asOpt, hx]
        | cons y r' =>
          simp only [tailCells] at ih
          simp [errorsAsStack, tailCells, stackAs_cons, stackUnwrap_cons, asOpt, hx, ih]

theorem as_tie (xs : List Err) (ty : Nat) :
    errorsAsStack stackAs stackUnwrap (xs.length + 1) (ofItems xs) ty = some ((Err.stack (ErrList.ofErrs xs)).as ty) := by
  simp only [Err.as, ErrList.asFirst_ofErrs]
  cases xs with
  | nil => simp [errorsAsStack, ofItems_nil, stackAs_cons, stackUnwrap_cons, asOpt]
  | cons x r =>
    have ih := as_tail ty r (r.length + 1) (by simp)
    cases hx : x.as ty with
    | some id => simp [errorsAsStack, ofItems_cons, stackAs_cons, asOpt, hx]
    | none =>
      cases r with
      | nil => simp [errorsAsStack, ofItems_cons, tailCells, stackAs_cons, stackUnwrap_cons, asOpt, hx]
      | cons y r' =>
        simp only [tailCells] at ih
        simp only [List.length_cons] at ih
        simp [errorsAsStack, ofItems_cons, tailCells, stackAs_cons, stackUnwrap_cons, asOpt, hx, ih]

theorem helpers_tie : helpers = allHelpers := by decide

end FunProofs.GenTieErr
