import FunModel.WaitGroup
import FunProofs.Conc

/-! Invariants of `fun.WaitGroup` as a `Conc.Subject` (C14): helper discipline, "somebody parked ⇒
    counter ≠ 0", counter = sum of the completed non-panicking deltas, no stuck waiter. -/

namespace FunModel.WaitGroup
open FunModel.Conc

/-- only `Wait` parks, on condition 0 (`wg.cond`) -/
def condOf : Op → Option Nat
  | .wait => some 0
  | _ => none

theorem condOf_some {op : Op} {c : Nat} (h : condOf op = some c) : op = .wait ∧ c = 0 := by
  cases op <;> simp [condOf] at h
  exact ⟨rfl, h.symm⟩

/-- the initial system of a C14 case -/
def init (programs : List (List Op)) : Sys St Op := initSys {} programs

/-! ### the two segment functions -/

theorem start_park {σ : St} {t : Nat} {op : Op} {c : Nat} (h : (start σ t op).fin = .park c) :
    op = .wait ∧ c = 0 ∧ σ.counter ≠ 0 ∧ (start σ t op).sigs = [.spawn 0] ∧ (start σ t op).st = σ := by
  cases op with
  | add n => simp only [start] at h; split at h <;> cases h
  | wait =>
    by_cases h0 : σ.counter = 0
    · simp [start, h0] at h
    · simp [start, h0] at h ⊢; exact h.symm
  | num => cases h
  | isDone => cases h

theorem resume_park {σ : St} {t : Nat} {op : Op} {b : Bool} {c : Nat} (h : (resume σ t op b).fin = .park c) :
    op = .wait ∧ c = 0 ∧ b = false ∧ σ.counter ≠ 0 ∧ (resume σ t op b).sigs = [] ∧ (resume σ t op b).st = σ := by
  cases op with
  | add n => cases h
  | wait =>
    by_cases h0 : σ.counter = 0
    · simp [resume, h0] at h
    · cases b with
      | true => simp [resume, h0, waitLoop] at h
      | false => simp [resume, h0, waitLoop] at h ⊢; exact h.symm
  | num => cases h
  | isDone => cases h

@[simp] theorem resume_st (σ : St) (t : Nat) (op : Op) (b : Bool) : (resume σ t op b).st = σ := by
  cases op <;> simp only [resume, waitLoop] <;> (try split) <;> (try split) <;> rfl

/-- what any segment does to the counter and which signals it sends -/
structure SegFacts (σ : St) (o : SegOut St) : Prop where
  park : ∀ c, o.fin = .park c → o.st.counter ≠ 0
  zero : o.st.counter = 0 → σ.counter = 0 ∨ Sig.broadcast 0 ∈ o.sigs
  nonneg : 0 ≤ σ.counter → 0 ≤ o.st.counter

theorem start_facts (σ : St) (t : Nat) (op : Op) : SegFacts σ (start σ t op) := by
  refine ⟨?_, ?_, ?_⟩
  · intro c h; obtain ⟨_, _, h0, _, hst⟩ := start_park h; rw [hst]; exact h0
  · cases op with
    | add n =>
      simp only [start]
      split
      · intro h; exact Or.inl h
      · intro h; simp only at h; right; simp [h]
    | wait => simp only [start]; split <;> exact fun h => Or.inl h
    | num => exact fun h => Or.inl h
    | isDone => exact fun h => Or.inl h
  · cases op with
    | add n =>
      simp only [start]
      split
      · exact id
      · intro _; simp only; omega
    | wait => simp only [start]; split <;> exact id
    | num => exact id
    | isDone => exact id

theorem resume_facts (σ : St) (t : Nat) (op : Op) (b : Bool) : SegFacts σ (resume σ t op b) := by
  refine ⟨?_, ?_, ?_⟩
  · intro c h; obtain ⟨_, _, _, h0, _, hst⟩ := resume_park h; rw [hst]; exact h0
  · rw [resume_st]; exact Or.inl
  · rw [resume_st]; exact id

theorem seg_facts {s : Sys St Op} {t : Nat} {a : Act} {th0 : Th Op} {op : Op} {o : SegOut St}
    (h : IsSeg subject s t a th0 op o) : SegFacts s.subj o := by
  cases h with
  | start _ _ _ => exact start_facts s.subj t op
  | resume _ _ _ => exact resume_facts s.subj t op th0.cancelled

theorem parkOK {s : Sys St Op} {t : Nat} {a : Act} {th0 : Th Op} {op : Op} {o : SegOut St}
    (h : IsSeg subject s t a th0 op o) : ParkOK condOf condOf th0 op o := by
  intro c hc
  cases h with
  | start _ _ _ =>
    obtain ⟨rfl, rfl, _, hs, _⟩ := start_park hc
    refine ⟨rfl, rfl, ?_, Or.inl ?_⟩
    · show Sig.release ∉ (start _ _ _).sigs; rw [hs]; simp
    · show Sig.spawn 0 ∈ (start _ _ _).sigs; rw [hs]; simp
  | resume _ hst _ =>
    obtain ⟨rfl, rfl, hb, _, hs, _⟩ := resume_park hc
    refine ⟨hb, rfl, ?_, Or.inr ⟨hst, rfl⟩⟩
    show Sig.release ∉ (resume _ _ _ _).sigs; rw [hs]; simp

/-! ### the invariant -/

structure Inv (s : Sys St Op) : Prop where
  wf : s.WF
  disc : HelperInv (fun _ => condOf) s
  parked : ∀ (u : Nat) (th : Th Op) (c : Nat), s.ths[u]? = some th → th.st = .parked c → s.subj.counter ≠ 0
  nonneg : 0 ≤ s.subj.counter

theorem inv_init (programs : List (List Op)) : Inv (init programs) := by
  refine ⟨initSys_wf _ _, initSys_helperInv _ _ _, ?_, by simp [init, initSys]⟩
  intro u th c hth hp
  have := ((initSys_wf ({} : St) programs).parked_iff u c).2 ⟨th, hth, hp⟩
  simp [initSys] at this

theorem inv_step {s s' : Sys St Op} {a : Act} {obs : String} (h : Inv s) (hen : a ∈ enabled s true)
    (hs : step subject s a = some (s', obs)) : Inv s' := by
  have hwf' := step_wf h.wf hen hs
  have hdisc' : HelperInv (fun _ => condOf) s' :=
    h.disc.step h.wf hen hs (fun _ _ _ _ hseg => parkOK hseg) (fun _ _ _ _ _ => stable_const _ _ _ _)
  have seg : ∀ t, (a = .start t ∨ a = .resume t) → Inv s' := by
    intro t ha
    obtain ⟨th0, op, o, hseg, r⟩ := step_seg h.wf hen hs ha
    have f := seg_facts hseg
    refine ⟨hwf', hdisc', ?_, by rw [r.subj]; exact f.nonneg h.nonneg⟩
    intro u th' c hth' hp
    rw [r.subj]
    by_cases hut : u = t
    · subst hut
      rw [r.self] at hth'; cases hth'
      exact f.park c (finTh_parked_iff.1 hp)
    · intro h0
      have hth := r.parked_inv hut hth' hp
      rcases f.zero h0 with hz | hb
      · exact h.parked u th' c hth hp hz
      · obtain ⟨op', hop', hc'⟩ := (h.disc u th' hth).op_of_parked c hp
        obtain ⟨_, rfl⟩ := condOf_some hc'
        exact r.bcast_none hb hut hth' hp
  cases a with
  | start t => exact seg t (Or.inl rfl)
  | resume t => exact seg t (Or.inr rfl)
  | cancel t =>
    obtain ⟨_, _, _, _, _, hsubj, _, _⟩ := step_cancel_rel h.wf hen hs
    refine ⟨hwf', hdisc', ?_, by rw [hsubj]; exact h.nonneg⟩
    intro u th' c hth' hp
    obtain ⟨v, th, hth, hp'⟩ := parkedOn_of_cancel_fire h.wf hen hs (Or.inl rfl) ⟨u, th', hth', hp⟩
    rw [hsubj]; exact h.parked v th c hth hp'
  | fire t =>
    obtain ⟨_, _, _, _, _, hsubj, _, _⟩ := step_fire_rel h.wf hs
    refine ⟨hwf', hdisc', ?_, by rw [hsubj]; exact h.nonneg⟩
    intro u th' c hth' hp
    obtain ⟨v, th, hth, hp'⟩ := parkedOn_of_cancel_fire h.wf hen hs (Or.inr rfl) ⟨u, th', hth', hp⟩
    rw [hsubj]; exact h.parked v th c hth hp'

theorem reach_inv {programs : List (List Op)} {s : Sys St Op} (hr : Reach subject (init programs) s) : Inv s :=
  hr.inv Inv (inv_init programs) (fun _ _ _ _ _ hi hen hs => inv_step hi hen hs)

/-! ### Wait returns only if … / a covered Wait parks -/

/-- a segment of `Wait`: it returns iff the counter is 0 or (on a resume) the context is done;
    it never changes the counter -/
theorem wait_seg {s : Sys St Op} {t : Nat} {a : Act} {th0 : Th Op} {o : SegOut St}
    (hseg : IsSeg subject s t a th0 .wait o) :
    o.st = s.subj ∧
    ((s.subj.counter = 0 ∨ th0.cancelled = true) → ∃ rv, o.fin = .ret rv) ∧
    (¬ (s.subj.counter = 0 ∨ th0.cancelled = true) → o.fin = .park 0) := by
  cases hseg with
  | start _ _ _ =>
    show (start s.subj t .wait).st = _ ∧ (_ → ∃ rv, (start s.subj t .wait).fin = _) ∧ (_ → (start s.subj t .wait).fin = _)
    by_cases h0 : s.subj.counter = 0 <;> simp [start, h0]
  | resume _ _ _ =>
    show (resume s.subj t .wait th0.cancelled).st = _ ∧ (_ → ∃ rv, (resume s.subj t .wait th0.cancelled).fin = _) ∧
      (_ → (resume s.subj t .wait th0.cancelled).fin = _)
    by_cases h0 : s.subj.counter = 0
    · simp [resume, h0]
    · cases hc : th0.cancelled <;> simp [resume, h0, waitLoop]

/-- C14 `wait_returns_only_if`, system level -/
theorem wait_returns_only_if {programs : List (List Op)} {s s' : Sys St Op} {a : Act} {obs : String} {t : Nat}
    {th th' : Th Op} (hr : Reach subject (init programs) s) (hen : a ∈ enabled s true)
    (hs : step subject s a = some (s', obs)) (ha : a = .start t ∨ a = .resume t)
    (hth : s.ths[t]? = some th) (hop : th.ops[th.pc]? = some .wait)
    (hth' : s'.ths[t]? = some th') (hret : th'.pc = th.pc + 1) :
    (s.subj.counter = 0 ∨ (a = .resume t ∧ th.cancelled = true)) ∧ s'.subj = s.subj := by
  obtain ⟨th0, o, hseg, r, hpc, hres, hsta⟩ := seg_of_step (reach_inv hr).wf hen hs ha hth hop
  obtain ⟨hst, _, hpark⟩ := wait_seg hseg
  refine ⟨?_, by rw [r.subj, hst]⟩
  by_cases hcond : s.subj.counter = 0 ∨ th0.cancelled = true
  · rcases hcond with h0 | hc
    · exact Or.inl h0
    · right
      rcases ha with rfl | rfl
      · rw [hsta rfl] at hc; cases hc
      · exact ⟨rfl, by rw [← hres rfl]; exact hc⟩
  · have hp := hpark hcond
    have := (r.returned_iff hth').2 (by rw [hpc]; exact hret)
    rw [hp] at this; obtain ⟨_, h⟩ := this; cases h

/-- C14 `launch_covered`, step form: a `Wait` segment that runs while the counter is not 0 with a live
    context parks (on `wg.cond`) instead of returning -/
theorem wait_parks {programs : List (List Op)} {s s' : Sys St Op} {a : Act} {obs : String} {t : Nat}
    {th th' : Th Op} (hr : Reach subject (init programs) s) (hen : a ∈ enabled s true)
    (hs : step subject s a = some (s', obs)) (ha : a = .start t ∨ a = .resume t)
    (hth : s.ths[t]? = some th) (hop : th.ops[th.pc]? = some .wait)
    (hcnt : s.subj.counter ≠ 0) (hlive : a = .resume t → th.cancelled = false)
    (hth' : s'.ths[t]? = some th') : th'.st = .parked 0 ∧ th'.pc = th.pc ∧ s'.subj = s.subj := by
  obtain ⟨th0, o, hseg, r, hpc, hres, hsta⟩ := seg_of_step (reach_inv hr).wf hen hs ha hth hop
  obtain ⟨hst, _, hpark⟩ := wait_seg hseg
  have hlive0 : th0.cancelled = false := by
    rcases ha with rfl | rfl
    · exact hsta rfl
    · rw [hres rfl]; exact hlive rfl
  have hp := hpark (by rw [hlive0]; simp [hcnt])
  refine ⟨(r.parked_iff hth' 0).1 hp, ?_, by rw [r.subj, hst]⟩
  rw [r.self_eq hth', hp]; exact hpc

/-! ### no stuck waiter -/

/-- C14 `no_stuck_wg`: a parked thread is inside `Wait`, on `wg.cond`, and the counter is not 0 —
    in every reachable state; at quiescence moreover its context is live -/
theorem parked_facts {programs : List (List Op)} {s : Sys St Op} (hr : Reach subject (init programs) s)
    {t : Nat} {th : Th Op} {c : Nat} (hth : s.ths[t]? = some th) (hp : th.st = .parked c) :
    th.ops[th.pc]? = some .wait ∧ c = 0 ∧ s.subj.counter ≠ 0 ∧ Live 0 th.helpers ∧
      (th.cancelled = true → Pending 0 th.helpers) := by
  have hi := reach_inv hr
  have hd := hi.disc t th hth
  obtain ⟨op, hop, hc⟩ := hd.op_of_parked c hp
  obtain ⟨rfl, rfl⟩ := condOf_some hc
  exact ⟨hop, rfl, hi.parked t th 0 hth hp, hd.live hp, hd.pending 0 hp⟩

theorem no_stuck {programs : List (List Op)} {s : Sys St Op} (hr : Reach subject (init programs) s)
    (q : Quiescent s) {t : Nat} {th : Th Op} {c : Nat} (hth : s.ths[t]? = some th) (hp : th.st = .parked c) :
    s.subj.counter ≠ 0 ∧ th.cancelled = false :=
  ⟨(parked_facts hr hth hp).2.2.1, (reach_inv hr).disc.not_cancelled q hth hp⟩

/-! ### the counter is the sum of the completed deltas -/

/-- the delta an executed segment contributed: `n` for an `Add(n)` that returned normally
    (observation `ret:ok`), nothing for a panicking `Add` and for every other operation -/
def delta (ev : Ev Op) : Int :=
  match ev.op with
  | .add n => if ev.fin = .ret "ok" then n else 0
  | _ => 0

def deltaSum (evs : List (Ev Op)) : Int := (evs.map delta).sum

theorem deltaSum_append (evs : List (Ev Op)) (ev : Ev Op) : deltaSum (evs ++ [ev]) = deltaSum evs + delta ev := by
  simp [deltaSum]

theorem start_counter (σ : St) (t : Nat) (op : Op) :
    (start σ t op).st.counter = σ.counter + delta ⟨t, op, (start σ t op).fin⟩ := by
  cases op with
  | add n =>
    simp only [start, delta]
    split
    · simp
    · simp
  | wait => simp only [start, delta]; split <;> simp
  | num => simp [start, delta]
  | isDone => simp [start, delta]

theorem resume_counter (σ : St) (t : Nat) (op : Op) (b : Bool) :
    (resume σ t op b).st.counter = σ.counter + delta ⟨t, op, (resume σ t op b).fin⟩ := by
  rw [resume_st]
  cases op with
  | add n => simp only [resume, delta]; simp
  | wait => simp [delta]
  | num => simp [delta]
  | isDone => simp [delta]

/-- C14 `counter_is_sum` -/
theorem counter_sum {programs : List (List Op)} {evs : List (Ev Op)} {s : Sys St Op}
    (h : ReachT subject (init programs) evs s) : s.subj.counter = deltaSum evs := by
  induction h with
  | init => rfl
  | @seg evs s s' a obs t th0 op o hr hen hs hseg ih =>
    have r := hseg.rel (reach_inv hr.reach).wf hen hs
    rw [r.subj, deltaSum_append, ← ih]
    cases hseg with
    | start _ _ _ => exact start_counter _ _ _
    | resume _ _ _ => exact resume_counter _ _ _ _
  | other hr hen hs ha ih =>
    rw [← ih]
    rcases ha with rfl | rfl
    · obtain ⟨_, _, _, _, _, hsubj, _, _⟩ := step_cancel_rel (reach_inv hr.reach).wf hen hs; rw [hsubj]
    · obtain ⟨_, _, _, _, _, hsubj, _, _⟩ := step_fire_rel (reach_inv hr.reach).wf hs; rw [hsubj]

/-! ### Launch-shaped programs: the counter counts the launches in flight

    `Launch(op)` is `Inc(); go { op; Done() }`: in the model a thread whose program has `add 1 … add (-1)`
    blocks. More generally a list of programs is `Balanced` when in every program every prefix has a
    non-negative delta sum (each `Done` is preceded, in its own thread, by the `Add` it matches). Then no
    `Add` ever panics and the counter is exactly the sum over the threads of the deltas they have
    completed — so while some thread is strictly inside a launch the counter is ≥ 1. -/

def opDelta : Op → Int
  | .add n => n
  | _ => 0

/-- sum of the deltas of the first `n` operations of a program -/
def prefixSum (ops : List Op) (n : Nat) : Int := ((ops.take n).map opDelta).sum

def Balanced (programs : List (List Op)) : Prop := ∀ p ∈ programs, ∀ n, 0 ≤ prefixSum p n

theorem prefixSum_succ {ops : List Op} {n : Nat} {op : Op} (h : ops[n]? = some op) :
    prefixSum ops (n + 1) = prefixSum ops n + opDelta op := by
  simp [prefixSum, List.take_add_one, h]

/-- the deltas a thread has completed -/
def doneOf (th : Th Op) : Int := prefixSum th.ops th.pc

theorem sum_pointwise (g : Th Op → Int) : ∀ (l l' : List (Th Op)) (t : Nat) (x x' : Th Op),
    (∀ (u : Nat), l[u]? = none → l'[u]? = none) → l[t]? = some x → l'[t]? = some x' →
    (∀ (u : Nat), u ≠ t → ∀ y, l[u]? = some y → ∃ y', l'[u]? = some y' ∧ g y' = g y) →
    (l'.map g).sum = (l.map g).sum - g x + g x' := by
  have same : ∀ (l l' : List (Th Op)), (∀ (u : Nat), l[u]? = none → l'[u]? = none) →
      (∀ (u : Nat) y, l[u]? = some y → ∃ y', l'[u]? = some y' ∧ g y' = g y) → (l'.map g).sum = (l.map g).sum := by
    intro l
    induction l with
    | nil =>
      intro l' hn _
      cases l' with
      | nil => rfl
      | cons a r => have := hn 0 rfl; simp at this
    | cons a r ih =>
      intro l' hn hs
      cases l' with
      | nil => obtain ⟨_, h, _⟩ := hs 0 a rfl; simp at h
      | cons a' r' =>
        obtain ⟨y', hy', hg⟩ := hs 0 a rfl
        simp at hy'; subst hy'
        have := ih r' (fun u hu => by simpa using hn (u + 1) (by simpa using hu))
          (fun u y hy => by simpa using hs (u + 1) y (by simpa using hy))
        simp [this, hg]
  intro l
  induction l with
  | nil => intro l' t x x' _ ht; simp at ht
  | cons a r ih =>
    intro l' t x x' hn ht ht' hoth
    cases l' with
    | nil => simp at ht'
    | cons a' r' =>
      cases t with
      | zero =>
        simp at ht ht'; subst ht; subst ht'
        have := same r r' (fun u hu => by simpa using hn (u + 1) (by simpa using hu))
          (fun u y hy => by simpa using hoth (u + 1) (by omega) y (by simpa using hy))
        simp [this]; omega
      | succ t =>
        obtain ⟨y', hy', hg⟩ := hoth 0 (by omega) a rfl
        simp at hy'; subst hy'
        have := ih r' t x x' (fun u hu => by simpa using hn (u + 1) (by simpa using hu))
          (by simpa using ht) (by simpa using ht')
          (fun u hu y hy => by simpa using hoth (u + 1) (by omega) y (by simpa using hy))
        simp [this, hg]; omega

theorem le_sum_of_nonneg : ∀ (l : List Int) (t : Nat) (x : Int), (∀ y ∈ l, 0 ≤ y) → l[t]? = some x → x ≤ l.sum := by
  intro l
  induction l with
  | nil => intro t x _ h; simp at h
  | cons a r ih =>
    intro t x hnn ht
    have hr : 0 ≤ r.sum := by
      clear ih ht
      induction r with
      | nil => simp
      | cons b r' ih' =>
        have := hnn b (by simp)
        have := ih' (fun y hy => hnn y (by rcases List.mem_cons.1 hy with h | h <;> simp [h]))
        simp; omega
    cases t with
    | zero => simp at ht; subst ht; simp; omega
    | succ t =>
      have := ih t x (fun y hy => hnn y (List.mem_cons_of_mem _ hy)) (by simpa using ht)
      have := hnn a (by simp)
      simp; omega

structure BInv (s : Sys St Op) : Prop where
  nonneg : ∀ (u : Nat) (th : Th Op), s.ths[u]? = some th → ∀ n, 0 ≤ prefixSum th.ops n
  woken : ∀ (u : Nat) (th : Th Op), s.ths[u]? = some th → th.st = .woken → th.ops[th.pc]? = some .wait
  sum : s.subj.counter = (s.ths.map doneOf).sum

theorem binv_init {programs : List (List Op)} (hb : Balanced programs) : BInv (init programs) := by
  refine ⟨?_, ?_, ?_⟩
  · intro u th hth n
    simp only [init, initSys, List.getElem?_map] at hth
    cases hp : programs[u]? with
    | none => simp [hp] at hth
    | some p => simp [hp] at hth; subst hth; exact hb p (List.mem_of_getElem? hp) n
  · intro u th hth hw
    simp only [init, initSys, List.getElem?_map] at hth
    cases hp : programs[u]? with
    | none => simp [hp] at hth
    | some p => simp [hp] at hth; subst hth; simp only at hw; split at hw <;> cases hw
  · show (0 : Int) = _
    simp only [init, initSys, List.map_map]
    induction programs with
    | nil => rfl
    | cons p r ih =>
      have := ih (fun q hq => hb q (List.mem_cons_of_mem _ hq))
      simp [doneOf, prefixSum] at this ⊢
      exact this

theorem binv_step {s s' : Sys St Op} {a : Act} {obs : String} (hi : Inv s) (h : BInv s) (hen : a ∈ enabled s true)
    (hs : step subject s a = some (s', obs)) : BInv s' := by
  have seg : ∀ t, (a = .start t ∨ a = .resume t) → BInv s' := by
    intro t ha
    obtain ⟨th0, op, o, hseg, r⟩ := step_seg hi.wf hen hs ha
    obtain ⟨tht, htht, hops, hpc, hst0, _, hop0, _, _⟩ := hseg.basic
    have hnn := h.nonneg t tht htht
    -- the counter without thread `t`'s own share is non-negative
    have hothers : doneOf tht ≤ s.subj.counter := by
      rw [h.sum]
      apply le_sum_of_nonneg _ t
      · intro y hy
        obtain ⟨th, hm, rfl⟩ := List.mem_map.1 hy
        obtain ⟨u, hu⟩ := List.getElem?_of_mem hm
        exact h.nonneg u th hu th.pc
      · simp [htht]
    -- the segment changes the counter by exactly what it adds to `done`
    have hkey : o.st.counter = s.subj.counter +
        (doneOf (finTh o.fin { th0 with helpers := sigHelpers o.sigs th0.helpers }) - doneOf tht) := by
      have hop1 : tht.ops[tht.pc]? = some op := by rw [← hops, ← hpc]; exact hop0
      have hsucc := prefixSum_succ hop1
      cases hseg with
      | start hth hst _ =>
        rw [htht] at hth; cases hth
        cases op with
        | add n =>
          have hno : ¬ (s.subj.counter + n < 0) := by
            have := hnn (tht.pc + 1); rw [hsucc] at this
            simp only [doneOf] at hothers; simp only [opDelta] at this; omega
          show (start s.subj t (.add n)).st.counter = _ + (doneOf (finTh (start s.subj t (.add n)).fin _) - _)
          simp only [start, hno, if_false, finTh_ret, doneOf]
          rw [hsucc]; simp [opDelta]; omega
        | wait =>
          show (start s.subj t .wait).st.counter = _ + (doneOf (finTh (start s.subj t .wait).fin _) - _)
          simp only [start]
          split
          · simp only [finTh_ret, doneOf]; rw [hsucc]; simp [opDelta]
          · simp [doneOf]
        | num =>
          show (start s.subj t .num).st.counter = _ + (doneOf (finTh (start s.subj t .num).fin _) - _)
          simp only [start, finTh_ret, doneOf]; rw [hsucc]; simp [opDelta]
        | isDone =>
          show (start s.subj t .isDone).st.counter = _ + (doneOf (finTh (start s.subj t .isDone).fin _) - _)
          simp only [start, finTh_ret, doneOf]; rw [hsucc]; simp [opDelta]
      | resume hth hst _ =>
        rw [htht] at hth; cases hth
        have hw := h.woken t th0 htht hst
        rw [hop0] at hw; cases hw
        show (resume s.subj t .wait th0.cancelled).st.counter = _ + (doneOf (finTh (resume s.subj t .wait th0.cancelled).fin _) - _)
        rw [resume_st]
        simp only [resume, waitLoop]
        split
        · simp only [finTh_ret, doneOf]; rw [hsucc]; simp [opDelta]
        · split
          · simp only [finTh_ret, doneOf]; rw [hsucc]; simp [opDelta]
          · simp [doneOf]
    refine ⟨?_, ?_, ?_⟩
    · intro u th' hth' n
      by_cases hut : u = t
      · subst hut
        rw [r.self_eq hth', finTh_ops]; simp only; rw [hops]; exact hnn n
      · obtain ⟨th, hth, w⟩ := r.other_inv hut hth'
        rw [w.ops]; exact h.nonneg u th hth n
    · intro u th' hth' hw
      by_cases hut : u = t
      · subst hut
        rw [r.self_eq hth'] at hw
        cases hfin : o.fin with
        | ret rv => rw [hfin, finTh_ret] at hw; simp only at hw; split at hw <;> cases hw
        | park c => rw [hfin] at hw; simp at hw
      · obtain ⟨th, hth, w⟩ := r.other_inv hut hth'
        rw [w.ops, w.pc]
        rcases w.st with e | ⟨_, c, hc⟩
        · exact h.woken u th hth (by rw [← e]; exact hw)
        · obtain ⟨op', hop', hcond⟩ := (hi.disc u th hth).op_of_parked c hc
          obtain ⟨rfl, _⟩ := condOf_some hcond
          exact hop'
    · rw [r.subj, hkey, h.sum]
      have := sum_pointwise doneOf s.ths s'.ths t tht _ r.none htht r.self (by
        intro u hu y hy
        obtain ⟨y', hy', w⟩ := r.other u y hu hy
        exact ⟨y', hy', by simp [doneOf, w.ops, w.pc]⟩)
      rw [this]; omega
  have cf : ∀ t, (a = .cancel t ∨ a = .fire t) → BInv s' := by
    intro t ha
    obtain ⟨hsubj, hthr⟩ := cancel_fire_thread hi.wf hen hs ha
    have back : ∀ (u : Nat) (th' : Th Op), s'.ths[u]? = some th' → ∃ th, s.ths[u]? = some th ∧ th'.ops = th.ops ∧
        th'.pc = th.pc ∧ (th'.st = th.st ∨ (th'.st = .woken ∧ ∃ c, th.st = .parked c)) := by
      intro u th' hth'
      cases hth : s.ths[u]? with
      | none => rw [(hthr u).2 hth] at hth'; cases hth'
      | some th =>
        obtain ⟨th'', hth'', r⟩ := (hthr u).1 th hth
        rw [hth'] at hth''; cases hth''
        exact ⟨th, rfl, r⟩
    refine ⟨?_, ?_, ?_⟩
    · intro u th' hth' n
      obtain ⟨th, hth, hops, _, _⟩ := back u th' hth'
      rw [hops]; exact h.nonneg u th hth n
    · intro u th' hth' hw
      obtain ⟨th, hth, hops, hpc, hst⟩ := back u th' hth'
      rw [hops, hpc]
      rcases hst with e | ⟨_, c, hc⟩
      · exact h.woken u th hth (by rw [← e]; exact hw)
      · obtain ⟨op', hop', hcond⟩ := (hi.disc u th hth).op_of_parked c hc
        obtain ⟨rfl, _⟩ := condOf_some hcond
        exact hop'
    · rw [hsubj, h.sum]
      -- every thread keeps its `done`
      have hlen : ∀ u, s.ths[u]? = none → s'.ths[u]? = none := fun u => (hthr u).2
      have : ∀ (l l' : List (Th Op)), (∀ (u : Nat), l[u]? = none → l'[u]? = none) →
          (∀ (u : Nat) y, l[u]? = some y → ∃ y', l'[u]? = some y' ∧ doneOf y' = doneOf y) →
          (l'.map doneOf).sum = (l.map doneOf).sum := by
        intro l
        induction l with
        | nil =>
          intro l' hn _
          cases l' with
          | nil => rfl
          | cons a r => have := hn 0 rfl; simp at this
        | cons a r ih =>
          intro l' hn hs
          cases l' with
          | nil => obtain ⟨_, h, _⟩ := hs 0 a rfl; simp at h
          | cons a' r' =>
            obtain ⟨y', hy', hg⟩ := hs 0 a rfl
            simp at hy'; subst hy'
            have := ih r' (fun u hu => by simpa using hn (u + 1) (by simpa using hu))
              (fun u y hy => by simpa using hs (u + 1) y (by simpa using hy))
            simp [this, hg]
      exact (this s.ths s'.ths hlen (fun u y hy => by
        obtain ⟨y', hy', hops, hpc, _⟩ := (hthr u).1 y hy
        exact ⟨y', hy', by simp [doneOf, hops, hpc]⟩)).symm
  cases a with
  | start t => exact seg t (Or.inl rfl)
  | resume t => exact seg t (Or.inr rfl)
  | cancel t => exact cf t (Or.inl rfl)
  | fire t => exact cf t (Or.inr rfl)

theorem reach_binv {programs : List (List Op)} (hb : Balanced programs) {s : Sys St Op}
    (hr : Reach subject (init programs) s) : BInv s := by
  have := hr.inv (fun s => Inv s ∧ BInv s) ⟨inv_init programs, binv_init hb⟩
    (fun _ _ _ _ _ hi hen hs => ⟨inv_step hi.1 hen hs, binv_step hi.1 hi.2 hen hs⟩)
  exact this.2

/-- with balanced programs the counter is at least what any single thread has in flight -/
theorem counter_ge_inflight {programs : List (List Op)} (hb : Balanced programs) {s : Sys St Op}
    (hr : Reach subject (init programs) s) {p : Nat} {thp : Th Op} (hp : s.ths[p]? = some thp) :
    doneOf thp ≤ s.subj.counter := by
  have h := reach_binv hb hr
  rw [h.sum]
  apply le_sum_of_nonneg _ p
  · intro y hy
    obtain ⟨th, hm, rfl⟩ := List.mem_map.1 hy
    obtain ⟨u, hu⟩ := List.getElem?_of_mem hm
    exact h.nonneg u th hu th.pc
  · simp [hp]

/-- with balanced programs no `Add` panics -/
theorem balanced_no_panic {programs : List (List Op)} (hb : Balanced programs) {s : Sys St Op}
    (hr : Reach subject (init programs) s) {t : Nat} {th : Th Op} {n : Int} (hth : s.ths[t]? = some th)
    (hop : th.ops[th.pc]? = some (.add n)) : ¬ (s.subj.counter + n < 0) := by
  have h1 := counter_ge_inflight hb hr hth
  have h2 := (reach_binv hb hr).nonneg t th hth (th.pc + 1)
  rw [prefixSum_succ hop] at h2
  simp only [doneOf, opDelta] at h1 h2
  omega

end FunModel.WaitGroup
