import FunModel.Pipe

/-! Helper lemmas for the Feeder process model (C01/C04): the inductive invariant, its lifting to
    every reachable state, the decreasing measure and the enabledness case analyses. -/
namespace FunModel.Pipe.Feeder

/-- the inductive invariant of the Feeder model -/
structure Inv (c : Cfg) (input : List Nat) (s : St) : Prop where
  /-- exact order: delivered, then buffered, then held by the feeder, then given up, then unread -/
  order : s.got ++ s.pipe ++ s.fd.held ++ s.dropped ++ s.src = input
  pclosed_iff : s.pclosed = true ↔ s.fd = .exited
  parked_started : s.cons = .parked → s.fd ≠ .notStarted
  done_wdone : s.cons = .done → s.wdone = true
  dropped_exited : s.fd ≠ .exited → s.dropped = []
  /-- while no environment close/cancel has happened the run is failure-free -/
  clean : s.envStopped = false →
     s.dropped = [] ∧ s.ucancel = false ∧ (s.fd = .exited → s.src = []) ∧
     (s.closed = true → s.cons = .done ∧ s.pipe = [] ∧ s.fd = .exited)
  waiters_once : c.onceGo = false → s.waiters = 0
  waiters_started : s.fd = .notStarted → s.waiters = 0

theorem inv_init (c : Cfg) (input : List Nat) (k1 k2 : Nat) : Inv c input (init c input k1 k2) := by
  constructor <;> cases hc : c.eager <;> simp [init, hc, GState.held, St.wdone]

theorem step_inv {c : Cfg} {input : List Nat} {s s' : St} {a : Act}
    (h : Inv c input s) (hs : step c s a = some s') : Inv c input s' := by
  obtain ⟨h1, h2, h3, h4, h5, h6, h7, h8⟩ := h
  cases a <;> simp only [step] at hs <;> (repeat' (split at hs)) <;> cases hs
  all_goals (constructor <;> first | (simp_all [St.wdone, GState.held]; done) | grind [St.wdone, GState.held])

theorem run_inv {c : Cfg} {input : List Nat} (as : List Act) : ∀ {s s' : St},
    Inv c input s → run c s as = some s' → Inv c input s' := by
  induction as with
  | nil => intro s s' h hr; simp [run] at hr; subst hr; exact h
  | cons a as ih =>
    intro s s' h hr
    simp only [run, List.foldlM_cons] at hr
    cases hst : step c s a with
    | none => simp [hst] at hr
    | some s1 =>
      simp only [hst] at hr
      exact ih (step_inv h hst) hr

theorem reachable_inv {c : Cfg} {input : List Nat} {k1 k2 : Nat} {s : St}
    (h : Reachable c input k1 k2 s) : Inv c input s := by
  obtain ⟨as, hr⟩ := h
  exact run_inv as (inv_init c input k1 k2) hr

theorem measure_step {c : Cfg} {s s' : St} {a : Act} (hs : step c s a = some s') : measure s' < measure s := by
  cases a <;> simp only [step] at hs <;> (repeat' (split at hs)) <;> cases hs
  all_goals (simp_all [measure, GState.held, GState.rank, CState.rank] <;> omega)

theorem run_length_le {c : Cfg} (as : List Act) : ∀ {s s' : St},
    run c s as = some s' → as.length + measure s' ≤ measure s := by
  induction as with
  | nil => intro s s' hr; simp [run] at hr; subst hr; simp
  | cons a as ih =>
    intro s s' hr
    simp only [run, List.foldlM_cons] at hr
    cases hst : step c s a with
    | none => simp [hst] at hr
    | some s1 =>
      simp only [hst] at hr
      have h1 := measure_step hst
      have h2 := ih hr
      simp only [List.length_cons]; omega

/-- with no close/cancel budget nothing ever stops the run from outside -/
theorem run_nostop {c : Cfg} (as : List Act) : ∀ {s s' : St},
    s.envStopped = false ∧ s.closeBudget = 0 ∧ s.cancelBudget = 0 → run c s as = some s' →
    s'.envStopped = false ∧ s'.closeBudget = 0 ∧ s'.cancelBudget = 0 := by
  induction as with
  | nil => intro s s' h hr; simp [run] at hr; subst hr; exact h
  | cons a as ih =>
    intro s s' h hr
    simp only [run, List.foldlM_cons] at hr
    cases hst : step c s a with
    | none => simp [hst] at hr
    | some s1 =>
      simp only [hst] at hr
      refine ih ?_ hr
      obtain ⟨h1, h2, h3⟩ := h
      cases a <;> simp only [step] at hst <;> (repeat' (split at hst)) <;> cases hst <;> simp_all

theorem terminal_got {c : Cfg} {input : List Nat} {s : St} (h : Inv c input s)
    (hclean : s.envStopped = false) (hdone : s.cons = .done) : s.got = input := by
  obtain ⟨h1, h2, h3, h4, h5, h6, h7, h8⟩ := h
  obtain ⟨c1, c2, c3, c4⟩ := h6 hclean
  have hw := h4 hdone
  have hcl : s.closed = true := by simpa [St.wdone, c2] using hw
  obtain ⟨_, d2, d3⟩ := c4 hcl
  have := c3 d3
  simp_all [GState.held]

theorem no_deadlock_internal {c : Cfg} {input : List Nat} {s : St} (h : Inv c input s)
    (hnt : s.terminal = false) : ∃ a, a.isEnv = false ∧ (step c s a).isSome = true := by
  obtain ⟨h1, h2, h3, h4, h5, h6, h7, h8⟩ := h
  cases hc : s.cons with
  | idle => exact ⟨.cStart, rfl, by simp only [step]; split <;> (try split) <;> (try split) <;> simp_all⟩
  | parked =>
    cases hp : s.pipe with
    | cons x rest => exact ⟨.cRecv, rfl, by simp [step, hc, hp]⟩
    | nil =>
      cases hpc : s.pclosed with
      | true => exact ⟨.cEof, rfl, by simp [step, hc, hp, hpc]⟩
      | false =>
        cases hfd : s.fd with
        | notStarted => exact absurd hfd (h3 hc)
        | exited => simp [hfd] at h2; simp [h2] at hpc
        | running hh =>
          cases hh with
          | some x => exact ⟨.fHandoff, rfl, by simp [step, hfd, hc, hp]⟩
          | none =>
            cases hsrc : s.src with
            | nil => exact ⟨.fEof, rfl, by simp [step, hfd, hsrc]⟩
            | cons x xs =>
              cases hw : s.wdone with
              | true => exact ⟨.fCtx, rfl, by simp [step, hfd, hw]⟩
              | false => exact ⟨.fRead, rfl, by simp [step, hfd, hsrc, hw]⟩
  | done =>
    have hw := h4 hc
    cases hfd : s.fd with
    | running hh => exact ⟨.fCtx, rfl, by simp [step, hfd, hw]⟩
    | notStarted =>
      cases hwt : s.waiters with
      | zero => simp [St.terminal, St.allExited, hfd, hwt, hc] at hnt
      | succ k => have := h8 hfd; omega
    | exited =>
      cases hwt : s.waiters with
      | zero => simp [St.terminal, St.allExited, hfd, hwt, hc] at hnt
      | succ k => exact ⟨.wExit, rfl, by simp [step, hfd, hwt]⟩

/-- after Close / cancellation the feeder goroutine (and the once.Do waiters) can always move on
    without the consumer -/
theorem no_deadlock_stopped {c : Cfg} {input : List Nat} {s : St} (h : Inv c input s)
    (hw : s.wdone = true) (hne : s.allExited = false) :
    ∃ a, a.isGoroutine = true ∧ (step c s a).isSome = true := by
  cases hfd : s.fd with
  | running hh => exact ⟨.fCtx, rfl, by simp [step, hfd, hw]⟩
  | notStarted => have := h.waiters_started hfd; simp [St.allExited, hfd, this] at hne
  | exited =>
    cases hwt : s.waiters with
    | zero => simp [St.allExited, hfd, hwt] at hne
    | succ k => exact ⟨.wExit, rfl, by simp [step, hfd, hwt]⟩

end FunModel.Pipe.Feeder
