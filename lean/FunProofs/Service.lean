import FunModel.Service

/-! Helper lemmas for C10: inductive invariants of the `srv.Service` model (FunModel/Service.lean)
    for the current code variant (`Cfg.current`), lifted to every reachable state. -/

namespace FunModel.Service

/-! ### reachability -/

theorem run_nil (c : Cfg) (s : State) : run c s [] = some s := rfl

theorem run_cons (c : Cfg) (s : State) (a : Act) (as : List Act) :
    run c s (a :: as) = (step c s a).bind (fun s' => run c s' as) := by
  simp [run, List.foldlM_cons]

theorem run_append_single (c : Cfg) (s : State) (as : List Act) (a : Act) :
    run c s (as ++ [a]) = (run c s as).bind (fun s' => step c s' a) := by
  induction as generalizing s with
  | nil => simp [run_cons, run_nil]
  | cons b bs ih =>
    simp only [List.cons_append, run_cons]
    cases step c s b with
    | none => rfl
    | some s1 => simpa using ih s1

/-- an inductive invariant holds in every reachable state -/
theorem reachable_induction {c : Cfg} {ps : List (List Op)} (I : State → Prop)
    (h0 : I (init ps)) (hstep : ∀ s a s', I s → step c s a = some s' → I s')
    {s : State} (hr : Reachable c ps s) : I s := by
  obtain ⟨as, h⟩ := hr
  have gen : ∀ (as : List Act) (s0 : State), I s0 → run c s0 as = some s → I s := by
    intro as
    induction as with
    | nil => intro s0 h0 h; simp [run_nil] at h; exact h ▸ h0
    | cons a as ih =>
      intro s0 h0 h
      rw [run_cons] at h
      cases hs : step c s0 a with
      | none => simp [hs] at h
      | some s1 =>
        simp [hs] at h
        exact ih s1 (hstep s0 a s1 h0 hs) h
  exact gen as _ h0 h

theorem reachable_step {c : Cfg} {ps : List (List Op)} {s s' : State} {a : Act}
    (hr : Reachable c ps s) (h : step c s a = some s') : Reachable c ps s' := by
  obtain ⟨as, h1⟩ := hr
  exact ⟨as ++ [a], by rw [run_append_single, h1]; exact h⟩

theorem reachable_init (c : Cfg) (ps : List (List Op)) : Reachable c ps (init ps) := ⟨[], rfl⟩


/-! ### the transitions as relations (one constructor per branch of the step functions) -/

inductive RgStep (c : Cfg) (s : State) : State → Prop
  | entryAbsent (h : s.rg = .entry) (hc : c.run = .absent) :
      RgStep c s ({ s with panicking := some idNilCall, rg := .returned }.tick [])
  | entry (h : s.rg = .entry) (hc : c.run ≠ .absent) :
      RgStep c s ({ s with rg := .inRun }.tick [.phBegin .run []])
  | runPanic (h : s.rg = .inRun) (hb : c.runBlocks = true → s.ctxDone = true) (p : Nat) (hc : c.run = .panic p) :
      RgStep c s ({ s with panicking := some p, rg := .returned }.tick [.phEnd .run])
  | runRet (h : s.rg = .inRun) (hb : c.runBlocks = true → s.ctxDone = true) (hc : ∀ p, c.run ≠ .panic p) :
      RgStep c s ({ s with coll := s.coll ++ c.run.adds, rg := .returned }.tick [.phEnd .run])
  | cancel (h : s.rg = .returned) :
      RgStep c s ({ s with cancelCalled := true, rg := .cancelled }.tick [])
  | recoverPanic (h : s.rg = .cancelled) (p : Nat) (hp : s.panicking = some p) :
      RgStep c s ({ s with coll := s.coll ++ [p, idPanic], panicking := none, rg := .recovered }.tick [])
  | recoverNone (h : s.rg = .cancelled) (hp : s.panicking = none) :
      RgStep c s ({ s with rg := .recovered }.tick [])
  | signal (h : s.rg = .recovered) (hg : s.shutdownSig = true) :
      RgStep c s ({ s with ehSig := true, rg := .signalled }.tick [])
  | cleanupAbsent (h : s.rg = .signalled) (hc : c.cleanup = .absent) :
      RgStep c s ({ s with rg := .cleaned }.tick [])
  | cleanupBegin (h : s.rg = .signalled) (hc : c.cleanup ≠ .absent) :
      RgStep c s ({ s with rg := .inCleanup }.tick [.phBegin .cleanup []])
  | cleanupEnd (h : s.rg = .inCleanup) :
      RgStep c s ({ s with coll := s.coll ++ c.cleanup.adds, rg := .cleaned }.tick [.phEnd .cleanup])
  | finish (h : s.rg = .cleaned) :
      RgStep c s ({ s with isFinished := true, rg := .finished }.tick [])
  | notRunning (h : s.rg = .finished) :
      RgStep c s ({ s with isRunning := false, rg := .closing }.tick [])
  | closeMain (h : s.rg = .closing) :
      RgStep c s ({ s with mainSig := true, rg := .exit }.tick [])
  | done (h : s.rg = .exit) :
      RgStep c s ({ s with wg := s.wg - 1, rg := .gone }.tick [])

theorem stepRg_sound {c : Cfg} {s s' : State} (h : stepRg c s = some s') : RgStep c s s' := by
  unfold stepRg at h
  cases hr : s.rg <;> simp only [hr] at h
  · simp at h
  · cases hc : c.run <;> simp [hc] at h <;> subst h
    · exact .entryAbsent hr hc
    · exact .entry hr (by simp [hc])
    · exact .entry hr (by simp [hc])
    · exact .entry hr (by simp [hc])
  · by_cases hb : c.runBlocks = true ∧ s.ctxDone = false
    · simp [hb.1, hb.2] at h
    · have hb' : c.runBlocks = true → s.ctxDone = true := by
        intro h1; cases h2 : s.ctxDone <;> simp_all
      have : (c.runBlocks && !s.ctxDone) = false := by
        cases h1 : c.runBlocks <;> simp_all
      simp only [this, Bool.false_eq_true, if_false] at h
      cases hc : c.run <;> simp [hc] at h <;> subst h
      · have := RgStep.runRet (c := c) hr hb' (by simp [hc]); simpa [hc] using this
      · have := RgStep.runRet (c := c) hr hb' (by simp [hc]); simpa [hc] using this
      · have := RgStep.runRet (c := c) hr hb' (by simp [hc]); simpa [hc] using this
      · exact .runPanic hr hb' _ hc
  · simp at h; subst h; exact .cancel hr
  · cases hp : s.panicking <;> simp [hp] at h <;> subst h
    · simpa [hp] using RgStep.recoverNone (c := c) hr hp
    · exact .recoverPanic hr _ hp
  · cases hg : s.shutdownSig <;> simp [hg] at h; subst h; simpa [hg] using RgStep.signal (c := c) hr hg
  · cases hc : c.cleanup <;> simp [hc] at h <;> subst h
    · exact .cleanupAbsent hr hc
    · exact .cleanupBegin hr (by simp [hc])
    · exact .cleanupBegin hr (by simp [hc])
    · exact .cleanupBegin hr (by simp [hc])
  · simp at h; subst h; exact .cleanupEnd hr
  · simp at h; subst h; exact .finish hr
  · simp at h; subst h; exact .notRunning hr
  · simp at h; subst h; exact .closeMain hr
  · simp at h; subst h; exact .done hr
  · simp at h


inductive SdStep (c : Cfg) (s : State) : State → Prop
  | entryAbsent (h : s.sd = .entry) (hd : s.ctxDone = true) (hc : c.shutdown = .absent) :
      SdStep c s ({ s with sd := .closing }.tick [])
  | entry (h : s.sd = .entry) (hd : s.ctxDone = true) (hc : c.shutdown ≠ .absent) :
      SdStep c s ({ s with sd := .inShutdown }.tick [.phBegin .shutdown []])
  | shutdownEnd (h : s.sd = .inShutdown) :
      SdStep c s ({ s with coll := s.coll ++ c.shutdown.adds, sd := .closing }.tick [.phEnd .shutdown])
  | closeSig (h : s.sd = .closing) :
      SdStep c s ({ s with shutdownSig := true, sd := .exit }.tick [])
  | done (h : s.sd = .exit) :
      SdStep c s ({ s with wg := s.wg - 1, sd := .gone }.tick [])

theorem stepSd_sound {c : Cfg} {s s' : State} (h : stepSd c s = some s') : SdStep c s s' := by
  unfold stepSd at h
  cases hr : s.sd <;> simp only [hr] at h
  · simp at h
  · cases hd : s.ctxDone <;> simp [hd] at h
    cases hc : c.shutdown <;> simp [hc] at h <;> subst h
    · exact .entryAbsent hr hd hc
    · exact .entry hr hd (by simp [hc])
    · exact .entry hr hd (by simp [hc])
    · exact .entry hr hd (by simp [hc])
  · simp at h; subst h; exact .shutdownEnd hr
  · simp at h; subst h; exact .closeSig hr
  · simp at h; subst h; exact .done hr
  · simp at h

inductive EhStep (c : Cfg) (s : State) : State → Prop
  | entry (h : s.eh = .entry) (hg : s.mainSig = true) :
      EhStep c s ({ s with eh := .main }.tick [])
  | call (h : s.eh = .main) (hg : s.ehSig = true) (hc : c.handler ≠ .absent) (hn : s.coll ≠ []) :
      EhStep c s ({ s with eh := .inHandler }.tick [.phBegin .handler s.coll])
  | skip (h : s.eh = .main) (hg : s.ehSig = true) (hc : c.handler = .absent ∨ s.coll = []) :
      EhStep c s ({ s with eh := .exit }.tick [])
  | handlerPanic (h : s.eh = .inHandler) (p : Nat) (hc : c.handler = .panic p) :
      EhStep c s ({ s with coll := s.coll ++ [p, idPanic], eh := .exit }.tick [.phEnd .handler])
  | handlerEnd (h : s.eh = .inHandler) (hc : ∀ p, c.handler ≠ .panic p) :
      EhStep c s ({ s with eh := .exit }.tick [.phEnd .handler])
  | done (h : s.eh = .exit) :
      EhStep c s ({ s with wg := s.wg - 1, eh := .gone }.tick [])

theorem stepEh_sound {c : Cfg} {s s' : State} (h : stepEh c s = some s') : EhStep c s s' := by
  unfold stepEh at h
  cases hr : s.eh <;> simp only [hr] at h
  · simp at h
  · cases hg : s.mainSig <;> simp [hg] at h; subst h; simpa [hg] using EhStep.entry (c := c) hr hg
  · cases hg : s.ehSig <;> simp [hg] at h
    by_cases hx : c.handler ≠ .absent ∧ s.coll ≠ []
    · simp only [hx, and_self] at h; simp at h; subst h
      simpa [hg] using EhStep.call (c := c) hr hg hx.1 hx.2
    · simp only [hx, if_false] at h; simp at h; subst h
      have : c.handler = .absent ∨ s.coll = [] := by
        by_cases h1 : c.handler = .absent
        · exact Or.inl h1
        · by_cases h2 : s.coll = []
          · exact Or.inr h2
          · exact absurd ⟨h1, h2⟩ hx
      simpa [hg] using EhStep.skip (c := c) hr hg this
  · cases hc : c.handler <;> simp [hc] at h <;> subst h
    · exact .handlerEnd hr (by simp [hc])
    · exact .handlerEnd hr (by simp [hc])
    · exact .handlerEnd hr (by simp [hc])
    · exact .handlerPanic hr _ hc
  · simp at h; subst h; exact .done hr
  · simp at h

/-- the caller-thread transitions of the current code (`Cfg.current`) -/
inductive ThStep (c : Cfg) (s : State) (t : Nat) (th : Thread) : State → Prop
  | startReturned (p : Nat) (ho : th.ops[th.pc]? = some (.start p)) (hl : th.loc = .idle) (hf : s.isFinished = true) :
      ThStep c s t th (s.finish t th .startReturned [.call t th.pc (.start p)])
  | startCheck (p : Nat) (ho : th.ops[th.pc]? = some (.start p)) (hl : th.loc = .idle) (hf : s.isFinished = false) :
      ThStep c s t th (s.goto t th .startChecked [.call t th.pc (.start p)])
  | startAlready (p : Nat) (ho : th.ops[th.pc]? = some (.start p)) (hl : th.loc = .startChecked) (hr : s.isRunning = true) :
      ThStep c s t th (s.finish t th .startAlready)
  | startSwap (p : Nat) (ho : th.ops[th.pc]? = some (.start p)) (hl : th.loc = .startChecked) (hr : s.isRunning = false) :
      ThStep c s t th ({ s with isRunning := true }.goto t th .startSwapped)
  | startRecheck (p : Nat) (ho : th.ops[th.pc]? = some (.start p)) (hl : th.loc = .startSwapped) (hf : s.isFinished = true) :
      ThStep c s t th (s.goto t th .startRechecked)
  | startClaim (p : Nat) (ho : th.ops[th.pc]? = some (.start p)) (hl : th.loc = .startSwapped) (hf : s.isFinished = false) :
      ThStep c s t th ({ s with claimed := true }.goto t th .startClaimed)
  | startUndo (p : Nat) (ho : th.ops[th.pc]? = some (.start p)) (hl : th.loc = .startRechecked) :
      ThStep c s t th ({ s with isRunning := false }.finish t th .startReturned)
  | startLaunch (p : Nat) (ho : th.ops[th.pc]? = some (.start p)) (hl : th.loc = .startClaimed) (hon : s.once = .fresh) :
      ThStep c s t th ({ s with once := .running, wg := s.wg + 3, eh := .entry, sd := .entry, rg := .entry,
                                cancelSet := true, svcParent := some p }.goto t th .startLaunched)
  | startOnceDone (p : Nat) (ho : th.ops[th.pc]? = some (.start p)) (hl : th.loc = .startClaimed) (hon : s.once = .done) :
      ThStep c s t th (s.finish t th .startNil)
  | startStore (p : Nat) (ho : th.ops[th.pc]? = some (.start p)) (hl : th.loc = .startLaunched) :
      ThStep c s t th ({ s with isStarted := true }.goto t th .startStarted)
  | startNil (p : Nat) (ho : th.ops[th.pc]? = some (.start p)) (hl : th.loc = .startStarted) :
      ThStep c s t th ({ s with once := .done }.finish t th .startNil)
  | close (ho : th.ops[th.pc]? = some .close) (hl : th.loc = .idle) :
      ThStep c s t th ({ s with cancelCalled := s.cancelCalled || (s.isRunning && s.cancelSet) }.finish t th .closed
        [.call t th.pc .close])
  | waitFinished (ho : th.ops[th.pc]? = some .wait) (hl : th.loc = .idle) (hf : s.isFinished = true) :
      ThStep c s t th (s.finish t th (.waitResult s.coll) [.call t th.pc .wait])
  | waitCheck (ho : th.ops[th.pc]? = some .wait) (hl : th.loc = .idle) (hf : s.isFinished = false) :
      ThStep c s t th (s.goto t th .waitChecked [.call t th.pc .wait])
  | waitStarted (ho : th.ops[th.pc]? = some .wait) (hl : th.loc = .waitChecked) (hst : s.isStarted = true) :
      ThStep c s t th (s.goto t th .waitStarted)
  | waitNotStarted (ho : th.ops[th.pc]? = some .wait) (hl : th.loc = .waitChecked) (hst : s.isStarted = false) :
      ThStep c s t th (s.finish t th .waitNotStarted)
  | waitDone (ho : th.ops[th.pc]? = some .wait) (hl : th.loc = .waitStarted) (hw : s.wg = 0) :
      ThStep c s t th (s.finish t th (.waitResult s.coll))
  | runningFinished (ho : th.ops[th.pc]? = some .running) (hl : th.loc = .idle) (hf : s.isFinished = true) :
      ThStep c s t th (s.finish t th (.running false) [.call t th.pc .running])
  | runningCheck (ho : th.ops[th.pc]? = some .running) (hl : th.loc = .idle) (hf : s.isFinished = false) :
      ThStep c s t th (s.goto t th .runningChecked [.call t th.pc .running])
  | runningLoad (ho : th.ops[th.pc]? = some .running) (hl : th.loc = .runningChecked) :
      ThStep c s t th (s.finish t th (.running s.isRunning))

theorem stepTh_sound {c : Cfg} (hc : c.current) {s s' : State} {t : Nat} (h : stepTh c s t = some s') :
    ∃ th, s.ths[t]? = some th ∧ ThStep c s t th s' := by
  obtain ⟨h19, h20, hrun⟩ := hc
  unfold stepTh at h
  cases hth : s.ths[t]? with
  | none => simp [hth] at h
  | some th =>
    refine ⟨th, rfl, ?_⟩
    simp only [hth] at h
    cases hop : th.ops[th.pc]? with
    | none => simp [hop] at h
    | some op =>
      simp only [hop] at h
      cases op with
      | start p =>
        cases hl : th.loc <;> simp only [hl] at h
        · cases hf : s.isFinished <;> simp [hf] at h <;> subst h
          · exact .startCheck p hop hl hf
          · exact .startReturned p hop hl hf
        · cases hr : s.isRunning <;> simp [hr] at h <;> subst h
          · simpa [hr] using ThStep.startSwap (c := c) (s := s) (t := t) p hop hl hr
          · exact .startAlready p hop hl hr
        · cases hf : s.isFinished <;> simp [hf, h20] at h <;> subst h
          · simpa [hf] using ThStep.startClaim (c := c) (s := s) (t := t) p hop hl hf
          · exact .startRecheck p hop hl hf
        · simp at h; subst h; exact .startUndo p hop hl
        · cases hon : s.once <;> simp [hon] at h <;> subst h
          · simpa [hon] using ThStep.startLaunch (c := c) (s := s) (t := t) p hop hl hon
          · exact .startOnceDone p hop hl hon
        · simp at h; subst h; exact .startStore p hop hl
        · simp [h19] at h; subst h; exact .startNil p hop hl
        · simp at h
        · simp at h
        · simp at h
      | close =>
        cases hl : th.loc <;> simp only [hl] at h <;> simp at h
        subst h; exact .close hop hl
      | wait =>
        cases hl : th.loc <;> simp only [hl] at h <;> (try (simp at h; done))
        · cases hf : s.isFinished <;> simp [hf] at h <;> subst h
          · exact .waitCheck hop hl hf
          · exact .waitFinished hop hl hf
        · cases hst : s.isStarted <;> simp [hst] at h <;> subst h
          · exact .waitNotStarted hop hl hst
          · exact .waitStarted hop hl hst
        · by_cases hw : s.wg = 0
          · simp [hw] at h; subst h; exact .waitDone hop hl hw
          · simp [hw] at h
      | running =>
        cases hl : th.loc <;> simp only [hl] at h <;> (try (simp at h; done))
        · cases hf : s.isFinished <;> simp [hf, hrun] at h <;> subst h
          · exact .runningCheck hop hl hf
          · exact .runningFinished hop hl hf
        · simp at h; subst h; exact .runningLoad hop hl

/-- every transition of the current code -/
inductive Trans (c : Cfg) (s : State) : State → Prop
  | th (t : Nat) (th : Thread) (hth : s.ths[t]? = some th) {s' : State} (h : ThStep c s t th s') : Trans c s s'
  | rg {s' : State} (h : RgStep c s s') : Trans c s s'
  | sd {s' : State} (h : SdStep c s s') : Trans c s s'
  | eh {s' : State} (h : EhStep c s s') : Trans c s s'
  | cancelParent (p : Nat) (hp : s.cancelled.contains p = false) :
      Trans c s ({ s with cancelled := p :: s.cancelled }.tick [.cancelParent p])

theorem step_sound {c : Cfg} (hc : c.current) {s s' : State} {a : Act} (h : step c s a = some s') : Trans c s s' := by
  cases a with
  | th t => obtain ⟨th, hth, h'⟩ := stepTh_sound hc h; exact .th t th hth h'
  | rg => exact .rg (stepRg_sound h)
  | sd => exact .sd (stepSd_sound h)
  | eh => exact .eh (stepEh_sound h)
  | cancelParent p =>
    simp only [step] at h
    cases hp : s.cancelled.contains p <;> simp only [hp] at h
    · simp at h; subst h; exact .cancelParent p hp
    · simp at h


/-! ### structural invariants (current code) -/

def RgLoc.rank : RgLoc → Nat
  | .none => 0 | .entry => 1 | .inRun => 2 | .returned => 3 | .cancelled => 4 | .recovered => 5
  | .signalled => 6 | .inCleanup => 7 | .cleaned => 8 | .finished => 9 | .closing => 10 | .exit => 11 | .gone => 12
def SdLoc.rank : SdLoc → Nat
  | .none => 0 | .entry => 1 | .inShutdown => 2 | .closing => 3 | .exit => 4 | .gone => 5
def EhLoc.rank : EhLoc → Nat
  | .none => 0 | .entry => 1 | .main => 2 | .inHandler => 3 | .exit => 4 | .gone => 5

def liveRg (l : RgLoc) : Nat := if l = .none ∨ l = .gone then 0 else 1
def liveSd (l : SdLoc) : Nat := if l = .none ∨ l = .gone then 0 else 1
def liveEh (l : EhLoc) : Nat := if l = .none ∨ l = .gone then 0 else 1

/-- flags, signals and the wait-group are functions of how far the service goroutines got -/
structure InvG (c : Cfg) (s : State) : Prop where
  fresh : s.once = .fresh → s.rg = .none ∧ s.sd = .none ∧ s.eh = .none
            ∧ s.cancelCalled = false ∧ s.svcParent = none ∧ s.coll = [] ∧ s.cancelSet = false
  launched : s.once ≠ .fresh → s.rg ≠ .none ∧ s.sd ≠ .none ∧ s.eh ≠ .none ∧ s.svcParent ≠ none
  wgEq : s.wg = liveRg s.rg + liveSd s.sd + liveEh s.eh
  fin : s.isFinished = decide (9 ≤ s.rg.rank)
  mainS : s.mainSig = decide (11 ≤ s.rg.rank)
  ehS : s.ehSig = decide (6 ≤ s.rg.rank)
  sdS : s.shutdownSig = decide (4 ≤ s.sd.rank)
  rgSd : 6 ≤ s.rg.rank → s.shutdownSig = true
  ccl : 4 ≤ s.rg.rank → s.cancelCalled = true
  sdCtx : 2 ≤ s.sd.rank → s.ctxDone = true
  ehMain : 2 ≤ s.eh.rank → s.mainSig = true
  pan : s.panicking ≠ none → s.rg = .returned ∨ s.rg = .cancelled

theorem RgStep.invG {c : Cfg} {s s' : State} (h : InvG c s) (hs : RgStep c s s') : InvG c s' := by
  obtain ⟨h1, h2, h3, h4, h5, h6, h7, h8, h9, h10, h11, h12⟩ := h
  cases hs <;> constructor <;>
    simp_all [State.tick, RgLoc.rank, liveRg, State.ctxDone] <;> grind

theorem SdStep.invG {c : Cfg} {s s' : State} (h : InvG c s) (hs : SdStep c s s') : InvG c s' := by
  obtain ⟨h1, h2, h3, h4, h5, h6, h7, h8, h9, h10, h11, h12⟩ := h
  cases hs <;> constructor <;>
    simp_all [State.tick, SdLoc.rank, liveSd, State.ctxDone] <;> grind

theorem EhStep.invG {c : Cfg} {s s' : State} (h : InvG c s) (hs : EhStep c s s') : InvG c s' := by
  obtain ⟨h1, h2, h3, h4, h5, h6, h7, h8, h9, h10, h11, h12⟩ := h
  cases hs <;> constructor <;>
    simp_all [State.tick, EhLoc.rank, liveEh, State.ctxDone] <;> grind

/-- nothing that `InvG` reads changes -/
theorem InvG.frame {c : Cfg} {s s' : State} (h : InvG c s)
    (e1 : s'.once = s.once) (e2 : s'.rg = s.rg) (e3 : s'.sd = s.sd) (e4 : s'.eh = s.eh)
    (e6 : s'.cancelCalled = s.cancelCalled) (e7 : s'.svcParent = s.svcParent)
    (e8 : s'.coll = s.coll) (e9 : s'.cancelSet = s.cancelSet) (e10 : s'.wg = s.wg) (e11 : s'.isFinished = s.isFinished)
    (e12 : s'.mainSig = s.mainSig) (e13 : s'.ehSig = s.ehSig) (e14 : s'.shutdownSig = s.shutdownSig)
    (e15 : s'.cancelled = s.cancelled) (e16 : s'.panicking = s.panicking) : InvG c s' := by
  obtain ⟨h1, h2, h3, h4, h5, h6, h7, h8, h9, h10, h11, h12⟩ := h
  constructor <;> simp_all [State.ctxDone]

theorem InvG.cancelParent {c : Cfg} {s : State} (h : InvG c s) (p : Nat) :
    InvG c ({ s with cancelled := p :: s.cancelled }.tick [.cancelParent p]) := by
  obtain ⟨h1, h2, h3, h4, h5, h6, h7, h8, h9, h10, h11, h12⟩ := h
  constructor <;> simp_all [State.tick, State.ctxDone] <;> grind

theorem getElem?_set_cases {α : Type} {l : List α} {i j : Nat} {a x : α} (h : (l.set i a)[j]? = some x) :
    (j = i ∧ x = a) ∨ (j ≠ i ∧ l[j]? = some x) := by
  rw [List.getElem?_set] at h
  by_cases hij : i = j
  · subst hij; simp at h; exact Or.inl ⟨rfl, h.2.symm⟩
  · simp [hij] at h; exact Or.inr ⟨fun e => hij e.symm, h⟩

def inClaim (l : Loc) : Prop := l = .startClaimed ∨ l = .startLaunched ∨ l = .startStarted

/-- the locations that the claim invariants talk about -/
def relevant (l : Loc) : Prop :=
  l = .startSwapped ∨ l = .startRechecked ∨ l = .startClaimed ∨ l = .startLaunched ∨ l = .startStarted

structure InvT (c : Cfg) (s : State) : Prop where
  t1 : ∀ (t : Nat) (th : Thread), s.ths[t]? = some th → th.loc = .startClaimed → s.once = .fresh
  t6 : ∀ (t : Nat) (th : Thread), s.ths[t]? = some th → (th.loc = .startLaunched ∨ th.loc = .startStarted) → s.once = .running
  t2 : ∀ (t1 t2 : Nat) (th1 th2 : Thread), s.ths[t1]? = some th1 → s.ths[t2]? = some th2 → inClaim th1.loc → inClaim th2.loc → t1 = t2
  n0 : s.claimed = false → ∀ (t : Nat) (th : Thread), s.ths[t]? = some th → ¬ inClaim th.loc
  lc : s.once ≠ .fresh → s.claimed = true
  st : s.isStarted = true → s.once ≠ .fresh
  j : ∀ (t : Nat) (th : Thread), s.ths[t]? = some th → th.loc = .startSwapped → s.claimed = true → s.isFinished = true
  k : s.claimed = false → ∀ (t1 t2 : Nat) (th1 th2 : Thread), s.ths[t1]? = some th1 → s.ths[t2]? = some th2 →
        th1.loc = .startSwapped → th2.loc = .startSwapped → t1 = t2
  l : s.claimed = false → ∀ (t : Nat) (th : Thread), s.ths[t]? = some th → th.loc = .startSwapped → s.isRunning = true
  m : s.claimed = true → s.isFinished = false → s.isRunning = true
  t5 : ∀ (t : Nat) (th : Thread), s.ths[t]? = some th → th.loc = .startRechecked → s.isFinished = true

/-- a thread moves to a location the claim invariants do not mention, nothing else they read changes -/
theorem InvT.frame {c : Cfg} {s s' : State} (h : InvT c s) (t : Nat) (th' : Thread)
    (hths : s'.ths = s.ths.set t th') (hl : ¬ relevant th'.loc)
    (e1 : s'.once = s.once) (e2 : s'.claimed = s.claimed) (e3 : s'.isFinished = s.isFinished)
    (e4 : s'.isRunning = s.isRunning) (e5 : s'.isStarted = s.isStarted) : InvT c s' := by
  obtain ⟨h1, h2, h3, h4, h5, h6, h7, h8, h9, h10, h11⟩ := h
  simp only [relevant, not_or] at hl
  constructor
  all_goals (simp only [e1, e2, e3, e4, e5, hths]; try assumption)
  · intro u x hu; rcases getElem?_set_cases hu with ⟨_, rfl⟩ | ⟨_, hu'⟩ <;> grind
  · intro u x hu; rcases getElem?_set_cases hu with ⟨_, rfl⟩ | ⟨_, hu'⟩ <;> grind
  · intro u1 u2 x1 x2 hu1 hu2
    rcases getElem?_set_cases hu1 with ⟨_, rfl⟩ | ⟨_, hu1'⟩ <;> rcases getElem?_set_cases hu2 with ⟨_, rfl⟩ | ⟨_, hu2'⟩ <;>
      grind [inClaim]
  · intro hc u x hu; rcases getElem?_set_cases hu with ⟨_, rfl⟩ | ⟨_, hu'⟩ <;> grind [inClaim]
  · intro u x hu; rcases getElem?_set_cases hu with ⟨_, rfl⟩ | ⟨_, hu'⟩ <;> grind
  · intro hc u1 u2 x1 x2 hu1 hu2
    rcases getElem?_set_cases hu1 with ⟨_, rfl⟩ | ⟨_, hu1'⟩ <;> rcases getElem?_set_cases hu2 with ⟨_, rfl⟩ | ⟨_, hu2'⟩ <;>
      grind
  · intro hc u x hu; rcases getElem?_set_cases hu with ⟨_, rfl⟩ | ⟨_, hu'⟩ <;> grind
  · intro u x hu; rcases getElem?_set_cases hu with ⟨_, rfl⟩ | ⟨_, hu'⟩ <;> grind


macro "q1" : tactic => `(tactic|
  (intro u x hu; rcases getElem?_set_cases hu with ⟨hut, rfl⟩ | ⟨hne, hu'⟩ <;> grind [inClaim]))
macro "q1c" : tactic => `(tactic|
  (intro hc u x hu; rcases getElem?_set_cases hu with ⟨hut, rfl⟩ | ⟨hne, hu'⟩ <;> grind [inClaim]))
macro "q2" : tactic => `(tactic|
  (intro u1 u2 x1 x2 hu1 hu2
   rcases getElem?_set_cases hu1 with ⟨hut1, rfl⟩ | ⟨hne1, hu1'⟩ <;>
     rcases getElem?_set_cases hu2 with ⟨hut2, rfl⟩ | ⟨hne2, hu2'⟩ <;> grind [inClaim]))
macro "q2c" : tactic => `(tactic|
  (intro hc u1 u2 x1 x2 hu1 hu2
   rcases getElem?_set_cases hu1 with ⟨hut1, rfl⟩ | ⟨hne1, hu1'⟩ <;>
     rcases getElem?_set_cases hu2 with ⟨hut2, rfl⟩ | ⟨hne2, hu2'⟩ <;> grind [inClaim]))
macro "invT_fields" : tactic => `(tactic|
  (constructor
   case t1 => simp only [State.goto, State.finish, State.setTh, State.tick]; q1
   case t6 => simp only [State.goto, State.finish, State.setTh, State.tick]; q1
   case t2 => simp only [State.goto, State.finish, State.setTh, State.tick]; q2
   case n0 => simp only [State.goto, State.finish, State.setTh, State.tick]; q1c
   case lc => simp only [State.goto, State.finish, State.setTh, State.tick]; grind [inClaim]
   case st => simp only [State.goto, State.finish, State.setTh, State.tick]; grind [inClaim]
   case j => simp only [State.goto, State.finish, State.setTh, State.tick]; q1
   case k => simp only [State.goto, State.finish, State.setTh, State.tick]; q2c
   case l => simp only [State.goto, State.finish, State.setTh, State.tick]; q1c
   case m => simp only [State.goto, State.finish, State.setTh, State.tick]; grind [inClaim]
   case t5 => simp only [State.goto, State.finish, State.setTh, State.tick]; q1))

theorem ThStep.invT {c : Cfg} {s s' : State} {t : Nat} {th : Thread} (h : InvT c s)
    (hfin : s.isFinished = true → s.once ≠ .fresh)
    (hth : s.ths[t]? = some th) (hs : ThStep c s t th s') : InvT c s' := by
  cases hs with
  | startReturned | startCheck | startAlready | close | waitFinished | waitCheck | waitStarted | waitNotStarted
  | waitDone | runningFinished | runningCheck | runningLoad =>
    exact h.frame t _ rfl (by simp [relevant]) rfl rfl rfl rfl rfl
  | startOnceDone p ho hl hon => exact absurd (h.t1 t th hth hl) (by simp [hon])
  | startSwap p ho hl hr => obtain ⟨h1, h2, h3, h4, h5, h6, h7, h8, h9, h10, h11⟩ := h; invT_fields
  | startRecheck p ho hl hf => obtain ⟨h1, h2, h3, h4, h5, h6, h7, h8, h9, h10, h11⟩ := h; invT_fields
  | startClaim p ho hl hf => obtain ⟨h1, h2, h3, h4, h5, h6, h7, h8, h9, h10, h11⟩ := h; invT_fields
  | startUndo p ho hl => obtain ⟨h1, h2, h3, h4, h5, h6, h7, h8, h9, h10, h11⟩ := h; invT_fields
  | startLaunch p ho hl hon => obtain ⟨h1, h2, h3, h4, h5, h6, h7, h8, h9, h10, h11⟩ := h; invT_fields
  | startStore p ho hl => obtain ⟨h1, h2, h3, h4, h5, h6, h7, h8, h9, h10, h11⟩ := h; invT_fields
  | startNil p ho hl => obtain ⟨h1, h2, h3, h4, h5, h6, h7, h8, h9, h10, h11⟩ := h; invT_fields


theorem ThStep.invG {c : Cfg} {s s' : State} {t : Nat} {th : Thread} (h : InvG c s) (hT : InvT c s)
    (hth : s.ths[t]? = some th) (hs : ThStep c s t th s') : InvG c s' := by
  cases hs with
  | startReturned | startCheck | startAlready | startSwap | startRecheck | startClaim | startUndo | startOnceDone
  | startStore | waitFinished | waitCheck | waitStarted | waitNotStarted
  | waitDone | runningFinished | runningCheck | runningLoad =>
    exact h.frame rfl rfl rfl rfl rfl rfl rfl rfl rfl rfl rfl rfl rfl rfl rfl
  | startLaunch p ho hl hon =>
    obtain ⟨h1, h2, h3, h4, h5, h6, h7, h8, h9, h10, h11, h12⟩ := h
    constructor <;>
      simp_all [State.tick, State.goto, State.setTh, State.ctxDone, RgLoc.rank, SdLoc.rank, EhLoc.rank, liveRg, liveSd, liveEh]
  | startNil p ho hl =>
    have := hT.t6 t th hth (Or.inr hl)
    obtain ⟨h1, h2, h3, h4, h5, h6, h7, h8, h9, h10, h11, h12⟩ := h
    constructor <;> simp_all [State.tick, State.finish, State.setTh, State.ctxDone]
  | close ho hl =>
    obtain ⟨h1, h2, h3, h4, h5, h6, h7, h8, h9, h10, h11, h12⟩ := h
    constructor <;> simp_all [State.tick, State.finish, State.setTh, State.ctxDone] <;> grind

theorem InvT.frameG {c : Cfg} {s s' : State} (h : InvT c s) (e0 : s'.ths = s.ths)
    (e1 : s'.once = s.once) (e2 : s'.claimed = s.claimed) (e3 : s'.isFinished = s.isFinished)
    (e4 : s'.isRunning = s.isRunning) (e5 : s'.isStarted = s.isStarted) : InvT c s' := by
  obtain ⟨h1, h2, h3, h4, h5, h6, h7, h8, h9, h10, h11⟩ := h
  constructor <;> simp only [e0, e1, e2, e3, e4, e5] <;> assumption

theorem RgStep.invT {c : Cfg} {s s' : State} (h : InvT c s) (hG : InvG c s) (hs : RgStep c s s') : InvT c s' := by
  cases hs with
  | finish hr =>
    obtain ⟨h1, h2, h3, h4, h5, h6, h7, h8, h9, h10, h11⟩ := h
    constructor <;> simp only [State.tick] <;> grind
  | notRunning hr =>
    have hf : s.isFinished = true := by rw [hG.fin, hr]; simp [RgLoc.rank]
    have hc : s.claimed = true := h.lc (by intro h0; have := (hG.fresh h0).1; simp [hr] at this)
    obtain ⟨h1, h2, h3, h4, h5, h6, h7, h8, h9, h10, h11⟩ := h
    constructor <;> simp only [State.tick] <;> grind
  | _ => exact h.frameG rfl rfl rfl rfl rfl rfl

theorem SdStep.invT {c : Cfg} {s s' : State} (h : InvT c s) (hs : SdStep c s s') : InvT c s' := by
  cases hs <;> exact h.frameG rfl rfl rfl rfl rfl rfl

theorem EhStep.invT {c : Cfg} {s s' : State} (h : InvT c s) (hs : EhStep c s s') : InvT c s' := by
  cases hs <;> exact h.frameG rfl rfl rfl rfl rfl rfl

/-- the structural invariant -/
def Inv1 (c : Cfg) (s : State) : Prop := InvG c s ∧ InvT c s

theorem init_thread {ps : List (List Op)} {t : Nat} {th : Thread} (h : (init ps).ths[t]? = some th) :
    th.loc = .idle ∧ th.pc = 0 := by
  simp only [init, List.getElem?_map] at h
  cases hp : ps[t]? <;> simp [hp] at h
  subst h; simp

theorem Inv1.init (c : Cfg) (ps : List (List Op)) : Inv1 c (init ps) := by
  constructor
  · constructor <;> (try simp [Service.init, RgLoc.rank, SdLoc.rank, EhLoc.rank, liveRg, liveSd, liveEh, State.ctxDone])
  · have hl : ∀ (t : Nat) (th : Thread), (Service.init ps).ths[t]? = some th → th.loc = .idle :=
      fun t th h => (init_thread h).1
    have e1 : (Service.init ps).once = .fresh := rfl
    have e2 : (Service.init ps).claimed = false := rfl
    have e3 : (Service.init ps).isStarted = false := rfl
    have e4 : (Service.init ps).isFinished = false := rfl
    constructor <;> grind [inClaim]

theorem Trans.inv1 {c : Cfg} {s s' : State} (h : Inv1 c s) (hs : Trans c s s') : Inv1 c s' := by
  obtain ⟨hG, hT⟩ := h
  cases hs with
  | th t th hth h =>
    refine ⟨h.invG hG hT hth, h.invT hT ?_ hth⟩
    intro hf h0
    have := hG.fin; rw [(hG.fresh h0).1] at this; simp [RgLoc.rank, hf] at this
  | rg h => exact ⟨h.invG hG, h.invT hT hG⟩
  | sd h => exact ⟨h.invG hG, h.invT hT⟩
  | eh h => exact ⟨h.invG hG, h.invT hT⟩
  | cancelParent p hp => exact ⟨hG.cancelParent p, hT.frameG rfl rfl rfl rfl rfl rfl⟩


end FunModel.Service
