import FunProofs.OrchOrc
import FunProofs.OrchGrp
import FunProofs.OrchPool
import FunProofs.OrchCln
import FunProofs.C03Report

/-! Helper lemmas for C11: what follows from the four invariants — the statements `FunProps/C11.lean`
    restates, and the outcome predicates (`allowed…`) on the observation of a reachable state. -/

namespace FunModel.Orch
open FunModel

theorem allUnits_of {o : Obs} {p : Nat → Bool} (h : ∀ i, p i = true) : allUnits o p = true := by
  simp [allUnits, List.all_eq_true, h]

/-- the harness' way of recognising unit i's error: `ident i` is found in it, and is not the
    identity of a multi-error wrapper that is thrown away when the error is pushed on a stack -/
def Identifies (out : Nat → Outcome) (ident : Nat → Nat) : Prop :=
  ∀ i e, (out i).fails = true → (out i).result = some e → e.is (ident i) = true ∧ ident i ∉ e.shellIds

theorem reported_of {out : Nat → Outcome} {o : Obs} {i : Nat} (h1 : (out i).fails = true → o.isBit i = true)
    (h2 : (out i).isPanic = true → o.rp = true) : reported out o i = true := by
  unfold reported
  cases hf : (out i).fails <;> cases hp : (out i).isPanic <;> simp_all

theorem panic_of_isPanic {o : Outcome} (h : o.isPanic = true) : ∃ p, o = .panic p := by
  cases o <;> simp_all [Outcome.isPanic]

/-! ### orchestrator -/
namespace Orc

theorem Inv.live_done {s : St} (hi : Inv s) (hret : s.orch = .returned) {i : Nat} (hl : s.addSt i = .live) :
    s.task i = .done := by
  rcases hi.live_where i hl with hq | ht
  · have := hi.over_queue (Or.inr hret) i hq; rw [hl] at this; cases this
  · exact hi.ret_done hret i ht

theorem Inv.runs_one {s : St} (hi : Inv s) {i : Nat} (hp : s.phase i ≠ .fresh) : s.runs i = 1 := by
  have h1 := hi.runs_le i
  have h2 : s.runs i ≠ 0 := fun h0 => hp ((hi.runs_zero i).mp h0)
  omega

/-- `wg.Wait()` lets the orchestrator's Run return only when every service that was handed over before
    the context ended has returned -/
theorem Inv.return_enabled {c : Cfg} {s : St} (hi : Inv s) (hen : (step c s .orchReturn).isSome = true) {i : Nat}
    (hl : s.addSt i = .live) : s.phase i = .finished := by
  cases hs : step c s .orchReturn with
  | none => rw [hs] at hen; cases hen
  | some s' =>
    obtain ⟨⟨ho, hw⟩, _⟩ := step_orchReturn hs
    obtain ⟨l, _, hmem, hlen⟩ := hi.act
    have hl0 : l = [] := List.eq_nil_of_length_eq_zero (by omega)
    have hina : (s.task i).active = false := by
      cases hj : (s.task i).active with
      | false => rfl
      | true => have := (hmem i).mpr hj; rw [hl0] at this; cases this
    rcases hi.live_where i hl with hq | ht
    · have := hi.over_queue (Or.inl ho) i hq; rw [hl] at this; cases this
    · cases htk : s.task i with
      | none => exact absurd htk ht
      | toStart => simp [htk, Task.active] at hina
      | awaiting v => simp [htk, Task.active] at hina
      | done => exact (hi.done_fin i htk).1

theorem mem_adds_of_wait {c : Cfg} {coll : List Entry} {i : Nat} (h : Entry.wait i true ∈ coll) :
    svcWait (c.outcome i) ∈ coll.reverse.map (entryErr c) :=
  List.mem_map.mpr ⟨.wait i true, List.mem_reverse.mpr h, rfl⟩

theorem waitResult_is {c : Cfg} {coll : List Entry} {i : Nat} (h : Entry.wait i true ∈ coll) (e : Err)
    (he : (c.outcome i).result = some e) (t : Nat) (ht : e.is t = true) (hs : t ∉ e.shellIds) :
    isOpt (waitResult c coll) t = true :=
  nested_is_of_result _ (c.outcome i) e he (Or.inr (mem_adds_of_wait h)) t ht hs

theorem waitResult_panic {c : Cfg} {coll : List Entry} {i : Nat} (h : Entry.wait i true ∈ coll) (p : Err)
    (hp : c.outcome i = .panic p) : isOpt (waitResult c coll) idRecoveredPanic = true :=
  nested_is_of_panic _ (c.outcome i) p hp (Or.inr (mem_adds_of_wait h))

theorem allowed_of_inv {c : Cfg} {s : St} (hi : Inv s) (ident : Nat → Nat) (hid : Identifies c.outcome ident) (n : Nat) :
    allowedOrch c.outcome (obsOf c ident n s) = true := by
  apply allUnits_of
  intro i
  simp only [obsOf, Bool.and_eq_true, Bool.or_eq_true, Bool.not_eq_true', Bool.and_eq_false_iff]
  refine ⟨⟨decide_eq_true (hi.runs_le i), ?_⟩, ?_⟩
  · by_cases hw : s.orch = .returned
    · by_cases hl : s.addSt i = .live
      · right
        have hd := hi.live_done hw hl
        obtain ⟨hf, hmem⟩ := hi.done_fin i hd
        refine ⟨⟨beq_iff_eq.mpr (hi.runs_one (by simp [hf])), hi.ret_snap hw i hd⟩, ?_⟩
        apply reported_of
        · intro hfl
          obtain ⟨e, he, _⟩ := Outcome.result_of_fails hfl
          obtain ⟨h1, h2⟩ := hid i e hfl he
          exact waitResult_is hmem e he _ h1 h2
        · intro hpn
          obtain ⟨p, ho⟩ := panic_of_isPanic hpn
          exact waitResult_panic hmem p ho
      · exact Or.inl (Or.inr (decide_eq_false hl))
    · exact Or.inl (Or.inl (decide_eq_false hw))
  · by_cases hw : s.orch = .returned
    · cases hb : s.byOrch i with
      | false => exact Or.inl (Or.inr rfl)
      | true =>
        right
        have ht := (hi.byOrch_task i hb).1
        exact hi.ret_snap hw i (hi.ret_done hw i ht)
    · exact Or.inl (Or.inl (decide_eq_false hw))

end Orc

/-! ### group -/
namespace Grp

theorem Inv.runs_one {c : Cfg} {s : St} (hi : Inv c s) {i : Nat} (hp : s.phase i ≠ .fresh) : s.runs i = 1 := by
  have h1 := hi.runs_le i
  have h2 : s.runs i ≠ 0 := fun h0 => hp ((hi.runs_zero i).mp h0)
  omega

/-- when the group is done every member it took from the iterator is among the waiters, finished -/
theorem Inv.done_member {c : Cfg} {s : St} (hi : Inv c s) (hd : s.gphase = .done) {i : Nat} (hlt : i < s.next) :
    i ∈ s.waiters ∧ s.phase i = .finished ∧ s.runs i = 1 ∧ s.retAtW i = true := by
  have hc : s.closed = true := hi.closed_ph.mpr (Or.inr (Or.inr hd))
  obtain ⟨l, _, hmem, hlen⟩ := hi.act
  have hl : l = [] := List.eq_nil_of_length_eq_zero (by have := hi.closed_wg hc; omega)
  have hina : (s.starter i).active = false := by
    cases hj : (s.starter i).active with
    | false => rfl
    | true => have := (hmem i).mpr hj; rw [hl] at this; cases this
  have hne := (hi.st_range i).mpr hlt
  have hq : s.starter i = .queued := by
    cases hst : s.starter i with
    | none => exact absurd hst hne
    | spawned => simp [hst, Starter.active] at hina
    | started => simp [hst, Starter.active] at hina
    | queued => rfl
    | failed => exact absurd hst (hi.no_failed.2 i)
  have hw := (hi.st_queued i).mp hq
  have hf := hi.rr_fin (hi.rr_ph.mpr (Or.inr hd)) i hw
  exact ⟨hw, hf, hi.runs_one (by simp [hf]), hi.done_snap hd i hw⟩

/-- the group's Cleanup returns only when every member taken from the iterator has returned -/
theorem Inv.cleanup_enabled {c : Cfg} {s : St} (hi : Inv c s) (hen : (step c s .cleanupDone).isSome = true) {i : Nat}
    (hlt : i < s.next) : s.phase i = .finished := by
  cases hs : step c s .cleanupDone with
  | none => rw [hs] at hen; cases hen
  | some s' =>
    obtain ⟨⟨hg, hall, _⟩, _⟩ := step_cleanupDone hs
    have hc : s.closed = true := hi.closed_ph.mpr (Or.inr (Or.inl hg))
    have hne := (hi.st_range i).mpr hlt
    by_cases hf : s.phase i = .fresh
    · rcases (hi.st_fresh i).mp hf with h1 | h1
      · exact absurd h1 hne
      · obtain ⟨l, _, hmem, hlen⟩ := hi.act
        have hl : l = [] := List.eq_nil_of_length_eq_zero (by have := hi.closed_wg hc; omega)
        have := (hmem i).mpr (by simp [h1, Starter.active]); rw [hl] at this; cases this
    · exact (allFinished_iff s).mp hall i (hi.closed_queued hc i hf)

theorem mem_adds {c : Cfg} {s : St} {i : Nat} (h : i ∈ s.waiters) : svcWait (c.outcome i) ∈ collAdds c s :=
  List.mem_append_left _ (List.mem_map.mpr ⟨i, h, rfl⟩)

theorem allowed_of_inv {c : Cfg} {s : St} (hi : Inv c s) (ident : Nat → Nat) (hid : Identifies c.outcome ident) (n : Nat) :
    allowedGroup c.outcome (obsOf c ident n s) = true := by
  apply allUnits_of
  intro i
  simp only [obsOf, Bool.and_eq_true, Bool.or_eq_true, Bool.not_eq_true', Bool.and_eq_false_iff]
  refine ⟨⟨⟨decide_eq_true (hi.runs_le i), ?_⟩, hi.saw i⟩, ?_⟩
  · by_cases hlt : i < s.next
    · exact Or.inl (decide_eq_true hlt)
    · right
      have : s.starter i = .none := by
        by_cases hx : s.starter i = .none
        · exact hx
        · exact absurd ((hi.st_range i).mp hx) hlt
      exact beq_iff_eq.mpr ((hi.runs_zero i).mpr ((hi.st_fresh i).mpr (Or.inl this)))
  · by_cases hw : s.gphase = .done
    · by_cases hlt : i < s.next
      · right
        obtain ⟨hmem, _, hr, hsnap⟩ := hi.done_member hw hlt
        refine ⟨⟨beq_iff_eq.mpr hr, hsnap⟩, ?_⟩
        apply reported_of
        · intro hfl
          obtain ⟨e, he, _⟩ := Outcome.result_of_fails hfl
          obtain ⟨h1, h2⟩ := hid i e hfl he
          exact nested_is_of_result _ (c.outcome i) e he (Or.inr (mem_adds hmem)) _ h1 h2
        · intro hpn
          obtain ⟨p, ho⟩ := panic_of_isPanic hpn
          exact nested_is_of_panic _ (c.outcome i) p ho (Or.inr (mem_adds hmem))
      · exact Or.inl (Or.inr (decide_eq_false hlt))
    · exact Or.inl (Or.inl (decide_eq_false hw))

end Grp

/-! ### pools -/
namespace Pool
open FunModel.FaultPipe (canContinue_table)

theorem Inv.fin_of_returned {c : Cfg} {s : St} (hi : Inv c s) (hrr : s.runReturned = true) {j : Nat}
    (hj : s.runs j = 1) : s.fin j = true := by
  have hall := (hi.rr_all hrr).2
  have hb : busy s = [] := by
    simp only [busy, List.flatMap_eq_nil_iff]
    intro w hw; rw [hall w hw]; rfl
  have := hi.runs_eq j
  cases hf : s.fin j with
  | true => rfl
  | false => simp [hf, hb] at this; omega

theorem mem_adds {c : Cfg} {coll : List Nat} {j : Nat} (h : j ∈ coll) :
    (c.outcome j).result ∈ coll.reverse.map (fun j => (c.outcome j).result) :=
  List.mem_map.mpr ⟨j, List.mem_reverse.mpr h, rfl⟩

/-- a recovered panic is always handed to the collector -/
theorem reports_of_panic (c : Cfg) (j : Nat) (hp : (c.outcome j).isPanic = true) : c.reports j = true := by
  cases ho : c.outcome j with
  | panic p =>
    have hv : c.viaCollector j = true := by simp [Cfg.viaCollector, ho, Outcome.isPanic]
    cases hr : parsePanicErr (some p) with
    | none => exact absurd hr (FunModel.C12.parsePanic_ne_nil p)
    | some r =>
      have his : r.is idRecoveredPanic = true := by
        have := FunModel.C12.parsePanic_is p idRecoveredPanic
        simpa [hr, isOpt] using this
      have hcls : (c.cls j).reportable c.conf = true := by
        simp [Cfg.cls, ho, Outcome.result, hr, classify, ErrClass.reportable, his]
      have := (canContinue_table c.conf (c.cls j)).1
      simp [Cfg.reports, hv, this, hcls]
  | ok => simp [ho, Outcome.isPanic] at hp
  | err _ => simp [ho, Outcome.isPanic] at hp
  | block => simp [ho, Outcome.isPanic] at hp
  | blockErr _ => simp [ho, Outcome.isPanic] at hp

/-- WorkerPool: a reportable failure is handed to the collector -/
theorem reports_of_reportable (c : Cfg) (j : Nat) (hv : c.viaCollector j = true)
    (hr : (c.cls j).reportable c.conf = true) : c.reports j = true := by
  have := (canContinue_table c.conf (c.cls j)).1
  simp [Cfg.reports, hv, this, hr]

theorem allowed_of_inv {c : Cfg} {s : St} (hi : Inv c s) (ident : Nat → Nat) (hid : Identifies c.outcome ident)
    (hrep : ∀ i, (c.outcome i).fails = true → (c.cls i).reportable c.conf = true) (n : Nat) :
    allowedPool c.handler c.outcome (obsOf c ident n s) = true := by
  apply allUnits_of
  intro i
  simp only [obsOf, Bool.and_eq_true, Bool.or_eq_true, Bool.not_eq_true', Bool.and_eq_false_iff]
  refine ⟨⟨decide_eq_true (hi.runs_le i), ?_⟩, ?_⟩
  · by_cases h0 : s.runs i = 0
    · exact Or.inr (beq_iff_eq.mpr h0)
    · exact Or.inl (decide_eq_true (hi.runs_accepted i h0))
  · cases hw : s.svcDone with
    | false => exact Or.inl (Or.inl rfl)
    | true =>
      by_cases h1 : s.runs i = 1
      · right
        obtain ⟨hrr, hsnap⟩ := hi.svc hw
        have hfin := hi.fin_of_returned hrr h1
        have hspec := hi.coll_spec i hfin
        refine ⟨hsnap i h1, ?_⟩
        by_cases hbr : c.handler = true ∧ (c.outcome i).isPanic = false
        · rw [if_pos hbr]
          cases hfl : (c.outcome i).fails with
          | false => rfl
          | true =>
            obtain ⟨e, he, _⟩ := Outcome.result_of_fails hfl
            have : c.handles i = true := by simp [Cfg.handles, hbr.1, hbr.2, he]
            have hm := hspec.2 this
            simp [hm]
        · rw [if_neg hbr]
          have hv : c.viaCollector i = true := by
            simp only [Cfg.viaCollector, Bool.or_eq_true, Bool.not_eq_true']
            cases hh : c.handler with
            | false => exact Or.inl rfl
            | true =>
              right
              cases hp : (c.outcome i).isPanic with
              | true => rfl
              | false => exact absurd ⟨hh, hp⟩ hbr
          apply reported_of
          · intro hfl
            obtain ⟨e, he, _⟩ := Outcome.result_of_fails hfl
            obtain ⟨h1', h2'⟩ := hid i e hfl he
            have hm := hspec.1 (reports_of_reportable c i hv (hrep i hfl))
            exact nested_is_of_result _ (c.outcome i) e he (Or.inl (mem_adds hm)) _ h1' h2'
          · intro hpn
            have hm := hspec.1 (reports_of_panic c i hpn)
            obtain ⟨p, ho⟩ := panic_of_isPanic hpn
            exact nested_is_of_panic _ (c.outcome i) p ho (Or.inl (mem_adds hm))
      · exact Or.inl (Or.inr (by simpa using h1))

/-- at a rest point of a pool that keeps running and has an idle worker, everything accepted has been started -/
theorem rest_all_started {c : Cfg} {s : St} (hi : Inv c s) (hq : Quiescent c s) (hst : s.started = true)
    (hlive : s.wctxEnded = false) (w : Nat) (hw : s.ws[w]? = some .idle) (j : Nat) (ha : s.addSt j = .accepted) :
    s.runs j = 1 := by
  have hcn : s.cancelled = false ∧ s.aborted = false := by
    simpa [St.wctxEnded] using hlive
  -- the reader has not returned
  have hrd : s.rdDone = false := by
    cases hd : s.rdDone with
    | false => rfl
    | true =>
      rcases hi.rdDone_why hd with h1 | h1
      · rw [hlive] at h1; cases h1
      · rcases hi.closed_ctx h1 with h2 | h2
        · rw [hcn.1] at h2; cases h2
        · have := not_done_of_get (hi.rr_all h2).2 hw; cases this
  -- nothing waits at the reader (a handoff to the idle worker would be enabled)
  have hnone : s.rd = none := by
    cases hr : s.rd with
    | none => rfl
    | some x =>
      have := hq (.handoff w) rfl
      simp [step, hr, hw] at this
  -- the queue is empty (a read would be enabled)
  have hqe : s.queue = [] := by
    cases hqq : s.queue with
    | nil => rfl
    | cons x q =>
      have := hq .read rfl
      simp [step, hqq, hnone, hst, hrd, hlive] at this
  -- no worker holds an unstarted job
  have hheld : held s = [] := by
    simp only [held, List.flatMap_eq_nil_iff]
    intro x hx
    cases x with
    | holding y =>
      obtain ⟨k, hk⟩ := List.getElem?_of_mem hx
      have := hq (.wstart k) rfl
      simp [step, hk] at this
    | idle => rfl
    | busy _ => rfl
    | done => rfl
  have hdrop : s.dropped = [] := by
    cases hdd : s.dropped with
    | nil => rfl
    | cons x l => have := hi.drop_ctx (by simp [hdd]); rw [hlive] at this; cases this
  have h1 := hi.cons j
  have h2 := hi.runs_eq j
  simp only [places, hqe, hnone, hheld, hdrop, ha, List.count_nil, Option.toList_none, decide_true, b2n_true] at h1
  omega

end Pool

/-! ### cleanup -/
namespace Cln

theorem Inv.done_ran {s : St} (hi : Inv s) (hd : s.cphase = .done) {j : Nat} (ha : s.addSt j = .accepted) :
    s.runs j = 1 ∧ j ∈ s.coll := by
  have hsw : s.swept := Or.inr hd
  have hq := (hi.post hsw).1
  have hc : j ∈ s.cache := by
    rcases (hi.acc_where j).mp ha with h | h
    · rw [hq] at h; cases h
    · exact h
  exact (hi.runs_spec hsw j).1 ⟨hc, by rw [hi.done_todo hd]; simp⟩

theorem Inv.runs_le {s : St} (hi : Inv s) (j : Nat) : s.runs j ≤ 1 := by
  by_cases hsw : s.swept
  · by_cases hc : j ∈ s.cache ∧ j ∉ s.todo
    · rw [((hi.runs_spec hsw j).1 hc).1]; omega
    · rw [(hi.runs_spec hsw j).2 hc]; omega
  · rw [(hi.pre hsw).2.2 j]; omega

theorem Inv.runs_accepted {s : St} (hi : Inv s) (j : Nat) (h : s.runs j ≠ 0) : s.addSt j = .accepted := by
  by_cases hsw : s.swept
  · by_cases hc : j ∈ s.cache ∧ j ∉ s.todo
    · exact (hi.acc_where j).mpr (Or.inr hc.1)
    · exact absurd ((hi.runs_spec hsw j).2 hc) h
  · exact absurd ((hi.pre hsw).2.2 j) h

theorem mem_adds {c : Cfg} {coll : List Nat} {j : Nat} (h : j ∈ coll) :
    (c.outcome j).result ∈ coll.reverse.map (fun j => (c.outcome j).result) :=
  List.mem_map.mpr ⟨j, List.mem_reverse.mpr h, rfl⟩

theorem allowed_of_inv {c : Cfg} {s : St} (hi : Inv s) (ident : Nat → Nat) (hid : Identifies c.outcome ident) (n : Nat) :
    allowedCleanup c.outcome (obsOf c ident n s) = true := by
  apply allUnits_of
  intro i
  simp only [obsOf, Bool.and_eq_true, Bool.or_eq_true, Bool.not_eq_true', Bool.and_eq_false_iff]
  refine ⟨⟨⟨decide_eq_true (hi.runs_le i), ?_⟩, hi.early i⟩, ?_⟩
  · by_cases h0 : s.runs i = 0
    · exact Or.inr (beq_iff_eq.mpr h0)
    · exact Or.inl (decide_eq_true (hi.runs_accepted i h0))
  · by_cases hw : s.cphase = .done
    · by_cases ha : s.addSt i = .accepted
      · right
        obtain ⟨hr, hm⟩ := hi.done_ran hw ha
        refine ⟨⟨beq_iff_eq.mpr hr, decide_eq_true hr, decide_eq_true hw⟩, ?_⟩
        apply reported_of
        · intro hfl
          obtain ⟨e, he, _⟩ := Outcome.result_of_fails hfl
          obtain ⟨h1, h2⟩ := hid i e hfl he
          exact nested_is_of_result _ (c.outcome i) e he (Or.inl (mem_adds hm)) _ h1 h2
        · intro hpn
          obtain ⟨p, ho⟩ := panic_of_isPanic hpn
          exact nested_is_of_panic _ (c.outcome i) p ho (Or.inl (mem_adds hm))
      · exact Or.inl (Or.inr (decide_eq_false ha))
    · exact Or.inl (Or.inl (decide_eq_false hw))

end Cln
end FunModel.Orch
