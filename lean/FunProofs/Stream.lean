import FunModel.Stream

/-! Functional specification of sequential iterator pipelines (C02) and the helper lemmas that relate
    the call-stream model (`FunModel/Stream.lean`) to it. The property theorems are in
    `FunProps/C02.lean`. -/

namespace FunModel.Stream

/-! ## 1. The functional specification -/

/-- the values of a raw call stream as an iterator over it reports them: `skip` results are dropped,
    the first other non-value result ends the sequence -/
def valsSkip : S → List Int
  | [] => []
  | .val a :: r => a :: valsSkip r
  | .skip :: r => valsSkip r
  | _ :: _ => []

/-- the first result of a raw call stream that is neither a value nor a skip (`none`: the script is
    exhausted, i.e. `eof` forever) -/
def stopEv : S → Option Ev
  | [] => none
  | .val _ :: r => stopEv r
  | .skip :: r => stopEv r
  | t :: _ => some t

/-- apply the user function `f` (call counter `n`) to `xs` in order: an injected `skip` drops that
    element, an injected `val b` yields `b`, any other injected event stops and is returned,
    otherwise the element `x` becomes `x * mul + add` -/
def applyFnE (f : Fn) : Nat → List Int → List Int × Option Ev
  | _, [] => ([], none)
  | n, x :: r =>
    match f.call n x with
    | .val b => (b :: (applyFnE f (n + 1) r).1, (applyFnE f (n + 1) r).2)
    | .skip => applyFnE f (n + 1) r
    | ev => ([], some ev)

/-- `applyFnE` with the stopping event forgotten: (values produced, failed?) -/
def applyFn (f : Fn) (n : Nat) (xs : List Int) : List Int × Bool :=
  ((applyFnE f n xs).1, (applyFnE f n xs).2.isSome)

/-- keep the first occurrence of every element -/
def dedupeFirst : List Int → List Int
  | [] => []
  | x :: r => x :: (dedupeFirst r).filter (fun y => y != x)

/-- `zipIdx`-style enumeration re-encoded as `index * 1000 + value` -/
def enumerate (xs : List Int) : List Int := xs.zipIdx.map (fun p => (p.2 : Int) * 1000 + p.1)

/-- concatenate operand specifications, stopping after the first failed operand -/
def concatStop : List (List Int × Bool) → List Int × Bool
  | [] => ([], false)
  | p :: r => if p.2 then (p.1, true) else (p.1 ++ (concatStop r).1, (concatStop r).2)

mutual
/-- the functional specification: (values, failed?) -/
def spec : Op → List Int × Bool
  | .slice xs => (xs, false)
  | .stack xs => (xs.reverse, false)
  | .gen evs => (valsSkip evs, (stopEv evs).isSome)
  | .filter m r t => ((spec t).1.filter (keep m r), (spec t).2)
  | .map f t => ((applyFn f 0 (spec t).1).1, (applyFn f 0 (spec t).1).2 || (spec t).2)
  | .join t rest => concatStop (spec t :: specAll rest)
  | .chain ts => concatStop (specAll ts)
  | .pipe _ t => spec t
  | .uniq t => (dedupeFirst (spec t).1, (spec t).2)
  | .dropZero t => ((spec t).1.filter (fun x => x != 0), (spec t).2)
  | .indexed t => (enumerate (spec t).1, (spec t).2)
  | .mergeSlices sls => (sls.flatten, false)
  | .jsonRound t => spec t
def specAll : List Op → List (List Int × Bool)
  | [] => []
  | t :: ts => spec t :: specAll ts
end

/-- every element of the list except the last has not failed -/
def initOK : List (List Int × Bool) → Bool
  | [] => true
  | [_] => true
  | p :: q :: r => !p.2 && initOK (q :: r)

mutual
/-- in every `join`/`chain` node every operand except the last has not failed (according to `spec`),
    recursively for all sub-pipelines -/
def NoInnerFailure : Op → Bool
  | .slice _ => true
  | .stack _ => true
  | .gen _ => true
  | .filter _ _ t => NoInnerFailure t
  | .map _ t => NoInnerFailure t
  | .join t rest => NoInnerFailure t && NoInnerFailureAll rest && initOK (spec t :: specAll rest)
  | .chain ts => NoInnerFailureAll ts && initOK (specAll ts)
  | .pipe _ t => NoInnerFailure t
  | .uniq t => NoInnerFailure t
  | .dropZero t => NoInnerFailure t
  | .indexed t => NoInnerFailure t
  | .mergeSlices _ => true
  | .jsonRound t => NoInnerFailure t
def NoInnerFailureAll : List Op → Bool
  | [] => true
  | t :: ts => NoInnerFailure t && NoInnerFailureAll ts
end

mutual
/-- the identities of all `.err` events injected anywhere in a pipeline -/
def injErrs : Op → List Nat
  | .slice _ => []
  | .stack _ => []
  | .gen evs => evs.filterMap (fun e => match e with | .err n => some n | _ => none)
  | .filter _ _ t => injErrs t
  | .map f t => f.inj.filterMap (fun p => match p.2 with | .err n => some n | _ => none) ++ injErrs t
  | .join t rest => injErrs t ++ injErrsAll rest
  | .chain ts => injErrsAll ts
  | .pipe _ t => injErrs t
  | .uniq t => injErrs t
  | .dropZero t => injErrs t
  | .indexed t => injErrs t
  | .mergeSlices _ => []
  | .jsonRound t => injErrs t
def injErrsAll : List Op → List Nat
  | [] => []
  | t :: ts => injErrs t ++ injErrsAll ts
end

/-- what `Reduce` reports for the event that stopped it -/
def reduceErr : Option Ev → Option Nat
  | some .ctx => some 0
  | some (.err e) => some e
  | _ => none

/-- the stream ended by exhaustion / `io.EOF` (the only endings after which `Join` moves on) -/
def okFin : Option Ev → Bool
  | none => true
  | some .eof => true
  | _ => false

/-- what `ReadOne` turns a terminating result into -/
def normEv : Ev → Ev
  | .err _ => .eof
  | t => t

/-- the (at most one) trailing non-value event of an iterator's call stream -/
def tailOf : Option Ev → S
  | some .eof => [.eof]
  | some (.err _) => [.eof]
  | some .abort => [.abort]
  | some .ctx => [.ctx]
  | _ => []

/-! ## 2. `applyFn` -/

theorem applyFn_nil (f : Fn) (n : Nat) : applyFn f n [] = ([], false) := rfl

theorem applyFn_cons_val (f : Fn) (n : Nat) (x b : Int) (r : List Int) (h : f.call n x = .val b) :
    applyFn f n (x :: r) = (b :: (applyFn f (n + 1) r).1, (applyFn f (n + 1) r).2) := by
  simp [applyFn, applyFnE, h]

theorem applyFn_cons_skip (f : Fn) (n : Nat) (x : Int) (r : List Int) (h : f.call n x = .skip) :
    applyFn f n (x :: r) = applyFn f (n + 1) r := by
  simp [applyFn, applyFnE, h]

theorem applyFn_cons_stop (f : Fn) (n : Nat) (x : Int) (r : List Int)
    (h1 : ∀ b, f.call n x ≠ .val b) (h2 : f.call n x ≠ .skip) :
    applyFn f n (x :: r) = ([], true) := by
  cases h : f.call n x with
  | val b => exact absurd h (h1 b)
  | skip => exact absurd h h2
  | _ => simp [applyFn, applyFnE, h]

theorem Fn.call_of_inj_nil (f : Fn) (h : f.inj = []) (n : Nat) (x : Int) :
    f.call n x = .val (x * f.mul + f.add) := by
  simp [Fn.call, h]

/-- without injections `applyFn` is `map` -/
theorem applyFn_of_inj_nil (f : Fn) (h : f.inj = []) (n : Nat) (xs : List Int) :
    applyFn f n xs = (xs.map (fun x => x * f.mul + f.add), false) := by
  induction xs generalizing n with
  | nil => rfl
  | cons x r ih => rw [applyFn_cons_val f n x _ r (f.call_of_inj_nil h n x), ih]; rfl

theorem Fn.call_single (f : Fn) (k : Nat) (e : Ev) (h : f.inj = [(k, e)]) (n : Nat) (x : Int) :
    f.call n x = if k = n then e else .val (x * f.mul + f.add) := by
  by_cases hk : k = n <;> simp [Fn.call, h, List.find?, hk]

/-- a single injected `skip` at call `k ≥ n` removes exactly the element at position `k - n` -/
theorem applyFn_single_skip (f : Fn) (k : Nat) (h : f.inj = [(k, .skip)]) (n : Nat) (xs : List Int)
    (hn : n ≤ k) :
    applyFn f n xs = ((xs.eraseIdx (k - n)).map (fun x => x * f.mul + f.add), false) := by
  induction xs generalizing n with
  | nil => rfl
  | cons x r ih =>
    by_cases hk : k = n
    · subst hk
      rw [applyFn_cons_skip f k x r (by simp [f.call_single k .skip h])]
      have : f.inj.find? (fun p => p.1 == k + 1) = none := by simp [h]
      -- after the skip no injection is left: plain map
      have hmap : ∀ (ys : List Int) (m : Nat), k < m →
          applyFn f m ys = (ys.map (fun x => x * f.mul + f.add), false) := by
        intro ys
        induction ys with
        | nil => intro m _; rfl
        | cons y ys ihy =>
          intro m hm
          have hc : f.call m y = .val (y * f.mul + f.add) := by
            rw [f.call_single k .skip h]; simp [Nat.ne_of_lt hm]
          rw [applyFn_cons_val f m y _ ys hc, ihy (m + 1) (Nat.lt_succ_of_lt hm)]; rfl
      rw [hmap r (k + 1) (Nat.lt_succ_self k)]; simp
    · have hc : f.call n x = .val (x * f.mul + f.add) := by
        rw [f.call_single k .skip h]; simp [hk]
      have hlt : n < k := Nat.lt_of_le_of_ne hn (Ne.symm hk)
      rw [applyFn_cons_val f n x _ r hc, ih (n + 1) hlt]
      have : k - n = (k - (n + 1)) + 1 := by omega
      rw [this, List.eraseIdx_cons_succ]; rfl

/-- a single injected non-skip, non-value event at call `k ≥ n` truncates at position `k - n` -/
theorem applyFn_single_stop (f : Fn) (k : Nat) (e : Ev) (h : f.inj = [(k, e)])
    (h1 : ∀ b, e ≠ .val b) (h2 : e ≠ .skip) (n : Nat) (xs : List Int) (hn : n ≤ k) :
    applyFn f n xs = ((xs.take (k - n)).map (fun x => x * f.mul + f.add), decide (k - n < xs.length)) := by
  induction xs generalizing n with
  | nil => simp [applyFn_nil]
  | cons x r ih =>
    by_cases hk : k = n
    · subst hk
      have hc : f.call k x = e := by rw [f.call_single k e h]; simp
      rw [applyFn_cons_stop f k x r (by rw [hc]; exact h1) (by rw [hc]; exact h2)]; simp
    · have hc : f.call n x = .val (x * f.mul + f.add) := by
        rw [f.call_single k e h]; simp [hk]
      have hlt : n < k := Nat.lt_of_le_of_ne hn (Ne.symm hk)
      rw [applyFn_cons_val f n x _ r hc, ih (n + 1) hlt]
      have : k - n = (k - (n + 1)) + 1 := by omega
      rw [this]; simp

/-! ## 3. `dedupeFirst` -/

theorem mem_dedupeFirst (xs : List Int) (y : Int) : y ∈ dedupeFirst xs ↔ y ∈ xs := by
  induction xs with
  | nil => simp [dedupeFirst]
  | cons x r ih =>
    by_cases hy : y = x
    · simp [dedupeFirst, hy]
    · simp [dedupeFirst, List.mem_filter, ih, hy]

theorem dedupeFirst_nodup (xs : List Int) : (dedupeFirst xs).Nodup := by
  induction xs with
  | nil => simp [dedupeFirst]
  | cons x r ih =>
    simp only [dedupeFirst, List.nodup_cons]
    refine ⟨?_, ih.sublist List.filter_sublist⟩
    simp [List.mem_filter]

/-- the Go loop with its `seen` set is `dedupeFirst` minus what was seen before -/
theorem uniqGo_eq (xs : List Int) : ∀ seen : List Int,
    uniqGo seen xs = (dedupeFirst xs).filter (fun y => !seen.contains y) := by
  induction xs with
  | nil => intro seen; rfl
  | cons x r ih =>
    intro seen
    by_cases hx : seen.contains x = true
    · simp only [uniqGo, hx, if_true, dedupeFirst, List.filter_cons, Bool.not_true]
      rw [ih seen, List.filter_filter]
      simp only [Bool.false_eq_true, if_false]
      apply List.filter_congr
      intro y _
      by_cases hy : y = x
      · subst hy; simpa using hx
      · simp [hy]
    · have hx' : seen.contains x = false := by simpa using hx
      simp only [uniqGo, hx', dedupeFirst, List.filter_cons, Bool.not_false, if_true]
      rw [ih (x :: seen), List.filter_filter]
      simp only [Bool.false_eq_true, if_false, List.cons.injEq, true_and]
      apply List.filter_congr
      intro y _
      by_cases hy : y = x
      · subst hy; simp
      · simp [hy]

theorem uniqGo_nil (xs : List Int) : uniqGo [] xs = dedupeFirst xs := by
  rw [uniqGo_eq]; simp

/-! ## 4. `vals`, `valsSkip`, `stopEv` of basic streams -/

@[simp] theorem vals_map_val_append (vs : List Int) (tl : S) :
    vals (vs.map .val ++ tl) = vs ++ vals tl := by
  induction vs with
  | nil => rfl
  | cons v r ih => simp [vals, ih]

@[simp] theorem valsSkip_map_val_append (vs : List Int) (tl : S) :
    valsSkip (vs.map .val ++ tl) = vs ++ valsSkip tl := by
  induction vs with
  | nil => rfl
  | cons v r ih => simp [valsSkip, ih]

@[simp] theorem stopEv_map_val_append (vs : List Int) (tl : S) :
    stopEv (vs.map .val ++ tl) = stopEv tl := by
  induction vs with
  | nil => rfl
  | cons v r ih => simp [stopEv, ih]

@[simp] theorem vals_map_val (vs : List Int) : vals (vs.map .val) = vs := by
  simpa [vals] using vals_map_val_append vs []

@[simp] theorem valsSkip_map_val (vs : List Int) : valsSkip (vs.map .val) = vs := by
  simpa [valsSkip] using valsSkip_map_val_append vs []

@[simp] theorem stopEv_map_val (vs : List Int) : stopEv (vs.map .val) = none := by
  simpa [stopEv] using stopEv_map_val_append vs []

@[simp] theorem vals_tailOf (o : Option Ev) : vals (tailOf o) = [] := by
  cases o with
  | none => rfl
  | some t => cases t <;> rfl

theorem stopEv_ne_val (s : S) (a : Int) : stopEv s ≠ some (.val a) := by
  induction s with
  | nil => simp [stopEv]
  | cons e r ih => cases e <;> simp [stopEv, ih]

theorem stopEv_ne_skip (s : S) : stopEv s ≠ some .skip := by
  induction s with
  | nil => simp [stopEv]
  | cons e r ih => cases e <;> simp [stopEv, ih]

/-! ## 5. `readOne` / `iter` -/

/-- the call stream of an iterator: the values (skips dropped), then at most one terminating event -/
theorem iter_eq (s : S) : iter s = (valsSkip s).map .val ++ tailOf (stopEv s) := by
  unfold iter
  induction s with
  | nil => rfl
  | cons e r ih =>
    cases e <;> simp_all [readOne, valsSkip, stopEv, tailOf]

theorem vals_iter (s : S) : vals (iter s) = valsSkip s := by
  rw [iter_eq]; simp

theorem valsSkip_iter (s : S) : valsSkip (iter s) = valsSkip s := by
  rw [iter_eq, valsSkip_map_val_append]
  cases h : stopEv s with
  | none => simp [tailOf, valsSkip]
  | some t => cases t <;> simp [tailOf, valsSkip]

theorem stopEv_iter (s : S) : stopEv (iter s) = (stopEv s).map normEv := by
  rw [iter_eq, stopEv_map_val_append]
  cases h : stopEv s with
  | none => rfl
  | some t =>
    cases t with
    | val a => exact absurd h (stopEv_ne_val s a)
    | skip => exact absurd h (stopEv_ne_skip s)
    | _ => rfl

theorem tailOf_map_normEv (o : Option Ev) : tailOf (o.map normEv) = tailOf o := by
  cases o with
  | none => rfl
  | some t => cases t <;> rfl

theorem iter_idem (s : S) : iter (iter s) = iter s := by
  rw [iter_eq (iter s), valsSkip_iter, stopEv_iter, iter_eq s, tailOf_map_normEv]

/-- sticky errors: an iterator's call stream has nothing after its first non-value result -/
theorem readOne_sticky (s : S) : ∀ pre post e, (readOne s).1 = pre ++ e :: post → (∀ a, e ≠ .val a) → post = [] := by
  induction s with
  | nil => intro pre post e h; simp [readOne] at h
  | cons x r ih =>
    intro pre post e h he
    cases x with
    | val a =>
      simp only [readOne] at h
      cases pre with
      | nil => simp at h; exact absurd h.1.symm (he a)
      | cons p pre' =>
        simp only [List.cons_append, List.cons.injEq] at h
        exact ih pre' post e h.2 he
    | skip => simp only [readOne] at h; exact ih pre post e h he
    | eof => simp only [readOne] at h; cases pre with
      | nil => simp at h; exact h.2
      | cons p pre' => simp at h
    | abort => simp only [readOne] at h; cases pre with
      | nil => simp at h; exact h.2
      | cons p pre' => simp at h
    | ctx => simp only [readOne] at h; cases pre with
      | nil => simp at h; exact h.2
      | cons p pre' => simp at h
    | err n => simp only [readOne] at h; cases pre with
      | nil => simp at h; exact h.2
      | cons p pre' => simp at h

/-- the errors handed to the collector are `.err` results of the raw stream -/
theorem mem_iterErrs (s : S) (e : Nat) : e ∈ iterErrs s → .err e ∈ s := by
  unfold iterErrs
  induction s with
  | nil => simp [readOne]
  | cons x r ih => cases x <;> simp_all [readOne]

theorem err_not_mem_iter (s : S) (e : Nat) : .err e ∉ iter s := by
  rw [iter_eq]
  cases h : stopEv s with
  | none => simp [tailOf]
  | some t => cases t <;> simp [tailOf]

/-! ## 6. one lemma per combinator -/

/-! ### Filter -/

theorem vals_filterS (p : Int → Bool) (s : S) : vals (filterS p s) = (vals s).filter p := by
  induction s with
  | nil => rfl
  | cons e r ih =>
    cases e with
    | val a => by_cases h : p a = true <;> simp [filterS, vals, h, ih]
    | _ => simp [filterS, vals]

theorem valsSkip_filterS (p : Int → Bool) (s : S) : valsSkip (filterS p s) = (valsSkip s).filter p := by
  induction s with
  | nil => rfl
  | cons e r ih =>
    cases e with
    | val a => by_cases h : p a = true <;> simp [filterS, valsSkip, h, ih]
    | _ => simp [filterS, valsSkip, ih]

theorem stopEv_filterS (p : Int → Bool) (s : S) : stopEv (filterS p s) = stopEv s := by
  induction s with
  | nil => rfl
  | cons e r ih =>
    cases e with
    | val a => by_cases h : p a = true <;> simp [filterS, stopEv, h, ih]
    | _ => simp [filterS, stopEv, ih]

/-! ### DropZeroValues -/

theorem vals_dropZeroS (s : S) : vals (dropZeroS s) = (vals s).filter (fun x => x != 0) := by
  induction s with
  | nil => rfl
  | cons e r ih =>
    cases e with
    | val a => by_cases h : a = 0 <;> simp [dropZeroS, vals, h, ih]
    | _ => simp [dropZeroS, vals]

theorem valsSkip_dropZeroS (s : S) : valsSkip (dropZeroS s) = (valsSkip s).filter (fun x => x != 0) := by
  induction s with
  | nil => rfl
  | cons e r ih =>
    cases e with
    | val a => by_cases h : a = 0 <;> simp [dropZeroS, valsSkip, h, ih]
    | _ => simp [dropZeroS, valsSkip, ih]

theorem stopEv_dropZeroS (s : S) : stopEv (dropZeroS s) = stopEv s := by
  induction s with
  | nil => rfl
  | cons e r ih =>
    cases e with
    | val a => by_cases h : a = 0 <;> simp [dropZeroS, stopEv, h, ih]
    | _ => simp [dropZeroS, stopEv, ih]

/-! ### Indexed -/

theorem vals_indexedS (n : Nat) (s : S) :
    vals (indexedS n s) = ((vals s).zipIdx n).map (fun p => (p.2 : Int) * 1000 + p.1) := by
  induction s generalizing n with
  | nil => rfl
  | cons e r ih => cases e <;> simp [indexedS, vals, ih]

theorem valsSkip_indexedS (n : Nat) (s : S) :
    valsSkip (indexedS n s) = ((valsSkip s).zipIdx n).map (fun p => (p.2 : Int) * 1000 + p.1) := by
  induction s generalizing n with
  | nil => rfl
  | cons e r ih => cases e <;> simp [indexedS, valsSkip, ih]

theorem stopEv_indexedS (n : Nat) (s : S) : stopEv (indexedS n s) = stopEv s := by
  induction s generalizing n with
  | nil => rfl
  | cons e r ih => cases e <;> simp [indexedS, stopEv, ih]

/-! ### Transform -/

theorem valsSkip_transformS (f : Fn) (n : Nat) (s : S) :
    valsSkip (transformS f n s) = (applyFnE f n (valsSkip s)).1 := by
  induction s generalizing n with
  | nil => rfl
  | cons e r ih =>
    cases e with
    | val a => cases h : f.call n a <;> simp [transformS, valsSkip, applyFnE, h, ih]
    | _ => simp [transformS, valsSkip, applyFnE, ih]

/-- `vals` of the transformed stream: the function applied to the values of the source with skips
    of the source retried -/
theorem vals_transformS (f : Fn) (n : Nat) (s : S) :
    vals (transformS f n s) = (applyFn f n (valsSkip s)).1 := by
  show _ = (applyFnE f n (valsSkip s)).1
  induction s generalizing n with
  | nil => rfl
  | cons e r ih =>
    cases e with
    | val a => cases h : f.call n a <;> simp [transformS, vals, valsSkip, applyFnE, h, ih]
    | _ => simp [transformS, vals, valsSkip, applyFnE, ih]

theorem stopEv_transformS (f : Fn) (n : Nat) (s : S) :
    stopEv (transformS f n s) = ((applyFnE f n (valsSkip s)).2).or (stopEv s) := by
  induction s generalizing n with
  | nil => rfl
  | cons e r ih =>
    cases e with
    | val a => cases h : f.call n a <;> simp [transformS, stopEv, valsSkip, applyFnE, h, ih]
    | _ => simp [transformS, stopEv, valsSkip, applyFnE, ih]

/-! ### Join -/

@[simp] theorem okFin_none : okFin none = true := rfl
@[simp] theorem okFin_eof : okFin (some .eof) = true := rfl
@[simp] theorem okFin_abort : okFin (some .abort) = false := rfl
@[simp] theorem okFin_ctx : okFin (some .ctx) = false := rfl
@[simp] theorem okFin_err (e : Nat) : okFin (some (.err e)) = false := rfl

theorem valsSkip_joinSecond (b : S) : valsSkip (joinSecond b) = valsSkip b := by
  induction b with
  | nil => rfl
  | cons e r ih => cases e <;> simp [joinSecond, valsSkip, ih]

theorem vals_joinSecond (b : S) : vals (joinSecond b) = valsSkip b := by
  induction b with
  | nil => rfl
  | cons e r ih => cases e <;> simp [joinSecond, valsSkip, vals, ih]

theorem stopEv_joinSecond (b : S) : stopEv (joinSecond b) = stopEv b := by
  induction b with
  | nil => rfl
  | cons e r ih => cases e <;> simp [joinSecond, stopEv, ih]

/-- `Join`: the first operand's values; the second operand is read only if the first ended by
    exhaustion / `io.EOF` -/
theorem valsSkip_joinS (a b : S) :
    valsSkip (joinS a b) = valsSkip a ++ (if okFin (stopEv a) then valsSkip b else []) := by
  induction a with
  | nil => simp [joinS, valsSkip, stopEv, valsSkip_joinSecond]
  | cons e r ih =>
    cases e with
    | val x => simp only [joinS, valsSkip, stopEv, ih, List.cons_append]; rfl
    | skip => simp only [joinS, valsSkip, stopEv, ih]; rfl
    | _ => simp [joinS, valsSkip, stopEv, valsSkip_joinSecond]

theorem vals_joinS (a b : S) :
    vals (joinS a b) = valsSkip a ++ (if okFin (stopEv a) then valsSkip b else []) := by
  induction a with
  | nil => simp [joinS, valsSkip, stopEv, vals_joinSecond]
  | cons e r ih =>
    cases e with
    | val x => simp only [joinS, vals, valsSkip, stopEv, ih, List.cons_append]; rfl
    | skip => simp only [joinS, valsSkip, stopEv, ih]; rfl
    | _ => simp [joinS, vals, valsSkip, stopEv, vals_joinSecond]

theorem stopEv_joinS (a b : S) :
    stopEv (joinS a b) = if okFin (stopEv a) then stopEv b else stopEv a := by
  induction a with
  | nil => simp [joinS, stopEv, stopEv_joinSecond]
  | cons e r ih =>
    cases e with
    | val x => simp only [joinS, stopEv, ih]; rfl
    | skip => simp only [joinS, stopEv, ih]; rfl
    | _ => simp [joinS, stopEv, stopEv_joinSecond]

/-! ### the goroutine-backed identity stages, Chain, Uniq, MergeSlices, the JSON round trip -/

theorem vals_pipeS (s : S) : vals (pipeS s) = vals s := by simp [pipeS, vals]
theorem valsSkip_pipeS (s : S) : valsSkip (pipeS s) = vals s := by simp [pipeS, valsSkip]
theorem stopEv_pipeS (s : S) : stopEv (pipeS s) = some .eof := by simp [pipeS, stopEv]

theorem vals_chainS (ss : List S) : vals (chainS ss) = ss.flatMap vals := by simp [chainS, vals]
theorem valsSkip_chainS (ss : List S) : valsSkip (chainS ss) = ss.flatMap vals := by simp [chainS, valsSkip]
theorem stopEv_chainS (ss : List S) : stopEv (chainS ss) = some .eof := by simp [chainS, stopEv]

theorem vals_uniqS (s : S) : vals (uniqS s) = dedupeFirst (vals s) := by
  simp [uniqS, vals, uniqGo_nil]
theorem valsSkip_uniqS (s : S) : valsSkip (uniqS s) = dedupeFirst (vals s) := by
  simp [uniqS, valsSkip, uniqGo_nil]
theorem stopEv_uniqS (s : S) : stopEv (uniqS s) = some .eof := by simp [uniqS, stopEv]

theorem vals_mergeSlicesS (sls : List (List Int)) : vals (mergeSlicesS sls) = sls.flatten := by
  unfold mergeSlicesS; rw [List.flatMap_id, vals_map_val_append]; simp [vals]
theorem valsSkip_mergeSlicesS (sls : List (List Int)) : valsSkip (mergeSlicesS sls) = sls.flatten := by
  unfold mergeSlicesS; rw [List.flatMap_id, valsSkip_map_val_append]; simp [valsSkip]
theorem stopEv_mergeSlicesS (sls : List (List Int)) : stopEv (mergeSlicesS sls) = some .eof := by
  unfold mergeSlicesS; rw [stopEv_map_val_append]; rfl

/-! ### consumers -/

/-- `Reduce` with the summing reducer: the sum of what `applyFnE` produces over the values read
    before the first error, and the error it reports: a `ctx`/`err` result of the reducer is returned,
    `eof`/`abort` of the reducer and any error of the iterator end the fold silently -/
theorem reduceGo_eq (f : Fn) (n : Nat) (acc : Int) (s : S) :
    reduceGo f n acc s =
      (acc + ((applyFnE f n (vals s)).1).sum, reduceErr (applyFnE f n (vals s)).2) := by
  induction s generalizing n acc with
  | nil => simp [reduceGo, vals, applyFnE, reduceErr]
  | cons e r ih =>
    cases e with
    | val a =>
      cases h : f.call n a <;>
        simp [reduceGo, vals, applyFnE, h, ih, reduceErr, Int.add_assoc]
    | _ => simp [reduceGo, vals, applyFnE, reduceErr]

/-! ## 7. pipelines -/

/-- every pipeline's stream is the call stream of an iterator -/
theorem denote_iter (op : Op) : iter (denote op) = denote op := by
  cases op <;> simp only [denote, iterJoin, iter_idem]

theorem valsSkip_denote (op : Op) : valsSkip (denote op) = vals (denote op) := by
  have h := vals_iter (denote op)
  rw [denote_iter] at h
  exact h.symm

/-- a pipeline's stream is its values followed by at most one terminating event -/
theorem denote_eq (op : Op) :
    denote op = (vals (denote op)).map .val ++ tailOf (stopEv (denote op)) := by
  have h := iter_eq (denote op)
  rw [denote_iter, valsSkip_denote] at h
  exact h

theorem tailOf_cases (o : Option Ev) :
    tailOf o = [] ∨ tailOf o = [.eof] ∨ tailOf o = [.abort] ∨ tailOf o = [.ctx] := by
  cases o with
  | none => simp [tailOf]
  | some t => cases t <;> simp [tailOf]

/-- the relation between a stream and a specification pair maintained by all combinators -/
def Rel (D : S) (sp : List Int × Bool) : Prop :=
  vals D = sp.1 ∧ valsSkip D = sp.1 ∧ (sp.2 = false → okFin (stopEv D) = true)

def RelAll : List S → List (List Int × Bool) → Prop
  | [], [] => True
  | D :: ds, p :: ps => Rel D p ∧ RelAll ds ps
  | _, _ => False

theorem okFin_map_normEv (o : Option Ev) (h : okFin o = true) : okFin (o.map normEv) = true := by
  cases o with
  | none => rfl
  | some t => cases t <;> simp_all [normEv]

theorem rel_iter (X : S) (sp : List Int × Bool) (h1 : valsSkip X = sp.1)
    (h2 : sp.2 = false → okFin (stopEv X) = true) : Rel (iter X) sp :=
  ⟨by rw [vals_iter, h1], by rw [valsSkip_iter, h1],
    fun h => by rw [stopEv_iter]; exact okFin_map_normEv _ (h2 h)⟩

theorem initOK_cons_congr (p q : List Int × Bool) (r : List (List Int × Bool)) (h : p.2 = q.2) :
    initOK (p :: r) = initOK (q :: r) := by
  cases r <;> simp [initOK, h]

theorem rel_foldl_joinS : ∀ (ss : List S) (sps : List (List Int × Bool)), RelAll ss sps →
    ∀ (a : S) (sp : List Int × Bool), Rel a sp → initOK (sp :: sps) = true →
      Rel (ss.foldl joinS a) (concatStop (sp :: sps))
  | [], [], _, a, sp, hr, _ => by
    obtain ⟨h1, h2, h3⟩ := hr
    by_cases hb : sp.2 = true
    · exact ⟨by simp [concatStop, hb, h1], by simp [concatStop, hb, h2], by simp [concatStop, hb]⟩
    · have hb' : sp.2 = false := by simpa using hb
      exact ⟨by simp [concatStop, hb', h1], by simp [concatStop, hb', h2],
        fun _ => by simpa using h3 hb'⟩
  | [], _ :: _, hall, _, _, _, _ => by simp [RelAll] at hall
  | _ :: _, [], hall, _, _, _, _ => by simp [RelAll] at hall
  | D :: ss, q :: sps, hall, a, sp, hr, hok => by
    obtain ⟨hD, hall'⟩ := hall
    obtain ⟨h1, h2, h3⟩ := hr
    obtain ⟨d1, d2, d3⟩ := hD
    simp only [initOK, Bool.and_eq_true, Bool.not_eq_true'] at hok
    have ha : okFin (stopEv a) = true := h3 hok.1
    have hrel : Rel (joinS a D) (sp.1 ++ q.1, q.2) :=
      ⟨by rw [vals_joinS, ha, h2, d2]; simp, by rw [valsSkip_joinS, ha, h2, d2]; simp,
        fun hq => by rw [stopEv_joinS, ha]; simpa using d3 hq⟩
    have hok' : initOK ((sp.1 ++ q.1, q.2) :: sps) = true := by
      rw [initOK_cons_congr (sp.1 ++ q.1, q.2) q sps rfl]; exact hok.2
    have := rel_foldl_joinS ss sps hall' (joinS a D) (sp.1 ++ q.1, q.2) hrel hok'
    have heq : concatStop (sp :: q :: sps) = concatStop ((sp.1 ++ q.1, q.2) :: sps) := by
      by_cases hq : q.2 = true <;> simp [concatStop, hok.1, hq]
    rw [List.foldl_cons, heq]
    exact this

theorem concatStop_fst : ∀ (ss : List S) (sps : List (List Int × Bool)), RelAll ss sps →
    initOK sps = true → (concatStop sps).1 = ss.flatMap vals
  | [], [], _, _ => rfl
  | [], _ :: _, hall, _ => by simp [RelAll] at hall
  | _ :: _, [], hall, _ => by simp [RelAll] at hall
  | D :: ss, q :: sps, hall, hok => by
    obtain ⟨⟨d1, _, _⟩, hall'⟩ := hall
    cases sps with
    | nil =>
      cases ss with
      | nil => by_cases hq : q.2 = true <;> simp [concatStop, hq, d1]
      | cons _ _ => simp [RelAll] at hall'
    | cons q' sps' =>
      simp only [initOK, Bool.and_eq_true, Bool.not_eq_true'] at hok
      have ih := concatStop_fst ss (q' :: sps') hall' hok.2
      simp only [concatStop, hok.1, Bool.false_eq_true, if_false, List.flatMap_cons, d1]
      simp only [concatStop] at ih
      rw [ih]

mutual
/-- the main invariant: under `NoInnerFailure` a pipeline's stream yields exactly the specified
    values, and ends by exhaustion/EOF unless the specification says it failed -/
theorem rel_denote : (op : Op) → NoInnerFailure op = true → Rel (denote op) (spec op)
  | .slice xs, _ => by
    simp only [denote, spec]; exact rel_iter _ _ (by simp) (by simp)
  | .stack xs, _ => by
    simp only [denote, spec]
    exact rel_iter _ _ (valsSkip_map_val _) (by rw [stopEv_map_val]; simp)
  | .gen evs, _ => by
    simp only [denote, spec]
    refine rel_iter _ _ rfl ?_
    intro h
    cases hs : stopEv evs with
    | none => rfl
    | some t => simp [hs] at h
  | .filter m r t, h => by
    simp only [NoInnerFailure] at h
    obtain ⟨_, h2, h3⟩ := rel_denote t h
    simp only [denote, spec]
    exact rel_iter _ _ (by rw [valsSkip_filterS, h2]) (by rw [stopEv_filterS]; exact h3)
  | .map f t, h => by
    simp only [NoInnerFailure] at h
    obtain ⟨_, h2, h3⟩ := rel_denote t h
    simp only [denote, spec]
    refine rel_iter _ _ (by rw [valsSkip_transformS, h2]; rfl) ?_
    intro hb
    simp only [Bool.or_eq_false_iff, applyFn] at hb
    rw [stopEv_transformS, h2]
    cases ha : (applyFnE f 0 (spec t).1).2 with
    | none => simpa using h3 hb.2
    | some e => simp [ha] at hb
  | .join t rest, h => by
    simp only [NoInnerFailure, Bool.and_eq_true] at h
    have h1 := rel_denote t h.1.1
    have h2 := rel_denoteAll rest h.1.2
    have := rel_foldl_joinS _ _ h2 _ _ h1 h.2
    simp only [denote, spec, iterJoin]
    exact rel_iter _ _ this.2.1 this.2.2
  | .chain ts, h => by
    simp only [NoInnerFailure, Bool.and_eq_true] at h
    have h2 := rel_denoteAll ts h.1
    simp only [denote, spec]
    exact rel_iter _ _ (by rw [valsSkip_chainS, concatStop_fst _ _ h2 h.2])
      (by rw [stopEv_chainS]; simp)
  | .pipe _ t, h => by
    simp only [NoInnerFailure] at h
    obtain ⟨h1, _, _⟩ := rel_denote t h
    simp only [denote, spec]
    exact rel_iter _ _ (by rw [valsSkip_pipeS, h1]) (by rw [stopEv_pipeS]; simp)
  | .uniq t, h => by
    simp only [NoInnerFailure] at h
    obtain ⟨h1, _, _⟩ := rel_denote t h
    simp only [denote, spec]
    exact rel_iter _ _ (by rw [valsSkip_uniqS, h1]) (by rw [stopEv_uniqS]; simp)
  | .dropZero t, h => by
    simp only [NoInnerFailure] at h
    obtain ⟨_, h2, h3⟩ := rel_denote t h
    simp only [denote, spec]
    exact rel_iter _ _ (by rw [valsSkip_dropZeroS, h2]) (by rw [stopEv_dropZeroS]; exact h3)
  | .indexed t, h => by
    simp only [NoInnerFailure] at h
    obtain ⟨_, h2, h3⟩ := rel_denote t h
    simp only [denote, spec]
    exact rel_iter _ _ (by rw [valsSkip_indexedS, h2]; rfl) (by rw [stopEv_indexedS]; exact h3)
  | .mergeSlices sls, _ => by
    simp only [denote, spec]
    exact rel_iter _ _ (valsSkip_mergeSlicesS sls) (by rw [stopEv_mergeSlicesS]; simp)
  | .jsonRound t, h => by
    simp only [NoInnerFailure] at h
    obtain ⟨h1, _, _⟩ := rel_denote t h
    simp only [denote]
    refine rel_iter _ _ ?_ ?_
    · rw [valsSkip_joinS]; simp [stopEv, valsSkip, h1, spec]
    · intro _; rw [stopEv_joinS]; simp [stopEv]
theorem rel_denoteAll : (ts : List Op) → NoInnerFailureAll ts = true →
    RelAll (denoteAll ts) (specAll ts)
  | [], _ => by simp [denoteAll, specAll, RelAll]
  | t :: ts, h => by
    simp only [NoInnerFailureAll, Bool.and_eq_true] at h
    simp only [denoteAll, specAll, RelAll]
    exact ⟨rel_denote t h.1, rel_denoteAll ts h.2⟩
end

/-! ## 8. `closeErrs` -/

theorem Fn.call_err_mem (f : Fn) (n : Nat) (x : Int) (e : Nat) (h : f.call n x = .err e) :
    ∃ k, (k, Ev.err e) ∈ f.inj := by
  unfold Fn.call at h
  cases hf : f.inj.find? (fun p => p.1 == n) with
  | none => simp [hf] at h
  | some p =>
    simp only [hf] at h
    have := List.mem_of_find?_eq_some hf
    exact ⟨p.1, by rw [← h]; exact this⟩

theorem err_mem_transformS (f : Fn) (e : Nat) : ∀ (s : S) (n : Nat),
    .err e ∈ transformS f n s → .err e ∈ s ∨ ∃ k, (k, Ev.err e) ∈ f.inj := by
  intro s
  induction s with
  | nil => intro n h; simp [transformS] at h
  | cons x r ih =>
    intro n h
    cases x with
    | val a =>
      cases hc : f.call n a with
      | skip =>
        simp only [transformS, hc] at h
        exact (ih _ h).imp (fun h => List.mem_cons_of_mem _ h) id
      | err e' =>
        simp only [transformS, hc, List.mem_cons] at h
        rcases h with h | h
        · injection h with h; subst h; exact Or.inr (f.call_err_mem n a _ hc)
        · exact (ih _ h).imp (fun h => List.mem_cons_of_mem _ h) id
      | _ =>
        simp only [transformS, hc, List.mem_cons, reduceCtorEq, false_or] at h
        exact (ih _ h).imp (fun h => List.mem_cons_of_mem _ h) id
    | skip =>
      simp only [transformS] at h
      exact (ih _ h).imp (fun h => List.mem_cons_of_mem _ h) id
    | err e' =>
      simp only [transformS, List.mem_cons] at h
      rcases h with h | h
      · exact Or.inl (by rw [h]; exact List.mem_cons_self)
      · exact (ih _ h).imp (fun h => List.mem_cons_of_mem _ h) id
    | _ =>
      simp only [transformS, List.mem_cons, reduceCtorEq, false_or] at h
      exact (ih _ h).imp (fun h => List.mem_cons_of_mem _ h) id

mutual
theorem closeErrs_sub : (op : Op) → ∀ e, e ∈ closeErrs op → e ∈ injErrs op
  | .slice _, e, h => by simp [closeErrs] at h
  | .stack _, e, h => by simp [closeErrs] at h
  | .gen evs, e, h => by
    simp only [closeErrs] at h
    simp only [injErrs, List.mem_filterMap]
    exact ⟨.err e, mem_iterErrs _ _ h, rfl⟩
  | .filter _ _ _, e, h => by simp [closeErrs] at h
  | .map f t, e, h => by
    simp only [closeErrs] at h
    simp only [injErrs, List.mem_append, List.mem_filterMap]
    rcases err_mem_transformS f e _ _ (mem_iterErrs _ _ h) with h' | ⟨k, hk⟩
    · rw [← denote_iter] at h'; exact absurd h' (err_not_mem_iter _ _)
    · exact Or.inl ⟨(k, .err e), hk, rfl⟩
  | .join _ _, e, h => by simp [closeErrs] at h
  | .chain ts, e, h => by
    simp only [closeErrs] at h
    simp only [injErrs]
    exact closeErrsAll_sub ts e h
  | .pipe hook t, e, h => by
    simp only [closeErrs] at h
    simp only [injErrs]
    cases hook with
    | true => exact closeErrs_sub t e (by simpa using h)
    | false => simp at h
  | .uniq t, e, h => by
    simp only [closeErrs] at h; simp only [injErrs]; exact closeErrs_sub t e h
  | .dropZero t, e, h => by
    simp only [closeErrs] at h; simp only [injErrs]; exact closeErrs_sub t e h
  | .indexed _, e, h => by simp [closeErrs] at h
  | .mergeSlices _, e, h => by simp [closeErrs] at h
  | .jsonRound _, e, h => by simp [closeErrs] at h
theorem closeErrsAll_sub : (ts : List Op) → ∀ e, e ∈ closeErrsAll ts → e ∈ injErrsAll ts
  | [], e, h => by simp [closeErrsAll] at h
  | t :: ts, e, h => by
    simp only [closeErrsAll, List.mem_append] at h
    simp only [injErrsAll, List.mem_append]
    exact h.imp (closeErrs_sub t e) (closeErrsAll_sub ts e)
end

/-! ## 9. unconditionally: the specified values are a prefix of what the pipeline yields -/

theorem applyFnE_prefix (f : Fn) (zs : List Int) : ∀ (xs : List Int) (n : Nat),
    (applyFnE f n xs).1 <+: (applyFnE f n (xs ++ zs)).1 := by
  intro xs
  induction xs with
  | nil => intro n; exact List.nil_prefix
  | cons x r ih =>
    intro n
    cases h : f.call n x with
    | val b => simp only [applyFnE, h, List.cons_append, List.prefix_cons_inj]; exact ih (n + 1)
    | skip => simp only [applyFnE, h, List.cons_append]; exact ih (n + 1)
    | _ => simp [applyFnE, h]

theorem applyFnE_prefix' (f : Fn) (n : Nat) (xs ys : List Int) (h : xs <+: ys) :
    (applyFnE f n xs).1 <+: (applyFnE f n ys).1 := by
  obtain ⟨zs, rfl⟩ := h
  exact applyFnE_prefix f zs xs n

theorem dedupeFirst_prefix (zs : List Int) : ∀ xs : List Int,
    dedupeFirst xs <+: dedupeFirst (xs ++ zs) := by
  intro xs
  induction xs with
  | nil => exact List.nil_prefix
  | cons x r ih =>
    simp only [dedupeFirst, List.cons_append, List.prefix_cons_inj]
    exact ih.filter _

theorem dedupeFirst_prefix' (xs ys : List Int) (h : xs <+: ys) : dedupeFirst xs <+: dedupeFirst ys := by
  obtain ⟨zs, rfl⟩ := h
  exact dedupeFirst_prefix zs xs

theorem enumerate_prefix (xs ys : List Int) (h : xs <+: ys) : enumerate xs <+: enumerate ys := by
  obtain ⟨zs, rfl⟩ := h
  unfold enumerate
  rw [List.zipIdx_append]
  exact (List.prefix_append _ _).map _

/-- the unconditional relation: the specified values are a prefix of the stream's values, with
    equality and a clean ending unless the specification reports a failure -/
def Pre (D : S) (sp : List Int × Bool) : Prop :=
  vals D = valsSkip D ∧ sp.1 <+: valsSkip D ∧
    (sp.2 = false → valsSkip D = sp.1 ∧ okFin (stopEv D) = true)

def PreAll : List S → List (List Int × Bool) → Prop
  | [], [] => True
  | D :: ds, p :: ps => Pre D p ∧ PreAll ds ps
  | _, _ => False

theorem pre_iter (X : S) (sp : List Int × Bool) (h1 : sp.1 <+: valsSkip X)
    (h2 : sp.2 = false → valsSkip X = sp.1 ∧ okFin (stopEv X) = true) : Pre (iter X) sp :=
  ⟨by rw [vals_iter, valsSkip_iter], by rw [valsSkip_iter]; exact h1,
    fun h => ⟨by rw [valsSkip_iter]; exact (h2 h).1,
      by rw [stopEv_iter]; exact okFin_map_normEv _ (h2 h).2⟩⟩

theorem valsSkip_prefix_joinS (a b : S) : valsSkip a <+: valsSkip (joinS a b) := by
  rw [valsSkip_joinS]; exact List.prefix_append _ _

theorem vals_eq_valsSkip_joinS (a b : S) : vals (joinS a b) = valsSkip (joinS a b) := by
  rw [vals_joinS, valsSkip_joinS]

theorem valsSkip_prefix_foldl_joinS : ∀ (ss : List S) (a : S), valsSkip a <+: valsSkip (ss.foldl joinS a)
  | [], _ => List.prefix_rfl
  | D :: ss, a => (valsSkip_prefix_joinS a D).trans (valsSkip_prefix_foldl_joinS ss (joinS a D))

theorem vals_eq_valsSkip_foldl_joinS : ∀ (ss : List S) (a : S), vals a = valsSkip a →
    vals (ss.foldl joinS a) = valsSkip (ss.foldl joinS a)
  | [], _, h => h
  | D :: ss, a, _ => vals_eq_valsSkip_foldl_joinS ss (joinS a D) (vals_eq_valsSkip_joinS a D)

theorem pre_foldl_joinS : ∀ (ss : List S) (sps : List (List Int × Bool)), PreAll ss sps →
    ∀ (a : S) (sp : List Int × Bool), Pre a sp → Pre (ss.foldl joinS a) (concatStop (sp :: sps))
  | [], [], _, a, sp, hr => by
    obtain ⟨h1, h2, h3⟩ := hr
    by_cases hb : sp.2 = true
    · exact ⟨h1, by simpa [concatStop, hb] using h2, by simp [concatStop, hb]⟩
    · have hb' : sp.2 = false := by simpa using hb
      exact ⟨h1, by simpa [concatStop, hb'] using h2, fun _ => by simpa [concatStop, hb'] using h3 hb'⟩
  | [], _ :: _, hall, _, _, _ => by simp [PreAll] at hall
  | _ :: _, [], hall, _, _, _ => by simp [PreAll] at hall
  | D :: ss, q :: sps, hall, a, sp, hr => by
    obtain ⟨hD, hall'⟩ := hall
    obtain ⟨h1, h2, h3⟩ := hr
    by_cases hb : sp.2 = true
    · refine ⟨vals_eq_valsSkip_foldl_joinS _ _ h1, ?_, by simp [concatStop, hb]⟩
      simp only [concatStop, hb, if_true]
      exact h2.trans (valsSkip_prefix_foldl_joinS _ _)
    · have hb' : sp.2 = false := by simpa using hb
      obtain ⟨d1, d2, d3⟩ := hD
      obtain ⟨ha1, ha2⟩ := h3 hb'
      have hrel : Pre (joinS a D) (sp.1 ++ q.1, q.2) :=
        ⟨vals_eq_valsSkip_joinS a D,
          by rw [valsSkip_joinS, ha2, ha1]; simpa [List.prefix_append_right_inj] using d2,
          fun hq => ⟨by rw [valsSkip_joinS, ha2, ha1, (d3 hq).1]; simp,
            by rw [stopEv_joinS, ha2]; simpa using (d3 hq).2⟩⟩
      have := pre_foldl_joinS ss sps hall' (joinS a D) (sp.1 ++ q.1, q.2) hrel
      have heq : concatStop (sp :: q :: sps) = concatStop ((sp.1 ++ q.1, q.2) :: sps) := by
        by_cases hq : q.2 = true <;> simp [concatStop, hb', hq]
      rw [List.foldl_cons, heq]
      exact this

theorem concatStop_prefix : ∀ (ss : List S) (sps : List (List Int × Bool)), PreAll ss sps →
    (concatStop sps).1 <+: ss.flatMap vals ∧
      ((concatStop sps).2 = false → ss.flatMap vals = (concatStop sps).1)
  | [], [], _ => ⟨List.prefix_rfl, fun _ => rfl⟩
  | [], _ :: _, hall => by simp [PreAll] at hall
  | _ :: _, [], hall => by simp [PreAll] at hall
  | D :: ss, q :: sps, hall => by
    obtain ⟨⟨d1, d2, d3⟩, hall'⟩ := hall
    have ih := concatStop_prefix ss sps hall'
    by_cases hq : q.2 = true
    · simp only [concatStop, hq, if_true, List.flatMap_cons, d1]
      exact ⟨d2.trans (List.prefix_append _ _), by simp⟩
    · have hq' : q.2 = false := by simpa using hq
      simp only [concatStop, hq', Bool.false_eq_true, if_false, List.flatMap_cons, d1, (d3 hq').1]
      exact ⟨(List.prefix_append_right_inj _).2 ih.1, fun h => by rw [ih.2 h]⟩

mutual
theorem pre_denote : (op : Op) → Pre (denote op) (spec op)
  | .slice xs => by
    simp only [denote, spec]
    exact pre_iter _ _ (by simp) (fun _ => ⟨by simp, by simp⟩)
  | .stack xs => by
    simp only [denote, spec]
    exact pre_iter _ _ (by rw [valsSkip_map_val]; exact List.prefix_rfl)
      (fun _ => ⟨valsSkip_map_val _, by rw [stopEv_map_val]; rfl⟩)
  | .gen evs => by
    simp only [denote, spec]
    refine pre_iter _ _ List.prefix_rfl (fun h => ⟨rfl, ?_⟩)
    cases hs : stopEv evs with
    | none => rfl
    | some t => simp [hs] at h
  | .filter m r t => by
    obtain ⟨_, h2, h3⟩ := pre_denote t
    simp only [denote, spec]
    refine pre_iter _ _ (by rw [valsSkip_filterS]; exact h2.filter _) (fun h => ?_)
    rw [valsSkip_filterS, stopEv_filterS, (h3 h).1]; exact ⟨rfl, (h3 h).2⟩
  | .map f t => by
    obtain ⟨_, h2, h3⟩ := pre_denote t
    simp only [denote, spec]
    refine pre_iter _ _ (by rw [valsSkip_transformS]; exact applyFnE_prefix' f 0 _ _ h2) (fun hb => ?_)
    simp only [Bool.or_eq_false_iff, applyFn] at hb
    rw [valsSkip_transformS, stopEv_transformS, (h3 hb.2).1]
    refine ⟨rfl, ?_⟩
    cases ha : (applyFnE f 0 (spec t).1).2 with
    | none => simpa using (h3 hb.2).2
    | some e => simp [ha] at hb
  | .join t rest => by
    have := pre_foldl_joinS _ _ (pre_denoteAll rest) _ _ (pre_denote t)
    simp only [denote, spec, iterJoin]
    exact pre_iter _ _ this.2.1 this.2.2
  | .chain ts => by
    have h := concatStop_prefix _ _ (pre_denoteAll ts)
    simp only [denote, spec]
    exact pre_iter _ _ (by rw [valsSkip_chainS]; exact h.1)
      (fun hf => ⟨by rw [valsSkip_chainS]; exact h.2 hf, by rw [stopEv_chainS]; rfl⟩)
  | .pipe _ t => by
    obtain ⟨h1, h2, h3⟩ := pre_denote t
    simp only [denote, spec]
    exact pre_iter _ _ (by rw [valsSkip_pipeS, h1]; exact h2)
      (fun hf => ⟨by rw [valsSkip_pipeS, h1]; exact (h3 hf).1, by rw [stopEv_pipeS]; rfl⟩)
  | .uniq t => by
    obtain ⟨h1, h2, h3⟩ := pre_denote t
    simp only [denote, spec]
    exact pre_iter _ _ (by rw [valsSkip_uniqS, h1]; exact dedupeFirst_prefix' _ _ h2)
      (fun hf => ⟨by rw [valsSkip_uniqS, h1, (h3 hf).1], by rw [stopEv_uniqS]; rfl⟩)
  | .dropZero t => by
    obtain ⟨_, h2, h3⟩ := pre_denote t
    simp only [denote, spec]
    refine pre_iter _ _ (by rw [valsSkip_dropZeroS]; exact h2.filter _) (fun h => ?_)
    rw [valsSkip_dropZeroS, stopEv_dropZeroS, (h3 h).1]; exact ⟨rfl, (h3 h).2⟩
  | .indexed t => by
    obtain ⟨_, h2, h3⟩ := pre_denote t
    simp only [denote, spec]
    refine pre_iter _ _ (by rw [valsSkip_indexedS]; exact enumerate_prefix _ _ h2) (fun h => ?_)
    rw [valsSkip_indexedS, stopEv_indexedS, (h3 h).1]; exact ⟨rfl, (h3 h).2⟩
  | .mergeSlices sls => by
    simp only [denote, spec]
    exact pre_iter _ _ (by rw [valsSkip_mergeSlicesS]; exact List.prefix_rfl)
      (fun _ => ⟨valsSkip_mergeSlicesS sls, by rw [stopEv_mergeSlicesS]; rfl⟩)
  | .jsonRound t => by
    obtain ⟨h1, h2, h3⟩ := pre_denote t
    simp only [denote, spec]
    have hv : valsSkip (joinS [] (List.map Ev.val (vals (denote t)))) = valsSkip (denote t) := by
      rw [valsSkip_joinS]; simp [stopEv, valsSkip, h1]
    have hs : stopEv (joinS [] (List.map Ev.val (vals (denote t)))) = none := by
      rw [stopEv_joinS]; simp [stopEv]
    exact pre_iter _ _ (by rw [hv]; exact h2) (fun hf => ⟨by rw [hv]; exact (h3 hf).1, by rw [hs]; rfl⟩)
theorem pre_denoteAll : (ts : List Op) → PreAll (denoteAll ts) (specAll ts)
  | [] => by simp [denoteAll, specAll, PreAll]
  | t :: ts => by
    simp only [denoteAll, specAll, PreAll]
    exact ⟨pre_denote t, pre_denoteAll ts⟩
end

end FunModel.Stream
