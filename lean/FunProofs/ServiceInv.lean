import FunProofs.ServiceTh

/-! C10 helper lemmas, part 4: call/return bookkeeping, and the combined log invariant `Inv2` under every transition. -/

namespace FunModel.Service

set_option linter.unusedSimpArgs false

/-- what `Start`/`Close`/`Wait`/`Running` may return -/
def retMatches : Op → Ret → Prop
  | .start _, r => r = .startNil ∨ r = .startAlready ∨ r = .startReturned
  | .close, r => r = .closed
  | .wait, r => r = .waitNotStarted ∨ ∃ ids, r = .waitResult ids
  | .running, r => ∃ b, r = .running b

/-- calls and returns in the log against the threads' program counters -/
structure Book (s : State) : Prop where
  cm1 : ∀ (t : Nat) (th : Thread), s.ths[t]? = some th → th.loc ≠ .idle →
          ∃ k op, th.ops[th.pc]? = some op ∧ (k, Ev.call t th.pc op) ∈ s.log
  cm2 : ∀ x ∈ s.log, ∀ (t i : Nat) (r : Ret), x.2 = .ret t i r → ∀ (th : Thread), s.ths[t]? = some th → i < th.pc
  rt : ∀ x ∈ s.log, ∀ (t i : Nat) (r : Ret), x.2 = .ret t i r → ∀ (th : Thread), s.ths[t]? = some th →
          ∃ op, th.ops[i]? = some op ∧ retMatches op r

theorem Book.goto {s σ : State} (h : Book s) {t : Nat} {th : Thread} (hth : s.ths[t]? = some th)
    (e1 : σ.ths = s.ths) (e2 : σ.log = s.log) (e3 : σ.clock = s.clock) (loc : Loc) (evs : List Ev)
    (hloc : loc ≠ .idle)
    (hcall : (∃ op, th.ops[th.pc]? = some op ∧ evs = [.call t th.pc op]) ∨ (th.loc ≠ .idle ∧ evs = [])) :
    Book (σ.goto t th loc evs) := by
  obtain ⟨h1, h2, h3⟩ := h
  have ht := lt_of_getElem? hth
  constructor <;> simp only [State.goto, tick_ths, setTh_ths, tick_log, setTh_log, setTh_clock, e1, e2, e3,
    List.mem_append, mem_stamp]
  · rw [forall_getElem?_set ht]
    refine ⟨fun _ => ?_, fun u x hne hu hx => ?_⟩
    · rcases hcall with ⟨op, ho, rfl⟩ | ⟨hl, rfl⟩
      · exact ⟨s.clock, op, ho, Or.inr ⟨rfl, by simp⟩⟩
      · obtain ⟨k, op, ho, hk⟩ := h1 t th hth hl; exact ⟨k, op, ho, Or.inl hk⟩
    · obtain ⟨k, op, ho, hk⟩ := h1 u x hu hx; exact ⟨k, op, ho, Or.inl hk⟩
  · intro x hx u i r hr x' hx'
    have hxl : x ∈ s.log := by
      rcases hx with hx | ⟨_, hx⟩
      · exact hx
      · rcases hcall with ⟨op, ho, rfl⟩ | ⟨hl, rfl⟩ <;> simp_all
    rcases getElem?_set_cases hx' with ⟨rfl, rfl⟩ | ⟨hne, hu⟩
    · exact h2 x hxl _ i r hr th hth
    · exact h2 x hxl u i r hr x' hu
  · intro x hx u i r hr x' hx'
    have hxl : x ∈ s.log := by
      rcases hx with hx | ⟨_, hx⟩
      · exact hx
      · rcases hcall with ⟨op, ho, rfl⟩ | ⟨hl, rfl⟩ <;> simp_all
    rcases getElem?_set_cases hx' with ⟨rfl, rfl⟩ | ⟨hne, hu⟩
    · exact h3 x hxl _ i r hr th hth
    · exact h3 x hxl u i r hr x' hu

theorem Book.finish {s σ : State} (h : Book s) {t : Nat} {th : Thread} (hth : s.ths[t]? = some th)
    (e1 : σ.ths = s.ths) (e2 : σ.log = s.log) (e3 : σ.clock = s.clock) (r : Ret) (evs : List Ev) (op : Op)
    (ho : th.ops[th.pc]? = some op) (hm : retMatches op r)
    (hcall : evs = [.call t th.pc op] ∨ evs = []) :
    Book (σ.finish t th r evs) := by
  obtain ⟨h1, h2, h3⟩ := h
  have ht := lt_of_getElem? hth
  constructor <;> simp only [State.finish, tick_ths, setTh_ths, tick_log, setTh_log, setTh_clock, e1, e2, e3,
    List.mem_append, mem_stamp]
  · rw [forall_getElem?_set ht]
    refine ⟨fun hne => absurd rfl hne, fun u x hne hu hx => ?_⟩
    obtain ⟨k, op, ho, hk⟩ := h1 u x hu hx; exact ⟨k, op, ho, Or.inl hk⟩
  · intro x hx u i r' hr x' hx'
    rcases hx with hx | ⟨_, hx⟩
    · rcases getElem?_set_cases hx' with ⟨rfl, rfl⟩ | ⟨hne, hu⟩
      · exact Nat.lt_succ_of_lt (h2 x hx _ i r' hr th hth)
      · exact h2 x hx u i r' hr x' hu
    · have hx2 : x.2 = .ret t th.pc r := by
        rcases hcall with rfl | rfl <;> simp_all
      rw [hx2] at hr; injection hr with e1 e2 e3; subst e1 e2
      rcases getElem?_set_cases hx' with ⟨_, rfl⟩ | ⟨hne, hu⟩
      · simp
      · exact absurd rfl hne
  · intro x hx u i r' hr x' hx'
    rcases hx with hx | ⟨_, hx⟩
    · rcases getElem?_set_cases hx' with ⟨rfl, rfl⟩ | ⟨hne, hu⟩
      · exact h3 x hx _ i r' hr th hth
      · exact h3 x hx u i r' hr x' hu
    · have hx2 : x.2 = .ret t th.pc r := by
        rcases hcall with rfl | rfl <;> simp_all
      rw [hx2] at hr; injection hr with e1 e2 e3; subst e1 e2 e3
      rcases getElem?_set_cases hx' with ⟨_, rfl⟩ | ⟨hne, hu⟩
      · exact ⟨op, ho, hm⟩
      · exact absurd rfl hne

/-- goroutine steps and parent cancellations: threads untouched, no returns logged -/
theorem Book.frameG {s s' : State} (h : Book s) (k : Nat) (evs : List Ev)
    (e0 : s'.ths = s.ths) (hl : s'.log = s.log ++ stamp k evs) (hev : ∀ e ∈ evs, ∀ t i r, e ≠ .ret t i r) : Book s' := by
  obtain ⟨h1, h2, h3⟩ := h
  constructor <;> simp only [e0, hl, List.mem_append, mem_stamp]
  · intro u x hu hx; obtain ⟨k, op, ho, hk⟩ := h1 u x hu hx; exact ⟨k, op, ho, Or.inl hk⟩
  · intro x hx u i r hr
    rcases hx with hx | ⟨_, hx⟩
    · exact h2 x hx u i r hr
    · exact absurd hr (hev _ hx u i r)
  · intro x hx u i r hr
    rcases hx with hx | ⟨_, hx⟩
    · exact h3 x hx u i r hr
    · exact absurd hr (hev _ hx u i r)

theorem ThStep.book {c : Cfg} {s s' : State} {t : Nat} {th : Thread} (h : Book s)
    (hth : s.ths[t]? = some th) (hs : ThStep c s t th s') : Book s' := by
  cases hs with
  | startReturned p ho hl hf => apply h.finish hth (ho := ho) <;> first | rfl | (simp [retMatches]; done) | exact Or.inl rfl
  | startCheck p ho hl hf => apply h.goto hth <;> first | rfl | (simp; done) | exact Or.inl ⟨_, ho, rfl⟩
  | startAlready p ho hl hr => apply h.finish hth (ho := ho) <;> first | rfl | (simp [retMatches]; done) | exact Or.inr rfl
  | startSwap p ho hl hr => apply h.goto hth <;> first | rfl | (simp; done) | exact Or.inr ⟨by simp [hl], rfl⟩
  | startRecheck p ho hl hf => apply h.goto hth <;> first | rfl | (simp; done) | exact Or.inr ⟨by simp [hl], rfl⟩
  | startClaim p ho hl hf => apply h.goto hth <;> first | rfl | (simp; done) | exact Or.inr ⟨by simp [hl], rfl⟩
  | startUndo p ho hl => apply h.finish hth (ho := ho) <;> first | rfl | (simp [retMatches]; done) | exact Or.inr rfl
  | startLaunch p ho hl hon => apply h.goto hth <;> first | rfl | (simp; done) | exact Or.inr ⟨by simp [hl], rfl⟩
  | startOnceDone p ho hl hon => apply h.finish hth (ho := ho) <;> first | rfl | (simp [retMatches]; done) | exact Or.inr rfl
  | startStore p ho hl => apply h.goto hth <;> first | rfl | (simp; done) | exact Or.inr ⟨by simp [hl], rfl⟩
  | startNil p ho hl => apply h.finish hth (ho := ho) <;> first | rfl | (simp [retMatches]; done) | exact Or.inr rfl
  | close ho hl => apply h.finish hth (ho := ho) <;> first | rfl | (simp [retMatches]; done) | exact Or.inl rfl
  | waitFinished ho hl hf => apply h.finish hth (ho := ho) <;> first | rfl | (simp [retMatches]; done) | exact Or.inl rfl
  | waitCheck ho hl hf => apply h.goto hth <;> first | rfl | (simp; done) | exact Or.inl ⟨_, ho, rfl⟩
  | waitStarted ho hl hst => apply h.goto hth <;> first | rfl | (simp; done) | exact Or.inr ⟨by simp [hl], rfl⟩
  | waitNotStarted ho hl hst => apply h.finish hth (ho := ho) <;> first | rfl | (simp [retMatches]; done) | exact Or.inr rfl
  | waitDone ho hl hw => apply h.finish hth (ho := ho) <;> first | rfl | (simp [retMatches]; done) | exact Or.inr rfl
  | runningFinished ho hl hf => apply h.finish hth (ho := ho) <;> first | rfl | (simp [retMatches]; done) | exact Or.inl rfl
  | runningCheck ho hl hf => apply h.goto hth <;> first | rfl | (simp; done) | exact Or.inl ⟨_, ho, rfl⟩
  | runningLoad ho hl => apply h.finish hth (ho := ho) <;> first | rfl | (simp [retMatches]; done) | exact Or.inr rfl


theorem RgStep.ctxLog {c : Cfg} {s s' : State} (h : CtxLog c s) (hR : RunLog c s) (hs : RgStep c s s') : CtxLog c s' := by
  cases hs with
  | cancel hr =>
    have := h.frame (s' := { s with rg := .cancelled }.tick []) s.clock [] rfl rfl rfl rfl
    obtain ⟨h1, h2, h3⟩ := this
    refine ⟨fun _ => ?_, h2, h3⟩
    have hE := hR.runE
    simp only [hr, RgLoc.rank] at hE
    cases hp : c.run.present
    · exact Or.inl rfl
    · refine Or.inr (Or.inl ?_)
      simp only [tick_log, stamp_nil, List.append_nil]
      simp [hE, hp]
  | _ => exact h.frame _ _ rfl rfl rfl rfl

theorem SdStep.ctxLog {c : Cfg} {s s' : State} (h : CtxLog c s) (hs : SdStep c s s') : CtxLog c s' := by
  cases hs <;> exact h.frame _ _ rfl rfl rfl rfl

theorem EhStep.ctxLog {c : Cfg} {s s' : State} (h : CtxLog c s) (hs : EhStep c s s') : CtxLog c s' := by
  cases hs <;> exact h.frame _ _ rfl rfl rfl rfl

theorem CtxLog.cancelParent {c : Cfg} {s : State} (h : CtxLog c s) (p : Nat) :
    CtxLog c ({ s with cancelled := p :: s.cancelled }.tick [.cancelParent p]) := by
  obtain ⟨h1, h2, h3⟩ := h
  constructor <;> simp only [tick_log, tick_cancelCalled, tick_cancelled, tick_svcParent, has_append, List.mem_append, mem_stamp]
  · intro hc; rcases h1 hc with h | h | h <;> simp [h]
  · intro q hq
    rcases List.mem_cons.mp hq with rfl | hq
    · exact ⟨s.clock, Or.inr ⟨rfl, by simp⟩⟩
    · obtain ⟨k, hk⟩ := h2 q hq; exact ⟨k, Or.inl hk⟩
  · intro q hq; obtain ⟨k, t, i, hk⟩ := h3 q hq; exact ⟨k, t, i, Or.inl hk⟩

theorem ThStep.ctxLog {c : Cfg} {s s' : State} {t : Nat} {th : Thread} (h : CtxLog c s) (hB : Book s)
    (hth : s.ths[t]? = some th) (hs : ThStep c s t th s') : CtxLog c s' := by
  cases hs with
  | close ho hl =>
    obtain ⟨h1, h2, h3⟩ := h
    constructor <;> simp only [State.finish, tick_log, setTh_log, tick_cancelCalled, setTh_cancelCalled, tick_cancelled,
      setTh_cancelled, tick_svcParent, setTh_svcParent, has_append, has_stamp, List.mem_append, mem_stamp]
    · intro _; refine Or.inr (Or.inr ?_); simp
    · intro q hq; obtain ⟨k, hk⟩ := h2 q hq; exact ⟨k, Or.inl hk⟩
    · intro q hq; obtain ⟨k, t, i, hk⟩ := h3 q hq; exact ⟨k, t, i, Or.inl hk⟩
  | startLaunch p ho hl hon =>
    obtain ⟨h1, h2, h3⟩ := h
    obtain ⟨k, op, ho', hk⟩ := hB.cm1 t th hth (by simp [hl])
    rw [ho] at ho'; injection ho' with ho'; subst ho'
    constructor <;> simp only [State.goto, tick_log, setTh_log, tick_cancelCalled, setTh_cancelCalled, tick_cancelled,
      setTh_cancelled, tick_svcParent, setTh_svcParent, has_append, has_stamp, List.mem_append, mem_stamp, stamp_nil,
      List.append_nil]
    · exact h1
    · exact h2
    · intro q hq; injection hq with hq; subst hq; exact ⟨k, t, th.pc, hk⟩
  | _ => exact h.frame _ _ rfl rfl rfl rfl


/-- `s'` extends the log of `s` by events stamped with the current clock, all satisfying `P` -/
def Appends (s s' : State) (P : Ev → Prop) : Prop :=
  ∃ evs, s'.log = s.log ++ stamp s.clock evs ∧ s'.clock = s.clock + 1 ∧ ∀ e ∈ evs, P e

theorem Clk.frame' {s s' : State} (h : Clk s) (hl : Appends s s' (fun _ => True)) : Clk s' := by
  obtain ⟨evs, h1, h2, _⟩ := hl; exact h.tick evs h1 h2

theorem RunLog.frame' {c : Cfg} {s s' : State} (h : RunLog c s) (hrg : s'.rg = s.rg)
    (hl : Appends s s' (fun e => notPhase .run e ∧ notPhase .cleanup e)) : RunLog c s' := by
  obtain ⟨evs, h1, _, h2⟩ := hl; exact h.frame s.clock evs hrg h1 h2

theorem SdLog.frame' {c : Cfg} {s s' : State} (h : SdLog c s) (hsd : s'.sd = s.sd)
    (hl : Appends s s' (notPhase .shutdown)) : SdLog c s' := by
  obtain ⟨evs, h1, _, h2⟩ := hl; exact h.frame s.clock evs hsd h1 h2

theorem EhLog.frame' {c : Cfg} {s s' : State} (h : EhLog c s) (heh : s'.eh = s.eh)
    (hl : Appends s s' (fun e => isBegin .handler e = false)) : EhLog c s' := by
  obtain ⟨evs, h1, _, h2⟩ := hl; exact h.frame s.clock evs heh h1 h2

theorem CtxLog.frame' {c : Cfg} {s s' : State} (h : CtxLog c s) (e1 : s'.cancelCalled = s.cancelCalled)
    (e2 : s'.cancelled = s.cancelled) (e3 : s'.svcParent = s.svcParent)
    (hl : Appends s s' (fun _ => True)) : CtxLog c s' := by
  obtain ⟨evs, h1, _, _⟩ := hl; exact h.frame s.clock evs h1 e1 e2 e3

theorem ThLog.frameG' {c : Cfg} {s s' : State} (h : ThLog c s) (e0 : s'.ths = s.ths)
    (e2 : s'.claimed = s.claimed) (e3 : s.isFinished = true → s'.isFinished = true)
    (e4 : s'.isRunning = true → s.isRunning = true) (e5 : s'.isStarted = s.isStarted)
    (hl : Appends s s' (fun e => isWaitRes e = false ∧ isStartNil e = false ∧ isStartCall e = false ∧
      (∀ t i op, e ≠ .call t i op))) : ThLog c s' := by
  obtain ⟨evs, h1, _, h2⟩ := hl; exact h.frameG s.clock evs e0 h1 h2 e2 e3 e4 e5

theorem Book.frameG' {s s' : State} (h : Book s) (e0 : s'.ths = s.ths)
    (hl : Appends s s' (fun e => ∀ t i r, e ≠ .ret t i r)) : Book s' := by
  obtain ⟨evs, h1, _, h2⟩ := hl; exact h.frameG s.clock evs e0 h1 h2

/-- the invariants about phase events, collector, context-end reasons, threads and bookkeeping -/
structure Inv2 (c : Cfg) (s : State) : Prop where
  clk : Clk s
  run : RunLog c s
  sd : SdLog c s
  eh : EhLog c s
  coll : Coll c s
  ctx : CtxLog c s
  th : ThLog c s
  book : Book s

macro "evs_ok" : tactic => `(tactic|
  (intro e he
   first
     | (simp at he; done)
     | (simp at he; subst he; simp [notPhase]; done)
     | (simp at he; rcases he with h | h <;> subst h <;> simp [notPhase]; done)))

macro "appends" : tactic => `(tactic| exact ⟨_, rfl, rfl, by evs_ok⟩)

theorem RgStep.inv2 {c : Cfg} {s s' : State} (h : Inv2 c s) (hs : RgStep c s s') : Inv2 c s' := by
  obtain ⟨k1, k2, k3, k4, k5, k6, k7, k8⟩ := h
  refine ⟨?_, hs.runLog k2, ?_, ?_, hs.coll k5 k2, hs.ctxLog k6 k2, ?_, ?_⟩
  · cases hs <;> (apply k1.frame'; appends)
  · cases hs <;> (apply k3.frame' <;> first | rfl | appends)
  · cases hs <;> (apply k4.frame' <;> first | rfl | appends)
  · cases hs <;> (apply k7.frameG' <;> first | rfl | appends | simp)
  · cases hs <;> (apply k8.frameG' <;> first | rfl | appends)

theorem SdStep.inv2 {c : Cfg} {s s' : State} (h : Inv2 c s) (hs : SdStep c s s') : Inv2 c s' := by
  obtain ⟨k1, k2, k3, k4, k5, k6, k7, k8⟩ := h
  refine ⟨?_, ?_, hs.sdLog k3, ?_, hs.coll k5 k3, hs.ctxLog k6, ?_, ?_⟩
  · cases hs <;> (apply k1.frame'; appends)
  · cases hs <;> (apply k2.frame' <;> first | rfl | appends)
  · cases hs <;> (apply k4.frame' <;> first | rfl | appends)
  · cases hs <;> (apply k7.frameG' <;> first | rfl | appends | simp)
  · cases hs <;> (apply k8.frameG' <;> first | rfl | appends)

theorem EhStep.inv2 {c : Cfg} {s s' : State} (h : Inv2 c s) (hs : EhStep c s s') : Inv2 c s' := by
  obtain ⟨k1, k2, k3, k4, k5, k6, k7, k8⟩ := h
  refine ⟨?_, ?_, ?_, hs.ehLog k4, hs.coll k5, hs.ctxLog k6, ?_, ?_⟩
  · cases hs <;> (apply k1.frame'; appends)
  · cases hs <;> (apply k2.frame' <;> first | rfl | appends)
  · cases hs <;> (apply k3.frame' <;> first | rfl | appends)
  · cases hs <;> (apply k7.frameG' <;> first | rfl | appends | simp)
  · cases hs <;> (apply k8.frameG' <;> first | rfl | appends)


/-- launching the goroutines moves them from `none` to `entry`: no threshold of the log/collector invariants is crossed -/
theorem launch_logs {c : Cfg} {s : State} {t : Nat} {th : Thread} (p : Nat)
    (hr : s.rg = .none) (hsd : s.sd = .none) (heh : s.eh = .none)
    (k2 : RunLog c s) (k3 : SdLog c s) (k4 : EhLog c s) (k5 : Coll c s) :
    let s' := ({ s with once := .running, wg := s.wg + 3, eh := .entry, sd := .entry, rg := .entry,
                        cancelSet := true, svcParent := some p }.goto t th .startLaunched)
    RunLog c s' ∧ SdLog c s' ∧ EhLog c s' ∧ Coll c s' := by
  obtain ⟨a1, a2, a3, a4, a5, a6⟩ := k2
  obtain ⟨b1, b2, b3⟩ := k3
  obtain ⟨c1, c2, c3, c4⟩ := k4
  obtain ⟨d1, d2, d3, d4, d5, d6, d7, d8, d9, d10⟩ := k5
  refine ⟨⟨?_, ?_, ?_, ?_, ?_, ?_⟩, ⟨?_, ?_, ?_⟩, ⟨?_, ?_, ?_, ?_⟩, ⟨?_, ?_, ?_, ?_, ?_, ?_, ?_, ?_, ?_, ?_⟩⟩ <;>
    simp_all [State.goto, RgLoc.rank, SdLoc.rank, EhLoc.rank]

theorem ThStep.inv2 {c : Cfg} {s s' : State} {t : Nat} {th : Thread} (h1 : Inv1 c s) (h : Inv2 c s)
    (hth : s.ths[t]? = some th) (hs : ThStep c s t th s') : Inv2 c s' := by
  obtain ⟨k1, k2, k3, k4, k5, k6, k7, k8⟩ := h
  have hctx := hs.ctxLog k6 k8 hth
  have hthl := hs.thLog k7 h1.2 h1.1 k1 hth
  have hbook := hs.book k8 hth
  have hclk : Clk s' := by cases hs <;> (apply k1.frame'; appends)
  cases hs with
  | startLaunch p ho hl hon =>
    obtain ⟨hr, hsd, heh, _⟩ := h1.1.fresh hon
    obtain ⟨a, b, c', d⟩ := launch_logs (t := t) (th := th) p hr hsd heh k2 k3 k4 k5
    exact ⟨hclk, a, b, c', d, hctx, hthl, hbook⟩
  | _ =>
    refine ⟨hclk, ?_, ?_, ?_, k5.frame rfl rfl rfl rfl rfl, hctx, hthl, hbook⟩
    · apply k2.frame' <;> first | rfl | appends
    · apply k3.frame' <;> first | rfl | appends
    · apply k4.frame' <;> first | rfl | appends

theorem Inv2.cancelParent {c : Cfg} {s : State} (h : Inv2 c s) (p : Nat) :
    Inv2 c ({ s with cancelled := p :: s.cancelled }.tick [.cancelParent p]) := by
  obtain ⟨k1, k2, k3, k4, k5, k6, k7, k8⟩ := h
  refine ⟨?_, ?_, ?_, ?_, k5.frame rfl rfl rfl rfl rfl, k6.cancelParent p, ?_, ?_⟩
  · apply k1.frame'; appends
  · apply k2.frame' <;> first | rfl | appends
  · apply k3.frame' <;> first | rfl | appends
  · apply k4.frame' <;> first | rfl | appends
  · apply k7.frameG' <;> first | rfl | appends | simp
  · apply k8.frameG' <;> first | rfl | appends

theorem init_log (ps : List (List Op)) : (init ps).log = [] := rfl

theorem Inv2.init (c : Cfg) (ps : List (List Op)) : Inv2 c (init ps) := by
  have hl : ∀ (t : Nat) (th : Thread), (Service.init ps).ths[t]? = some th → th.loc = .idle :=
    fun t th h => (init_thread h).1
  refine ⟨?_, ⟨?_, ?_, ?_, ?_, ?_, ?_⟩, ⟨?_, ?_, ?_⟩, ⟨?_, ?_, ?_, ?_⟩, ⟨?_, ?_, ?_, ?_, ?_, ?_, ?_, ?_, ?_, ?_⟩,
    ⟨?_, ?_, ?_⟩, ⟨?_, ?_, ?_, ?_, ?_, ?_, ?_, ?_⟩, ⟨?_, ?_, ?_⟩⟩ <;>
    (try simp [Clk, Service.init, countEv, has, RgLoc.rank, SdLoc.rank, EhLoc.rank]) <;> (try (intros; simp_all [inClaim]))

theorem Trans.inv2 {c : Cfg} {s s' : State} (h1 : Inv1 c s) (h : Inv2 c s) (hs : Trans c s s') : Inv2 c s' := by
  cases hs with
  | th t th hth hs => exact hs.inv2 h1 h hth
  | rg hs => exact hs.inv2 h
  | sd hs => exact hs.inv2 h
  | eh hs => exact hs.inv2 h
  | cancelParent p hp => exact h.cancelParent p

end FunModel.Service
