import FunGen.Cmp
import FunProofs.Dll

/-! T-gen tie for dt/cmp.go: the functions tools/go2lean (cmp.go) regenerates from the current source
    (lean/FunGen/Cmp.lean) agree with the hand-written pointer-level model of FunModel/Dll.lean
    (`isSortedLoop/isSorted`, `splitLoop/split`, `mergeLoop/merge`, `mergeSort`, `sortMerge`,
    `heapPushLoop/heapPush`, `popFront` for `Heap.Pop`) that FunProps/C17Ptr.lean proves to refine the
    sequence-level algorithms. Loops and the recursion are compared for every fuel. -/
namespace FunProofs.GenTieCmp
open FunModel.Dll FunModel.Dll.Heap FunGen.Cmp

set_option linter.unusedSimpArgs false

/-! ### the sentinel of a list exists ("root set"), and what keeps it -/

/-- `l.root != nil` -/
def RS (h : Heap) (l : Nat) : Prop := ((h.hdr l).root).isSome = true

theorem RS.lazySetup_eq {h : Heap} {l : Nat} (hr : RS h l) : h.lazySetup l = h := by
  unfold RS at hr
  cases hx : (h.hdr l).root with
  | none => simp [hx] at hr
  | some r => exact lazySetup_some hx

theorem lazySetup_hdr_root (h : Heap) (l o : Nat) :
    ((h.lazySetup l).hdr o).root = if o = l then (match (h.hdr l).root with | some r => some r | none => some h.nn) else (h.hdr o).root := by
  cases hx : (h.hdr l).root with
  | some r => rw [lazySetup_some hx]; by_cases ho : o = l <;> simp [ho, hx]
  | none =>
    simp only [Heap.lazySetup, hx, makeElem, alloc, setNext, setPrev, setList, setNode, setHdr]
    by_cases ho : o = l <;> simp [ho]

theorem lazySetup_hdr_length (h : Heap) (l o : Nat) : ((h.lazySetup l).hdr o).length = (h.hdr o).length := by
  cases hx : (h.hdr l).root with
  | some r => rw [lazySetup_some hx]
  | none =>
    simp only [Heap.lazySetup, hx, makeElem, alloc, setNext, setPrev, setList, setNode, setHdr]
    by_cases ho : o = l <;> simp [ho]

theorem lazySetup_nl (h : Heap) (l : Nat) : (h.lazySetup l).nl = h.nl := by
  cases hx : (h.hdr l).root with
  | some r => rw [lazySetup_some hx]
  | none => simp only [Heap.lazySetup, hx, makeElem, alloc, setNext, setPrev, setList, setNode, setHdr]

theorem RS_lazySetup_self (h : Heap) (l : Nat) : RS (h.lazySetup l) l := by
  unfold RS; rw [lazySetup_hdr_root]; cases (h.hdr l).root <;> simp

theorem RS.lazySetup {h : Heap} {o : Nat} (hr : RS h o) (l : Nat) : RS (h.lazySetup l) o := by
  by_cases ho : o = l
  · subst ho; exact RS_lazySetup_self h o
  · unfold RS at *; rw [lazySetup_hdr_root]; simpa [ho] using hr

theorem lazySetup_idem (h : Heap) (l : Nat) : (h.lazySetup l).lazySetup l = h.lazySetup l :=
  (RS_lazySetup_self h l).lazySetup_eq

/-- `h'` has the lists of `h`, and every sentinel of `h` -/
def Mono (h h' : Heap) : Prop := h'.nl = h.nl ∧ ∀ l, RS h l → RS h' l

theorem Mono.refl (h : Heap) : Mono h h := ⟨rfl, fun _ x => x⟩
theorem Mono.trans {a b c : Heap} (x : Mono a b) (y : Mono b c) : Mono a c :=
  ⟨y.1.trans x.1, fun l r => y.2 l (x.2 l r)⟩

theorem mono_lazySetup (h : Heap) (l : Nat) : Mono h (h.lazySetup l) :=
  ⟨lazySetup_nl h l, fun _ r => r.lazySetup l⟩

theorem mono_of_hdr {h h' : Heap} (hn : h'.nl = h.nl) (hr : ∀ l, ((h'.hdr l).root) = ((h.hdr l).root)) : Mono h h' :=
  ⟨hn, fun l r => by unfold RS at *; rw [hr]; exact r⟩

theorem mono_uncheckedRemove {h h' : Heap} {e : Nat} (he : h.uncheckedRemove e = some h') : Mono h h' := by
  unfold Heap.uncheckedRemove at he
  simp only [Option.bind_eq_bind, Option.bind_eq_some_iff, Option.pure_def, Option.some.injEq] at he
  obtain ⟨l, _, p, _, n, _, rfl⟩ := he
  exact mono_of_hdr (by simp) (by intro o; simp)

theorem mono_uncheckedAppend {h h' : Heap} {e n : Nat} (he : h.uncheckedAppend e n = some h') : Mono h h' := by
  unfold Heap.uncheckedAppend at he
  simp only [Option.bind_eq_bind, Option.bind_eq_some_iff, Option.pure_def, Option.some.injEq] at he
  obtain ⟨l, _, p, _, n, _, rfl⟩ := he
  exact mono_of_hdr (by simp) (by intro o; simp)

theorem mono_elemAppend {h h' : Heap} {e r : Nat} {n : Option Nat} (he : h.elemAppend e n = some (h', r)) : Mono h h' := by
  unfold Heap.elemAppend at he
  by_cases ha : h.appendable e n = true
  · simp only [ha, if_true] at he
    cases n with
    | none => simp at he
    | some n =>
      simp only [Option.bind_eq_bind, Option.pure_def] at he
      cases hu : h.uncheckedAppend e n with
      | none => simp [hu] at he
      | some g =>
        simp only [hu, Option.bind_some, Option.some.injEq, Prod.mk.injEq] at he
        rw [← he.1]; exact mono_uncheckedAppend hu
  · simp only [ha] at he
    simp only [Bool.false_eq_true, if_false, Option.some.injEq, Prod.mk.injEq] at he
    rw [← he.1]; exact Mono.refl h

theorem mono_pop {h h' : Heap} {l r : Nat} {it : Option Nat} (he : h.pop l it = some (h', r)) : Mono h h' := by
  unfold Heap.pop at he
  cases it with
  | none => simp at he
  | some it =>
    simp only [Option.bind_eq_bind, Option.bind_some, Option.pure_def] at he
    cases hrm : h.removable it with
    | none => simp [hrm] at he
    | some b =>
      simp only [hrm, Option.bind_some] at he
      by_cases hc : (!b || (h.node it).list != some l) = true
      · simp only [hc, if_true, Option.some.injEq, Prod.mk.injEq] at he
        rw [← he.1]; exact mono_of_hdr (by simp) (by intro o; simp)
      · simp only [hc] at he
        simp only [Bool.false_eq_true, if_false] at he
        cases hu : h.uncheckedRemove it with
        | none => simp [hu] at he
        | some g =>
          simp only [hu, Option.bind_some, Option.some.injEq, Prod.mk.injEq] at he
          rw [← he.1]; exact mono_uncheckedRemove hu

theorem mono_popFront {h h' : Heap} {l r : Nat} (he : h.popFront l = some (h', r)) : Mono h h' :=
  (mono_lazySetup h l).trans (mono_pop he)

theorem RS_popFront {h h' : Heap} {l r : Nat} (he : h.popFront l = some (h', r)) : RS h' l :=
  (mono_pop he).2 l (RS_lazySetup_self h l)

/-! ### field reads and the mapped calls on non-nil receivers -/

@[simp] theorem ldE_some {α : Type} (h : Heap) (f : Node → α) (a : Nat) : ldE h f (some a) = some (f (h.node a)) := rfl
@[simp] theorem ldE_none {α : Type} (h : Heap) (f : Node → α) : ldE h f none = none := rfl
@[simp] theorem ldL_some {α : Type} (h : Heap) (f : Hdr → α) (a : Nat) : ldL h f (some a) = some (f (h.hdr a)) := rfl
@[simp] theorem ldL_none {α : Type} (h : Heap) (f : Hdr → α) : ldL h f none = none := rfl
@[simp] theorem ldH_some {α : Type} (f : HObj → α) (a : HObj) : ldH f (some a) = some (f a) := rfl
@[simp] theorem ldH_none {α : Type} (f : HObj → α) : ldH f none = none := rfl

/-! ### `IsSorted` -/

theorem isSortedLoop_tie (h : Heap) (lt : Int → Int → Bool) (l : Option Nat) (fuel : Nat) (cur : Option Nat) :
    List_IsSorted_loop1 fuel h l lt cur =
      (h.isSortedLoop lt cur fuel).map (fun b => (h, if b then none else some false)) := by
  induction fuel generalizing cur with
  | zero => simp [List_IsSorted_loop1, Heap.isSortedLoop]
  | succ fuel ih =>
    cases cur with
    | none => simp [List_IsSorted_loop1, Heap.isSortedLoop, Element_Ok, Heap.okOpt]
    | some e =>
      cases hok : (h.node e).ok with
      | false => simp [List_IsSorted_loop1, Heap.isSortedLoop, Element_Ok, Heap.okOpt, hok]
      | true =>
        cases hp : (h.node e).prev with
        | none => simp [List_IsSorted_loop1, Heap.isSortedLoop, Element_Ok, Heap.okOpt, hok, Element_Value, Element_Previous, hp]
        | some p =>
          by_cases hc : lt (h.node e).item (h.node p).item = true
          · simp [List_IsSorted_loop1, Heap.isSortedLoop, Element_Ok, Heap.okOpt, hok, Element_Value, Element_Previous, hp, hc]
          · simp [List_IsSorted_loop1, Heap.isSortedLoop, Element_Ok, Heap.okOpt, hok, Element_Value, Element_Previous,
              Element_Next, hp, hc, ih]

theorem isSorted_tie (h : Heap) (lt : Int → Int → Bool) (l : Nat) :
    List_IsSorted ((h.hdr l).length.toNat + 1) h (some l) lt = (h.isSorted lt l).map (fun b => (h, b)) := by
  by_cases hl : (h.hdr l).length ≤ 1
  · simp [List_IsSorted, Heap.isSorted, List_Len, hl]
  · cases hr : (h.hdr l).root with
    | none => simp [List_IsSorted, Heap.isSorted, List_Len, hl, Heap.root, hr, Element_Next]
    | some r =>
      cases hf : (h.node r).next with
      | none => simp [List_IsSorted, Heap.isSorted, List_Len, hl, Heap.root, hr, Element_Next, hf]
      | some f =>
        simp only [List_IsSorted, Heap.isSorted, List_Len, hl, Heap.root, hr, Element_Next, hf, isSortedLoop_tie,
          Option.isNone_some, Bool.false_eq_true, if_false, ldL_some, ldE_some, Option.bind_eq_bind, Option.bind_some,
          Option.pure_def, decide_false, decide_true, if_true]
        cases h.isSortedLoop lt (h.node f).next ((h.hdr l).length.toNat + 1) with
        | none => rfl
        | some b => cases b <;> rfl

theorem isSorted_nil (fuel : Nat) (h : Heap) (lt : Int → Int → Bool) : List_IsSorted fuel h none lt = some (h, true) := by
  simp [List_IsSorted]

/-! ### `Heap` -/

theorem heapLazySetup_nil (h : Heap) : Heap_lazySetup h none = none := by
  simp [Heap_lazySetup]

theorem heapLazySetup_noLT (h : Heap) (l : Option Nat) : Heap_lazySetup h (some { LT := none, list := l }) = none := by
  simp [Heap_lazySetup]

theorem heapLazySetup_some (h : Heap) (lt : Int → Int → Bool) (l : Nat) :
    Heap_lazySetup h (some { LT := some lt, list := some l }) = some (h, some { LT := some lt, list := some l }) := by
  simp [Heap_lazySetup]

theorem heapLazySetup_fresh (h : Heap) (lt : Int → Int → Bool) :
    Heap_lazySetup h (some { LT := some lt, list := none }) =
      some (h.allocList.1.lazySetup h.nl, some { LT := some lt, list := some h.nl }) := by
  simp [Heap_lazySetup, newList, List_lazySetup]

/-- what `Heap.Push` does once its loop is over -/
def pushRest (l : Nat) (t : Int) (p : Heap × Option Unit) : Option Heap :=
  match p.2 with
  | some _ => some p.1
  | none => p.1.pushFront l t

theorem heapPushLoop_tie (h : Heap) (lt : Int → Int → Bool) (l : Nat) (t : Int) (fuel : Nat) (cur : Option Nat) :
    (Heap_Push_loop1 fuel h (some { LT := some lt, list := some l }) t cur).bind (pushRest l t) =
      h.heapPushLoop lt l t cur fuel := by
  induction fuel generalizing cur with
  | zero => simp [Heap_Push_loop1, Heap.heapPushLoop, pushRest]
  | succ fuel ih =>
    cases cur with
    | none => simp [Heap_Push_loop1, Heap.heapPushLoop, pushRest, Element_Ok, Heap.okOpt]
    | some e =>
      cases hok : (h.node e).ok with
      | false => simp [Heap_Push_loop1, Heap.heapPushLoop, pushRest, Element_Ok, Heap.okOpt, hok]
      | true =>
        by_cases hc : lt t (h.node e).item = true
        · simp only [Heap_Push_loop1, Heap.heapPushLoop, Element_Ok, Heap.okOpt, hok, hc, Element_Previous, ldH_some, ldE_some,
            Option.bind_eq_bind, Option.bind_some, Option.pure_def, if_true]
          exact ih _
        · simp only [Heap_Push_loop1, Heap.heapPushLoop, Element_Ok, Heap.okOpt, hok, hc, ldH_some, ldE_some,
            Option.bind_eq_bind, Option.bind_some, Option.pure_def, if_true, NewElement, Element_Append]
          cases (h.makeElem t).1.elemAppend e (some (h.makeElem t).2) with
          | none => simp
          | some q => simp [pushRest]

theorem pushBack_lazySetup (h : Heap) (l : Nat) (t : Int) : (h.lazySetup l).pushBack l t = h.pushBack l t := by
  simp [Heap.pushBack, lazySetup_idem]

theorem heapPush_tie (h : Heap) (lt : Int → Int → Bool) (l : Nat) (t : Int) :
    Heap_Push ((h.hdr l).length.toNat + 1) h (some { LT := some lt, list := some l }) t =
      (h.heapPush lt l t).map (fun μ => (μ, some { LT := some lt, list := some l })) := by
  by_cases h0 : (h.hdr l).length = 0
  · simp only [Heap_Push, heapLazySetup_some, Heap.heapPush, lazySetup_hdr_length, h0, List_PushBack, pushBack_lazySetup,
      ldH_some, ldL_some, Option.bind_eq_bind, Option.bind_some, Option.pure_def, decide_true, if_true]
    cases h.pushBack l t <;> rfl
  · simp only [Heap_Push, heapLazySetup_some, Heap.heapPush, lazySetup_hdr_length, h0, List_Back, List_PushFront,
      ldH_some, ldL_some, Option.bind_eq_bind, Option.bind_some, Option.pure_def, decide_false, if_false, Bool.false_eq_true,
      ← heapPushLoop_tie]
    cases Heap_Push_loop1 ((h.hdr l).length.toNat + 1) (h.lazySetup l) (some { LT := some lt, list := some l }) t
        ((h.lazySetup l).back l) with
    | none => rfl
    | some q =>
      obtain ⟨μ, r⟩ := q
      cases r with
      | some u => rfl
      | none =>
        simp only [pushRest, Option.bind_some]
        cases μ.pushFront l t <;> rfl

/-- a heap whose list does not exist yet: `Push` allocates it, then behaves like the model on the fresh list -/
theorem heapPush_fresh (fuel : Nat) (h : Heap) (lt : Int → Int → Bool) (t : Int) :
    Heap_Push fuel h (some { LT := some lt, list := none }) t =
      (h.allocList.1.heapPush lt h.nl t).map (fun μ => (μ, some { LT := some lt, list := some h.nl })) := by
  have hl : ((h.allocList.1.lazySetup h.nl).hdr h.nl).length = 0 := by
    rw [lazySetup_hdr_length]; simp
  simp only [Heap_Push, heapLazySetup_fresh, Heap.heapPush, lazySetup_idem, hl, List_PushBack,
    ldH_some, ldL_some, Option.bind_eq_bind, Option.bind_some, Option.pure_def, decide_true, if_true]
  cases (h.allocList.1.lazySetup h.nl).pushBack h.nl t <;> rfl

theorem heapPush_nil (fuel : Nat) (h : Heap) (t : Int) : Heap_Push fuel h none t = none := by
  simp [Heap_Push, heapLazySetup_nil]

theorem heapPop_tie (h : Heap) (lt : Int → Int → Bool) (l : Nat) :
    Heap_Pop h (some { LT := some lt, list := some l }) =
      (h.popFront l).map (fun p => (p.1, some { LT := some lt, list := some l }, (p.1.node p.2).item, (p.1.node p.2).ok)) := by
  simp only [Heap_Pop, heapLazySetup_some, List_PopFront, Element_Value, Element_Ok, Heap.okOpt, ldH_some,
    Option.bind_eq_bind, Option.bind_some, Option.pure_def]
  cases h.popFront l with
  | none => rfl
  | some q => rfl

theorem heapLen_tie (h : Heap) (lt : Option (Int → Int → Bool)) (l : Nat) :
    Heap_Len h (some { LT := lt, list := some l }) = some (h, some { LT := lt, list := some l }, (h.hdr l).length) := by
  simp [Heap_Len, List_Len]

theorem heapLen_fresh (h : Heap) (lt : Option (Int → Int → Bool)) :
    Heap_Len h (some { LT := lt, list := none }) = some (h, some { LT := lt, list := none }, 0) := by
  simp [Heap_Len]

/-! ### `split` -/

theorem splitLoop_tie (fuel : Nat) (h : Heap) (l out : Nat) (total : Int) (hr : RS h out) :
    split_loop1 fuel h (some l) total (some out) =
      (h.splitLoop l out (Int.tdiv total 2) fuel).map (fun μ => (μ, none)) := by
  induction fuel generalizing h with
  | zero => simp [split_loop1, Heap.splitLoop]
  | succ fuel ih =>
    by_cases hc : (h.hdr l).length > Int.tdiv total 2
    · simp only [split_loop1, Heap.splitLoop, List_Len, hc, List_Back, hr.lazySetup_eq, List_PopFront, Element_Append,
        ldL_some, Option.bind_eq_bind, Option.bind_some, Option.pure_def, decide_true, if_true]
      cases hb : h.back out with
      | none =>
        simp only [Option.bind_none]
        cases h.popFront l with
        | none => rfl
        | some q => rfl
      | some b =>
        simp only [Option.bind_some]
        cases hp : h.popFront l with
        | none => rfl
        | some q =>
          obtain ⟨h1, e⟩ := q
          simp only [Option.bind_some]
          cases ha : h1.elemAppend b (some e) with
          | none => rfl
          | some q2 =>
            obtain ⟨h2, r⟩ := q2
            simp only [Option.bind_some]
            exact ih h2 ((mono_elemAppend ha).2 out ((mono_popFront hp).2 out hr))
    · simp [split_loop1, Heap.splitLoop, List_Len, hc]

theorem split_tie (h : Heap) (l : Nat) (h0 : 0 ≤ (h.hdr l).length) :
    FunGen.Cmp.split ((h.hdr l).length.toNat + 1) h (some l) = (h.split l).map (fun p => (p.1, some p.2)) := by
  have hr : RS (h.allocList.1.lazySetup h.nl) h.nl := RS_lazySetup_self _ _
  simp only [FunGen.Cmp.split, Heap.split, List_Len, newList, List_lazySetup, ldL_some, Option.bind_eq_bind,
    Option.bind_some, Option.pure_def, splitLoop_tie _ _ _ _ _ hr, Int.tdiv_eq_ediv_of_nonneg h0, allocList_snd]
  cases (h.allocList.1.lazySetup h.nl).splitLoop l h.nl ((h.hdr l).length / 2) ((h.hdr l).length.toNat + 1) <;> rfl

/-! ### `merge` -/

theorem mono_extendLoop {src : Nat} (fuel : Nat) : ∀ {h h' : Heap} {back : Nat}, h.extendLoop src back fuel = some h' → Mono h h' := by
  induction fuel with
  | zero => intro h h' back he; simp only [Heap.extendLoop, Option.some.injEq] at he; subst he; exact Mono.refl _
  | succ fuel ih =>
    intro h h' back he
    unfold Heap.extendLoop at he
    simp only [Option.bind_eq_bind, Option.bind_eq_some_iff, Option.pure_def] at he
    obtain ⟨⟨h1, e⟩, hp, he⟩ := he
    simp only at he
    by_cases hok : (h1.node e).ok = true
    · simp only [hok, if_true, Option.bind_eq_some_iff] at he
      obtain ⟨⟨h2, b2⟩, ha, he⟩ := he
      exact ((mono_popFront hp).trans (mono_elemAppend ha)).trans (ih he)
    · simp only [hok, Bool.false_eq_true, if_false, Option.some.injEq] at he
      subst he; exact mono_popFront hp

theorem mono_extend {h h' : Heap} {l src : Nat} (he : h.extend l src = some h') : Mono h h' := by
  unfold Heap.extend at he
  by_cases h0 : (h.hdr src).length = 0
  · simp only [h0, if_true, Option.some.injEq] at he; subst he; exact Mono.refl _
  · simp only [h0, if_false, Option.bind_eq_bind, Option.bind_eq_some_iff] at he
    obtain ⟨b, _, he⟩ := he
    exact (mono_lazySetup h l).trans (mono_extendLoop _ he)

theorem mono_splitLoop {l out : Nat} {half : Int} (fuel : Nat) : ∀ {h h' : Heap}, h.splitLoop l out half fuel = some h' → Mono h h' := by
  induction fuel with
  | zero => intro h h' he; simp only [Heap.splitLoop, Option.some.injEq] at he; subst he; exact Mono.refl _
  | succ fuel ih =>
    intro h h' he
    unfold Heap.splitLoop at he
    by_cases hc : (h.hdr l).length > half
    · simp only [hc, if_true, Option.bind_eq_bind, Option.bind_eq_some_iff] at he
      obtain ⟨b, _, ⟨h1, e⟩, hp, ⟨h2, r⟩, ha, he⟩ := he
      exact ((mono_popFront hp).trans (mono_elemAppend ha)).trans (ih he)
    · simp only [hc, if_false, Option.some.injEq] at he; subst he; exact Mono.refl _

theorem mono_mergeLoop {lt : Int → Int → Bool} {a b out : Nat} (fuel : Nat) :
    ∀ {h h' : Heap}, h.mergeLoop lt a b out fuel = some h' → Mono h h' := by
  induction fuel with
  | zero => intro h h' he; simp only [Heap.mergeLoop, Option.some.injEq] at he; subst he; exact Mono.refl _
  | succ fuel ih =>
    intro h h' he
    unfold Heap.mergeLoop at he
    by_cases hc : ((h.hdr a).length ≠ 0 && (h.hdr b).length ≠ 0) = true
    · simp only [hc, if_true, Option.bind_eq_bind, Option.bind_eq_some_iff] at he
      obtain ⟨fa, _, fb, _, ob, _, he⟩ := he
      have m0 : Mono h ((h.lazySetup a).lazySetup b) := (mono_lazySetup h a).trans (mono_lazySetup _ b)
      by_cases hlt : lt (((h.lazySetup a).lazySetup b).node fa).item (((h.lazySetup a).lazySetup b).node fb).item = true
      · simp only [hlt, if_true, Option.bind_eq_some_iff] at he
        obtain ⟨⟨h1, e⟩, hp, ⟨h2, r⟩, ha, he⟩ := he
        exact ((m0.trans (mono_popFront hp)).trans (mono_elemAppend ha)).trans (ih he)
      · simp only [hlt, Bool.false_eq_true, if_false, Option.bind_eq_some_iff] at he
        obtain ⟨⟨h1, e⟩, hp, ⟨h2, r⟩, ha, he⟩ := he
        exact ((m0.trans (mono_popFront hp)).trans (mono_elemAppend ha)).trans (ih he)
    · simp only [hc, Bool.false_eq_true, if_false, Option.some.injEq] at he; subst he; exact Mono.refl _

theorem mergeLoop_tie (fuel : Nat) (lt : Int → Int → Bool) (a b out : Nat) :
    ∀ (h : Heap), RS h a → RS h b → RS h out →
      merge_loop1 fuel h lt (some a) (some b) (some out) = (h.mergeLoop lt a b out fuel).map (fun μ => (μ, none)) := by
  induction fuel with
  | zero => intro h _ _ _; simp [merge_loop1, Heap.mergeLoop]
  | succ fuel ih =>
    intro h ha hb ho
    by_cases ha0 : (h.hdr a).length = 0
    · simp [merge_loop1, Heap.mergeLoop, List_Len, ha0]
    by_cases hb0 : (h.hdr b).length = 0
    · simp [merge_loop1, Heap.mergeLoop, List_Len, ha0, hb0]
    simp only [merge_loop1, Heap.mergeLoop, List_Len, ha0, hb0, List_Front, List_Back, ha.lazySetup_eq, hb.lazySetup_eq,
      ho.lazySetup_eq, List_PopFront, Element_Append, Element_Value, ldL_some, Option.bind_eq_bind, Option.bind_some,
      Option.pure_def, decide_true, decide_false, if_true, ne_eq, not_false_eq_true, Bool.and_self, decide_not, Bool.not_false]
    cases hfa : h.front a with
    | none => simp
    | some fa =>
      cases hfb : h.front b with
      | none => simp
      | some fb =>
        simp only [ldE_some, Option.bind_some]
        have step : ∀ (src : Nat), RS h src →
            (do let (μ, v10) ← (do let (μ, e) ← h.popFront src; pure (μ, some e) : Option (Heap × Option Nat))
                let (μ, v11) ← (do let a ← h.back out; let (μ, r) ← μ.elemAppend a v10; pure (μ, some r) : Option (Heap × Option Nat))
                merge_loop1 fuel μ lt (some a) (some b) (some out)) =
            Option.map (fun μ => (μ, (none : Option (Option Nat))))
              (do let ob ← h.back out
                  let (h1, e) ← h.popFront src
                  let (h2, _) ← h1.elemAppend ob (some e)
                  h2.mergeLoop lt a b out fuel) := by
          intro src _
          cases hob : h.back out with
          | none =>
            simp only [Option.bind_eq_bind, Option.bind_none, Option.pure_def, Option.map_none]
            cases h.popFront src with
            | none => rfl
            | some q => rfl
          | some ob =>
            simp only [Option.bind_eq_bind, Option.bind_some, Option.pure_def]
            cases hp : h.popFront src with
            | none => rfl
            | some q =>
              obtain ⟨h1, e⟩ := q
              simp only [Option.bind_some]
              cases hap : h1.elemAppend ob (some e) with
              | none => rfl
              | some q2 =>
                obtain ⟨h2, r⟩ := q2
                simp only [Option.bind_some]
                have m := (mono_popFront hp).trans (mono_elemAppend hap)
                exact ih h2 (m.2 a ha) (m.2 b hb) (m.2 out ho)
        by_cases hlt : lt (h.node fa).item (h.node fb).item = true
        · simp only [hlt, if_true]
          exact step a ha
        · simp only [hlt, Bool.false_eq_true, if_false]
          exact step b hb

/-- the fuel the model gives the loop of `merge` -/
def mergeFuel (h : Heap) (a b : Nat) : Nat := ((h.hdr a).length + (h.hdr b).length).toNat + 1

theorem merge_tie (h : Heap) (lt : Int → Int → Bool) (a b : Nat) (ha : RS h a) (hb : RS h b) (han : a ≠ h.nl) (hbn : b ≠ h.nl) :
    FunGen.Cmp.merge (mergeFuel h a b) h lt (some a) (some b) = (h.merge lt a b).map (fun p => (p.1, some p.2)) := by
  have ho : RS (h.allocList.1.lazySetup h.nl) h.nl := RS_lazySetup_self _ _
  have ha' : RS (h.allocList.1.lazySetup h.nl) a := by
    apply RS.lazySetup; unfold RS at *; simpa [han] using ha
  have hb' : RS (h.allocList.1.lazySetup h.nl) b := by
    apply RS.lazySetup; unfold RS at *; simpa [hbn] using hb
  have hla : ((h.allocList.1.lazySetup h.nl).hdr a).length = (h.hdr a).length := by rw [lazySetup_hdr_length]; simp [han]
  have hlb : ((h.allocList.1.lazySetup h.nl).hdr b).length = (h.hdr b).length := by rw [lazySetup_hdr_length]; simp [hbn]
  simp only [FunGen.Cmp.merge, Heap.merge, newList, List_lazySetup, Option.bind_eq_bind, Option.bind_some, Option.pure_def,
    allocList_snd, mergeLoop_tie _ _ _ _ _ _ ha' hb' ho, mergeFuel, hla, hlb, List_Extend]
  cases (h.allocList.1.lazySetup h.nl).mergeLoop lt a b h.nl (((h.hdr a).length + (h.hdr b).length).toNat + 1) with
  | none => rfl
  | some h1 =>
    simp only [Option.map_some, Option.bind_some]
    cases h1.extend h.nl a with
    | none => rfl
    | some h2 =>
      simp only [Option.bind_some]
      cases h2.extend h.nl b <;> rfl

/-! ### `mergeSort`, `SortMerge` -/

/-- every list allocated at or after address `n` has its sentinel (with `n` = the allocation pointer before the call
    this says nothing about the caller's heap: it is the invariant of the lists the sort itself creates) -/
def RSFrom (n : Nat) (h : Heap) : Prop := ∀ l, n ≤ l → l < h.nl → RS h l

/-- the sentinels of the lists allocated in `h` are kept -/
def Keep (h h' : Heap) : Prop := ∀ l, l < h.nl → RS h l → RS h' l

theorem RSFrom.mono {n : Nat} {h h' : Heap} (ha : RSFrom n h) (m : Mono h h') : RSFrom n h' :=
  fun l hn hl => m.2 l (ha l hn (m.1 ▸ hl))

theorem rsFrom_newList {n : Nat} {h : Heap} (ha : RSFrom n h) : RSFrom n (h.allocList.1.lazySetup h.nl) := by
  intro l hn hl
  rw [lazySetup_nl, allocList_fst_nl] at hl
  by_cases he : l = h.nl
  · subst he; exact RS_lazySetup_self _ _
  · apply RS.lazySetup
    have := ha l hn (by omega)
    unfold RS at *; simpa [he] using this

theorem keep_newList (h : Heap) : Keep h (h.allocList.1.lazySetup h.nl) := by
  intro l hl hr
  apply RS.lazySetup
  have he : l ≠ h.nl := by omega
  unfold RS at *; simpa [he] using hr

theorem Keep.mono {h h1 h' : Heap} (k : Keep h h1) (m : Mono h1 h') : Keep h h' := fun l hl hr => m.2 l (k l hl hr)

theorem split_post {n : Nat} {h h' : Heap} {l out : Nat} (ha : RSFrom n h) (he : h.split l = some (h', out)) :
    RSFrom n h' ∧ h'.nl = h.nl + 1 ∧ out = h.nl ∧ Keep h h' := by
  unfold Heap.split at he
  simp only [Option.bind_eq_bind, Option.bind_eq_some_iff, Option.pure_def, Option.some.injEq, Prod.mk.injEq] at he
  obtain ⟨h1, hs, rfl, rfl⟩ := he
  have m := mono_splitLoop _ hs
  exact ⟨(rsFrom_newList ha).mono m, by rw [m.1, lazySetup_nl, allocList_fst_nl], rfl, (keep_newList h).mono m⟩

theorem merge_post {n : Nat} {h h' : Heap} {lt : Int → Int → Bool} {a b out : Nat} (ha : RSFrom n h)
    (he : h.merge lt a b = some (h', out)) : RSFrom n h' ∧ h'.nl = h.nl + 1 ∧ out = h.nl ∧ Keep h h' := by
  unfold Heap.merge at he
  simp only [Option.bind_eq_bind, Option.bind_eq_some_iff, Option.pure_def, Option.some.injEq, Prod.mk.injEq] at he
  obtain ⟨h1, hs, h2, e1, h3, e2, rfl, rfl⟩ := he
  have m := ((mono_mergeLoop _ hs).trans (mono_extend e1)).trans (mono_extend e2)
  exact ⟨(rsFrom_newList ha).mono m, by rw [m.1, lazySetup_nl, allocList_fst_nl], rfl, (keep_newList h).mono m⟩

theorem mergeSort_post (lt : Int → Int → Bool) (n : Nat) (fuel : Nat) : ∀ {h h' : Heap} {head r : Nat},
    RSFrom n h → n ≤ h.nl → head < h.nl → RS h head → h.mergeSort lt head fuel = some (h', r) →
    RSFrom n h' ∧ h.nl ≤ h'.nl ∧ r < h'.nl ∧ RS h' r ∧ Keep h h' := by
  induction fuel with
  | zero =>
    intro h h' head r ha hn hh hr he
    simp only [Heap.mergeSort, Option.some.injEq, Prod.mk.injEq] at he
    obtain ⟨rfl, rfl⟩ := he; exact ⟨ha, Nat.le_refl _, hh, hr, fun _ _ x => x⟩
  | succ fuel ih =>
    intro h h' head r ha hn hh hr he
    unfold Heap.mergeSort at he
    by_cases hc : (h.hdr head).length < 2
    · simp only [hc, if_true, Option.some.injEq, Prod.mk.injEq] at he
      obtain ⟨rfl, rfl⟩ := he; exact ⟨ha, Nat.le_refl _, hh, hr, fun _ _ x => x⟩
    · simp only [hc, if_false, Option.bind_eq_bind, Option.bind_eq_some_iff] at he
      obtain ⟨⟨h1, tail⟩, e1, ⟨h2, hd⟩, e2, ⟨h3, tl⟩, e3, e4⟩ := he
      obtain ⟨a1, n1, rfl, k1⟩ := split_post ha e1
      obtain ⟨a2, n2, r2, s2, k2⟩ := ih a1 (by omega) (by omega) (k1 head hh hr) e2
      obtain ⟨a3, n3, r3, s3, k3⟩ := ih a2 (by omega) (by omega) (k2 h.nl (by omega) (a1 h.nl hn (by omega))) e3
      obtain ⟨a4, n4, rfl, k4⟩ := merge_post a3 e4
      refine ⟨a4, by omega, by omega, a4 h3.nl (by omega) (by omega), ?_⟩
      intro l hl x
      exact k4 l (by omega) (k3 l (by omega) (k2 l (by omega) (k1 l hl x)))

/-- the fuel measures of the hand-written model (`Heap.split`, `Heap.merge`, `Heap.sortMerge`), as the policy the
    generated functions are instantiated with -/
def handFuel : String → Heap → List (Option Nat) → Nat := fun f h args =>
  if f = "split" then (match args with | [some l] => (h.hdr l).length.toNat + 1 | _ => 0)
  else if f = "merge" then (match args with | [some a, some b] => mergeFuel h a b | _ => 0)
  else if f = "mergeSort" then (match args with | [some l] => (h.hdr l).length.toNat + 1 | _ => 0)
  else 0

theorem handFuel_split (h : Heap) (l : Nat) : handFuel "split" h [some l] = (h.hdr l).length.toNat + 1 := by
  simp [handFuel]
theorem handFuel_merge (h : Heap) (a b : Nat) : handFuel "merge" h [some a, some b] = mergeFuel h a b := by
  simp [handFuel]
theorem handFuel_mergeSort (h : Heap) (l : Nat) : handFuel "mergeSort" h [some l] = (h.hdr l).length.toNat + 1 := by
  simp [handFuel]

theorem mergeSort_tie (lt : Int → Int → Bool) (n : Nat) (fuel : Nat) : ∀ (h : Heap) (head : Nat),
    RSFrom n h → n ≤ h.nl → head < h.nl → RS h head →
    FunGen.Cmp.mergeSort fuel handFuel h (some head) lt = (h.mergeSort lt head fuel).map (fun p => (p.1, some p.2)) := by
  induction fuel with
  | zero => intro h head _ _ _ _; simp [FunGen.Cmp.mergeSort, Heap.mergeSort]
  | succ fuel ih =>
    intro h head ha hn hh hr
    by_cases hc : (h.hdr head).length < 2
    · simp [FunGen.Cmp.mergeSort, Heap.mergeSort, List_Len, hc]
    · have h0 : 0 ≤ (h.hdr head).length := by omega
      simp only [FunGen.Cmp.mergeSort, Heap.mergeSort, List_Len, hc, ldL_some, Option.bind_eq_bind, Option.bind_some,
        Option.pure_def, decide_false, Bool.false_eq_true, if_false, handFuel_split, split_tie h head h0]
      cases e1 : h.split head with
      | none => rfl
      | some q1 =>
        obtain ⟨h1, tail⟩ := q1
        obtain ⟨a1, n1, rfl, k1⟩ := split_post ha e1
        have hr1 := k1 head hh hr
        simp only [Option.map_some, Option.bind_some, ih h1 head a1 (by omega) (by omega) hr1]
        cases e2 : h1.mergeSort lt head fuel with
        | none => rfl
        | some q2 =>
          obtain ⟨h2, hd⟩ := q2
          obtain ⟨a2, n2, r2, s2, k2⟩ := mergeSort_post lt n fuel a1 (by omega) (by omega) hr1 e2
          have ht2 : RS h2 h.nl := k2 h.nl (by omega) (a1 h.nl hn (by omega))
          simp only [Option.map_some, Option.bind_some, ih h2 h.nl a2 (by omega) (by omega) ht2]
          cases e3 : h2.mergeSort lt h.nl fuel with
          | none => rfl
          | some q3 =>
            obtain ⟨h3, tl⟩ := q3
            obtain ⟨a3, n3, r3, s3, k3⟩ := mergeSort_post lt n fuel a2 (by omega) (by omega) ht2 e3
            simp only [Option.map_some, Option.bind_some, handFuel_merge]
            rw [merge_tie h3 lt hd tl (k3 hd r2 s2) s3 (by omega) (by omega)]
            cases h3.merge lt hd tl <;> rfl

/-- `l.SortMerge(lt)` on an allocated list whose sentinel exists if it has two or more elements (in a well-formed
    heap it then does: `sortMerge_tie_wf`) -/
theorem sortMerge_tie (h : Heap) (lt : Int → Int → Bool) (l : Nat) (hl : l < h.nl) (hr : 2 ≤ (h.hdr l).length → RS h l) :
    List_SortMerge handFuel h (some l) lt = h.sortMerge lt l := by
  have hm : FunGen.Cmp.mergeSort ((h.hdr l).length.toNat + 1) handFuel h (some l) lt =
      (h.mergeSort lt l ((h.hdr l).length.toNat + 1)).map (fun p => (p.1, some p.2)) := by
    by_cases hc : (h.hdr l).length < 2
    · simp [FunGen.Cmp.mergeSort, Heap.mergeSort, List_Len, hc]
    · exact mergeSort_tie lt h.nl _ h l (fun l h1 h2 => by omega) (Nat.le_refl _) hl (hr (by omega))
  simp only [List_SortMerge, Heap.sortMerge, handFuel_mergeSort, hm, Option.bind_eq_bind, Option.pure_def, List_Extend]
  cases h.mergeSort lt l ((h.hdr l).length.toNat + 1) with
  | none => rfl
  | some q =>
    obtain ⟨h1, r⟩ := q
    by_cases hr : r = l
    · subst hr; simp
    · simp [hr]

theorem sortMerge_tie_wf {h : Heap} {g : Nat → List Nat} (hw : WF h g) (lt : Int → Int → Bool) {l : Nat} (hl : l < h.nl) :
    List_SortMerge handFuel h (some l) lt = h.sortMerge lt l := by
  apply sortMerge_tie h lt l hl
  intro h2
  unfold RS
  cases hx : (h.hdr l).root with
  | some r => rfl
  | none =>
    have := (hw.lwf l).empty hx
    have hlen := (hw.lwf l).len
    rw [this] at hlen; simp at hlen; omega

end FunProofs.GenTieCmp
